/-
  Driver.lean — line protocol between the Python harness and the executable Lean model.
  Run with   lake env lean --run Driver.lean < requests > responses
  One JSON request per line, one JSON response per line.  Numbers that are rationals travel as
  strings "n/d" (or "n"); a float64 of the implementation is sent as the exact rational it denotes.
-/
import Lean.Data.Json
import ForsysModel.Model
open Lean Forsys

abbrev E := Except String

def parseRat (s : String) : E Rat :=
  match s.splitOn "/" with
  | [n] => match n.trimAscii.toString.toInt? with
    | some k => pure (k : Rat)
    | none => throw s!"bad rational {s}"
  | [n, d] => match n.trimAscii.toString.toInt?, d.trimAscii.toString.toNat? with
    | some k, some m => if m = 0 then throw s!"zero denominator {s}" else pure (mkRat k m)
    | _, _ => throw s!"bad rational {s}"
  | _ => throw s!"bad rational {s}"

def jRat (j : Json) : E Rat :=
  match j with
  | .str s => parseRat s
  | .num _ => do let k ← j.getInt?; pure (k : Rat)
  | _ => throw "rational expected"

def jInt (j : Json) : E Int := j.getInt?
def jNat (j : Json) : E Nat := j.getNat?
def jBool (j : Json) : E Bool :=
  match j with
  | .bool b => pure b
  | .num _ => do let k ← j.getInt?; pure (k != 0)
  | _ => throw "bool expected"

def jList {α : Type} (f : Json → E α) (j : Json) : E (List α) := do
  let a ← j.getArr?
  a.toList.mapM f

def jIdx (j : Json) (i : Nat) : E Json := do
  let a ← j.getArr?
  match a[i]? with
  | some x => pure x
  | none => throw s!"index {i} out of range"

def jPt (j : Json) : E Pt := do
  let x ← jRat (← jIdx j 0); let y ← jRat (← jIdx j 1); pure ⟨x, y⟩

def jVec (j : Json) : E Vec := do
  let x ← jRat (← jIdx j 0); let y ← jRat (← jIdx j 1); pure ⟨x, y⟩

def field (j : Json) (k : String) : E Json := j.getObjVal? k

def jMesh (j : Json) : E Mesh := do
  let vs ← jList (fun r => do
      let key ← jInt (← jIdx r 0); let id ← jInt (← jIdx r 1)
      let x ← jRat (← jIdx r 2); let y ← jRat (← jIdx r 3)
      let oe ← jList jInt (← jIdx r 4); let oc ← jList jInt (← jIdx r 5)
      pure (key, ({ id := id, x := x, y := y, ownEdges := oe, ownCells := oc } : Vertex))) (← field j "v")
  let es ← jList (fun r => do
      let key ← jInt (← jIdx r 0); let id ← jInt (← jIdx r 1)
      let a ← jInt (← jIdx r 2); let b ← jInt (← jIdx r 3); let same ← jBool (← jIdx r 4)
      pure (key, ({ id := id, v1 := a, v2 := b, same := same } : SEdge))) (← field j "e")
  let cs ← jList (fun r => do
      let key ← jInt (← jIdx r 0); let id ← jInt (← jIdx r 1)
      let vs ← jList jInt (← jIdx r 2); let same ← jBool (← jIdx r 3)
      pure (key, ({ id := id, verts := vs, same := same } : Cell))) (← field j "c")
  pure { vertices := vs, edges := es, cells := cs }

/-! output helpers -/
def rJ (q : Rat) : Json := .str (if q.den = 1 then toString q.num else s!"{q.num}/{q.den}")
def iJ (i : Int) : Json := .num (JsonNumber.fromInt i)
def nJ (n : Nat) : Json := .num (JsonNumber.fromNat n)
def lJ {α : Type} (f : α → Json) (l : List α) : Json := .arr (l.map f).toArray
def oJ {α : Type} (f : α → Json) : Option α → Json
  | some a => f a
  | none => .null
def ptJ (p : Pt) : Json := lJ rJ [p.x, p.y]
def vecJ (v : Vec) : Json := lJ rJ [v.x, v.y]

def meshJ (m : Mesh) : Json :=
  Json.mkObj [
    ("v", lJ (fun (p : Id × Vertex) => Json.arr #[iJ p.1, iJ p.2.id, rJ p.2.x, rJ p.2.y, lJ iJ p.2.ownEdges, lJ iJ p.2.ownCells]) m.vertices),
    ("e", lJ (fun (p : Id × SEdge) => Json.arr #[iJ p.1, iJ p.2.id, iJ p.2.v1, iJ p.2.v2, .bool p.2.same]) m.edges),
    ("c", lJ (fun (p : Id × Cell) => Json.arr #[iJ p.1, iJ p.2.id, lJ iJ p.2.verts, .bool p.2.same]) m.cells)]

/-! operations -/

def opCellGeom (j : Json) : E Json := do
  let ps ← jList jPt (← field j "pts")
  let n := ps.length
  pure <| Json.mkObj [
    ("area", rJ (area ps)), ("sign", iJ (areaSign ps)),
    ("next", lJ nJ ((List.range n).map (nextIdx ps))),
    ("prev", lJ nJ ((List.range n).map (prevIdx ps))),
    ("perimSq", lJ rJ (perimeterSq ps)),
    ("cm", ptJ (cm ps)),
    ("shoelace2", rJ (shoelace2 ps))]

def opConsistent (j : Json) : E Json := do
  let m ← jMesh (← field j "mesh")
  pure <| Json.mkObj [("ok", .bool m.Consistent), ("failing", lJ Json.str m.failing)]

def opFrame (j : Json) : E Json := do
  let m ← jMesh (← field j "mesh")
  let earr := m.bigEdgesList
  pure <| Json.mkObj [
    ("earr", lJ (lJ iJ) earr),
    ("perCell", lJ (fun (p : Id × Cell) => Json.arr #[iJ p.1, lJ (lJ iJ) (cellPaths m.isJunction p.2.verts)]) m.cells),
    ("externalIds", lJ nJ (m.externalEdgesId earr)),
    ("internalIdx", lJ nJ (m.internalIdx earr)),
    ("extFlags", lJ (fun e => Json.bool (m.bigEdgeExternal e)) earr),
    ("tensionRows", lJ nJ (m.tensionRows earr)),
    ("beEdges", lJ (fun e => lJ (oJ iJ) (m.bigEdgeEdges e)) earr),
    ("beOwnCells", lJ (fun e => lJ iJ (m.bigEdgeOwnCells e)) earr),
    ("neighbors", lJ (fun (p : Id × Cell) => Json.arr #[iJ p.1, lJ iJ (m.neighbors p.2)]) m.cells),
    ("consistent", .bool m.Consistent)]

def opByCells (j : Json) : E Json := do
  let m ← jMesh (← field j "mesh")
  let pairs ← jList (fun r => do let a ← jInt (← jIdx r 0); let b ← jInt (← jIdx r 1); pure (a, b)) (← field j "pairs")
  let earr := m.bigEdgesList
  pure <| Json.mkObj [("res", lJ (fun (p : Id × Id) => lJ nJ (m.bigEdgeByCells earr p.1 p.2)) pairs)]

def opGenMesh (j : Json) : E Json := do
  let m ← jMesh (← field j "mesh")
  let ne ← jNat (← field j "ne")
  let rep ← jBool (← field j "replace")
  let r := m.generateMesh ne rep
  let err : Json := match r.error with
    | none => .null
    | some .keyError => .str "KeyError"
    | some .indexError => .str "IndexError"
  pure <| Json.mkObj [("mesh", meshJ r.mesh), ("nEdgeArray", lJ (lJ iJ) r.nEdgeArray), ("error", err),
                      ("consistent", .bool r.mesh.Consistent), ("failing", lJ Json.str r.mesh.failing)]

def opPick (j : Json) : E Json := do
  let ne ← jNat (← field j "ne")
  let e ← jList jInt (← field j "e")
  pure <| Json.mkObj [("res", lJ iJ (pick ne e))]

def opFMatrix (j : Json) : E Json := do
  let m ← jMesh (← field j "mesh")
  let centers ← jList jPt (← field j "centers")
  let cosj ← field j "cos"
  let cos ← (match cosj with | .null => pure none | x => do let q ← jRat x; pure (some q) : E (Option Rat))
  let ig ← jBool (← field j "ignoreFour")
  let out := ({ mesh := m, centers := centers, cosLimit := cos, ignoreFour := ig } : FMInput).build
  pure <| Json.mkObj [
    ("earr", lJ (lJ iJ) out.earr), ("deletes", lJ iJ out.deletes), ("used", lJ (lJ iJ) out.used),
    ("rows", lJ (fun (r : Id × Bool × List (Option Vec)) =>
        Json.arr #[iJ r.1, .bool r.2.1, lJ (oJ vecJ) r.2.2]) out.rows)]

def opRealign (j : Json) : E Json := do
  let internal ← jList (jList jInt) (← field j "internal")
  let del ← jList jInt (← field j "deletes")
  let x ← jList jRat (← field j "x")
  pure <| Json.mkObj [("res", lJ rJ (realign internal del x))]

def dispatch (j : Json) : E Json := do
  let op ← (← field j "op").getStr?
  match op with
  | "cell_geom" => opCellGeom j
  | "consistent" => opConsistent j
  | "frame" => opFrame j
  | "by_cells" => opByCells j
  | "genmesh" => opGenMesh j
  | "pick" => opPick j
  | "fmatrix" => opFMatrix j
  | "realign" => opRealign j
  | "ping" => pure (Json.mkObj [("pong", .bool true)])
  | _ => throw s!"unknown op {op}"

partial def loop (hin hout : IO.FS.Stream) : IO Unit := do
  let line ← hin.getLine
  if line.isEmpty then return ()
  let t := line.trimAscii.toString
  if t.isEmpty then loop hin hout else
  let resp : Json :=
    match Json.parse t >>= dispatch with
    | .ok r => r
    | .error e => Json.mkObj [("error", .str e)]
  hout.putStrLn resp.compress
  hout.flush
  loop hin hout

def main : IO Unit := do
  loop (← IO.getStdin) (← IO.getStdout)
