/-
  Driver.lean — line protocol between the Python harness and the executable Lean model.
  Run with   lake env lean --run Driver.lean < requests > responses
  One JSON request per line `{"op": name, ...}`, one JSON response per line.
  Operations live in ForsysModel/Driver/*.lean; each module exports `ops : List Op`.
-/
import ForsysModel.Driver.Core
import ForsysModel.Driver.Time
import ForsysModel.Driver.Pressure
import ForsysModel.Driver.Session
import ForsysModel.Driver.C14
import ForsysModel.Driver.C19
import ForsysModel.Driver.C17
import ForsysModel.Driver.C18
import ForsysModel.Driver.C15
import ForsysModel.Driver.Wkt
open Lean Forsys Forsys.Driver

def allOps : List Op := Forsys.Driver.Core.ops ++ Forsys.Driver.Time.ops ++ Forsys.Driver.Pressure.ops ++ Forsys.Driver.Session.ops ++ Forsys.Driver.C19.ops ++ Forsys.Driver.C17.ops ++ Forsys.Driver.C18.ops ++ Forsys.Driver.C14.ops ++ Forsys.Driver.C15.ops ++ Forsys.Driver.Wkt.ops

def dispatch (j : Json) : E Json := do
  let op ← (← field j "op").getStr?
  if op == "ping" then return Json.mkObj [("pong", .bool true)]
  match allOps.find? (fun o => o.1 == op) with
  | some o => o.2 j
  | none => throw s!"unknown op {op}"

partial def loop (hin hout : IO.FS.Stream) : IO Unit := do
  let line ← hin.getLine
  if line.isEmpty then return ()
  let t := line.trimAscii.toString
  if t.isEmpty then loop hin hout else
  let resp : Json :=
    match Json.parse t >>= dispatch with
    | .ok r => r
    | .error e => Json.mkObj [("error", .str e)]
  hout.putStrLn resp.compress
  hout.flush
  loop hin hout

def main : IO Unit := do
  loop (← IO.getStdin) (← IO.getStdout)
