/- helper lemmas for Props/C05more.lean: scaling of differences and gradients, the squared residual as a sum over the
   equations, convex combinations of candidates, the variational inequality at a minimiser over a convex set -/
import ForsysModel.Props.C05bound
import Mathlib.Algebra.BigOperators.Group.List.Basic
import Mathlib.Tactic.FieldSimp
namespace Forsys

theorem c05_vsub_vscale (k : Rat) (a b : List Rat) :
    vsub (vscale k a) (vscale k b) = vscale k (vsub a b) := by
  induction a generalizing b with
  | nil => simp [vsub, vscale]
  | cons x a ih =>
    cases b with
    | nil => simp [vsub, vscale]
    | cons y b =>
      have := ih b
      simp only [vsub, vscale] at this ⊢
      simp [this, mul_sub]

/-- the gradient is homogeneous: `Mᵀ(M(kz) − kb) = k·Mᵀ(Mz − b)` -/
theorem c05_grad_vscale (M : Mat) (b z : List Rat) (k : Rat) :
    grad M (vscale k b) (vscale k z) = vscale k (grad M b z) := by
  unfold grad
  rw [mulVec_vscale, c05_vsub_vscale]
  have hl : (vscale k z).length = z.length := by simp [vscale]
  rw [hl]
  simp only [tMulVec, vscale, List.map_map]
  apply List.map_congr_left
  intro j _
  have := dot_smul_right k (col M j) (vsub (mulVec M z) b)
  simpa [vscale] using this

/-- the squared residual as a sum over the equations (rows paired with their right-hand sides) -/
theorem c05_residSq_eq_sum (M : Mat) (b x : List Rat) :
    residSq M b x = ((M.zip b).map fun p => (dot p.1 x - p.2) * (dot p.1 x - p.2)).sum := by
  induction M generalizing b with
  | nil => simp [residSq, normSq, mulVec, vsub]
  | cons r M ih =>
    cases b with
    | nil => simp [residSq, normSq, mulVec, vsub]
    | cons c b =>
      have := ih b
      simp only [residSq, normSq, mulVec, vsub] at this ⊢
      simp [this]

theorem c05_normSq_vsub_append (a b : List Rat) (c d : Rat) (h : a.length = b.length) :
    normSq (vsub (a ++ [c]) (b ++ [d])) = normSq (vsub a b) + (c - d) * (c - d) := by
  rw [vsub_append a [c] b [d] h]
  unfold normSq
  rw [dot_append _ _ _ _ rfl]
  simp [vsub]

/-- convex combination of two equally long vectors, minus the first -/
theorem c05_convex (t : Rat) (z u : List Rat) (h : z.length = u.length) :
    vsub (vadd (vscale (1 - t) z) (vscale t u)) z = vscale t (vsub u z) := by
  induction z generalizing u with
  | nil => cases u <;> simp [vsub, vadd, vscale]
  | cons x z ih =>
    cases u with
    | nil => simp at h
    | cons y u =>
      have := ih u (by simpa using h)
      simp only [vsub, vadd, vscale] at this ⊢
      simp only [List.map_cons, List.zipWith_cons_cons, this, List.cons.injEq, and_true]
      ring

/-- a convex combination of non-negative vectors is non-negative -/
theorem c05_convex_nonneg (t : Rat) (z u : List Rat) (ht0 : 0 ≤ t) (ht1 : t ≤ 1)
    (hz : ∀ v ∈ z, 0 ≤ v) (hu : ∀ v ∈ u, 0 ≤ v) :
    ∀ v ∈ vadd (vscale (1 - t) z) (vscale t u), 0 ≤ v := by
  induction z generalizing u with
  | nil => simp [vadd, vscale]
  | cons x z ih =>
    cases u with
    | nil => simp [vadd, vscale]
    | cons y u =>
      have := ih u (fun v hv => hz v (by simp [hv])) (fun v hv => hu v (by simp [hv]))
      simp only [vadd, vscale] at this ⊢
      simp only [List.map_cons, List.zipWith_cons_cons, List.mem_cons, forall_eq_or_imp]
      refine ⟨?_, this⟩
      have hx := hz x (by simp)
      have hy := hu y (by simp)
      have : 0 ≤ (1 - t) * x := mul_nonneg (by linarith) hx
      have : 0 ≤ t * y := mul_nonneg ht0 hy
      linarith

/-- a vector whose product with every non-negative vector is non-negative is itself non-negative -/
theorem c05_forall_nonneg_of_dot (w : List Rat)
    (h : ∀ u : List Rat, u.length = w.length → (∀ v ∈ u, 0 ≤ v) → 0 ≤ dot u w) : ∀ v ∈ w, 0 ≤ v := by
  induction w with
  | nil => simp
  | cons x w ih =>
    intro v hv
    rcases List.mem_cons.mp hv with rfl | hv
    · have := h (1 :: List.replicate w.length 0) (by simp) (by
        intro a ha
        rcases List.mem_cons.mp ha with rfl | ha
        · norm_num
        · rw [(List.mem_replicate.mp ha).2])
      rw [dot_cons, dot_eq_zero_of_left _ w (fun a ha => (List.mem_replicate.mp ha).2)] at this
      linarith
    · refine ih (fun u hu hu0 => ?_) v hv
      have := h (0 :: u) (by simp [hu]) (by
        intro a ha
        rcases List.mem_cons.mp ha with rfl | ha
        · exact le_rfl
        · exact hu0 a ha)
      rw [dot_cons] at this
      linarith

/-- the variational inequality: if `z` is no worse than every point of the segment from `z` to `u`, the gradient at `z`
    does not point downhill towards `u` -/
theorem c05_variational_core (M : Mat) (b z u : List Rat) (m n : Nat) (hs : Shaped M b m n)
    (hz : z.length = n) (hu : u.length = n)
    (hmin : ∀ t : Rat, 0 < t → t ≤ 1 → residSq M b z ≤ residSq M b (vadd (vscale (1 - t) z) (vscale t u))) :
    dot z (grad M b z) ≤ dot u (grad M b z) := by
  by_contra hlt
  have hlt := not_le.mp hlt
  set D := dot u (grad M b z) - dot z (grad M b z) with hD
  set N := normSq (mulVec M (vsub u z)) with hN
  have hDneg : D < 0 := by linarith
  have hN0 : 0 ≤ N := normSq_nonneg _
  have hND : 0 < N - D := by linarith
  set t := -D / (N - D) with ht
  have ht0 : 0 < t := div_pos (by linarith) hND
  have ht1 : t ≤ 1 := by rw [ht, div_le_one hND]; linarith
  set y := vadd (vscale (1 - t) z) (vscale t u) with hy
  have hylen : y.length = n := by simp [hy, vadd, vscale, hz, hu]
  have hm := hmin t ht0 ht1
  have hd := residSq_diff M b z y m n hs hz hylen
  rw [hy, c05_convex t z u (hz.trans hu.symm), mulVec_vscale, normSq_vscale,
    dot_add_left _ _ _ (by simp [vscale, hz, hu]), dot_smul_left, dot_smul_left, ← hy, ← hN] at hd
  have key : t * (t * N) + 2 * ((1 - t) * dot z (grad M b z) + t * dot u (grad M b z) - dot z (grad M b z))
      = t * (t * N + 2 * D) := by rw [hD]; ring
  have h2 : t * N + 2 * D < 0 := by
    have : t * N + 2 * D = D * (N - 2 * D) / (N - D) := by
      rw [ht]; field_simp; ring
    rw [this]
    apply div_neg_of_neg_of_pos _ hND
    exact mul_neg_of_neg_of_pos hDneg (by linarith)
  have h3 : t * (t * N + 2 * D) < 0 := mul_neg_of_pos_of_neg ht0 h2
  linarith

end Forsys
