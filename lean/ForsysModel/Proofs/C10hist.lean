/-
  Helper lemmas for ForsysModel/Props/C10hist.lean (property C10, histories of any length).
  The central notion is the *view* of a frame: its FState and the two result-store entries under its key.
  Every operation acts on views frame by frame (`step_view_congr`) and leaves the views of the frames it does not
  touch alone (`step_view_untouched`); a state is determined by its views (`view_ext`).
-/
import ForsysModel.Proofs.C10

namespace Forsys.C10h
open Forsys Forsys.C10

variable {B O P : Type}

/-- everything the state holds about frame `t` -/
def view (st : SState B) (t : Nat) : Option (FState B) × Option (Option (List Rat)) × Option (Option (List Rat)) :=
  (st.frames[t]?, st.storeForces[t]?, st.storePress[t]?)

/-- does the operation address frame `t` (for the multi-frame operation: is `t` among its frames) -/
def touches (t : Nat) : Op B O P → Bool
  | .buildForce s _ => s == t
  | .solveStress s _ => s == t
  | .buildPressure s => s == t
  | .solvePressure s _ => s == t
  | .sysVelocity ts => ts.contains t

theorem view_eq_iff (st1 st2 : SState B) (t : Nat) :
    view st1 t = view st2 t ↔ st1.frames[t]? = st2.frames[t]? ∧ st1.storeForces[t]? = st2.storeForces[t]? ∧
      st1.storePress[t]? = st2.storePress[t]? := by
  simp [view]

theorem view_ext {st1 st2 : SState B} (h : ∀ t, view st1 t = view st2 t) : st1 = st2 := by
  cases st1 with
  | mk a1 b1 c1 =>
    cases st2 with
    | mk a2 b2 c2 =>
      have ha : a1 = a2 := List.ext_getElem? fun t => ((view_eq_iff _ _ t).1 (h t)).1
      have hb : b1 = b2 := List.ext_getElem? fun t => ((view_eq_iff _ _ t).1 (h t)).2.1
      have hc : c1 = c2 := List.ext_getElem? fun t => ((view_eq_iff _ _ t).1 (h t)).2.2
      subst ha hb hc; rfl

theorem updFrame_view (st : SState B) (s t : Nat) (g : FState B → FState B) :
    view (updFrame st s g) t =
      ((if t = s then (st.frames[t]?).map g else st.frames[t]?), st.storeForces[t]?, st.storePress[t]?) := by
  unfold view
  rw [updFrame_frames_getElem?]
  rfl

theorem updFrame_view_congr (st1 st2 : SState B) (s t : Nat) (g : FState B → FState B) (h : view st1 t = view st2 t) :
    view (updFrame st1 s g) t = view (updFrame st2 s g) t := by
  obtain ⟨h1, h2, h3⟩ := (view_eq_iff _ _ _).1 h
  rw [updFrame_view, updFrame_view, h1, h2, h3]

theorem updFrame_view_ne (st : SState B) (s t : Nat) (g : FState B → FState B) (h : t ≠ s) :
    view (updFrame st s g) t = view st t := by
  rw [updFrame_view, if_neg h]; rfl

/-! ### the multi-frame operation -/

def sysVelFold (K : Kernels B O P) (ts : List Nat) (st : SState B) : SState B :=
  ts.foldl (fun s t => updFrame s t fun f => { f with build := some K.defaultBuild }) st

theorem step_sysVel (K : Kernels B O P) (frs : List SFrame) (st : SState B) (ts : List Nat) :
    step K frs st (.sysVelocity ts) = sysVelFold K ts st := rfl

theorem sysVel_view_congr (K : Kernels B O P) (ts : List Nat) (t : Nat) (st1 st2 : SState B) (h : view st1 t = view st2 t) :
    view (sysVelFold K ts st1) t = view (sysVelFold K ts st2) t := by
  induction ts generalizing st1 st2 with
  | nil => exact h
  | cons a ts ih =>
    unfold sysVelFold
    rw [List.foldl_cons, List.foldl_cons]
    exact ih _ _ (updFrame_view_congr st1 st2 a t _ h)

theorem sysVel_view_untouched (K : Kernels B O P) (ts : List Nat) (t : Nat) (st : SState B) (h : t ∉ ts) :
    view (sysVelFold K ts st) t = view st t := by
  induction ts generalizing st with
  | nil => rfl
  | cons a ts ih =>
    unfold sysVelFold
    rw [List.foldl_cons]
    have h1 : t ∉ ts := fun hh => h (List.mem_cons_of_mem _ hh)
    have h2 : t ≠ a := fun hh => h (hh ▸ List.mem_cons_self)
    exact (ih _ h1).trans (updFrame_view_ne st a t _ h2)

/-! ### closed forms at the addressed frame -/

theorem solvedState_frames_map (K : Kernels B O P) (fr : SFrame) (st : SState B) (t : Nat) (b : B) (o : O) (T : List Rat) :
    (solvedState K fr st t b o T).frames[t]? = (st.frames[t]?).map (solvedFrame K fr t b o T) := by
  show (updFrame _ _ _).frames[t]? = _
  rw [updFrame_frames_getElem?, if_pos rfl]

theorem solvedState_storeForces_map (K : Kernels B O P) (fr : SFrame) (st : SState B) (t : Nat) (b : B) (o : O) (T : List Rat) :
    (solvedState K fr st t b o T).storeForces[t]? =
      (st.storeForces[t]?).map (fun _ => some (reportForces fr.internal (K.usedOf t b) (K.solveF t b o))) := by
  show (listSet _ _ _)[t]? = _
  rw [listSet_getElem?, if_pos rfl]

theorem solvedState_storePress_same (K : Kernels B O P) (fr : SFrame) (st : SState B) (t : Nat) (b : B) (o : O) (T : List Rat) :
    (solvedState K fr st t b o T).storePress = st.storePress := rfl

theorem solvedState_view (K : Kernels B O P) (fr : SFrame) (st : SState B) (t : Nat) (b : B) (o : O) (T : List Rat) :
    view (solvedState K fr st t b o T) t =
      ((st.frames[t]?).map (solvedFrame K fr t b o T),
       (st.storeForces[t]?).map (fun _ => some (reportForces fr.internal (K.usedOf t b) (K.solveF t b o))),
       st.storePress[t]?) := by
  unfold view
  rw [solvedState_frames_map, solvedState_storeForces_map, solvedState_storePress_same]

theorem pressState_frames_map (K : Kernels B O P) (st : SState B) (t : Nat) (ts : List Rat) (p : P) :
    (pressState K st t ts p).frames[t]? =
      (st.frames[t]?).map (fun f => { f with cellP := some (K.pressF t ts p) }) := by
  simp only [pressState]
  rw [updFrame_frames_getElem?, if_pos rfl]

theorem pressState_storePress_map (K : Kernels B O P) (st : SState B) (t : Nat) (ts : List Rat) (p : P) :
    (pressState K st t ts p).storePress[t]? = (st.storePress[t]?).map (fun _ => some (K.pressF t ts p)) := by
  simp only [pressState]
  rw [listSet_getElem?, if_pos rfl]

theorem pressState_storeForces_same (K : Kernels B O P) (st : SState B) (t : Nat) (ts : List Rat) (p : P) :
    (pressState K st t ts p).storeForces = st.storeForces := rfl

theorem pressState_view (K : Kernels B O P) (st : SState B) (t : Nat) (ts : List Rat) (p : P) :
    view (pressState K st t ts p) t =
      ((st.frames[t]?).map (fun f => { f with cellP := some (K.pressF t ts p) }),
       st.storeForces[t]?,
       (st.storePress[t]?).map (fun _ => some (K.pressF t ts p))) := by
  unfold view
  rw [pressState_frames_map, pressState_storePress_map, pressState_storeForces_same]

/-! ### locality of `step` -/

theorem touches_frame (op : Op B O P) (s t : Nat) (hs : op.frame = some s) : touches t op = (s == t) := by
  cases op <;> simp [Op.frame] at hs <;> subst hs <;> rfl

/-- an operation that does not touch frame `t` leaves its view alone -/
theorem step_view_untouched (K : Kernels B O P) (frs : List SFrame) (st : SState B) (op : Op B O P) (t : Nat)
    (h : touches t op = false) : view (step K frs st op) t = view st t := by
  cases hfo : op.frame with
  | some s =>
    rw [touches_frame op s t hfo] at h
    have hst : s ≠ t := by simpa using h
    exact (view_eq_iff _ _ _).2 (step_other_frame' K frs st op s t hfo hst)
  | none =>
    cases op with
    | sysVelocity ts =>
      rw [step_sysVel]
      apply sysVel_view_untouched
      simpa [touches] using h
    | buildForce s b => simp [Op.frame] at hfo
    | solveStress s o => simp [Op.frame] at hfo
    | buildPressure s => simp [Op.frame] at hfo
    | solvePressure s p => simp [Op.frame] at hfo

theorem solveStress_view_congr (K : Kernels B O P) (frs : List SFrame) (st1 st2 : SState B) (t : Nat) (o : O)
    (h : view st1 t = view st2 t) :
    view (step K frs st1 (.solveStress t o)) t = view (step K frs st2 (.solveStress t o)) t := by
  obtain ⟨h1, h2, h3⟩ := (view_eq_iff _ _ _).1 h
  cases hfr : frs[t]? with
  | none =>
    have e1 : step K frs st1 (.solveStress t o) = st1 := by simp only [step, hfr]
    have e2 : step K frs st2 (.solveStress t o) = st2 := by simp only [step, hfr]
    rw [e1, e2]; exact h
  | some fr =>
    cases hf : st1.frames[t]? with
    | none =>
      have hf2 : st2.frames[t]? = none := h1 ▸ hf
      have e1 : step K frs st1 (.solveStress t o) = st1 := by simp only [step, hfr, hf]
      have e2 : step K frs st2 (.solveStress t o) = st2 := by simp only [step, hfr, hf2]
      rw [e1, e2]; exact h
    | some f =>
      have hf2 : st2.frames[t]? = some f := h1 ▸ hf
      cases hb : f.build with
      | none =>
        have e1 : step K frs st1 (.solveStress t o) = st1 := by simp only [step, hfr, hf, hb]
        have e2 : step K frs st2 (.solveStress t o) = st2 := by simp only [step, hfr, hf2, hb]
        rw [e1, e2]; exact h
      | some b =>
        rw [step_solveStress_some K frs st1 t o fr f b hfr hf hb, step_solveStress_some K frs st2 t o fr f b hfr hf2 hb,
          solvedState_view, solvedState_view, h1, h2, h3]

theorem solvePressure_view_congr (K : Kernels B O P) (frs : List SFrame) (st1 st2 : SState B) (t : Nat) (p : P)
    (h : view st1 t = view st2 t) :
    view (step K frs st1 (.solvePressure t p)) t = view (step K frs st2 (.solvePressure t p)) t := by
  obtain ⟨h1, h2, h3⟩ := (view_eq_iff _ _ _).1 h
  cases hf : st1.frames[t]? with
  | none =>
    have hf2 : st2.frames[t]? = none := h1 ▸ hf
    have e1 : step K frs st1 (.solvePressure t p) = st1 := by simp only [step, hf]
    have e2 : step K frs st2 (.solvePressure t p) = st2 := by simp only [step, hf2]
    rw [e1, e2]; exact h
  | some f =>
    have hf2 : st2.frames[t]? = some f := h1 ▸ hf
    cases hp : f.pbuild with
    | none =>
      have e1 : step K frs st1 (.solvePressure t p) = st1 := by simp only [step, hf, hp]
      have e2 : step K frs st2 (.solvePressure t p) = st2 := by simp only [step, hf2, hp]
      rw [e1, e2]; exact h
    | some ts =>
      rw [step_solvePressure_some K frs st1 t p f ts hf hp, step_solvePressure_some K frs st2 t p f ts hf2 hp,
        pressState_view, pressState_view, h1, h2, h3]

/-- the new view of frame `t` is a function of the operation and the old view of frame `t` alone -/
theorem step_view_congr (K : Kernels B O P) (frs : List SFrame) (st1 st2 : SState B) (op : Op B O P) (t : Nat)
    (h : view st1 t = view st2 t) : view (step K frs st1 op) t = view (step K frs st2 op) t := by
  cases ht : touches t op with
  | false => rw [step_view_untouched K frs st1 op t ht, step_view_untouched K frs st2 op t ht]; exact h
  | true =>
    cases op with
    | sysVelocity ts => rw [step_sysVel, step_sysVel]; exact sysVel_view_congr K ts t st1 st2 h
    | buildForce s b => exact updFrame_view_congr st1 st2 s t _ h
    | buildPressure s => exact updFrame_view_congr st1 st2 s t _ h
    | solveStress s o =>
      have hst : s = t := by simpa [touches] using ht
      subst hst
      exact solveStress_view_congr K frs st1 st2 s o h
    | solvePressure s p =>
      have hst : s = t := by simpa [touches] using ht
      subst hst
      exact solvePressure_view_congr K frs st1 st2 s p h

/-! ### commutation -/

theorem step_commute' (K : Kernels B O P) (frs : List SFrame) (st : SState B) (a b : Op B O P)
    (h : ∀ u, touches u a = false ∨ touches u b = false) :
    step K frs (step K frs st a) b = step K frs (step K frs st b) a := by
  apply view_ext
  intro u
  rcases h u with ha | hb
  · rw [step_view_untouched K frs (step K frs st b) a u ha]
    exact step_view_congr K frs _ _ b u (step_view_untouched K frs st a u ha)
  · rw [step_view_untouched K frs (step K frs st a) b u hb]
    exact (step_view_congr K frs _ _ a u (step_view_untouched K frs st b u hb)).symm

/-! ### erasing the operations that do not touch frame `t` -/

theorem run_cons (K : Kernels B O P) (frs : List SFrame) (st : SState B) (op : Op B O P) (ops : List (Op B O P)) :
    run K frs st (op :: ops) = run K frs (step K frs st op) ops := rfl

theorem run_view_congr (K : Kernels B O P) (frs : List SFrame) (ops : List (Op B O P)) (t : Nat) (st1 st2 : SState B)
    (h : view st1 t = view st2 t) : view (run K frs st1 ops) t = view (run K frs st2 ops) t := by
  induction ops generalizing st1 st2 with
  | nil => exact h
  | cons op ops ih => rw [run_cons, run_cons]; exact ih _ _ (step_view_congr K frs st1 st2 op t h)

theorem run_erase' (K : Kernels B O P) (frs : List SFrame) (ops : List (Op B O P)) (t : Nat) (st1 st2 : SState B)
    (h : view st1 t = view st2 t) :
    view (run K frs st1 ops) t = view (run K frs st2 (ops.filter (touches t))) t := by
  induction ops generalizing st1 st2 with
  | nil => exact h
  | cons op ops ih =>
    cases ht : touches t op with
    | false =>
      rw [List.filter_cons_of_neg (by simp [ht]), run_cons]
      exact ih _ _ ((step_view_untouched K frs st1 op t ht).trans h)
    | true =>
      rw [List.filter_cons_of_pos (by simp [ht]), run_cons, run_cons]
      exact ih _ _ (step_view_congr K frs st1 st2 op t h)

/-! ### idempotence -/

theorem writeBack_idem {fr : SFrame} (hw : WF fr) (used : List Nat) (x T : List Rat) (hsub : used.Sublist fr.internal)
    (hlen : T.length = fr.nEdges) :
    writeBack fr used x (writeBack fr used x T) = writeBack fr used x T := by
  apply writeBack_pure
  · rw [writeBack_length]
  · intro e he
    rw [writeBack_length, hlen] at he
    obtain ⟨i, hil, hei⟩ := hw.covered e he
    by_cases hi : i ∈ fr.internal
    · exact Or.inl ⟨i, hi, hei⟩
    · exact Or.inr (writeBack_external hw hsub hil hi hei)

theorem solveStress_idem' (K : Kernels B O P) (frs : List SFrame) (hw : ∀ fr ∈ frs, WF fr) (hk : WFK K frs)
    (st : SState B) (hinv : SI frs st) (t : Nat) (o : O) :
    step K frs (step K frs st (.solveStress t o)) (.solveStress t o) = step K frs st (.solveStress t o) := by
  rcases step_solveStress_cases K frs st t o with h | ⟨fr, f, b, hfr, hf, hb, h⟩
  · rw [h, h]
  · rw [h]
    have hwf : WF fr := hw fr (List.mem_of_getElem? hfr)
    have hfi : FI fr f := hinv.2.2.2 t fr f hfr hf
    have hsub := hk.used_sub t fr hfr b
    have hf' := solvedState_frames_self K fr st t b o f.edgeT f hf
    have hb' : (solvedFrame K fr t b o f.edgeT f).build = some b := hb
    rw [step_solveStress_some K frs _ t o fr _ b hfr hf' hb']
    apply view_ext
    intro u
    by_cases hu : u = t
    · subst hu
      rw [solvedState_view, solvedState_view, solvedState_frames_map, solvedState_storeForces_map,
        solvedState_storePress_same, hf]
      have hidem := writeBack_idem hwf (K.usedOf u b) (K.solveF u b o) f.edgeT hsub hfi.lenE
      have e1 : (solvedFrame K fr u b o f.edgeT f).edgeT = writeBack fr (K.usedOf u b) (K.solveF u b o) f.edgeT := rfl
      rw [e1]
      cases hsf : st.storeForces[u]? with
      | none => simp [solvedFrame, hidem]
      | some v => simp [solvedFrame, hidem]
    · exact (view_eq_iff _ _ _).2 (solvedState_other K fr _ t u b o _ (Ne.symm hu))

theorem solvePressure_idem' (K : Kernels B O P) (frs : List SFrame) (st : SState B) (t : Nat) (p : P) :
    step K frs (step K frs st (.solvePressure t p)) (.solvePressure t p) = step K frs st (.solvePressure t p) := by
  rcases step_solvePressure_cases K frs st t p with h | ⟨f, ts, hf, hp, h⟩
  · rw [h, h]
  · rw [h]
    have hf' : (pressState K st t ts p).frames[t]? = some { f with cellP := some (K.pressF t ts p) } := by
      rw [pressState_frames_map, hf]; rfl
    rw [step_solvePressure_some K frs _ t p _ ts hf' hp]
    apply view_ext
    intro u
    by_cases hu : u = t
    · subst hu
      rw [pressState_view, pressState_view, pressState_frames_map, pressState_storePress_map,
        pressState_storeForces_same, hf]
      cases hsf : st.storePress[u]? with
      | none => simp
      | some v => simp
    · exact (view_eq_iff _ _ _).2 (pressState_other K _ t u ts p (Ne.symm hu))

/-! ### the result stores mirror the frames -/

def StoreOK (st : SState B) : Prop :=
  ∀ (t : Nat) (f : FState B), st.frames[t]? = some f → st.storeForces[t]? = some f.forces ∧ st.storePress[t]? = some f.cellP

theorem init_storeOK (frs : List SFrame) : StoreOK (SState.init frs : SState B) := by
  intro t f h
  simp only [SState.init, List.getElem?_map] at h ⊢
  cases hfr : frs[t]? with
  | none => rw [hfr] at h; simp at h
  | some fr =>
    rw [hfr] at h
    simp only [Option.map_some, Option.some.injEq] at h
    subst h
    exact ⟨rfl, rfl⟩

theorem updFrame_storeOK (st : SState B) (s : Nat) (g : FState B → FState B) (h : StoreOK st)
    (hg : ∀ f, (g f).forces = f.forces ∧ (g f).cellP = f.cellP) : StoreOK (updFrame st s g) := by
  intro t f hf
  rw [updFrame_frames_getElem?] at hf
  show st.storeForces[t]? = _ ∧ st.storePress[t]? = _
  split at hf
  · cases hf0 : st.frames[t]? with
    | none => rw [hf0] at hf; simp at hf
    | some f0 =>
      rw [hf0] at hf
      simp only [Option.map_some, Option.some.injEq] at hf
      subst hf
      rw [(hg f0).1, (hg f0).2]
      exact h t f0 hf0
  · exact h t f hf

theorem sysVel_storeOK (K : Kernels B O P) (ts : List Nat) (st : SState B) (h : StoreOK st) : StoreOK (sysVelFold K ts st) := by
  induction ts generalizing st with
  | nil => exact h
  | cons a ts ih =>
    unfold sysVelFold
    rw [List.foldl_cons]
    exact ih _ (updFrame_storeOK st a _ h (fun f => ⟨rfl, rfl⟩))

theorem solvedState_storeOK (K : Kernels B O P) (fr : SFrame) (st : SState B) (t : Nat) (b : B) (o : O) (T : List Rat)
    (h : StoreOK st) : StoreOK (solvedState K fr st t b o T) := by
  intro u f hf
  by_cases hu : u = t
  · subst hu
    rw [solvedState_frames_map] at hf
    cases hf0 : st.frames[u]? with
    | none => rw [hf0] at hf; simp at hf
    | some f0 =>
      rw [hf0] at hf
      simp only [Option.map_some, Option.some.injEq] at hf
      subst hf
      obtain ⟨h1, h2⟩ := h u f0 hf0
      rw [solvedState_storeForces_map, h1, solvedState_storePress_same, h2]
      exact ⟨rfl, rfl⟩
  · obtain ⟨e1, e2, e3⟩ := solvedState_other K fr st t u b o T (Ne.symm hu)
    rw [e1] at hf
    rw [e2, e3]
    exact h u f hf

theorem pressState_storeOK (K : Kernels B O P) (st : SState B) (t : Nat) (ts : List Rat) (p : P)
    (h : StoreOK st) : StoreOK (pressState K st t ts p) := by
  intro u f hf
  by_cases hu : u = t
  · subst hu
    rw [pressState_frames_map] at hf
    cases hf0 : st.frames[u]? with
    | none => rw [hf0] at hf; simp at hf
    | some f0 =>
      rw [hf0] at hf
      simp only [Option.map_some, Option.some.injEq] at hf
      subst hf
      obtain ⟨h1, h2⟩ := h u f0 hf0
      rw [pressState_storePress_map, h2, pressState_storeForces_same, h1]
      exact ⟨rfl, rfl⟩
  · obtain ⟨e1, e2, e3⟩ := pressState_other K st t u ts p (Ne.symm hu)
    rw [e1] at hf
    rw [e2, e3]
    exact h u f hf

theorem step_storeOK (K : Kernels B O P) (frs : List SFrame) (st : SState B) (op : Op B O P) (h : StoreOK st) :
    StoreOK (step K frs st op) := by
  cases op with
  | sysVelocity ts => rw [step_sysVel]; exact sysVel_storeOK K ts st h
  | buildForce s b => exact updFrame_storeOK st s _ h (fun f => ⟨rfl, rfl⟩)
  | buildPressure s => exact updFrame_storeOK st s _ h (fun f => ⟨rfl, rfl⟩)
  | solveStress s o =>
    rcases step_solveStress_cases K frs st s o with e | ⟨fr, f, b, _, _, _, e⟩
    · rw [e]; exact h
    · rw [e]; exact solvedState_storeOK K fr st s b o _ h
  | solvePressure s p =>
    rcases step_solvePressure_cases K frs st s p with e | ⟨f, ts, _, _, e⟩
    · rw [e]; exact h
    · rw [e]; exact pressState_storeOK K st s ts p h

theorem run_storeOK (K : Kernels B O P) (frs : List SFrame) (ops : List (Op B O P)) (st : SState B) (h : StoreOK st) :
    StoreOK (run K frs st ops) := by
  induction ops generalizing st with
  | nil => exact h
  | cons op ops ih => rw [run_cons]; exact ih _ (step_storeOK K frs st op h)

/-! ### closed form of a frame after any history -/

/-- mesh-edge tensions of a fresh frame solved once with build `b` and options `o` -/
def solvedE (K : Kernels B O P) (fr : SFrame) (t : Nat) (b : B) (o : O) : List Rat :=
  writeBack fr (K.usedOf t b) (K.solveF t b o) (List.replicate fr.nEdges 0)

/-- interface tensions a pressure matrix can capture: all zero (never solved) or those of one solve -/
def IsTension (K : Kernels B O P) (fr : SFrame) (t : Nat) (bt : List Rat) : Prop :=
  bt = List.replicate fr.edgesOf.length 0 ∨ ∃ b o, bt = assignBig fr (solvedE K fr t b o)

def Shape (K : Kernels B O P) (fr : SFrame) (t : Nat) (f : FState B) : Prop :=
  ((f.forces = none ∧ f.edgeT = List.replicate fr.nEdges 0 ∧ f.beT = List.replicate fr.edgesOf.length 0) ∨
    ∃ b o, f.forces = some (reportForces fr.internal (K.usedOf t b) (K.solveF t b o)) ∧ f.edgeT = solvedE K fr t b o ∧
      f.beT = assignBig fr (solvedE K fr t b o)) ∧
  (∀ ts, f.pbuild = some ts → IsTension K fr t ts) ∧
  (f.cellP = none ∨ ∃ ts p, IsTension K fr t ts ∧ f.cellP = some (K.pressF t ts p))

def ShapeOK (K : Kernels B O P) (frs : List SFrame) (st : SState B) : Prop :=
  ∀ (t : Nat) (fr : SFrame) (f : FState B), frs[t]? = some fr → st.frames[t]? = some f → Shape K fr t f

theorem init_shapeOK (K : Kernels B O P) (frs : List SFrame) : ShapeOK K frs (SState.init frs : SState B) := by
  intro t fr f hfr hf
  rw [init_frames_getElem? frs t fr hfr] at hf
  simp only [Option.some.injEq] at hf
  subst hf
  exact ⟨Or.inl ⟨rfl, rfl, rfl⟩, fun ts h => by simp [FState.init] at h, Or.inl rfl⟩

theorem updFrame_shapeOK (K : Kernels B O P) (frs : List SFrame) (st : SState B) (s : Nat) (g : FState B → FState B)
    (h : ShapeOK K frs st) (hg : ∀ fr f, frs[s]? = some fr → st.frames[s]? = some f → Shape K fr s f → Shape K fr s (g f)) :
    ShapeOK K frs (updFrame st s g) := by
  intro t fr f hfr hf
  rw [updFrame_frames_getElem?] at hf
  split at hf
  · rename_i hts
    subst hts
    cases hf0 : st.frames[t]? with
    | none => rw [hf0] at hf; simp at hf
    | some f0 =>
      rw [hf0] at hf
      simp only [Option.map_some, Option.some.injEq] at hf
      subst hf
      exact hg fr f0 hfr hf0 (h t fr f0 hfr hf0)
  · exact h t fr f hfr hf

theorem sysVel_shapeOK (K : Kernels B O P) (frs : List SFrame) (ts : List Nat) (st : SState B) (h : ShapeOK K frs st) :
    ShapeOK K frs (sysVelFold K ts st) := by
  induction ts generalizing st with
  | nil => exact h
  | cons a ts ih =>
    unfold sysVelFold
    rw [List.foldl_cons]
    exact ih _ (updFrame_shapeOK K frs st a _ h (fun fr f _ _ hs => hs))

theorem writeBack_of_FI {fr : SFrame} (hw : WF fr) {f : FState B} (hfi : FI fr f) (used : List Nat) (x : List Rat) :
    writeBack fr used x f.edgeT = writeBack fr used x (List.replicate fr.nEdges 0) := by
  apply writeBack_pure
  · rw [hfi.lenE, List.length_replicate]
  · intro e he
    have he1 := he
    rw [hfi.lenE] at he
    obtain ⟨i, hil, hei⟩ := hw.covered e he
    by_cases hi : i ∈ fr.internal
    · exact Or.inl ⟨i, hi, hei⟩
    · right
      have z1 := hfi.extZero i hil hi e hei
      simp only [List.getD_eq_getElem?_getD, List.getElem?_eq_getElem he1, Option.getD_some] at z1
      rw [List.getElem?_eq_getElem he1, z1, List.getElem?_replicate, if_pos he]

theorem solvedState_shapeOK (K : Kernels B O P) (frs : List SFrame) (fr : SFrame) (st : SState B) (t : Nat) (b : B) (o : O)
    (f : FState B) (hfr : frs[t]? = some fr) (_hf : st.frames[t]? = some f) (hw : WF fr) (hfi : FI fr f)
    (h : ShapeOK K frs st) : ShapeOK K frs (solvedState K fr st t b o f.edgeT) := by
  have hsh : ShapeOK K frs (updFrame st t (solvedFrame K fr t b o f.edgeT)) := by
    apply updFrame_shapeOK K frs st t _ h
    intro fr' f' hfr' hf' hs
    rw [hfr] at hfr'
    simp only [Option.some.injEq] at hfr'
    subst hfr'
    refine ⟨Or.inr ⟨b, o, rfl, ?_, ?_⟩, hs.2.1, hs.2.2⟩
    · show writeBack _ _ _ _ = _
      exact writeBack_of_FI hw hfi _ _
    · show assignBig _ (writeBack _ _ _ _) = _
      rw [writeBack_of_FI hw hfi]; rfl
  exact hsh

theorem pressState_shapeOK (K : Kernels B O P) (frs : List SFrame) (st : SState B) (t : Nat) (ts : List Rat) (p : P)
    (f : FState B) (hf : st.frames[t]? = some f) (hp : f.pbuild = some ts)
    (h : ShapeOK K frs st) : ShapeOK K frs (pressState K st t ts p) := by
  have hsh : ShapeOK K frs (updFrame st t (fun f => { f with cellP := some (K.pressF t ts p) })) := by
    apply updFrame_shapeOK K frs st t _ h
    intro fr' f' hfr' hf' hs
    rw [hf] at hf'
    simp only [Option.some.injEq] at hf'
    subst hf'
    exact ⟨hs.1, hs.2.1, Or.inr ⟨ts, p, hs.2.1 ts hp, rfl⟩⟩
  exact hsh

theorem step_shapeOK (K : Kernels B O P) (frs : List SFrame) (hw : ∀ fr ∈ frs, WF fr) (st : SState B) (op : Op B O P)
    (hinv : SI frs st) (h : ShapeOK K frs st) : ShapeOK K frs (step K frs st op) := by
  cases op with
  | sysVelocity ts => rw [step_sysVel]; exact sysVel_shapeOK K frs ts st h
  | buildForce s b => exact updFrame_shapeOK K frs st s _ h (fun fr f _ _ hs => hs)
  | buildPressure s =>
    apply updFrame_shapeOK K frs st s _ h
    intro fr f _ _ hs
    refine ⟨hs.1, ?_, hs.2.2⟩
    intro ts hts
    have hts' : f.beT = ts := by simpa using hts
    subst hts'
    rcases hs.1 with ⟨_, _, h3⟩ | ⟨b, o, _, _, h3⟩
    · exact Or.inl h3
    · exact Or.inr ⟨b, o, h3⟩
  | solveStress s o =>
    rcases step_solveStress_cases K frs st s o with e | ⟨fr, f, b, hfr, hf, _, e⟩
    · rw [e]; exact h
    · rw [e]
      exact solvedState_shapeOK K frs fr st s b o f hfr hf (hw fr (List.mem_of_getElem? hfr)) (hinv.2.2.2 s fr f hfr hf) h
  | solvePressure s p =>
    rcases step_solvePressure_cases K frs st s p with e | ⟨f, ts, hf, hp, e⟩
    · rw [e]; exact h
    · rw [e]; exact pressState_shapeOK K frs st s ts p f hf hp h

theorem run_shapeOK (K : Kernels B O P) (frs : List SFrame) (hw : ∀ fr ∈ frs, WF fr) (hk : WFK K frs)
    (ops : List (Op B O P)) (st : SState B) (hinv : SI frs st) (h : ShapeOK K frs st) : ShapeOK K frs (run K frs st ops) := by
  induction ops generalizing st with
  | nil => exact h
  | cons op ops ih =>
    rw [run_cons]
    exact ih _ (step_inv' K frs hw hk st op hinv) (step_shapeOK K frs hw st op hinv h)

/-- what one solve of a fresh frame stores (from `solveStress_report'` applied to a fresh object) -/
theorem solved_spec (K : Kernels B O P) (frs : List SFrame) (hw : ∀ fr ∈ frs, WF fr) (hk : WFK K frs) (t : Nat) (fr : SFrame)
    (hfr : frs[t]? = some fr) (b : B) (o : O) :
    (∀ (k i : Nat), (K.usedOf t b)[k]? = some i →
        (assignBig fr (solvedE K fr t b o)).getD i 0 = (K.solveF t b o).getD k 0 ∧
        ∀ e ∈ fr.edgesOf.getD i [], (solvedE K fr t b o).getD e 0 = (K.solveF t b o).getD k 0) ∧
    (∀ i ∈ fr.internal, i ∉ K.usedOf t b → (assignBig fr (solvedE K fr t b o)).getD i 1 = 0) ∧
    (∀ i, i < fr.edgesOf.length → i ∉ fr.internal → (assignBig fr (solvedE K fr t b o)).getD i 1 = 0) := by
  have hsi : SI frs (step K frs (SState.init frs : SState B) (.buildForce t b)) :=
    step_inv' K frs hw hk _ _ (init_inv' frs)
  have hf0 : (step K frs (SState.init frs : SState B) (.buildForce t b)).frames[t]? =
      some { (FState.init fr : FState B) with build := some b } := by
    show (updFrame _ _ _).frames[t]? = _
    rw [updFrame_frames_getElem?, if_pos rfl, init_frames_getElem? frs t fr hfr]; rfl
  obtain ⟨f', h1, _, _, h4, h5, h6⟩ :=
    solveStress_report' K frs _ t o b fr _ hfr hf0 rfl (hw fr (List.mem_of_getElem? hfr)) hk hsi
  rw [step_solveStress_some K frs _ t o fr _ b hfr hf0 rfl, solvedState_frames_self K fr _ t b o _ _ hf0] at h1
  simp only [Option.some.injEq] at h1
  subst h1
  exact ⟨h4, h5, h6⟩

theorem run_report_table' (K : Kernels B O P) (frs : List SFrame) (hw : ∀ fr ∈ frs, WF fr) (hk : WFK K frs)
    (ops : List (Op B O P)) (t : Nat) (fr : SFrame) (f : FState B) (l : List Rat) (hfr : frs[t]? = some fr)
    (hf : (run K frs (SState.init frs) ops).frames[t]? = some f) (hl : f.forces = some l) :
    l.length = fr.internal.length ∧ f.beT.length = fr.edgesOf.length ∧ f.edgeT.length = fr.nEdges ∧
    (∀ (n i : Nat), fr.internal[n]? = some i →
        (l[n]? = some (-1) ∧ f.beT.getD i 1 = 0) ∨
        (∃ v, l[n]? = some v ∧ f.beT.getD i 0 = v ∧ ∀ e ∈ fr.edgesOf.getD i [], f.edgeT.getD e 0 = v)) ∧
    (∀ i, i < fr.edgesOf.length → i ∉ fr.internal →
        f.beT.getD i 1 = 0 ∧ ∀ e ∈ fr.edgesOf.getD i [], f.edgeT.getD e 0 = 0) := by
  have hsi := run_inv' K frs hw hk ops _ (init_inv' frs)
  have hfi : FI fr f := hsi.2.2.2 t fr f hfr hf
  have hsh := run_shapeOK K frs hw hk ops _ (init_inv' frs) (init_shapeOK K frs) t fr f hfr hf
  rcases hsh.1 with ⟨h0, _, _⟩ | ⟨b, o, h1, h2, h3⟩
  · rw [h0] at hl; simp at hl
  · rw [h1] at hl
    simp only [Option.some.injEq] at hl
    subst hl
    have hwf := hw fr (List.mem_of_getElem? hfr)
    have hsub := hk.used_sub t fr hfr b
    have hnd : (K.usedOf t b).Nodup := hsub.nodup hwf.internal_nodup
    obtain ⟨r1, r2, r3⟩ := reportForces_spec' fr.internal (K.usedOf t b) (K.solveF t b o) hnd
    obtain ⟨s1, s2, s3⟩ := solved_spec K frs hw hk t fr hfr b o
    refine ⟨r1, hfi.lenB, hfi.lenE, ?_, ?_⟩
    · intro n i hn
      by_cases hi : i ∈ K.usedOf t b
      · right
        obtain ⟨k, hk'⟩ := List.getElem?_of_mem hi
        refine ⟨_, r2 n i hn k hk', ?_, ?_⟩
        · rw [h3]; exact (s1 k i hk').1
        · rw [h2]; exact (s1 k i hk').2
      · left
        refine ⟨r3 n i hn hi, ?_⟩
        rw [h3]; exact s2 i (List.mem_of_getElem? hn) hi
    · intro i hil hi
      refine ⟨?_, hfi.extZero i hil hi⟩
      rw [h3]; exact s3 i hil hi

end Forsys.C10h
