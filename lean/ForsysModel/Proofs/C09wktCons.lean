/-
  Helper lemmas for Props/C09wkt.lean — the lattice `wkt.create_lattice` builds is a consistent mesh
  (built on the step lemmas `mkVertex_consP`, `mkEdge_consP`, `mkCell_consP` of Proofs/C09.lean).
-/
import ForsysModel.Model.Wkt
import ForsysModel.Proofs.C09

namespace Forsys.Wkt
open Mesh

/-! helper lemmas live in `Forsys.Wkt.Cons` (no clash with Proofs/C09wktShape.lean) -/
namespace Cons

theorem pt_of_mem {m : Mesh} (hnd : (m.vertices.map (·.1)).Nodup) {k : Id} {v : Vertex}
    (h : (k, v) ∈ m.vertices) : m.pt k = ⟨v.x, v.y⟩ := by
  simp [Mesh.pt, Mesh.vertex?, alGet?_of_mem hnd h]

theorem pt_append {m m' : Mesh} {new : List (Id × Vertex)} (h : m'.vertices = m.vertices ++ new) {k : Id}
    (hk : k ∈ m.vertices.map (·.1)) : m'.pt k = m.pt k := by
  have := (alGet?_isSome_iff k m.vertices).mpr hk
  simp only [Mesh.pt, Mesh.vertex?, h, alGet?_append]
  cases hh : alGet? k m.vertices with
  | none => simp [hh] at this
  | some v => simp

theorem isVertexCreated_some {flip : Rat → Rat} {p : Pt} {vs : List (Id × Vertex)} {k : Id}
    (h : isVertexCreated flip p vs = some k) :
    ∃ q ∈ vs, q.2.id = k ∧ q.2.x = p.x ∧ q.2.y = flip p.y := by
  unfold isVertexCreated at h
  split at h
  · rename_i q hq
    have h1 := List.find?_some hq
    have h2 := List.mem_of_find?_eq_some hq
    simp only [Bool.and_eq_true, beq_iff_eq, Option.some.injEq] at h h1
    exact ⟨q, h2, h, h1.1.symm, h1.2.symm⟩
  · simp at h

theorem internRow_spec (flip : Rat → Rat) (r : List Pt) : ∀ (m : Mesh) (vn : Nat), ConsP m →
    (∀ k ∈ m.vertices.map (·.1), k < (vn : Int)) →
    ConsP (internRow flip m vn r).1 ∧
    (∃ new, (internRow flip m vn r).1.vertices = m.vertices ++ new) ∧
    (internRow flip m vn r).1.edges = m.edges ∧ (internRow flip m vn r).1.cells = m.cells ∧
    (∀ k ∈ (internRow flip m vn r).1.vertices.map (·.1), k < ((internRow flip m vn r).2.1 : Int)) ∧
    (∀ k ∈ (internRow flip m vn r).2.2, k ∈ (internRow flip m vn r).1.vertices.map (·.1)) ∧
    (internRow flip m vn r).2.2.map (internRow flip m vn r).1.pt = r.map (flipPt flip) := by
  induction r with
  | nil =>
    intro m vn h hv
    exact ⟨h, ⟨[], by simp [internRow]⟩, rfl, rfl, hv, by simp [internRow], by simp [internRow]⟩
  | cons p ps ih =>
    intro m vn h hv
    cases hc : isVertexCreated flip p m.vertices with
    | some k =>
      have e : internRow flip m vn (p :: ps) =
          ((internRow flip m vn ps).1, (internRow flip m vn ps).2.1, k :: (internRow flip m vn ps).2.2) := by
        simp [internRow, hc]
      rw [e]
      obtain ⟨a1, ⟨new, a2⟩, a3, a4, a5, a6, a7⟩ := ih m vn h hv
      obtain ⟨q, hq, q1, q2, q3⟩ := isVertexCreated_some hc
      have hqk : q.1 = k := by rw [← q1]; exact h.1.1 q hq
      have hk : k ∈ m.vertices.map (·.1) := List.mem_map.mpr ⟨q, hq, hqk⟩
      have hpt : m.pt k = flipPt flip p := by
        have : (k, q.2) ∈ m.vertices := by rw [← hqk]; exact hq
        rw [pt_of_mem h.1.2.2.2.1 this, q2, q3]; rfl
      refine ⟨a1, ⟨new, a2⟩, a3, a4, a5, ?_, ?_⟩
      · intro k' hk'
        rcases List.mem_cons.mp hk' with hk' | hk'
        · subst hk'; rw [a2]; simp only [List.map_append, List.mem_append]; exact Or.inl hk
        · exact a6 k' hk'
      · simp only [List.map_cons]
        rw [a7, pt_append a2 hk, hpt]
    | none =>
      have e : internRow flip m vn (p :: ps) =
          ((internRow flip (m.mkVertex (vn : Int) p.x (flip p.y)) (vn + 1) ps).1,
           (internRow flip (m.mkVertex (vn : Int) p.x (flip p.y)) (vn + 1) ps).2.1,
           (vn : Int) :: (internRow flip (m.mkVertex (vn : Int) p.x (flip p.y)) (vn + 1) ps).2.2) := by
        simp [internRow, hc]
      rw [e]
      have hfresh : (vn : Int) ∉ m.vertices.map (·.1) := fun hh => absurd (hv _ hh) (by omega)
      obtain ⟨c1, c2, c3, c4⟩ := mkVertex_consP m (vn : Int) p.x (flip p.y) h hfresh
      have hverts : (m.mkVertex (vn : Int) p.x (flip p.y)).vertices =
          m.vertices ++ [((vn : Int), { id := (vn : Int), x := p.x, y := flip p.y, ownEdges := [], ownCells := [] })] := by
        simp only [mkVertex, filter_ne_of_not_mem_keys _ _ hfresh]
      obtain ⟨a1, ⟨new, a2⟩, a3, a4, a5, a6, a7⟩ := ih (m.mkVertex (vn : Int) p.x (flip p.y)) (vn + 1) c1 (by
        intro k hk
        rw [c2] at hk
        rcases List.mem_append.mp hk with hk | hk
        · have := hv k hk; omega
        · simp only [List.mem_singleton] at hk; subst hk; omega)
      have hk : (vn : Int) ∈ (m.mkVertex (vn : Int) p.x (flip p.y)).vertices.map (·.1) := by
        rw [c2]; simp
      have hpt : (m.mkVertex (vn : Int) p.x (flip p.y)).pt (vn : Int) = flipPt flip p := by
        rw [pt_of_mem c1.1.2.2.2.1 (v := { id := (vn : Int), x := p.x, y := flip p.y, ownEdges := [], ownCells := [] })
          (by rw [hverts]; simp)]
        rfl
      refine ⟨a1, ⟨[((vn : Int), { id := (vn : Int), x := p.x, y := flip p.y, ownEdges := [], ownCells := [] })] ++ new,
          by rw [a2, hverts, List.append_assoc]⟩, by rw [a3, c3], by rw [a4, c4], a5, ?_, ?_⟩
      · intro k' hk'
        rcases List.mem_cons.mp hk' with hk' | hk'
        · subst hk'; rw [a2]; simp only [List.map_append, List.mem_append]; exact Or.inl hk
        · exact a6 k' hk'
      · simp only [List.map_cons]
        rw [a7, pt_append a2 hk, hpt]

theorem nodup_of_nodup_map {α β : Type} (f : α → β) : ∀ (l : List α), (l.map f).Nodup → l.Nodup := by
  intro l
  induction l with
  | nil => intro _; exact List.nodup_nil
  | cons a t ih =>
    intro h
    simp only [List.map_cons, List.nodup_cons] at h ⊢
    exact ⟨fun ha => h.1 (List.mem_map.mpr ⟨a, ha, rfl⟩), ih h.2⟩

theorem edgeLoop_spec (l : List (Id × Id)) : ∀ (m : Mesh) (en : Nat) (ed : List (Id × Id))
    (m' : Mesh) (en' : Nat) (ed' : List (Id × Id)), ConsP m →
    (∀ k ∈ m.edges.map (·.1), k < (en : Int)) →
    (∀ ab ∈ ed, JoinedP m ab.1 ab.2) →
    (∀ ab ∈ l, ab.1 ∈ m.vertices.map (·.1) ∧ ab.2 ∈ m.vertices.map (·.1)) →
    edgeLoop m en ed l = .ok (m', en', ed') →
    ConsP m' ∧ m'.vertices.map (·.1) = m.vertices.map (·.1) ∧ m'.cells = m.cells ∧
    (∀ k ∈ m'.edges.map (·.1), k < (en' : Int)) ∧
    (∀ x y, JoinedP m x y → JoinedP m' x y) ∧
    (∀ ab ∈ ed', JoinedP m' ab.1 ab.2) ∧
    (∀ ab ∈ l, JoinedP m' ab.1 ab.2) := by
  induction l with
  | nil =>
    intro m en ed m' en' ed' h he hj _ hr
    simp only [edgeLoop, Except.ok.injEq, Prod.mk.injEq] at hr
    obtain ⟨rfl, rfl, rfl⟩ := hr
    exact ⟨h, rfl, rfl, he, fun _ _ hh => hh, hj, by simp⟩
  | cons ij rest ih =>
    obtain ⟨i, j⟩ := ij
    intro m en ed m' en' ed' h he hj hends hr
    simp only [List.mem_cons, forall_eq_or_imp] at hends
    obtain ⟨⟨hi, hjv⟩, hends'⟩ := hends
    simp only [edgeLoop] at hr
    split at hr
    · rename_i hc
      obtain ⟨b1, b2, b3, b4, b5, b6, b7⟩ := ih m en ed m' en' ed' h he hj hends' hr
      refine ⟨b1, b2, b3, b4, b5, b6, ?_⟩
      intro ab hab
      rcases List.mem_cons.mp hab with hab | hab
      · subst hab
        simp only [Bool.or_eq_true, List.contains_eq_mem, decide_eq_true_eq] at hc
        rcases hc with hc | hc
        · exact b5 _ _ (hj _ hc)
        · exact b5 _ _ (JoinedP_symm (hj _ hc))
      · exact b7 ab hab
    · split at hr
      · simp at hr
      · have hfresh : (en : Int) ∉ m.edges.map (·.1) := fun hh => absurd (he _ hh) (by omega)
        have c1 := mkEdge_consP m (en : Int) i j h hfresh hi hjv
        have c2 := mkEdge_vkeys m (en : Int) i j
        have c3 := mkEdge_ekeys m (en : Int) i j hfresh
        obtain ⟨b1, b2, b3, b4, b5, b6, b7⟩ := ih (m.mkEdge (en : Int) i j) (en + 1) (ed ++ [(i, j)]) m' en' ed' c1
          (by
            intro k hk
            rw [c3] at hk
            rcases List.mem_append.mp hk with hk | hk
            · have := he k hk; omega
            · simp only [List.mem_singleton] at hk; subst hk; omega)
          (by
            intro ab hab
            rcases List.mem_append.mp hab with hab | hab
            · exact mkEdge_joinedP_mono m _ _ _ hfresh (hj ab hab)
            · simp only [List.mem_singleton] at hab; subst hab
              exact mkEdge_joinedP_new m _ _ _)
          (by rw [c2]; exact hends') hr
        refine ⟨b1, by rw [b2, c2], by rw [b3]; rfl, b4, ?_, b6, ?_⟩
        · intro x y hxy
          exact b5 x y (mkEdge_joinedP_mono m _ _ _ hfresh hxy)
        · intro ab hab
          rcases List.mem_cons.mp hab with hab | hab
          · subst hab; exact b5 _ _ (mkEdge_joinedP_new m _ _ _)
          · exact b7 ab hab

theorem edgeLoop_ok (l : List (Id × Id)) (hl : ∀ ab ∈ l, ab.1 ≠ ab.2) :
    ∀ (m : Mesh) (en : Nat) (ed : List (Id × Id)), ∃ res, edgeLoop m en ed l = .ok res := by
  induction l with
  | nil => intro m en ed; exact ⟨_, rfl⟩
  | cons ij rest ih =>
    obtain ⟨i, j⟩ := ij
    simp only [List.mem_cons, forall_eq_or_imp] at hl
    intro m en ed
    simp only [edgeLoop]
    split
    · exact ih hl.2 _ _ _
    · rw [if_neg hl.1]
      exact ih hl.2 _ _ _

theorem zip_shift_ne {α : Type} (t : List α) : ∀ (x y : α), (x :: t).Nodup → (t = [] → x ≠ y) → y ∉ t →
    ∀ ab ∈ List.zip (x :: t) (t ++ [y]), ab.1 ≠ ab.2 := by
  induction t with
  | nil =>
    intro x y _ h1 _ ab hab
    simp only [List.nil_append, List.zip_cons_cons, List.zip_nil_right, List.mem_singleton] at hab
    subst hab; exact h1 rfl
  | cons z t ih =>
    intro x y hnd _ hy ab hab
    simp only [List.cons_append, List.zip_cons_cons, List.mem_cons] at hab
    simp only [List.nodup_cons, List.mem_cons, not_or] at hnd hy
    rcases hab with hab | hab
    · subst hab; exact hnd.1.1
    · refine ih z y (List.nodup_cons.mpr hnd.2) (fun _ => fun hzy => hy.1 hzy.symm) hy.2 ab ?_
      simpa using hab

theorem cyclicPairs_ne {α : Type} (l : List α) (hnd : l.Nodup) (hlen : 2 ≤ l.length) :
    ∀ ab ∈ cyclicPairs l, ab.1 ≠ ab.2 := by
  cases l with
  | nil => simp at hlen
  | cons a t =>
    intro ab hab
    simp only [cyclicPairs] at hab
    refine zip_shift_ne t a a hnd ?_ (List.nodup_cons.mp hnd).1 ab hab
    intro ht; subst ht; simp at hlen

structure CInv (s : State) : Prop where
  cons : ConsP s.mesh
  vlt  : ∀ k ∈ s.mesh.vertices.map (·.1), k < (s.verticesNumber : Int)
  elt  : ∀ k ∈ s.mesh.edges.map (·.1), k < (s.edgesNumber : Int)
  clt  : ∀ k ∈ s.mesh.cells.map (·.1), k < (s.cellsNumber : Int)
  edj  : ∀ ab ∈ s.edArr, JoinedP s.mesh ab.1 ab.2

theorem init_cinv : CInv State.init := by
  refine ⟨empty_consP, ?_, ?_, ?_, ?_⟩ <;> simp [State.init, Mesh.empty]

theorem row_cinv (flip : Rat → Rat) (s s' : State) (r : List Pt) (hs : CInv s)
    (hnd : (r.map (flipPt flip)).Nodup) (h : row flip s r = .ok s') : CInv s' := by
  obtain ⟨a1, ⟨new, a2⟩, a3, a4, a5, a6, a7⟩ := internRow_spec flip r s.mesh s.verticesNumber hs.cons hs.vlt
  have harr : (internRow flip s.mesh s.verticesNumber r).2.2.Nodup := by
    rw [← a7] at hnd; exact nodup_of_nodup_map _ _ hnd
  simp only [row] at h
  split at h
  · simp at h
  · rename_i m2 en ed hloop
    split at h
    · simp at h
    · simp only [Except.ok.injEq] at h
      subst h
      obtain ⟨b1, b2, b3, b4, b5, b6, b7⟩ := edgeLoop_spec _ _ _ _ _ _ _ a1 (by rw [a3]; exact hs.elt)
        (by
          intro ab hab
          obtain ⟨e, he, hh⟩ := hs.edj ab hab
          exact ⟨e, by rw [a3]; exact he, hh⟩)
        (by
          intro ab hab
          obtain ⟨m1, m2⟩ := mem_cyclicPairs hab
          exact ⟨a6 _ m1, a6 _ m2⟩) hloop
      have hfresh : (s.cellsNumber : Int) ∉ m2.cells.map (·.1) := by
        rw [b3, a4]; exact fun hh => absurd (hs.clt _ hh) (by omega)
      refine ⟨?_, ?_, ?_, ?_, ?_⟩
      · exact mkCell_consP m2 _ _ b1 hfresh harr (by rw [b2]; exact a6) b7
      · simp only
        rw [mkCell_vkeys _ _ _ harr, b2]; exact a5
      · simp only
        rw [mkCell_edges _ _ _ harr]; exact b4
      · simp only
        rw [mkCell_cells _ _ _ harr, filter_ne_of_not_mem_keys _ _ hfresh, b3, a4]
        intro k hk
        simp only [List.map_append, List.map_cons, List.map_nil, List.mem_append, List.mem_singleton] at hk
        rcases hk with hk | hk
        · have := hs.clt k hk; push_cast; omega
        · subst hk; push_cast; omega
      · simp only
        intro ab hab
        obtain ⟨e, he, hh⟩ := b6 ab hab
        exact ⟨e, by rw [mkCell_edges _ _ _ harr]; exact he, hh⟩

theorem row_ok (flip : Rat → Rat) (s : State) (r : List Pt) (hs : CInv s)
    (hlen : 2 ≤ r.length) (hnd : (r.map (flipPt flip)).Nodup) : ∃ s', row flip s r = .ok s' := by
  obtain ⟨a1, ⟨new, a2⟩, a3, a4, a5, a6, a7⟩ := internRow_spec flip r s.mesh s.verticesNumber hs.cons hs.vlt
  have harr : (internRow flip s.mesh s.verticesNumber r).2.2.Nodup := by
    rw [← a7] at hnd; exact nodup_of_nodup_map _ _ hnd
  have hlen' : (internRow flip s.mesh s.verticesNumber r).2.2.length = r.length := by
    have := congrArg List.length a7
    simpa using this
  obtain ⟨⟨m2, en, ed⟩, hres⟩ := edgeLoop_ok _ (cyclicPairs_ne _ harr (by omega))
    (internRow flip s.mesh s.verticesNumber r).1 s.edgesNumber s.edArr
  have hne : (internRow flip s.mesh s.verticesNumber r).2.2.isEmpty = false := by
    cases hh : (internRow flip s.mesh s.verticesNumber r).2.2 with
    | nil => rw [hh] at hlen'; simp at hlen'; omega
    | cons _ _ => rfl
  simp only [row, hres, hne]
  exact ⟨_, rfl⟩

theorem rows_cinv (flip : Rat → Rat) (rs : List (List Pt)) : ∀ (s s' : State), CInv s →
    (∀ r ∈ rs, (r.map (flipPt flip)).Nodup) → rows flip s rs = .ok s' → CInv s' := by
  induction rs with
  | nil =>
    intro s s' hs _ h
    simp only [rows, Except.ok.injEq] at h
    subst h; exact hs
  | cons r rs ih =>
    intro s s' hs hnd h
    simp only [List.mem_cons, forall_eq_or_imp] at hnd
    simp only [rows] at h
    split at h
    · simp at h
    · rename_i s1 hrow
      exact ih s1 s' (row_cinv flip s s1 r hs hnd.1 hrow) hnd.2 h

theorem rows_ok (flip : Rat → Rat) (rs : List (List Pt)) : ∀ (s : State), CInv s →
    (∀ r ∈ rs, 2 ≤ r.length ∧ (r.map (flipPt flip)).Nodup) → ∃ s', rows flip s rs = .ok s' := by
  induction rs with
  | nil => intro s _ _; exact ⟨s, rfl⟩
  | cons r rs ih =>
    intro s hs hwf
    simp only [List.mem_cons, forall_eq_or_imp] at hwf
    obtain ⟨s1, hrow⟩ := row_ok flip s r hs hwf.1.1 hwf.1.2
    obtain ⟨s2, h2⟩ := ih s1 (row_cinv flip s s1 r hs hwf.1.2 hrow) hwf.2
    exact ⟨s2, by simp only [rows, hrow, h2]⟩

end Cons
open Cons

/-- given that the run completes, rows that do not repeat a stored position yield a consistent mesh -/
theorem wkt_consP' (flip : Rat → Rat) (rs : List (List Pt)) (m : Mesh)
    (hnd : ∀ r ∈ rs, (r.map (flipPt flip)).Nodup) (h : latticeWith flip rs = .ok m) : ConsP m := by
  simp only [latticeWith] at h
  split at h
  · simp at h
  · rename_i s hs
    simp only [Except.ok.injEq] at h
    subst h
    exact (rows_cinv flip rs _ s init_cinv hnd hs).cons

/-- well-formed rows: neither assertion fires -/
theorem wkt_ok_of_wf' (flip : Rat → Rat) (rs : List (List Pt)) (h : WF flip rs) :
    ∃ m, latticeWith flip rs = .ok m := by
  obtain ⟨s, hs⟩ := rows_ok flip rs State.init init_cinv h
  exact ⟨s.mesh, by simp only [latticeWith, hs]⟩

/-- the hypotheses are satisfiable: a triangle and a second triangle sharing an edge -/
example : WF flip1024 [[⟨0, 0⟩, ⟨1, 0⟩, ⟨0, 1⟩], [⟨1, 0⟩, ⟨1, 1⟩, ⟨0, 1⟩]] := by decide +kernel

end Forsys.Wkt
