/- helper lemmas for Props/C04more.lean -/
import ForsysModel.Props.C04system
namespace Forsys
open C04s


def reflectPts (ps : List Pt) : List Pt := ps.map fun p => ⟨-p.x, p.y⟩

theorem curvParts_two_points' (p q : Pt) :
    (curvParts [p, q]).num = [0, 0] := by
  simp [curvParts, gradient, List.range_succ_eq_map]

theorem curvParts_three_points' (p q r : Pt) :
    (curvParts [p, q, r]).num
      = List.replicate 3 (-((q.x - p.x) * (r.y - q.y) - (q.y - p.y) * (r.x - q.x)) / 2) := by
  simp only [curvParts, gradient, List.map_cons, List.map_nil, List.length_cons, List.length_nil]
  simp [List.range_succ_eq_map, List.replicate]
  refine ⟨?_, ?_, ?_⟩ <;> ring

theorem zipWith_num_negA (A B C D : List Rat) :
    List.zipWith (· - ·) (List.zipWith (· * ·) (A.map (- ·)) B) (List.zipWith (· * ·) (C.map (- ·)) D)
      = (List.zipWith (· - ·) (List.zipWith (· * ·) A B) (List.zipWith (· * ·) C D)).map (- ·) := by
  induction A generalizing B C D with
  | nil => simp
  | cons a A ih =>
    cases B with
    | nil => simp
    | cons b B =>
      cases C with
      | nil => simp
      | cons c C =>
        cases D with
        | nil => simp
        | cons d D =>
          simp only [List.map_cons, List.zipWith_cons_cons, ih, List.cons.injEq, and_true]
          ring

theorem segSqs_reflect (pts : List Pt) : segSqs (reflectPts pts) = segSqs pts := by
  induction pts with
  | nil => rfl
  | cons p t ih =>
    cases t with
    | nil => rfl
    | cons q t =>
      simp only [reflectPts, List.map_cons, segSqs] at ih ⊢
      rw [ih]
      congr 1
      simp [distSq]; try ring

theorem curvParts_reflect' (pts : List Pt) :
    (curvParts (reflectPts pts)).num = (curvParts pts).num.map (- ·) ∧
    (curvParts (reflectPts pts)).speedSq = (curvParts pts).speedSq ∧
    (curvParts (reflectPts pts)).segSq = (curvParts pts).segSq := by
  have hx : (reflectPts pts).map (·.x) = (pts.map (·.x)).map (- ·) := by simp [reflectPts]
  have hy : (reflectPts pts).map (·.y) = pts.map (·.y) := by simp [reflectPts]
  simp only [curvParts, hx, hy, gradient_neg, zipWith_num_negA, zipWith_mul_neg_neg]
  exact ⟨trivial, trivial, segSqs_reflect pts⟩

theorem segSqs_length (pts : List Pt) : (segSqs pts).length = pts.length - 1 := by
  induction pts with
  | nil => rfl
  | cons p t ih =>
    cases t with
    | nil => rfl
    | cons q t => simp only [segSqs, List.length_cons] at ih ⊢; omega

theorem curvParts_lengths' (pts : List Pt) (h : 2 ≤ pts.length) :
    (curvParts pts).num.length = pts.length ∧ (curvParts pts).speedSq.length = pts.length ∧
    (curvParts pts).segSq.length = pts.length - 1 := by
  have hx : 2 ≤ (pts.map (·.x)).length := by simpa using h
  have hy : 2 ≤ (pts.map (·.y)).length := by simpa using h
  have gx := gradient_length _ hx
  have gy := gradient_length _ hy
  have ggx := gradient_gradient_length (pts.map (·.x))
  have ggy := gradient_gradient_length (pts.map (·.y))
  simp only [List.length_map] at gx gy
  refine ⟨?_, ?_, segSqs_length pts⟩
  · simp only [curvParts, List.length_zipWith, ggx, ggy, gx, gy]; omega
  · simp only [curvParts, List.length_zipWith, gx, gy]; omega

theorem curvParts_short' (pts : List Pt) (h : pts.length < 2) :
    (curvParts pts).num = [] ∧ (curvParts pts).speedSq = [] ∧ (curvParts pts).segSq = [] := by
  match pts, h with
  | [], _ => exact ⟨rfl, rfl, rfl⟩
  | [p], _ => exact ⟨rfl, rfl, rfl⟩

theorem pressureRow_dot_shift' (n a b : Nat) (s : Int) (p : List Rat) (c : Rat) (hp : p.length = n)
    (ha : a < n) (hb : b < n) (hab : a ≠ b) :
    dot (pressureRow n a b s) (p.map (· + c)) = dot (pressureRow n a b s) p := by
  rw [pressureRow_dot n a b s _ (by simpa using hp) ha hb hab, pressureRow_dot n a b s p hp ha hb hab,
    getD_map_add c p a (by omega), getD_map_add c p b (by omega)]
  ring

theorem pressureRow_sum' (n a b : Nat) (s : Int) (ha : a < n) (hb : b < n) (hab : a ≠ b) :
    (pressureRow n a b s).sum = 0 := by
  have h := pressureRow_dot n a b s (List.replicate n 1) (by simp) ha hb hab
  rw [dot_comm, dot_replicate_one_left _ n (by simp [pressureRow_length])] at h
  rw [h]
  simp [List.getD_eq_getElem?_getD, ha, hb]

theorem reinsertZeros_nil' (n : Nat) (sol : List Rat) : reinsertZeros n [] sol = sol := by
  unfold reinsertZeros
  generalize List.range n = l
  induction l generalizing sol with
  | nil => rfl
  | cons a l ih => simp

theorem reinsertZeros_sum' (n : Nat) (removed : List Nat) (sol : List Rat)
    (hr : ∀ i ∈ removed, i < n) (hnd : removed.Nodup) (hlen : sol.length + removed.length = n) :
    (reinsertZeros n removed sol).sum = sol.sum := by
  obtain ⟨_, h2, h3⟩ := reinsert_facts n removed sol hr hnd hlen
  rw [sum_keepFrom removed _ 0 h3, h2]

theorem residSq_shift' (n : Nat) (L : Mat) (r p : List Rat) (c : Rat) (hp : p.length = n)
    (hrows : ∀ row ∈ L, ∃ a b s, a < n ∧ b < n ∧ a ≠ b ∧ row = pressureRow n a b s) :
    residSq L r (p.map (· + c)) = residSq L r p := by
  have : mulVec L (p.map (· + c)) = mulVec L p := by
    unfold mulVec
    apply List.map_congr_left
    intro row hrow
    obtain ⟨a, b, s, ha, hb, hab, rfl⟩ := hrows row hrow
    rw [pressureRow_dot n a b s _ (by simpa using hp) ha hb hab, pressureRow_dot n a b s p hp ha hb hab,
      getD_map_add c p a (by omega), getD_map_add c p b (by omega)]
    ring
  unfold residSq
  rw [this]

theorem tMulVec_vadd (L : Mat) (n : Nat) (a b : List Rat) (h : a.length = b.length) :
    tMulVec L n (vadd a b) = vadd (tMulVec L n a) (tMulVec L n b) := by
  unfold tMulVec
  rw [vadd_map_map]
  apply List.map_congr_left
  intro j _
  exact dot_add_right _ a b h

theorem vadd_map_add (X Y : List Rat) (a b : Rat) :
    (vadd X Y).map (· + (a + b)) = vadd (X.map (· + a)) (Y.map (· + b)) := by
  unfold vadd
  induction X generalizing Y with
  | nil => simp
  | cons x X ih =>
    cases Y with
    | nil => simp
    | cons y Y => simp only [List.zipWith_cons_cons, List.map_cons, ih, List.cons.injEq, and_true]; ring

theorem sum_vadd (a b : List Rat) (h : a.length = b.length) : (vadd a b).sum = a.sum + b.sum := by
  rw [← dot_replicate_one_left (vadd a b) a.length (by simp [vadd, h]), dot_add_right _ a b h,
    dot_replicate_one_left a a.length (by omega), dot_replicate_one_left b a.length (by omega)]

theorem normal_eq_add' (L : Mat) (r₁ r₂ p₁ p₂ : List Rat) (mu₁ mu₂ : Rat) (n : Nat) (hn : 0 < n)
    (hr : r₁.length = r₂.length) (hp₁ : p₁.length = n) (hp₂ : p₂.length = n)
    (h₁ : mulVec (addLagrange (gram L n) (tRhs L n r₁) 0).1 (p₁ ++ [mu₁]) = (addLagrange (gram L n) (tRhs L n r₁) 0).2)
    (h₂ : mulVec (addLagrange (gram L n) (tRhs L n r₂) 0).1 (p₂ ++ [mu₂]) = (addLagrange (gram L n) (tRhs L n r₂) 0).2) :
    mulVec (addLagrange (gram L n) (tRhs L n (vadd r₁ r₂)) 0).1 (vadd p₁ p₂ ++ [mu₁ + mu₂])
      = (addLagrange (gram L n) (tRhs L n (vadd r₁ r₂)) 0).2 := by
  obtain ⟨a1, a2⟩ := normal_eq_extract L r₁ p₁ mu₁ n hn hp₁ h₁
  obtain ⟨b1, b2⟩ := normal_eq_extract L r₂ p₂ mu₂ n hn hp₂ h₂
  rw [addLagrange_mulVec L n _ _ _ hn (by simp [vadd, hp₁, hp₂]), addLagrange_gram_eq L n _ 0 hn]
  simp only [tRhs, tMulVec_vadd L n r₁ r₂ hr, ← a1, ← b1, mulVec_vadd _ p₁ p₂ (by omega), vadd_map_add]
  rw [sum_vadd p₁ p₂ (by omega), a2, b2]; simp

def flipRows (sig : List Rat) (L : Mat) : Mat := List.zipWith (fun σ row => row.map (σ * ·)) sig L

theorem residSq_cons (row : List Rat) (L : Mat) (b : Rat) (r x : List Rat) :
    residSq (row :: L) (b :: r) x = (dot row x - b) * (dot row x - b) + residSq L r x := by
  simp [residSq, normSq, mulVec, vsub, dot]

theorem residSq_flipRows' (sig : List Rat) (L : Mat) (r x : List Rat)
    (hsig : ∀ σ ∈ sig, σ = 1 ∨ σ = -1) (hL : L.length = sig.length) (hr : r.length = sig.length) :
    residSq (flipRows sig L) (List.zipWith (· * ·) sig r) x = residSq L r x := by
  induction sig generalizing L r with
  | nil =>
    have : L = [] := List.length_eq_zero_iff.mp hL
    have : r = [] := List.length_eq_zero_iff.mp hr
    subst_vars; rfl
  | cons σ sig ih =>
    match L, r, hL, hr with
    | row :: L, b :: r, hL, hr =>
      simp only [flipRows, List.zipWith_cons_cons] at ih ⊢
      rw [residSq_cons, residSq_cons, ih L r (fun s hs => hsig s (by simp [hs])) (by simpa using hL) (by simpa using hr)]
      have hd : dot (row.map (σ * ·)) x = σ * dot row x := dot_smul_left σ row x
      rw [hd]
      rcases hsig σ (by simp) with h | h <;> subst h <;> ring


theorem curvParts_three_points_zero_iff' (p q r : Pt) :
    (∀ v ∈ (curvParts [p, q, r]).num, v = 0) ↔ (q.x - p.x) * (r.y - q.y) = (q.y - p.y) * (r.x - q.x) := by
  rw [curvParts_three_points']
  simp only [List.mem_replicate, ne_eq, and_imp, forall_eq_apply_imp_iff]
  constructor
  · intro h
    have := h (by decide)
    linarith
  · intro h _
    rw [h]; ring

/-- pointwise linear combination of two coordinate lists -/
def lin (a b : Rat) (X Y : List Rat) : List Rat := List.zipWith (fun x y => a * x + b * y) X Y

/-- similarity `z ↦ (a + i b) z` -/
def simPts (a b : Rat) (ps : List Pt) : List Pt := ps.map fun p => ⟨a * p.x - b * p.y, b * p.x + a * p.y⟩

theorem lin_length (a b : Rat) (X Y : List Rat) (h : X.length = Y.length) : (lin a b X Y).length = X.length := by
  simp [lin, h]

theorem getD_lin (a b : Rat) (X Y : List Rat) (h : X.length = Y.length) (i : Nat) :
    (lin a b X Y).getD i 0 = a * X.getD i 0 + b * Y.getD i 0 := by
  by_cases hi : i < X.length
  · have hj : i < Y.length := by omega
    simp [lin, List.getD_eq_getElem?_getD, List.getElem?_zipWith, List.getElem?_eq_getElem hi,
      List.getElem?_eq_getElem hj]
  · have h1 : X[i]? = none := List.getElem?_eq_none (by omega)
    have h2 : Y[i]? = none := List.getElem?_eq_none (by omega)
    simp [lin, List.getD_eq_getElem?_getD, List.getElem?_zipWith, h1, h2]

theorem gradient_lin (a b : Rat) (X Y : List Rat) (h : X.length = Y.length) :
    gradient (lin a b X Y) = lin a b (gradient X) (gradient Y) := by
  by_cases h2 : 2 ≤ X.length
  · rw [gradient_eq_map _ (by rw [lin_length a b X Y h]; exact h2), gradient_eq_map X h2,
      gradient_eq_map Y (by omega), lin_length a b X Y h, ← h]
    simp only [lin, List.zipWith_map, List.zipWith_self]
    apply List.map_congr_left
    intro i _
    have hl : (List.zipWith (fun x y => a * x + b * y) X Y).length = X.length := lin_length a b X Y h
    have hg := getD_lin a b X Y h
    simp only [lin] at hg
    simp only [gradStencil, hg, hl, ← h]
    split_ifs <;> ring
  · rw [gradient_short X (by omega), gradient_short Y (by omega),
      gradient_short _ (by rw [lin_length a b X Y h]; omega)]
    rfl

theorem zipWith_num_sim (a b : Rat) (X Y X2 Y2 : List Rat) :
    List.zipWith (· - ·) (List.zipWith (· * ·) (lin a (-b) X2 Y2) (lin b a X Y))
        (List.zipWith (· * ·) (lin a (-b) X Y) (lin b a X2 Y2))
      = (List.zipWith (· - ·) (List.zipWith (· * ·) X2 Y) (List.zipWith (· * ·) X Y2)).map ((a * a + b * b) * ·) := by
  induction X generalizing Y X2 Y2 with
  | nil => simp [lin]
  | cons x X ih =>
    cases Y with
    | nil => simp [lin]
    | cons y Y =>
      cases X2 with
      | nil => simp [lin]
      | cons x2 X2 =>
        cases Y2 with
        | nil => simp [lin]
        | cons y2 Y2 =>
          have := ih Y X2 Y2
          simp only [lin] at this ⊢
          simp only [List.map_cons, List.zipWith_cons_cons, this, List.cons.injEq, and_true]
          ring

theorem zipWith_speed_sim (a b : Rat) (X Y : List Rat) :
    List.zipWith (· + ·) (List.zipWith (· * ·) (lin a (-b) X Y) (lin a (-b) X Y))
        (List.zipWith (· * ·) (lin b a X Y) (lin b a X Y))
      = (List.zipWith (· + ·) (List.zipWith (· * ·) X X) (List.zipWith (· * ·) Y Y)).map ((a * a + b * b) * ·) := by
  induction X generalizing Y with
  | nil => simp [lin]
  | cons x X ih =>
    cases Y with
    | nil => simp [lin]
    | cons y Y =>
      have := ih Y
      simp only [lin] at this ⊢
      simp only [List.map_cons, List.zipWith_cons_cons, this, List.cons.injEq, and_true]
      ring

theorem segSqs_sim (a b : Rat) (pts : List Pt) :
    segSqs (simPts a b pts) = (segSqs pts).map ((a * a + b * b) * ·) := by
  induction pts with
  | nil => rfl
  | cons p t ih =>
    cases t with
    | nil => rfl
    | cons q t =>
      simp only [simPts, List.map_cons, segSqs] at ih ⊢
      rw [ih]
      congr 1
      simp [distSq]; ring

theorem curvParts_similarity' (a b : Rat) (pts : List Pt) :
    (curvParts (simPts a b pts)).num = (curvParts pts).num.map ((a * a + b * b) * ·) ∧
    (curvParts (simPts a b pts)).speedSq = (curvParts pts).speedSq.map ((a * a + b * b) * ·) ∧
    (curvParts (simPts a b pts)).segSq = (curvParts pts).segSq.map ((a * a + b * b) * ·) := by
  have hx : (simPts a b pts).map (·.x) = lin a (-b) (pts.map (·.x)) (pts.map (·.y)) := by
    simp only [simPts, lin, List.map_map, List.zipWith_map, List.zipWith_self]
    apply List.map_congr_left; intro p _; simp only [Function.comp]; ring
  have hy : (simPts a b pts).map (·.y) = lin b a (pts.map (·.x)) (pts.map (·.y)) := by
    simp only [simPts, lin, List.map_map, List.zipWith_map, List.zipWith_self]
    apply List.map_congr_left; intro p _; simp only [Function.comp]
  have hl : (pts.map (·.x)).length = (pts.map (·.y)).length := by simp
  have hgl := gradient_length_congr _ _ hl
  simp only [curvParts, hx, hy, gradient_lin _ _ _ _ hl, gradient_lin _ _ _ _ hgl]
  exact ⟨zipWith_num_sim a b _ _ _ _, zipWith_speed_sim a b _ _, segSqs_sim a b pts⟩


theorem curvParts_rotate' (a b : Rat) (h : a * a + b * b = 1) (pts : List Pt) :
    curvParts (simPts a b pts) = curvParts pts := by
  obtain ⟨h1, h2, h3⟩ := curvParts_similarity' a b pts
  rw [h] at h1 h2 h3
  simp only [one_mul, List.map_id'] at h1 h2 h3
  cases hA : curvParts (simPts a b pts)
  cases hB : curvParts pts
  simp_all

theorem getD_aff (c d : Rat) (n k : Nat) (hk : k < n) :
    ((List.range n).map fun i : Nat => c + d * (i : Rat)).getD k 0 = c + d * (k : Rat) := by
  simp [List.getD_eq_getElem?_getD, hk]

theorem gradient_affine' (c d : Rat) (n : Nat) (h : 2 ≤ n) :
    gradient ((List.range n).map fun i : Nat => c + d * (i : Rat)) = List.replicate n d := by
  rw [gradient_eq_map _ (by simpa using h)]
  simp only [List.length_map, List.length_range]
  apply List.ext_getElem (by simp)
  intro i h1 _
  have hi : i < n := by simpa using h1
  simp only [List.getElem_map, List.getElem_range, List.getElem_replicate, gradStencil, List.length_map,
    List.length_range]
  split_ifs with h0 hl
  · subst h0
    rw [getD_aff c d n 1 (by omega), getD_aff c d n 0 (by omega)]; push_cast; ring
  · obtain ⟨m, rfl⟩ : ∃ m, n = m + 2 := ⟨n - 2, by omega⟩
    rw [getD_aff c d _ _ (by omega), getD_aff c d _ _ (by omega)]
    have e1 : m + 2 - 1 = m + 1 := by omega
    have e2 : m + 2 - 2 = m := by omega
    rw [e1, e2]; push_cast; ring
  · obtain ⟨j, rfl⟩ : ∃ j, i = j + 1 := ⟨i - 1, by omega⟩
    rw [getD_aff c d _ _ (by omega), getD_aff c d _ _ (by omega)]
    have e1 : j + 1 - 1 = j := by omega
    rw [e1]; push_cast; ring

theorem minimisers_same_image' (L : Mat) (r p q : List Rat) (c : Rat) (m n : Nat) (hs : Shaped L r m n)
    (hp : p.length = n) (hq : q.length = n) (hp0 : p.sum = 0) (hq0 : q.sum = 0)
    (h : grad L r p = List.replicate n c) (hmin : residSq L r q ≤ residSq L r p) :
    mulVec L q = mulVec L p := by
  obtain ⟨hL, hr, hrows⟩ := hs
  have hd := residSq_diff_core L r p q n (hr.trans hL.symm) hrows hp hq
  rw [h, dot_replicate_right q n c (by omega), dot_replicate_right p n c (by omega), hp0, hq0] at hd
  have hN := normSq_nonneg (mulVec L (vsub q p))
  have h0 : normSq (mulVec L (vsub q p)) = 0 := by linarith
  rw [normSq_eq_zero, mulVec_vsub' L q p (by omega)] at h0
  exact (vsub_eq_zero_iff _ _ (by simp [mulVec])).mp h0

theorem normal_eq_grad (L : Mat) (r p : List Rat) (mu : Rat) (m n : Nat) (hn : 0 < n) (hs : Shaped L r m n)
    (hp : p.length = n)
    (h : mulVec (addLagrange (gram L n) (tRhs L n r) 0).1 (p ++ [mu]) = (addLagrange (gram L n) (tRhs L n r) 0).2) :
    grad L r p = List.replicate n (-mu) := by
  obtain ⟨h1, h2⟩ := normal_eq_extract L r p mu n hn hp h
  unfold grad
  rw [hp, tMulVec_vsub L n _ _ (by simp [mulVec, hs.1, hs.2.1]), ← mulVec_gram L n p hs.2.2, ← h1, vsub_map_add]
  simp [gram]

theorem normal_eq_same_image' (L : Mat) (r p q : List Rat) (mu nu : Rat) (m n : Nat) (hn : 0 < n) (hs : Shaped L r m n)
    (hp : p.length = n) (hq : q.length = n)
    (h₁ : mulVec (addLagrange (gram L n) (tRhs L n r) 0).1 (p ++ [mu]) = (addLagrange (gram L n) (tRhs L n r) 0).2)
    (h₂ : mulVec (addLagrange (gram L n) (tRhs L n r) 0).1 (q ++ [nu]) = (addLagrange (gram L n) (tRhs L n r) 0).2) :
    mulVec L q = mulVec L p := by
  have hp0 := (normal_eq_extract L r p mu n hn hp h₁).2
  have hq' := normal_eq_sound' L r q p nu m n hn hs hq hp hp0 h₂
  exact minimisers_same_image' L r p q (-mu) m n hs hp hq hp0 hq'.1 (normal_eq_grad L r p mu m n hn hs hp h₁) hq'.2

theorem pressureSystem_normal_eq_unique' (m : Mesh) (tens curv : List Rat) (p q : List Rat) (mu nu : Rat)
    (hn : 0 < m.cells.length)
    (hp : p.length = m.cells.length) (hq : q.length = m.cells.length) (hok : ∀ k, k < m.nEq → m.EqOk k)
    (hconn : ∀ i j, i < m.cells.length → j < m.cells.length → i ∉ (m.pressureSystem tens curv).removed →
      j ∉ (m.pressureSystem tens curv).removed → Relation.ReflTransGen m.Linked i j)
    (hzp : ∀ j ∈ (m.pressureSystem tens curv).removed, p.getD j 0 = 0)
    (hzq : ∀ j ∈ (m.pressureSystem tens curv).removed, q.getD j 0 = 0)
    (h₁ : mulVec (addLagrange (gram (m.pressureSystem tens curv).lhs m.cells.length)
        (tRhs (m.pressureSystem tens curv).lhs m.cells.length (m.pressureSystem tens curv).rhs) 0).1 (p ++ [mu])
      = (addLagrange (gram (m.pressureSystem tens curv).lhs m.cells.length)
        (tRhs (m.pressureSystem tens curv).lhs m.cells.length (m.pressureSystem tens curv).rhs) 0).2)
    (h₂ : mulVec (addLagrange (gram (m.pressureSystem tens curv).lhs m.cells.length)
        (tRhs (m.pressureSystem tens curv).lhs m.cells.length (m.pressureSystem tens curv).rhs) 0).1 (q ++ [nu])
      = (addLagrange (gram (m.pressureSystem tens curv).lhs m.cells.length)
        (tRhs (m.pressureSystem tens curv).lhs m.cells.length (m.pressureSystem tens curv).rhs) 0).2) :
    p = q := by
  have hs := (pressureSystem_shape m tens curv).2.2.2.2
  have hp0 := (normal_eq_extract _ _ p mu _ hn hp h₁).2
  have hq0 := (normal_eq_extract _ _ q nu _ hn hq h₂).2
  have himg := normal_eq_same_image' _ _ p q mu nu _ _ hn hs hp hq h₁ h₂
  exact pressureSystem_unique m tens curv p q hp hq hok hconn himg.symm hzp hzq hp0 hq0
end Forsys
