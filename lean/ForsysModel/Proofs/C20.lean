/- helper lemmas for Props/C20.lean -/
import ForsysModel.Model.Geometry
import ForsysModel.Model.Mesh
namespace Forsys
end Forsys
