/- helper lemmas for Props/C20.lean -/
import ForsysModel.Model.Geometry
import ForsysModel.Model.Mesh
import Mathlib.Tactic.Ring
import Mathlib.Tactic.Linarith
import Mathlib.Data.List.Rotate
import Mathlib.Data.List.Zip
import Mathlib.Algebra.BigOperators.Group.List.Basic
import Mathlib.Algebra.BigOperators.Ring.List
import Mathlib.Algebra.Order.Field.Rat
namespace Forsys

theorem rotateLeft_eq_rotate {α : Type} (l : List α) (k : Nat) : l.rotateLeft k = l.rotate k := by
  unfold List.rotateLeft
  simp only []
  split
  · rename_i h
    match l, h with
    | [], _ => simp
    | [a], _ => simp [List.rotate_singleton]
    | a :: b :: l, h => simp at h
  · simp [List.rotate_eq_drop_append_take_mod]

theorem rollR_eq_rotate {α : Type} (l : List α) : rollR l = l.rotate (l.length - 1) := by
  unfold rollR
  rcases List.eq_nil_or_concat l with rfl | ⟨l', a, rfl⟩
  · simp
  · simp

theorem cyclicPairs_eq {α : Type} (l : List α) : cyclicPairs l = l.zip (l.rotate 1) := by
  cases l with
  | nil => simp [cyclicPairs]
  | cons a l => simp [cyclicPairs, List.rotate_cons_succ]

theorem cyclicPairs_rotate {α : Type} (l : List α) (k : Nat) :
    cyclicPairs (l.rotate k) = (cyclicPairs l).rotate k := by
  rw [cyclicPairs_eq, cyclicPairs_eq, List.zip_eq_zipWith, List.zip_eq_zipWith,
    List.zipWith_rotate_distrib _ _ _ _ (by simp), List.rotate_rotate, List.rotate_rotate,
    Nat.add_comm]

theorem rollR_map {α β : Type} (f : α → β) (l : List α) : rollR (l.map f) = (rollR l).map f := by
  simp [rollR_eq_rotate]

theorem rotate_one_rotate_pred {α : Type} (l : List α) : (l.rotate 1).rotate (l.length - 1) = l := by
  cases l with
  | nil => simp
  | cons a l =>
    rw [List.rotate_rotate]
    have : 1 + ((a :: l).length - 1) = (a :: l).length := by simp; omega
    rw [this, List.rotate_length]

/-- `zip l (rollR l)` is a rotation of the swapped cyclic pairs -/
theorem zip_rollR {α : Type} (l : List α) :
    l.zip (rollR l) = ((cyclicPairs l).map Prod.swap).rotate (l.length - 1) := by
  rw [cyclicPairs_eq, rollR_eq_rotate]
  have : (l.zip (l.rotate 1)).map Prod.swap = (l.rotate 1).zip l := by
    rw [List.zip_swap]
  rw [this, List.zip_eq_zipWith, List.zip_eq_zipWith, List.zipWith_rotate_distrib _ _ _ _ (by simp), rotate_one_rotate_pred]

theorem zip_rollR_perm {α : Type} (l : List α) :
    (l.zip (rollR l)).Perm ((cyclicPairs l).map Prod.swap) := by
  rw [zip_rollR]; exact List.rotate_perm _ _

theorem dot_map_rollR (f g : Pt → Rat) (ps : List Pt) :
    dot (ps.map f) (rollR (ps.map g)) = ((cyclicPairs ps).map fun e => f e.2 * g e.1).sum := by
  rw [rollR_map, dot, List.zipWith_map]
  have : List.zipWith (fun a b => f a * g b) ps (rollR ps)
      = (ps.zip (rollR ps)).map (fun e => f e.1 * g e.2) := by
    rw [List.zip_eq_zipWith, List.map_zipWith]
  rw [this, ((zip_rollR_perm ps).map _).sum_eq, List.map_map]
  rfl

theorem sum_map_sub' {α : Type} (l : List α) (f g : α → Rat) :
    (l.map fun a => f a - g a).sum = (l.map f).sum - (l.map g).sum := by
  induction l with
  | nil => simp
  | cons a l ih => simp [ih]; ring

def eCross (e : Pt × Pt) : Rat := e.1.x * e.2.y - e.2.x * e.1.y

theorem area_eq_sum (ps : List Pt) : area ps = -(1/2 : Rat) * ((cyclicPairs ps).map eCross).sum := by
  unfold area
  rw [dot_map_rollR (·.x) (·.y), dot_map_rollR (·.y) (·.x), ← sum_map_sub']
  have : (fun a : Pt × Pt => a.2.x * a.1.y - a.2.y * a.1.x) = fun a => (-1 : Rat) * eCross a := by
    funext a; unfold eCross; ring
  rw [this, List.sum_map_mul_left]; ring

theorem crossSumOpen_eq (l : List Pt) (p q : Pt) :
    crossSumOpen (p :: l ++ [q]) = ((List.zip (p :: l) (l ++ [q])).map eCross).sum := by
  induction l generalizing p with
  | nil => simp [crossSumOpen, eCross]
  | cons r l ih =>
    have := ih r
    simp only [List.cons_append] at this ⊢
    rw [crossSumOpen, this]
    simp [eCross]

theorem shoelace2_eq_sum (ps : List Pt) : shoelace2 ps = ((cyclicPairs ps).map eCross).sum := by
  cases ps with
  | nil => simp [shoelace2, cyclicPairs]
  | cons p l => simp only [shoelace2, cyclicPairs]; exact crossSumOpen_eq l p p


theorem rotate_eq_self_of_mod {α : Type} (l : List α) (k : Nat) (h : k % l.length = 0) :
    l.rotate k = l := by
  rw [← List.rotate_mod, h, List.rotate_zero]

theorem cyclicPairs_swap {α : Type} (l : List α) :
    (cyclicPairs l).map Prod.swap = (l.rotate 1).zip l := by
  rw [cyclicPairs_eq, List.zip_swap]

theorem cyclicPairs_reverse_rotate {α : Type} (l : List α) :
    (cyclicPairs l.reverse).rotate (l.length - 1 % l.length)
      = ((cyclicPairs l).map Prod.swap).reverse := by
  rcases l with _ | ⟨a, l⟩
  · simp [cyclicPairs]
  generalize hl : a :: l = l at *
  rw [cyclicPairs_swap, cyclicPairs_eq, List.zip_eq_zipWith, List.zip_eq_zipWith,
    List.zipWith_rotate_distrib _ _ _ _ (by simp), List.reverse_zipWith (by simp),
    List.reverse_rotate, List.rotate_rotate]
  congr 1
  apply rotate_eq_self_of_mod
  simp only [List.length_reverse]
  have : l.length ≠ 0 := by subst hl; simp
  generalize l.length = n at *
  rcases n with _ | _ | n
  · simp at this
  · simp
  · rw [Nat.mod_eq_of_lt (by omega : 1 < n + 1 + 1)]
    have : 1 + (n + 1 + 1 - 1) = n + 1 + 1 := by omega
    rw [this, Nat.mod_self]

theorem cyclicPairs_reverse_perm' {α : Type} (l : List α) :
    (cyclicPairs l.reverse).Perm ((cyclicPairs l).map Prod.swap) :=
  ((List.rotate_perm _ _).symm.trans (by rw [cyclicPairs_reverse_rotate])).trans
    (List.reverse_perm _)

theorem cyclicPairs_map {α β : Type} (f : α → β) (l : List α) :
    cyclicPairs (l.map f) = (cyclicPairs l).map (Prod.map f f) := by
  rw [cyclicPairs_eq, cyclicPairs_eq, ← List.map_rotate, List.zip_map]

theorem cyclicPairs_fst {α : Type} (l : List α) : (cyclicPairs l).map Prod.fst = l := by
  rw [cyclicPairs_eq, List.map_fst_zip (by simp)]

theorem cyclicPairs_snd {α : Type} (l : List α) : (cyclicPairs l).map Prod.snd = l.rotate 1 := by
  rw [cyclicPairs_eq, List.map_snd_zip (by simp)]

theorem sum_cyclic_telescope {α : Type} (g : α → Rat) (l : List α) :
    ((cyclicPairs l).map fun e => g e.2).sum = ((cyclicPairs l).map fun e => g e.1).sum := by
  have h1 : ((cyclicPairs l).map fun e => g e.2) = (l.rotate 1).map g := by
    rw [← cyclicPairs_snd, List.map_map]; rfl
  have h2 : ((cyclicPairs l).map fun e => g e.1) = l.map g := by
    conv_rhs => rw [← cyclicPairs_fst l, List.map_map]
    rfl
  rw [h1, h2]
  exact ((List.rotate_perm l 1).map g).sum_eq


theorem eCross_swap (e : Pt × Pt) : eCross e.swap = - eCross e := by
  unfold eCross; simp

theorem sum_map_neg' {α : Type} (l : List α) (f : α → Rat) :
    (l.map fun a => - f a).sum = - (l.map f).sum := by
  induction l with
  | nil => simp
  | cons a l ih => simp [ih]; ring

theorem sum_eCross_swap (l : List (Pt × Pt)) :
    ((l.map Prod.swap).map eCross).sum = - (l.map eCross).sum := by
  rw [List.map_map, ← sum_map_neg']
  congr 1
  apply List.map_congr_left
  intro e _
  exact eCross_swap e

theorem area_reverse' (ps : List Pt) : area ps.reverse = - area ps := by
  rw [area_eq_sum, area_eq_sum, ((cyclicPairs_reverse_perm' ps).map eCross).sum_eq, sum_eCross_swap]
  ring

theorem ratSign_neg (q : Rat) : ratSign (-q) = - ratSign q := by
  unfold ratSign
  rcases lt_trichotomy q 0 with h | h | h
  · have h1 : 0 < -q := by linarith
    have h2 : ¬ 0 < q := by linarith
    simp [h, h1, h2]
  · subst h; simp
  · have h1 : -q < 0 := by linarith
    have h2 : ¬ 0 < -q := by linarith
    simp [h, h1, h2]

theorem area_rotate' (ps : List Pt) (k : Nat) : area (ps.rotateLeft k) = area ps := by
  rw [rotateLeft_eq_rotate, area_eq_sum, area_eq_sum, cyclicPairs_rotate,
    ((List.rotate_perm _ k).map eCross).sum_eq]

theorem area_map_translate (d : Pt) (ps : List Pt) :
    area (ps.map fun p => ⟨p.x + d.x, p.y + d.y⟩) = area ps := by
  rw [area_eq_sum, area_eq_sum, cyclicPairs_map, List.map_map]
  have : (eCross ∘ Prod.map (fun p : Pt => (⟨p.x + d.x, p.y + d.y⟩ : Pt)) (fun p => ⟨p.x + d.x, p.y + d.y⟩))
      = fun e => eCross e + ((d.x * e.2.y - d.y * e.2.x) - (d.x * e.1.y - d.y * e.1.x)) := by
    funext e; simp [eCross]; ring
  rw [this, List.sum_map_add, sum_map_sub',
    sum_cyclic_telescope (fun p : Pt => d.x * p.y - d.y * p.x)]
  ring

theorem area_map_scale (s : Rat) (ps : List Pt) :
    area (ps.map fun p => ⟨s * p.x, s * p.y⟩) = s * s * area ps := by
  rw [area_eq_sum, area_eq_sum, cyclicPairs_map, List.map_map]
  have : (eCross ∘ Prod.map (fun p : Pt => (⟨s * p.x, s * p.y⟩ : Pt)) (fun p => ⟨s * p.x, s * p.y⟩))
      = fun e => (s * s) * eCross e := by
    funext e; simp [eCross]; ring
  rw [this, List.sum_map_mul_left]
  ring


theorem pyMod_natCast (a n : Nat) : pyMod (a : Int) n = a % n := by
  unfold pyMod
  rw [← Int.natCast_mod, Int.toNat_natCast]

theorem pyMod_add_one (i n : Nat) : pyMod ((i : Int) + 1) n = (i + 1) % n := by
  rw [← pyMod_natCast]; rfl

theorem pyMod_sub_one (i n : Nat) (hn : 0 < n) : pyMod ((i : Int) + -1) n = (i + n - 1) % n := by
  rw [← pyMod_natCast]
  unfold pyMod
  congr 1
  have : ((i + n - 1 : Nat) : Int) = (i : Int) + -1 + (n : Int) := by omega
  rw [this, Int.add_emod_right]

theorem ratSign_cases (q : Rat) : ratSign q = 1 ∨ ratSign q = -1 ∨ ratSign q = 0 := by
  unfold ratSign; split
  · simp
  · split <;> simp

theorem pyMod_cancel (i n : Nat) (s : Int) (hi : i < n) :
    pyMod ((pyMod ((i : Int) - s) n : Int) + s) n = i := by
  have hn : (n : Int) ≠ 0 := by omega
  unfold pyMod
  rw [Int.toNat_of_nonneg (Int.emod_nonneg _ hn), Int.emod_add_emod, Int.sub_add_cancel,
    ← Int.natCast_mod, Int.toNat_natCast, Nat.mod_eq_of_lt hi]

theorem pyMod_cancel' (i n : Nat) (s : Int) (hi : i < n) :
    pyMod ((pyMod ((i : Int) + s) n : Int) - s) n = i := by
  have := pyMod_cancel i n (-s) hi
  simpa [sub_eq_add_neg] using this


theorem nodup_eraseDups {α : Type} [BEq α] [LawfulBEq α] (l : List α) : l.eraseDups.Nodup := by
  induction h : l.length using Nat.strong_induction_on generalizing l with
  | _ n ih =>
    cases l with
    | nil => simp
    | cons a as =>
      rw [List.eraseDups_cons, List.nodup_cons]
      refine ⟨?_, ?_⟩
      · rw [List.mem_eraseDups]; simp
      · subst h
        exact ih _ (Nat.lt_succ_of_le (List.length_filter_le _ _)) _ rfl

theorem mem_neighbors (m : Mesh) (c : Cell) (d : Id) :
    d ∈ m.neighbors c ↔ d ≠ c.id ∧ ∃ v ∈ c.verts, d ∈ m.ownCells v := by
  unfold Mesh.neighbors
  rw [(nodup_eraseDups _).mem_erase_iff, List.mem_eraseDups]
  simp [List.mem_flatten]

theorem getD_eq_getElem {α : Type} (l : List α) (i : Nat) (d : α) (h : i < l.length) :
    l.getD i d = l[i] := by
  simp [List.getD, h]

theorem perimeterSq_pos (ps : List Pt) (h : areaSign ps = 1) :
    perimeterSq ps = (cyclicPairs ps).map fun e => distSq e.1 e.2 := by
  unfold perimeterSq nextIdx
  rw [h, cyclicPairs_eq]
  apply List.ext_getElem
  · simp
  · intro i h1 h2
    have hi : i < ps.length := by simpa using h1
    have hn : (i + 1) % ps.length < ps.length := Nat.mod_lt _ (by omega)
    simp only [List.getElem_map, List.getElem_range, List.getElem_zip, pyMod_add_one]
    rw [getD_eq_getElem _ _ _ hi, getD_eq_getElem _ _ _ hn, List.getElem_rotate]

theorem distSq_comm (p q : Pt) : distSq p q = distSq q p := by
  unfold distSq; ring

theorem perimeterSq_neg (ps : List Pt) (h : areaSign ps = -1) :
    (perimeterSq ps).Perm ((cyclicPairs ps).map fun e => distSq e.1 e.2) := by
  have key : perimeterSq ps = (ps.zip (rollR ps)).map fun e => distSq e.1 e.2 := by
    unfold perimeterSq nextIdx
    rw [h, rollR_eq_rotate]
    apply List.ext_getElem
    · simp
    · intro i h1 h2
      have hi : i < ps.length := by simpa using h1
      have hn : (i + ps.length - 1) % ps.length < ps.length := Nat.mod_lt _ (by omega)
      simp only [List.getElem_map, List.getElem_range, List.getElem_zip,
        pyMod_sub_one _ _ (by omega : 0 < ps.length)]
      rw [getD_eq_getElem _ _ _ hi, getD_eq_getElem _ _ _ hn, List.getElem_rotate]
      have e : i + ps.length - 1 = i + (ps.length - 1) := by omega
      simp only [e]
  rw [key]
  refine ((zip_rollR_perm ps).map _).trans ?_
  rw [List.map_map]
  apply List.Perm.of_eq
  apply List.map_congr_left
  intro e _
  exact distSq_comm _ _

theorem sum_map_area (cells : List (List Pt)) :
    (cells.map area).sum = -(1/2 : Rat) * (((cells.map cyclicPairs).flatten).map eCross).sum := by
  induction cells with
  | nil => simp
  | cons c cs ih =>
    simp only [List.map_cons, List.sum_cons, List.flatten_cons, List.map_append, List.sum_append, ih,
      area_eq_sum]
    ring

theorem area_additive' (cells : List (List Pt)) (outline : List Pt) (inner : List (Pt × Pt))
    (h : ((cells.map cyclicPairs).flatten).Perm (cyclicPairs outline ++ inner ++ inner.map Prod.swap)) :
    (cells.map area).sum = area outline := by
  rw [sum_map_area, (h.map eCross).sum_eq, area_eq_sum]
  simp only [List.map_append, List.sum_append, sum_eCross_swap]
  ring

end Forsys
