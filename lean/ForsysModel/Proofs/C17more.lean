/-
  Helper lemmas for the second batch of property C17 theorems (Props/C17more.lean).
  Model: ForsysModel/Model/Myosin.lean.
-/
import ForsysModel.Model.Myosin
import ForsysModel.Proofs.C17
import Mathlib.Tactic.Ring
import Mathlib.Tactic.Linarith
import Mathlib.Tactic.FieldSimp
import Mathlib.Algebra.Order.Field.Rat
import Mathlib.Data.List.Basic
import Mathlib.Algebra.BigOperators.Group.List.Basic
import Mathlib.Algebra.BigOperators.Ring.List

namespace Forsys.Myosin

/-- the mean does not depend on the order of the values -/
theorem mean_perm {l l' : List Rat} (h : l.Perm l') : mean l = mean l' := by
  unfold mean
  rw [h.sum_eq, h.length_eq]
  have : l.isEmpty = l'.isEmpty := by
    cases l <;> cases l' <;> simp_all
  rw [this]

theorem mean_ne_nil (l : List Rat) (h : l ≠ []) : mean l = l.sum / l.length := by
  unfold mean; rw [if_neg (by simpa using h)]

theorem mean_singleton (a : Rat) : mean [a] = a := by
  simp [mean]

theorem median_singleton (a : Rat) : median [a] = a := by
  simp [median, sort, orderedInsert]

theorem layerElements_zero (p : Pt) : getLayerElements p 0 = [p] := by
  simp [getLayerElements, layerRange]

theorem place_default (L : Nat) (v : Pt) : place { layers := L } v = v := by
  simp [place]

theorem map_place_default (L : Nat) (vs : List Pt) : vs.map (place { layers := L }) = vs := by
  induction vs with
  | nil => rfl
  | cons a l ih => rw [List.map_cons, ih, place_default]

theorem mean_replicate (n : Nat) (k : Rat) (hn : n ≠ 0) : mean (List.replicate n k) = k := by
  apply mean_const
  · intro h; apply hn; simpa using congrArg List.length h
  · intro x hx; exact (List.mem_replicate.mp hx).2

theorem bandSum_add (img1 img2 img3 : Image) (b : List Pt)
    (h : ∀ p ∈ b, getpixel img3 p = getpixel img1 p + getpixel img2 p) :
    bandSum img3 b = bandSum img1 b + bandSum img2 b := by
  unfold bandSum
  induction b with
  | nil => simp
  | cons a l ih =>
    simp only [List.map_cons, List.sum_cons]
    rw [ih (fun p hp => h p (List.mem_cons_of_mem _ hp)), h a (List.mem_cons_self)]
    ring

theorem bandSum_const (img : Image) (b : List Pt) (k : Rat) (h : ∀ p ∈ b, getpixel img p = k) :
    bandSum img b = (b.length : Rat) * k := by
  unfold bandSum
  induction b with
  | nil => simp
  | cons a l ih =>
    simp only [List.map_cons, List.sum_cons, List.length_cons]
    rw [ih (fun p hp => h p (List.mem_cons_of_mem _ hp)), h a (List.mem_cons_self)]
    push_cast; ring

theorem normalise_length (norm : Norm) (vals : List Rat) : (normalise norm vals).length = vals.length := by
  cases norm <;> simp [normalise]

theorem normalise_average_mean (vals : List Rat) (h : mean vals ≠ 0) :
    mean (normalise .average vals) = 1 := by
  unfold normalise
  simp only
  have hmap : (vals.map fun v => v / mean vals).sum = vals.sum / mean vals := by
    simp only [div_eq_mul_inv]
    rw [List.sum_map_mul_right]
    simp
  have h0 : vals ≠ [] := by
    intro h'; subst h'; simp [mean] at h
  have hn : (vals.length : Rat) ≠ 0 := by
    have : vals.length ≠ 0 := by simpa using h0
    exact_mod_cast this
  rw [mean_ne_nil _ (by simpa using h0), hmap, List.length_map]
  rw [mean_ne_nil _ h0] at h ⊢
  have hs : vals.sum ≠ 0 := by
    intro h'; apply h; rw [h']; simp
  field_simp

theorem normalise_perm (norm : Norm) {l l' : List Rat} (h : l.Perm l') :
    (normalise norm l).Perm (normalise norm l') := by
  cases norm
  · exact h
  · simp only [normalise]
    rw [mean_perm h]
    exact h.map _

end Forsys.Myosin
