/- helper lemmas and transformation vocabulary for Props/C18covar.lean -/
import ForsysModel.Model.StressTensor
import ForsysModel.Proofs.C18
import Mathlib.Tactic.Ring
import Mathlib.Tactic.Linarith
import Mathlib.Tactic.FieldSimp
import Mathlib.Tactic.LinearCombination
import Mathlib.Tactic.Positivity
import Mathlib.Algebra.Order.Field.Rat
import Mathlib.Algebra.BigOperators.Group.List.Basic
namespace Forsys

/-! ### vocabulary: rigid motions and scalings of the two tables -/

/-- translate a cell centre by `(dx, dy)` -/
def CellRow.translate (dx dy : Rat) (k : CellRow) : CellRow := { k with xcm := k.xcm + dx, ycm := k.ycm + dy }
/-- scale all lengths of a cell row by `s` (centre × s, area × s²), pressure kept -/
def CellRow.scale (s : Rat) (k : CellRow) : CellRow := { k with xcm := s * k.xcm, ycm := s * k.ycm, area := s * s * k.area }
/-- apply the matrix `[[a, -b], [b, a]]` to the cell centre -/
def CellRow.rotate (a b : Rat) (k : CellRow) : CellRow := { k with xcm := a * k.xcm - b * k.ycm, ycm := b * k.xcm + a * k.ycm }
/-- reflect the cell centre in the x axis -/
def CellRow.reflect (k : CellRow) : CellRow := { k with ycm := - k.ycm }

/-- scale all lengths of an interface row by `s` (vector × s, norm × s) and the tension by `t` -/
def EdgeRow.scale (s t : Rat) (e : EdgeRow) : EdgeRow := { e with stress := t * e.stress, vx := s * e.vx, vy := s * e.vy, norm := s * e.norm }
/-- apply the matrix `[[a, -b], [b, a]]` to the interface vector (the norm is kept) -/
def EdgeRow.rotate (a b : Rat) (e : EdgeRow) : EdgeRow := { e with vx := a * e.vx - b * e.vy, vy := b * e.vx + a * e.vy }
/-- reflect the interface vector in the x axis (the norm is kept) -/
def EdgeRow.reflect (e : EdgeRow) : EdgeRow := { e with vy := - e.vy }

def Pt.translate (dx dy : Rat) (c : Pt) : Pt := ⟨c.x + dx, c.y + dy⟩
def Pt.scale (s : Rat) (c : Pt) : Pt := ⟨s * c.x, s * c.y⟩
def Pt.rotate (a b : Rat) (c : Pt) : Pt := ⟨a * c.x - b * c.y, b * c.x + a * c.y⟩
def Pt.reflect (c : Pt) : Pt := ⟨c.x, - c.y⟩

/-- `R σ Rᵀ` for `R = [[a, -b], [b, a]]`, written out -/
def Mat2.conj (a b : Rat) (m : Mat2) : Mat2 :=
  ⟨a * a * m.xx - a * b * m.xy - a * b * m.yx + b * b * m.yy,
   a * b * m.xx + a * a * m.xy - b * b * m.yx - a * b * m.yy,
   a * b * m.xx - b * b * m.xy + a * a * m.yx - a * b * m.yy,
   b * b * m.xx + a * b * m.xy + a * b * m.yx + a * a * m.yy⟩

/-- `F σ Fᵀ` for `F = diag(1, -1)` -/
def Mat2.flip (m : Mat2) : Mat2 := ⟨m.xx, - m.xy, - m.yx, m.yy⟩

/-- `σ · u` -/
def Mat2.mulVec (m : Mat2) (ux uy : Rat) : Rat × Rat := (m.xx * ux + m.xy * uy, m.yx * ux + m.yy * uy)

def Mat2.tr (m : Mat2) : Rat := m.xx + m.yy
def Mat2.det (m : Mat2) : Rat := m.xx * m.yy - m.xy * m.yx

/-! ### permutations -/

theorem selectCells_perm {c1 c2 : List CellRow} (h : c1.Perm c2) (c : Pt) (md2 : Rat) :
    (selectCells c1 c md2).Perm (selectCells c2 c md2) := h.filter _

theorem selectEdges_perm {e1 e2 : List EdgeRow} {i1 i2 : List Id} (h : e1.Perm e2) (hi : i1.Perm i2) :
    (selectEdges e1 i1).Perm (selectEdges e2 i2) := by
  have hf : (fun e : EdgeRow => i1.contains e.cell1 || i1.contains e.cell2)
      = (fun e : EdgeRow => i2.contains e.cell1 || i2.contains e.cell2) := by
    funext e
    simp [hi.mem_iff]
  unfold selectEdges
  rw [hf]
  exact h.filter _

theorem c18_sum_map_perm {α : Type} {l1 l2 : List α} (h : l1.Perm l2) (f : α → Rat) :
    (l1.map f).sum = (l2.map f).sum := (h.map f).sum_eq

theorem sigma_perm_pf (cells cells' : List CellRow) (edges edges' : List EdgeRow) (c : Pt) (md2 : Rat)
    (h1 : cells.Perm cells') (h2 : edges.Perm edges') :
    sigmaOf cells edges c md2 = sigmaOf cells' edges' c md2 := by
  have hs := selectCells_perm h1 c md2
  have hes := selectEdges_perm h2 (hs.map (·.id))
  have t1 : totalArea (selectCells cells c md2) = totalArea (selectCells cells' c md2) := c18_sum_map_perm hs _
  have t2 : pressureAreaTerm (selectCells cells c md2) = pressureAreaTerm (selectCells cells' c md2) :=
    congrArg Neg.neg (c18_sum_map_perm hs _)
  have t3 := c18_sum_map_perm hes (fun e => e.stress * (e.vx * e.vx) / e.norm)
  have t4 := c18_sum_map_perm hes (fun e => e.stress * (e.vx * e.vy) / e.norm)
  have t5 := c18_sum_map_perm hes (fun e => e.stress * (e.vy * e.vy) / e.norm)
  unfold sigmaOf
  simp only [t1, t2]
  unfold tensionXX tensionXY tensionYY
  rw [t3, t4, t5]

/-! ### generic change of variables -/

theorem selectCells_map_of (f : CellRow → CellRow) (cells : List CellRow) (c c' : Pt) (md2 md2' : Rat)
    (h : ∀ k, inDisc c' md2' (f k) = inDisc c md2 k) :
    selectCells (cells.map f) c' md2' = (selectCells cells c md2).map f := by
  show (cells.map f).filter (inDisc c' md2') = (cells.filter (inDisc c md2)).map f
  rw [List.filter_map]
  congr 1
  apply List.filter_congr
  intro k _
  exact h k

theorem selectEdges_map_of (g : EdgeRow → EdgeRow) (edges : List EdgeRow) (ids : List Id)
    (h1 : ∀ e, (g e).cell1 = e.cell1) (h2 : ∀ e, (g e).cell2 = e.cell2) :
    selectEdges (edges.map g) ids = (selectEdges edges ids).map g := by
  unfold selectEdges
  rw [List.filter_map]
  congr 1
  apply List.filter_congr
  intro e _
  simp only [Function.comp, h1, h2]

theorem sigmaOf_transform (f : CellRow → CellRow) (g : EdgeRow → EdgeRow) (cells : List CellRow)
    (edges : List EdgeRow) (c c' : Pt) (md2 md2' : Rat)
    (hsel : ∀ k, inDisc c' md2' (f k) = inDisc c md2 k)
    (hid : ∀ k, (f k).id = k.id) (h1 : ∀ e, (g e).cell1 = e.cell1) (h2 : ∀ e, (g e).cell2 = e.cell2) :
    sigmaOf (cells.map f) (edges.map g) c' md2' =
      (let sel := selectCells cells c md2
       let es := selectEdges edges (sel.map (·.id))
       let total := (sel.map fun k => (f k).area).sum
       if total = 0 then Mat2.zero else
         let pat := -(sel.map fun k => (f k).pressure * (f k).area).sum
         let sxy := (es.map fun e => (g e).stress * ((g e).vx * (g e).vy) / (g e).norm).sum / total
         ⟨(pat + (es.map fun e => (g e).stress * ((g e).vx * (g e).vx) / (g e).norm).sum) / total, sxy, sxy,
          (pat + (es.map fun e => (g e).stress * ((g e).vy * (g e).vy) / (g e).norm).sum) / total⟩) := by
  unfold sigmaOf
  rw [selectCells_map_of f cells c c' md2 md2' hsel]
  have hids : ((selectCells cells c md2).map f).map (·.id) = (selectCells cells c md2).map (·.id) := by
    rw [List.map_map]
    apply List.map_congr_left
    intro k _
    exact hid k
  simp only [hids, selectEdges_map_of g _ _ h1 h2, totalArea, pressureAreaTerm, tensionXX, tensionYY, tensionXY,
    List.map_map, Function.comp_def]

theorem sigmaOf_explicit (cells : List CellRow) (edges : List EdgeRow) (c : Pt) (md2 : Rat) :
    sigmaOf cells edges c md2 =
      (let sel := selectCells cells c md2
       let es := selectEdges edges (sel.map (·.id))
       let total := (sel.map fun k => k.area).sum
       if total = 0 then Mat2.zero else
         let pat := -(sel.map fun k => k.pressure * k.area).sum
         let sxy := (es.map fun e => e.stress * (e.vx * e.vy) / e.norm).sum / total
         ⟨(pat + (es.map fun e => e.stress * (e.vx * e.vx) / e.norm).sum) / total, sxy, sxy,
          (pat + (es.map fun e => e.stress * (e.vy * e.vy) / e.norm).sum) / total⟩) := rfl

theorem c18_sum_map_lin3 {α : Type} (l : List α) (a b d : Rat) (u v w : α → Rat) :
    (l.map fun t => a * u t + b * v t + d * w t).sum
      = a * (l.map u).sum + b * (l.map v).sum + d * (l.map w).sum := by
  induction l with
  | nil => simp
  | cons t l ih => simp only [List.map_cons, List.sum_cons, ih]; ring

theorem c18_sum_map_mul {α : Type} (l : List α) (a : Rat) (u : α → Rat) :
    (l.map fun t => a * u t).sum = a * (l.map u).sum := by
  induction l with
  | nil => simp
  | cons t l ih => simp only [List.map_cons, List.sum_cons, ih]; ring

/-! ### translation -/

theorem sigma_translate_pf (cells : List CellRow) (edges : List EdgeRow) (c : Pt) (md2 dx dy : Rat) :
    sigmaOf (cells.map (CellRow.translate dx dy)) edges (c.translate dx dy) md2 = sigmaOf cells edges c md2 := by
  have := sigmaOf_transform (CellRow.translate dx dy) id cells edges c (c.translate dx dy) md2 md2
    (by
      intro k
      simp only [inDisc, CellRow.translate, Pt.translate]
      congr 1
      rw [show c.x + dx - (k.xcm + dx) = c.x - k.xcm by ring, show c.y + dy - (k.ycm + dy) = c.y - k.ycm by ring])
    (fun _ => rfl) (fun _ => rfl) (fun _ => rfl)
  rw [List.map_id] at this
  rw [this, sigmaOf_explicit]
  rfl

/-- `sigmaOf_transform` with the five sums named -/
theorem sigmaOf_transform2 (f : CellRow → CellRow) (g : EdgeRow → EdgeRow) (cells : List CellRow)
    (edges : List EdgeRow) (c c' : Pt) (md2 md2' : Rat)
    (hsel : ∀ k, inDisc c' md2' (f k) = inDisc c md2 k)
    (hid : ∀ k, (f k).id = k.id) (h1 : ∀ e, (g e).cell1 = e.cell1) (h2 : ∀ e, (g e).cell2 = e.cell2)
    (A P XX XY YY : Rat)
    (hA : ((selectCells cells c md2).map fun k => (f k).area).sum = A)
    (hP : ((selectCells cells c md2).map fun k => (f k).pressure * (f k).area).sum = P)
    (hXX : ((selectEdges edges ((selectCells cells c md2).map (·.id))).map
      fun e => (g e).stress * ((g e).vx * (g e).vx) / (g e).norm).sum = XX)
    (hXY : ((selectEdges edges ((selectCells cells c md2).map (·.id))).map
      fun e => (g e).stress * ((g e).vx * (g e).vy) / (g e).norm).sum = XY)
    (hYY : ((selectEdges edges ((selectCells cells c md2).map (·.id))).map
      fun e => (g e).stress * ((g e).vy * (g e).vy) / (g e).norm).sum = YY) :
    sigmaOf (cells.map f) (edges.map g) c' md2' =
      if A = 0 then Mat2.zero else ⟨(-P + XX) / A, XY / A, XY / A, (-P + YY) / A⟩ := by
  subst hA hP hXX hXY hYY
  exact sigmaOf_transform f g cells edges c c' md2 md2' hsel hid h1 h2

theorem sigmaOf_explicit2 (cells : List CellRow) (edges : List EdgeRow) (c : Pt) (md2 : Rat)
    (A P XX XY YY : Rat)
    (hA : ((selectCells cells c md2).map fun k => k.area).sum = A)
    (hP : ((selectCells cells c md2).map fun k => k.pressure * k.area).sum = P)
    (hXX : ((selectEdges edges ((selectCells cells c md2).map (·.id))).map
      fun e => e.stress * (e.vx * e.vx) / e.norm).sum = XX)
    (hXY : ((selectEdges edges ((selectCells cells c md2).map (·.id))).map
      fun e => e.stress * (e.vx * e.vy) / e.norm).sum = XY)
    (hYY : ((selectEdges edges ((selectCells cells c md2).map (·.id))).map
      fun e => e.stress * (e.vy * e.vy) / e.norm).sum = YY) :
    sigmaOf cells edges c md2 =
      if A = 0 then Mat2.zero else ⟨(-P + XX) / A, XY / A, XY / A, (-P + YY) / A⟩ := by
  subst hA hP hXX hXY hYY
  rfl

/-! ### scaling -/

theorem sigma_scale_pf (cells : List CellRow) (edges : List EdgeRow) (c : Pt) (md2 s : Rat) (hs : s ≠ 0) :
    sigmaOf (cells.map (CellRow.scale s)) (edges.map (EdgeRow.scale s s)) (c.scale s) (s * s * md2)
      = sigmaOf cells edges c md2 := by
  have hss : 0 < s * s := mul_self_pos.mpr hs
  have hsel : ∀ k, inDisc (c.scale s) (s * s * md2) (CellRow.scale s k) = inDisc c md2 k := by
    intro k
    unfold inDisc
    rw [decide_eq_decide]
    simp only [CellRow.scale, Pt.scale]
    rw [show (s * c.x - s * k.xcm) * (s * c.x - s * k.xcm) + (s * c.y - s * k.ycm) * (s * c.y - s * k.ycm)
      = s * s * ((c.x - k.xcm) * (c.x - k.xcm) + (c.y - k.ycm) * (c.y - k.ycm)) by ring]
    exact mul_le_mul_iff_right₀ hss
  have e1 : ∀ l : List CellRow, (l.map fun k => (CellRow.scale s k).area).sum = s * s * (l.map fun k => k.area).sum :=
    fun l => c18_sum_map_mul l _ _
  have e2 : ∀ l : List CellRow, (l.map fun k => (CellRow.scale s k).pressure * (CellRow.scale s k).area).sum
      = s * s * (l.map fun k => k.pressure * k.area).sum := by
    intro l
    rw [← c18_sum_map_mul]
    congr 1
    apply List.map_congr_left
    intro k _
    simp only [CellRow.scale]
    ring
  have e3 : ∀ (l : List EdgeRow) (w : EdgeRow → Rat) (w' : EdgeRow → Rat), (∀ e, w' e = s * s * w e) →
      (l.map fun e => (EdgeRow.scale s s e).stress * w' e / (EdgeRow.scale s s e).norm).sum
        = s * s * (l.map fun e => e.stress * w e / e.norm).sum := by
    intro l w w' hw
    rw [← c18_sum_map_mul]
    congr 1
    apply List.map_congr_left
    intro e _
    rw [hw]
    simp only [EdgeRow.scale]
    by_cases hn : e.norm = 0
    · simp [hn]
    · field_simp
  rw [sigmaOf_transform2 (CellRow.scale s) (EdgeRow.scale s s) cells edges c (c.scale s) md2 (s * s * md2)
    hsel (fun _ => rfl) (fun _ => rfl) (fun _ => rfl) _ _ _ _ _ (e1 _) (e2 _)
    (e3 _ (fun e => e.vx * e.vx) _ (fun e => by simp only [EdgeRow.scale]; ring))
    (e3 _ (fun e => e.vx * e.vy) _ (fun e => by simp only [EdgeRow.scale]; ring))
    (e3 _ (fun e => e.vy * e.vy) _ (fun e => by simp only [EdgeRow.scale]; ring)),
    sigmaOf_explicit2 cells edges c md2 _ _ _ _ _ rfl rfl rfl rfl rfl]
  have hss' : s * s ≠ 0 := hss.ne'
  by_cases hA : ((selectCells cells c md2).map fun k => k.area).sum = 0
  · simp [hA]
  · have hA' : s * s * ((selectCells cells c md2).map fun k => k.area).sum ≠ 0 := mul_ne_zero hss' hA
    simp only [if_neg hA, if_neg hA', Mat2.mk.injEq]
    refine ⟨?_, ?_, ?_, ?_⟩ <;> field_simp

/-! ### rotation and reflection -/

theorem sigma_rotate_pf (cells : List CellRow) (edges : List EdgeRow) (c : Pt) (md2 a b : Rat)
    (hab : a * a + b * b = 1) :
    sigmaOf (cells.map (CellRow.rotate a b)) (edges.map (EdgeRow.rotate a b)) (c.rotate a b) md2
      = Mat2.conj a b (sigmaOf cells edges c md2) := by
  have hsel : ∀ k, inDisc (c.rotate a b) md2 (CellRow.rotate a b k) = inDisc c md2 k := by
    intro k
    unfold inDisc
    rw [decide_eq_decide]
    simp only [CellRow.rotate, Pt.rotate]
    rw [show (a * c.x - b * c.y - (a * k.xcm - b * k.ycm)) * (a * c.x - b * c.y - (a * k.xcm - b * k.ycm))
        + (b * c.x + a * c.y - (b * k.xcm + a * k.ycm)) * (b * c.x + a * c.y - (b * k.xcm + a * k.ycm))
      = (a * a + b * b) * ((c.x - k.xcm) * (c.x - k.xcm) + (c.y - k.ycm) * (c.y - k.ycm)) by ring, hab, one_mul]
  have e3 : ∀ (l : List EdgeRow) (p q r : Rat) (w : EdgeRow → Rat),
      (∀ e, w e = p * (e.vx * e.vx) + q * (e.vx * e.vy) + r * (e.vy * e.vy)) →
      (l.map fun e => (EdgeRow.rotate a b e).stress * w e / (EdgeRow.rotate a b e).norm).sum
        = p * (l.map fun e => e.stress * (e.vx * e.vx) / e.norm).sum
          + q * (l.map fun e => e.stress * (e.vx * e.vy) / e.norm).sum
          + r * (l.map fun e => e.stress * (e.vy * e.vy) / e.norm).sum := by
    intro l p q r w hw
    rw [← c18_sum_map_lin3]
    congr 1
    apply List.map_congr_left
    intro e _
    rw [hw]
    simp only [EdgeRow.rotate]
    ring
  rw [sigmaOf_transform2 (CellRow.rotate a b) (EdgeRow.rotate a b) cells edges c (c.rotate a b) md2 md2
    hsel (fun _ => rfl) (fun _ => rfl) (fun _ => rfl) (((selectCells cells c md2).map fun k => k.area).sum) (((selectCells cells c md2).map fun k => k.pressure * k.area).sum) _ _ _ rfl rfl
    (e3 _ (a * a) (-(2 * a * b)) (b * b) _ (fun e => by simp only [EdgeRow.rotate]; ring))
    (e3 _ (a * b) (a * a - b * b) (-(a * b)) _ (fun e => by simp only [EdgeRow.rotate]; ring))
    (e3 _ (b * b) (2 * a * b) (a * a) _ (fun e => by simp only [EdgeRow.rotate]; ring)),
    sigmaOf_explicit2 cells edges c md2 _ _ _ _ _ rfl rfl rfl rfl rfl]
  by_cases hA : ((selectCells cells c md2).map fun k => k.area).sum = 0
  · simp [hA, Mat2.conj, Mat2.zero]
  · simp only [if_neg hA, Mat2.conj, Mat2.mk.injEq]
    refine ⟨?_, ?_, ?_, ?_⟩
    · linear_combination
        (-(-((selectCells cells c md2).map fun k => k.pressure * k.area).sum
          / ((selectCells cells c md2).map fun k => k.area).sum)) * hab
    · ring
    · ring
    · linear_combination
        (-(-((selectCells cells c md2).map fun k => k.pressure * k.area).sum
          / ((selectCells cells c md2).map fun k => k.area).sum)) * hab

theorem sigma_reflect_pf (cells : List CellRow) (edges : List EdgeRow) (c : Pt) (md2 : Rat) :
    sigmaOf (cells.map CellRow.reflect) (edges.map EdgeRow.reflect) c.reflect md2
      = Mat2.flip (sigmaOf cells edges c md2) := by
  have hsel : ∀ k, inDisc c.reflect md2 (CellRow.reflect k) = inDisc c md2 k := by
    intro k
    unfold inDisc
    rw [decide_eq_decide]
    simp only [CellRow.reflect, Pt.reflect]
    rw [show (-c.y - -k.ycm) * (-c.y - -k.ycm) = (c.y - k.ycm) * (c.y - k.ycm) by ring]
  have e1 : ∀ l : List EdgeRow, (l.map fun e => (EdgeRow.reflect e).stress
        * ((EdgeRow.reflect e).vx * (EdgeRow.reflect e).vy) / (EdgeRow.reflect e).norm).sum
      = (-1) * (l.map fun e => e.stress * (e.vx * e.vy) / e.norm).sum := by
    intro l
    rw [← c18_sum_map_mul]
    congr 1
    apply List.map_congr_left
    intro e _
    simp only [EdgeRow.reflect]
    ring
  have e2 : ∀ l : List EdgeRow, (l.map fun e => (EdgeRow.reflect e).stress
        * ((EdgeRow.reflect e).vy * (EdgeRow.reflect e).vy) / (EdgeRow.reflect e).norm).sum
      = (l.map fun e => e.stress * (e.vy * e.vy) / e.norm).sum := by
    intro l
    congr 1
    apply List.map_congr_left
    intro e _
    simp only [EdgeRow.reflect]
    ring
  rw [sigmaOf_transform2 CellRow.reflect EdgeRow.reflect cells edges c c.reflect md2 md2
    hsel (fun _ => rfl) (fun _ => rfl) (fun _ => rfl) (((selectCells cells c md2).map fun k => k.area).sum) (((selectCells cells c md2).map fun k => k.pressure * k.area).sum) ((selectEdges edges ((selectCells cells c md2).map (·.id))).map fun e => e.stress * (e.vx * e.vx) / e.norm).sum _ _ rfl rfl rfl (e1 _) (e2 _),
    sigmaOf_explicit2 cells edges c md2 _ _ _ _ _ rfl rfl rfl rfl rfl]
  by_cases hA : ((selectCells cells c md2).map fun k => k.area).sum = 0
  · simp [hA, Mat2.flip, Mat2.zero]
  · simp only [if_neg hA, Mat2.flip, Mat2.mk.injEq]
    refine ⟨trivial, ?_, ?_, trivial⟩ <;> ring

/-! ### trace -/

theorem trace_formula_pf (cells : List CellRow) (edges : List EdgeRow) (c : Pt) (md2 : Rat)
    (hA : totalArea (selectCells cells c md2) ≠ 0) :
    (sigmaOf cells edges c md2).tr
      = (2 * pressureAreaTerm (selectCells cells c md2)
          + ((selectEdges edges ((selectCells cells c md2).map (·.id))).map
              fun e => e.stress * (e.vx * e.vx + e.vy * e.vy) / e.norm).sum)
        / totalArea (selectCells cells c md2) := by
  have e : ∀ l : List EdgeRow, (l.map fun e => e.stress * (e.vx * e.vx + e.vy * e.vy) / e.norm).sum
      = tensionXX l + tensionYY l := by
    intro l
    unfold tensionXX tensionYY
    induction l with
    | nil => simp
    | cons t l ih => simp only [List.map_cons, List.sum_cons, ih]; ring
  rw [e]
  unfold sigmaOf Mat2.tr
  simp only [if_neg hA]
  ring

theorem trace_formula_norm_pf (cells : List CellRow) (edges : List EdgeRow) (c : Pt) (md2 : Rat)
    (hA : totalArea (selectCells cells c md2) ≠ 0)
    (hn : ∀ e ∈ selectEdges edges ((selectCells cells c md2).map (·.id)), e.norm * e.norm = e.vx * e.vx + e.vy * e.vy) :
    (sigmaOf cells edges c md2).tr
      = (2 * pressureAreaTerm (selectCells cells c md2)
          + ((selectEdges edges ((selectCells cells c md2).map (·.id))).map fun e => e.stress * e.norm).sum)
        / totalArea (selectCells cells c md2) := by
  rw [trace_formula_pf cells edges c md2 hA]
  congr 2
  apply congrArg
  apply List.map_congr_left
  intro e he
  rw [← hn e he]
  by_cases h0 : e.norm = 0
  · simp [h0]
  · field_simp

/-! ### general scaling law, eigen-structure, additivity -/

theorem sigma_scale_law_pf (cells : List CellRow) (edges : List EdgeRow) (c : Pt) (md2 s t : Rat) (hs : s ≠ 0) :
    sigmaOf (cells.map (CellRow.scale s)) (edges.map (EdgeRow.scale s t)) (c.scale s) (s * s * md2)
      = sigmaOf cells (edges.map fun e => e.setT (t / s * e.stress)) c md2 := by
  have h : edges.map (EdgeRow.scale s t)
      = (edges.map fun e => e.setT (t / s * e.stress)).map (EdgeRow.scale s s) := by
    rw [List.map_map]
    apply List.map_congr_left
    intro e _
    simp only [Function.comp, EdgeRow.scale, EdgeRow.setT, EdgeRow.mk.injEq, and_true]
    field_simp
  rw [h]
  exact sigma_scale_pf cells _ c md2 s hs

theorem c18_disc_pf (m : Mat2) (h : m.xy = m.yx) :
    (m.xx - m.yy) * (m.xx - m.yy) + 4 * (m.xy * m.xy) = m.tr * m.tr - 4 * m.det
      ∧ 0 ≤ m.tr * m.tr - 4 * m.det := by
  obtain ⟨xx, xy, yx, yy⟩ := m
  simp only [Mat2.tr, Mat2.det] at *
  subst h
  constructor
  · ring
  · nlinarith [mul_self_nonneg (xx - yy), mul_self_nonneg xy]

theorem conj_tr_det_pf (a b : Rat) (hab : a * a + b * b = 1) (m : Mat2) :
    (Mat2.conj a b m).tr = m.tr ∧ (Mat2.conj a b m).det = m.det := by
  obtain ⟨xx, xy, yx, yy⟩ := m
  simp only [Mat2.tr, Mat2.det, Mat2.conj]
  constructor
  · linear_combination (xx + yy) * hab
  · linear_combination (xx * yy - xy * yx) * (a * a + b * b + 1) * hab

theorem c18_smul_one_pf (m : Mat2) : Mat2.smul 1 m = m := by
  obtain ⟨xx, xy, yx, yy⟩ := m
  simp [Mat2.smul]

theorem sigma_additive_loads_pf (cs : List (CellRow × Rat × Rat)) (es : List (EdgeRow × Rat × Rat))
    (c : Pt) (md2 : Rat) :
    sigmaOf (cs.map fun t => t.1.setP (t.2.1 + t.2.2)) (es.map fun t => t.1.setT (t.2.1 + t.2.2)) c md2
      = Mat2.add (sigmaOf (cs.map fun t => t.1.setP t.2.1) (es.map fun t => t.1.setT t.2.1) c md2)
          (sigmaOf (cs.map fun t => t.1.setP t.2.2) (es.map fun t => t.1.setT t.2.2) c md2) := by
  have h := sigma_bilinear_pf 1 1 cs es c md2
  simp only [one_mul, c18_smul_one_pf] at h
  exact h

/-! ### the whole dictionary -/

theorem c18_getD_map_add (l : List Rat) (d : Rat) (i : Nat) (h : i < l.length) :
    (l.map (· + d)).getD i 0 = l.getD i 0 + d := by
  simp [List.getD_eq_getElem?_getD, h]

theorem gridCenter_translate (xb yb : List Rat) (dx dy : Rat) (row col : Nat)
    (hr : row + 1 < xb.length) (hc : col + 1 < yb.length) :
    gridCenter (xb.map (· + dx)) (yb.map (· + dy)) row col = (gridCenter xb yb row col).translate dx dy := by
  unfold gridCenter Pt.translate
  rw [c18_getD_map_add _ _ _ hr, c18_getD_map_add _ _ _ (by omega), c18_getD_map_add _ _ _ hc, c18_getD_map_add _ _ _ (by omega)]
  congr 1 <;> ring

theorem sigmasDict_translate_pf (cells : List CellRow) (edges : List EdgeRow) (xb yb : List Rat) (md2 dx dy : Rat)
    (grid : Nat) (hx : xb.length = grid + 1) (hy : yb.length = grid + 1) :
    sigmasDict (cells.map (CellRow.translate dx dy)) edges (xb.map (· + dx)) (yb.map (· + dy)) md2 grid
      = sigmasDict cells edges xb yb md2 grid := by
  have h : stressLoop (cells.map (CellRow.translate dx dy)) edges (xb.map (· + dx)) (yb.map (· + dy)) md2 grid
      = stressLoop cells edges xb yb md2 grid := by
    unfold stressLoop
    apply List.flatMap_congr
    intro row hrow
    apply List.map_congr_left
    intro col hcol
    rw [List.mem_range] at hrow hcol
    rw [gridCenter_translate xb yb dx dy row col (by omega) (by omega), sigma_translate_pf]
  unfold sigmasDict
  rw [h]

theorem binEdges_translate_pf (lo hi d : Rat) (grid : Nat) :
    binEdges (lo + d) (hi + d) grid = (binEdges lo hi grid).map (· + d) := by
  unfold binEdges
  rw [List.map_map]
  apply List.map_congr_left
  intro i _
  by_cases h : lo = hi
  · subst h
    simp only [if_true, Function.comp]
    ring
  · have h' : ¬ lo + d = hi + d := fun e => h (add_right_cancel e)
    simp only [if_neg h, if_neg h', Function.comp]
    ring

theorem sigmasDict_perm_pf (cells cells' : List CellRow) (edges edges' : List EdgeRow) (xb yb : List Rat) (md2 : Rat)
    (grid : Nat) (h1 : cells.Perm cells') (h2 : edges.Perm edges') :
    sigmasDict cells edges xb yb md2 grid = sigmasDict cells' edges' xb yb md2 grid := by
  have h : ∀ c, sigmaOf cells edges c md2 = sigmaOf cells' edges' c md2 :=
    fun c => sigma_perm_pf cells cells' edges edges' c md2 h1 h2
  unfold sigmasDict stressLoop
  simp only [h]

end Forsys
