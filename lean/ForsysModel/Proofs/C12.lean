/- helper lemmas for Props/C12.lean -/
import ForsysModel.Model.TimeSeries
import Mathlib.Algebra.Order.Field.Rat
import Mathlib.Tactic.Linarith
namespace Forsys.C12

/-! ### find_best -/

theorem within_mem {v0 : Pt} {ms : Rat} {found : List (Option Id)} {pool : List TVert} {b : TVert}
    (h : b ∈ within v0 ms found pool) : b ∈ pool ∧ some b.id ∉ found := by
  simp [within] at h
  exact ⟨h.1, h.2.1⟩

theorem nearest_mem (v0 : Pt) : ∀ (l : List TVert) (b : TVert), nearest v0 l = some b → b ∈ l := by
  intro l
  induction l with
  | nil => intro b h; simp [nearest] at h
  | cons c cs ih =>
    intro b h
    simp only [nearest] at h
    split at h
    · simp at h; simp [h]
    · rename_i b' hb'
      split at h
      · simp at h; subst h; exact List.mem_cons_of_mem _ (ih _ hb')
      · simp at h; simp [h]

theorem loopObverse_all (P : TVert → Prop) (maxcoord : Rat) (v0 : Pt) (found : List (Option Id)) (pool : List TVert)
    (hP : ∀ ms, ∀ b ∈ within v0 ms found pool, P b) :
    ∀ (sp : List Rat) (c : List TVert) (ms : Rat), (∀ b ∈ c, P b) →
      ∀ b ∈ (loopObverse maxcoord v0 found pool sp c ms).1, P b := by
  intro sp
  induction sp with
  | nil => intro c ms hc; simpa [loopObverse] using hc
  | cons s rest ih =>
    intro c ms hc
    simp only [loopObverse]
    split
    · apply ih
      intro b hb
      rcases List.mem_append.1 hb with hb | hb
      · exact hc b hb
      · exact hP _ b hb
    · exact hc

theorem loopInverse_all (P : TVert → Prop) (v0 : Pt) (found : List (Option Id)) (pool : List TVert) (ms : Rat)
    (hP : ∀ b ∈ within v0 ms found pool.reverse, P b) :
    ∀ (sp : List Rat) (c : List TVert), (∀ b ∈ c, P b) →
      ∀ b ∈ loopInverse v0 found pool ms sp c, P b := by
  intro sp
  induction sp with
  | nil => intro c hc; simpa [loopInverse] using hc
  | cons s rest ih =>
    intro c hc
    simp only [loopInverse]
    split
    · apply ih
      intro b hb
      rcases List.mem_append.1 hb with hb | hb
      · exact hc b hb
      · exact hP b hb
    · exact hc

/-- all candidates considered by `find_best` are untaken pool vertices -/

theorem findBest_cands (s0 cutoff maxcoord : Rat) (v0 : Pt) (pool : List TVert) (found : List (Option Id)) :
    let r := loopObverse maxcoord v0 found pool (spreads s0 cutoff 64) [] 0
    ∀ b ∈ loopInverse v0 found pool r.2.2 r.2.1 [] ++ r.1, b ∈ pool ∧ some b.id ∉ found := by
  intro r b hb
  rcases List.mem_append.1 hb with hb | hb
  · refine loopInverse_all (fun b => b ∈ pool ∧ some b.id ∉ found) v0 found pool _ ?_ _ _ ?_ b hb
    · intro b hb
      have := within_mem hb
      exact ⟨List.mem_reverse.1 this.1, this.2⟩
    · intro b hb; simp at hb
  · refine loopObverse_all (fun b => b ∈ pool ∧ some b.id ∉ found) maxcoord v0 found pool ?_ _ _ _ ?_ b hb
    · intro ms b hb; exact within_mem hb
    · intro b hb; simp at hb

theorem findBest_mem' (s0 cutoff maxcoord : Rat) (v0 : Pt) (pool : List TVert) (found : List (Option Id))
    (b : TVert) (h : findBest s0 cutoff maxcoord v0 pool found = some b) :
    b ∈ pool ∧ (some b.id) ∉ found := by
  have hb := nearest_mem _ _ _ h
  exact findBest_cands s0 cutoff maxcoord v0 pool found b hb

/-! ### association lists -/

theorem alGet?_append {β : Type} (k k' : Id) (v : β) (m : List (Id × β)) :
    alGet? k (m ++ [(k', v)]) = match alGet? k m with
      | some x => some x
      | none => if k = k' then some v else none := by
  induction m with
  | nil => simp [alGet?]
  | cons e m ih =>
    obtain ⟨a, x⟩ := e
    simp only [List.cons_append, alGet?]
    split
    · rfl
    · exact ih

theorem alGet?_mem {β : Type} (k : Id) (v : β) (m : List (Id × β)) (h : alGet? k m = some v) : (k, v) ∈ m := by
  induction m with
  | nil => simp [alGet?] at h
  | cons e m ih =>
    obtain ⟨a, x⟩ := e
    simp only [alGet?] at h
    split at h
    · simp at h; subst h; rename_i hk; subst hk; simp
    · exact List.mem_cons_of_mem _ (ih h)

theorem alGet?_isSome_of_mem {β : Type} (k : Id) (v : β) (m : List (Id × β)) (h : (k, v) ∈ m) :
    (alGet? k m).isSome = true := by
  induction m with
  | nil => simp at h
  | cons e m ih =>
    obtain ⟨a, x⟩ := e
    simp only [alGet?]
    split
    · rfl
    · rename_i hk
      rcases List.mem_cons.1 h with h | h
      · simp at h; exact absurd h.1 hk
      · exact ih h

theorem set_fresh (m : StepMap) (k : Id) (v : Option Id) (h : m.hasKey k = false) :
    m.set k v = m ++ [(k, v)] := by
  simp [StepMap.set, h]

theorem get?_of_hasKey (m : StepMap) (k : Id) (h : m.hasKey k = true) : ∃ v, m.get? k = some v := by
  simp only [StepMap.hasKey] at h
  exact Option.isSome_iff_exists.1 h

theorem assignAll_get?_mono (s0 cutoff maxcoord : Rat) (pool1 : List TVert) :
    ∀ (pool0 : List TVert) (m : StepMap) (k : Id) (v : Option Id), m.get? k = some v →
      (assignAll s0 cutoff maxcoord pool1 pool0 m).get? k = some v := by
  intro pool0
  induction pool0 with
  | nil => intro m k v h; simpa [assignAll] using h
  | cons v0 rest ih =>
    intro m k v h
    simp only [assignAll]
    split
    · exact ih _ _ _ h
    · rename_i hk
      apply ih
      rw [set_fresh _ _ _ (by simpa using hk)]
      simp only [StepMap.get?] at h ⊢
      rw [alGet?_append, h]

theorem assignAll_hasKey_mono (s0 cutoff maxcoord : Rat) (pool1 pool0 : List TVert) (m : StepMap) (k : Id)
    (h : m.hasKey k = true) : (assignAll s0 cutoff maxcoord pool1 pool0 m).hasKey k = true := by
  obtain ⟨v, hv⟩ := get?_of_hasKey m k h
  have := assignAll_get?_mono s0 cutoff maxcoord pool1 pool0 m k v hv
  simp only [StepMap.get?] at this
  simp [StepMap.hasKey, this]

theorem assignAll_total' (s0 cutoff maxcoord : Rat) (pool1 : List TVert) :
    ∀ (pool0 : List TVert) (m : StepMap) (v : TVert), v ∈ pool0 →
      (assignAll s0 cutoff maxcoord pool1 pool0 m).hasKey v.id = true := by
  intro pool0
  induction pool0 with
  | nil => intro m v hv; simp at hv
  | cons v0 rest ih =>
    intro m v hv
    simp only [assignAll]
    rcases List.mem_cons.1 hv with hv | hv
    · subst hv
      split
      · rename_i hk; exact assignAll_hasKey_mono _ _ _ _ _ _ _ hk
      · rename_i hk
        apply assignAll_hasKey_mono
        rw [set_fresh _ _ _ (by simpa using hk)]
        simp only [StepMap.hasKey, alGet?_append]
        split <;> simp
    · split <;> exact ih _ _ hv

theorem assignAll_range' (s0 cutoff maxcoord : Rat) (pool1 : List TVert) :
    ∀ (pool0 : List TVert) (m : StepMap) (k w : Id),
      (assignAll s0 cutoff maxcoord pool1 pool0 m).get? k = some (some w) →
      m.get? k = some (some w) ∨ w ∈ pool1.map (·.id) := by
  intro pool0
  induction pool0 with
  | nil => intro m k w h; left; simpa [assignAll] using h
  | cons v0 rest ih =>
    intro m k w h
    simp only [assignAll] at h
    split at h
    · exact ih _ _ _ h
    · rename_i hk
      rcases ih _ _ _ h with h' | h'
      · rw [set_fresh _ _ _ (by simpa using hk)] at h'
        simp only [StepMap.get?, alGet?_append] at h' ⊢
        split at h'
        · rename_i x hx; left; rw [hx]; exact h'
        · split at h'
          · right
            cases hb : findBest s0 cutoff maxcoord v0.p pool1 (StepMap.values m) with
            | none => simp [hb] at h'
            | some b =>
              simp [hb] at h'
              have := (findBest_mem' _ _ _ _ _ _ _ hb).1
              exact List.mem_map.2 ⟨b, this, h'⟩
          · simp at h'
      · exact Or.inr h'

theorem values_append (m : StepMap) (k : Id) (v : Option Id) :
    (StepMap.values (m ++ [(k, v)])).filterMap id = (StepMap.values m).filterMap id ++ v.toList := by
  cases v <;> simp [StepMap.values, List.filterMap_append]

theorem assignAll_injective' (s0 cutoff maxcoord : Rat) (pool1 : List TVert) :
    ∀ (pool0 : List TVert) (m : StepMap), ((StepMap.values m).filterMap id).Nodup →
      ((StepMap.values (assignAll s0 cutoff maxcoord pool1 pool0 m)).filterMap id).Nodup := by
  intro pool0
  induction pool0 with
  | nil => intro m h; simpa [assignAll] using h
  | cons v0 rest ih =>
    intro m h
    simp only [assignAll]
    split
    · exact ih _ h
    · rename_i hk
      apply ih
      rw [set_fresh _ _ _ (by simpa using hk), values_append]
      cases hb : findBest s0 cutoff maxcoord v0.p pool1 (StepMap.values m) with
      | none => simpa using h
      | some b =>
        have := (findBest_mem' _ _ _ _ _ _ _ hb).2
        simp only [Option.map_some, Option.toList_some]
        rw [List.nodup_append]
        refine ⟨h, by simp, ?_⟩
        intro a ha c hc
        simp at hc
        subst hc
        intro hab
        subst hab
        apply this
        simp at ha
        exact ha

/-! ### small motions -/

theorem nearest_isSome (v0 : Pt) (l : List TVert) (h : l ≠ []) : ∃ b, nearest v0 l = some b := by
  cases l with
  | nil => exact absurd rfl h
  | cons c cs =>
    simp only [nearest]
    split
    · exact ⟨_, rfl⟩
    · split <;> exact ⟨_, rfl⟩

theorem nearest_le (v0 : Pt) : ∀ (l : List TVert) (b : TVert), nearest v0 l = some b →
    ∀ c ∈ l, distSq b.p v0 ≤ distSq c.p v0 := by
  intro l
  induction l with
  | nil => intro b h; simp [nearest] at h
  | cons c cs ih =>
    intro b h x hx
    simp only [nearest] at h
    split at h
    · rename_i hn
      simp at h; subst h
      cases cs with
      | nil => simp at hx; subst hx; exact le_refl _
      | cons d ds =>
        obtain ⟨b', hb'⟩ := nearest_isSome v0 (d :: ds) (by simp)
        rw [hb'] at hn; simp at hn
    · rename_i b' hb'
      have ih' := ih b' hb'
      split at h
      · rename_i hlt
        simp at h; subst h
        rcases List.mem_cons.1 hx with hx | hx
        · subst hx; exact le_of_lt hlt
        · exact ih' x hx
      · rename_i hlt
        simp at h; subst h
        rcases List.mem_cons.1 hx with hx | hx
        · subst hx; exact le_refl _
        · exact le_trans (not_lt.1 hlt) (ih' x hx)

theorem mem_within {v0 : Pt} {ms : Rat} {found : List (Option Id)} {pool : List TVert} {b : TVert} :
    b ∈ within v0 ms found pool ↔ b ∈ pool ∧ some b.id ∉ found ∧ distSq b.p v0 < ms * ms := by
  simp [within]

theorem eq_of_id_eq : ∀ (pool : List TVert), (pool.map (·.id)).Nodup → ∀ u ∈ pool, ∀ w ∈ pool, u.id = w.id → u = w := by
  intro pool
  induction pool with
  | nil => intro _ u hu; simp at hu
  | cons a l ih =>
    intro hnd u hu w hw h
    simp only [List.map_cons, List.nodup_cons, List.mem_map, not_exists, not_and] at hnd
    rcases List.mem_cons.1 hu with hu' | hu' <;> rcases List.mem_cons.1 hw with hw' | hw'
    · rw [hu', hw']
    · subst hu'; exact absurd h.symm (hnd.1 w hw')
    · subst hw'; exact absurd h (hnd.1 u hu')
    · exact ih hnd.2 u hu' w hw' h

theorem loopObverse_contains (maxcoord : Rat) (v0 : Pt) (found : List (Option Id)) (pool : List TVert) (w : TVert)
    (hW : ∀ s, within v0 (s * maxcoord) found pool ≠ [] → w ∈ within v0 (s * maxcoord) found pool) :
    ∀ (sp : List Rat) (c : List TVert) (ms : Rat), (c ≠ [] → w ∈ c) →
      (w ∈ c ∨ ∃ s ∈ sp, w ∈ within v0 (s * maxcoord) found pool) →
      w ∈ (loopObverse maxcoord v0 found pool sp c ms).1 := by
  intro sp
  induction sp with
  | nil => intro c ms _ h; simpa [loopObverse] using h
  | cons s rest ih =>
    intro c ms hc h
    simp only [loopObverse]
    split
    · apply ih
      · intro hne
        by_cases hcn : c = []
        · subst hcn
          simp only [List.nil_append] at hne ⊢
          exact hW s hne
        · exact List.mem_append_left _ (hc hcn)
      · rcases h with h | ⟨s', hs', hw⟩
        · exact Or.inl (List.mem_append_left _ h)
        · rcases List.mem_cons.1 hs' with hs' | hs'
          · subst hs'; exact Or.inl (List.mem_append_right _ hw)
          · exact Or.inr ⟨s', hs', hw⟩
    · rename_i hlen
      apply hc
      intro hcn; subst hcn; simp at hlen

theorem findBest_small (s0 cutoff maxcoord : Rat) (v0 : Pt) (pool : List TVert) (found : List (Option Id))
    (w : TVert) (hnd : (pool.map (·.id)).Nodup) (hw : w ∈ pool) (hfree : some w.id ∉ found)
    (hnear : ∀ u ∈ pool, u.id ≠ w.id → distSq w.p v0 < distSq u.p v0)
    (hrad : ∃ s ∈ spreads s0 cutoff 64, distSq w.p v0 < (s * maxcoord) * (s * maxcoord)) :
    ∃ b, findBest s0 cutoff maxcoord v0 pool found = some b ∧ b.id = w.id := by
  have hW : ∀ s, within v0 (s * maxcoord) found pool ≠ [] → w ∈ within v0 (s * maxcoord) found pool := by
    intro s hne
    obtain ⟨u, hu⟩ := List.exists_mem_of_ne_nil _ hne
    rw [mem_within] at hu ⊢
    refine ⟨hw, hfree, ?_⟩
    by_cases hid : u.id = w.id
    · have := eq_of_id_eq pool hnd u hu.1 w hw hid
      subst this; exact hu.2.2
    · exact lt_trans (hnear u hu.1 hid) hu.2.2
  have hobv : w ∈ (loopObverse maxcoord v0 found pool (spreads s0 cutoff 64) [] 0).1 := by
    apply loopObverse_contains maxcoord v0 found pool w hW
    · intro h; exact absurd rfl h
    · right
      obtain ⟨s, hs, hlt⟩ := hrad
      exact ⟨s, hs, mem_within.2 ⟨hw, hfree, hlt⟩⟩
  have hc := findBest_cands s0 cutoff maxcoord v0 pool found
  simp only [findBest]
  simp only at hc
  generalize hl : loopInverse v0 found pool _ _ [] ++ (loopObverse maxcoord v0 found pool (spreads s0 cutoff 64) [] 0).1 = l at hc
  have hwl : w ∈ l := by rw [← hl]; exact List.mem_append_right _ hobv
  obtain ⟨b, hb⟩ := nearest_isSome v0 l (List.ne_nil_of_mem hwl)
  refine ⟨b, hb, ?_⟩
  by_contra hid
  have h1 := nearest_le v0 l b hb w hwl
  have h2 := hnear b (hc b (nearest_mem v0 l b hb)).1 hid
  exact absurd h2 (not_lt.2 h1)

theorem assignAll_small_inv (s0 cutoff maxcoord : Rat) (pool1 pool0 : List TVert) (succ : Id → Id)
    (hnd1 : (pool1.map (·.id)).Nodup)
    (hinj : ∀ a ∈ pool0, ∀ b ∈ pool0, succ a.id = succ b.id → a.id = b.id)
    (hsucc : ∀ a ∈ pool0, ∃ w ∈ pool1, w.id = succ a.id ∧
        (∀ u ∈ pool1, u.id ≠ w.id → distSq w.p a.p < distSq u.p a.p) ∧
        (∃ s ∈ spreads s0 cutoff 64, distSq w.p a.p < (s * maxcoord) * (s * maxcoord))) :
    ∀ (rest : List TVert) (m : StepMap), (∀ a ∈ rest, a ∈ pool0) →
      (∀ e ∈ m, ∃ a ∈ pool0, e = (a.id, some (succ a.id))) →
      ∀ e ∈ assignAll s0 cutoff maxcoord pool1 rest m, ∃ a ∈ pool0, e = (a.id, some (succ a.id)) := by
  intro rest
  induction rest with
  | nil => intro m _ hm; simpa [assignAll] using hm
  | cons v0 rest ih =>
    intro m hsub hm
    have hv0 : v0 ∈ pool0 := hsub v0 (by simp)
    have hsub' : ∀ a ∈ rest, a ∈ pool0 := fun a ha => hsub a (List.mem_cons_of_mem _ ha)
    simp only [assignAll]
    split
    · exact ih m hsub' hm
    · rename_i hk
      have hk' : m.hasKey v0.id = false := by simpa using hk
      apply ih _ hsub'
      obtain ⟨w, hw, hwid, hnear, hrad⟩ := hsucc v0 hv0
      have hfree : some w.id ∉ m.values := by
        intro hin
        simp only [StepMap.values, List.mem_map] at hin
        obtain ⟨e, he, he2⟩ := hin
        obtain ⟨a, ha, rfl⟩ := hm e he
        simp only [Option.some.injEq] at he2
        have := hinj a ha v0 hv0 (by rw [he2, hwid])
        have hkk := alGet?_isSome_of_mem _ _ _ he
        rw [this] at hkk
        simp [StepMap.hasKey, hkk] at hk'
      obtain ⟨b, hb, hbid⟩ := findBest_small s0 cutoff maxcoord v0.p pool1 m.values w hnd1 hw hfree hnear hrad
      rw [set_fresh _ _ _ hk', hb]
      intro e he
      rcases List.mem_append.1 he with he | he
      · exact hm e he
      · simp only [List.mem_singleton] at he
        exact ⟨v0, hv0, by rw [he]; simp [hbid, hwid]⟩

theorem assignAll_small_motion' (s0 cutoff maxcoord : Rat) (pool1 pool0 : List TVert) (succ : Id → Id)
    (hnd1 : (pool1.map (·.id)).Nodup)
    (hinj : ∀ a ∈ pool0, ∀ b ∈ pool0, succ a.id = succ b.id → a.id = b.id)
    (hsucc : ∀ a ∈ pool0, ∃ w ∈ pool1, w.id = succ a.id ∧
        (∀ u ∈ pool1, u.id ≠ w.id → distSq w.p a.p < distSq u.p a.p) ∧
        (∃ s ∈ spreads s0 cutoff 64, distSq w.p a.p < (s * maxcoord) * (s * maxcoord))) :
    ∀ a ∈ pool0, (assignAll s0 cutoff maxcoord pool1 pool0 []).get? a.id = some (some (succ a.id)) := by
  intro a ha
  have hk := assignAll_total' s0 cutoff maxcoord pool1 pool0 [] a ha
  obtain ⟨v, hv⟩ := get?_of_hasKey _ _ hk
  rw [hv]
  have hmem := alGet?_mem _ _ _ hv
  obtain ⟨a', ha', he⟩ := assignAll_small_inv s0 cutoff maxcoord pool1 pool0 succ hnd1 hinj hsucc pool0 []
    (fun a h => h) (by simp) _ hmem
  simp only [Prod.mk.injEq] at he
  rw [he.2, he.1]

/-! ### inverting a step map -/

theorem lookupOpt_append (k k' : Option Id) (v : Id) (l : List (Option Id × Id)) :
    lookupOpt k (l ++ [(k', v)]) = match lookupOpt k l with
      | some x => some x
      | none => if k = k' then some v else none := by
  induction l with
  | nil => simp [lookupOpt]
  | cons e l ih =>
    obtain ⟨a, x⟩ := e
    simp only [List.cons_append, lookupOpt]
    split
    · rfl
    · exact ih

theorem lookupOpt_filter_ne (k k' : Option Id) (l : List (Option Id × Id)) (h : k ≠ k') :
    lookupOpt k (l.filter fun q => q.1 != k') = lookupOpt k l := by
  induction l with
  | nil => rfl
  | cons e l ih =>
    obtain ⟨a, x⟩ := e
    by_cases ha : a = k'
    · subst ha
      simp [lookupOpt, h, ih]
    · simp [lookupOpt, ha, ih]

theorem lookupOpt_filter_eq (k : Option Id) (l : List (Option Id × Id)) :
    lookupOpt k (l.filter fun q => q.1 != k) = none := by
  induction l with
  | nil => rfl
  | cons e l ih =>
    obtain ⟨a, x⟩ := e
    by_cases ha : a = k
    · subst ha
      simp [ih]
    · have : ¬ k = a := fun h => ha h.symm
      simp [lookupOpt, ha, this, ih]

theorem lookupOpt_step (k : Option Id) (acc : List (Option Id × Id)) (e : Id × Option Id) :
    lookupOpt k ((acc.filter fun q => q.1 != e.2) ++ [(e.2, e.1)]) =
      if k = e.2 then some e.1 else lookupOpt k acc := by
  rw [lookupOpt_append]
  by_cases h : k = e.2
  · subst h; simp [lookupOpt_filter_eq]
  · rw [lookupOpt_filter_ne _ _ _ h]
    simp only [h, if_false]
    cases lookupOpt k acc <;> rfl

theorem lookupOpt_foldl (k : Option Id) (p : Id) :
    ∀ (m : StepMap) (acc : List (Option Id × Id)),
      (∀ e ∈ m, e.2 = k → e.1 = p) → (lookupOpt k acc = some p ∨ ∃ e ∈ m, e.2 = k) →
      lookupOpt k (m.foldl (fun acc p => (acc.filter fun q => q.1 != p.2) ++ [(p.2, p.1)]) acc) = some p := by
  intro m
  induction m with
  | nil => intro acc _ h; simpa using h
  | cons e m ih =>
    intro acc hu h
    simp only [List.foldl_cons]
    apply ih
    · intro e' he'; exact hu e' (List.mem_cons_of_mem _ he')
    · rw [lookupOpt_step]
      by_cases hk : k = e.2
      · left; simp [hk]; exact hu e (by simp) hk.symm
      · simp only [hk, if_false]
        rcases h with h | ⟨e', he', hk'⟩
        · exact Or.inl h
        · rcases List.mem_cons.1 he' with he' | he'
          · subst he'; exact absurd hk'.symm hk
          · exact Or.inr ⟨e', he', hk'⟩

theorem someValues_unique : ∀ (m : StepMap), ((StepMap.values m).filterMap id).Nodup →
    ∀ (p p' q : Id), (p, some q) ∈ m → (p', some q) ∈ m → p = p' := by
  intro m
  induction m with
  | nil => intro _ p p' q h; simp at h
  | cons e m ih =>
    intro hnd p p' q h h'
    obtain ⟨a, v⟩ := e
    have hmem : ∀ x, (x, some q) ∈ m → q ∈ (StepMap.values m).filterMap id := by
      intro x hx
      simp only [StepMap.values, List.mem_filterMap, List.mem_map, id]
      exact ⟨some q, ⟨(x, some q), hx, rfl⟩, rfl⟩
    cases v with
    | none =>
      simp at h h'
      apply ih _ p p' q h h'
      simpa [StepMap.values] using hnd
    | some w =>
      simp [StepMap.values] at hnd
      have hnd' : ((StepMap.values m).filterMap id).Nodup := by simpa [StepMap.values] using hnd.2
      rcases List.mem_cons.1 h with h | h <;> rcases List.mem_cons.1 h' with h' | h'
      · simp at h h'; rw [h.1, h'.1]
      · simp at h
        exfalso
        have := hmem _ h'
        simp [StepMap.values] at this
        obtain ⟨x, hx⟩ := this
        exact hnd.1 x (by rw [← h.2]; exact hx)
      · simp at h'
        exfalso
        have := hmem _ h
        simp [StepMap.values] at this
        obtain ⟨x, hx⟩ := this
        exact hnd.1 x (by rw [← h'.2]; exact hx)
      · exact ih hnd' p p' q h h'

theorem invertMap_lookup (m : StepMap) (hinj : ((StepMap.values m).filterMap id).Nodup) (p q : Id)
    (hpq : m.get? p = some (some q)) : lookupOpt (some q) (invertMap m) = some p := by
  have hmem := alGet?_mem _ _ _ hpq
  unfold invertMap
  apply lookupOpt_foldl
  · intro e he hk
    obtain ⟨a, v⟩ := e
    simp at hk
    subst hk
    exact someValues_unique m hinj _ _ _ he hmem
  · exact Or.inr ⟨_, hmem, rfl⟩

/-! ### walks -/

theorem walkForward_none (maps : List (Option StepMap)) : ∀ (n t : Nat), walkForward maps t n none = .ok none := by
  intro n
  cases n <;> intro t <;> simp [walkForward]

theorem walkForward_succ (maps : List (Option StepMap)) (t n : Nat) (m : StepMap) (p : Id)
    (hm : maps.getD t none = some m) :
    walkForward maps t (n + 1) (some p) = match m.get? p with
      | none => .error .keyError
      | some v => walkForward maps (t + 1) n v := by
  conv_lhs => unfold walkForward
  simp only [hm]
  cases m.get? p <;> rfl

theorem walkForward_one (maps : List (Option StepMap)) (t : Nat) (m : StepMap) (p : Id) (v : Option Id)
    (hm : maps.getD t none = some m) (hpq : m.get? p = some v) :
    walkForward maps t 1 (some p) = .ok v := by
  have hm' : maps[t]?.getD none = some m := by simpa using hm
  simp [walkForward, hm', hpq]

theorem walkBackward_one (maps : List (Option StepMap)) (t : Nat) (m : StepMap) (p q : Id)
    (hm : maps.getD t none = some m) (hinj : ((StepMap.values m).filterMap id).Nodup)
    (hpq : m.get? p = some (some q)) :
    walkBackward maps (t + 1) 1 (some q) = .ok (some p) := by
  have := invertMap_lookup m hinj p q hpq
  have hm' : maps[t]?.getD none = some m := by simpa using hm
  simp [walkBackward, hm', this]

theorem roundtrip_one_step' (m : StepMap) (maps : List (Option StepMap)) (t : Nat) (p q : Id)
    (hm : maps.getD t none = some m) (hinj : ((StepMap.values m).filterMap id).Nodup)
    (hpq : m.get? p = some (some q)) :
    getPointIdByMap maps p t (t + 1) = .ok (some q) ∧ getPointIdByMap maps q (t + 1) t = .ok (some p) := by
  constructor
  · have h1 : t + 1 - t = 1 := by omega
    simp only [getPointIdByMap, Nat.lt_succ_self, if_true, h1]
    exact walkForward_one maps t m p _ hm hpq
  · have h1 : t + 1 - t = 1 := by omega
    have h2 : ¬ (t + 1 < t) := by omega
    simp only [getPointIdByMap, h2, if_false, h1]
    exact walkBackward_one maps t m p q hm hinj hpq

theorem walkBackward_snoc (maps : List (Option StepMap)) :
    ∀ (n T : Nat) (q p1 : Id), walkBackward maps T n (some q) = .ok (some p1) →
      walkBackward maps T (n + 1) (some q) = walkBackward maps (T - n) 1 (some p1) := by
  intro n
  induction n with
  | zero => intro T q p1 h; simp [walkBackward] at h; subst h; rfl
  | succ n ih =>
    intro T q p1 h
    rw [walkBackward] at h ⊢
    cases hm : maps.getD (T - 1) none with
    | none => rw [hm] at h; simp at h
    | some m =>
      simp only [hm] at h ⊢
      cases hl : lookupOpt (some q) (invertMap m) with
      | none => rw [hl] at h; simp at h
      | some k =>
        simp only [hl] at h ⊢
        rw [ih _ _ _ h]
        congr 1
        omega

theorem roundtrip' (maps : List (Option StepMap)) : ∀ (n t : Nat) (p q : Id),
    (∀ i, t ≤ i → i < t + n → ∃ m, maps.getD i none = some m ∧ ((StepMap.values m).filterMap id).Nodup) →
    walkForward maps t n (some p) = .ok (some q) →
    walkBackward maps (t + n) n (some q) = .ok (some p) := by
  intro n
  induction n with
  | zero => intro t p q _ h; simp [walkForward] at h; subst h; simp [walkBackward]
  | succ n ih =>
    intro t p q hall hf
    obtain ⟨m, hm, hinj⟩ := hall t (Nat.le_refl _) (by omega)
    rw [walkForward_succ maps t n m p hm] at hf
    cases hg : m.get? p with
    | none => simp [hg] at hf
    | some v =>
      simp only [hg] at hf
      cases v with
      | none => rw [walkForward_none] at hf; simp at hf
      | some p1 =>
        have hb := ih (t + 1) p1 q (fun i h1 h2 => hall i (by omega) (by omega)) hf
        have e : t + (n + 1) = t + 1 + n := by omega
        rw [e, walkBackward_snoc maps n _ q p1 hb]
        have e2 : t + 1 + n - n = t + 1 := by omega
        rw [e2]
        exact walkBackward_one maps t m p p1 hm hinj hg

end Forsys.C12
