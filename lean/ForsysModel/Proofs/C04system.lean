/- vocabulary and helper lemmas for Props/C04system.lean (the assembled pressure system) -/
import ForsysModel.Model.PressureSystem
import ForsysModel.Props.C04
import ForsysModel.Props.C08
import ForsysModel.Props.C07order
import ForsysModel.Props.C20
namespace Forsys

/-! ### vocabulary -/

namespace Mesh

/-- the keys of the cell dictionary in storage order: `list(frame.cells)`, the inverse of `mapping_order` -/
def cellKeys (m : Mesh) : List Id := m.cells.map (·.1)

/-- number of equations = number of internal interfaces -/
def nEq (m : Mesh) : Nat := (m.internalIdx m.bigEdgesList).length

/-- position in `big_edges_list` of the interface of equation `k` -/
def eqIdx (m : Mesh) (k : Nat) : Nat := (m.internalIdx m.bigEdgesList).getD k 0

/-- the interface (vertex ids, stored direction) of equation `k` -/
def eqInterface (m : Mesh) (k : Nat) : List Id := m.bigEdgesList.getD (m.eqIdx k) []

/-- `own_cells` of the interface of equation `k` -/
def eqOwnCells (m : Mesh) (k : Nat) : List Id := m.bigEdgeOwnCells (m.eqInterface k)

/-- `own_cells[0]`, `own_cells[1]` of equation `k` (the id `0` stands in for a missing entry) -/
def eqCellA (m : Mesh) (k : Nat) : Id := (m.eqOwnCells k).getD 0 0
def eqCellB (m : Mesh) (k : Nat) : Id := (m.eqOwnCells k).getD 1 0

/-- the coefficient `get_row` writes at the column of `own_cells[0]`: `+1` when its stored cycle has positive area sign,
    `−1` otherwise (also for a cycle of zero area: the code tests `get_area_sign() > 0`) -/
def eqSign (m : Mesh) (k : Nat) : Rat := if 0 < areaSign (m.cellCycle (m.eqCellA k)) then 1 else -1

/-- the hypotheses under which equation `k` is a genuine Young–Laplace equation: the interface has exactly two own cells
    (`get_row` does not raise), both are keys of the cell dictionary and they differ -/
def EqOk (m : Mesh) (k : Nat) : Prop :=
  (m.eqOwnCells k).length = 2 ∧ m.eqCellA k ∈ m.cellKeys ∧ m.eqCellB k ∈ m.cellKeys ∧ m.eqCellA k ≠ m.eqCellB k

/-- two columns are linked when some equation has its two entries there -/
def Linked (m : Mesh) (x y : Nat) : Prop :=
  ∃ k, k < m.nEq ∧ ((m.cellPos (m.eqCellA k) = x ∧ m.cellPos (m.eqCellB k) = y) ∨
                    (m.cellPos (m.eqCellA k) = y ∧ m.cellPos (m.eqCellB k) = x))

end Mesh

namespace C04s

/-! ### `indexOf?` and `cellPos` -/

theorem indexOf?_eq_none {α : Type} [DecidableEq α] (a : α) (l : List α) : indexOf? a l = none ↔ a ∉ l := by
  induction l with
  | nil => simp [indexOf?]
  | cons b l ih =>
    unfold indexOf?
    by_cases e : a = b
    · simp [e]
    · simp [e, ih]

theorem indexOf?_some_spec {α : Type} [DecidableEq α] (a : α) (l : List α) (i : Nat) (h : indexOf? a l = some i) :
    i < l.length ∧ l[i]? = some a := by
  have := indexOf?_some_getElem? a l i h
  refine ⟨?_, this⟩
  by_contra hc
  rw [List.getElem?_eq_none (by omega)] at this
  exact absurd this (by simp)

theorem indexOf?_mem {α : Type} [DecidableEq α] (a : α) (l : List α) (h : a ∈ l) : ∃ i, indexOf? a l = some i := by
  cases hh : indexOf? a l with
  | none => exact absurd h ((indexOf?_eq_none a l).1 hh)
  | some i => exact ⟨i, rfl⟩

theorem cellPos_of_mem (m : Mesh) (c : Id) (h : c ∈ m.cellKeys) :
    m.cellPos c < m.cells.length ∧ m.cellKeys[m.cellPos c]? = some c := by
  obtain ⟨i, hi⟩ := indexOf?_mem c m.cellKeys h
  have hs := indexOf?_some_spec c m.cellKeys i hi
  have hpos : m.cellPos c = i := by
    unfold Mesh.cellPos
    change (indexOf? c m.cellKeys).getD _ = i
    rw [hi]; rfl
  rw [hpos]
  refine ⟨?_, hs.2⟩
  have := hs.1
  simpa [Mesh.cellKeys] using this

theorem cellPos_of_not_mem (m : Mesh) (c : Id) (h : c ∉ m.cellKeys) : m.cellPos c = m.cells.length := by
  unfold Mesh.cellPos
  change (indexOf? c m.cellKeys).getD _ = _
  rw [(indexOf?_eq_none c m.cellKeys).2 h]
  simp

theorem cellPos_lt_iff (m : Mesh) (c : Id) : m.cellPos c < m.cells.length ↔ c ∈ m.cellKeys := by
  constructor
  · intro h
    by_contra hc
    rw [cellPos_of_not_mem m c hc] at h
    omega
  · exact fun h => (cellPos_of_mem m c h).1

theorem cellPos_inj (m : Mesh) (a b : Id) (ha : a ∈ m.cellKeys) (h : m.cellPos a = m.cellPos b) : a = b := by
  have h1 := cellPos_of_mem m a ha
  have hb : b ∈ m.cellKeys := by
    rw [← cellPos_lt_iff, ← h]; exact h1.1
  have h2 := cellPos_of_mem m b hb
  rw [h] at h1
  have := h1.2.symm.trans h2.2
  simpa using this

/-- with unique keys the position of the key stored at `j` is `j` -/
theorem cellPos_eq_iff (m : Mesh) (hn : m.cellKeys.Nodup) (c : Id) (j : Nat) (hj : j < m.cells.length) :
    m.cellPos c = j ↔ m.cellKeys[j]? = some c := by
  constructor
  · intro h
    have hc : c ∈ m.cellKeys := by rw [← cellPos_lt_iff, h]; exact hj
    rw [← h]; exact (cellPos_of_mem m c hc).2
  · intro h
    have hj' : j < m.cellKeys.length := by simpa [Mesh.cellKeys] using hj
    have hc : m.cellKeys[j] = c := by
      rw [List.getElem?_eq_getElem hj'] at h
      simpa using h
    have := indexOf?_getElem m.cellKeys hn j hj'
    unfold Mesh.cellPos
    change (indexOf? c m.cellKeys).getD _ = j
    rw [← hc, this]; rfl

/-! ### one row, all cases -/

/-- the row applied to a pressure vector, whatever the two positions are: a position outside `0 … n−1` marks no column
    (`p.getD` is `0` there), equal positions leave the single entry of the first cell -/
theorem pressureRow_dot_general (n x y : Nat) (s : Int) (p : List Rat) (hp : p.length = n) :
    dot (pressureRow n x y s) p
      = (if 0 < s then 1 else -1) * (p.getD x 0 - (if y = x then 0 else p.getD y 0)) := by
  unfold pressureRow
  rw [dot_map_range _ p n hp]
  have hout : ∀ z, ¬ z < n → p.getD z 0 = 0 := by
    intro z hz
    rw [List.getD_eq_getElem?_getD, List.getElem?_eq_none (by omega)]; rfl
  have key : ∀ c : Rat, ((List.range n).map (fun i => (if i = x then c else if i = y then -c else 0) * p.getD i 0)).sum
      = c * (p.getD x 0 - (if y = x then 0 else p.getD y 0)) := by
    intro c
    have : (fun i => (if i = x then c else if i = y then -c else 0) * p.getD i 0)
        = fun i => (if i = x then c * p.getD i 0 else 0) + (if i = y then (if y = x then 0 else -c * p.getD i 0) else 0) := by
      funext i
      by_cases h1 : i = x
      · by_cases h2 : i = y
        · have h3 : y = x := by omega
          subst h1; subst h3; simp
        · have h3 : ¬ y = x := by omega
          subst h1; simp [h2]
      · by_cases h2 : i = y
        · have h3 : ¬ y = x := by omega
          subst h2; simp [h1]
        · simp [h1, h2]
    rw [this, List.sum_map_add, sum_map_range_ite (fun i => c * p.getD i 0),
      sum_map_range_ite (fun i => if y = x then 0 else -c * p.getD i 0)]
    have ex : (if x < n then c * p.getD x 0 else 0) = c * p.getD x 0 := by
      by_cases hx : x < n
      · rw [if_pos hx]
      · rw [if_neg hx, hout x hx]; ring
    have ey : (if y < n then (if y = x then 0 else -c * p.getD y 0) else 0)
        = (if y = x then 0 else -c * p.getD y 0) := by
      by_cases hy : y < n
      · rw [if_pos hy]
      · rw [if_neg hy, hout y hy]; split <;> ring
    rw [ex, ey]
    split <;> ring
  by_cases h : 0 < s
  · simp only [h, if_true]; exact key 1
  · simp only [h, if_false]
    have := key (-1)
    simpa using this

/-- entry `j` of a row vanishes exactly when `j` is neither of the two marked positions -/
theorem pressureRow_getD_eq_zero (n x y : Nat) (s : Int) (j : Nat) (hj : j < n) :
    (pressureRow n x y s).getD j 0 = 0 ↔ (j ≠ x ∧ j ≠ y) := by
  unfold pressureRow
  rw [List.getD_eq_getElem?_getD, List.getElem?_map, List.getElem?_range hj]
  simp only [Option.map_some, Option.getD_some]
  by_cases h : 0 < s <;> by_cases hx : j = x <;> by_cases hy : j = y <;> simp [h, hx, hy] <;> split <;> simp

theorem mem_removedColumns (L : Mat) (n j : Nat) :
    j ∈ removedColumns L n ↔ j < n ∧ ∀ r ∈ L, r.getD j 0 = 0 := by
  unfold removedColumns
  simp [List.mem_filter]

theorem removedColumns_nodup (L : Mat) (n : Nat) : (removedColumns L n).Nodup := by
  unfold removedColumns
  exact List.Nodup.filter _ List.nodup_range

/-! ### the assembled system, field by field -/

section fields
variable (m : Mesh) (tens curv : List Rat)

theorem internal_eq : (m.pressureSystem tens curv).internal = m.internalIdx m.bigEdgesList := rfl

theorem lhs_eq : (m.pressureSystem tens curv).lhs
    = (m.internalIdx m.bigEdgesList).map fun i => m.interfaceRow (m.bigEdgesList.getD i []) := by
  simp [Mesh.pressureSystem, List.map_map, Function.comp_def]

theorem rhs_eq : (m.pressureSystem tens curv).rhs
    = (m.internalIdx m.bigEdgesList).map fun i => pressureRhs (tens.getD i 0) (curv.getD i 0) := by
  simp [Mesh.pressureSystem, List.map_map, Function.comp_def]

theorem ownCellCounts_eq : (m.pressureSystem tens curv).ownCellCounts
    = (m.internalIdx m.bigEdgesList).map fun i => (m.bigEdgeOwnCells (m.bigEdgesList.getD i [])).length := by
  simp [Mesh.pressureSystem, List.map_map, Function.comp_def]

theorem removed_eq : (m.pressureSystem tens curv).removed
    = removedColumns (m.pressureSystem tens curv).lhs m.cells.length := by
  simp [Mesh.pressureSystem]

theorem interfaceRow_length (e : List Id) : (m.interfaceRow e).length = m.cells.length := by
  simp [Mesh.interfaceRow, pressureRow_length]

theorem lhs_getD (k : Nat) (hk : k < m.nEq) :
    (m.pressureSystem tens curv).lhs.getD k [] = m.interfaceRow (m.eqInterface k) := by
  rw [lhs_eq]
  unfold Mesh.nEq at hk
  simp [List.getD_eq_getElem?_getD, List.getElem?_map, List.getElem?_eq_getElem hk, Mesh.eqInterface, Mesh.eqIdx]

theorem rhs_getD (k : Nat) (hk : k < m.nEq) :
    (m.pressureSystem tens curv).rhs.getD k 0 = tens.getD (m.eqIdx k) 0 * curv.getD (m.eqIdx k) 0 := by
  rw [rhs_eq]
  unfold Mesh.nEq at hk
  simp [List.getD_eq_getElem?_getD, List.getElem?_map, List.getElem?_eq_getElem hk, Mesh.eqIdx, pressureRhs]

theorem ownCellCounts_getD (k : Nat) (hk : k < m.nEq) :
    (m.pressureSystem tens curv).ownCellCounts.getD k 0 = (m.eqOwnCells k).length := by
  rw [ownCellCounts_eq]
  unfold Mesh.nEq at hk
  simp [List.getD_eq_getElem?_getD, List.getElem?_map, List.getElem?_eq_getElem hk, Mesh.eqIdx, Mesh.eqOwnCells,
    Mesh.eqInterface]

/-- every row of the assembled matrix is the row of some equation `k` -/
theorem mem_lhs (r : List Rat) :
    r ∈ (m.pressureSystem tens curv).lhs ↔ ∃ k, k < m.nEq ∧ r = m.interfaceRow (m.eqInterface k) := by
  constructor
  · intro h
    obtain ⟨k, hk, rfl⟩ := List.getElem_of_mem h
    have hk' : k < m.nEq := by
      have : (m.pressureSystem tens curv).lhs.length = m.nEq := by rw [lhs_eq]; simp [Mesh.nEq]
      omega
    refine ⟨k, hk', ?_⟩
    rw [← lhs_getD m tens curv k hk', List.getD_eq_getElem?_getD, List.getElem?_eq_getElem hk]; rfl
  · rintro ⟨k, hk, rfl⟩
    have hlen : k < (m.pressureSystem tens curv).lhs.length := by rw [lhs_eq]; simpa [Mesh.nEq] using hk
    rw [← lhs_getD m tens curv k hk, List.getD_eq_getElem?_getD, List.getElem?_eq_getElem hlen]
    exact List.getElem_mem hlen

theorem interfaceRow_eq (k : Nat) :
    m.interfaceRow (m.eqInterface k)
      = pressureRow m.cells.length (m.cellPos (m.eqCellA k)) (m.cellPos (m.eqCellB k))
          (areaSign (m.cellCycle (m.eqCellA k))) := by
  simp [Mesh.interfaceRow, Mesh.eqCellA, Mesh.eqCellB, Mesh.eqOwnCells]

end fields

/-! ### one equation applied to a pressure vector -/

section equation
variable (m : Mesh)

theorem row_dot_general (k : Nat) (p : List Rat) (hp : p.length = m.cells.length) :
    dot (m.interfaceRow (m.eqInterface k)) p
      = m.eqSign k * (p.getD (m.cellPos (m.eqCellA k)) 0
          - (if m.cellPos (m.eqCellB k) = m.cellPos (m.eqCellA k) then 0 else p.getD (m.cellPos (m.eqCellB k)) 0)) := by
  rw [interfaceRow_eq, pressureRow_dot_general _ _ _ _ p hp]
  rfl

theorem eqOk_pos (k : Nat) (hok : m.EqOk k) :
    m.cellPos (m.eqCellA k) < m.cells.length ∧ m.cellPos (m.eqCellB k) < m.cells.length ∧
    m.cellPos (m.eqCellA k) ≠ m.cellPos (m.eqCellB k) := by
  obtain ⟨_, ha, hb, hab⟩ := hok
  exact ⟨(cellPos_of_mem m _ ha).1, (cellPos_of_mem m _ hb).1, fun h => hab (cellPos_inj m _ _ ha h)⟩

theorem row_dot (k : Nat) (hok : m.EqOk k) (p : List Rat) (hp : p.length = m.cells.length) :
    dot (m.interfaceRow (m.eqInterface k)) p
      = m.eqSign k * (p.getD (m.cellPos (m.eqCellA k)) 0 - p.getD (m.cellPos (m.eqCellB k)) 0) := by
  rw [row_dot_general m k p hp, if_neg (fun h => (eqOk_pos m k hok).2.2 h.symm)]

theorem eqSign_ne_zero (k : Nat) : m.eqSign k ≠ 0 := by
  unfold Mesh.eqSign; split <;> norm_num

theorem ratSign_cast (q : Rat) (hq : q ≠ 0) :
    (if 0 < ratSign q then (1 : Rat) else -1) = ((ratSign q : Int) : Rat) ∧ (ratSign q = 1 ∨ ratSign q = -1) := by
  unfold ratSign
  by_cases h : 0 < q
  · simp [h]
  · have h2 : q < 0 := lt_of_le_of_ne (not_lt.mp h) hq
    simp [h, h2]

/-- a row whose equation is in force links the pressures of its two cells -/
theorem linked_eq (p : List Rat) (hp : p.length = m.cells.length)
    (hok : ∀ k, k < m.nEq → m.EqOk k)
    (hker : ∀ k, k < m.nEq → dot (m.interfaceRow (m.eqInterface k)) p = 0) (x y : Nat) (h : m.Linked x y) :
    p.getD x 0 = p.getD y 0 := by
  obtain ⟨k, hk, hxy⟩ := h
  have h0 := hker k hk
  rw [row_dot m k (hok k hk) p hp] at h0
  have h1 : p.getD (m.cellPos (m.eqCellA k)) 0 = p.getD (m.cellPos (m.eqCellB k)) 0 := by
    rcases mul_eq_zero.mp h0 with h | h
    · exact absurd h (eqSign_ne_zero m k)
    · linarith
  rcases hxy with ⟨rfl, rfl⟩ | ⟨rfl, rfl⟩
  · exact h1
  · exact h1.symm

theorem reflTransGen_eq (p : List Rat) (hp : p.length = m.cells.length)
    (hok : ∀ k, k < m.nEq → m.EqOk k)
    (hker : ∀ k, k < m.nEq → dot (m.interfaceRow (m.eqInterface k)) p = 0) (i j : Nat)
    (h : Relation.ReflTransGen m.Linked i j) : p.getD i 0 = p.getD j 0 := by
  induction h with
  | refl => rfl
  | tail _ hbc ih => exact ih.trans (linked_eq m p hp hok hker _ _ hbc)

/-- a vector that is `c` on the kept positions and `0` on the removed ones sums to `c · #kept` -/
theorem sum_kept (p : List Rat) (n : Nat) (hp : p.length = n) (removed : List Nat) (c : Rat)
    (hz : ∀ j ∈ removed, p.getD j 0 = 0) (hc : ∀ j, j < n → j ∉ removed → p.getD j 0 = c) :
    p.sum = ((List.range n).filter fun j => !removed.contains j).length * c := by
  conv_lhs => rw [eq_map_range_getD p n hp]
  have : ∀ l : List Nat, (∀ j ∈ l, j < n) →
      (l.map fun i => p.getD i 0).sum = ((l.filter fun j => !removed.contains j).length : Rat) * c := by
    intro l
    induction l with
    | nil => intro _; simp
    | cons a l ih =>
      intro hl
      have ha : a < n := hl a (by simp)
      have ih' := ih (fun j hj => hl j (by simp [hj]))
      rw [List.map_cons, List.sum_cons, ih']
      by_cases hr : a ∈ removed
      · have : (!removed.contains a) = false := by simp [hr]
        rw [List.filter_cons_of_neg (by simp [hr]), hz a hr]; ring
      · rw [List.filter_cons_of_pos (by simp [hr]), hc a ha hr]
        simp only [List.length_cons]; push_cast; ring
  exact this _ (fun j hj => by simpa using hj)

end equation

/-! ### linearity in the tensions -/

theorem getD_vscale (c : Rat) (t : List Rat) (i : Nat) : (vscale c t).getD i 0 = c * t.getD i 0 :=
  getD_map_mul c t i

theorem getD_vadd (a b : List Rat) (h : a.length = b.length) (i : Nat) :
    (vadd a b).getD i 0 = a.getD i 0 + b.getD i 0 := by
  unfold vadd
  simp only [List.getD_eq_getElem?_getD, List.getElem?_zipWith]
  by_cases hi : i < a.length
  · have hi' : i < b.length := by omega
    simp [List.getElem?_eq_getElem hi, List.getElem?_eq_getElem hi']
  · rw [List.getElem?_eq_none (by omega), List.getElem?_eq_none (by omega)]
    simp

theorem vadd_map_map (l : List Nat) (f g : Nat → Rat) : vadd (l.map f) (l.map g) = l.map fun i => f i + g i := by
  induction l with
  | nil => rfl
  | cons a l ih =>
    unfold vadd at ih ⊢
    simp only [List.map_cons, List.zipWith_cons_cons, ih]

/-- a system is determined by its five fields -/
theorem PSystem_ext (S T : PSystem) (h1 : S.internal = T.internal) (h2 : S.ownCellCounts = T.ownCellCounts)
    (h3 : S.lhs = T.lhs) (h4 : S.rhs = T.rhs) (h5 : S.removed = T.removed) : S = T := by
  cases S; cases T; simp only at h1 h2 h3 h4 h5; rw [h1, h2, h3, h4, h5]

/-! ### renumbering the vertices -/

section mapV
variable (f : Id → Id) (hf : Function.Injective f) (m : Mesh)

theorem cells_keys_mapV : (m.mapV f).cells.map (·.1) = m.cells.map (·.1) := by
  simp [Mesh.mapV, List.map_map, Function.comp_def]

theorem cellPos_mapV (c : Id) : (m.mapV f).cellPos c = m.cellPos c := by
  unfold Mesh.cellPos
  rw [cells_keys_mapV]

theorem cell?_mapV (c : Id) : (m.mapV f).cell? c = (m.cell? c).map (Cell.mapV f) :=
  C07m.alGet?_map_snd (Cell.mapV f) c m.cells

include hf

theorem cellCycle_mapV (c : Id) : (m.mapV f).cellCycle c = m.cellCycle c := by
  unfold Mesh.cellCycle
  rw [cell?_mapV]
  cases m.cell? c with
  | none => rfl
  | some cl =>
    simp only [Option.map_some, Cell.mapV, List.map_map]
    apply List.map_congr_left
    intro v _
    exact C07m.pt_mapV f hf m v

omit hf in
theorem getD_map_of_lt (l : List Id) (i : Nat) (hi : i < l.length) : (l.map f).getD i 0 = f (l.getD i 0) := by
  simp [List.getD_eq_getElem?_getD, List.getElem?_map, List.getElem?_eq_getElem hi]

theorem cyclicNeighbours_map (ids : List Id) (a b : Id) :
    cyclicNeighbours (ids.map f) (f a) (f b) = cyclicNeighbours ids a b := by
  unfold cyclicNeighbours
  rw [C07m.indexOf?_map f hf]
  cases hh : indexOf? a ids with
  | none => rfl
  | some pos =>
    have hpos := (indexOf?_some_spec a ids pos hh).1
    have hl : 0 < ids.length := by omega
    simp only [List.length_map]
    rw [getD_map_of_lt f ids _ (Nat.mod_lt _ hl), getD_map_of_lt f ids _ (Nat.mod_lt _ hl)]
    have hb : ∀ x, (f b == f x) = (b == x) := by
      intro x; rw [Bool.eq_iff_iff]; simp [hf.eq_iff]
    simp only [hb]

theorem neighboursInCell_mapV (a b c : Id) :
    (m.mapV f).neighboursInCell (f a) (f b) c = m.neighboursInCell a b c := by
  unfold Mesh.neighboursInCell
  rw [cell?_mapV]
  cases m.cell? c with
  | none => rfl
  | some cl => exact cyclicNeighbours_map f hf cl.verts a b

theorem bigEdgeOwnCells_mapV (e : List Id) (he : e ≠ []) :
    (m.mapV f).bigEdgeOwnCells (e.map f) = m.bigEdgeOwnCells e := by
  unfold Mesh.bigEdgeOwnCells
  have hl : 0 < e.length := List.length_pos_iff.mpr he
  simp only [List.length_map]
  by_cases h2 : (e.length == 2) = true
  · have h2' : e.length = 2 := by simpa using h2
    rw [if_pos h2, if_pos h2, getD_map_of_lt f e 0 (by omega), getD_map_of_lt f e 1 (by omega),
      C07m.ownCells_mapV f hf, C07m.ownCells_mapV f hf]
    congr 1
    funext c
    exact neighboursInCell_mapV f hf m _ _ c
  · rw [if_neg h2, if_neg h2, getD_map_of_lt f e _ (by omega), C07m.ownCells_mapV f hf]

theorem interfaceRow_mapV (e : List Id) (he : e ≠ []) :
    (m.mapV f).interfaceRow (e.map f) = m.interfaceRow e := by
  unfold Mesh.interfaceRow
  simp only [bigEdgeOwnCells_mapV f hf m e he, cellPos_mapV, cellCycle_mapV f hf, cells_keys_mapV]

omit hf in
theorem internal_ne_nil (earr : List (List Id)) (i : Nat) (hi : i ∈ m.internalIdx earr) : earr.getD i [] ≠ [] := by
  unfold Mesh.internalIdx at hi
  simp only [List.mem_filter, Bool.and_eq_true] at hi
  intro h0
  have := hi.2.2
  rw [h0] at this
  simp [Mesh.endJunction3] at this

theorem system_mapV (tens curv : List Rat) :
    (m.mapV f).pressureSystem tens curv = m.pressureSystem tens curv := by
  have hI : (m.mapV f).internalIdx (m.mapV f).bigEdgesList = m.internalIdx m.bigEdgesList := by
    rw [C07m.bigEdgesList_mapV f hf, C07m.internalIdx_mapV f hf]
  have hrow : ∀ i ∈ m.internalIdx m.bigEdgesList,
      (m.mapV f).interfaceRow ((m.mapV f).bigEdgesList.getD i []) = m.interfaceRow (m.bigEdgesList.getD i []) := by
    intro i hi
    rw [C07m.bigEdgesList_mapV f hf, C07m.getD_map_nil]
    exact interfaceRow_mapV f hf m _ (internal_ne_nil m _ i hi)
  have hoc : ∀ i ∈ m.internalIdx m.bigEdgesList,
      (m.mapV f).bigEdgeOwnCells ((m.mapV f).bigEdgesList.getD i []) = m.bigEdgeOwnCells (m.bigEdgesList.getD i []) := by
    intro i hi
    rw [C07m.bigEdgesList_mapV f hf, C07m.getD_map_nil]
    exact bigEdgeOwnCells_mapV f hf m _ (internal_ne_nil m _ i hi)
  have hL : ((m.mapV f).pressureSystem tens curv).lhs = (m.pressureSystem tens curv).lhs := by
    rw [lhs_eq, lhs_eq, hI]
    exact List.map_congr_left hrow
  have hC : ((m.mapV f).pressureSystem tens curv).ownCellCounts = (m.pressureSystem tens curv).ownCellCounts := by
    rw [ownCellCounts_eq, ownCellCounts_eq, hI]
    exact List.map_congr_left fun i hi => by rw [hoc i hi]
  have hR : ((m.mapV f).pressureSystem tens curv).rhs = (m.pressureSystem tens curv).rhs := by
    rw [rhs_eq, rhs_eq, hI]
  have hRem : ((m.mapV f).pressureSystem tens curv).removed = (m.pressureSystem tens curv).removed := by
    rw [removed_eq, removed_eq, hL]
    congr 1
    simp [Mesh.mapV]
  have hInt : ((m.mapV f).pressureSystem tens curv).internal = (m.pressureSystem tens curv).internal := hI
  cases h1 : (m.mapV f).pressureSystem tens curv
  cases h2 : m.pressureSystem tens curv
  rw [h1, h2] at hL hC hR hRem hInt
  simp only at hL hC hR hRem hInt
  rw [hL, hC, hR, hRem, hInt]

end mapV

/-! ### the system reads the mesh only through the vertex look-up and the cell dictionary -/

theorem system_congr (m m' : Mesh) (hvx : ∀ k, m'.vertex? k = m.vertex? k) (hcells : m'.cells = m.cells)
    (tens curv : List Rat) : m'.pressureSystem tens curv = m.pressureSystem tens curv := by
  have h1 : m'.ownCells = m.ownCells := by funext k; unfold Mesh.ownCells; rw [hvx]
  have h2 : m'.ownEdges = m.ownEdges := by funext k; unfold Mesh.ownEdges; rw [hvx]
  have h3 : m'.pt = m.pt := by funext k; unfold Mesh.pt; rw [hvx]
  have h4 : m'.isJunction = m.isJunction := by funext k; unfold Mesh.isJunction; rw [h2]
  have h5 : m'.bigEdgesList = m.bigEdgesList := by unfold Mesh.bigEdgesList; rw [h4, hcells]
  have h6 : m'.cell? = m.cell? := by funext k; unfold Mesh.cell?; rw [hcells]
  unfold Mesh.pressureSystem Mesh.interfaceRow Mesh.cellPos Mesh.cellCycle Mesh.bigEdgeOwnCells Mesh.neighboursInCell
    Mesh.internalIdx Mesh.externalEdgesId Mesh.borderEdges Mesh.endJunction3
  simp only [h1, h3, h5, h6, hcells]

/-! ### reversing the stored cycle of one cell -/

theorem alGet?_mapIf {β : Type} (cid : Id) (g : β → β) (c : Id) (l : List (Id × β)) :
    alGet? c (l.map fun p => if p.1 = cid then (p.1, g p.2) else p)
      = if c = cid then (alGet? c l).map g else alGet? c l := by
  induction l with
  | nil => simp [alGet?]
  | cons q l ih =>
    obtain ⟨k', v⟩ := q
    by_cases h1 : k' = cid <;> by_cases h2 : c = k' <;> by_cases h3 : c = cid <;>
      simp_all [alGet?]

theorem dot_map_neg (r p : List Rat) : dot (r.map (- ·)) p = - dot r p := by
  have : r.map (- ·) = vscale (-1) r := by
    unfold vscale; apply List.map_congr_left; intro x _; ring
  rw [this, dot_smul_left]; ring

theorem ratSign_ne_zero (q : Rat) (hq : q ≠ 0) : ratSign q ≠ 0 := by
  unfold ratSign
  by_cases h : 0 < q
  · simp [h]
  · have h2 : q < 0 := lt_of_le_of_ne (not_lt.mp h) hq
    simp [h, h2]

section reverse
variable (cid : Id) (m : Mesh)

theorem cells_keys_mapCell (g : Cell → Cell) : (m.mapCell cid g).cells.map (·.1) = m.cells.map (·.1) := by
  simp only [Mesh.mapCell, List.map_map]
  apply List.map_congr_left
  intro p _
  simp only [Function.comp]
  split <;> rfl

theorem cell?_mapCell (g : Cell → Cell) (c : Id) :
    (m.mapCell cid g).cell? c = if c = cid then (m.cell? c).map g else m.cell? c :=
  alGet?_mapIf cid g c m.cells

theorem cellPos_mapCell (g : Cell → Cell) (c : Id) : (m.mapCell cid g).cellPos c = m.cellPos c := by
  unfold Mesh.cellPos
  rw [cells_keys_mapCell]

theorem cellCycle_reverseCell (c : Id) :
    (m.reverseCell cid).cellCycle c = if c = cid then (m.cellCycle c).reverse else m.cellCycle c := by
  unfold Mesh.cellCycle Mesh.reverseCell
  rw [cell?_mapCell]
  have hpt : (m.mapCell cid Cell.reverse).pt = m.pt := rfl
  rw [hpt]
  by_cases h : c = cid
  · rw [if_pos h, if_pos h]
    cases m.cell? c with
    | none => rfl
    | some cl => simp [Cell.reverse, List.map_reverse]
  · rw [if_neg h, if_neg h]

theorem cyclicNeighbours_reverse (ids : List Id) (hn : ids.Nodup) (a b : Id) :
    cyclicNeighbours ids.reverse a b = cyclicNeighbours ids a b := by
  rw [Bool.eq_iff_iff, cyclicNeighbours_spec ids.reverse (List.nodup_reverse.mpr hn),
    cyclicNeighbours_spec ids hn, (cyclicPairs_reverse_perm' ids).mem_iff, (cyclicPairs_reverse_perm' ids).mem_iff]
  simp only [List.mem_map, Prod.exists, Prod.swap, Prod.mk.injEq]
  constructor
  · rintro (⟨x, y, h, rfl, rfl⟩ | ⟨x, y, h, rfl, rfl⟩)
    · exact Or.inr h
    · exact Or.inl h
  · rintro (h | h)
    · exact Or.inr ⟨a, b, h, rfl, rfl⟩
    · exact Or.inl ⟨b, a, h, rfl, rfl⟩

theorem neighboursInCell_reverseCell (hnd : ∀ cl, m.cell? cid = some cl → cl.verts.Nodup) (a b c : Id) :
    (m.reverseCell cid).neighboursInCell a b c = m.neighboursInCell a b c := by
  unfold Mesh.neighboursInCell Mesh.reverseCell
  rw [cell?_mapCell]
  by_cases h : c = cid
  · subst h
    rw [if_pos rfl]
    cases hc : m.cell? c with
    | none => rfl
    | some cl => exact cyclicNeighbours_reverse cl.verts (hnd cl hc) a b
  · rw [if_neg h]

/-- `own_cells` of every interface is the same list: it is read off the vertices (untouched); for a two-point
    interface `are_neighbours` is direction-blind on a cycle without repeated vertex -/
theorem bigEdgeOwnCells_reverseCell (hnd : ∀ cl, m.cell? cid = some cl → cl.verts.Nodup) (e : List Id) :
    (m.reverseCell cid).bigEdgeOwnCells e = m.bigEdgeOwnCells e := by
  unfold Mesh.bigEdgeOwnCells
  have hoc : (m.reverseCell cid).ownCells = m.ownCells := rfl
  rw [hoc]
  split
  · congr 1
    funext c
    exact neighboursInCell_reverseCell cid m hnd _ _ c
  · rfl

/-- the middle vertex of an interface with an odd number of points does not depend on the stored direction -/
theorem bigEdgeOwnCells_reverse_odd (e : List Id) (h3 : 3 ≤ e.length) (hodd : e.length % 2 = 1) :
    m.bigEdgeOwnCells e.reverse = m.bigEdgeOwnCells e := by
  unfold Mesh.bigEdgeOwnCells
  have h2 : ¬ (e.length == 2) = true := by simp; omega
  simp only [List.length_reverse]
  rw [if_neg h2, if_neg h2]
  congr 1
  have hi : (e.length - 1) / 2 < e.length := by omega
  simp only [List.getD_eq_getElem?_getD]
  rw [List.getElem?_reverse hi]
  congr 2
  omega

theorem interfaceRow_reverseCell (hnd : ∀ cl, m.cell? cid = some cl → cl.verts.Nodup) (e : List Id) :
    (m.reverseCell cid).interfaceRow e
      = pressureRow m.cells.length (m.cellPos ((m.bigEdgeOwnCells e).getD 0 0)) (m.cellPos ((m.bigEdgeOwnCells e).getD 1 0))
          (if (m.bigEdgeOwnCells e).getD 0 0 = cid then - areaSign (m.cellCycle ((m.bigEdgeOwnCells e).getD 0 0))
           else areaSign (m.cellCycle ((m.bigEdgeOwnCells e).getD 0 0))) := by
  unfold Mesh.interfaceRow
  simp only [bigEdgeOwnCells_reverseCell cid m hnd e]
  unfold Mesh.reverseCell
  simp only [cellPos_mapCell, cells_keys_mapCell]
  have := cellCycle_reverseCell cid m ((m.bigEdgeOwnCells e).getD 0 0)
  unfold Mesh.reverseCell at this
  rw [this]
  simp only [List.length_map]
  split
  · rw [areaSign_reverse]
  · rfl

theorem interfaceRow_eq' (e : List Id) :
    m.interfaceRow e
      = pressureRow m.cells.length (m.cellPos ((m.bigEdgeOwnCells e).getD 0 0)) (m.cellPos ((m.bigEdgeOwnCells e).getD 1 0))
          (areaSign (m.cellCycle ((m.bigEdgeOwnCells e).getD 0 0))) := by
  simp [Mesh.interfaceRow]

/-- reversing the cell that carries the sign negates the row; reversing any other cell leaves it alone -/
theorem interfaceRow_reverseCell_cases (hnd : ∀ cl, m.cell? cid = some cl → cl.verts.Nodup)
    (harea : area (m.cellCycle cid) ≠ 0) (e : List Id) :
    (m.reverseCell cid).interfaceRow e
      = if (m.bigEdgeOwnCells e).getD 0 0 = cid then (m.interfaceRow e).map (- ·) else m.interfaceRow e := by
  rw [interfaceRow_reverseCell cid m hnd e, interfaceRow_eq' m e]
  by_cases h : (m.bigEdgeOwnCells e).getD 0 0 = cid
  · rw [if_pos h, if_pos h]
    have hs : areaSign (m.cellCycle ((m.bigEdgeOwnCells e).getD 0 0)) ≠ 0 := by
      rw [h]; exact ratSign_ne_zero _ harea
    exact (row_joint_flip _ _ _ _ hs 0 0).1
  · rw [if_neg h, if_neg h]

end reverse

/-! ### the kernel of the assembled matrix -/

theorem getD_vsub (a b : List Rat) (h : a.length = b.length) (i : Nat) :
    (vsub a b).getD i 0 = a.getD i 0 - b.getD i 0 := by
  unfold vsub
  simp only [List.getD_eq_getElem?_getD, List.getElem?_zipWith]
  by_cases hi : i < a.length
  · have hi' : i < b.length := by omega
    simp [List.getElem?_eq_getElem hi, List.getElem?_eq_getElem hi']
  · rw [List.getElem?_eq_none (by omega), List.getElem?_eq_none (by omega)]
    simp

theorem kernel_zero (m : Mesh) (tens curv : List Rat) (p : List Rat) (hp : p.length = m.cells.length)
    (hok : ∀ k, k < m.nEq → m.EqOk k)
    (hconn : ∀ i j, i < m.cells.length → j < m.cells.length → i ∉ (m.pressureSystem tens curv).removed →
      j ∉ (m.pressureSystem tens curv).removed → Relation.ReflTransGen m.Linked i j)
    (hker : ∀ r ∈ (m.pressureSystem tens curv).lhs, dot r p = 0)
    (hz : ∀ j ∈ (m.pressureSystem tens curv).removed, p.getD j 0 = 0) (hsum : p.sum = 0) :
    ∀ v ∈ p, v = 0 := by
  have hker' : ∀ k, k < m.nEq → dot (m.interfaceRow (m.eqInterface k)) p = 0 :=
    fun k hk => hker _ ((mem_lhs m tens curv _).2 ⟨k, hk, rfl⟩)
  have hall : ∀ j, j < m.cells.length → p.getD j 0 = 0 := by
    by_cases hex : ∃ i0, i0 < m.cells.length ∧ i0 ∉ (m.pressureSystem tens curv).removed
    · obtain ⟨i0, hi0, hr0⟩ := hex
      have hc : ∀ j, j < m.cells.length → j ∉ (m.pressureSystem tens curv).removed → p.getD j 0 = p.getD i0 0 :=
        fun j hj hr => reflTransGen_eq m p hp hok hker' j i0 (hconn j i0 hj hi0 hr hr0)
      have hs := sum_kept p m.cells.length hp (m.pressureSystem tens curv).removed (p.getD i0 0) hz hc
      rw [hsum] at hs
      have hpos : 0 < ((List.range m.cells.length).filter
          fun j => !(m.pressureSystem tens curv).removed.contains j).length := by
        apply List.length_pos_of_mem (a := i0)
        simp [List.mem_filter, hi0, hr0]
      have hne : (((List.range m.cells.length).filter
          fun j => !(m.pressureSystem tens curv).removed.contains j).length : Rat) ≠ 0 := by
        exact_mod_cast (by omega)
      have h0 : p.getD i0 0 = 0 := by
        rcases mul_eq_zero.mp hs.symm with h | h
        · exact absurd h hne
        · exact h
      intro j hj
      by_cases hr : j ∈ (m.pressureSystem tens curv).removed
      · exact hz j hr
      · rw [hc j hj hr, h0]
    · intro j hj
      by_cases hr : j ∈ (m.pressureSystem tens curv).removed
      · exact hz j hr
      · exact absurd ⟨j, hj, hr⟩ hex
  intro v hv
  obtain ⟨i, hi, rfl⟩ := List.getElem_of_mem hv
  have := hall i (by omega)
  simpa [List.getD_eq_getElem?_getD, List.getElem?_eq_getElem hi] using this

theorem lhs_injective (m : Mesh) (tens curv : List Rat) (p q : List Rat) (hp : p.length = m.cells.length)
    (hq : q.length = m.cells.length)
    (hok : ∀ k, k < m.nEq → m.EqOk k)
    (hconn : ∀ i j, i < m.cells.length → j < m.cells.length → i ∉ (m.pressureSystem tens curv).removed →
      j ∉ (m.pressureSystem tens curv).removed → Relation.ReflTransGen m.Linked i j)
    (hL : mulVec (m.pressureSystem tens curv).lhs p = mulVec (m.pressureSystem tens curv).lhs q)
    (hzp : ∀ j ∈ (m.pressureSystem tens curv).removed, p.getD j 0 = 0)
    (hzq : ∀ j ∈ (m.pressureSystem tens curv).removed, q.getD j 0 = 0)
    (hsp : p.sum = 0) (hsq : q.sum = 0) : p = q := by
  have hlen : p.length = q.length := hp.trans hq.symm
  have hrows : ∀ r ∈ (m.pressureSystem tens curv).lhs, dot r p = dot r q := by
    unfold mulVec at hL
    exact fun r hr => List.map_inj_left.mp hL r hr
  have hd := kernel_zero m tens curv (vsub p q) (by simp [vsub, hp, hq]) hok hconn
    (fun r hr => by rw [dot_sub_right r p q hlen, hrows r hr]; ring)
    (fun j hj => by rw [getD_vsub p q hlen, hzp j hj, hzq j hj]; ring)
    (by rw [sum_vsub p q hlen, hsp, hsq]; ring)
  exact (vsub_eq_zero_iff p q hlen).1 hd

/-! ### the reduced system (`np.delete` of the removed columns) against the full one -/

/-- the entries of `l` at the kept positions, `l` starting at position `o` -/
def keepFrom (removed : List Nat) (o : Nat) (l : List Rat) : List Rat :=
  ((List.zip (List.range' o l.length) l).filter fun q => !(removed.contains q.1)).map (·.2)

theorem keepFrom_nil (removed : List Nat) (o : Nat) : keepFrom removed o [] = [] := rfl

theorem keepFrom_cons (removed : List Nat) (o : Nat) (a : Rat) (l : List Rat) :
    keepFrom removed o (a :: l)
      = if removed.contains o then keepFrom removed (o + 1) l else a :: keepFrom removed (o + 1) l := by
  unfold keepFrom
  simp only [List.length_cons, List.range'_succ, List.zip_cons_cons, List.filter_cons]
  by_cases h : o ∈ removed
  · simp [h]
  · simp [h]

theorem dot_cons_cons (a b : Rat) (r p : List Rat) : dot (a :: r) (b :: p) = a * b + dot r p := by
  simp [dot]

theorem dot_keepFrom (removed : List Nat) (r p : List Rat) (o : Nat) (hlen : r.length = p.length)
    (hz : ∀ i, i < p.length → (o + i) ∈ removed → p.getD i 0 = 0) :
    dot r p = dot (keepFrom removed o r) (keepFrom removed o p) := by
  induction r generalizing p o with
  | nil => cases p with
    | nil => rfl
    | cons b p => simp at hlen
  | cons a r ih => cases p with
    | nil => simp at hlen
    | cons b p =>
      have hlen' : r.length = p.length := by simpa using hlen
      have hz' : ∀ i, i < p.length → (o + 1 + i) ∈ removed → p.getD i 0 = 0 := by
        intro i hi hm
        have := hz (i + 1) (by simp; omega) (by rw [show o + (i + 1) = o + 1 + i by omega]; exact hm)
        simpa using this
      rw [keepFrom_cons, keepFrom_cons, dot_cons_cons, ih p (o + 1) hlen' hz']
      by_cases h : o ∈ removed
      · have hb : b = 0 := by
          have := hz 0 (by simp) (by simpa using h)
          simpa using this
        simp [h, hb]
      · simp [h]

theorem sum_keepFrom (removed : List Nat) (p : List Rat) (o : Nat)
    (hz : ∀ i, i < p.length → (o + i) ∈ removed → p.getD i 0 = 0) :
    p.sum = (keepFrom removed o p).sum := by
  induction p generalizing o with
  | nil => rfl
  | cons b p ih =>
    have hz' : ∀ i, i < p.length → (o + 1 + i) ∈ removed → p.getD i 0 = 0 := by
      intro i hi hm
      have := hz (i + 1) (by simp; omega) (by rw [show o + (i + 1) = o + 1 + i by omega]; exact hm)
      simpa using this
    rw [keepFrom_cons, List.sum_cons, ih (o + 1) hz']
    by_cases h : o ∈ removed
    · have hb : b = 0 := by
        have := hz 0 (by simp) (by simpa using h)
        simpa using this
      simp [h, hb]
    · simp [h]

theorem dropColumns_eq (L : Mat) (removed : List Nat) : dropColumns L removed = L.map (keepFrom removed 0) := by
  unfold dropColumns keepFrom
  simp only [List.range_eq_range']

/-- the re-inserted vector: kept entries are the reduced solution, removed entries are zero -/
theorem reinsert_facts (n : Nat) (removed : List Nat) (sol : List Rat)
    (hr : ∀ i ∈ removed, i < n) (hnd : removed.Nodup) (hlen : sol.length + removed.length = n) :
    (reinsertZeros n removed sol).length = n ∧ keepFrom removed 0 (reinsertZeros n removed sol) = sol ∧
    ∀ i, i < (reinsertZeros n removed sol).length → (0 + i) ∈ removed → (reinsertZeros n removed sol).getD i 0 = 0 := by
  have hL := reinsertZeros_length n removed sol hr hnd hlen
  refine ⟨hL, ?_, ?_⟩
  · have := reinsertZeros_kept n removed sol hr hnd hlen
    unfold keepFrom
    rw [hL, ← List.range_eq_range']
    exact this
  · intro i hi hm
    rw [Nat.zero_add] at hm
    have h1 := reinsertZeros_removed n removed sol hr hnd hlen i hm
    rw [List.getD_eq_getElem?_getD, List.getElem?_eq_getElem hi] at h1 ⊢
    simpa using h1

end C04s
end Forsys
