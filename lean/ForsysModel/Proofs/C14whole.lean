/-
  Helper lemmas and statement vocabulary for Props/C14whole.lean (the whole-parser theorems of property C14).
-/
import ForsysModel.Model.SEParser
import ForsysModel.Proofs.C14
import ForsysModel.Props.C09
import ForsysModel.Props.C14

namespace Forsys
namespace SE
open Mesh

theorem mapM_map_ok {α β γ : Type} (g : α → β) (f : β → R γ) (h : α → γ) (l : List α)
    (hf : ∀ a ∈ l, f (g a) = .ok (h a)) : (l.map g).mapM f = .ok (l.map h) := by
  induction l with
  | nil => rfl
  | cons a l ih =>
    rw [List.map_cons, List.mapM_cons, hf a (by simp), ih (fun x hx => hf x (by simp [hx]))]
    rfl

/-- a vertex record `id x y` -/
def vLine (v : Nat × Rat × Rat) : List Tok := [Tok.ofInt v.1, Tok.dec v.2.1 none, Tok.dec v.2.2 none]
/-- an edge record `id v1 v2` or `id v1 v2 density q` -/
def eLine (e : Nat × Int × Int × Option Rat) : List Tok :=
  match e.2.2.2 with
  | none => [Tok.ofInt e.1, Tok.ofInt e.2.1, Tok.ofInt e.2.2.1]
  | some q => [Tok.ofInt e.1, Tok.ofInt e.2.1, Tok.ofInt e.2.2.1, Tok.dens, Tok.dec q none]
/-- a body record `b f volume 1 /*actual: -500*/ lagrange_multiplier q` -/
def bLine (b : Int × Int × Rat) : List Tok :=
  [Tok.ofInt b.1, Tok.ofInt b.2.1, Tok.word, Tok.ofInt 1, Tok.copen, Tok.cclose, Tok.word, Tok.dec b.2.2 none]

def vRec (v : Nat × Rat × Rat) : Id × Rat × Rat := ((v.1 : Int), roundDec v.2.1 3, roundDec v.2.2 3)
def eRec (e : Nat × Int × Int × Option Rat) : EdgeRec :=
  { id := (e.1 : Int), v1 := e.2.1, v2 := e.2.2.1, force := e.2.2.2.getD 1 }

theorem vertexLine_vLine (v : Nat × Rat × Rat) : vertexLine (vLine v) = .ok (vRec v) := by
  have := vertex_fields (v.1 : Int) v.2.1 v.2.2 none none []
  simpa [vLine, vRec] using this

theorem edgeLine_eLine (e : Nat × Int × Int × Option Rat) : edgeLine (eLine e) = .ok (eRec e) := by
  obtain ⟨i, a, b, d⟩ := e
  cases d with
  | none => simpa [eLine, eRec] using edge_fields_bare (i : Int) a b
  | some q => simpa [eLine, eRec] using edge_fields_density (i : Int) a b q none []

theorem pressureLine_bLine (b : Int × Int × Rat) : pressureLine (bLine b) = .ok (b.1, b.2.2) := by
  have := body_fields b.1 b.2.1 1 b.2.2 none []
  simpa [bLine] using this

def pdict (bs : List (Int × Int × Rat)) (d0 : List (Int × Rat)) : List (Int × Rat) :=
  bs.foldl (fun d r => dictSet d r.1 r.2.2) d0

theorem foldlM_pressure (bs : List (Int × Int × Rat)) : ∀ d0 : List (Int × Rat),
    (bs.map bLine).foldlM (fun d t => do let r ← pressureLine t; pure (dictSet d r.1 r.2)) d0
      = (.ok (pdict bs d0) : R _) := by
  induction bs with
  | nil => intro d0; rfl
  | cons b bs ih =>
    intro d0
    rw [List.map_cons, List.foldlM_cons, pressureLine_bLine]
    exact ih _

theorem getPressures_bLines (bs : List (Int × Int × Rat)) :
    getPressures (bs.map bLine) = .ok (pdict bs []) := foldlM_pressure bs []

theorem dictSet_fresh {β : Type} (d : List (Int × β)) (k : Int) (v : β) (h : k ∉ d.map (·.1)) :
    dictSet d k v = d ++ [(k, v)] := by
  unfold dictSet
  have : d.any (fun p => p.1 == k) = false := by
    rw [List.any_eq_false]
    intro p hp hk
    exact h (List.mem_map.mpr ⟨p, hp, by simpa using hk⟩)
  rw [this]; rfl

theorem pdict_nodup (bs : List (Int × Int × Rat)) : ∀ d0 : List (Int × Rat),
    (d0.map (·.1) ++ bs.map (·.1)).Nodup → pdict bs d0 = d0 ++ bs.map fun b => (b.1, b.2.2) := by
  induction bs with
  | nil => intro d0 _; simp [pdict]
  | cons b bs ih =>
    intro d0 h
    have hb : b.1 ∉ d0.map (·.1) := by
      intro hm
      rw [List.nodup_append] at h
      exact h.2.2 _ hm _ (by simp) rfl
    show pdict bs (dictSet d0 b.1 b.2.2) = _
    rw [dictSet_fresh _ _ _ hb, ih]
    · simp
    · simpa [List.append_assoc] using h


theorem getCells_serialise (fs : List (Int × List Int × List Nat)) (bs : List (Int × Int × Rat))
    (hlen : (pdict bs []).length = fs.length) :
    getCells (printFaces fs) (bs.map bLine)
      = .ok (List.zip (fs.map fun f => Tok.ofInt f.1) (List.zip (fs.map (·.2.1)) ((pdict bs []).map (·.2)))) := by
  unfold getCells
  rw [getPressures_bLines, faces_roundtrip]
  have h3 : ((List.map (fun f => Tok.ofInt f.1) fs).isEmpty && !(pdict bs []).isEmpty) = false := by
    cases fs with
    | nil =>
      have : pdict bs [] = [] := List.eq_nil_of_length_eq_zero (by simpa using hlen)
      simp [this]
    | cons f fs => simp
  simp only [bind, Except.bind, List.length_map, bne_self_eq_false, h3, hlen]
  rfl

/-- what `create_lattice` does after the records have been read -/
def assemble (vs : List (Id × Rat × Rat)) (es : List EdgeRec) (cs : List (Tok × List Int × Rat)) : R Parsed := do
  let m0 := vs.foldl (fun m p => m.mkVertex p.1 p.2.1 p.2.2) Mesh.empty
  let m1 ← es.foldlM addEdge m0
  let egt := es.foldl (fun d r => dictSet d r.id (roundDec (firstForce es r.id) 4)) []
  let (m2, cgt) ← cs.foldlM (fun (acc : Mesh × List (Id × Rat)) c => do
      let vlist ← c.2.1.mapM (tailVertex m1)
      let id ← tokInt c.1
      pure (acc.1.mkCell id vlist, dictSet acc.2 id (roundDec c.2.2 4))) (m1, [])
  pure { mesh := m2, edgeGt := egt, cellGt := cgt,
         used := (cs.map fun c => c.2.1.map fun e => (e.natAbs : Int)).flatten }

theorem buildLattice_of_sections (ls : List Line) (idx : Indices) (vs : List (Id × Rat × Rat)) (es : List EdgeRec)
    (cs : List (Tok × List Int × Rat)) (hi : indices ls = .ok idx)
    (hv : (sectionToks idx.v ls).mapM vertexLine = .ok vs) (he : (sectionToks idx.e ls).mapM edgeLine = .ok es)
    (hc : getCells (sectionToks idx.f ls) (sectionToks idx.p ls) = .ok cs) :
    buildLattice ls = assemble vs es cs := by
  unfold buildLattice assemble
  rw [hi]
  show (do let es ← (sectionToks idx.e ls).mapM edgeLine; _) = _
  rw [he]
  show (do let vs ← (sectionToks idx.v ls).mapM vertexLine; _) = _
  rw [hv]
  simp only [bind, Except.bind, hc]


/-! ### the edge loop and the cell loop of create_lattice never raise on well-formed records -/

theorem mem_keys_filter_append {β : Type} (l : List (Id × β)) (k k' : Id) (v : β) :
    k ∈ ((l.filter fun p => p.1 != k') ++ [(k', v)]).map (·.1) ↔ k ∈ l.map (·.1) ∨ k = k' := by
  simp only [List.map_append, List.mem_append, List.mem_map, List.mem_filter, List.map_cons, List.map_nil,
    List.mem_singleton]
  constructor
  · rintro (⟨p, ⟨hp, _⟩, rfl⟩ | h)
    · exact Or.inl ⟨p, hp, rfl⟩
    · exact Or.inr h
  · rintro (⟨p, hp, rfl⟩ | h)
    · by_cases hk : p.1 = k'
      · exact Or.inr hk
      · exact Or.inl ⟨p, ⟨hp, by simpa using hk⟩, rfl⟩
    · exact Or.inr h

theorem vkeys_foldl_mkVertex (vs : List (Id × Rat × Rat)) (k : Id) : ∀ m : Mesh,
    k ∈ (vs.foldl (fun m p => m.mkVertex p.1 p.2.1 p.2.2) m).vertices.map (·.1)
      ↔ k ∈ m.vertices.map (·.1) ∨ k ∈ vs.map (·.1) := by
  induction vs with
  | nil => intro m; simp
  | cons v vs ih =>
    intro m
    rw [List.foldl_cons, ih]
    have : k ∈ (m.mkVertex v.1 v.2.1 v.2.2).vertices.map (·.1) ↔ k ∈ m.vertices.map (·.1) ∨ k = v.1 :=
      mem_keys_filter_append _ _ _ _
    rw [this, List.map_cons, List.mem_cons, or_assoc]

theorem edges_foldl_mkVertex (vs : List (Id × Rat × Rat)) : ∀ m : Mesh,
    (vs.foldl (fun m p => m.mkVertex p.1 p.2.1 p.2.2) m).edges = m.edges := by
  induction vs with
  | nil => intro m; rfl
  | cons v vs ih => intro m; rw [List.foldl_cons, ih]; rfl

def mkEdges (es : List EdgeRec) (m : Mesh) : Mesh := es.foldl (fun m r => m.mkEdge r.id r.v1 r.v2) m

theorem vkeys_mkEdges (es : List EdgeRec) : ∀ m : Mesh, (mkEdges es m).vertices.map (·.1) = m.vertices.map (·.1) := by
  induction es with
  | nil => intro m; rfl
  | cons r es ih => intro m; show (mkEdges es _).vertices.map (·.1) = _; rw [ih, mkEdge_vkeys]

theorem ekeys_mkEdges (es : List EdgeRec) (k : Id) : ∀ m : Mesh,
    k ∈ (mkEdges es m).edges.map (·.1) ↔ k ∈ m.edges.map (·.1) ∨ k ∈ es.map (·.id) := by
  induction es with
  | nil => intro m; simp [mkEdges]
  | cons r es ih =>
    intro m
    show k ∈ (mkEdges es _).edges.map (·.1) ↔ _
    rw [ih, mkEdge_edges, mem_keys_filter_append, List.map_cons, List.mem_cons, or_assoc]

theorem foldlM_addEdge (es : List EdgeRec) : ∀ m : Mesh,
    (∀ r ∈ es, r.v1 ∈ m.vertices.map (·.1) ∧ r.v2 ∈ m.vertices.map (·.1) ∧ r.v1 ≠ r.v2) →
    es.foldlM addEdge m = .ok (mkEdges es m) := by
  induction es with
  | nil => intro m _; rfl
  | cons r es ih =>
    intro m h
    obtain ⟨h1, h2, h3⟩ := h r (by simp)
    have a1 : (m.vertex? r.v1).isSome = true := (alGet?_isSome_iff _ _).mpr h1
    have a2 : (m.vertex? r.v2).isSome = true := (alGet?_isSome_iff _ _).mpr h2
    have hstep : addEdge m r = .ok (m.mkEdge r.id r.v1 r.v2) := by
      unfold addEdge
      cases hv1 : m.vertex? r.v1 with
      | none => rw [hv1] at a1; cases a1
      | some x =>
        cases hv2 : m.vertex? r.v2 with
        | none => rw [hv2] at a2; cases a2
        | some y => simp [h3]; rfl
    rw [List.foldlM_cons, hstep]
    show es.foldlM addEdge _ = _
    rw [ih]
    · rfl
    · intro r' hr'
      rw [mkEdge_vkeys]
      exact h r' (by simp [hr'])

/-- the cells and reference pressures the cell loop builds from `(id, signed loop, pressure)` records -/
def mkCells (m1 : Mesh) (cs : List (Int × List Int × Rat)) (acc : Mesh × List (Id × Rat)) : Mesh × List (Id × Rat) :=
  cs.foldl (fun acc c => (acc.1.mkCell c.1 (c.2.1.map (tailV m1)), dictSet acc.2 c.1 (roundDec c.2.2 4))) acc

theorem foldlM_cells (m1 : Mesh) (cs : List (Int × List Int × Rat))
    (h : ∀ c ∈ cs, ∀ e ∈ c.2.1, (m1.edge? (e.natAbs : Int)).isSome) : ∀ acc : Mesh × List (Id × Rat),
    (cs.map fun c => (Tok.ofInt c.1, c.2.1, c.2.2)).foldlM (fun (acc : Mesh × List (Id × Rat)) c => do
      let vlist ← c.2.1.mapM (tailVertex m1)
      let id ← tokInt c.1
      pure (acc.1.mkCell id vlist, dictSet acc.2 id (roundDec c.2.2 4))) acc = (.ok (mkCells m1 cs acc) : R _) := by
  induction cs with
  | nil => intro acc; rfl
  | cons c cs ih =>
    intro acc
    rw [List.map_cons, List.foldlM_cons]
    simp only []
    rw [cycle_is_tails m1 c.2.1 (h c (by simp))]
    show (cs.map _).foldlM _ _ = _
    rw [ih (fun c' hc' => h c' (by simp [hc']))]
    rfl

theorem zip3_map {α β γ δ ε : Type} (f : α → β) (g : α → γ) (h : δ → ε) (l : List α) : ∀ ps : List δ,
    List.zip (l.map f) (List.zip (l.map g) (ps.map h)) = (List.zip l ps).map fun x => (f x.1, g x.1, h x.2) := by
  induction l with
  | nil => intro ps; simp
  | cons a l ih =>
    intro ps
    cases ps with
    | nil => simp
    | cons p ps => simp [ih]


theorem mkCells_fst (m1 : Mesh) (cs : List (Int × List Int × Rat)) : ∀ acc : Mesh × List (Id × Rat),
    (mkCells m1 cs acc).1 = cs.foldl (fun m c => m.mkCell c.1 (c.2.1.map (tailV m1))) acc.1 := by
  induction cs with
  | nil => intro acc; rfl
  | cons c cs ih => intro acc; show (mkCells m1 cs _).1 = _; rw [ih]; rfl

theorem mkCells_snd (m1 : Mesh) (cs : List (Int × List Int × Rat)) : ∀ acc : Mesh × List (Id × Rat),
    (mkCells m1 cs acc).2 = cs.foldl (fun d c => dictSet d c.1 (roundDec c.2.2 4)) acc.2 := by
  induction cs with
  | nil => intro acc; rfl
  | cons c cs ih => intro acc; show (mkCells m1 cs _).2 = _; rw [ih]; rfl

theorem foldl_updVertex_edges_cells (g : Vertex → Vertex) (vs : List Id) : ∀ m : Mesh,
    (vs.foldl (fun m v => m.updVertex v g) m).edges = m.edges ∧
    (vs.foldl (fun m v => m.updVertex v g) m).cells = m.cells ∧
    (vs.foldl (fun m v => m.updVertex v g) m).vertices.map (·.1) = m.vertices.map (·.1) := by
  induction vs with
  | nil => intro m; exact ⟨rfl, rfl, rfl⟩
  | cons v vs ih =>
    intro m
    rw [List.foldl_cons]
    obtain ⟨a, b, c⟩ := ih (m.updVertex v g)
    refine ⟨a, b, c.trans ?_⟩
    simp [updVertex_vertices, List.map_map, Function.comp_def]

theorem mkCell_edges' (m : Mesh) (k : Id) (verts : List Id) : (m.mkCell k verts).edges = m.edges :=
  (foldl_updVertex_edges_cells (fun x => addCellTo x k) verts m).1

theorem mkCell_vkeys' (m : Mesh) (k : Id) (verts : List Id) :
    (m.mkCell k verts).vertices.map (·.1) = m.vertices.map (·.1) :=
  (foldl_updVertex_edges_cells (fun x => addCellTo x k) verts m).2.2

theorem mkCell_cells' (m : Mesh) (k : Id) (verts : List Id) :
    (m.mkCell k verts).cells = (m.cells.filter fun p => p.1 != k) ++ [(k, { id := k, verts := verts })] := by
  show (List.filter _ (verts.foldl (fun m v => m.updVertex v (addCellTo · k)) m).cells) ++ _ = _
  rw [(foldl_updVertex_edges_cells (fun x => addCellTo x k) verts m).2.1]

theorem foldl_mkCell_keys (cs : List (Id × List Id)) (k : Id) : ∀ m : Mesh,
    ((cs.foldl (fun m c => m.mkCell c.1 c.2) m).edges = m.edges ∧
     (cs.foldl (fun m c => m.mkCell c.1 c.2) m).vertices.map (·.1) = m.vertices.map (·.1)) ∧
    (k ∈ (cs.foldl (fun m c => m.mkCell c.1 c.2) m).cells.map (·.1) ↔ k ∈ m.cells.map (·.1) ∨ k ∈ cs.map (·.1)) := by
  induction cs with
  | nil => intro m; simp
  | cons c cs ih =>
    intro m
    rw [List.foldl_cons]
    obtain ⟨⟨a, b⟩, d⟩ := ih (m.mkCell c.1 c.2)
    refine ⟨⟨a.trans (mkCell_edges' _ _ _), b.trans (mkCell_vkeys' _ _ _)⟩, ?_⟩
    rw [d, mkCell_cells', mem_keys_filter_append, List.map_cons, List.mem_cons, or_assoc]

theorem tailV_neg (m : Mesh) (e : Int) (he : e ≠ 0) : tailV m (-e) = headV m e := by
  unfold tailV headV
  rw [Int.natAbs_neg]
  cases m.edge? (e.natAbs : Int) with
  | none => rfl
  | some ed =>
    by_cases hp : e > 0
    · have h2 : ¬ (-e > 0) := by omega
      show (if -e > 0 then ed.v1 else ed.v2) = (if e > 0 then ed.v2 else ed.v1)
      rw [if_neg h2, if_pos hp]
    · have h2 : -e > 0 := by omega
      show (if -e > 0 then ed.v1 else ed.v2) = (if e > 0 then ed.v2 else ed.v1)
      rw [if_pos h2, if_neg hp]

theorem foldl_dictSet_nodup (F : Id → Rat) (l : List EdgeRec) : ∀ g0 : List (Int × Rat),
    (g0.map (·.1) ++ l.map (·.id)).Nodup →
    l.foldl (fun g r => dictSet g r.id (F r.id)) g0 = g0 ++ l.map fun r => (r.id, F r.id) := by
  induction l with
  | nil => intro g0 _; simp
  | cons b bs ih =>
    intro g0 h
    have hb : b.id ∉ g0.map (·.1) := by
      intro hm
      rw [List.nodup_append] at h
      exact h.2.2 _ hm _ (by simp) rfl
    rw [List.foldl_cons, dictSet_fresh _ _ _ hb, ih]
    · simp
    · simpa [List.append_assoc] using h

theorem firstForce_nodup (es : List EdgeRec) (hnd : (es.map (·.id)).Nodup) : ∀ r ∈ es, firstForce es r.id = r.force := by
  induction es with
  | nil => intro r hr; simp at hr
  | cons a es ih =>
    intro r hr
    simp only [List.map_cons, List.nodup_cons] at hnd
    rcases List.mem_cons.mp hr with rfl | hr'
    · simp [firstForce]
    · have hne : ¬ a.id = r.id := fun e => hnd.1 (e ▸ List.mem_map.mpr ⟨r, hr', rfl⟩)
      have := ih hnd.2 r hr'
      unfold firstForce at this ⊢
      rw [List.find?_cons_of_neg (by simpa using hne)]
      exact this

end SE
end Forsys
