/- helper lemmas for Props/C06.lean -/
import ForsysModel.Model.Pressure
import ForsysModel.Model.Geometry
import ForsysModel.Proofs.LinAlg
import ForsysModel.Proofs.C20
import Mathlib.Tactic.Ring
import Mathlib.Tactic.Linarith
import Mathlib.Tactic.LinearCombination
import Mathlib.Algebra.Order.Field.Rat
namespace Forsys
namespace C06

/-! ### tangents -/

theorem vec_ext {a b : Vec} (hx : a.x = b.x) (hy : a.y = b.y) : a = b := by
  cases a; cases b; simp_all

theorem ratSign_cases' (q : Rat) :
    (0 < q ∧ ratSign q = 1) ∨ (q < 0 ∧ ratSign q = -1) ∨ (q = 0 ∧ ratSign q = 0) := by
  unfold ratSign
  rcases lt_trichotomy q 0 with h | h | h
  · right; left; refine ⟨h, ?_⟩; rw [if_neg (not_lt.mpr h.le), if_pos h]
  · right; right; subst h; simp
  · left; exact ⟨h, by rw [if_pos h]⟩

theorem forcedSign_cases (q : Rat) :
    (0 ≤ q ∧ forcedSign q = 1) ∨ (q < 0 ∧ forcedSign q = -1) := by
  unfold forcedSign
  rcases ratSign_cases' q with ⟨h, e⟩ | ⟨h, e⟩ | ⟨h, e⟩
  · left; exact ⟨h.le, by rw [e]; decide⟩
  · right; exact ⟨h, by rw [e]; decide⟩
  · left; exact ⟨h.ge, by rw [e]; decide⟩

theorem forcedSign_mul_self (q : Rat) : forcedSign q * forcedSign q = 1 := by
  rcases forcedSign_cases q with ⟨_, e⟩ | ⟨_, e⟩ <;> rw [e] <;> decide

theorem mul_ratSign (q : Rat) : q * (ratSign q : Rat) = |q| := by
  rcases ratSign_cases' q with ⟨h, e⟩ | ⟨h, e⟩ | ⟨h, e⟩
  · rw [e, abs_of_pos h]; simp
  · rw [e, abs_of_neg h]; simp
  · rw [e, h]; simp

/-- closed form of `tangentVec`: component magnitudes of the perpendicular, signs of the chord -/
theorem tv_eq (p c : Pt) (ch : Vec) :
    tangentVec p c ch = ⟨|p.y - c.y| * (forcedSign ch.x : Rat), |p.x - c.x| * (forcedSign ch.y : Rat)⟩ := by
  have h0 : tangentVec p c ch =
      ⟨(-(p.y - c.y)) * ((forcedSign ch.x * ratSign (-(p.y - c.y)) : Int) : Rat),
       (p.x - c.x) * ((forcedSign ch.y * ratSign (p.x - c.x) : Int) : Rat)⟩ := by
    unfold tangentVec
    simp only []
    split
    · rfl
    · next h =>
      have h' := not_or.mp h
      have h1 : ratSign (-(p.y - c.y)) = forcedSign ch.x := not_not.mp h'.1
      have h2 : ratSign (p.x - c.x) = forcedSign ch.y := not_not.mp h'.2
      rw [h1, h2, forcedSign_mul_self, forcedSign_mul_self]
      simp
  rw [h0]
  apply vec_ext <;> simp only [Int.cast_mul]
  · rw [← abs_neg (p.y - c.y), ← mul_ratSign]; ring
  · rw [← mul_ratSign]; ring

theorem forcedSign_scale (s q : Rat) (hs : 0 < s) : forcedSign (s * q) = forcedSign q := by
  rcases forcedSign_cases q with ⟨h, e⟩ | ⟨h, e⟩
  · rcases forcedSign_cases (s * q) with ⟨h', e'⟩ | ⟨h', e'⟩
    · rw [e, e']
    · exact absurd (mul_nonneg hs.le h) (not_le.mpr h')
  · rcases forcedSign_cases (s * q) with ⟨h', e'⟩ | ⟨h', e'⟩
    · exact absurd (mul_neg_of_pos_of_neg hs h) (not_lt.mpr h')
    · rw [e, e']

theorem forcedSign_neg (q : Rat) (hq : q ≠ 0) : forcedSign (-q) = - forcedSign q := by
  rcases forcedSign_cases q with ⟨h, e⟩ | ⟨h, e⟩
  · have hq' : 0 < q := lt_of_le_of_ne h (Ne.symm hq)
    rcases forcedSign_cases (-q) with ⟨h', e'⟩ | ⟨h', e'⟩
    · linarith
    · rw [e, e']
  · rcases forcedSign_cases (-q) with ⟨h', e'⟩ | ⟨h', e'⟩
    · rw [e, e']; rfl
    · linarith

theorem tvd_pos (p c : Pt) (ch : Vec) (h : -(p.y - c.y) * ch.x + (p.x - c.x) * ch.y < 0) :
    tangentVecDot p c ch = ⟨(p.y - c.y), -(p.x - c.x)⟩ := by
  simp only [tangentVecDot, Vec.dot, Vec.neg, neg_neg, if_pos h]

theorem tvd_neg (p c : Pt) (ch : Vec) (h : ¬ -(p.y - c.y) * ch.x + (p.x - c.x) * ch.y < 0) :
    tangentVecDot p c ch = ⟨-(p.y - c.y), p.x - c.x⟩ := by
  simp only [tangentVecDot, Vec.dot, Vec.neg, neg_neg, if_neg h]

/-! ### areas -/

theorem area_map_of_eCross (f : Pt → Pt) (k : Rat) (hf : ∀ p q, eCross (f p, f q) = k * eCross (p, q)) (ps : List Pt) :
    area (ps.map f) = k * area ps := by
  rw [area_eq_sum, area_eq_sum, cyclicPairs_map, List.map_map]
  have : (eCross ∘ Prod.map f f) = fun e => k * eCross e := by
    funext e; exact hf e.1 e.2
  rw [this, List.sum_map_mul_left]
  ring

/-! ### rotated residual pairs -/

/-- same equations as `rotPairs` in Props/C06.lean (defined there after this import) -/
def rotPairs' (a b : Rat) : List Rat → List Rat
  | u :: v :: rest => (a * u - b * v) :: (b * u + a * v) :: rotPairs' a b rest
  | l => l

theorem normSq_rotPairs' (a b : Rat) (h : a * a + b * b = 1) (r : List Rat) :
    normSq (rotPairs' a b r) = normSq r := by
  fun_induction rotPairs' a b r with
  | case1 u v rest ih =>
    simp only [normSq, dot, List.zipWith_cons_cons, List.sum_cons] at ih ⊢
    rw [ih]
    linear_combination (u * u + v * v) * h
  | case2 l _ => rfl

theorem vsub_rotPairs' (a b : Rat) : ∀ (u w : List Rat), u.length = w.length →
    vsub (rotPairs' a b u) (rotPairs' a b w) = rotPairs' a b (vsub u w)
  | [], [], _ => by simp [rotPairs', vsub]
  | [x], [y], _ => by simp [rotPairs', vsub]
  | x :: x' :: u, y :: y' :: w, h => by
    have ih := vsub_rotPairs' a b u w (by simpa using h)
    simp only [rotPairs', vsub, List.zipWith_cons_cons] at ih ⊢
    rw [ih]
    congr 1
    · ring
    · congr 1; ring
  | [], _ :: _, h => by simp at h
  | _ :: _, [], h => by simp at h
  | [_], _ :: _ :: _, h => by simp at h
  | _ :: _ :: _, [_], h => by simp at h

/-! ### `np.gradient` is linear; curvature ingredients under a linear map -/

/-- the `np.gradient` stencil at index `i` -/
def gradStencil (l : List Rat) (i : Nat) : Rat :=
  if i = 0 then l.getD 1 0 - l.getD 0 0
  else if i = l.length - 1 then l.getD (l.length - 1) 0 - l.getD (l.length - 2) 0
  else (l.getD (i + 1) 0 - l.getD (i - 1) 0) / 2

theorem gradient_eq_map (l : List Rat) (h : 2 ≤ l.length) :
    gradient l = (List.range l.length).map (gradStencil l) := by
  match l, h with
  | a :: b :: rest, _ => rfl

theorem gradient_short (l : List Rat) (h : l.length < 2) : gradient l = [] := by
  match l, h with
  | [], _ => rfl
  | [_], _ => rfl

theorem gradient_length_ite (l : List Rat) : (gradient l).length = if 2 ≤ l.length then l.length else 0 := by
  by_cases h : 2 ≤ l.length
  · simp [gradient_eq_map l h, h]
  · simp [gradient_short l (by omega), h]

theorem gradient_length_congr (a b : List Rat) (h : a.length = b.length) :
    (gradient a).length = (gradient b).length := by
  simp [gradient_length_ite, h]

/-- the linear combination `m x + n y` of two lists -/
def lin (m n : Rat) (X Y : List Rat) : List Rat := List.zipWith (fun x y => m * x + n * y) X Y

theorem lin_length (m n : Rat) (X Y : List Rat) (h : X.length = Y.length) : (lin m n X Y).length = X.length := by
  simp [lin, h]

theorem getD_lin (m n : Rat) (X Y : List Rat) (h : X.length = Y.length) (i : Nat) :
    (lin m n X Y).getD i 0 = m * X.getD i 0 + n * Y.getD i 0 := by
  by_cases hi : i < X.length
  · have hi' : i < Y.length := h ▸ hi
    simp [lin, List.getD_eq_getElem?_getD, List.getElem?_zipWith, List.getElem?_eq_getElem hi,
      List.getElem?_eq_getElem hi']
  · have hi' : ¬ i < Y.length := h ▸ hi
    simp [lin, List.getD_eq_getElem?_getD, List.getElem?_zipWith, List.getElem?_eq_none (not_lt.mp hi),
      List.getElem?_eq_none (not_lt.mp hi')]

theorem gradient_lin (m n : Rat) (X Y : List Rat) (h : X.length = Y.length) :
    gradient (lin m n X Y) = lin m n (gradient X) (gradient Y) := by
  have hl := lin_length m n X Y h
  by_cases h2 : 2 ≤ X.length
  · rw [gradient_eq_map _ (by omega), gradient_eq_map X h2, gradient_eq_map Y (by omega), hl, ← h]
    simp only [lin, List.zipWith_map, List.zipWith_self]
    apply List.map_congr_left
    intro i _
    have g := getD_lin m n X Y h
    simp only [lin] at g hl
    simp only [gradStencil, g, hl, ← h]
    split_ifs <;> ring
  · rw [gradient_short _ (by omega), gradient_short X (by omega)]
    simp [lin]


theorem gradient_gradient_length (l : List Rat) : (gradient (gradient l)).length = (gradient l).length := by
  rw [gradient_length_ite (gradient l), gradient_length_ite l]
  split_ifs <;> omega

theorem num_lin (m11 m12 m21 m22 : Rat) (A B C D : List Rat) :
    List.zipWith (· - ·) (List.zipWith (· * ·) (lin m11 m12 A D) (lin m21 m22 C B))
        (List.zipWith (· * ·) (lin m11 m12 C B) (lin m21 m22 A D))
      = (List.zipWith (· - ·) (List.zipWith (· * ·) A B) (List.zipWith (· * ·) C D)).map
          ((m11 * m22 - m12 * m21) * ·) := by
  induction A generalizing B C D with
  | nil => simp [lin]
  | cons a A ih =>
    cases B with
    | nil => simp [lin]
    | cons b B =>
      cases C with
      | nil => simp [lin]
      | cons c C =>
        cases D with
        | nil => simp [lin]
        | cons d D =>
          have := ih B C D
          simp only [lin] at this
          simp only [lin, List.map_cons, List.zipWith_cons_cons, this, List.cons.injEq, and_true]
          ring

theorem speed_lin (m11 m12 m21 m22 : Rat) (h1 : m11 * m11 + m21 * m21 = 1) (h2 : m12 * m12 + m22 * m22 = 1)
    (h3 : m11 * m12 + m21 * m22 = 0) (C B : List Rat) :
    List.zipWith (· + ·) (List.zipWith (· * ·) (lin m11 m12 C B) (lin m11 m12 C B))
        (List.zipWith (· * ·) (lin m21 m22 C B) (lin m21 m22 C B))
      = List.zipWith (· + ·) (List.zipWith (· * ·) C C) (List.zipWith (· * ·) B B) := by
  induction C generalizing B with
  | nil => simp [lin]
  | cons c C ih =>
    cases B with
    | nil => simp [lin]
    | cons b B =>
      have := ih B
      simp only [lin] at this
      simp only [lin, List.zipWith_cons_cons, this, List.cons.injEq, and_true]
      linear_combination (c * c) * h1 + (b * b) * h2 + (2 * c * b) * h3

/-- the linear map with matrix `(m11 m12; m21 m22)` -/
def linP (m11 m12 m21 m22 : Rat) (p : Pt) : Pt := ⟨m11 * p.x + m12 * p.y, m21 * p.x + m22 * p.y⟩

theorem segSqs_linP (m11 m12 m21 m22 : Rat) (h1 : m11 * m11 + m21 * m21 = 1) (h2 : m12 * m12 + m22 * m22 = 1)
    (h3 : m11 * m12 + m21 * m22 = 0) (pts : List Pt) :
    segSqs (pts.map (linP m11 m12 m21 m22)) = segSqs pts := by
  induction pts with
  | nil => simp [segSqs]
  | cons p l ih =>
    cases l with
    | nil => simp [segSqs]
    | cons q l =>
      simp only [List.map_cons, segSqs] at ih ⊢
      rw [ih]
      simp only [distSq, linP, List.cons.injEq, and_true]
      linear_combination ((q.x - p.x) * (q.x - p.x)) * h1 + ((q.y - p.y) * (q.y - p.y)) * h2
        + (2 * (q.x - p.x) * (q.y - p.y)) * h3

theorem map_x_linP (m11 m12 m21 m22 : Rat) (pts : List Pt) :
    (pts.map (linP m11 m12 m21 m22)).map (·.x) = lin m11 m12 (pts.map (·.x)) (pts.map (·.y)) := by
  simp [lin, linP, List.zipWith_map, List.zipWith_self]

theorem map_y_linP (m11 m12 m21 m22 : Rat) (pts : List Pt) :
    (pts.map (linP m11 m12 m21 m22)).map (·.y) = lin m21 m22 (pts.map (·.x)) (pts.map (·.y)) := by
  simp [lin, linP, List.zipWith_map, List.zipWith_self]

theorem curvParts_linP (m11 m12 m21 m22 : Rat) (pts : List Pt) :
    (curvParts (pts.map (linP m11 m12 m21 m22))).num
        = (curvParts pts).num.map ((m11 * m22 - m12 * m21) * ·) ∧
    ((m11 * m11 + m21 * m21 = 1) → (m12 * m12 + m22 * m22 = 1) → (m11 * m12 + m21 * m22 = 0) →
      (curvParts (pts.map (linP m11 m12 m21 m22))).speedSq = (curvParts pts).speedSq ∧
      (curvParts (pts.map (linP m11 m12 m21 m22))).segSq = (curvParts pts).segSq) := by
  have hxy : (pts.map (·.x)).length = (pts.map (·.y)).length := by simp
  have hg : (gradient (pts.map (·.x))).length = (gradient (pts.map (·.y))).length :=
    gradient_length_congr _ _ hxy
  simp only [curvParts, map_x_linP, map_y_linP, gradient_lin _ _ _ _ hxy, gradient_lin _ _ _ _ hg]
  refine ⟨num_lin _ _ _ _ _ _ _ _, fun h1 h2 h3 => ⟨speed_lin _ _ _ _ h1 h2 h3 _ _, segSqs_linP _ _ _ _ h1 h2 h3 pts⟩⟩

end C06
end Forsys
