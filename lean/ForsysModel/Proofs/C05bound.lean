/- helper lemmas for Props/C05bound.lean: Cauchy–Schwarz for list vectors, the Frobenius bound for a matrix–vector product,
   the gradient at an exact solution, entries of a difference -/
import ForsysModel.Props.C01tissue
import Mathlib.Tactic.Ring
import Mathlib.Tactic.Linarith
import Mathlib.Tactic.Positivity
import Mathlib.Algebra.Order.Field.Rat
namespace Forsys

/-- squared Frobenius norm of a matrix: the sum of the squared norms of its rows -/
def frobSq (N : Mat) : Rat := (N.map normSq).sum

theorem frobSq_nonneg (N : Mat) : 0 ≤ frobSq N := by
  unfold frobSq
  apply sum_nonneg_of_forall
  intro v hv
  obtain ⟨r, _, rfl⟩ := List.mem_map.mp hv
  exact normSq_nonneg r

theorem normSq_vscale (k : Rat) (a : List Rat) : normSq (vscale k a) = k * (k * normSq a) := by
  unfold normSq
  rw [dot_smul_left, dot_smul_right]

/-- Cauchy–Schwarz: `(a·b)² ≤ ‖a‖² ‖b‖²` -/
theorem dot_mul_self_le (a b : List Rat) (h : a.length = b.length) :
    dot a b * dot a b ≤ normSq a * normSq b := by
  have key := normSq_nonneg (vsub (vscale (normSq b) a) (vscale (dot a b) b))
  rw [normSq_vsub _ _ (by simp [vscale, h]), normSq_vscale, normSq_vscale, dot_smul_left, dot_smul_right] at key
  have hB := normSq_nonneg b
  rcases eq_or_lt_of_le hB with h0 | hpos
  · have hz : ∀ v ∈ b, v = 0 := (normSq_eq_zero b).mp h0.symm
    rw [dot_eq_zero_of_right a b hz, ← h0]; simp
  · by_contra hlt
    have := mul_pos hpos (sub_pos.mpr (not_le.mp hlt))
    nlinarith

/-- `‖N u‖² ≤ ‖N‖_F² ‖u‖²` when the rows of `N` are as long as `u` -/
theorem normSq_mulVec_le (N : Mat) (u : List Rat) (hN : ∀ r ∈ N, r.length = u.length) :
    normSq (mulVec N u) ≤ frobSq N * normSq u := by
  induction N with
  | nil => simp [mulVec, frobSq]
  | cons r N ih =>
    have h1 := dot_mul_self_le r u (hN r (by simp))
    have h2 := ih (fun q hq => hN q (by simp [hq]))
    simp only [mulVec, List.map_cons, normSq_cons, frobSq, List.sum_cons] at h2 ⊢
    linarith

/-- a square of an entry is at most the squared norm -/
theorem mul_self_le_normSq_of_mem (a : List Rat) (v : Rat) (hv : v ∈ a) : v * v ≤ normSq a := by
  induction a with
  | nil => simp at hv
  | cons x a ih =>
    simp only [normSq_cons]
    rcases List.mem_cons.mp hv with rfl | hm
    · have := normSq_nonneg a; linarith
    · have := ih hm; have := mul_self_nonneg x; linarith

/-- `‖a − b‖² = ‖b − a‖²` -/
theorem normSq_vsub_comm (a b : List Rat) : normSq (vsub a b) = normSq (vsub b a) := by
  induction a generalizing b with
  | nil => cases b <;> simp [vsub]
  | cons x a ih =>
    cases b with
    | nil => simp [vsub]
    | cons y b =>
      have := ih b
      simp only [vsub] at this
      simp only [vsub, List.zipWith_cons_cons, normSq_cons, this]; ring

/-- entry `i` of a difference (both lists long enough) is in the difference -/
theorem getD_sub_getD_mem_vsub (a b : List Rat) (i : Nat) (ha : i < a.length) (hb : i < b.length) :
    a.getD i 0 - b.getD i 0 ∈ vsub a b := by
  have hl : i < (vsub a b).length := by simp [vsub]; omega
  have : (vsub a b)[i] = a.getD i 0 - b.getD i 0 := by
    simp [vsub, List.getD_eq_getElem?_getD, ha, hb]
  rw [← this]
  exact List.getElem_mem hl

theorem getD_of_length_le (a : List Rat) (i : Nat) (h : a.length ≤ i) : a.getD i 0 = 0 := by
  simp [List.getD_eq_getElem?_getD, List.getElem?_eq_none_iff.mpr h]

/-- at an exact solution the residual, hence the gradient, vanishes -/
theorem grad_eq_zero_of_residSq_eq_zero (M : Mat) (b t : List Rat) (h : residSq M b t = 0) :
    ∀ v ∈ grad M b t, v = 0 := by
  have hz : ∀ v ∈ vsub (mulVec M t) b, v = 0 := (normSq_eq_zero _).mp h
  intro v hv
  simp only [grad, tMulVec, List.mem_map] at hv
  obtain ⟨j, _, rfl⟩ := hv
  exact dot_eq_zero_of_right _ _ hz

/-- appending the same entry to both vectors does not change the squared distance -/
theorem normSq_vsub_append_same (a b : List Rat) (c : Rat) (h : a.length = b.length) :
    normSq (vsub (a ++ [c]) (b ++ [c])) = normSq (vsub a b) := by
  rw [vsub_append a [c] b [c] h]
  unfold normSq
  rw [dot_append _ _ _ _ rfl]
  simp [vsub]

theorem sum_append_singleton (a : List Rat) (c : Rat) : (a ++ [c]).sum = a.sum + c := by
  simp

namespace FMInput

theorem normalisedTensions_nonneg (n : Nat) (tau : Nat → Rat) (hn : 0 < n) (hpos : ∀ c < n, 0 < tau c) :
    ∀ v ∈ normalisedTensions n tau, 0 ≤ v := by
  intro v hv
  simp only [normalisedTensions, List.mem_map, List.mem_range] at hv
  obtain ⟨c, hc, rfl⟩ := hv
  have hs := tauVec_sum_pos n tau hn hpos
  have hn' : (0 : Rat) < (n : Rat) := by exact_mod_cast hn
  have : 0 < meanTension n tau := by unfold meanTension; positivity
  exact le_of_lt (div_pos (hpos c hc) this)

theorem tauVec_nonneg' (n : Nat) (tau : Nat → Rat) (hnn : ∀ c < n, 0 ≤ tau c) :
    ∀ v ∈ tauVec n tau, 0 ≤ v := by
  intro v hv
  simp only [tauVec, List.mem_map, List.mem_range] at hv
  obtain ⟨c, hc, rfl⟩ := hv
  exact hnn c hc

theorem getD_normalisedTensions (n : Nat) (tau : Nat → Rat) (c : Nat) (hc : c < n) :
    (normalisedTensions n tau ++ [0]).getD c 0 = tau c / meanTension n tau := by
  rw [List.getD_eq_getElem?_getD, List.getElem?_append_left (by simp [normalisedTensions, hc])]
  simp [normalisedTensions, List.getElem?_range hc]

theorem getD_tauVec (n : Nat) (tau : Nat → Rat) (c : Nat) (hc : c < n) :
    (tauVec n tau ++ [0]).getD c 0 = tau c := by
  rw [List.getD_eq_getElem?_getD, List.getElem?_append_left (by simp [tauVec, hc])]
  simp [tauVec, List.getElem?_range hc]

end FMInput
end Forsys
