/- helper definitions and lemmas for Props/C03more.lean -/
import ForsysModel.Props.C03matrix
import ForsysModel.Props.C13more
import ForsysModel.Props.C19more
import ForsysModel.Props.C05
import Mathlib.Tactic.Ring
import Mathlib.Tactic.Linarith
import Mathlib.Tactic.FieldSimp
namespace Forsys

/-- what `set_velocity_matrix` stores for a junction: `value = calculate_velocity(...)`, the vector when the call
    returns; an exception leaves the function (nothing is stored) — totalised here as the zero vector, and never used in
    the theorems below other than on `.ok` results or under the same wrapper on both sides. -/
def c03VelOf : VelResult → Vec
  | .ok v => v
  | _ => ⟨0, 0⟩

theorem c03_div_of_disp (a b d v : Rat) (hd : d ≠ 0) (h : a = b + d * v) : (a - b) / d = v := by
  rw [h, add_sub_cancel_left, mul_div_cancel_left₀ _ hd]

theorem c03_velOf_map_div (a : Rat) (r : VelResult) :
    c03VelOf (r.map fun v => ⟨v.x / a, v.y / a⟩) = Vec.smul (1 / a) (c03VelOf r) := by
  cases r <;> simp [VelResult.map, c03VelOf, Vec.smul, div_eq_inv_mul]

theorem c03_velOf_map_lin (a b c d : Rat) (r : VelResult) :
    c03VelOf (r.map (linVec a b c d)) = linVec a b c d (c03VelOf r) := by
  cases r <;> simp [VelResult.map, c03VelOf, linVec]

theorem c03_flatMap_pair_add {α : Type} (f g f' g' : α → Rat) (l : List α) :
    (l.flatMap fun r => [f r + f' r, g r + g' r])
      = vadd (l.flatMap fun r => [f r, g r]) (l.flatMap fun r => [f' r, g' r]) := by
  induction l with
  | nil => simp [vadd]
  | cons a l ih => simp only [List.flatMap_cons, ih, vadd, List.cons_append, List.nil_append, List.zipWith_cons_cons]

theorem c03_round3_zip (b : List Rat) :
    ∀ p ∈ List.zip (b.map Tess.round3) b, ratAbs' (p.1 - p.2) ≤ 1 / 2000 := by
  intro p hp
  rw [List.zip_map_left] at hp
  obtain ⟨⟨x, y⟩, hxy, rfl⟩ := List.mem_map.mp hp
  have hxy' : x = y := by
    have := List.mem_iff_getElem.mp hxy
    obtain ⟨i, hi, he⟩ := this
    simp only [List.getElem_zip, Prod.mk.injEq] at he
    rw [← he.1, ← he.2]
  subst hxy'
  simp only [Prod.map_apply, id]
  rw [ratAbs'_eq_abs]
  exact Tess.round3_err x

end Forsys
