/- helper lemmas for Props/C16.lean -/
import ForsysModel.Model.FMatrix
import Mathlib.Tactic.Ring
import Mathlib.Tactic.Linarith
import Mathlib.Algebra.Order.Field.Rat
import Mathlib.Tactic.NormNum
import Mathlib.Tactic.Positivity
namespace Forsys

theorem C16.lagrange (a b : Vec) :
    Vec.dot a b * Vec.dot a b + (a.x * b.y - a.y * b.x) * (a.x * b.y - a.y * b.x) = a.normSq * b.normSq := by
  simp only [Vec.dot, Vec.normSq]; ring

theorem C16.normSq_nonneg (a : Vec) : 0 ≤ a.normSq := by
  unfold Vec.normSq; nlinarith [mul_self_nonneg a.x, mul_self_nonneg a.y]

theorem C16.cosLe_iff (a b : Vec) (c : Rat) :
    cosLe a b c = true ↔
      if 0 ≤ c then (Vec.dot a b ≤ 0 ∨ Vec.dot a b * Vec.dot a b ≤ c * c * (a.normSq * b.normSq))
      else (Vec.dot a b ≤ 0 ∧ c * c * (a.normSq * b.normSq) ≤ Vec.dot a b * Vec.dot a b) := by
  unfold cosLe
  by_cases hc : 0 ≤ c <;> simp [hc]

theorem C16.spec (a b : Vec) (c s : Rat) (hs : 0 ≤ s) (hss : s * s = a.normSq * b.normSq) :
    cosLe a b c = true ↔ Vec.dot a b ≤ c * s := by
  rw [C16.cosLe_iff, ← hss]
  generalize Vec.dot a b = d
  by_cases hc : 0 ≤ c
  · simp only [hc, if_true]
    have hcs : 0 ≤ c * s := mul_nonneg hc hs
    constructor
    · rintro (h | h)
      · linarith
      · by_contra hlt
        push Not at hlt
        nlinarith [mul_self_nonneg (d - c*s), mul_self_nonneg (d + c*s)]
    · intro h
      by_cases hd : d ≤ 0
      · exact Or.inl hd
      · right
        push Not at hd
        nlinarith
  · simp only [hc, if_false]
    push Not at hc
    have hcs : c * s ≤ 0 := by nlinarith
    constructor
    · rintro ⟨h1, h2⟩
      by_contra hlt
      push Not at hlt
      nlinarith
    · intro h
      refine ⟨by linarith, ?_⟩
      nlinarith

theorem C16.neg_one (a b : Vec) :
    cosLe a b (-1) = true ↔ Vec.dot a b ≤ 0 ∧ a.x * b.y - a.y * b.x = 0 := by
  rw [C16.cosLe_iff, ← C16.lagrange]
  have : ¬ (0:Rat) ≤ -1 := by norm_num
  simp only [this, if_false]
  constructor
  · rintro ⟨h1, h2⟩
    refine ⟨h1, ?_⟩
    have : (a.x * b.y - a.y * b.x) * (a.x * b.y - a.y * b.x) ≤ 0 := by linarith
    have h3 := mul_self_nonneg (a.x * b.y - a.y * b.x)
    exact mul_self_eq_zero.mp (le_antisymm this h3)
  · rintro ⟨h1, h2⟩
    refine ⟨h1, ?_⟩
    rw [h2]; linarith

theorem C16.mono (a b : Vec) (c c' : Rat) (h : c ≤ c') (hc : cosLe a b c = true) : cosLe a b c' = true := by
  rw [C16.cosLe_iff] at hc ⊢
  have hn : 0 ≤ a.normSq * b.normSq := mul_nonneg (C16.normSq_nonneg a) (C16.normSq_nonneg b)
  generalize a.normSq * b.normSq = n at *
  generalize Vec.dot a b = d at *
  by_cases h0 : 0 ≤ c
  · have h0' : 0 ≤ c' := le_trans h0 h
    simp only [h0, h0', if_true] at hc ⊢
    rcases hc with hc | hc
    · exact Or.inl hc
    · right
      have : c * c ≤ c' * c' := by nlinarith
      nlinarith [mul_le_mul_of_nonneg_right this hn]
  · by_cases h0' : 0 ≤ c'
    · simp only [h0, h0', if_true, if_false] at hc ⊢
      exact Or.inl hc.1
    · simp only [h0, h0', if_false] at hc ⊢
      push Not at h0 h0'
      refine ⟨hc.1, ?_⟩
      have : c' * c' ≤ c * c := by nlinarith
      nlinarith [mul_le_mul_of_nonneg_right this hn]

theorem C16.go_length (del : List Id) (es : List (List Id)) (xs : List Rat) :
    (realign.go del es xs).length = es.length := by
  induction es generalizing xs with
  | nil => simp [realign.go]
  | cons e es ih =>
    unfold realign.go
    split
    · simp [ih]
    · cases xs <;> simp [ih]

theorem C16.go_excluded (del : List Id) (es : List (List Id)) (xs : List Rat) (i : Nat) (hi : i < es.length)
    (hex : FMInput.bothDeleted del (es.getD i []) = true) :
    (realign.go del es xs).getD i 0 = -1 := by
  induction es generalizing xs i with
  | nil => simp at hi
  | cons e es ih =>
    unfold realign.go
    cases i with
    | zero =>
      simp at hex
      simp [hex]
    | succ i =>
      simp at hex hi
      have hex' : FMInput.bothDeleted del (es.getD i []) = true := by simpa using hex
      split
      · simpa using ih xs i hi hex'
      · cases xs with
        | nil => simpa using ih [] i hi hex'
        | cons x xs' => simpa using ih xs' i hi hex'

theorem C16.go_kept (del : List Id) (es : List (List Id)) (xs : List Rat)
    (h : xs.length + (es.filter fun e => FMInput.bothDeleted del e).length = es.length) :
    ((List.zip es (realign.go del es xs)).filter fun p => !(FMInput.bothDeleted del p.1)).map (·.2) = xs := by
  induction es generalizing xs with
  | nil => simp at h; simp [realign.go, h]
  | cons e es ih =>
    unfold realign.go
    by_cases hb : FMInput.bothDeleted del e = true
    · simp [hb] at h ⊢
      exact ih xs (by omega)
    · simp only [Bool.not_eq_true] at hb
      cases xs with
      | nil =>
        exfalso
        simp [hb] at h
        have := List.length_filter_le (fun e => FMInput.bothDeleted del e) es
        omega
      | cons x xs' =>
        simp [hb] at h ⊢
        exact ih xs' (by omega)

theorem C16.zip_filter_all (del : List Id) (es : List (List Id)) (xs : List Rat)
    (hl : xs.length = es.length) (h0 : (es.filter fun e => FMInput.bothDeleted del e).length = 0) :
    ((List.zip es xs).filter fun p => !(FMInput.bothDeleted del p.1)).map (·.2) = xs := by
  have hall : ∀ e ∈ es, FMInput.bothDeleted del e = false := by
    intro e he
    have := List.eq_nil_of_length_eq_zero h0
    rw [List.filter_eq_nil_iff] at this
    simpa using this e he
  rw [List.filter_eq_self.mpr]
  · exact List.map_snd_zip (by omega)
  · intro p hp
    have := hall p.1 (List.of_mem_zip hp).1
    simp [this]

theorem C16.bothDeleted_nil (e : List Id) : FMInput.bothDeleted [] e = false := by
  unfold FMInput.bothDeleted; split <;> simp

end Forsys
