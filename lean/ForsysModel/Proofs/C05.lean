/- helper lemmas for Props/C05.lean -/
import ForsysModel.Proofs.LinAlg
namespace Forsys

/-- what a passing KKT check says, as propositions -/
theorem kktCheck_iff (M : Mat) (b z : List Rat) (eps delta : Rat) :
    kktCheck M b z eps delta = true ↔
      (∀ v ∈ z, 0 ≤ v) ∧ (∀ v ∈ grad M b z, -eps ≤ v) ∧ ratAbs' (dot z (grad M b z)) ≤ delta := by
  simp [kktCheck, and_assoc]

/-- what a passing stationarity check with zero tolerance says -/
theorem statCheck_zero_iff (M : Mat) (b z : List Rat) :
    statCheck M b z 0 = true ↔ ∀ v ∈ grad M b z, v = 0 := by
  simp [statCheck, ratAbs'_le_zero_iff]

/-- what a passing solve check with zero tolerance says -/
theorem solveCheck_zero_iff_forall (M : Mat) (b z : List Rat) :
    solveCheck M b z 0 = true ↔ ∀ v ∈ vsub (mulVec M z) b, v = 0 := by
  simp [solveCheck, ratAbs'_le_zero_iff]

/-- the core identity with the weakest hypotheses: rows of length `n`, `b` as long as `M`,
    `y` and `z` of length `n` -/
theorem residSq_diff_core (M : Mat) (b z y : List Rat) (n : Nat) (hb : b.length = M.length)
    (hrows : ∀ r ∈ M, r.length = n) (hz : z.length = n) (hy : y.length = n) :
    residSq M b y - residSq M b z
      = normSq (mulVec M (vsub y z)) + 2 * (dot y (grad M b z) - dot z (grad M b z)) := by
  have hyz : y.length = z.length := hy.trans hz.symm
  unfold residSq grad
  rw [normSq_vsub_sub (mulVec M y) (mulVec M z) b (by simp) (by simp [hb]),
    ← mulVec_vsub' M y z hyz, dot_mulVec_eq_dot_tMulVec' M n (vsub y z) _ hrows, hz,
    dot_sub_left y z _ hyz]

/-- under the shape hypotheses the augmented system has the expected explicit form -/
theorem addMeanOne_eq (A : Mat) (b : List Rat) (m n : Nat) (hm : 0 < m) (hs : Shaped A b m n) :
    addMeanOne A b
      = (A.map (fun r => r ++ [1]) ++ [List.replicate n (1 : Rat) ++ [0]], b ++ [(n : Rat)]) := by
  obtain ⟨hA, _, hrows⟩ := hs
  cases A with
  | nil => simp at hA; omega
  | cons r A =>
    have hr : r.length = n := hrows r (by simp)
    simp [addMeanOne, hr]

/-- appending a column of ones adds the multiplier to every component of the product -/
theorem mulVec_map_append_one (A : Mat) (x : List Rat) (lam : Rat) (n : Nat)
    (hrows : ∀ r ∈ A, r.length = n) (hx : x.length = n) :
    mulVec (A.map (fun r => r ++ [1])) (x ++ [lam]) = (mulVec A x).map (· + lam) := by
  induction A with
  | nil => simp
  | cons r A ih =>
    have hr : r.length = x.length := (hrows r (by simp)).trans hx.symm
    have := ih (fun q hq => hrows q (by simp [hq]))
    simp [this, dot_append r [1] x [lam] hr]

end Forsys
