/- helper definitions and lemmas for Props/C02matrix.lean -/
import ForsysModel.Proofs.C02
namespace Forsys
namespace FMInput

/-! ### vocabulary -/

/-- `v` is the first or the last vertex of the interface `e` -/
def endsAt (e : List Id) (v : Id) : Bool := e.head? == some v || e.getLast? == some v

/-- positions (in `earr`) of the used interfaces, in column order: `used = usedIdx.map earr[·]` -/
def usedIdx (inp : FMInput) (earr : List (List Id)) : List Nat :=
  (inp.mesh.internalIdx earr).filter fun i => !(bothDeleted (inp.deletes earr) (earr.getD i []))

/-- the optional vector is a non-zero vector (what `placed` counts) -/
def isPlaced (o : Option Vec) : Bool :=
  match o with
  | some v => v.x != 0 || v.y != 0
  | none => false

/-- x- and y-component of a matrix entry pair (`none` = untouched zero) -/
def entryX (o : Option Vec) : Rat := match o with | some v => v.x | none => 0
def entryY (o : Option Vec) : Rat := match o with | some v => v.y | none => 0

/-- the closed form of entry `c` of the row pair of `vid` -/
def coefAt (inp : FMInput) (earr used : List (List Id)) (vid : Id) (c : Nat) : Option Vec :=
  if endsAt (used.getD c []) vid && !(inp.mesh.bigEdgeExternal (used.getD c [])) &&
      decide ((inp.mesh.ownCells vid).length > 2)
  then inp.vecAt earr ((inp.usedIdx earr).getD c 0) vid else none

/-- number of used, non-external interfaces ending at `vid` whose tangent there does not vanish -/
def placedEnds (inp : FMInput) (earr used : List (List Id)) (vid : Id) : Nat :=
  ((List.range used.length).filter fun c =>
    endsAt (used.getD c []) vid && !(inp.mesh.bigEdgeExternal (used.getD c [])) &&
      isPlaced (inp.vecAt earr ((inp.usedIdx earr).getD c 0) vid)).length

/-- number of used interfaces ending at `vid` -/
def endCount (used : List (List Id)) (vid : Id) : Nat :=
  ((List.range used.length).filter fun c => endsAt (used.getD c []) vid).length

/-! ### `eid_from_vertex` (after the repair of D29: the first position holding the asked list itself) -/

theorem eidFromVertex_some_iff' (earr : List (List Id)) (vbel : List Id) (c : Nat) :
    eidFromVertex earr vbel = some c ↔
      c < earr.length ∧ earr.getD c [] = vbel ∧ ∀ j < c, earr.getD j [] ≠ vbel := by
  unfold eidFromVertex
  rw [List.find?_range_eq_some]
  simp only [beq_iff_eq, List.mem_range, Bool.not_eq_true', beq_eq_false_iff_ne, ne_eq]
  constructor
  · rintro ⟨h1, h2, h3⟩; exact ⟨h2, h1, h3⟩
  · rintro ⟨h1, h2, h3⟩; exact ⟨h2, h1, h3⟩

theorem eidFromVertex_none_iff' (earr : List (List Id)) (vbel : List Id) :
    eidFromVertex earr vbel = none ↔ ∀ j < earr.length, earr.getD j [] ≠ vbel := by
  unfold eidFromVertex
  rw [List.find?_range_eq_none]
  simp only [Bool.not_eq_true', beq_eq_false_iff_ne, ne_eq]

theorem eidFromVertex_none_iff_not_mem (earr : List (List Id)) (vbel : List Id) :
    eidFromVertex earr vbel = none ↔ vbel ∉ earr := by
  rw [eidFromVertex_none_iff']
  constructor
  · intro h hm
    obtain ⟨j, hj, e⟩ := List.getElem_of_mem hm
    apply h j hj
    simp [List.getD_eq_getElem?_getD, hj, e]
  · intro h j hj e
    apply h
    rw [← e]
    simp [List.getD_eq_getElem?_getD, hj]

theorem getD_inj_of_nodup (l : List (List Id)) (hnd : l.Nodup) (i j : Nat) (hi : i < l.length) (hj : j < l.length)
    (h : l.getD i [] = l.getD j []) : i = j := by
  have h1 : l[i]? = some (l.getD i []) := by simp [List.getD_eq_getElem?_getD, hi]
  have h2 : l[j]? = some (l.getD j []) := by simp [List.getD_eq_getElem?_getD, hj]
  exact (List.getElem?_inj hi hnd).mp (h1.trans (h ▸ h2.symm))

/-- in a list without repetition every entry finds its own position -/
theorem eidFromVertex_self_of_nodup (l : List (List Id)) (hnd : l.Nodup) (c : Nat) (hc : c < l.length) :
    eidFromVertex l (l.getD c []) = some c := by
  rw [eidFromVertex_some_iff']
  refine ⟨hc, rfl, ?_⟩
  intro j hj e
  have := getD_inj_of_nodup l hnd j c (by omega) hc e
  omega

/-! ### used = usedIdx.map -/

theorem used_eq_usedIdx' (inp : FMInput) (earr : List (List Id)) :
    inp.used earr = (inp.usedIdx earr).map fun i => earr.getD i [] := by
  unfold used usedIdx
  simp only [List.filter_map]
  rfl

theorem internalIdx_nodup (m : Mesh) (earr : List (List Id)) : (m.internalIdx earr).Nodup := by
  unfold Mesh.internalIdx
  exact List.Nodup.filter _ List.nodup_range

theorem usedIdx_nodup (inp : FMInput) (earr : List (List Id)) : (inp.usedIdx earr).Nodup := by
  unfold usedIdx
  exact List.Nodup.filter _ (internalIdx_nodup _ _)

theorem usedIdx_length (inp : FMInput) (earr : List (List Id)) :
    (inp.usedIdx earr).length = (inp.used earr).length := by
  rw [used_eq_usedIdx']; simp

theorem mem_usedIdx_lt (inp : FMInput) (earr : List (List Id)) (i : Nat) (h : i ∈ inp.usedIdx earr) :
    i < earr.length := by
  unfold usedIdx Mesh.internalIdx at h
  simp only [List.mem_filter, List.mem_range] at h
  omega

theorem used_getD (inp : FMInput) (earr : List (List Id)) (c : Nat) (hc : c < (inp.used earr).length) :
    (inp.used earr).getD c [] = earr.getD ((inp.usedIdx earr).getD c 0) [] := by
  have hc' : c < (inp.usedIdx earr).length := by rw [usedIdx_length]; exact hc
  simp only [used_eq_usedIdx']
  simp [List.getD_eq_getElem?_getD, hc']

/-- no interface is listed twice ⇒ no column is listed twice -/
theorem used_nodup' (inp : FMInput) (earr : List (List Id)) (hnd : earr.Nodup) : (inp.used earr).Nodup := by
  rw [used_eq_usedIdx']
  apply List.Nodup.map_on _ (usedIdx_nodup inp earr)
  intro i hi j hj h
  exact getD_inj_of_nodup earr hnd i j (mem_usedIdx_lt inp earr i hi) (mem_usedIdx_lt inp earr j hj) h

/-- clause (a) of the former hypothesis: a used interface finds its own column -/
theorem eidFromVertex_self' (inp : FMInput) (earr : List (List Id)) (hnd : earr.Nodup) (c : Nat)
    (hc : c < (inp.used earr).length) :
    eidFromVertex (inp.used earr) ((inp.used earr).getD c []) = some c :=
  eidFromVertex_self_of_nodup _ (used_nodup' inp earr hnd) c hc

/-- clause (b) of the former hypothesis: an interface that is not used finds no column -/
theorem eidFromVertex_unused' (inp : FMInput) (earr : List (List Id)) (hnd : earr.Nodup) (i : Nat)
    (hi : i < earr.length) (hnot : i ∉ inp.usedIdx earr) :
    eidFromVertex (inp.used earr) (earr.getD i []) = none := by
  rw [eidFromVertex_none_iff']
  intro j hj e
  apply hnot
  have hj' : j < (inp.usedIdx earr).length := by rw [usedIdx_length]; exact hj
  have hm : (inp.usedIdx earr).getD j 0 ∈ inp.usedIdx earr := by
    have : (inp.usedIdx earr).getD j 0 = (inp.usedIdx earr)[j] := by
      simp [List.getD_eq_getElem?_getD, hj']
    rw [this]; exact List.getElem_mem _
  rw [used_getD inp earr j hj] at e
  have := getD_inj_of_nodup earr hnd _ i (mem_usedIdx_lt inp earr _ hm) hi e
  rw [← this]; exact hm

/-! ### index lemmas -/

theorem indexOf?_some {α : Type} [DecidableEq α] (a : α) (l : List α) (i : Nat)
    (h : indexOf? a l = some i) : l[i]? = some a := by
  induction l generalizing i with
  | nil => simp [indexOf?] at h
  | cons b t ih =>
    unfold indexOf? at h
    split at h
    · next e => cases h; simp [e]
    · cases hh : indexOf? a t with
      | none => simp [hh] at h
      | some j =>
        simp [hh] at h
        subst h
        simpa using ih j hh

/-- a non-external interface is one of the internal ones -/
theorem mem_internalIdx_of_not_external (m : Mesh) (earr : List (List Id)) (i : Nat) (hi : i < earr.length)
    (h : m.bigEdgeExternal (earr.getD i []) = false) : i ∈ m.internalIdx earr := by
  unfold Mesh.bigEdgeExternal at h
  simp only [Bool.or_eq_false_iff, Bool.not_eq_false'] at h
  unfold Mesh.internalIdx
  simp only [List.mem_filter, List.mem_range, Bool.and_eq_true, Bool.not_eq_true']
  refine ⟨hi, ?_, h.2⟩
  cases hc : (m.externalEdgesId earr).contains i with
  | false => rfl
  | true =>
    exfalso
    rw [List.contains_iff_mem] at hc
    unfold Mesh.externalEdgesId at hc
    rw [List.mem_filterMap] at hc
    obtain ⟨e, he, hidx⟩ := hc
    have hget := indexOf?_some e earr i hidx
    unfold Mesh.borderEdges at he
    rw [List.mem_filter] at he
    have : earr.getD i [] = e := by simp [List.getD_eq_getElem?_getD, hget]
    rw [this] at h
    rw [h.1] at he
    exact absurd he.2 (by simp)

/-! ### the fold -/

def stepQ {α : Type} (q : Nat → Option Nat) (val : Nat → α) (row : List α) (i : Nat) : List α :=
  match q i with
  | some pos => setAt row pos (val i)
  | none => row

theorem stepQ_length {α : Type} (q : Nat → Option Nat) (val : Nat → α) (row : List α) (i : Nat) :
    (stepQ q val row i).length = row.length := by
  unfold stepQ
  split
  · exact setAt_length' _ _ _
  · rfl

theorem stepQ_other {α : Type} (q : Nat → Option Nat) (val : Nat → α) (row : List α) (i c : Nat)
    (hc : c < row.length) (h : q i ≠ some c) : (stepQ q val row i)[c]? = row[c]? := by
  unfold stepQ
  split
  · next pos hp =>
    rw [setAt_getElem' _ _ _ _ hc]
    have : c ≠ pos := by intro e; apply h; rw [hp, e]
    simp [this]
  · rfl

theorem stepQ_hit {α : Type} (q : Nat → Option Nat) (val : Nat → α) (row : List α) (i c : Nat)
    (hc : c < row.length) (h : q i = some c) : (stepQ q val row i)[c]? = some (val i) := by
  unfold stepQ
  rw [h]
  simp only []
  rw [setAt_getElem' _ _ _ _ hc]
  simp

theorem foldl_stepQ_untouched {α : Type} (q : Nat → Option Nat) (val : Nat → α) (c : Nat) :
    ∀ (L : List Nat) (row : List α), c < row.length → (∀ i ∈ L, q i ≠ some c) →
      (L.foldl (stepQ q val) row)[c]? = row[c]? := by
  intro L
  induction L with
  | nil => intro row _ _; rfl
  | cons a t ih =>
    intro row hc h
    simp only [List.foldl_cons]
    rw [ih _ (by rw [stepQ_length]; exact hc) (fun i hi => h i (List.mem_cons_of_mem _ hi))]
    exact stepQ_other q val row a c hc (h a (List.mem_cons_self))

theorem foldl_stepQ_hit {α : Type} (q : Nat → Option Nat) (val : Nat → α) (c i0 : Nat) (hq : q i0 = some c) :
    ∀ (L : List Nat) (row : List α), c < row.length → L.Nodup → i0 ∈ L →
      (∀ i ∈ L, q i = some c → i = i0) →
      (L.foldl (stepQ q val) row)[c]? = some (val i0) := by
  intro L
  induction L with
  | nil => intro row _ _ h; simp at h
  | cons a t ih =>
    intro row hc hnd hmem h
    simp only [List.foldl_cons]
    have hnd' := List.nodup_cons.mp hnd
    by_cases ha : a = i0
    · subst ha
      rw [foldl_stepQ_untouched q val c t _ (by rw [stepQ_length]; exact hc)]
      · exact stepQ_hit q val row a c hc hq
      · intro i hi e
        have := h i (List.mem_cons_of_mem _ hi) e
        subst this
        exact hnd'.1 hi
    · have hm : i0 ∈ t := by
        rcases List.mem_cons.mp hmem with e | e
        · exact absurd e.symm ha
        · exact e
      exact ih _ (by rw [stepQ_length]; exact hc) hnd'.2 hm
        (fun i hi => h i (List.mem_cons_of_mem _ hi))

/-- the query made for interface number `i` of `earr` (none when the `if` of the loop body fails) -/
def qOf (inp : FMInput) (earr used : List (List Id)) (vid : Id) (i : Nat) : Option Nat :=
  if !(inp.mesh.bigEdgeExternal (earr.getD i [])) && decide ((inp.mesh.ownCells vid).length > 2)
  then eidFromVertex used (earr.getD i []) else none

theorem vertexEquation_eq_fold (inp : FMInput) (earr used : List (List Id)) (vid : Id) :
    inp.vertexEquation earr used vid =
      (Mesh.ownBigEdges earr vid).foldl (stepQ (qOf inp earr used vid) (fun i => inp.vecAt earr i vid))
        (used.map fun _ => none) := by
  unfold vertexEquation
  simp only []
  congr 1
  funext row i
  simp only [stepQ, qOf]
  split <;> rfl


/-! ### the ends of an interface -/

theorem contains_of_endsAt (e : List Id) (v : Id) (h : endsAt e v = true) : e.contains v = true := by
  unfold endsAt at h
  rw [List.contains_iff_mem]
  simp only [Bool.or_eq_true, beq_iff_eq] at h
  rcases h with h | h
  · exact List.mem_of_head? h
  · exact List.mem_of_getLast? h

theorem chordAt_none_of_not_end (ids : List Id) (pts : List Pt) (vid : Id) (h : endsAt ids vid = false) :
    chordAt ids pts vid = none := by
  unfold endsAt at h
  simp only [Bool.or_eq_false_iff, beq_eq_false_iff_ne, ne_eq] at h
  unfold chordAt
  split
  · next i0 i1 ir p0 p1 pr =>
    have h0 : ¬ i0 = vid := by
      intro e; apply h.1; simp [e]
    rw [if_neg h0]
    split
    · next j0 j1 jr q0 q1 qr hj hq =>
      have h1 : ¬ j0 = vid := by
        intro e; apply h.2
        rw [List.getLast?_eq_head?_reverse, hj, e]; rfl
      rw [if_neg h1]
    · rfl
  · rfl

theorem vectorFromVertex_none_of_not_end (ids : List Id) (pts : List Pt) (c : Pt) (vid : Id)
    (h : endsAt ids vid = false) : vectorFromVertex ids pts c vid = none := by
  unfold vectorFromVertex
  rw [chordAt_none_of_not_end ids pts vid h]
  rfl

theorem vecAt_none_of_not_end (inp : FMInput) (earr : List (List Id)) (i : Nat) (vid : Id)
    (h : endsAt (earr.getD i []) vid = false) : inp.vecAt earr i vid = none := by
  unfold vecAt
  exact vectorFromVertex_none_of_not_end _ _ _ _ h

/-! ### the closed form of a row -/

theorem ownBigEdges_nodup (earr : List (List Id)) (v : Id) : (Mesh.ownBigEdges earr v).Nodup := by
  unfold Mesh.ownBigEdges
  exact List.Nodup.filter _ List.nodup_range

theorem mem_ownBigEdges (earr : List (List Id)) (v : Id) (i : Nat) :
    i ∈ Mesh.ownBigEdges earr v ↔ i < earr.length ∧ (earr.getD i []).contains v = true := by
  unfold Mesh.ownBigEdges
  simp [List.mem_filter]

/-- generic form: entry `c` of the row of `vid`, with "contains" in place of "ends at" -/
theorem vertexEquation_getElem_contains (inp : FMInput) (earr : List (List Id)) (vid : Id) (c : Nat)
    (hnd : earr.Nodup) (hc : c < (inp.used earr).length) :
    (inp.vertexEquation earr (inp.used earr) vid)[c]? =
      some (if ((inp.used earr).getD c []).contains vid && !(inp.mesh.bigEdgeExternal ((inp.used earr).getD c [])) &&
              decide ((inp.mesh.ownCells vid).length > 2)
            then inp.vecAt earr ((inp.usedIdx earr).getD c 0) vid else none) := by
  have Ha : ∀ c < (inp.used earr).length,
      eidFromVertex (inp.used earr) ((inp.used earr).getD c []) = some c :=
    fun c hc => eidFromVertex_self' inp earr hnd c hc
  have Hb : ∀ i < earr.length, inp.mesh.bigEdgeExternal (earr.getD i []) = false → i ∉ inp.usedIdx earr →
      eidFromVertex (inp.used earr) (earr.getD i []) = none :=
    fun i hi _ hnot => eidFromVertex_unused' inp earr hnd i hi hnot
  have hc' : c < (inp.usedIdx earr).length := by rw [usedIdx_length]; exact hc
  have hicdef : (inp.usedIdx earr).getD c 0 = (inp.usedIdx earr)[c] := by
    simp [List.getD_eq_getElem?_getD, hc']
  have hused := used_getD inp earr c hc
  generalize hic : (inp.usedIdx earr).getD c 0 = ic at hused hicdef ⊢
  have hic_mem : ic ∈ inp.usedIdx earr := by rw [hicdef]; exact List.getElem_mem _
  have hic_lt : ic < earr.length := mem_usedIdx_lt inp earr ic hic_mem
  have hqic : eidFromVertex (inp.used earr) (earr.getD ic []) = some c := by
    rw [← hused]; exact Ha c hc
  rw [vertexEquation_eq_fold]
  have hlen : c < ((inp.used earr).map fun _ => (none : Option Vec)).length := by simpa using hc
  have key : ∀ i ∈ Mesh.ownBigEdges earr vid, qOf inp earr (inp.used earr) vid i = some c → i = ic := by
    intro i hi hq
    have hilt := ((mem_ownBigEdges earr vid i).mp hi).1
    unfold qOf at hq
    split at hq
    · next hcond =>
      simp only [Bool.and_eq_true, Bool.not_eq_true', decide_eq_true_eq] at hcond
      by_cases hm : i ∈ inp.usedIdx earr
      · obtain ⟨c', hc'lt, hc'eq⟩ := List.getElem_of_mem hm
        have hc'u : c' < (inp.used earr).length := by rw [← usedIdx_length]; exact hc'lt
        have h1 := Ha c' hc'u
        rw [used_getD inp earr c' hc'u] at h1
        have : (inp.usedIdx earr).getD c' 0 = i := by
          simp [List.getD_eq_getElem?_getD, hc'lt, hc'eq]
        rw [this, hq] at h1
        have hcc : c = c' := by simpa using h1
        subst hcc
        rw [hicdef]; exact hc'eq.symm
      · rw [Hb i hilt hcond.1 hm] at hq
        exact absurd hq (by simp)
    · exact absurd hq (by simp)
  by_cases hcond : (((inp.used earr).getD c []).contains vid && !(inp.mesh.bigEdgeExternal ((inp.used earr).getD c [])) &&
              decide ((inp.mesh.ownCells vid).length > 2)) = true
  · rw [if_pos hcond]
    rw [hused] at hcond
    have hcond' := hcond
    simp only [Bool.and_eq_true] at hcond'
    have hq : qOf inp earr (inp.used earr) vid ic = some c := by
      unfold qOf
      rw [if_pos (by simp only [Bool.and_eq_true]; exact ⟨hcond'.1.2, hcond'.2⟩)]
      exact hqic
    exact foldl_stepQ_hit _ _ c ic hq _ _ hlen (ownBigEdges_nodup earr vid)
      ((mem_ownBigEdges earr vid ic).mpr ⟨hic_lt, hcond'.1.1⟩) key
  · rw [if_neg hcond]
    rw [foldl_stepQ_untouched _ _ c _ _ hlen]
    · simp [hc]
    · intro i hi hq
      have := key i hi hq
      subst this
      apply hcond
      rw [hused]
      have hcont := ((mem_ownBigEdges earr vid i).mp hi).2
      unfold qOf at hq
      split at hq
      · next h =>
        simp only [Bool.and_eq_true] at h ⊢
        exact ⟨⟨hcont, h.1⟩, h.2⟩
      · exact absurd hq (by simp)

/-- generic form with "ends at": entry `c` of the row of `vid` is `coefAt` -/
theorem vertexEquation_getElem (inp : FMInput) (earr : List (List Id)) (vid : Id) (c : Nat)
    (hnd : earr.Nodup) (hc : c < (inp.used earr).length) :
    (inp.vertexEquation earr (inp.used earr) vid)[c]? = some (inp.coefAt earr (inp.used earr) vid c) := by
  rw [vertexEquation_getElem_contains inp earr vid c hnd hc]
  congr 1
  unfold coefAt
  cases he : endsAt ((inp.used earr).getD c []) vid with
  | true =>
    rw [contains_of_endsAt _ _ he]
  | false =>
    have : inp.vecAt earr ((inp.usedIdx earr).getD c 0) vid = none := by
      apply vecAt_none_of_not_end
      rw [← used_getD inp earr c hc]; exact he
    rw [this]
    simp

theorem vertexEquation_eq_map (inp : FMInput) (earr : List (List Id)) (vid : Id)
    (hnd : earr.Nodup) :
    inp.vertexEquation earr (inp.used earr) vid =
      (List.range (inp.used earr).length).map (inp.coefAt earr (inp.used earr) vid) := by
  apply List.ext_getElem?
  intro c
  by_cases hc : c < (inp.used earr).length
  · rw [vertexEquation_getElem inp earr vid c hnd hc]
    simp [hc]
  · have h1 : (inp.vertexEquation earr (inp.used earr) vid).length ≤ c := by
      rw [vertexEquation_length']; omega
    rw [List.getElem?_eq_none_iff.mpr h1]
    simp; omega


/-! ### without an angle limit -/

theorem usedIdx_no_limit (inp : FMInput) (earr : List (List Id)) (h : inp.cosLimit = none) :
    inp.usedIdx earr = inp.mesh.internalIdx earr := by
  have hex : ∀ v, inp.exceeds earr v = false := by
    intro v; unfold exceeds; rw [h]
  have hdel : inp.deletes earr = [] := by
    unfold deletes
    simp [hex]
  unfold usedIdx
  simp only [hdel, bothDeleted_nil]
  simp

/-- without an angle limit every non-external interface is used -/
theorem mem_usedIdx_no_limit (inp : FMInput) (earr : List (List Id)) (h : inp.cosLimit = none) (i : Nat)
    (hi : i < earr.length) (hext : inp.mesh.bigEdgeExternal (earr.getD i []) = false) : i ∈ inp.usedIdx earr := by
  rw [usedIdx_no_limit inp _ h]
  exact mem_internalIdx_of_not_external _ _ i hi hext

/-! ### counting the placed interfaces -/

theorem placed_eq (row : List (Option Vec)) : placed row = (row.filter isPlaced).length := rfl

theorem isPlaced_coefAt (inp : FMInput) (earr used : List (List Id)) (vid : Id) (c : Nat)
    (hcells : (inp.mesh.ownCells vid).length > 2) :
    isPlaced (inp.coefAt earr used vid c) =
      (endsAt (used.getD c []) vid && !(inp.mesh.bigEdgeExternal (used.getD c [])) &&
        isPlaced (inp.vecAt earr ((inp.usedIdx earr).getD c 0) vid)) := by
  unfold coefAt
  simp only [hcells, decide_true, Bool.and_true]
  split
  · next h => rw [h]; simp
  · next h =>
    have : (endsAt (used.getD c []) vid && !(inp.mesh.bigEdgeExternal (used.getD c []))) = false := by
      simpa using h
    rw [this]; rfl

theorem placed_vertexEquation (inp : FMInput) (earr : List (List Id)) (vid : Id)
    (hnd : earr.Nodup)
    (hcells : (inp.mesh.ownCells vid).length > 2) :
    placed (inp.vertexEquation earr (inp.used earr) vid) = inp.placedEnds earr (inp.used earr) vid := by
  rw [vertexEquation_eq_map inp earr vid hnd, placed_eq, List.filter_map, List.length_map]
  unfold placedEnds
  congr 1
  apply List.filter_congr
  intro c _
  exact isPlaced_coefAt inp earr _ vid c hcells

theorem keepRow_vertexEquation (inp : FMInput) (earr : List (List Id)) (vid : Id) (ig : Bool)
    (hnd : earr.Nodup) :
    keepRow ig (inp.vertexEquation earr (inp.used earr) vid) = true ↔
      3 ≤ (inp.mesh.ownCells vid).length ∧ 3 ≤ inp.placedEnds earr (inp.used earr) vid ∧
        (ig = true → inp.placedEnds earr (inp.used earr) vid < 4) := by
  by_cases hcells : (inp.mesh.ownCells vid).length > 2
  · rw [keepRow_iff', placed_vertexEquation inp earr vid hnd hcells]
    constructor
    · intro h; exact ⟨hcells, h⟩
    · intro h; exact h.2
  · rw [not_kept_few_cells' inp earr _ vid ig (by omega)]
    constructor
    · intro h; exact absurd h (by simp)
    · intro h; omega

/-! ### the output of `build` -/

/-- `v` gets a pair of equations (one x-row and one y-row) -/
def hasRow (out : FMOutput) (v : Id) : Prop := ∃ r ∈ out.rows, r.1 = v ∧ r.2.1 = true

theorem build_row (inp : FMInput) (r : Id × Bool × List (Option Vec)) (hr : r ∈ inp.build.rows) :
    r.1 ∈ endsOf (inp.used inp.earr) ∧
    r.2.1 = keepRow inp.ignoreFour (inp.vertexEquation inp.earr (inp.used inp.earr) r.1) ∧
    r.2.2 = inp.vertexEquation inp.earr (inp.used inp.earr) r.1 := by
  simp only [build, List.mem_map] at hr
  obtain ⟨vid, hv, rfl⟩ := hr
  exact ⟨hv, rfl, rfl⟩

theorem hasRow_iff (inp : FMInput) (v : Id) :
    hasRow inp.build v ↔ v ∈ endsOf (inp.used inp.earr) ∧
      keepRow inp.ignoreFour (inp.vertexEquation inp.earr (inp.used inp.earr) v) = true := by
  unfold hasRow
  constructor
  · rintro ⟨r, hr, rfl, hk⟩
    obtain ⟨h1, h2, _⟩ := build_row inp r hr
    exact ⟨h1, by rw [← h2]; exact hk⟩
  · rintro ⟨h1, h2⟩
    refine ⟨(v, keepRow inp.ignoreFour (inp.vertexEquation inp.earr (inp.used inp.earr) v),
      inp.vertexEquation inp.earr (inp.used inp.earr) v), ?_, rfl, h2⟩
    simp only [build, List.mem_map]
    exact ⟨v, h1, rfl⟩

theorem build_used (inp : FMInput) : inp.build.used = inp.used inp.earr := rfl

/-! ### used interfaces are non-external when no interface is listed twice -/

theorem indexOf?_of_mem {α : Type} [DecidableEq α] (a : α) (l : List α) (h : a ∈ l) :
    ∃ j, indexOf? a l = some j := by
  induction l with
  | nil => simp at h
  | cons b t ih =>
    unfold indexOf?
    by_cases e : a = b
    · exact ⟨0, by rw [if_pos e]⟩
    · rw [if_neg e]
      rcases List.mem_cons.mp h with h | h
      · exact absurd h e
      · obtain ⟨j, hj⟩ := ih h
        exact ⟨j + 1, by rw [hj]; rfl⟩

theorem internal_not_external (m : Mesh) (earr : List (List Id)) (hnd : earr.Nodup) (i : Nat)
    (hi : i ∈ m.internalIdx earr) : m.bigEdgeExternal (earr.getD i []) = false := by
  unfold Mesh.internalIdx at hi
  simp only [List.mem_filter, List.mem_range, Bool.and_eq_true, Bool.not_eq_true'] at hi
  obtain ⟨hlt, hext, hj3⟩ := hi
  unfold Mesh.bigEdgeExternal
  rw [hj3]
  simp only [Bool.not_true, Bool.or_false]
  cases hb : (earr.getD i []).any fun v => decide ((m.ownCells v).length < 2) with
  | false => rfl
  | true =>
    exfalso
    have hget : earr.getD i [] = earr[i] := by simp [List.getD_eq_getElem?_getD, hlt]
    have hmem : earr.getD i [] ∈ m.borderEdges earr := by
      unfold Mesh.borderEdges
      rw [List.mem_filter]
      exact ⟨by rw [hget]; exact List.getElem_mem _, hb⟩
    obtain ⟨j, hj⟩ := indexOf?_of_mem (earr.getD i []) earr (by rw [hget]; exact List.getElem_mem _)
    have h1 := indexOf?_some _ _ _ hj
    have h2 : earr[i]? = some (earr.getD i []) := by rw [hget]; simp [hlt]
    have hij : i = j := (List.getElem?_inj hlt hnd).mp (h2.trans h1.symm)
    subst hij
    have : i ∈ m.externalEdgesId earr := by
      unfold Mesh.externalEdgesId
      rw [List.mem_filterMap]
      exact ⟨_, hmem, hj⟩
    rw [← List.contains_iff_mem] at this
    rw [this] at hext
    exact absurd hext (by simp)

theorem used_not_external_of_nodup (inp : FMInput) (earr : List (List Id)) (hnd : earr.Nodup) (c : Nat)
    (hc : c < (inp.used earr).length) : inp.mesh.bigEdgeExternal ((inp.used earr).getD c []) = false := by
  rw [used_getD inp earr c hc]
  apply internal_not_external _ _ hnd
  have hc' : c < (inp.usedIdx earr).length := by rw [usedIdx_length]; exact hc
  have hm : (inp.usedIdx earr).getD c 0 ∈ inp.usedIdx earr := by
    have : (inp.usedIdx earr).getD c 0 = (inp.usedIdx earr)[c] := by
      simp [List.getD_eq_getElem?_getD, hc']
    rw [this]; exact List.getElem_mem _
  unfold usedIdx at hm
  exact (List.mem_filter.mp hm).1

/-- when every used interface ending at `vid` is non-external with a non-vanishing tangent there,
    the placed interfaces are exactly the used interfaces ending at `vid` -/
theorem placedEnds_eq_endCount (inp : FMInput) (earr used : List (List Id)) (vid : Id)
    (h : ∀ c < used.length, endsAt (used.getD c []) vid = true →
      inp.mesh.bigEdgeExternal (used.getD c []) = false ∧
        isPlaced (inp.vecAt earr ((inp.usedIdx earr).getD c 0) vid) = true) :
    inp.placedEnds earr used vid = endCount used vid := by
  unfold placedEnds endCount
  congr 1
  apply List.filter_congr
  intro c hc
  rw [List.mem_range] at hc
  cases he : endsAt (used.getD c []) vid with
  | false => rfl
  | true =>
    obtain ⟨h1, h2⟩ := h c hc he
    rw [h1, h2]; rfl

end FMInput
end Forsys
