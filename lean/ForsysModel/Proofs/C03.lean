/- helper lemmas for Props/C03.lean -/
import ForsysModel.Proofs.C05
import ForsysModel.Props.C05
import ForsysModel.Proofs.C01
namespace Forsys.C03

/-- the Hilbert-space core of non-expansiveness -/
theorem nonexp_core (u u' b b' : List Rat) (m : Nat) (hu : u.length = m) (hu' : u'.length = m)
    (hb : b.length = m) (hb' : b'.length = m)
    (h1 : dot u (vsub u b) = 0) (h2 : 0 ≤ dot u' (vsub u b))
    (h3 : dot u' (vsub u' b') = 0) (h4 : 0 ≤ dot u (vsub u' b')) :
    normSq (vsub u' u) ≤ normSq (vsub b' b) := by
  rw [dot_sub_right _ _ _ (by omega)] at h1 h2 h3 h4
  have e1 := normSq_vsub u' u (by omega)
  have e2 := normSq_vsub (vsub u' u) (vsub b' b) (by simp; omega)
  have e3 := normSq_nonneg (vsub (vsub u' u) (vsub b' b))
  rw [dot_sub_left _ _ _ (by omega), dot_sub_right _ _ _ (by omega), dot_sub_right _ _ _ (by omega)] at e2
  have c := dot_comm u u'
  simp only [normSq] at *
  linarith

theorem kkt_zero (M : Mat) (b z : List Rat) (h : kktCheck M b z 0 0 = true) :
    (∀ v ∈ z, 0 ≤ v) ∧ (∀ v ∈ grad M b z, 0 ≤ v) ∧ dot z (grad M b z) = 0 := by
  obtain ⟨h1, h2, h3⟩ := (kktCheck_iff M b z 0 0).mp h
  exact ⟨h1, by simpa using h2, (ratAbs'_le_zero_iff _).mp h3⟩

theorem rounding_core (b b' : List Rat) (e : Rat)
    (h : ∀ p ∈ List.zip b' b, ratAbs' (p.1 - p.2) ≤ e) :
    normSq (vsub b' b) ≤ ((List.zip b' b).length : Rat) * (e * e) := by
  induction b' generalizing b with
  | nil => simp [vsub]
  | cons x b' ih =>
    cases b with
    | nil => simp [vsub]
    | cons y b =>
      have h0 := (ratAbs'_le_iff _ _).mp (h (x, y) (by simp))
      have := ih b (fun p hp => h p (by simp [hp]))
      simp only [vsub, List.zipWith_cons_cons, normSq_cons, List.zip_cons_cons, List.length_cons,
        Nat.cast_add, Nat.cast_one] at this ⊢
      have : (x - y) * (x - y) ≤ e * e := by nlinarith [h0.1, h0.2]
      linarith

end Forsys.C03
