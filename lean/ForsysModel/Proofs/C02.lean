/- helper lemmas for Props/C02.lean -/
import ForsysModel.Model.FMatrix
import Mathlib.Tactic.Ring
import Mathlib.Tactic.Linarith
import Mathlib.Tactic.Positivity
import Mathlib.Algebra.Order.Field.Rat
import Mathlib.Tactic.NormNum
namespace Forsys

/-- same body as `ratAbs` in Props/C02.lean (which is defined after this import) -/
def ratAbsC02 (q : Rat) : Rat := if q < 0 then -q else q

theorem Vec.ext' {a b : Vec} (hx : a.x = b.x) (hy : a.y = b.y) : a = b := by
  cases a; cases b; simp_all

theorem ratSign_casesC02 (q : Rat) :
    (0 < q ∧ ratSign q = 1) ∨ (q < 0 ∧ ratSign q = -1) ∨ (q = 0 ∧ ratSign q = 0) := by
  unfold ratSign
  rcases lt_trichotomy q 0 with h | h | h
  · right; left; refine ⟨h, ?_⟩; rw [if_neg (not_lt.mpr h.le), if_pos h]
  · right; right; subst h; simp
  · left; exact ⟨h, by rw [if_pos h]⟩

theorem forcedSign_cases (q : Rat) :
    (0 ≤ q ∧ forcedSign q = 1) ∨ (q < 0 ∧ forcedSign q = -1) := by
  unfold forcedSign
  rcases ratSign_casesC02 q with ⟨h, e⟩ | ⟨h, e⟩ | ⟨h, e⟩
  · left; exact ⟨h.le, by rw [e]; decide⟩
  · right; exact ⟨h, by rw [e]; decide⟩
  · left; exact ⟨h.ge, by rw [e]; decide⟩

theorem forcedSign_mul_self (q : Rat) : forcedSign q * forcedSign q = 1 := by
  rcases forcedSign_cases q with ⟨_, e⟩ | ⟨_, e⟩ <;> rw [e] <;> decide

theorem forcedSign_mul_self_rat (q : Rat) : (forcedSign q : Rat) * (forcedSign q : Rat) = 1 := by
  have := forcedSign_mul_self q
  exact_mod_cast this

theorem mul_ratSign' (q : Rat) : q * (ratSign q : Rat) = ratAbsC02 q := by
  unfold ratAbsC02
  rcases ratSign_casesC02 q with ⟨h, e⟩ | ⟨h, e⟩ | ⟨h, e⟩
  · rw [e, if_neg (not_lt.mpr h.le)]; simp
  · rw [e, if_pos h]; simp
  · rw [e, if_neg (by rw [h]; exact lt_irrefl _)]; simp [h]

theorem ratAbs_neg' (q : Rat) : ratAbsC02 (-q) = ratAbsC02 q := by
  unfold ratAbsC02
  rcases lt_trichotomy q 0 with h | h | h
  · rw [if_neg (by linarith : ¬ -q < 0), if_pos h]
  · subst h; simp
  · rw [if_pos (by linarith : -q < 0), if_neg (by linarith : ¬ q < 0)]; ring

theorem ratAbs_mul_self' (q : Rat) : ratAbsC02 q * ratAbsC02 q = q * q := by
  unfold ratAbsC02; split <;> ring

/-- both branches of `tangentVec` are the same expression -/
theorem tangentVec_eq (p c : Pt) (ch : Vec) :
    tangentVec p c ch =
      ⟨(-(p.y - c.y)) * ((forcedSign ch.x * ratSign (-(p.y - c.y)) : Int) : Rat),
       (p.x - c.x) * ((forcedSign ch.y * ratSign (p.x - c.x) : Int) : Rat)⟩ := by
  unfold tangentVec
  simp only []
  split
  · rfl
  · next h =>
    have h' := not_or.mp h
    have h1 : ratSign (-(p.y - c.y)) = forcedSign ch.x := not_not.mp h'.1
    have h2 : ratSign (p.x - c.x) = forcedSign ch.y := not_not.mp h'.2
    rw [h1, h2, forcedSign_mul_self, forcedSign_mul_self]
    simp

theorem tangentVec_abs' (p c : Pt) (ch : Vec) :
    tangentVec p c ch = ⟨ratAbsC02 (p.y - c.y) * (forcedSign ch.x : Int), ratAbsC02 (p.x - c.x) * (forcedSign ch.y : Int)⟩ := by
  rw [tangentVec_eq]
  apply Vec.ext' <;> simp only [Int.cast_mul]
  · rw [← ratAbs_neg' (p.y - c.y), ← mul_ratSign']; ring
  · rw [← mul_ratSign']; ring

theorem tangentVecDot_cases (p c : Pt) (ch : Vec) :
    (Vec.dot (Vec.perp (Vec.sub p c)) ch < 0 ∧ tangentVecDot p c ch = (Vec.perp (Vec.sub p c)).neg) ∨
    (0 ≤ Vec.dot (Vec.perp (Vec.sub p c)) ch ∧ tangentVecDot p c ch = Vec.perp (Vec.sub p c)) := by
  unfold tangentVecDot
  simp only [Vec.perp, Vec.sub]
  split
  · next h => left; exact ⟨h, rfl⟩
  · next h => right; exact ⟨not_lt.mp h, rfl⟩

theorem tangentVecDot_perp' (p c : Pt) (ch : Vec) : Vec.dot (tangentVecDot p c ch) (Vec.sub p c) = 0 := by
  rcases tangentVecDot_cases p c ch with ⟨_, e⟩ | ⟨_, e⟩ <;> rw [e] <;>
    simp only [Vec.dot, Vec.perp, Vec.sub, Vec.neg] <;> ring

theorem tangentVecDot_normSq' (p c : Pt) (ch : Vec) : (tangentVecDot p c ch).normSq = distSq p c := by
  rcases tangentVecDot_cases p c ch with ⟨_, e⟩ | ⟨_, e⟩ <;> rw [e] <;>
    simp only [Vec.normSq, Vec.perp, Vec.sub, Vec.neg, distSq] <;> ring

theorem dot_neg_left (a b : Vec) : Vec.dot a.neg b = - Vec.dot a b := by
  simp only [Vec.dot, Vec.neg]; ring

theorem tangentVecDot_along' (p c : Pt) (ch : Vec) : 0 ≤ Vec.dot (tangentVecDot p c ch) ch := by
  rcases tangentVecDot_cases p c ch with ⟨h, e⟩ | ⟨h, e⟩ <;> rw [e]
  · rw [dot_neg_left]; linarith
  · exact h

theorem tangentVecDot_along_strict' (p c : Pt) (ch : Vec)
    (h : Vec.dot (Vec.perp (Vec.sub p c)) ch ≠ 0) : 0 < Vec.dot (tangentVecDot p c ch) ch := by
  rcases tangentVecDot_cases p c ch with ⟨h', e⟩ | ⟨h', e⟩ <;> rw [e]
  · rw [dot_neg_left]; linarith
  · exact lt_of_le_of_ne h' (Ne.symm h)

theorem tangentVecDot_circle' (p q c : Pt) (_hq : distSq q c = distSq p c) (_hne : q ≠ p)
    (hanti : Vec.dot (Vec.perp (Vec.sub p c)) (Vec.sub q p) ≠ 0) :
    0 < Vec.dot (tangentVecDot p c (Vec.sub q p)) (Vec.sub q p) :=
  tangentVecDot_along_strict' p c _ hanti

theorem Pt.ext' {a b : Pt} (hx : a.x = b.x) (hy : a.y = b.y) : a = b := by
  cases a; cases b; simp_all

/-- a vector perpendicular to `r ≠ 0` and as long as `r` is `perp r` or `-perp r` -/
theorem perp_or_neg (w r : Vec) (hr : r.x ≠ 0 ∨ r.y ≠ 0)
    (h1 : Vec.dot w r = 0) (h2 : w.normSq = r.normSq) : w = Vec.perp r ∨ w = (Vec.perp r).neg := by
  simp only [Vec.dot, Vec.normSq] at h1 h2
  have hN : 0 < r.x * r.x + r.y * r.y := by
    rcases hr with h | h
    · have := mul_self_pos.mpr h; nlinarith [mul_self_nonneg r.y]
    · have := mul_self_pos.mpr h; nlinarith [mul_self_nonneg r.x]
  -- s = w · perp r
  have hs : (-(w.x * r.y) + w.y * r.x - (r.x * r.x + r.y * r.y)) *
      (-(w.x * r.y) + w.y * r.x + (r.x * r.x + r.y * r.y)) = 0 := by
    have : (-(w.x * r.y) + w.y * r.x) * (-(w.x * r.y) + w.y * r.x) + (w.x * r.x + w.y * r.y) * (w.x * r.x + w.y * r.y)
        = (w.x * w.x + w.y * w.y) * (r.x * r.x + r.y * r.y) := by ring
    rw [h1, h2] at this
    linarith [this]
  have ex : (r.x * r.x + r.y * r.y) * w.x = r.x * (w.x * r.x + w.y * r.y) - r.y * (-(w.x * r.y) + w.y * r.x) := by ring
  have ey : (r.x * r.x + r.y * r.y) * w.y = r.y * (w.x * r.x + w.y * r.y) + r.x * (-(w.x * r.y) + w.y * r.x) := by ring
  rw [h1] at ex ey
  rcases mul_eq_zero.mp hs with h | h
  · left
    have hs' : -(w.x * r.y) + w.y * r.x = r.x * r.x + r.y * r.y := by linarith
    rw [hs'] at ex ey
    apply Vec.ext' <;> simp only [Vec.perp]
    · apply mul_left_cancel₀ (ne_of_gt hN); linarith
    · apply mul_left_cancel₀ (ne_of_gt hN); linarith
  · right
    have hs' : -(w.x * r.y) + w.y * r.x = -(r.x * r.x + r.y * r.y) := by linarith
    rw [hs'] at ex ey
    apply Vec.ext' <;> simp only [Vec.perp, Vec.neg]
    · apply mul_left_cancel₀ (ne_of_gt hN); linarith
    · apply mul_left_cancel₀ (ne_of_gt hN); linarith

theorem tangentVecDot_unique' (p c : Pt) (ch w : Vec) (hpc : p ≠ c)
    (h1 : Vec.dot w (Vec.sub p c) = 0) (h2 : w.normSq = distSq p c) (h3 : 0 < Vec.dot w ch) :
    w = tangentVecDot p c ch := by
  have hr : (Vec.sub p c).x ≠ 0 ∨ (Vec.sub p c).y ≠ 0 := by
    by_contra hcon
    have hcon' := not_or.mp hcon
    apply hpc
    simp only [Vec.sub, ne_eq, not_not] at hcon'
    apply Pt.ext' <;> linarith [hcon'.1, hcon'.2]
  have h2' : w.normSq = (Vec.sub p c).normSq := by
    rw [h2]; simp only [Vec.normSq, Vec.sub, distSq]
  rcases perp_or_neg w _ hr h1 h2' with e | e
  · rcases tangentVecDot_cases p c ch with ⟨h, e'⟩ | ⟨h, e'⟩
    · rw [e] at h3; linarith
    · rw [e, e']
  · rcases tangentVecDot_cases p c ch with ⟨h, e'⟩ | ⟨h, e'⟩
    · rw [e, e']
    · rw [e, dot_neg_left] at h3; linarith

theorem tangentVec_normSq' (p c : Pt) (ch : Vec) : (tangentVec p c ch).normSq = distSq p c := by
  rw [tangentVec_abs']
  simp only [Vec.normSq, distSq]
  have hx := forcedSign_mul_self_rat ch.x
  have hy := forcedSign_mul_self_rat ch.y
  have ax := ratAbs_mul_self' (p.y - c.y)
  have ay := ratAbs_mul_self' (p.x - c.x)
  calc ratAbsC02 (p.y - c.y) * ↑(forcedSign ch.x) * (ratAbsC02 (p.y - c.y) * ↑(forcedSign ch.x)) +
        ratAbsC02 (p.x - c.x) * ↑(forcedSign ch.y) * (ratAbsC02 (p.x - c.x) * ↑(forcedSign ch.y))
      = (ratAbsC02 (p.y - c.y) * ratAbsC02 (p.y - c.y)) * ((forcedSign ch.x : Rat) * (forcedSign ch.x : Rat)) +
        (ratAbsC02 (p.x - c.x) * ratAbsC02 (p.x - c.x)) * ((forcedSign ch.y : Rat) * (forcedSign ch.y : Rat)) := by ring
    _ = _ := by rw [hx, hy, ax, ay]; ring

theorem eq_ratAbs_mul_ratSign (q : Rat) : q = ratAbsC02 q * (ratSign q : Rat) := by
  unfold ratAbsC02
  rcases ratSign_casesC02 q with ⟨h, e⟩ | ⟨h, e⟩ | ⟨h, e⟩
  · rw [e, if_neg (not_lt.mpr h.le)]; simp
  · rw [e, if_pos h]; simp
  · rw [e]; simp [h]

theorem tangentVecDot_x_cases (p c : Pt) (ch : Vec) :
    (tangentVecDot p c ch).x = p.y - c.y ∨ (tangentVecDot p c ch).x = -(p.y - c.y) := by
  rcases tangentVecDot_cases p c ch with ⟨_, e⟩ | ⟨_, e⟩ <;> rw [e] <;> simp [Vec.perp, Vec.neg, Vec.sub]

theorem tangentVecDot_y_cases (p c : Pt) (ch : Vec) :
    (tangentVecDot p c ch).y = p.x - c.x ∨ (tangentVecDot p c ch).y = -(p.x - c.x) := by
  rcases tangentVecDot_cases p c ch with ⟨_, e⟩ | ⟨_, e⟩ <;> rw [e] <;> simp [Vec.perp, Vec.neg, Vec.sub]

theorem ratAbs_eq_of_cases {t q : Rat} (h : t = q ∨ t = -q) : ratAbsC02 q = ratAbsC02 t := by
  rcases h with h | h <;> rw [h]
  rw [ratAbs_neg']

theorem comp_eq {t q : Rat} {s : Int} (hc : t = q ∨ t = -q) (h : t = 0 ∨ ratSign t = s) :
    ratAbsC02 q * (s : Rat) = t := by
  rw [ratAbs_eq_of_cases hc]
  rcases h with h | h
  · rw [h]; simp [ratAbsC02]
  · rw [← h]; exact (eq_ratAbs_mul_ratSign t).symm

theorem tangentVec_eq_dot_partial' (p c : Pt) (ch : Vec)
    (hx : (tangentVecDot p c ch).x = 0 ∨ ratSign (tangentVecDot p c ch).x = forcedSign ch.x)
    (hy : (tangentVecDot p c ch).y = 0 ∨ ratSign (tangentVecDot p c ch).y = forcedSign ch.y) :
    tangentVec p c ch = tangentVecDot p c ch := by
  rw [tangentVec_abs']
  apply Vec.ext'
  · exact comp_eq (tangentVecDot_x_cases p c ch) hx
  · exact comp_eq (tangentVecDot_y_cases p c ch) hy

theorem tangentVec_mirror_witness' :
    tangentVec ⟨63, -16⟩ ⟨0, 0⟩ ⟨-3, 41⟩ = ⟨-16, 63⟩ ∧ tangentVecDot ⟨63, -16⟩ ⟨0, 0⟩ ⟨-3, 41⟩ = ⟨16, 63⟩ := by
  decide +kernel

theorem chordAt_eq {ids : List Id} {pts : List Pt} {i0 i1 j0 j1 : Id} {ir jr : List Id}
    {p0 p1 q0 q1 : Pt} {pr qr : List Pt} (vid : Id)
    (h1 : ids = i0 :: i1 :: ir) (h2 : pts = p0 :: p1 :: pr)
    (h3 : ids.reverse = j0 :: j1 :: jr) (h4 : pts.reverse = q0 :: q1 :: qr) :
    chordAt ids pts vid = if i0 = vid then some (p0, Vec.sub p1 p0)
      else if j0 = vid then some (q0, Vec.sub q1 q0) else none := by
  subst h1 h2
  unfold chordAt
  simp only [h3, h4]

theorem exists_two {α : Type} (l : List α) (h : 2 ≤ l.length) : ∃ a b r, l = a :: b :: r := by
  match l, h with
  | a :: b :: r, _ => exact ⟨a, b, r, rfl⟩

theorem vectorFromVertex_reverse' (ids : List Id) (pts : List Pt) (c : Pt) (vid : Id)
    (hlen : ids.length = pts.length) (h2 : 2 ≤ ids.length) (hends : ids.head? ≠ ids.getLast?) :
    vectorFromVertex ids.reverse pts.reverse c vid = vectorFromVertex ids pts c vid := by
  obtain ⟨i0, i1, ir, hi⟩ := exists_two ids h2
  obtain ⟨p0, p1, pr, hp⟩ := exists_two pts (hlen ▸ h2)
  obtain ⟨j0, j1, jr, hj⟩ := exists_two ids.reverse (by simpa using h2)
  obtain ⟨q0, q1, qr, hq⟩ := exists_two pts.reverse (by simpa [← hlen] using h2)
  have hne : i0 ≠ j0 := by
    intro e
    apply hends
    rw [← List.head?_reverse, hj, hi, e]; rfl
  unfold vectorFromVertex
  rw [chordAt_eq vid hi hp hj hq,
    chordAt_eq vid hj hq (by rw [List.reverse_reverse]; exact hi) (by rw [List.reverse_reverse]; exact hp),
    List.length_reverse]
  by_cases ha : i0 = vid
  · have hb : ¬ j0 = vid := fun hb => hne (ha.trans hb.symm)
    simp [ha, hb]
  · by_cases hb : j0 = vid <;> simp [ha, hb]

theorem vectorFromVertex_two_points' (a b : Id) (pa pb c : Pt) (hab : a ≠ b) :
    vectorFromVertex [a, b] [pa, pb] c a = some (Vec.sub pb pa) ∧
    vectorFromVertex [a, b] [pa, pb] c b = some (Vec.sub pa pb) := by
  constructor
  · simp [vectorFromVertex, chordAt]
  · simp [vectorFromVertex, chordAt, hab]

namespace FMInput

theorem setAt_length' {α : Type} (l : List α) (i : Nat) (a : α) : (FMInput.setAt l i a).length = l.length := by
  simp [setAt]

theorem setAt_getElem' {α : Type} (l : List α) (i j : Nat) (a : α) (hj : j < l.length) :
    (FMInput.setAt l i a)[j]? = if j = i then some a else l[j]? := by
  simp only [setAt, List.getElem?_map]
  have h1 : (List.zip (List.range l.length) l)[j]? = some (j, l[j]) := by
    rw [List.getElem?_zip_eq_some]
    simp [hj]
  rw [h1]
  simp only [Option.map_some]
  split <;> simp [hj]

theorem foldl_length_inv {α β : Type} (f : List α → β → List α) (n : Nat)
    (hf : ∀ row b, row.length = n → (f row b).length = n) :
    ∀ (l : List β) (row : List α), row.length = n → (l.foldl f row).length = n := by
  intro l
  induction l with
  | nil => intro row h; simpa using h
  | cons b t ih => intro row h; simp only [List.foldl_cons]; exact ih _ (hf row b h)

theorem vertexEquation_length' (inp : FMInput) (earr used : List (List Id)) (vid : Id) :
    (inp.vertexEquation earr used vid).length = used.length := by
  unfold vertexEquation
  apply foldl_length_inv
  · intro row i h
    simp only []
    split
    · split
      · rw [setAt_length']; exact h
      · exact h
    · exact h
  · simp

theorem foldl_id {α β : Type} (f : α → β → α) (hf : ∀ a b, f a b = a) (l : List β) (a : α) :
    l.foldl f a = a := by
  induction l with
  | nil => rfl
  | cons b t ih => simp [hf, ih]

theorem vertexEquation_few_cells' (inp : FMInput) (earr used : List (List Id)) (vid : Id)
    (h : (inp.mesh.ownCells vid).length ≤ 2) :
    inp.vertexEquation earr used vid = used.map fun _ => none := by
  unfold vertexEquation
  apply foldl_id
  intro row i
  have : ¬ (inp.mesh.ownCells vid).length > 2 := by omega
  simp [this]

theorem placed_none {α : Type} (l : List α) : placed (l.map fun _ => none) = 0 := by
  induction l with
  | nil => rfl
  | cons a t _ => simp [placed]

theorem not_kept_few_cells' (inp : FMInput) (earr used : List (List Id)) (vid : Id) (ig : Bool)
    (h : (inp.mesh.ownCells vid).length ≤ 2) :
    FMInput.keepRow ig (inp.vertexEquation earr used vid) = false := by
  rw [vertexEquation_few_cells' inp earr used vid h]
  unfold keepRow
  rw [placed_none]
  simp

theorem keepRow_iff' (ig : Bool) (row : List (Option Vec)) :
    FMInput.keepRow ig row = true ↔ 3 ≤ FMInput.placed row ∧ (ig = true → FMInput.placed row < 4) := by
  cases ig <;> simp [keepRow]

theorem keepRow_T_witness' :
    FMInput.keepRowUpstream false [some ⟨1, 0⟩, some ⟨-1, 0⟩, some ⟨0, 1⟩] = false ∧
    FMInput.keepRow false [some ⟨1, 0⟩, some ⟨-1, 0⟩, some ⟨0, 1⟩] = true := by
  decide +kernel

theorem bothDeleted_nil (e : List Id) : bothDeleted [] e = false := by
  unfold bothDeleted
  split <;> simp

theorem used_no_limit' (inp : FMInput) (earr : List (List Id)) (h : inp.cosLimit = none) :
    inp.used earr = (inp.mesh.internalIdx earr).map fun i => earr.getD i [] := by
  have hex : ∀ v, inp.exceeds earr v = false := by
    intro v; unfold exceeds; rw [h]
  have hdel : inp.deletes earr = [] := by
    unfold deletes
    simp [hex]
  unfold used
  simp only [hdel, bothDeleted_nil]
  simp

theorem build_rows_width' (inp : FMInput) :
    ∀ r ∈ inp.build.rows, r.2.2.length = inp.build.used.length := by
  intro r hr
  simp only [build, List.mem_map] at hr
  obtain ⟨vid, _, rfl⟩ := hr
  simp only [build]
  exact vertexEquation_length' _ _ _ _

end FMInput
end Forsys
