/- helper lemmas for Props/C02more.lean -/
import ForsysModel.Proofs.C02matrix
import Mathlib.Tactic.Ring
import Mathlib.Tactic.Linarith
import Mathlib.Algebra.Order.Field.Rat
import Mathlib.Tactic.NormNum
namespace Forsys

/-- rotation by the angle with cosine `a` and sine `b` (a rotation when `a² + b² = 1`) -/
def c02_rotP (a b : Rat) (p : Pt) : Pt := ⟨a * p.x - b * p.y, b * p.x + a * p.y⟩
def c02_rotV (a b : Rat) (v : Vec) : Vec := ⟨a * v.x - b * v.y, b * v.x + a * v.y⟩
/-- mirror image in the x-axis -/
def c02_flipP (p : Pt) : Pt := ⟨p.x, -p.y⟩
def c02_flipV (v : Vec) : Vec := ⟨v.x, -v.y⟩
def c02_shiftP (t : Vec) (p : Pt) : Pt := ⟨p.x + t.x, p.y + t.y⟩
def c02_scaleP (k : Rat) (p : Pt) : Pt := ⟨k * p.x, k * p.y⟩

theorem forcedSign_pos_mul (k q : Rat) (hk : 0 < k) : forcedSign (k * q) = forcedSign q := by
  rcases forcedSign_cases q with ⟨h, e⟩ | ⟨h, e⟩ <;>
  rcases forcedSign_cases (k * q) with ⟨h', e'⟩ | ⟨h', e'⟩
  · rw [e, e']
  · exact absurd (mul_nonneg hk.le h) (not_le.mpr h')
  · exact absurd (mul_neg_of_pos_of_neg hk h) (not_lt.mpr h')
  · rw [e, e']

theorem forcedSign_neg (q : Rat) (hq : q ≠ 0) : forcedSign (-q) = - forcedSign q := by
  rcases forcedSign_cases q with ⟨h, e⟩ | ⟨h, e⟩ <;>
  rcases forcedSign_cases (-q) with ⟨h', e'⟩ | ⟨h', e'⟩
  · exact absurd (le_antisymm (by linarith) h) hq
  · rw [e, e']
  · rw [e, e']; rfl
  · linarith

theorem ratAbs_pos_mul (k q : Rat) (hk : 0 < k) : ratAbsC02 (k * q) = k * ratAbsC02 q := by
  unfold ratAbsC02
  by_cases h : q < 0
  · rw [if_pos h, if_pos (mul_neg_of_pos_of_neg hk h)]; ring
  · rw [if_neg h, if_neg (not_lt.mpr (mul_nonneg hk.le (not_lt.mp h)))]

theorem ratAbs_nonneg' (q : Rat) : 0 ≤ ratAbsC02 q := by
  unfold ratAbsC02
  split <;> linarith

theorem tangentVec_congr_sign (p c : Pt) (ch ch' : Vec) (hx : forcedSign ch.x = forcedSign ch'.x)
    (hy : forcedSign ch.y = forcedSign ch'.y) : tangentVec p c ch = tangentVec p c ch' := by
  rw [tangentVec_eq, tangentVec_eq, hx, hy]

theorem sign_of_abs_mul (A : Rat) (s : Int) (hA : 0 ≤ A) (hs : s = 1 ∨ s = -1) :
    A * (s : Rat) = 0 ∨ ratSign (A * (s : Rat)) = s := by
  rcases hA.lt_or_eq with h | h
  · right
    rcases hs with rfl | rfl
    · rcases ratSign_casesC02 (A * ((1 : Int) : Rat)) with ⟨_, e⟩ | ⟨h', _⟩ | ⟨h', _⟩
      · exact e
      · simp at h'; linarith
      · simp at h'; linarith
    · rcases ratSign_casesC02 (A * ((-1 : Int) : Rat)) with ⟨h', _⟩ | ⟨_, e⟩ | ⟨h', _⟩
      · simp at h'; linarith
      · exact e
      · simp at h'; linarith
  · left; rw [← h]; ring

theorem forcedSign_pm (q : Rat) : forcedSign q = 1 ∨ forcedSign q = -1 := by
  rcases forcedSign_cases q with ⟨_, e⟩ | ⟨_, e⟩
  · exact Or.inl e
  · exact Or.inr e

theorem nodup_eraseDupsC02 {β : Type} [BEq β] [LawfulBEq β] (l : List β) : l.eraseDups.Nodup := by
  induction h : l.length using Nat.strong_induction_on generalizing l with
  | _ n ih =>
    cases l with
    | nil => simp
    | cons a as =>
      rw [List.eraseDups_cons, List.nodup_cons]
      refine ⟨?_, ?_⟩
      · rw [List.mem_eraseDups]; simp
      · subst h
        exact ih _ (Nat.lt_succ_of_le (List.length_filter_le _ _)) _ rfl

namespace FMInput

theorem build_rows_map_fst (inp : FMInput) : inp.build.rows.map (·.1) = endsOf inp.build.used := by
  simp only [build, List.map_map]
  exact List.map_id' _

theorem chordAt_some_of_end (ids : List Id) (pts : List Pt) (vid : Id)
    (hlen : ids.length = pts.length) (h2 : 2 ≤ ids.length) (h : endsAt ids vid = true) :
    (chordAt ids pts vid).isSome = true := by
  obtain ⟨i0, i1, ir, hi⟩ := exists_two ids h2
  obtain ⟨p0, p1, pr, hp⟩ := exists_two pts (hlen ▸ h2)
  obtain ⟨j0, j1, jr, hj⟩ := exists_two ids.reverse (by simpa using h2)
  obtain ⟨q0, q1, qr, hq⟩ := exists_two pts.reverse (by simpa [← hlen] using h2)
  rw [chordAt_eq vid hi hp hj hq]
  by_cases ha : i0 = vid
  · simp [ha]
  · rw [if_neg ha]
    have hb : j0 = vid := by
      unfold endsAt at h
      rw [List.getLast?_eq_head?_reverse, hj, hi] at h
      simpa [ha] using h
    simp [hb]

end FMInput
end Forsys
