/- helper lemmas for Props/C08.lean -/
import ForsysModel.Model.BigEdges
namespace Forsys
variable {α : Type}

/-- group shape: junction followed by non-junctions -/
def GShape (isJ : α → Bool) (g : List α) : Prop :=
  ∃ a rest, g = a :: rest ∧ isJ a = true ∧ ∀ b ∈ rest, isJ b = false

theorem splitAux_flatten' (isJ : α → Bool) (l : List α) :
    (splitAux isJ l).1 ++ (splitAux isJ l).2.flatten = l := by
  induction l with
  | nil => simp [splitAux]
  | cons a rest ih =>
    simp only [splitAux]
    split <;> simp [ih]

theorem splitAux_lead_nonJ' (isJ : α → Bool) (l : List α) :
    ∀ a ∈ (splitAux isJ l).1, isJ a = false := by
  induction l with
  | nil => simp [splitAux]
  | cons a rest ih =>
    simp only [splitAux]
    split
    · simp
    · intro b hb
      simp at hb
      rcases hb with rfl | hb
      · rename_i h; simpa using h
      · exact ih b hb

theorem splitAux_groups_shape' (isJ : α → Bool) (l : List α) :
    ∀ g ∈ (splitAux isJ l).2, GShape isJ g := by
  induction l with
  | nil => simp [splitAux]
  | cons a rest ih =>
    simp only [splitAux]
    split
    · intro g hg
      simp at hg
      rcases hg with rfl | hg
      · exact ⟨a, _, rfl, ‹_›, splitAux_lead_nonJ' isJ rest⟩
      · exact ih g hg
    · exact ih

theorem splitAux_nonJ (isJ : α → Bool) (l : List α) (h : ∀ a ∈ l, isJ a = false) :
    splitAux isJ l = (l, []) := by
  induction l with
  | nil => simp [splitAux]
  | cons a rest ih =>
    have h1 := h a (by simp)
    have h2 := ih (fun b hb => h b (by simp [hb]))
    simp [splitAux, h1, h2]

theorem splitAux_nonJ_append (isJ : α → Bool) (l m : List α) (h : ∀ a ∈ l, isJ a = false) :
    splitAux isJ (l ++ m) = (l ++ (splitAux isJ m).1, (splitAux isJ m).2) := by
  induction l with
  | nil => simp
  | cons a rest ih =>
    have h1 := h a (by simp)
    have h2 := ih (fun b hb => h b (by simp [hb]))
    simp [splitAux, h1, h2]

/-- append `m` to the last group -/
def appendLast : List (List α) → List α → List (List α)
  | [], _ => []
  | [g], m => [g ++ m]
  | g :: g' :: gs, m => g :: appendLast (g' :: gs) m

theorem appendLast_nil : ∀ gs : List (List α), appendLast gs [] = gs
  | [] => rfl
  | [g] => by simp [appendLast]
  | g :: g' :: gs => by simp [appendLast, appendLast_nil (g' :: gs)]

theorem appendLast_flatten (gs : List (List α)) (m : List α) (h : gs ≠ []) :
    (appendLast gs m).flatten = gs.flatten ++ m := by
  fun_induction appendLast gs m <;> simp_all

theorem appendLast_eq_nil (gs : List (List α)) (m : List α) :
    appendLast gs m = [] ↔ gs = [] := by
  fun_induction appendLast gs m <;> simp_all

theorem appendLast_shape (isJ : α → Bool) (gs : List (List α)) (m : List α)
    (hg : ∀ g ∈ gs, GShape isJ g) (hm : ∀ a ∈ m, isJ a = false) :
    ∀ g ∈ appendLast gs m, GShape isJ g := by
  fun_induction appendLast gs m with
  | case1 => simp
  | case2 g m =>
    intro g' hg'
    simp at hg'
    subst hg'
    obtain ⟨a, rest, rfl, ha, hr⟩ := hg g (by simp)
    refine ⟨a, rest ++ m, by simp, ha, ?_⟩
    intro b hb
    simp at hb
    rcases hb with hb | hb
    · exact hr b hb
    · exact hm b hb
  | case3 g g' gs m ih =>
    intro x hx
    simp only [List.mem_cons] at hx
    rcases hx with rfl | hx
    · exact hg _ (by simp)
    · exact ih (fun y hy => hg y (by simp [hy])) hm x (by simpa using hx)

/-- splitting the concatenation of well-shaped groups followed by a non-junction tail -/
theorem splitAux_groups_tail (isJ : α → Bool) (gs : List (List α)) (m : List α)
    (hg : ∀ g ∈ gs, GShape isJ g) (hm : ∀ a ∈ m, isJ a = false) :
    splitAux isJ (gs.flatten ++ m) = if gs = [] then (m, []) else ([], appendLast gs m) := by
  induction gs with
  | nil => simp [splitAux_nonJ isJ m hm]
  | cons g gs ih =>
    obtain ⟨a, rest, rfl, ha, hr⟩ := hg g (by simp)
    have ih' := ih (fun y hy => hg y (by simp [hy]))
    simp only [List.flatten_cons, List.cons_append, List.append_assoc, splitAux, ha, if_true]
    rw [splitAux_nonJ_append isJ rest _ hr, ih']
    cases gs with
    | nil => simp [appendLast]
    | cons g' gs => simp [appendLast]

theorem cellGroups_eq (isJ : α → Bool) (cyc : List α) :
    cellGroups isJ cyc = appendLast (splitAux isJ cyc).2 (splitAux isJ cyc).1 := by
  cases cyc with
  | nil => simp [cellGroups, splitAux, appendLast]
  | cons a rest =>
    by_cases ha : isJ a = true
    · simp [cellGroups, splitAux, ha, appendLast_nil]
    · have := splitAux_groups_tail isJ (splitAux isJ (a :: rest)).2 (splitAux isJ (a :: rest)).1
        (splitAux_groups_shape' isJ _) (splitAux_lead_nonJ' isJ _)
      have ha' : isJ a = false := by simpa using ha
      simp only [cellGroups, ha']
      rw [this]
      by_cases h : (splitAux isJ (a :: rest)).2 = []
      · simp [h, appendLast]
      · simp [h]

theorem splitAux_groups_ne_nil (isJ : α → Bool) (l : List α) (h : ∃ a ∈ l, isJ a = true) :
    (splitAux isJ l).2 ≠ [] := by
  intro hnil
  obtain ⟨a, ha, hj⟩ := h
  have hf := splitAux_flatten' isJ l
  rw [hnil] at hf
  simp at hf
  have := splitAux_lead_nonJ' isJ l a (by rw [hf]; exact ha)
  simp [hj] at this

/-- structural version of `closeUp` for non-empty groups -/
def closeAux (first : α) : List (List α) → List (List α)
  | [] => []
  | g :: gs => (g ++ [(gs.head?.bind List.head?).getD first]) :: closeAux first gs

def closeF (groups : List (List α)) (i : Nat) : Option (List α) :=
  match groups[i]?, ((groups.map (·.head?))[(i + 1) % groups.length]?).join with
  | some g, some h => some (g ++ [h])
  | _, _ => none

theorem closeUp_eq_closeF (groups : List (List α)) :
    closeUp groups = (List.range groups.length).filterMap (closeF groups) := rfl

theorem closeF_val (f : α) (g : List α) (pre rest : List (List α))
    (hne : ∀ x ∈ pre ++ g :: rest, x ≠ [])
    (hf : (pre ++ g :: rest).head?.bind List.head? = some f) :
    closeF (pre ++ g :: rest) pre.length = some (g ++ [(rest.head?.bind List.head?).getD f]) := by
  unfold closeF
  cases rest with
  | nil =>
    simp
    have : (List.map (fun x => x.head?) pre ++ [g.head?])[0] = some f := by
      cases pre with
      | nil => simpa using hf
      | cons p pre => simpa using hf
    rw [this]
  | cons g' rest =>
    simp
    have hmod : (pre.length + 1) % (pre.length + (rest.length + 1 + 1)) = pre.length + 1 :=
      Nat.mod_eq_of_lt (by omega)
    rw [hmod]
    have hg' : g' ≠ [] := hne g' (by simp)
    obtain ⟨x, t, rfl⟩ := List.exists_cons_of_ne_nil hg'
    have : (List.map (fun x => x.head?) pre ++
            g.head? :: (x :: t).head? :: List.map (fun x => x.head?) rest)[pre.length + 1]? = some (some x) := by
      rw [List.getElem?_append_right (by simp)]
      simp
    rw [this]
    simp

theorem closeUp_aux (f : α) (groups suf pre : List (List α)) (hG : groups = pre ++ suf)
    (hne : ∀ g ∈ groups, g ≠ [])
    (hf : groups.head?.bind List.head? = some f) :
    (List.range' pre.length suf.length).filterMap (closeF groups) = closeAux f suf := by
  induction suf generalizing pre with
  | nil => simp [closeAux]
  | cons g rest ih =>
    have ih' := ih (pre ++ [g]) (by simp [hG])
    simp only [List.length_append, List.length_cons, List.length_nil] at ih'
    simp only [List.length_cons, List.range'_succ, List.filterMap_cons, closeAux]
    have hv : closeF groups pre.length = some (g ++ [(rest.head?.bind List.head?).getD f]) := by
      subst hG
      exact closeF_val f g pre rest hne hf
    rw [hv]
    simp only [← ih']

theorem closeUp_eq_closeAux (g : List α) (gs : List (List α)) (a : α) (r : List α) (hg : g = a :: r)
    (hne : ∀ x ∈ g :: gs, x ≠ []) :
    closeUp (g :: gs) = closeAux a (g :: gs) := by
  rw [closeUp_eq_closeF, List.range_eq_range']
  exact closeUp_aux a (g :: gs) (g :: gs) [] rfl hne (by simp [hg])

theorem cellGroups_shape' (isJ : α → Bool) (cyc : List α) :
    ∀ g ∈ cellGroups isJ cyc, GShape isJ g := by
  rw [cellGroups_eq]
  exact appendLast_shape isJ _ _ (splitAux_groups_shape' isJ cyc) (splitAux_lead_nonJ' isJ cyc)

theorem GShape.ne_nil {isJ : α → Bool} {g : List α} (h : GShape isJ g) : g ≠ [] := by
  obtain ⟨a, r, rfl, _⟩ := h
  simp

theorem cellPaths_cases (isJ : α → Bool) (cyc : List α) :
    (cellGroups isJ cyc = [] ∧ cellPaths isJ cyc = []) ∨
    ∃ a r gs, cellGroups isJ cyc = (a :: r) :: gs ∧ isJ a = true ∧
      cellPaths isJ cyc = closeAux a ((a :: r) :: gs) := by
  have hs := cellGroups_shape' isJ cyc
  unfold cellPaths
  cases hG : cellGroups isJ cyc with
  | nil => left; exact ⟨rfl, rfl⟩
  | cons g gs =>
    right
    rw [hG] at hs
    obtain ⟨a, r, rfl, ha, hr⟩ := hs g (by simp)
    exact ⟨a, r, gs, rfl, ha, closeUp_eq_closeAux _ gs a r rfl (fun x hx => (hs x hx).ne_nil)⟩

theorem nextHead_isJ (isJ : α → Bool) (f : α) (hf : isJ f = true) (gs : List (List α))
    (hs : ∀ g ∈ gs, GShape isJ g) : isJ ((gs.head?.bind List.head?).getD f) = true := by
  cases gs with
  | nil => simpa using hf
  | cons g gs =>
    obtain ⟨a, r, rfl, ha, _⟩ := hs g (by simp)
    simpa using ha

theorem closeAux_ends (isJ : α → Bool) (f : α) (hf : isJ f = true) (gs : List (List α))
    (hs : ∀ g ∈ gs, GShape isJ g) :
    ∀ p ∈ closeAux f gs, ∃ a mid b, p = a :: (mid ++ [b]) ∧ isJ a = true ∧ isJ b = true ∧
      ∀ c ∈ mid, isJ c = false := by
  induction gs with
  | nil => simp [closeAux]
  | cons g gs ih =>
    intro p hp
    simp only [closeAux, List.mem_cons] at hp
    rcases hp with rfl | hp
    · obtain ⟨a, r, rfl, ha, hr⟩ := hs g (by simp)
      exact ⟨a, r, _, by simp, ha, nextHead_isJ isJ f hf gs (fun x hx => hs x (by simp [hx])), hr⟩
    · exact ih (fun x hx => hs x (by simp [hx])) p hp

theorem closeAux_cover (f : α) (gs : List (List α)) :
    ((closeAux f gs).map List.dropLast).flatten = gs.flatten := by
  induction gs with
  | nil => simp [closeAux]
  | cons g gs ih => simp [closeAux, ih]

/-- consecutive pairs of `l` followed by the pair (last of `l`, `x`) -/
def pairsTo (l : List α) (x : α) : List (α × α) := List.zip l (l.tail ++ [x])

theorem pairsTo_nil (x : α) : pairsTo ([] : List α) x = [] := rfl

theorem pairsTo_cons (a : α) (l : List α) (x : α) :
    pairsTo (a :: l) x = (a, l.head?.getD x) :: pairsTo l x := by
  cases l <;> simp [pairsTo]

theorem pairsTo_append (l1 l2 : List α) (x : α) :
    pairsTo (l1 ++ l2) x = pairsTo l1 (l2.head?.getD x) ++ pairsTo l2 x := by
  induction l1 with
  | nil => simp [pairsTo_nil]
  | cons a t ih =>
    rw [List.cons_append, pairsTo_cons, pairsTo_cons, ih]
    cases t <;> simp

theorem zip_tail_concat (g : List α) (h : α) :
    List.zip (g ++ [h]) (g ++ [h]).tail = pairsTo g h := by
  induction g with
  | nil => simp [pairsTo]
  | cons a t ih =>
    cases t with
    | nil => simp [pairsTo]
    | cons b t =>
      rw [pairsTo_cons]
      simp at ih ⊢
      exact ih

theorem cyclicPairs_cons (a : α) (l : List α) : cyclicPairs (a :: l) = pairsTo (a :: l) a := rfl

theorem flatten_head? (gs : List (List α)) (hne : ∀ g ∈ gs, g ≠ []) :
    gs.flatten.head? = gs.head?.bind List.head? := by
  cases gs with
  | nil => simp
  | cons g gs =>
    obtain ⟨x, t, rfl⟩ := List.exists_cons_of_ne_nil (hne g (by simp))
    simp

theorem closeAux_pairs (f : α) (gs : List (List α)) (hne : ∀ g ∈ gs, g ≠ []) :
    ((closeAux f gs).map fun p => List.zip p p.tail).flatten = pairsTo gs.flatten f := by
  induction gs with
  | nil => simp [closeAux, pairsTo_nil]
  | cons g gs ih =>
    have hne' : ∀ x ∈ gs, x ≠ [] := fun x hx => hne x (by simp [hx])
    simp only [closeAux, List.map_cons, List.flatten_cons, zip_tail_concat, ih hne',
      pairsTo_append, flatten_head? gs hne']

theorem cyclicPairs_rotation_perm' (l1 l2 : List α) :
    (cyclicPairs (l2 ++ l1)).Perm (cyclicPairs (l1 ++ l2)) := by
  cases l1 with
  | nil => simp
  | cons a l1 =>
    cases l2 with
    | nil => simp
    | cons b l2 =>
      rw [List.cons_append, List.cons_append, cyclicPairs_cons, cyclicPairs_cons,
        ← List.cons_append, ← List.cons_append, pairsTo_append, pairsTo_append]
      simp only [List.head?_cons, Option.getD_some]
      exact List.perm_append_comm

/-! ### dedup -/
section dedup
variable [DecidableEq α]

def dedupStep (out : List (List α)) (e : List α) : List (List α) :=
  if out.contains e.reverse || out.contains e then out else out ++ [e]

theorem dedup_eq (ps : List (List α)) : dedup ps = ps.foldl dedupStep [] := rfl

theorem dedupStep_mono (out : List (List α)) (e p : List α) (h : p ∈ out) : p ∈ dedupStep out e := by
  unfold dedupStep; split <;> simp [h]

theorem foldl_dedupStep_mono (ps out : List (List α)) (p : List α) (h : p ∈ out) :
    p ∈ ps.foldl dedupStep out := by
  induction ps generalizing out with
  | nil => simpa using h
  | cons e ps ih => exact ih _ (dedupStep_mono out e p h)

theorem foldl_dedupStep_sub (ps out : List (List α)) :
    ∀ p ∈ ps.foldl dedupStep out, p ∈ out ∨ p ∈ ps := by
  induction ps generalizing out with
  | nil => simp
  | cons e ps ih =>
    intro p hp
    rcases ih _ p hp with h | h
    · unfold dedupStep at h
      split at h
      · exact Or.inl h
      · simp at h
        rcases h with h | h
        · exact Or.inl h
        · right; simp [h]
    · right; simp [h]

theorem foldl_dedupStep_pairwise (ps out : List (List α))
    (h : out.Pairwise (fun a b => a ≠ b ∧ a.reverse ≠ b)) :
    (ps.foldl dedupStep out).Pairwise (fun a b => a ≠ b ∧ a.reverse ≠ b) := by
  induction ps generalizing out with
  | nil => simpa using h
  | cons e ps ih =>
    apply ih
    unfold dedupStep
    split
    · exact h
    · rename_i hc
      simp at hc
      rw [List.pairwise_append]
      refine ⟨h, by simp, ?_⟩
      intro a ha b hb
      simp at hb
      subst hb
      constructor
      · rintro rfl; exact hc.2 ha
      · rintro rfl; apply hc.1; simpa using ha

theorem foldl_dedupStep_complete (ps out : List (List α)) :
    ∀ p, (p ∈ out ∨ p.reverse ∈ out ∨ p ∈ ps) →
      p ∈ ps.foldl dedupStep out ∨ p.reverse ∈ ps.foldl dedupStep out := by
  induction ps generalizing out with
  | nil => intro p hp; simpa using hp
  | cons e ps ih =>
    intro p hp
    apply ih
    rcases hp with h | h | h
    · exact Or.inl (dedupStep_mono _ _ _ h)
    · exact Or.inr (Or.inl (dedupStep_mono _ _ _ h))
    · simp at h
      rcases h with rfl | h
      · unfold dedupStep
        split
        · rename_i hc
          simp at hc
          rcases hc with hc | hc
          · exact Or.inr (Or.inl hc)
          · exact Or.inl hc
        · left; simp
      · exact Or.inr (Or.inr h)

end dedup

/-! ### classification -/

theorem indexOf?_some_getElem? {β : Type} [DecidableEq β] (a : β) (l : List β) (i : Nat)
    (h : indexOf? a l = some i) : l[i]? = some a := by
  induction l generalizing i with
  | nil => simp [indexOf?] at h
  | cons b l ih =>
    unfold indexOf? at h
    split at h
    · simp at h; subst h; simp [*]
    · simp at h
      obtain ⟨j, hj, rfl⟩ := h
      simpa using ih j hj

theorem indexOf?_getElem {β : Type} [DecidableEq β] (l : List β) (hn : l.Nodup) (i : Nat) (hi : i < l.length) :
    indexOf? l[i] l = some i := by
  induction l generalizing i with
  | nil => simp at hi
  | cons b l ih =>
    rw [List.nodup_cons] at hn
    cases i with
    | zero => simp [indexOf?]
    | succ j =>
      simp at hi
      have hne : l[j] ≠ b := by
        intro h; apply hn.1; rw [← h]; exact List.getElem_mem _
      simp [indexOf?, hne, ih hn.2 j hi]

namespace Mesh

def isBorder (m : Mesh) (e : List Id) : Bool := e.any fun v => decide ((m.ownCells v).length < 2)

theorem mem_externalEdgesId (m : Mesh) (earr : List (List Id)) (hn : earr.Nodup) (i : Nat)
    (hi : i < earr.length) :
    i ∈ m.externalEdgesId earr ↔ m.isBorder (earr.getD i []) = true := by
  have hget : earr.getD i [] = earr[i] := by simp [List.getD, hi]
  rw [hget]
  unfold externalEdgesId borderEdges
  simp only [List.mem_filterMap, List.mem_filter]
  constructor
  · rintro ⟨e, ⟨he, hb⟩, hidx⟩
    have := indexOf?_some_getElem? e earr i hidx
    rw [List.getElem?_eq_getElem hi] at this
    simp at this
    rw [this]; exact hb
  · intro hb
    exact ⟨earr[i], ⟨List.getElem_mem _, hb⟩, indexOf?_getElem earr hn i hi⟩

/-- `BigEdge.own_cells` of an interface that does not have exactly two vertices is the cell list of the vertex at
    position `(len − 1) / 2` -/
theorem bigEdgeOwnCells_mid (m : Mesh) (e : List Id) (hlen : e.length ≠ 2) (hi : (e.length - 1) / 2 < e.length) :
    m.bigEdgeOwnCells e = m.ownCells (e[(e.length - 1) / 2]'hi) := by
  have h2 : (e.length == 2) = false := by simpa using hlen
  unfold Mesh.bigEdgeOwnCells
  rw [h2]
  simp [List.getD_eq_getElem?_getD, hi]

end Mesh

end Forsys
