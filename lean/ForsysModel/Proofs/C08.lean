/- helper lemmas for Props/C08.lean -/
import ForsysModel.Model.BigEdges
import ForsysModel.Proofs.C09
namespace Forsys
variable {α : Type}

/-- group shape: junction followed by non-junctions -/
def GShape (isJ : α → Bool) (g : List α) : Prop :=
  ∃ a rest, g = a :: rest ∧ isJ a = true ∧ ∀ b ∈ rest, isJ b = false

theorem splitAux_flatten' (isJ : α → Bool) (l : List α) :
    (splitAux isJ l).1 ++ (splitAux isJ l).2.flatten = l := by
  induction l with
  | nil => simp [splitAux]
  | cons a rest ih =>
    simp only [splitAux]
    split <;> simp [ih]

theorem splitAux_lead_nonJ' (isJ : α → Bool) (l : List α) :
    ∀ a ∈ (splitAux isJ l).1, isJ a = false := by
  induction l with
  | nil => simp [splitAux]
  | cons a rest ih =>
    simp only [splitAux]
    split
    · simp
    · intro b hb
      simp at hb
      rcases hb with rfl | hb
      · rename_i h; simpa using h
      · exact ih b hb

theorem splitAux_groups_shape' (isJ : α → Bool) (l : List α) :
    ∀ g ∈ (splitAux isJ l).2, GShape isJ g := by
  induction l with
  | nil => simp [splitAux]
  | cons a rest ih =>
    simp only [splitAux]
    split
    · intro g hg
      simp at hg
      rcases hg with rfl | hg
      · exact ⟨a, _, rfl, ‹_›, splitAux_lead_nonJ' isJ rest⟩
      · exact ih g hg
    · exact ih

theorem splitAux_nonJ (isJ : α → Bool) (l : List α) (h : ∀ a ∈ l, isJ a = false) :
    splitAux isJ l = (l, []) := by
  induction l with
  | nil => simp [splitAux]
  | cons a rest ih =>
    have h1 := h a (by simp)
    have h2 := ih (fun b hb => h b (by simp [hb]))
    simp [splitAux, h1, h2]

theorem splitAux_nonJ_append (isJ : α → Bool) (l m : List α) (h : ∀ a ∈ l, isJ a = false) :
    splitAux isJ (l ++ m) = (l ++ (splitAux isJ m).1, (splitAux isJ m).2) := by
  induction l with
  | nil => simp
  | cons a rest ih =>
    have h1 := h a (by simp)
    have h2 := ih (fun b hb => h b (by simp [hb]))
    simp [splitAux, h1, h2]

/-- append `m` to the last group -/
def appendLast : List (List α) → List α → List (List α)
  | [], _ => []
  | [g], m => [g ++ m]
  | g :: g' :: gs, m => g :: appendLast (g' :: gs) m

theorem appendLast_nil : ∀ gs : List (List α), appendLast gs [] = gs
  | [] => rfl
  | [g] => by simp [appendLast]
  | g :: g' :: gs => by simp [appendLast, appendLast_nil (g' :: gs)]

theorem appendLast_flatten (gs : List (List α)) (m : List α) (h : gs ≠ []) :
    (appendLast gs m).flatten = gs.flatten ++ m := by
  fun_induction appendLast gs m <;> simp_all

theorem appendLast_eq_nil (gs : List (List α)) (m : List α) :
    appendLast gs m = [] ↔ gs = [] := by
  fun_induction appendLast gs m <;> simp_all

theorem appendLast_shape (isJ : α → Bool) (gs : List (List α)) (m : List α)
    (hg : ∀ g ∈ gs, GShape isJ g) (hm : ∀ a ∈ m, isJ a = false) :
    ∀ g ∈ appendLast gs m, GShape isJ g := by
  fun_induction appendLast gs m with
  | case1 => simp
  | case2 g m =>
    intro g' hg'
    simp at hg'
    subst hg'
    obtain ⟨a, rest, rfl, ha, hr⟩ := hg g (by simp)
    refine ⟨a, rest ++ m, by simp, ha, ?_⟩
    intro b hb
    simp at hb
    rcases hb with hb | hb
    · exact hr b hb
    · exact hm b hb
  | case3 g g' gs m ih =>
    intro x hx
    simp only [List.mem_cons] at hx
    rcases hx with rfl | hx
    · exact hg _ (by simp)
    · exact ih (fun y hy => hg y (by simp [hy])) hm x (by simpa using hx)

/-- splitting the concatenation of well-shaped groups followed by a non-junction tail -/
theorem splitAux_groups_tail (isJ : α → Bool) (gs : List (List α)) (m : List α)
    (hg : ∀ g ∈ gs, GShape isJ g) (hm : ∀ a ∈ m, isJ a = false) :
    splitAux isJ (gs.flatten ++ m) = if gs = [] then (m, []) else ([], appendLast gs m) := by
  induction gs with
  | nil => simp [splitAux_nonJ isJ m hm]
  | cons g gs ih =>
    obtain ⟨a, rest, rfl, ha, hr⟩ := hg g (by simp)
    have ih' := ih (fun y hy => hg y (by simp [hy]))
    simp only [List.flatten_cons, List.cons_append, List.append_assoc, splitAux, ha, if_true]
    rw [splitAux_nonJ_append isJ rest _ hr, ih']
    cases gs with
    | nil => simp [appendLast]
    | cons g' gs => simp [appendLast]

theorem cellGroups_eq (isJ : α → Bool) (cyc : List α) :
    cellGroups isJ cyc = appendLast (splitAux isJ cyc).2 (splitAux isJ cyc).1 := by
  cases cyc with
  | nil => simp [cellGroups, splitAux, appendLast]
  | cons a rest =>
    by_cases ha : isJ a = true
    · simp [cellGroups, splitAux, ha, appendLast_nil]
    · have := splitAux_groups_tail isJ (splitAux isJ (a :: rest)).2 (splitAux isJ (a :: rest)).1
        (splitAux_groups_shape' isJ _) (splitAux_lead_nonJ' isJ _)
      have ha' : isJ a = false := by simpa using ha
      simp only [cellGroups, ha']
      rw [this]
      by_cases h : (splitAux isJ (a :: rest)).2 = []
      · simp [h, appendLast]
      · simp [h]

theorem splitAux_groups_ne_nil (isJ : α → Bool) (l : List α) (h : ∃ a ∈ l, isJ a = true) :
    (splitAux isJ l).2 ≠ [] := by
  intro hnil
  obtain ⟨a, ha, hj⟩ := h
  have hf := splitAux_flatten' isJ l
  rw [hnil] at hf
  simp at hf
  have := splitAux_lead_nonJ' isJ l a (by rw [hf]; exact ha)
  simp [hj] at this

/-- structural version of `closeUp` for non-empty groups -/
def closeAux (first : α) : List (List α) → List (List α)
  | [] => []
  | g :: gs => (g ++ [(gs.head?.bind List.head?).getD first]) :: closeAux first gs

def closeF (groups : List (List α)) (i : Nat) : Option (List α) :=
  match groups[i]?, ((groups.map (·.head?))[(i + 1) % groups.length]?).join with
  | some g, some h => some (g ++ [h])
  | _, _ => none

theorem closeUp_eq_closeF (groups : List (List α)) :
    closeUp groups = (List.range groups.length).filterMap (closeF groups) := rfl

theorem closeF_val (f : α) (g : List α) (pre rest : List (List α))
    (hne : ∀ x ∈ pre ++ g :: rest, x ≠ [])
    (hf : (pre ++ g :: rest).head?.bind List.head? = some f) :
    closeF (pre ++ g :: rest) pre.length = some (g ++ [(rest.head?.bind List.head?).getD f]) := by
  unfold closeF
  cases rest with
  | nil =>
    simp
    have : (List.map (fun x => x.head?) pre ++ [g.head?])[0] = some f := by
      cases pre with
      | nil => simpa using hf
      | cons p pre => simpa using hf
    rw [this]
  | cons g' rest =>
    simp
    have hmod : (pre.length + 1) % (pre.length + (rest.length + 1 + 1)) = pre.length + 1 :=
      Nat.mod_eq_of_lt (by omega)
    rw [hmod]
    have hg' : g' ≠ [] := hne g' (by simp)
    obtain ⟨x, t, rfl⟩ := List.exists_cons_of_ne_nil hg'
    have : (List.map (fun x => x.head?) pre ++
            g.head? :: (x :: t).head? :: List.map (fun x => x.head?) rest)[pre.length + 1]? = some (some x) := by
      rw [List.getElem?_append_right (by simp)]
      simp
    rw [this]
    simp

theorem closeUp_aux (f : α) (groups suf pre : List (List α)) (hG : groups = pre ++ suf)
    (hne : ∀ g ∈ groups, g ≠ [])
    (hf : groups.head?.bind List.head? = some f) :
    (List.range' pre.length suf.length).filterMap (closeF groups) = closeAux f suf := by
  induction suf generalizing pre with
  | nil => simp [closeAux]
  | cons g rest ih =>
    have ih' := ih (pre ++ [g]) (by simp [hG])
    simp only [List.length_append, List.length_cons, List.length_nil] at ih'
    simp only [List.length_cons, List.range'_succ, List.filterMap_cons, closeAux]
    have hv : closeF groups pre.length = some (g ++ [(rest.head?.bind List.head?).getD f]) := by
      subst hG
      exact closeF_val f g pre rest hne hf
    rw [hv]
    simp only [← ih']

theorem closeUp_eq_closeAux (g : List α) (gs : List (List α)) (a : α) (r : List α) (hg : g = a :: r)
    (hne : ∀ x ∈ g :: gs, x ≠ []) :
    closeUp (g :: gs) = closeAux a (g :: gs) := by
  rw [closeUp_eq_closeF, List.range_eq_range']
  exact closeUp_aux a (g :: gs) (g :: gs) [] rfl hne (by simp [hg])

theorem cellGroups_shape' (isJ : α → Bool) (cyc : List α) :
    ∀ g ∈ cellGroups isJ cyc, GShape isJ g := by
  rw [cellGroups_eq]
  exact appendLast_shape isJ _ _ (splitAux_groups_shape' isJ cyc) (splitAux_lead_nonJ' isJ cyc)

theorem GShape.ne_nil {isJ : α → Bool} {g : List α} (h : GShape isJ g) : g ≠ [] := by
  obtain ⟨a, r, rfl, _⟩ := h
  simp

theorem cellPaths_cases (isJ : α → Bool) (cyc : List α) :
    (cellGroups isJ cyc = [] ∧ cellPaths isJ cyc = []) ∨
    ∃ a r gs, cellGroups isJ cyc = (a :: r) :: gs ∧ isJ a = true ∧
      cellPaths isJ cyc = closeAux a ((a :: r) :: gs) := by
  have hs := cellGroups_shape' isJ cyc
  unfold cellPaths
  cases hG : cellGroups isJ cyc with
  | nil => left; exact ⟨rfl, rfl⟩
  | cons g gs =>
    right
    rw [hG] at hs
    obtain ⟨a, r, rfl, ha, hr⟩ := hs g (by simp)
    exact ⟨a, r, gs, rfl, ha, closeUp_eq_closeAux _ gs a r rfl (fun x hx => (hs x hx).ne_nil)⟩

theorem nextHead_isJ (isJ : α → Bool) (f : α) (hf : isJ f = true) (gs : List (List α))
    (hs : ∀ g ∈ gs, GShape isJ g) : isJ ((gs.head?.bind List.head?).getD f) = true := by
  cases gs with
  | nil => simpa using hf
  | cons g gs =>
    obtain ⟨a, r, rfl, ha, _⟩ := hs g (by simp)
    simpa using ha

theorem closeAux_ends (isJ : α → Bool) (f : α) (hf : isJ f = true) (gs : List (List α))
    (hs : ∀ g ∈ gs, GShape isJ g) :
    ∀ p ∈ closeAux f gs, ∃ a mid b, p = a :: (mid ++ [b]) ∧ isJ a = true ∧ isJ b = true ∧
      ∀ c ∈ mid, isJ c = false := by
  induction gs with
  | nil => simp [closeAux]
  | cons g gs ih =>
    intro p hp
    simp only [closeAux, List.mem_cons] at hp
    rcases hp with rfl | hp
    · obtain ⟨a, r, rfl, ha, hr⟩ := hs g (by simp)
      exact ⟨a, r, _, by simp, ha, nextHead_isJ isJ f hf gs (fun x hx => hs x (by simp [hx])), hr⟩
    · exact ih (fun x hx => hs x (by simp [hx])) p hp

theorem closeAux_cover (f : α) (gs : List (List α)) :
    ((closeAux f gs).map List.dropLast).flatten = gs.flatten := by
  induction gs with
  | nil => simp [closeAux]
  | cons g gs ih => simp [closeAux, ih]

/-- consecutive pairs of `l` followed by the pair (last of `l`, `x`) -/
def pairsTo (l : List α) (x : α) : List (α × α) := List.zip l (l.tail ++ [x])

theorem pairsTo_nil (x : α) : pairsTo ([] : List α) x = [] := rfl

theorem pairsTo_cons (a : α) (l : List α) (x : α) :
    pairsTo (a :: l) x = (a, l.head?.getD x) :: pairsTo l x := by
  cases l <;> simp [pairsTo]

theorem pairsTo_append (l1 l2 : List α) (x : α) :
    pairsTo (l1 ++ l2) x = pairsTo l1 (l2.head?.getD x) ++ pairsTo l2 x := by
  induction l1 with
  | nil => simp [pairsTo_nil]
  | cons a t ih =>
    rw [List.cons_append, pairsTo_cons, pairsTo_cons, ih]
    cases t <;> simp

theorem zip_tail_concat (g : List α) (h : α) :
    List.zip (g ++ [h]) (g ++ [h]).tail = pairsTo g h := by
  induction g with
  | nil => simp [pairsTo]
  | cons a t ih =>
    cases t with
    | nil => simp [pairsTo]
    | cons b t =>
      rw [pairsTo_cons]
      simp at ih ⊢
      exact ih

theorem cyclicPairs_cons (a : α) (l : List α) : cyclicPairs (a :: l) = pairsTo (a :: l) a := rfl

theorem flatten_head? (gs : List (List α)) (hne : ∀ g ∈ gs, g ≠ []) :
    gs.flatten.head? = gs.head?.bind List.head? := by
  cases gs with
  | nil => simp
  | cons g gs =>
    obtain ⟨x, t, rfl⟩ := List.exists_cons_of_ne_nil (hne g (by simp))
    simp

theorem closeAux_pairs (f : α) (gs : List (List α)) (hne : ∀ g ∈ gs, g ≠ []) :
    ((closeAux f gs).map fun p => List.zip p p.tail).flatten = pairsTo gs.flatten f := by
  induction gs with
  | nil => simp [closeAux, pairsTo_nil]
  | cons g gs ih =>
    have hne' : ∀ x ∈ gs, x ≠ [] := fun x hx => hne x (by simp [hx])
    simp only [closeAux, List.map_cons, List.flatten_cons, zip_tail_concat, ih hne',
      pairsTo_append, flatten_head? gs hne']

theorem cyclicPairs_rotation_perm' (l1 l2 : List α) :
    (cyclicPairs (l2 ++ l1)).Perm (cyclicPairs (l1 ++ l2)) := by
  cases l1 with
  | nil => simp
  | cons a l1 =>
    cases l2 with
    | nil => simp
    | cons b l2 =>
      rw [List.cons_append, List.cons_append, cyclicPairs_cons, cyclicPairs_cons,
        ← List.cons_append, ← List.cons_append, pairsTo_append, pairsTo_append]
      simp only [List.head?_cons, Option.getD_some]
      exact List.perm_append_comm

/-! ### dedup -/
section dedup
variable [DecidableEq α]

def dedupStep (out : List (List α)) (e : List α) : List (List α) :=
  if out.contains e.reverse || out.contains e then out else out ++ [e]

theorem dedup_eq (ps : List (List α)) : dedup ps = ps.foldl dedupStep [] := rfl

theorem dedupStep_mono (out : List (List α)) (e p : List α) (h : p ∈ out) : p ∈ dedupStep out e := by
  unfold dedupStep; split <;> simp [h]

theorem foldl_dedupStep_mono (ps out : List (List α)) (p : List α) (h : p ∈ out) :
    p ∈ ps.foldl dedupStep out := by
  induction ps generalizing out with
  | nil => simpa using h
  | cons e ps ih => exact ih _ (dedupStep_mono out e p h)

theorem foldl_dedupStep_sub (ps out : List (List α)) :
    ∀ p ∈ ps.foldl dedupStep out, p ∈ out ∨ p ∈ ps := by
  induction ps generalizing out with
  | nil => simp
  | cons e ps ih =>
    intro p hp
    rcases ih _ p hp with h | h
    · unfold dedupStep at h
      split at h
      · exact Or.inl h
      · simp at h
        rcases h with h | h
        · exact Or.inl h
        · right; simp [h]
    · right; simp [h]

theorem foldl_dedupStep_pairwise (ps out : List (List α))
    (h : out.Pairwise (fun a b => a ≠ b ∧ a.reverse ≠ b)) :
    (ps.foldl dedupStep out).Pairwise (fun a b => a ≠ b ∧ a.reverse ≠ b) := by
  induction ps generalizing out with
  | nil => simpa using h
  | cons e ps ih =>
    apply ih
    unfold dedupStep
    split
    · exact h
    · rename_i hc
      simp at hc
      rw [List.pairwise_append]
      refine ⟨h, by simp, ?_⟩
      intro a ha b hb
      simp at hb
      subst hb
      constructor
      · rintro rfl; exact hc.2 ha
      · rintro rfl; apply hc.1; simpa using ha

theorem foldl_dedupStep_complete (ps out : List (List α)) :
    ∀ p, (p ∈ out ∨ p.reverse ∈ out ∨ p ∈ ps) →
      p ∈ ps.foldl dedupStep out ∨ p.reverse ∈ ps.foldl dedupStep out := by
  induction ps generalizing out with
  | nil => intro p hp; simpa using hp
  | cons e ps ih =>
    intro p hp
    apply ih
    rcases hp with h | h | h
    · exact Or.inl (dedupStep_mono _ _ _ h)
    · exact Or.inr (Or.inl (dedupStep_mono _ _ _ h))
    · simp at h
      rcases h with rfl | h
      · unfold dedupStep
        split
        · rename_i hc
          simp at hc
          rcases hc with hc | hc
          · exact Or.inr (Or.inl hc)
          · exact Or.inl hc
        · left; simp
      · exact Or.inr (Or.inr h)

end dedup

/-! ### classification -/

theorem indexOf?_some_getElem? {β : Type} [DecidableEq β] (a : β) (l : List β) (i : Nat)
    (h : indexOf? a l = some i) : l[i]? = some a := by
  induction l generalizing i with
  | nil => simp [indexOf?] at h
  | cons b l ih =>
    unfold indexOf? at h
    split at h
    · simp at h; subst h; simp [*]
    · simp at h
      obtain ⟨j, hj, rfl⟩ := h
      simpa using ih j hj

theorem indexOf?_getElem {β : Type} [DecidableEq β] (l : List β) (hn : l.Nodup) (i : Nat) (hi : i < l.length) :
    indexOf? l[i] l = some i := by
  induction l generalizing i with
  | nil => simp at hi
  | cons b l ih =>
    rw [List.nodup_cons] at hn
    cases i with
    | zero => simp [indexOf?]
    | succ j =>
      simp at hi
      have hne : l[j] ≠ b := by
        intro h; apply hn.1; rw [← h]; exact List.getElem_mem _
      simp [indexOf?, hne, ih hn.2 j hi]

namespace Mesh

def isBorder (m : Mesh) (e : List Id) : Bool := e.any fun v => decide ((m.ownCells v).length < 2)

theorem mem_externalEdgesId (m : Mesh) (earr : List (List Id)) (hn : earr.Nodup) (i : Nat)
    (hi : i < earr.length) :
    i ∈ m.externalEdgesId earr ↔ m.isBorder (earr.getD i []) = true := by
  have hget : earr.getD i [] = earr[i] := by simp [List.getD, hi]
  rw [hget]
  unfold externalEdgesId borderEdges
  simp only [List.mem_filterMap, List.mem_filter]
  constructor
  · rintro ⟨e, ⟨he, hb⟩, hidx⟩
    have := indexOf?_some_getElem? e earr i hidx
    rw [List.getElem?_eq_getElem hi] at this
    simp at this
    rw [this]; exact hb
  · intro hb
    exact ⟨earr[i], ⟨List.getElem_mem _, hb⟩, indexOf?_getElem earr hn i hi⟩

/-- `BigEdge.own_cells` of an interface that does not have exactly two vertices is the cell list of the vertex at
    position `(len − 1) / 2` -/
theorem bigEdgeOwnCells_mid (m : Mesh) (e : List Id) (hlen : e.length ≠ 2) (hi : (e.length - 1) / 2 < e.length) :
    m.bigEdgeOwnCells e = m.ownCells (e[(e.length - 1) / 2]'hi) := by
  have h2 : (e.length == 2) = false := by simpa using hlen
  unfold Mesh.bigEdgeOwnCells
  rw [h2]
  simp [List.getD_eq_getElem?_getD, hi]

end Mesh

/-! ### `are_neighbours` of `Frame.__post_init__` and the own_cells of two-point interfaces -/

theorem mem_cyclicPairs_iff (l : List α) (x y : α) :
    (x, y) ∈ cyclicPairs l ↔ ∃ i, l[i]? = some x ∧ l[(i + 1) % l.length]? = some y := by
  cases l with
  | nil => simp [cyclicPairs]
  | cons a t =>
    simp only [cyclicPairs, List.mem_iff_getElem?, List.getElem?_zip_eq_some, List.length_cons]
    constructor
    · rintro ⟨i, h1, h2⟩
      refine ⟨i, h1, ?_⟩
      have hi : i < t.length + 1 := by
        have := (List.getElem?_eq_some_iff.1 h1).1; simpa using this
      by_cases hlt : i < t.length
      · rw [Nat.mod_eq_of_lt (by omega)]
        rw [List.getElem?_append_left hlt] at h2
        simpa using h2
      · have : i = t.length := by omega
        subst this
        simp at h2
        simp [h2]
    · rintro ⟨i, h1, h2⟩
      refine ⟨i, h1, ?_⟩
      have hi : i < t.length + 1 := by
        have := (List.getElem?_eq_some_iff.1 h1).1; simpa using this
      by_cases hlt : i < t.length
      · rw [Nat.mod_eq_of_lt (by omega)] at h2
        rw [List.getElem?_append_left hlt]
        simpa using h2
      · have : i = t.length := by omega
        subst this
        simp at h2
        simp [h2]
theorem pred_succ_mod (pos n : Nat) (h : pos < n) : ((pos + n - 1) % n + 1) % n = pos := by
  cases pos with
  | zero =>
    have : (0 + n - 1) % n = n - 1 := by rw [Nat.zero_add]; exact Nat.mod_eq_of_lt (by omega)
    rw [this, show n - 1 + 1 = n by omega, Nat.mod_self]
  | succ p =>
    have : (p + 1 + n - 1) % n = p := by
      rw [show p + 1 + n - 1 = p + n by omega, Nat.add_mod_right]; exact Nat.mod_eq_of_lt (by omega)
    rw [this]; exact Nat.mod_eq_of_lt h

theorem succ_pred_mod (j n : Nat) (h : j < n) : ((j + 1) % n + n - 1) % n = j := by
  by_cases hj : j + 1 < n
  · rw [Nat.mod_eq_of_lt hj, show j + 1 + n - 1 = j + n by omega, Nat.add_mod_right]
    exact Nat.mod_eq_of_lt h
  · have : j + 1 = n := by omega
    rw [this, Nat.mod_self, Nat.zero_add]
    rw [Nat.mod_eq_of_lt (by omega)]; omega

/-- what `are_neighbours` finds is a cyclic consecutive pair of the cycle, in one of the two directions -/
theorem cyclicNeighbours_imp (ids : List Id) (a b : Id) (h : cyclicNeighbours ids a b = true) :
    (a, b) ∈ cyclicPairs ids ∨ (b, a) ∈ cyclicPairs ids := by
  unfold cyclicNeighbours at h
  split at h
  · simp at h
  · rename_i pos hpos
    have ha := indexOf?_some_getElem? a ids pos hpos
    have hlt : pos < ids.length := (List.getElem?_eq_some_iff.1 ha).1
    have hn : 0 < ids.length := by omega
    simp only [Bool.or_eq_true, beq_iff_eq] at h
    rcases h with h | h
    · right
      rw [mem_cyclicPairs_iff]
      refine ⟨(pos + ids.length - 1) % ids.length, ?_, ?_⟩
      · have hl : (pos + ids.length - 1) % ids.length < ids.length := Nat.mod_lt _ hn
        rw [h, List.getD_eq_getElem?_getD, List.getElem?_eq_getElem hl]; simp
      · rw [pred_succ_mod _ _ hlt]; exact ha
    · left
      rw [mem_cyclicPairs_iff]
      refine ⟨pos, ha, ?_⟩
      have hl : (pos + 1) % ids.length < ids.length := Nat.mod_lt _ hn
      rw [h, List.getD_eq_getElem?_getD, List.getElem?_eq_getElem hl]; simp

/-- in a cycle without repeated vertex `are_neighbours` is exactly "cyclic consecutive pair in one of the two directions" -/
theorem cyclicNeighbours_iff (ids : List Id) (hn : ids.Nodup) (a b : Id) :
    cyclicNeighbours ids a b = true ↔ ((a, b) ∈ cyclicPairs ids ∨ (b, a) ∈ cyclicPairs ids) := by
  refine ⟨cyclicNeighbours_imp ids a b, ?_⟩
  rintro (h | h)
  · rw [mem_cyclicPairs_iff] at h
    obtain ⟨i, h1, h2⟩ := h
    have hi : i < ids.length := (List.getElem?_eq_some_iff.1 h1).1
    have hidx : indexOf? a ids = some i := by
      have := indexOf?_getElem ids hn i hi
      rw [List.getElem?_eq_getElem hi] at h1
      simp at h1; rwa [h1] at this
    unfold cyclicNeighbours
    rw [hidx]
    simp only [Bool.or_eq_true, beq_iff_eq]
    right
    rw [List.getD_eq_getElem?_getD, h2]; rfl
  · rw [mem_cyclicPairs_iff] at h
    obtain ⟨j, h1, h2⟩ := h
    have hj : j < ids.length := (List.getElem?_eq_some_iff.1 h1).1
    have hi : (j + 1) % ids.length < ids.length := Nat.mod_lt _ (by omega)
    have hidx : indexOf? a ids = some ((j + 1) % ids.length) := by
      have := indexOf?_getElem ids hn _ hi
      rw [List.getElem?_eq_getElem hi] at h2
      simp at h2; rwa [h2] at this
    unfold cyclicNeighbours
    rw [hidx]
    simp only [Bool.or_eq_true, beq_iff_eq]
    left
    rw [succ_pred_mod _ _ hj, List.getD_eq_getElem?_getD, h1]; rfl
theorem mem_cyclicPairs_left (l : List α) (x y : α) (h : (x, y) ∈ cyclicPairs l) : x ∈ l := by
  rw [mem_cyclicPairs_iff] at h
  obtain ⟨i, h1, _⟩ := h
  exact List.mem_of_getElem? h1

theorem mem_cyclicPairs_right (l : List α) (x y : α) (h : (x, y) ∈ cyclicPairs l) : y ∈ l := by
  rw [mem_cyclicPairs_iff] at h
  obtain ⟨i, _, h2⟩ := h
  exact List.mem_of_getElem? h2

namespace Mesh

/-- the cells (keys of the cell dictionary, in its order) in whose vertex cycle `a` and `b` are consecutive
    (closing pair included, either direction): the cells along the mesh edge `{a, b}` -/
def edgeCells (m : Mesh) (a b : Id) : List Id :=
  (m.cells.filter fun p =>
    (cyclicPairs p.2.verts).contains (a, b) || (cyclicPairs p.2.verts).contains (b, a)).map (·.1)

theorem bigEdgeOwnCells_pair (m : Mesh) (a b : Id) :
    m.bigEdgeOwnCells [a, b] = (listInter (m.ownCells a) (m.ownCells b)).filter (m.neighboursInCell a b) := rfl

theorem ownCells_nodup_of_consistent (m : Mesh) (h : m.Consistent = true) (a : Id) : (m.ownCells a).Nodup := by
  have hc := ((consistent_iff m).1 h).2.2.1
  unfold ownCells vertex?
  cases hv : alGet? a m.vertices with
  | none => simp
  | some v => exact (hc (a, v) (alGet?_some_mem hv)).2.2

/-- in a consistent mesh a vertex of a cell cycle lists that cell -/
theorem mem_ownCells_of_mem_verts (m : Mesh) (h : m.Consistent = true) (c : Id) (cl : Cell)
    (hc : (c, cl) ∈ m.cells) (a : Id) (ha : a ∈ cl.verts) : c ∈ m.ownCells a := by
  obtain ⟨hk, _, hoc, hr, _, _⟩ := (consistent_iff m).1 h
  have hav : a ∈ m.vertices.map (·.1) := (hr.2 (c, cl) hc).2 a ha
  obtain ⟨p, hp, hpa⟩ := List.mem_map.1 hav
  obtain ⟨k, v⟩ := p
  simp only at hpa; subst hpa
  have hget : alGet? k m.vertices = some v := alGet?_of_mem hk.2.2.2.1 hp
  have hid : k = v.id := hk.1 (k, v) hp
  have hcid : c = cl.id := hk.2.2.1 (c, cl) hc
  have := (hoc (k, v) hp).2.1 (c, cl) hc (by simpa [← hid] using ha)
  simp only [ownCells, vertex?, hget, Option.map_some, Option.getD_some]
  rw [hcid]; exact this

theorem mem_edgeCells_iff (m : Mesh) (a b c : Id) :
    c ∈ m.edgeCells a b ↔ ∃ cl, (c, cl) ∈ m.cells ∧ ((a, b) ∈ cyclicPairs cl.verts ∨ (b, a) ∈ cyclicPairs cl.verts) := by
  unfold edgeCells
  simp only [List.mem_map, List.mem_filter, Bool.or_eq_true, List.contains_eq_mem, decide_eq_true_eq]
  constructor
  · rintro ⟨⟨k, cl⟩, ⟨hm, hp⟩, rfl⟩; exact ⟨cl, hm, hp⟩
  · rintro ⟨cl, hm, hp⟩; exact ⟨(c, cl), ⟨hm, hp⟩, rfl⟩

/-- in a consistent mesh `own_cells` of a two-point interface lists exactly the cells along its mesh edge, each once -/
theorem bigEdgeOwnCells_pair_perm (m : Mesh) (h : m.Consistent = true) (a b : Id) :
    (m.bigEdgeOwnCells [a, b]).Perm (m.edgeCells a b) := by
  obtain ⟨hk, _, _, _, hnd, _⟩ := (consistent_iff m).1 h
  have hkeys : (m.cells.map (·.1)).Nodup := hk.2.2.2.2.2
  apply (List.perm_ext_iff_of_nodup ?_ ?_).2
  · intro c
    rw [bigEdgeOwnCells_pair, mem_edgeCells_iff]
    simp only [List.mem_filter, listInter, List.contains_eq_mem, decide_eq_true_eq]
    constructor
    · rintro ⟨_, hn⟩
      unfold neighboursInCell cell? at hn
      split at hn
      · rename_i cl hcl
        exact ⟨cl, alGet?_some_mem hcl, cyclicNeighbours_imp _ _ _ hn⟩
      · simp at hn
    · rintro ⟨cl, hm, hp⟩
      have ha : a ∈ cl.verts := by
        rcases hp with hp | hp
        · exact mem_cyclicPairs_left _ _ _ hp
        · exact mem_cyclicPairs_right _ _ _ hp
      have hb : b ∈ cl.verts := by
        rcases hp with hp | hp
        · exact mem_cyclicPairs_right _ _ _ hp
        · exact mem_cyclicPairs_left _ _ _ hp
      refine ⟨⟨m.mem_ownCells_of_mem_verts h c cl hm a ha, m.mem_ownCells_of_mem_verts h c cl hm b hb⟩, ?_⟩
      unfold neighboursInCell cell?
      rw [alGet?_of_mem hkeys hm]
      exact (cyclicNeighbours_iff _ (hnd (c, cl) hm) a b).2 hp
  · rw [bigEdgeOwnCells_pair]
    exact ((m.ownCells_nodup_of_consistent h a).filter _).filter _
  · unfold edgeCells
    exact (List.filter_sublist.map _).nodup hkeys
end Mesh

end Forsys
