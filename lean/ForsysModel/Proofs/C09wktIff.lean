/-
  Helper lemmas for Props/C09wkt.lean — necessity of the "no repeated position" hypothesis, and the exact flip.
-/
import ForsysModel.Proofs.C09wktShape
import ForsysModel.Proofs.C09wktCons

namespace Forsys.Wkt
open Mesh

theorem pt_inj_of_ok (flip : Rat → Rat) (rs : List (List Pt)) (m : Mesh) (h : latticeWith flip rs = .ok m)
    {a b : Id} (ha : a ∈ m.vertices.map (·.1)) (hb : b ∈ m.vertices.map (·.1)) (hab : m.pt a = m.pt b) : a = b := by
  obtain ⟨va, hva⟩ := Option.isSome_iff_exists.mp ((alGet?_isSome_iff a m.vertices).mpr ha)
  obtain ⟨vb, hvb⟩ := Option.isSome_iff_exists.mp ((alGet?_isSome_iff b m.vertices).mpr hb)
  have ma := alGet?_some_mem hva
  have mb := alGet?_some_mem hvb
  simp only [Mesh.pt, Mesh.vertex?, hva, hvb, Pt.mk.injEq] at hab
  exact wkt_vertices_injective' flip rs m h (a, va) ma (b, vb) mb hab.1 hab.2

theorem nodup_map_of_inj_on {α β : Type} (f : α → β) : ∀ (l : List α),
    (∀ a ∈ l, ∀ b ∈ l, f a = f b → a = b) → l.Nodup → (l.map f).Nodup
  | [], _, _ => by simp
  | x :: l, hinj, hnd => by
    rw [List.nodup_cons] at hnd
    rw [List.map_cons, List.nodup_cons]
    refine ⟨?_, nodup_map_of_inj_on f l (fun a ha b hb => hinj a (List.mem_cons_of_mem _ ha) b (List.mem_cons_of_mem _ hb)) hnd.2⟩
    intro hx
    obtain ⟨y, hy, hxy⟩ := List.mem_map.mp hx
    have := hinj y (List.mem_cons_of_mem _ hy) x (List.mem_cons_self) hxy
    exact hnd.1 (this ▸ hy)

theorem wkt_consistent_iff' (flip : Rat → Rat) (rs : List (List Pt)) (m : Mesh)
    (h : latticeWith flip rs = .ok m) :
    m.Consistent = true ↔ ∀ r ∈ rs, (r.map (flipPt flip)).Nodup := by
  constructor
  · intro hc r hr
    rw [consistent_iff] at hc
    obtain ⟨_, _, _, hR, hN, _⟩ := hc
    have hcyc := wkt_cell_cycles' flip rs m h
    have : r.map (flipPt flip) ∈ rs.map (fun r => r.map (flipPt flip)) := List.mem_map.mpr ⟨r, hr, rfl⟩
    rw [← hcyc] at this
    obtain ⟨c, hcm, hce⟩ := List.mem_map.mp this
    rw [← hce]
    apply nodup_map_of_inj_on _ _ _ (hN c hcm)
    intro a ha b hb hab
    exact pt_inj_of_ok flip rs m h ((hR.2 c hcm).2 a ha) ((hR.2 c hcm).2 b hb) hab
  · intro hnd
    exact (consistent_iff m).mpr (wkt_consP' flip rs m hnd h)

theorem flipPt_exact_inj : Function.Injective (flipPt flip1024) := by
  intro p q h
  simp only [flipPt, flip1024, Pt.mk.injEq] at h
  cases p; cases q
  simp only [Pt.mk.injEq]
  refine ⟨h.1, ?_⟩
  have := h.2
  simp only at this
  grind

end Forsys.Wkt
