/- helper definitions and lemmas for Props/C07order.lean: storage order of the cell dictionary and of the cell cycles -/
import ForsysModel.Proofs.C07matrix
import ForsysModel.Props.C02
import Mathlib.Data.List.Rotate
import Mathlib.Data.List.Forall2
namespace Forsys

/-! ### the storage variants of a mesh -/

/-- the stored vertex cycle rotated by `k` places (`verts[k:] + verts[:k]`, `k` taken modulo the length) -/
def Cell.rotate (k : Nat) (c : Cell) : Cell := { c with verts := c.verts.rotate k }
/-- the stored vertex cycle in the opposite sense -/
def Cell.reverse (c : Cell) : Cell := { c with verts := c.verts.reverse }

/-- the mesh with the same cell dictionary (same keys, same order) but the objects changed by `g` under the keys `cid` -/
def Mesh.mapCell (cid : Id) (g : Cell → Cell) (m : Mesh) : Mesh :=
  { m with cells := m.cells.map fun p => if p.1 = cid then (p.1, g p.2) else p }

/-- the stored vertex cycle of cell `cid` rotated by `k`; vertices, mesh edges, the other cells and the order of the
    three dictionaries unchanged -/
def Mesh.rotateCell (cid : Id) (k : Nat) (m : Mesh) : Mesh := m.mapCell cid (Cell.rotate k)

/-- the stored vertex cycle of cell `cid` reversed -/
def Mesh.reverseCell (cid : Id) (m : Mesh) : Mesh := m.mapCell cid Cell.reverse

/-- the cell dictionary replaced by `cells'` (the theorems assume `cells'.Perm m.cells`: the same entries inserted in
    another order) -/
def Mesh.permuteCells (cells' : List (Id × Cell)) (m : Mesh) : Mesh := { m with cells := cells' }

/-- the vertex dictionary replaced by `vs'` (the theorems assume `vs'.Perm m.vertices` and unique keys) -/
def Mesh.permuteVertices (vs' : List (Id × Vertex)) (m : Mesh) : Mesh := { m with vertices := vs' }

/-- the mesh-edge dictionary replaced by `es'` (ANY `es'`: the matrix path never reads it) -/
def Mesh.permuteEdges (es' : List (Id × SEdge)) (m : Mesh) : Mesh := { m with edges := es' }

/-- the same set of interfaces up to the direction each one is stored in -/
def SameInterfaces (l₁ l₂ : List (List Id)) : Prop := ∀ p, memRev p l₁ ↔ memRev p l₂

/-- no interface twice, in either direction -/
def NodupRev (l : List (List Id)) : Prop := l.Pairwise fun a b => a ≠ b ∧ a.reverse ≠ b

namespace C07o
variable {α : Type}

/-! ### candidates of `create_edges_new` -/

/-- the list `create_edges_new` de-duplicates: the interfaces of every cell, in dictionary order -/
def cand (isJ : Id → Bool) (cells : List (Id × Cell)) : List (List Id) :=
  (cells.map fun (_, c) => cellPaths isJ c.verts).flatten

theorem bigEdgesList_eq (m : Mesh) : m.bigEdgesList = dedup (cand m.isJunction m.cells) := rfl

theorem mem_cand (isJ : Id → Bool) (cells : List (Id × Cell)) (p : List Id) :
    p ∈ cand isJ cells ↔ ∃ q ∈ cells, p ∈ cellPaths isJ q.2.verts := by
  unfold cand
  simp only [List.mem_flatten, List.mem_map]
  constructor
  · rintro ⟨_, ⟨q, hq, rfl⟩, hp⟩; exact ⟨q, hq, hp⟩
  · rintro ⟨q, hq, hp⟩; exact ⟨_, ⟨q, hq, rfl⟩, hp⟩

theorem memRev_cand (isJ : Id → Bool) (cells : List (Id × Cell)) (p : List Id) :
    memRev p (cand isJ cells) ↔ ∃ q ∈ cells, memRev p (cellPaths isJ q.2.verts) := by
  unfold memRev
  rw [mem_cand, mem_cand]
  constructor
  · rintro (⟨q, hq, hp⟩ | ⟨q, hq, hp⟩)
    · exact ⟨q, hq, Or.inl hp⟩
    · exact ⟨q, hq, Or.inr hp⟩
  · rintro ⟨q, hq, hp | hp⟩
    · exact Or.inl ⟨q, hq, hp⟩
    · exact Or.inr ⟨q, hq, hp⟩

/-- changing the stored cycle of some cells in a way that keeps each cell's interfaces up to reversal keeps the
    candidates up to reversal -/
theorem memRev_cand_map (isJ : Id → Bool) (cells : List (Id × Cell)) (G : Id × Cell → Id × Cell)
    (hG : ∀ q p, memRev p (cellPaths isJ (G q).2.verts) ↔ memRev p (cellPaths isJ q.2.verts)) (p : List Id) :
    memRev p (cand isJ (cells.map G)) ↔ memRev p (cand isJ cells) := by
  rw [memRev_cand, memRev_cand]
  constructor
  · rintro ⟨q', hq', hp⟩
    obtain ⟨q, hq, rfl⟩ := List.mem_map.1 hq'
    exact ⟨q, hq, (hG q p).1 hp⟩
  · rintro ⟨q, hq, hp⟩
    exact ⟨G q, List.mem_map.2 ⟨q, hq, rfl⟩, (hG q p).2 hp⟩

theorem memRev_rotate (isJ : Id → Bool) (cyc : List Id) (k : Nat) (p : List Id) :
    memRev p (cellPaths isJ (cyc.rotate k)) ↔ memRev p (cellPaths isJ cyc) := by
  have h : (cellPaths isJ (cyc.rotate k)).Perm (cellPaths isJ cyc) := by
    rw [List.rotate_eq_drop_append_take_mod]
    conv => rhs; rw [← List.take_append_drop (k % cyc.length) cyc]
    exact cellPaths_rotate isJ _ _
  unfold memRev
  rw [h.mem_iff, h.mem_iff]

theorem memRev_reverse (isJ : Id → Bool) (cyc : List Id) (p : List Id) :
    memRev p (cellPaths isJ cyc.reverse) ↔ memRev p (cellPaths isJ cyc) := by
  have h := cellPaths_reverse isJ cyc
  have hm : ∀ x : List Id, x ∈ (cellPaths isJ cyc).map List.reverse ↔ x.reverse ∈ cellPaths isJ cyc := by
    intro x
    rw [List.mem_map]
    constructor
    · rintro ⟨y, hy, rfl⟩; rwa [List.reverse_reverse]
    · intro hx; exact ⟨x.reverse, hx, List.reverse_reverse x⟩
  unfold memRev
  rw [h.mem_iff, h.mem_iff, hm, hm, List.reverse_reverse]
  exact Or.comm

theorem isJunction_mapCell (cid : Id) (g : Cell → Cell) (m : Mesh) : (m.mapCell cid g).isJunction = m.isJunction := rfl

/-- the candidates of a mesh whose cell `cid` is stored differently -/
theorem memRev_cand_mapCell (cid : Id) (g : Cell → Cell) (m : Mesh)
    (hg : ∀ c p, memRev p (cellPaths m.isJunction (g c).verts) ↔ memRev p (cellPaths m.isJunction c.verts))
    (p : List Id) :
    memRev p (cand (m.mapCell cid g).isJunction (m.mapCell cid g).cells) ↔ memRev p (cand m.isJunction m.cells) := by
  rw [isJunction_mapCell]
  show memRev p (cand m.isJunction (m.cells.map fun q => if q.1 = cid then (q.1, g q.2) else q)) ↔ _
  apply memRev_cand_map
  intro q p
  by_cases h : q.1 = cid
  · rw [if_pos h]; exact hg q.2 p
  · rw [if_neg h]

theorem memRev_cand_perm (isJ : Id → Bool) (cells cells' : List (Id × Cell)) (h : cells'.Perm cells) (p : List Id) :
    memRev p (cand isJ cells') ↔ memRev p (cand isJ cells) := by
  rw [memRev_cand, memRev_cand]
  constructor
  · rintro ⟨q, hq, hp⟩; exact ⟨q, h.mem_iff.1 hq, hp⟩
  · rintro ⟨q, hq, hp⟩; exact ⟨q, h.mem_iff.2 hq, hp⟩

/-! ### from "same interfaces up to reversal" to an explicit matching of the columns -/

theorem sameInterfaces_length (A B : List (List Id)) (hA : NodupRev A) (hB : NodupRev B) (h : SameInterfaces A B) :
    A.length = B.length := by
  apply Nat.le_antisymm
  · exact C07.length_le_of_memRev A B hA fun p hp => (h p).1 (Or.inl hp)
  · exact C07.length_le_of_memRev B A hB fun p hp => (h p).2 (Or.inl hp)

/-- the interface of `A` that stands for `b`: `b` itself if `A` stores it in the same direction, else `b` reversed -/
def pick (A : List (List Id)) (b : List Id) : List Id := if b ∈ A then b else b.reverse

theorem forall₂_pick (A B : List (List Id)) :
    List.Forall₂ (fun a b => a = b ∨ a = b.reverse) (B.map (pick A)) B := by
  induction B with
  | nil => exact List.Forall₂.nil
  | cons b B ih =>
    refine List.Forall₂.cons ?_ ih
    unfold pick
    split
    · exact Or.inl rfl
    · exact Or.inr rfl

theorem map_pick_perm (A B : List (List Id)) (hA : NodupRev A) (hB : NodupRev B) (h : SameInterfaces A B) :
    (B.map (pick A)).Perm A := by
  have hall : ∀ a ∈ B, ∀ b ∈ B, a ≠ b → (a ≠ b ∧ a.reverse ≠ b) := by
    have hsymm : ∀ a b : List Id, (a ≠ b ∧ a.reverse ≠ b) → (b ≠ a ∧ b.reverse ≠ a) := by
      intro a b ⟨h1, h2⟩
      refine ⟨fun e => h1 e.symm, fun e => h2 ?_⟩
      rw [← e, List.reverse_reverse]
    have : Std.Symm (fun a b : List Id => a ≠ b ∧ a.reverse ≠ b) := ⟨hsymm⟩
    exact fun a ha b hb hab => List.Pairwise.forall hB ha hb hab
  have hφ : ∀ b, pick A b = b ∨ pick A b = b.reverse := by
    intro b; unfold pick; split
    · exact Or.inl rfl
    · exact Or.inr rfl
  have hφA : ∀ b ∈ B, pick A b ∈ A := by
    intro b hb
    unfold pick
    split
    · assumption
    · next hn => exact ((h b).2 (Or.inl hb)).resolve_left hn
  have hinj : ∀ a ∈ B, ∀ b ∈ B, pick A a = pick A b → a = b := by
    intro a ha b hb hab
    by_contra hne
    have hab' := hall a ha b hb hne
    rcases hφ a with h1 | h1 <;> rcases hφ b with h2 | h2 <;> rw [h1, h2] at hab
    · exact hab'.1 hab
    · apply hab'.2; rw [hab, List.reverse_reverse]
    · exact hab'.2 hab
    · exact hab'.1 (List.reverse_injective hab)
  have hnd : (B.map (pick A)).Nodup := List.Nodup.map_on hinj (hB.imp fun h => h.1)
  have hsub : B.map (pick A) ⊆ A := by
    intro x hx
    obtain ⟨b, hb, rfl⟩ := List.mem_map.1 hx
    exact hφA b hb
  apply (hnd.subperm hsub).perm_of_length_le
  rw [List.length_map, sameInterfaces_length A B hA hB h]

end C07o

/-! ### the force matrix: interfaces stored in the other direction -/

namespace FMInput

/-- the fitted centre the model reads for the interface `e`: the entry of `centers` at the POSITION of `e` in the
    interface list (`none`: `e` is not in the list) -/
def centreOf (earr : List (List Id)) (centers : List Pt) (e : List Id) : Option Pt :=
  (indexOf? e earr).map fun i => centers.getD i default

/-- closed form of the entry pair in the column labelled `e` of the row pair of `vid`: the tangent of `e` at `vid`
    (with the centre read at the position of `e`) if `e` contains `vid`, is not external and `vid` lies in more than
    two cells; the untouched zero otherwise -/
def entryOf (inp : FMInput) (earr : List (List Id)) (vid : Id) (e : List Id) : Option Vec :=
  if e.contains vid && !(inp.mesh.bigEdgeExternal e) && decide ((inp.mesh.ownCells vid).length > 2) then
    (centreOf earr inp.centers e).bind fun c => vectorFromVertex e (e.map inp.mesh.pt) c vid
  else none

end FMInput

namespace C07o
open FMInput

theorem indexOf?_none_not_mem {β : Type} [DecidableEq β] (a : β) (l : List β) (h : indexOf? a l = none) : a ∉ l := by
  intro hm
  obtain ⟨j, hj⟩ := indexOf?_of_mem a l hm
  rw [h] at hj
  exact absurd hj (by simp)

/-- entry `c` of the row of `vid` for an ARBITRARY column list without repetition is the closed form of its label -/
theorem vertexEquation_getElem_label (inp : FMInput) (earr used : List (List Id)) (vid : Id)
    (hE : earr.Nodup) (hu : used.Nodup) (c : Nat) (hc : c < used.length) :
    (inp.vertexEquation earr used vid)[c]? = some (entryOf inp earr vid (used.getD c [])) := by
  rw [vertexEquation_eq_fold]
  have hlen : c < (used.map fun _ => (none : Option Vec)).length := by simpa using hc
  generalize he : used.getD c [] = e
  have hself : eidFromVertex used e = some c := by
    rw [← he]; exact eidFromVertex_self_of_nodup used hu c hc
  have hq : ∀ i, qOf inp earr used vid i = some c →
      earr.getD i [] = e ∧ (!(inp.mesh.bigEdgeExternal e) && decide ((inp.mesh.ownCells vid).length > 2)) = true := by
    intro i hi
    unfold qOf at hi
    split at hi
    · next hcond =>
      have h1 := ((eidFromVertex_some_iff' used _ c).1 hi).2.1
      rw [he] at h1
      rw [h1]
      exact ⟨rfl, hcond⟩
    · exact absurd hi (by simp)
  cases hidx : indexOf? e earr with
  | none =>
    have hnot : e ∉ earr := indexOf?_none_not_mem e earr hidx
    have hent : entryOf inp earr vid e = none := by
      unfold entryOf centreOf
      rw [hidx]
      split <;> rfl
    rw [hent, foldl_stepQ_untouched _ _ c _ _ hlen]
    · simp [hc]
    · intro i hi hqi
      apply hnot
      have hilt := ((mem_ownBigEdges earr vid i).mp hi).1
      rw [← (hq i hqi).1, List.getD_eq_getElem?_getD, List.getElem?_eq_getElem hilt, Option.getD_some]
      exact List.getElem_mem _
  | some i0 =>
    have hget := indexOf?_some e earr i0 hidx
    have hi0 : i0 < earr.length := by
      by_contra hn
      rw [List.getElem?_eq_none_iff.mpr (by omega)] at hget
      exact absurd hget (by simp)
    have hgetD : earr.getD i0 [] = e := by rw [List.getD_eq_getElem?_getD, hget]; rfl
    have key : ∀ i ∈ Mesh.ownBigEdges earr vid, qOf inp earr used vid i = some c → i = i0 := by
      intro i hi hqi
      have hilt := ((mem_ownBigEdges earr vid i).mp hi).1
      exact getD_inj_of_nodup earr hE i i0 hilt hi0 ((hq i hqi).1.trans hgetD.symm)
    have hvec : inp.vecAt earr i0 vid
        = vectorFromVertex e (e.map inp.mesh.pt) (inp.centers.getD i0 default) vid := by
      unfold vecAt
      simp only [hgetD]
    by_cases hcond : (e.contains vid && !(inp.mesh.bigEdgeExternal e) &&
        decide ((inp.mesh.ownCells vid).length > 2)) = true
    · have hent : entryOf inp earr vid e = inp.vecAt earr i0 vid := by
        unfold entryOf centreOf
        rw [if_pos hcond, hidx, hvec]
        rfl
      rw [hent]
      have hcond' := hcond
      simp only [Bool.and_eq_true] at hcond'
      have hqi0 : qOf inp earr used vid i0 = some c := by
        unfold qOf
        rw [hgetD, if_pos (by simp only [Bool.and_eq_true]; exact ⟨hcond'.1.2, hcond'.2⟩)]
        exact hself
      exact foldl_stepQ_hit _ _ c i0 hqi0 _ _ hlen (ownBigEdges_nodup earr vid)
        ((mem_ownBigEdges earr vid i0).mpr ⟨hi0, by rw [hgetD]; exact hcond'.1.1⟩) key
    · have hent : entryOf inp earr vid e = none := by
        unfold entryOf
        rw [if_neg hcond]
      rw [hent, foldl_stepQ_untouched _ _ c _ _ hlen]
      · simp [hc]
      · intro i hi hqi
        have := key i hi hqi
        subst this
        apply hcond
        have hcont := ((mem_ownBigEdges earr vid i).mp hi).2
        rw [hgetD] at hcont
        have h2 := (hq i hqi).2
        simp only [Bool.and_eq_true] at h2 ⊢
        exact ⟨⟨hcont, h2.1⟩, h2.2⟩

/-- the row of `vid`, column list without repetition: one closed-form entry per column label -/
theorem vertexEquation_eq_map_label (inp : FMInput) (earr used : List (List Id)) (vid : Id)
    (hE : earr.Nodup) (hu : used.Nodup) :
    inp.vertexEquation earr used vid = used.map (entryOf inp earr vid) := by
  apply List.ext_getElem?
  intro c
  by_cases hc : c < used.length
  · rw [vertexEquation_getElem_label inp earr used vid hE hu c hc, List.getElem?_map,
      List.getD_eq_getElem?_getD, List.getElem?_eq_getElem hc]
    rfl
  · have h1 : (inp.vertexEquation earr used vid).length ≤ c := by
      rw [vertexEquation_length']; omega
    rw [List.getElem?_eq_none_iff.mpr h1, List.getElem?_eq_none_iff.mpr (by simp; omega)]

/-! ### reversal of a label -/

theorem contains_reverse (e : List Id) (v : Id) : e.reverse.contains v = e.contains v := by
  rw [Bool.eq_iff_iff]; simp

theorem endJunction3_reverse (m : Mesh) (e : List Id) : m.endJunction3 e.reverse = m.endJunction3 e := by
  unfold Mesh.endJunction3
  rw [List.head?_reverse, List.getLast?_reverse]
  cases e.head? <;> cases e.getLast? <;> simp [Bool.or_comm]

theorem bigEdgeExternal_reverse (m : Mesh) (e : List Id) : m.bigEdgeExternal e.reverse = m.bigEdgeExternal e := by
  unfold Mesh.bigEdgeExternal
  rw [List.any_reverse, endJunction3_reverse]

theorem ownCells_congr (m m' : Mesh) (hv : m'.vertices = m.vertices) : m'.ownCells = m.ownCells := by
  funext k; unfold Mesh.ownCells Mesh.vertex?; rw [hv]

theorem pt_congr (m m' : Mesh) (hv : m'.vertices = m.vertices) : m'.pt = m.pt := by
  funext k; unfold Mesh.pt Mesh.vertex?; rw [hv]

theorem bigEdgeExternal_congr (m m' : Mesh) (hv : m'.vertices = m.vertices) :
    m'.bigEdgeExternal = m.bigEdgeExternal := by
  funext e; unfold Mesh.bigEdgeExternal Mesh.endJunction3; rw [ownCells_congr m m' hv]

theorem two_le_of_ends (u : List Id) (h : u.head? ≠ u.getLast?) : 2 ≤ u.length := by
  rcases u with _ | ⟨a, _ | ⟨b, u⟩⟩
  · exact absurd rfl h
  · exact absurd rfl h
  · simp

/-- the entry of a column does not depend on the direction its interface is stored in, nor on where in the interface
    list it is stored, provided the centre found at its position is the same -/
theorem entryOf_rev (inp inp' : FMInput) (earr earr' : List (List Id)) (vid : Id) (s u : List Id)
    (hv : inp'.mesh.vertices = inp.mesh.vertices) (hR : s = u ∨ s = u.reverse)
    (hends : u.head? ≠ u.getLast?)
    (hcen : centreOf earr' inp'.centers s = centreOf earr inp.centers u) :
    entryOf inp' earr' vid s = entryOf inp earr vid u := by
  unfold entryOf
  rw [hcen, ownCells_congr _ _ hv, pt_congr _ _ hv, bigEdgeExternal_congr _ _ hv]
  rcases hR with rfl | rfl
  · rfl
  · rw [contains_reverse, bigEdgeExternal_reverse]
    split
    · congr 1
      funext c
      rw [List.map_reverse]
      exact vectorFromVertex_reverse u (u.map inp.mesh.pt) c vid (by simp) (two_le_of_ends u hends) hends
    · rfl

theorem map_eq_of_forall₂ {β γ δ : Type} {R : β → γ → Prop} {F : β → δ} {G : γ → δ} {l₁ : List β} {l₂ : List γ}
    (h : List.Forall₂ R l₁ l₂) (hFG : ∀ a b, R a b → b ∈ l₂ → F a = G b) : l₁.map F = l₂.map G := by
  induction h with
  | nil => rfl
  | cons hab _ ih =>
    rw [List.map_cons, List.map_cons, hFG _ _ hab List.mem_cons_self,
      ih fun a b r hb => hFG a b r (List.mem_cons_of_mem _ hb)]

theorem zipWith_map_right {β γ δ : Type} (g : β → γ → δ) (f : β → γ) (l : List β) :
    List.zipWith g l (l.map f) = l.map fun a => g a (f a) := by
  induction l with
  | nil => rfl
  | cons a l ih => simp [ih]

/-- the relation between a column of the variant and the column of the original it stands for -/
def ColRel (inp inp' : FMInput) (earr earr' : List (List Id)) (s u : List Id) : Prop :=
  (s = u ∨ s = u.reverse) ∧ centreOf earr' inp'.centers s = centreOf earr inp.centers u

section
variable (inp inp' : FMInput) (earr earr' used σ : List (List Id))
  (hv : inp'.mesh.vertices = inp.mesh.vertices)
  (hE : earr.Nodup) (hE' : earr'.Nodup) (hu : used.Nodup) (hσn : σ.Nodup)
  (hR : List.Forall₂ (ColRel inp inp' earr earr') σ used)
  (hends : ∀ u ∈ used, u.head? ≠ u.getLast?)
include hv hE hE' hu hσn hR hends

theorem vertexEquation_rev (vid : Id) :
    inp'.vertexEquation earr' σ vid = inp.vertexEquation earr used vid := by
  rw [vertexEquation_eq_map_label inp' earr' σ vid hE' hσn, vertexEquation_eq_map_label inp earr used vid hE hu]
  apply map_eq_of_forall₂ hR
  intro s u hsu hu'
  exact entryOf_rev inp inp' earr earr' vid s u hv hsu.1 (hends u hu') hsu.2

theorem rowOf_rev (len : Id → List Id → Rat) (hlen : ∀ v e, len v e.reverse = len v e) (vid : Id)
    (w : Rat → Option Vec → Rat) :
    List.zipWith (fun e o => w (len vid e) o) σ (inp'.vertexEquation earr' σ vid)
      = List.zipWith (fun e o => w (len vid e) o) used (inp.vertexEquation earr used vid) := by
  rw [vertexEquation_eq_map_label inp' earr' σ vid hE' hσn, vertexEquation_eq_map_label inp earr used vid hE hu,
    zipWith_map_right, zipWith_map_right]
  apply map_eq_of_forall₂ hR
  intro s u hsu hu'
  have h1 : len vid s = len vid u := by
    rcases hsu.1 with rfl | rfl
    · rfl
    · exact hlen vid u
  simp only [h1, entryOf_rev inp inp' earr earr' vid s u hv hsu.1 (hends u hu') hsu.2]

theorem matrixOf_rev (hig : inp'.ignoreFour = inp.ignoreFour) (tj : List Id)
    (len : Id → List Id → Rat) (hlen : ∀ v e, len v e.reverse = len v e) :
    matrixOf inp' earr' σ tj len = matrixOf inp earr used tj len := by
  unfold matrixOf rowXOf rowYOf
  simp only [vertexEquation_rev inp inp' earr earr' used σ hv hE hE' hu hσn hR hends, hig]
  apply List.flatMap_congr
  intro v _
  have hx := rowOf_rev inp inp' earr earr' used σ hv hE hE' hu hσn hR hends len hlen v unitX
  have hy := rowOf_rev inp inp' earr earr' used σ hv hE hE' hu hσn hR hends len hlen v unitY
  rw [vertexEquation_rev inp inp' earr earr' used σ hv hE hE' hu hσn hR hends] at hx hy
  rw [hx, hy]

end

/-! ### the centres travel with the interfaces: from a matching of (interface, centre) pairs to `ColRel` -/

theorem forall₂_exists_left {β γ : Type} {R : β → γ → Prop} {l₁ : List β} {l₂ : List γ}
    (h : List.Forall₂ R l₁ l₂) : ∀ b ∈ l₂, ∃ a ∈ l₁, R a b := by
  induction h with
  | nil => intro b hb; exact absurd hb (by simp)
  | cons hab _ ih =>
    intro b hb
    rcases List.mem_cons.1 hb with rfl | hb
    · exact ⟨_, List.mem_cons_self, hab⟩
    · obtain ⟨a, ha, hr⟩ := ih b hb
      exact ⟨a, List.mem_cons_of_mem _ ha, hr⟩

theorem forall₂_imp_mem {β γ : Type} {R S : β → γ → Prop} {l₁ : List β} {l₂ : List γ}
    (h : List.Forall₂ R l₁ l₂) (hRS : ∀ a ∈ l₁, ∀ b ∈ l₂, R a b → S a b) : List.Forall₂ S l₁ l₂ := by
  induction h with
  | nil => exact List.Forall₂.nil
  | cons hab _ ih =>
    refine List.Forall₂.cons (hRS _ List.mem_cons_self _ List.mem_cons_self hab) (ih ?_)
    intro a ha b hb r
    exact hRS a (List.mem_cons_of_mem _ ha) b (List.mem_cons_of_mem _ hb) r

/-- the centre read for an interface of the list is the one zipped with it -/
theorem centreOf_of_mem_zip (earr : List (List Id)) (centers : List Pt) (hE : earr.Nodup) (e : List Id) (c : Pt)
    (h : (e, c) ∈ List.zip earr centers) : centreOf earr centers e = some c := by
  obtain ⟨i, hi, hget⟩ := List.getElem_of_mem h
  rw [List.getElem_zip] at hget
  rw [List.length_zip] at hi
  have hi1 : i < earr.length := by omega
  have hi2 : i < centers.length := by omega
  have h1 : earr[i] = e := congrArg Prod.fst hget
  have h2 : centers[i] = c := congrArg Prod.snd hget
  unfold centreOf
  rw [← h1, indexOf?_getElem earr hE i hi1]
  simp [List.getD_eq_getElem?_getD, hi2, h2]

theorem nodupRev_eq (l : List (List Id)) (hl : NodupRev l) (a b : List Id) (ha : a ∈ l) (hb : b ∈ l)
    (h : a = b ∨ a = b.reverse) : a = b := by
  have hsymm : ∀ a b : List Id, (a ≠ b ∧ a.reverse ≠ b) → (b ≠ a ∧ b.reverse ≠ a) := by
    intro a b ⟨h1, h2⟩
    refine ⟨fun e => h1 e.symm, fun e => h2 ?_⟩
    rw [← e, List.reverse_reverse]
  have : Std.Symm (fun a b : List Id => a ≠ b ∧ a.reverse ≠ b) := ⟨hsymm⟩
  by_contra hne
  have := List.Pairwise.forall hl ha hb hne
  rcases h with h | h
  · exact hne h
  · apply this.2; rw [h, List.reverse_reverse]

/-- if the (interface, centre) pairs of the variant are, up to order and direction, those of the original, every
    column of the variant reads the centre of the column it stands for -/
theorem colRel_of_zip (inp inp' : FMInput) (earr earr' used used' σ : List (List Id))
    (hE : earr.Nodup) (hE' : earr'.Nodup) (hN' : NodupRev earr')
    (hc : inp.centers.length = earr.length)
    (ρ : List (List Id × Pt)) (hρ : ρ.Perm (List.zip earr' inp'.centers))
    (hρR : List.Forall₂ (fun a b => (a.1 = b.1 ∨ a.1 = b.1.reverse) ∧ a.2 = b.2) ρ (List.zip earr inp.centers))
    (hsub : ∀ u ∈ used, u ∈ earr) (hsub' : ∀ s ∈ used', s ∈ earr')
    (hσ : σ.Perm used') (hσR : List.Forall₂ (fun s u => s = u ∨ s = u.reverse) σ used) :
    List.Forall₂ (ColRel inp inp' earr earr') σ used := by
  apply forall₂_imp_mem hσR
  intro s hs u hu hsu
  refine ⟨hsu, ?_⟩
  -- the pair of `u` in the original list
  obtain ⟨i, hi, hget⟩ := List.getElem_of_mem (hsub u hu)
  have hi2 : i < inp.centers.length := by omega
  have hmem : (u, inp.centers[i]) ∈ List.zip earr inp.centers := by
    have : (List.zip earr inp.centers)[i]'(by rw [List.length_zip]; omega) = (u, inp.centers[i]) := by
      rw [List.getElem_zip, hget]
    rw [← this]; exact List.getElem_mem _
  rw [centreOf_of_mem_zip earr inp.centers hE u _ hmem]
  -- its partner in the variant
  obtain ⟨a, haρ, har, hac⟩ := forall₂_exists_left hρR _ hmem
  have haz : a ∈ List.zip earr' inp'.centers := hρ.mem_iff.1 haρ
  have ha1 : a.1 ∈ earr' := (List.of_mem_zip (a := a.1) (b := a.2) haz).1
  have hs' : s ∈ earr' := hsub' s (hσ.mem_iff.1 hs)
  have hsa : s = a.1 := by
    apply nodupRev_eq earr' hN' s a.1 hs' ha1
    simp only at har
    rcases hsu with rfl | rfl <;> rcases har with h | h <;> rw [h]
    · exact Or.inl rfl
    · exact Or.inr (List.reverse_reverse _).symm
    · exact Or.inr rfl
    · exact Or.inl rfl
  have : (s, inp.centers[i]) ∈ List.zip earr' inp'.centers := by
    have e : a = (s, inp.centers[i]) := by
      rw [hsa]; simp only at hac; rw [← hac]
    rw [← e]; exact haz
  exact centreOf_of_mem_zip earr' inp'.centers hE' s _ this

/-- TARGET 4: the least-squares objective for the variant, columns and junctions in any order, some interfaces
    stored backwards, is the objective of the original at the corresponding candidate -/
theorem residSq_relabel_rev (inp inp' : FMInput) (earr earr' used used' σ : List (List Id)) (tj tj' : List Id)
    (len : Id → List Id → Rat) (τ : List Id → Rat) (μ : Rat)
    (hv : inp'.mesh.vertices = inp.mesh.vertices) (hig : inp'.ignoreFour = inp.ignoreFour)
    (hE : earr.Nodup) (hE' : earr'.Nodup) (hu : used.Nodup) (hu' : used'.Nodup)
    (hσ : σ.Perm used') (hR : List.Forall₂ (ColRel inp inp' earr earr') σ used)
    (hends : ∀ u ∈ used, u.head? ≠ u.getLast?)
    (hτ : ∀ e, τ e.reverse = τ e) (hlen : ∀ v e, len v e.reverse = len v e) (ht : tj'.Perm tj) :
    residSq (augmented (matrixOf inp' earr' used' tj' len)).1 (augmented (matrixOf inp' earr' used' tj' len)).2
        (used'.map τ ++ [μ])
      = residSq (augmented (matrixOf inp earr used tj len)).1 (augmented (matrixOf inp earr used tj len)).2
        (used.map τ ++ [μ]) := by
  have hσn : σ.Nodup := hσ.nodup_iff.mpr hu'
  -- columns: from `used'` to its rearrangement `σ`, junctions from `tj'` to `tj`
  rw [← C07m.residSq_relabel inp' earr' used' σ tj' tj' len τ μ hu' hσ (List.Perm.refl _)]
  rw [C07m.residSq_relabel inp' earr' σ σ tj tj' len τ μ hσn (List.Perm.refl _) ht]
  -- `σ` against `used`: the same matrix, the same candidate
  rw [matrixOf_rev inp inp' earr earr' used σ hv hE hE' hu hσn hR hends hig tj len hlen]
  have hcand : σ.map τ = used.map τ := by
    apply map_eq_of_forall₂ hR
    intro s u hsu _
    rcases hsu.1 with rfl | rfl
    · rfl
    · exact hτ u
  rw [hcand]

/-! ### the model's own unknowns and junctions (no angle limit) -/

theorem map_getD_range (earr : List (List Id)) :
    (List.range earr.length).map (fun i => earr.getD i []) = earr := by
  apply List.ext_getElem?
  intro i
  by_cases hi : i < earr.length
  · simp [hi, List.getD_eq_getElem?_getD]
  · rw [List.getElem?_eq_none_iff.mpr (by simp; omega), List.getElem?_eq_none_iff.mpr (by omega)]

/-- the unknowns are a sub-list of the interface list (any angle limit) -/
theorem used_sublist (inp : FMInput) (earr : List (List Id)) : (inp.used earr).Sublist earr := by
  unfold FMInput.used
  refine List.Sublist.trans List.filter_sublist ?_
  unfold Mesh.internalIdx
  have h := (List.filter_sublist (l := List.range earr.length)
    (p := fun i => !((inp.mesh.externalEdgesId earr).contains i) && inp.mesh.endJunction3 (earr.getD i []))).map
    (fun i => earr.getD i [])
  rwa [map_getD_range] at h

theorem nodupRev_sublist (l l' : List (List Id)) (h : l'.Sublist l) (hl : NodupRev l) : NodupRev l' :=
  List.Pairwise.sublist h hl

/-- without an angle limit the unknowns are exactly the non-external interfaces -/
theorem mem_used_no_limit (inp : FMInput) (earr : List (List Id)) (hE : earr.Nodup) (hcl : inp.cosLimit = none)
    (u : List Id) : u ∈ inp.used earr ↔ u ∈ earr ∧ inp.mesh.bigEdgeExternal u = false := by
  rw [used_eq_usedIdx', usedIdx_no_limit inp earr hcl, List.mem_map]
  constructor
  · rintro ⟨i, hi, rfl⟩
    have hlt : i < earr.length := by
      unfold Mesh.internalIdx at hi
      simp only [List.mem_filter, List.mem_range] at hi
      exact hi.1
    refine ⟨?_, internal_not_external _ _ hE i hi⟩
    rw [List.getD_eq_getElem?_getD, List.getElem?_eq_getElem hlt, Option.getD_some]
    exact List.getElem_mem _
  · rintro ⟨hu, hext⟩
    obtain ⟨i, hi, rfl⟩ := List.getElem_of_mem hu
    have hg : earr.getD i [] = earr[i] := by
      rw [List.getD_eq_getElem?_getD, List.getElem?_eq_getElem hi, Option.getD_some]
    exact ⟨i, mem_internalIdx_of_not_external _ _ i hi (by rw [hg]; exact hext), hg⟩

theorem sameInterfaces_used (inp inp' : FMInput) (hv : inp'.mesh.vertices = inp.mesh.vertices)
    (hcl : inp.cosLimit = none) (hcl' : inp'.cosLimit = none) (hS : SameInterfaces inp'.earr inp.earr) :
    SameInterfaces inp'.build.used inp.build.used := by
  intro p
  have hE : inp.earr.Nodup := dedup_nodup _
  have hE' : inp'.earr.Nodup := dedup_nodup _
  have hext : ∀ e, inp'.mesh.bigEdgeExternal e = inp.mesh.bigEdgeExternal e :=
    fun e => congrFun (bigEdgeExternal_congr _ _ hv) e
  have key : ∀ (i : FMInput) (hc : i.cosLimit = none), memRev p i.build.used ↔
      (memRev p i.earr ∧ i.mesh.bigEdgeExternal p = false) := by
    intro i hc
    unfold memRev
    rw [build_used, mem_used_no_limit i i.earr (dedup_nodup _) hc, mem_used_no_limit i i.earr (dedup_nodup _) hc,
      bigEdgeExternal_reverse]
    constructor
    · rintro (⟨h1, h2⟩ | ⟨h1, h2⟩)
      · exact ⟨Or.inl h1, h2⟩
      · exact ⟨Or.inr h1, h2⟩
    · rintro ⟨h1 | h1, h2⟩
      · exact Or.inl ⟨h1, h2⟩
      · exact Or.inr ⟨h1, h2⟩
  rw [key inp' hcl', key inp hcl, hext, hS p]

theorem nodup_eraseDups {β : Type} [BEq β] [LawfulBEq β] (l : List β) : l.eraseDups.Nodup := by
  induction h : l.length using Nat.strong_induction_on generalizing l with
  | _ n ih =>
    cases l with
    | nil => simp
    | cons a as =>
      rw [List.eraseDups_cons, List.nodup_cons]
      refine ⟨?_, ?_⟩
      · rw [List.mem_eraseDups]; simp
      · subst h
        exact ih _ (Nat.lt_succ_of_le (List.length_filter_le _ _)) _ rfl

theorem mem_endsOf_iff (es : List (List Id)) (v : Id) :
    v ∈ endsOf es ↔ ∃ e ∈ es, e.head? = some v ∨ e.getLast? = some v := by
  unfold endsOf
  rw [List.mem_eraseDups]
  simp only [List.mem_flatten, List.mem_map]
  constructor
  · rintro ⟨_, ⟨e, he, rfl⟩, hv⟩
    refine ⟨e, he, ?_⟩
    simpa [List.mem_append, Option.mem_toList] using hv
  · rintro ⟨e, he, hv⟩
    refine ⟨_, ⟨e, he, rfl⟩, ?_⟩
    simpa [List.mem_append, Option.mem_toList] using hv

/-- the junction lists of two column lists holding the same interfaces up to direction are permutations of each other -/
theorem endsOf_perm (A B : List (List Id)) (h : SameInterfaces A B) : (endsOf A).Perm (endsOf B) := by
  have hdir : ∀ A B : List (List Id), SameInterfaces A B → ∀ v, v ∈ endsOf A → v ∈ endsOf B := by
    intro A B h v hv
    rw [mem_endsOf_iff] at hv ⊢
    obtain ⟨e, he, hv⟩ := hv
    rcases (h e).1 (Or.inl he) with h1 | h1
    · exact ⟨e, h1, hv⟩
    · refine ⟨e.reverse, h1, ?_⟩
      rw [List.head?_reverse, List.getLast?_reverse]
      exact hv.symm
  have hn : ∀ L : List (List Id), (endsOf L).Nodup := fun L => nodup_eraseDups _
  rw [List.perm_ext_iff_of_nodup (hn A) (hn B)]
  intro v
  exact ⟨hdir A B h v, hdir B A (fun p => (h p).symm) v⟩

/-- END TO END (no angle limit): an input with the same vertices whose interface list holds the same interfaces up to
    direction, and whose centres travel with the interfaces, has the same unknowns and junctions up to order and
    direction, and the same least-squares objective as a function of the tension per interface -/
theorem residSq_storage_model (inp inp' : FMInput)
    (hv : inp'.mesh.vertices = inp.mesh.vertices) (hig : inp'.ignoreFour = inp.ignoreFour)
    (hcl : inp.cosLimit = none) (hcl' : inp'.cosLimit = none)
    (hS : SameInterfaces inp'.earr inp.earr)
    (hc : inp.centers.length = inp.earr.length)
    (ρ : List (List Id × Pt)) (hρ : ρ.Perm (List.zip inp'.earr inp'.centers))
    (hρR : List.Forall₂ (fun a b => (a.1 = b.1 ∨ a.1 = b.1.reverse) ∧ a.2 = b.2) ρ (List.zip inp.earr inp.centers))
    (hends : ∀ u ∈ inp.build.used, u.head? ≠ u.getLast?)
    (len : Id → List Id → Rat) (τ : List Id → Rat) (μ : Rat)
    (hτ : ∀ e, τ e.reverse = τ e) (hlen : ∀ v e, len v e.reverse = len v e) :
    (∃ σ : List (List Id), σ.Perm inp'.build.used ∧
      List.Forall₂ (fun s u => s = u ∨ s = u.reverse) σ inp.build.used) ∧
    (endsOf inp'.build.used).Perm (endsOf inp.build.used) ∧
    residSq (augmented (normalisedMatrix inp' (fun v c => len v (inp'.build.used.getD c [])))).1
        (augmented (normalisedMatrix inp' (fun v c => len v (inp'.build.used.getD c [])))).2
        (inp'.build.used.map τ ++ [μ])
      = residSq (augmented (normalisedMatrix inp (fun v c => len v (inp.build.used.getD c [])))).1
        (augmented (normalisedMatrix inp (fun v c => len v (inp.build.used.getD c [])))).2
        (inp.build.used.map τ ++ [μ]) := by
  have hE : inp.earr.Nodup := dedup_nodup _
  have hE' : inp'.earr.Nodup := dedup_nodup _
  have hN : NodupRev inp.earr := dedup_pairwise _
  have hN' : NodupRev inp'.earr := dedup_pairwise _
  have hSu := sameInterfaces_used inp inp' hv hcl hcl' hS
  have hNu : NodupRev inp.build.used := nodupRev_sublist _ _ (used_sublist inp inp.earr) hN
  have hNu' : NodupRev inp'.build.used := nodupRev_sublist _ _ (used_sublist inp' inp'.earr) hN'
  have hu : inp.build.used.Nodup := hNu.imp fun h => h.1
  have hu' : inp'.build.used.Nodup := hNu'.imp fun h => h.1
  have hσ := map_pick_perm inp'.build.used inp.build.used hNu' hNu hSu
  have hσR := forall₂_pick inp'.build.used inp.build.used
  have ht := endsOf_perm _ _ hSu
  refine ⟨⟨_, hσ, hσR⟩, ht, ?_⟩
  have hR := colRel_of_zip inp inp' inp.earr inp'.earr inp.build.used inp'.build.used _ hE hE' hN' hc ρ hρ hρR
    (fun u hu => (used_sublist inp inp.earr).subset hu) (fun s hs => (used_sublist inp' inp'.earr).subset hs) hσ hσR
  rw [C07m.matrixOf_build inp' len, C07m.matrixOf_build inp len]
  exact residSq_relabel_rev inp inp' inp.earr inp'.earr inp.build.used inp'.build.used _ _ _ len τ μ hv hig hE hE'
    hu hu' hσ hR hends hτ hlen ht

/-! ### the vertex and mesh-edge dictionaries in another order -/

theorem keysNodup_iff {β : Type} (l : List (Id × β)) : Mesh.keysNodup l = true ↔ (l.map Prod.fst).Nodup := by
  induction l with
  | nil => simp [Mesh.keysNodup]
  | cons p l ih =>
    obtain ⟨k, v⟩ := p
    simp only [Mesh.keysNodup, Bool.and_eq_true, Bool.not_eq_true', List.map_cons, List.nodup_cons, ih]
    constructor
    · rintro ⟨h1, h2⟩
      refine ⟨?_, h2⟩
      intro hm
      obtain ⟨q, hq, hqk⟩ := List.mem_map.1 hm
      have : l.any (fun p => p.1 == k) = true := List.any_eq_true.2 ⟨q, hq, by simp [hqk]⟩
      rw [h1] at this; exact absurd this (by simp)
    · rintro ⟨h1, h2⟩
      refine ⟨?_, h2⟩
      cases h : l.any (fun p => p.1 == k) with
      | false => rfl
      | true =>
        obtain ⟨q, hq, hqk⟩ := List.any_eq_true.1 h
        exact absurd (List.mem_map.2 ⟨q, hq, by simpa using hqk⟩) h1

theorem alGet?_some_iff {β : Type} (l : List (Id × β)) (hk : (l.map Prod.fst).Nodup) (k : Id) (v : β) :
    alGet? k l = some v ↔ (k, v) ∈ l := by
  induction l with
  | nil => simp [alGet?]
  | cons p l ih =>
    obtain ⟨k', v'⟩ := p
    simp only [List.map_cons, List.nodup_cons] at hk
    simp only [alGet?]
    split
    · next h =>
      subst h
      simp only [Option.some.injEq, List.mem_cons, Prod.mk.injEq, true_and]
      constructor
      · intro h; exact Or.inl h.symm
      · rintro (h | h)
        · exact h.symm
        · exact absurd (List.mem_map.2 ⟨_, h, rfl⟩) hk.1
    · next h =>
      rw [ih hk.2]
      simp only [List.mem_cons, Prod.mk.injEq]
      constructor
      · intro hm; exact Or.inr hm
      · rintro (⟨h1, _⟩ | hm)
        · exact absurd h1 h
        · exact hm

theorem alGet?_perm {β : Type} (l l' : List (Id × β)) (hp : l'.Perm l) (hk : Mesh.keysNodup l = true) (k : Id) :
    alGet? k l' = alGet? k l := by
  have hn : (l.map Prod.fst).Nodup := (keysNodup_iff l).1 hk
  have hn' : (l'.map Prod.fst).Nodup := (hp.map _).nodup_iff.2 hn
  apply Option.ext
  intro v
  rw [alGet?_some_iff l hn, alGet?_some_iff l' hn', hp.mem_iff]

/-- `_build_matrix` reads the mesh only through the vertex look-up and the cell dictionary -/
theorem build_congr (inp inp' : FMInput) (hvx : ∀ k, inp'.mesh.vertex? k = inp.mesh.vertex? k)
    (hcells : inp'.mesh.cells = inp.mesh.cells) (hcen : inp'.centers = inp.centers)
    (hcl : inp'.cosLimit = inp.cosLimit) (hig : inp'.ignoreFour = inp.ignoreFour) : inp'.build = inp.build := by
  have h1 : inp'.mesh.ownCells = inp.mesh.ownCells := by funext k; unfold Mesh.ownCells; rw [hvx]
  have h2 : inp'.mesh.ownEdges = inp.mesh.ownEdges := by funext k; unfold Mesh.ownEdges; rw [hvx]
  have h3 : inp'.mesh.pt = inp.mesh.pt := by funext k; unfold Mesh.pt; rw [hvx]
  have h4 : inp'.mesh.isJunction = inp.mesh.isJunction := by funext k; unfold Mesh.isJunction; rw [h2]
  have h5 : inp'.mesh.bigEdgesList = inp.mesh.bigEdgesList := by unfold Mesh.bigEdgesList; rw [h4, hcells]
  unfold FMInput.build FMInput.earr FMInput.used FMInput.deletes FMInput.vertexEquation FMInput.exceeds FMInput.vecAt
    Mesh.internalIdx Mesh.externalEdgesId Mesh.borderEdges Mesh.bigEdgeExternal Mesh.endJunction3
  simp only [h1, h3, h5, hcen, hcl, hig]

theorem normalisedMatrix_congr (inp inp' : FMInput) (h : inp'.build = inp.build) (len : Id → Nat → Rat) :
    normalisedMatrix inp' len = normalisedMatrix inp len := by
  unfold normalisedMatrix rowX rowY
  rw [h]

end C07o
end Forsys
