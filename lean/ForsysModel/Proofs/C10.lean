/-
  helper lemmas for Props/C10.lean.
  The structures `WF`, `WFK`, `FI`, `SI` and the predicates `noSS`, `noSP` mirror `WFFrame`, `WFKernels`, `FInv`, `SInv`,
  `noSolveStress`, `noSolvePressure` of the Props file (which imports this file); the primed theorems are the full proofs.
-/
import ForsysModel.Model.Session
import Mathlib.Algebra.Order.Field.Rat
import Mathlib.Tactic.FieldSimp
import Mathlib.Algebra.BigOperators.Group.List.Basic

namespace Forsys.C10
open Forsys

variable {B O P : Type}

/-! ### generic list bookkeeping -/

theorem zipRange_map_getElem? {α : Type} (l : List α) (g : Nat → α → α) (s : Nat) :
    ((List.zip (List.range l.length) l).map fun p => g p.1 p.2)[s]? = (l[s]?).map (g s) := by
  rw [List.getElem?_map]
  by_cases hs : s < l.length
  · have h1 : (List.zip (List.range l.length) l)[s]? = some (s, l[s]) := by
      rw [List.getElem?_zip_eq_some]; simp [hs]
    rw [h1]; simp [hs]
  · have h1 : (List.zip (List.range l.length) l)[s]? = none := by
      rw [List.getElem?_eq_none_iff]; simp; omega
    have h2 : l[s]? = none := by rw [List.getElem?_eq_none_iff]; omega
    simp [h1, h2]

theorem listSet_length {α : Type} (l : List α) (i : Nat) (a : α) : (listSet l i a).length = l.length := by
  simp [listSet, FMInput.setAt]

theorem listSet_getElem? {α : Type} (l : List α) (i j : Nat) (a : α) :
    (listSet l i a)[j]? = if j = i then (l[j]?).map (fun _ => a) else l[j]? := by
  have h := zipRange_map_getElem? l (fun k b => if k = i then a else b) j
  simp only [listSet, FMInput.setAt]
  rw [h]
  split <;> simp

theorem listSet_getElem?_ne {α : Type} (l : List α) (i j : Nat) (a : α) (h : j ≠ i) :
    (listSet l i a)[j]? = l[j]? := by
  rw [listSet_getElem?]; simp [h]

theorem listSet_getElem?_self {α : Type} (l : List α) (i : Nat) (a : α) (h : i < l.length) :
    (listSet l i a)[i]? = some a := by
  rw [listSet_getElem?]; simp [h]

/-! ### updFrame -/

theorem updFrame_frames_length (st : SState B) (t : Nat) (f : FState B → FState B) :
    (updFrame st t f).frames.length = st.frames.length := by
  simp [updFrame]

theorem updFrame_frames_getElem? (st : SState B) (t s : Nat) (f : FState B → FState B) :
    (updFrame st t f).frames[s]? = if s = t then (st.frames[s]?).map f else st.frames[s]? := by
  have h := zipRange_map_getElem? st.frames (fun k b => if k = t then f b else b) s
  simp only [updFrame]
  rw [h]
  split <;> simp

theorem updFrame_storeForces (st : SState B) (t : Nat) (f : FState B → FState B) :
    (updFrame st t f).storeForces = st.storeForces := rfl

theorem updFrame_storePress (st : SState B) (t : Nat) (f : FState B → FState B) :
    (updFrame st t f).storePress = st.storePress := rfl

/-! ### writeEdges -/

theorem writeEdges_length (T : List Rat) (es : List Nat) (v : Rat) : (writeEdges T es v).length = T.length := by
  unfold writeEdges
  induction es generalizing T with
  | nil => rfl
  | cons e es ih => simp [ih, listSet_length]

theorem writeEdges_getElem? (T : List Rat) (es : List Nat) (v : Rat) (e : Nat) :
    (writeEdges T es v)[e]? = if e ∈ es then (T[e]?).map (fun _ => v) else T[e]? := by
  unfold writeEdges
  induction es generalizing T with
  | nil => simp
  | cons a es ih =>
    simp only [List.foldl_cons, ih, listSet_getElem?]
    by_cases h1 : e = a <;> by_cases h2 : e ∈ es <;> simp [h1, h2, Function.comp_def]

/-! ### mean of a constant list -/

theorem mean_const (l : List Rat) (c : Rat) (hne : l ≠ []) (h : ∀ a ∈ l, a = c) : mean l = c := by
  have hl : l = List.replicate l.length c := List.eq_replicate_iff.mpr ⟨rfl, h⟩
  have hpos : 0 < l.length := List.length_pos_iff.mpr hne
  unfold mean
  have : l.isEmpty = false := by simp [hne]
  rw [this]
  simp only [Bool.false_eq_true, if_false]
  rw [hl, List.sum_replicate, List.length_replicate]
  have : (l.length : Rat) ≠ 0 := by exact_mod_cast hpos.ne'
  simp only [nsmul_eq_mul]
  field_simp


/-! ### the two phases of writeBack (over an abstract "edges of interface" function) -/

def clearPhase (E : Nat → List Nat) (is : List Nat) (T : List Rat) : List Rat :=
  is.foldl (fun t i => writeEdges t (E i) 0) T

def writePhase (E : Nat → List Nat) (ps : List (Nat × Rat)) (T : List Rat) : List Rat :=
  ps.foldl (fun t p => writeEdges t (E p.1) p.2) T

/-- edges of interface `i` -/
def edgesAt (fr : SFrame) (i : Nat) : List Nat := fr.edgesOf.getD i []

theorem writeBack_eq (fr : SFrame) (used : List Nat) (x T : List Rat) :
    writeBack fr used x T = writePhase (edgesAt fr) (List.zip used x) (clearPhase (edgesAt fr) fr.internal T) := rfl

theorem clearPhase_length (E : Nat → List Nat) (is : List Nat) (T : List Rat) : (clearPhase E is T).length = T.length := by
  unfold clearPhase
  induction is generalizing T with
  | nil => rfl
  | cons i is ih => simp [ih, writeEdges_length]

theorem writePhase_length (E : Nat → List Nat) (ps : List (Nat × Rat)) (T : List Rat) : (writePhase E ps T).length = T.length := by
  unfold writePhase
  induction ps generalizing T with
  | nil => rfl
  | cons i is ih => simp [ih, writeEdges_length]

theorem writeBack_length (fr : SFrame) (used : List Nat) (x T : List Rat) : (writeBack fr used x T).length = T.length := by
  rw [writeBack_eq, writePhase_length, clearPhase_length]

theorem clearPhase_getElem? (E : Nat → List Nat) (is : List Nat) (T : List Rat) (e : Nat) :
    (clearPhase E is T)[e]? =
      if ∃ i ∈ is, e ∈ E i then (T[e]?).map (fun _ => (0 : Rat)) else T[e]? := by
  unfold clearPhase
  induction is generalizing T with
  | nil => simp
  | cons a is ih =>
    simp only [List.foldl_cons, ih, writeEdges_getElem?]
    by_cases h1 : e ∈ E a <;> by_cases h2 : ∃ i ∈ is, e ∈ E i <;>
      simp [h1, h2, Function.comp_def]

theorem writePhase_untouched (E : Nat → List Nat) (ps : List (Nat × Rat)) (T : List Rat) (e : Nat)
    (h : ∀ p ∈ ps, e ∉ E p.1) : (writePhase E ps T)[e]? = T[e]? := by
  unfold writePhase
  induction ps generalizing T with
  | nil => rfl
  | cons p ps ih =>
    simp only [List.foldl_cons]
    rw [ih _ (fun q hq => h q (List.mem_cons_of_mem _ hq)), writeEdges_getElem?]
    simp [h p (List.mem_cons_self)]

theorem writePhase_map (E : Nat → List Nat) (ps : List (Nat × Rat)) (e : Nat) :
    ∃ g : Rat → Rat, ∀ T : List Rat, (writePhase E ps T)[e]? = (T[e]?).map g := by
  unfold writePhase
  induction ps with
  | nil => exact ⟨id, fun T => by simp⟩
  | cons p ps ih =>
    obtain ⟨g, hg⟩ := ih
    by_cases h1 : e ∈ E p.1
    · refine ⟨fun a => g p.2, fun T => ?_⟩
      simp only [List.foldl_cons, hg, writeEdges_getElem?, h1, if_true, Option.map_map, Function.comp_def]
    · refine ⟨g, fun T => ?_⟩
      simp only [List.foldl_cons, hg, writeEdges_getElem?, h1, if_false]

theorem writePhase_hit (E : Nat → List Nat) (ps : List (Nat × Rat)) (T : List Rat) (e k i : Nat) (v : Rat)
    (hnd : (ps.map Prod.fst).Nodup) (hk : ps[k]? = some (i, v)) (he : e ∈ E i)
    (hdis : ∀ j, j ≠ i → j ∈ ps.map Prod.fst → e ∉ E j) :
    (writePhase E ps T)[e]? = (T[e]?).map (fun _ => v) := by
  induction ps generalizing T k with
  | nil => simp at hk
  | cons p ps ih =>
    simp only [List.map_cons, List.nodup_cons] at hnd
    cases k with
    | zero =>
      simp only [List.getElem?_cons_zero, Option.some.injEq] at hk
      subst hk
      show (writePhase E ps (writeEdges T _ _))[e]? = _
      rw [writePhase_untouched, writeEdges_getElem?]
      · simp [he]
      · intro q hq
        have hq1 : q.1 ∈ ps.map Prod.fst := List.mem_map_of_mem hq
        apply hdis q.1 _ (List.mem_cons_of_mem _ hq1)
        intro hc; exact hnd.1 (hc ▸ hq1)
    | succ k =>
      simp only [List.getElem?_cons_succ] at hk
      show (writePhase E ps (writeEdges T _ _))[e]? = _
      rw [ih _ k hnd.2 hk (fun j hj hm => hdis j hj (List.mem_cons_of_mem _ hm)), writeEdges_getElem?]
      split <;> simp [Function.comp_def]


/-! ### well-formed frames (mirror of `WFFrame` in the Props file) and the facts about `writeBack` -/

structure WF (fr : SFrame) : Prop where
  internal_nodup : fr.internal.Nodup
  internal_lt : ∀ i ∈ fr.internal, i < fr.edgesOf.length
  edges_lt : ∀ es ∈ fr.edgesOf, ∀ e ∈ es, e < fr.nEdges
  nonempty : ∀ es ∈ fr.edgesOf, es ≠ []
  disjoint : ∀ i j, i < fr.edgesOf.length → j < fr.edgesOf.length → i ≠ j →
      ∀ e ∈ fr.edgesOf.getD i [], e ∉ fr.edgesOf.getD j []
  covered : ∀ e, e < fr.nEdges → ∃ i, i < fr.edgesOf.length ∧ e ∈ fr.edgesOf.getD i []

theorem edgesAt_mem (fr : SFrame) (i : Nat) (hi : i < fr.edgesOf.length) : edgesAt fr i ∈ fr.edgesOf := by
  simp [edgesAt, hi]

theorem WF.edge_lt {fr : SFrame} (hw : WF fr) {i e : Nat} (hi : i < fr.edgesOf.length) (he : e ∈ edgesAt fr i) :
    e < fr.nEdges := hw.edges_lt _ (edgesAt_mem fr i hi) e he

theorem WF.disj {fr : SFrame} (hw : WF fr) {i j e : Nat} (hi : i < fr.edgesOf.length) (hj : j < fr.edgesOf.length)
    (hij : i ≠ j) (he : e ∈ edgesAt fr i) : e ∉ edgesAt fr j := hw.disjoint i j hi hj hij e he

theorem zip_getElem?_used (used : List Nat) (x : List Rat) (hx : x.length = used.length) (k i : Nat)
    (hk : used[k]? = some i) : (List.zip used x)[k]? = some (i, x.getD k 0) := by
  rw [List.getElem?_zip_eq_some]
  have hlt : k < used.length := (List.getElem?_eq_some_iff.mp hk).1
  refine ⟨hk, ?_⟩
  simp [List.getD_eq_getElem?_getD, List.getElem?_eq_getElem (show k < x.length by omega)]

theorem map_fst_zip_used (used : List Nat) (x : List Rat) (hx : x.length = used.length) :
    (List.zip used x).map Prod.fst = used := by
  apply List.map_fst_zip; omega

theorem writeBack_used {fr : SFrame} (hw : WF fr) {used : List Nat} {x T : List Rat} {k i e : Nat}
    (hsub : used.Sublist fr.internal) (hx : x.length = used.length) (hk : used[k]? = some i)
    (he : e ∈ edgesAt fr i) (hT : T.length = fr.nEdges) :
    (writeBack fr used x T)[e]? = some (x.getD k 0) := by
  have hi_used : i ∈ used := List.mem_of_getElem? hk
  have hlt : ∀ j ∈ used, j < fr.edgesOf.length := fun j hj => hw.internal_lt j (hsub.subset hj)
  have hi : i < fr.edgesOf.length := hlt i hi_used
  have heT : e < T.length := by rw [hT]; exact hw.edge_lt hi he
  rw [writeBack_eq, writePhase_hit (edgesAt fr) _ _ e k i (x.getD k 0) _ (zip_getElem?_used used x hx k i hk) he]
  · have : e < (clearPhase (edgesAt fr) fr.internal T).length := by rw [clearPhase_length]; exact heT
    simp [List.getElem?_eq_getElem this]
  · intro j hji hj
    rw [map_fst_zip_used used x hx] at hj
    exact hw.disj hi (hlt j hj) (Ne.symm hji) he
  · rw [map_fst_zip_used used x hx]; exact hsub.nodup hw.internal_nodup

theorem zip_mem_used {used : List Nat} {x : List Rat} {p : Nat × Rat} (hp : p ∈ List.zip used x) : p.1 ∈ used :=
  (List.of_mem_zip hp).1

theorem writeBack_unused {fr : SFrame} (hw : WF fr) {used : List Nat} {x T : List Rat} {i e : Nat}
    (hsub : used.Sublist fr.internal) (hi : i ∈ fr.internal) (hiu : i ∉ used)
    (he : e ∈ edgesAt fr i) (hT : T.length = fr.nEdges) :
    (writeBack fr used x T)[e]? = some 0 := by
  have hlt : ∀ j ∈ used, j < fr.edgesOf.length := fun j hj => hw.internal_lt j (hsub.subset hj)
  have hil : i < fr.edgesOf.length := hw.internal_lt i hi
  have heT : e < T.length := by rw [hT]; exact hw.edge_lt hil he
  rw [writeBack_eq, writePhase_untouched, clearPhase_getElem?]
  · rw [if_pos ⟨i, hi, he⟩]; simp [List.getElem?_eq_getElem heT]
  · intro p hp
    have hp1 := zip_mem_used hp
    exact hw.disj hil (hlt _ hp1) (fun h => hiu (h ▸ hp1)) he

theorem writeBack_external {fr : SFrame} (hw : WF fr) {used : List Nat} {x T : List Rat} {i e : Nat}
    (hsub : used.Sublist fr.internal) (hil : i < fr.edgesOf.length) (hi : i ∉ fr.internal)
    (he : e ∈ edgesAt fr i) :
    (writeBack fr used x T)[e]? = T[e]? := by
  rw [writeBack_eq, writePhase_untouched, clearPhase_getElem?]
  · rw [if_neg]
    rintro ⟨j, hj, hej⟩
    exact hw.disj hil (hw.internal_lt j hj) (fun h => hi (h ▸ hj)) he hej
  · intro p hp
    have hp1 := hsub.subset (zip_mem_used hp)
    exact hw.disj hil (hw.internal_lt _ hp1) (fun h => hi (h ▸ hp1)) he

/-- history independence: two incoming tension lists of the right length that agree on every mesh edge which is not
    owned by an internal interface give the same result -/
theorem writeBack_pure (fr : SFrame) (used : List Nat) (x T1 T2 : List Rat) (hlen : T1.length = T2.length)
    (h : ∀ e, e < T1.length → (∃ i ∈ fr.internal, e ∈ edgesAt fr i) ∨ T1[e]? = T2[e]?) :
    writeBack fr used x T1 = writeBack fr used x T2 := by
  apply List.ext_getElem?
  intro e
  rw [writeBack_eq, writeBack_eq]
  obtain ⟨g, hg⟩ := writePhase_map (edgesAt fr) (List.zip used x) e
  rw [hg, hg]
  congr 1
  rw [clearPhase_getElem?, clearPhase_getElem?]
  by_cases he : e < T1.length
  · rcases h e he with hi | heq
    · rw [if_pos hi, if_pos hi]
      simp [List.getElem?_eq_getElem he, List.getElem?_eq_getElem (show e < T2.length by omega)]
    · rw [heq]
  · have h1 : T1[e]? = none := by rw [List.getElem?_eq_none_iff]; omega
    have h2 : T2[e]? = none := by rw [List.getElem?_eq_none_iff]; omega
    simp [h1, h2]

/-! ### assignBig -/

theorem assignBig_length (fr : SFrame) (T : List Rat) : (assignBig fr T).length = fr.edgesOf.length := by
  simp [assignBig]

theorem assignBig_getD_const {fr : SFrame} (hw : WF fr) (T : List Rat) (i : Nat) (c d : Rat) (hi : i < fr.edgesOf.length)
    (h : ∀ e ∈ edgesAt fr i, T.getD e 0 = c) : (assignBig fr T).getD i d = c := by
  have hne : edgesAt fr i ≠ [] := hw.nonempty _ (edgesAt_mem fr i hi)
  have h1 : (assignBig fr T).getD i d = meanOf ((edgesAt fr i).map fun e => T.getD e 0) := by
    simp [assignBig, edgesAt, hi]
  rw [h1, meanOf]
  apply mean_const
  · simpa using hne
  · intro a ha
    obtain ⟨e, he, rfl⟩ := List.mem_map.mp ha
    exact h e he


/-! ### reportForces -/

theorem indexOf?_of_nodup (used : List Nat) (k i : Nat) (hu : used.Nodup) (hk : used[k]? = some i) :
    indexOf? i used = some k := by
  induction used generalizing k with
  | nil => simp at hk
  | cons a l ih =>
    rw [List.nodup_cons] at hu
    cases k with
    | zero =>
      simp only [List.getElem?_cons_zero, Option.some.injEq] at hk
      simp [indexOf?, hk]
    | succ k =>
      simp only [List.getElem?_cons_succ] at hk
      have hne : i ≠ a := fun h => hu.1 (h ▸ List.mem_of_getElem? hk)
      simp [indexOf?, hne, ih k hu.2 hk]

theorem indexOf?_of_not_mem (used : List Nat) (i : Nat) (h : i ∉ used) : indexOf? i used = none := by
  induction used with
  | nil => rfl
  | cons a l ih =>
    simp only [List.mem_cons, not_or] at h
    simp [indexOf?, h.1, ih h.2]

theorem reportForces_spec' (internal used : List Nat) (x : List Rat) (hu : used.Nodup) :
    (reportForces internal used x).length = internal.length ∧
    (∀ (n i : Nat), internal[n]? = some i → ∀ (k : Nat), used[k]? = some i → (reportForces internal used x)[n]? = some (x.getD k 0)) ∧
    (∀ (n i : Nat), internal[n]? = some i → i ∉ used → (reportForces internal used x)[n]? = some (-1)) := by
  refine ⟨by simp [reportForces], ?_, ?_⟩
  · intro n i hn k hk
    simp only [reportForces, List.getElem?_map, hn, Option.map_some, indexOf?_of_nodup used k i hu hk]
  · intro n i hn hi
    simp only [reportForces, List.getElem?_map, hn, Option.map_some, indexOf?_of_not_mem used i hi]

/-! ### invariants (mirrors of `WFKernels`, `FInv`, `SInv`) -/

structure WFK (K : Kernels B O P) (frs : List SFrame) : Prop where
  used_sub : ∀ (t : Nat) (fr : SFrame), frs[t]? = some fr → ∀ b, (K.usedOf t b).Sublist fr.internal
  solve_len : ∀ t b o, (K.solveF t b o).length = (K.usedOf t b).length

structure FI (fr : SFrame) (f : FState B) : Prop where
  lenE : f.edgeT.length = fr.nEdges
  lenB : f.beT.length = fr.edgesOf.length
  extZero : ∀ i, i < fr.edgesOf.length → i ∉ fr.internal → ∀ e ∈ fr.edgesOf.getD i [], f.edgeT.getD e 0 = 0

def SI (frs : List SFrame) (st : SState B) : Prop :=
  st.frames.length = frs.length ∧ st.storeForces.length = frs.length ∧ st.storePress.length = frs.length ∧
  ∀ (t : Nat) (fr : SFrame) (f : FState B), frs[t]? = some fr → st.frames[t]? = some f → FI fr f

theorem FI.congr {fr : SFrame} {f g : FState B} (h : FI fr f) (h1 : g.edgeT = f.edgeT) (h2 : g.beT = f.beT) : FI fr g :=
  ⟨h1 ▸ h.lenE, h2 ▸ h.lenB, h1 ▸ h.extZero⟩

theorem init_frames_getElem? (frs : List SFrame) (t : Nat) (fr : SFrame) (h : frs[t]? = some fr) :
    (SState.init frs : SState B).frames[t]? = some (FState.init fr) := by
  simp [SState.init, h]

theorem init_inv' (frs : List SFrame) : SI frs (SState.init frs : SState B) := by
  refine ⟨by simp [SState.init], by simp [SState.init], by simp [SState.init], ?_⟩
  intro t fr f hfr hf
  rw [init_frames_getElem? frs t fr hfr] at hf
  cases hf
  refine ⟨by simp [FState.init], by simp [FState.init], ?_⟩
  intro i _ _ e _
  simp only [FState.init, List.getD_eq_getElem?_getD, List.getElem?_replicate]
  split <;> rfl

theorem SI.updFrame {frs : List SFrame} {st : SState B} (h : SI frs st) (t : Nat) (g : FState B → FState B)
    (hg : ∀ fr f, frs[t]? = some fr → st.frames[t]? = some f → FI fr f → FI fr (g f)) :
    SI frs (updFrame st t g) := by
  obtain ⟨h1, h2, h3, h4⟩ := h
  refine ⟨by rw [updFrame_frames_length]; exact h1, h2, h3, ?_⟩
  intro s fr f hfr hf
  rw [updFrame_frames_getElem?] at hf
  split at hf
  · next hst =>
    subst hst
    cases hfs : st.frames[s]? with
    | none => simp [hfs] at hf
    | some f0 =>
      simp only [hfs, Option.map_some, Option.some.injEq] at hf
      subst hf
      exact hg fr f0 hfr hfs (h4 s fr f0 hfr hfs)
  · exact h4 s fr f hfr hf

/-- `f'` is either `f` or `g f` -/
theorem updFrame_keep (st : SState B) (s t : Nat) (g : FState B → FState B) (f : FState B) (hf : st.frames[t]? = some f) :
    ∃ f', (updFrame st s g).frames[t]? = some f' ∧ (f' = f ∨ f' = g f) := by
  rw [updFrame_frames_getElem?, hf]
  split
  · exact ⟨g f, rfl, Or.inr rfl⟩
  · exact ⟨f, rfl, Or.inl rfl⟩

/-! ### the two non-trivial operations in closed form -/

def solvedFrame (K : Kernels B O P) (fr : SFrame) (t : Nat) (b : B) (o : O) (T : List Rat) (f : FState B) : FState B :=
  { f with edgeT := writeBack fr (K.usedOf t b) (K.solveF t b o) T,
           beT := assignBig fr (writeBack fr (K.usedOf t b) (K.solveF t b o) T),
           forces := some (reportForces fr.internal (K.usedOf t b) (K.solveF t b o)) }

def solvedState (K : Kernels B O P) (fr : SFrame) (st : SState B) (t : Nat) (b : B) (o : O) (T : List Rat) : SState B :=
  { updFrame st t (solvedFrame K fr t b o T) with
    storeForces := listSet st.storeForces t (some (reportForces fr.internal (K.usedOf t b) (K.solveF t b o))) }

def pressState (K : Kernels B O P) (st : SState B) (t : Nat) (ts : List Rat) (p : P) : SState B :=
  { updFrame st t (fun f => { f with cellP := some (K.pressF t ts p) }) with
    storePress := listSet st.storePress t (some (K.pressF t ts p)) }

theorem step_solveStress_some (K : Kernels B O P) (frs : List SFrame) (st : SState B) (t : Nat) (o : O)
    (fr : SFrame) (f : FState B) (b : B) (hfr : frs[t]? = some fr) (hf : st.frames[t]? = some f) (hb : f.build = some b) :
    step K frs st (.solveStress t o) = solvedState K fr st t b o f.edgeT := by
  simp only [step, hfr, hf, hb]
  rfl

theorem step_solveStress_cases (K : Kernels B O P) (frs : List SFrame) (st : SState B) (t : Nat) (o : O) :
    step K frs st (.solveStress t o) = st ∨
    ∃ fr f b, frs[t]? = some fr ∧ st.frames[t]? = some f ∧ f.build = some b ∧
      step K frs st (.solveStress t o) = solvedState K fr st t b o f.edgeT := by
  cases hfr : frs[t]? with
  | none => left; simp only [step, hfr]
  | some fr =>
    cases hf : st.frames[t]? with
    | none => left; simp only [step, hfr, hf]
    | some f =>
      cases hb : f.build with
      | none => left; simp only [step, hfr, hf, hb]
      | some b => right; exact ⟨fr, f, b, rfl, rfl, hb, step_solveStress_some K frs st t o fr f b hfr hf hb⟩

theorem step_solvePressure_some (K : Kernels B O P) (frs : List SFrame) (st : SState B) (t : Nat) (p : P)
    (f : FState B) (ts : List Rat) (hf : st.frames[t]? = some f) (hp : f.pbuild = some ts) :
    step K frs st (.solvePressure t p) = pressState K st t ts p := by
  simp only [step, hf, hp]
  rfl

theorem step_solvePressure_cases (K : Kernels B O P) (frs : List SFrame) (st : SState B) (t : Nat) (p : P) :
    step K frs st (.solvePressure t p) = st ∨
    ∃ f ts, st.frames[t]? = some f ∧ f.pbuild = some ts ∧ step K frs st (.solvePressure t p) = pressState K st t ts p := by
  cases hf : st.frames[t]? with
  | none => left; simp only [step, hf]
  | some f =>
    cases hp : f.pbuild with
    | none => left; simp only [step, hf, hp]
    | some ts => right; exact ⟨f, ts, rfl, hp, step_solvePressure_some K frs st t p f ts hf hp⟩


theorem getD_eq_of_getElem? {T1 T2 : List Rat} {e : Nat} (h : T1[e]? = T2[e]?) (d : Rat) : T1.getD e d = T2.getD e d := by
  simp [List.getD_eq_getElem?_getD, h]

theorem getD_of_getElem? {T : List Rat} {e : Nat} {v : Rat} (h : T[e]? = some v) (d : Rat) : T.getD e d = v := by
  simp [List.getD_eq_getElem?_getD, h]

theorem FI.solved {K : Kernels B O P} {fr : SFrame} {f : FState B} (hw : WF fr) (hf : FI fr f) (t : Nat) (b : B) (o : O)
    (hsub : (K.usedOf t b).Sublist fr.internal) : FI fr (solvedFrame K fr t b o f.edgeT f) := by
  refine ⟨?_, ?_, ?_⟩
  · show (writeBack _ _ _ _).length = _
    rw [writeBack_length]; exact hf.lenE
  · show (assignBig _ _).length = _
    exact assignBig_length _ _
  · intro i hil hi e he
    show (writeBack _ _ _ _).getD e 0 = 0
    rw [getD_eq_of_getElem? (writeBack_external hw hsub hil hi he)]
    exact hf.extZero i hil hi e he

/-! ### every operation preserves the invariant -/

theorem sysVel_inv (K : Kernels B O P) (frs : List SFrame) (ts : List Nat) (st : SState B) (h : SI frs st) :
    SI frs (ts.foldl (fun s t => updFrame s t fun f => { f with build := some K.defaultBuild }) st) := by
  induction ts generalizing st with
  | nil => exact h
  | cons a ts ih =>
    exact ih _ (h.updFrame a _ (fun fr f _ _ hfi => hfi.congr rfl rfl))

theorem step_inv' (K : Kernels B O P) (frs : List SFrame) (hw : ∀ fr ∈ frs, WF fr) (hk : WFK K frs)
    (st : SState B) (op : Op B O P) (h : SI frs st) : SI frs (step K frs st op) := by
  cases op with
  | buildForce t b => exact h.updFrame t _ (fun fr f _ _ hfi => hfi.congr rfl rfl)
  | buildPressure t => exact h.updFrame t _ (fun fr f _ _ hfi => hfi.congr rfl rfl)
  | sysVelocity ts => exact sysVel_inv K frs ts st h
  | solvePressure t p =>
    rcases step_solvePressure_cases K frs st t p with he | ⟨f, ts, hf, hp, he⟩
    · rw [he]; exact h
    · rw [he]
      have h' := h.updFrame t (fun f => { f with cellP := some (K.pressF t ts p) }) (fun fr f _ _ hfi => hfi.congr rfl rfl)
      obtain ⟨h1, h2, h3, h4⟩ := h'
      exact ⟨h1, h2, by show (listSet _ _ _).length = _; rw [listSet_length]; exact h.2.2.1, h4⟩
  | solveStress t o =>
    rcases step_solveStress_cases K frs st t o with he | ⟨fr, f, b, hfr, hf, hb, he⟩
    · rw [he]; exact h
    · rw [he]
      have hwf : WF fr := hw fr (List.mem_of_getElem? hfr)
      have h' := h.updFrame t (solvedFrame K fr t b o f.edgeT) (by
        intro fr' f' hfr' hf' hfi
        rw [hfr] at hfr'; rw [hf] at hf'; cases hfr'; cases hf'
        exact hfi.solved hwf t b o (hk.used_sub t fr hfr b))
      obtain ⟨h1, h2, h3, h4⟩ := h'
      exact ⟨h1, by show (listSet _ _ _).length = _; rw [listSet_length]; exact h.2.1, h3, h4⟩

theorem run_inv' (K : Kernels B O P) (frs : List SFrame) (hw : ∀ fr ∈ frs, WF fr) (hk : WFK K frs)
    (ops : List (Op B O P)) (st : SState B) (h : SI frs st) : SI frs (run K frs st ops) := by
  unfold run
  induction ops generalizing st with
  | nil => exact h
  | cons op ops ih => exact ih _ (step_inv' K frs hw hk st op h)

/-! ### frame locality -/

theorem solvedState_other (K : Kernels B O P) (fr : SFrame) (st : SState B) (s t : Nat) (b : B) (o : O) (T : List Rat) (hst : s ≠ t) :
    (solvedState K fr st s b o T).frames[t]? = st.frames[t]? ∧ (solvedState K fr st s b o T).storeForces[t]? = st.storeForces[t]? ∧
    (solvedState K fr st s b o T).storePress[t]? = st.storePress[t]? := by
  refine ⟨?_, ?_, rfl⟩
  · show (updFrame _ _ _).frames[t]? = _
    rw [updFrame_frames_getElem?, if_neg (Ne.symm hst)]
  · show (listSet _ _ _)[t]? = _
    rw [listSet_getElem?_ne _ _ _ _ (Ne.symm hst)]

theorem pressState_other (K : Kernels B O P) (st : SState B) (s t : Nat) (ts : List Rat) (p : P) (hst : s ≠ t) :
    (pressState K st s ts p).frames[t]? = st.frames[t]? ∧ (pressState K st s ts p).storeForces[t]? = st.storeForces[t]? ∧
    (pressState K st s ts p).storePress[t]? = st.storePress[t]? := by
  refine ⟨?_, rfl, ?_⟩
  · simp only [pressState]
    rw [updFrame_frames_getElem?, if_neg (Ne.symm hst)]
  · simp only [pressState]
    rw [listSet_getElem?_ne _ _ _ _ (Ne.symm hst)]

theorem step_other_frame' (K : Kernels B O P) (frs : List SFrame) (st : SState B) (op : Op B O P) (s t : Nat)
    (hs : op.frame = some s) (hst : s ≠ t) :
    (step K frs st op).frames[t]? = st.frames[t]? ∧ (step K frs st op).storeForces[t]? = st.storeForces[t]? ∧
    (step K frs st op).storePress[t]? = st.storePress[t]? := by
  cases op with
  | sysVelocity ts => simp [Op.frame] at hs
  | buildForce a b =>
    simp only [Op.frame, Option.some.injEq] at hs; subst hs
    refine ⟨?_, rfl, rfl⟩
    show (updFrame _ _ _).frames[t]? = _
    rw [updFrame_frames_getElem?, if_neg (Ne.symm hst)]
  | buildPressure a =>
    simp only [Op.frame, Option.some.injEq] at hs; subst hs
    refine ⟨?_, rfl, rfl⟩
    show (updFrame _ _ _).frames[t]? = _
    rw [updFrame_frames_getElem?, if_neg (Ne.symm hst)]
  | solveStress a o =>
    simp only [Op.frame, Option.some.injEq] at hs; subst hs
    rcases step_solveStress_cases K frs st a o with he | ⟨fr, f, b, _, _, _, he⟩
    · rw [he]; exact ⟨rfl, rfl, rfl⟩
    · rw [he]; exact solvedState_other K fr st a t b o f.edgeT hst
  | solvePressure a p =>
    simp only [Op.frame, Option.some.injEq] at hs; subst hs
    rcases step_solvePressure_cases K frs st a p with he | ⟨f, ts, _, _, he⟩
    · rw [he]; exact ⟨rfl, rfl, rfl⟩
    · rw [he]; exact pressState_other K st a t ts p hst

/-! ### get_system_velocity_per_frame -/

theorem sysVel_fields (K : Kernels B O P) (ts : List Nat) (st : SState B) (t : Nat) (f : FState B)
    (hf : st.frames[t]? = some f) :
    ∃ f', (ts.foldl (fun s t => updFrame s t fun f => { f with build := some K.defaultBuild }) st).frames[t]? = some f' ∧
      f'.edgeT = f.edgeT ∧ f'.beT = f.beT ∧ f'.forces = f.forces ∧ f'.pbuild = f.pbuild ∧ f'.cellP = f.cellP ∧
      (ts.foldl (fun s t => updFrame s t fun f => { f with build := some K.defaultBuild }) st).storeForces = st.storeForces ∧
      (ts.foldl (fun s t => updFrame s t fun f => { f with build := some K.defaultBuild }) st).storePress = st.storePress := by
  induction ts generalizing st f with
  | nil => exact ⟨f, hf, rfl, rfl, rfl, rfl, rfl, rfl, rfl⟩
  | cons a ts ih =>
    obtain ⟨f1, hf1, hor⟩ := updFrame_keep st a t (fun f => { f with build := some K.defaultBuild }) f hf
    obtain ⟨f', h0, h1, h2, h3, h4, h5, h6, h7⟩ := ih _ f1 hf1
    refine ⟨f', h0, ?_, ?_, ?_, ?_, ?_, h6, h7⟩ <;> rcases hor with rfl | rfl <;> simp_all

theorem sysVelocity_fields' (K : Kernels B O P) (frs : List SFrame) (st : SState B) (ts : List Nat) (t : Nat) (f : FState B)
    (hf : st.frames[t]? = some f) :
    ∃ f', (step K frs st (.sysVelocity ts)).frames[t]? = some f' ∧ f'.edgeT = f.edgeT ∧ f'.beT = f.beT ∧
      f'.forces = f.forces ∧ f'.pbuild = f.pbuild ∧ f'.cellP = f.cellP ∧
      (step K frs st (.sysVelocity ts)).storeForces = st.storeForces ∧ (step K frs st (.sysVelocity ts)).storePress = st.storePress :=
  sysVel_fields K ts st t f hf


/-! ### what one solve reports -/

theorem solvedState_frames_self (K : Kernels B O P) (fr : SFrame) (st : SState B) (t : Nat) (b : B) (o : O) (T : List Rat)
    (f : FState B) (hf : st.frames[t]? = some f) :
    (solvedState K fr st t b o T).frames[t]? = some (solvedFrame K fr t b o T f) := by
  show (updFrame _ _ _).frames[t]? = _
  rw [updFrame_frames_getElem?, if_pos rfl, hf]; rfl

theorem solveStress_report' (K : Kernels B O P) (frs : List SFrame) (st : SState B) (t : Nat) (o : O) (b : B)
    (fr : SFrame) (f : FState B) (hfr : frs[t]? = some fr) (hf : st.frames[t]? = some f) (hb : f.build = some b)
    (hw : WF fr) (hk : WFK K frs) (hinv : SI frs st) :
    ∃ f', (step K frs st (.solveStress t o)).frames[t]? = some f' ∧
      f'.forces = some (reportForces fr.internal (K.usedOf t b) (K.solveF t b o)) ∧
      (step K frs st (.solveStress t o)).storeForces[t]? = some f'.forces ∧
      (∀ (k i : Nat), (K.usedOf t b)[k]? = some i →
          f'.beT.getD i 0 = (K.solveF t b o).getD k 0 ∧ ∀ e ∈ fr.edgesOf.getD i [], f'.edgeT.getD e 0 = (K.solveF t b o).getD k 0) ∧
      (∀ i ∈ fr.internal, i ∉ K.usedOf t b → f'.beT.getD i 1 = 0) ∧
      (∀ i, i < fr.edgesOf.length → i ∉ fr.internal → f'.beT.getD i 1 = 0) := by
  have hsub := hk.used_sub t fr hfr b
  have hx := hk.solve_len t b o
  have hfi : FI fr f := hinv.2.2.2 t fr f hfr hf
  have htl : t < st.storeForces.length := by
    rw [hinv.2.1]; exact (List.getElem?_eq_some_iff.mp hfr).1
  rw [step_solveStress_some K frs st t o fr f b hfr hf hb]
  refine ⟨solvedFrame K fr t b o f.edgeT f, solvedState_frames_self K fr st t b o f.edgeT f hf, rfl, ?_, ?_, ?_, ?_⟩
  · show (listSet _ _ _)[t]? = _
    rw [listSet_getElem?_self _ _ _ htl]; rfl
  · intro k i hki
    have hil : i < fr.edgesOf.length := hw.internal_lt i (hsub.subset (List.mem_of_getElem? hki))
    have hE : ∀ e ∈ edgesAt fr i,
        (writeBack fr (K.usedOf t b) (K.solveF t b o) f.edgeT).getD e 0 = (K.solveF t b o).getD k 0 :=
      fun e he => getD_of_getElem? (writeBack_used hw hsub hx hki he hfi.lenE) 0
    exact ⟨assignBig_getD_const hw _ i _ 0 hil hE, hE⟩
  · intro i hi hiu
    exact assignBig_getD_const hw _ i 0 1 (hw.internal_lt i hi)
      (fun e he => getD_of_getElem? (writeBack_unused hw hsub hi hiu he hfi.lenE) 0)
  · intro i hil hi
    refine assignBig_getD_const hw _ i 0 1 hil (fun e he => ?_)
    rw [getD_eq_of_getElem? (writeBack_external hw hsub hil hi he)]
    exact hfi.extZero i hil hi e he

theorem solveStress_pure' (K : Kernels B O P) (frs : List SFrame) (st1 st2 : SState B) (t : Nat) (o : O) (b : B)
    (fr : SFrame) (f1 f2 : FState B) (hfr : frs[t]? = some fr) (hw : WF fr)
    (h1 : SI frs st1) (h2 : SI frs st2) (hf1 : st1.frames[t]? = some f1) (hf2 : st2.frames[t]? = some f2)
    (hb1 : f1.build = some b) (hb2 : f2.build = some b) :
    ∃ g1 g2, (step K frs st1 (.solveStress t o)).frames[t]? = some g1 ∧ (step K frs st2 (.solveStress t o)).frames[t]? = some g2 ∧
      g1.edgeT = g2.edgeT ∧ g1.beT = g2.beT ∧ g1.forces = g2.forces := by
  have hfi1 : FI fr f1 := h1.2.2.2 t fr f1 hfr hf1
  have hfi2 : FI fr f2 := h2.2.2.2 t fr f2 hfr hf2
  have heq : writeBack fr (K.usedOf t b) (K.solveF t b o) f1.edgeT = writeBack fr (K.usedOf t b) (K.solveF t b o) f2.edgeT := by
    apply writeBack_pure
    · rw [hfi1.lenE, hfi2.lenE]
    · intro e he
      have he1 := he
      rw [hfi1.lenE] at he
      obtain ⟨i, hil, hei⟩ := hw.covered e he
      by_cases hi : i ∈ fr.internal
      · exact Or.inl ⟨i, hi, hei⟩
      · right
        have z1 := hfi1.extZero i hil hi e hei
        have z2 := hfi2.extZero i hil hi e hei
        have he2 : e < f2.edgeT.length := by rw [hfi2.lenE]; exact he
        simp only [List.getD_eq_getElem?_getD, List.getElem?_eq_getElem he1, List.getElem?_eq_getElem he2,
          Option.getD_some] at z1 z2
        rw [List.getElem?_eq_getElem he1, List.getElem?_eq_getElem he2, z1, z2]
  rw [step_solveStress_some K frs st1 t o fr f1 b hfr hf1 hb1, step_solveStress_some K frs st2 t o fr f2 b hfr hf2 hb2]
  refine ⟨_, _, solvedState_frames_self K fr st1 t b o f1.edgeT f1 hf1, solvedState_frames_self K fr st2 t b o f2.edgeT f2 hf2, ?_, ?_, rfl⟩
  · exact heq
  · show assignBig _ _ = assignBig _ _
    rw [heq]

/-! ### operations that keep a frame's results -/

def noSS (t : Nat) : Op B O P → Bool
  | .solveStress s _ => s != t
  | _ => true

def noSP (t : Nat) : Op B O P → Bool
  | .solvePressure s _ => s != t
  | _ => true

theorem step_keep_stress (K : Kernels B O P) (frs : List SFrame) (st : SState B) (op : Op B O P) (t : Nat) (g : FState B)
    (hop : noSS t op = true) (hg : st.frames[t]? = some g) :
    ∃ g', (step K frs st op).frames[t]? = some g' ∧ g'.edgeT = g.edgeT ∧ g'.beT = g.beT ∧ g'.forces = g.forces ∧
      (step K frs st op).storeForces[t]? = st.storeForces[t]? := by
  cases op with
  | buildForce a b =>
    obtain ⟨f', h, hor⟩ := updFrame_keep st a t (fun f => { f with build := some b }) g hg
    exact ⟨f', h, by rcases hor with rfl | rfl <;> rfl, by rcases hor with rfl | rfl <;> rfl,
      by rcases hor with rfl | rfl <;> rfl, rfl⟩
  | buildPressure a =>
    obtain ⟨f', h, hor⟩ := updFrame_keep st a t (fun f => { f with pbuild := some f.beT }) g hg
    exact ⟨f', h, by rcases hor with rfl | rfl <;> rfl, by rcases hor with rfl | rfl <;> rfl,
      by rcases hor with rfl | rfl <;> rfl, rfl⟩
  | solveStress a o =>
    have hat : a ≠ t := by simpa [noSS] using hop
    obtain ⟨e1, e2, _⟩ := step_other_frame' K frs st (.solveStress a o) a t rfl hat
    exact ⟨g, by rw [e1]; exact hg, rfl, rfl, rfl, e2⟩
  | solvePressure a p =>
    rcases step_solvePressure_cases K frs st a p with he | ⟨f, ts, _, _, he⟩
    · rw [he]; exact ⟨g, hg, rfl, rfl, rfl, rfl⟩
    · rw [he]
      obtain ⟨f', h, hor⟩ := updFrame_keep st a t (fun f => { f with cellP := some (K.pressF a ts p) }) g hg
      exact ⟨f', h, by rcases hor with rfl | rfl <;> rfl, by rcases hor with rfl | rfl <;> rfl,
        by rcases hor with rfl | rfl <;> rfl, rfl⟩
  | sysVelocity ts =>
    obtain ⟨f', h0, h1, h2, h3, _, _, h6, _⟩ := sysVelocity_fields' K frs st ts t g hg
    exact ⟨f', h0, h1, h2, h3, by rw [h6]⟩

theorem run_keep_stress (K : Kernels B O P) (frs : List SFrame) (ops : List (Op B O P)) (st : SState B) (t : Nat) (g : FState B)
    (hops : ops.all (noSS t) = true) (hg : st.frames[t]? = some g) :
    ∃ g', (run K frs st ops).frames[t]? = some g' ∧ g'.edgeT = g.edgeT ∧ g'.beT = g.beT ∧ g'.forces = g.forces ∧
      (run K frs st ops).storeForces[t]? = st.storeForces[t]? := by
  unfold run
  induction ops generalizing st g with
  | nil => exact ⟨g, hg, rfl, rfl, rfl, rfl⟩
  | cons op ops ih =>
    simp only [List.all_cons, Bool.and_eq_true] at hops
    obtain ⟨g1, a0, a1, a2, a3, a4⟩ := step_keep_stress K frs st op t g hops.1 hg
    obtain ⟨g2, b0, b1, b2, b3, b4⟩ := ih (step K frs st op) g1 hops.2 a0
    exact ⟨g2, b0, b1.trans a1, b2.trans a2, b3.trans a3, b4.trans a4⟩

theorem step_keep_press (K : Kernels B O P) (frs : List SFrame) (st : SState B) (op : Op B O P) (t : Nat) (g : FState B)
    (hop : noSP t op = true) (hg : st.frames[t]? = some g) :
    ∃ g', (step K frs st op).frames[t]? = some g' ∧ g'.cellP = g.cellP ∧
      (step K frs st op).storePress[t]? = st.storePress[t]? := by
  cases op with
  | buildForce a b =>
    obtain ⟨f', h, hor⟩ := updFrame_keep st a t (fun f => { f with build := some b }) g hg
    exact ⟨f', h, by rcases hor with rfl | rfl <;> rfl, rfl⟩
  | buildPressure a =>
    obtain ⟨f', h, hor⟩ := updFrame_keep st a t (fun f => { f with pbuild := some f.beT }) g hg
    exact ⟨f', h, by rcases hor with rfl | rfl <;> rfl, rfl⟩
  | solvePressure a p =>
    have hat : a ≠ t := by simpa [noSP] using hop
    obtain ⟨e1, _, e3⟩ := step_other_frame' K frs st (.solvePressure a p) a t rfl hat
    exact ⟨g, by rw [e1]; exact hg, rfl, e3⟩
  | solveStress a o =>
    rcases step_solveStress_cases K frs st a o with he | ⟨fr, f, b, _, _, _, he⟩
    · rw [he]; exact ⟨g, hg, rfl, rfl⟩
    · rw [he]
      obtain ⟨f', h, hor⟩ := updFrame_keep st a t (solvedFrame K fr a b o f.edgeT) g hg
      exact ⟨f', h, by rcases hor with rfl | rfl <;> rfl, rfl⟩
  | sysVelocity ts =>
    obtain ⟨f', h0, _, _, _, _, h5, _, h7⟩ := sysVelocity_fields' K frs st ts t g hg
    exact ⟨f', h0, h5, by rw [h7]⟩

theorem run_keep_press (K : Kernels B O P) (frs : List SFrame) (ops : List (Op B O P)) (st : SState B) (t : Nat) (g : FState B)
    (hops : ops.all (noSP t) = true) (hg : st.frames[t]? = some g) :
    ∃ g', (run K frs st ops).frames[t]? = some g' ∧ g'.cellP = g.cellP ∧
      (run K frs st ops).storePress[t]? = st.storePress[t]? := by
  unfold run
  induction ops generalizing st g with
  | nil => exact ⟨g, hg, rfl, rfl⟩
  | cons op ops ih =>
    simp only [List.all_cons, Bool.and_eq_true] at hops
    obtain ⟨g1, a0, a1, a2⟩ := step_keep_press K frs st op t g hops.1 hg
    obtain ⟨g2, b0, b1, b2⟩ := ih (step K frs st op) g1 hops.2 a0
    exact ⟨g2, b0, b1.trans a1, b2.trans a2⟩

/-! ### whole histories -/

theorem run_split (K : Kernels B O P) (frs : List SFrame) (st : SState B) (pre post : List (Op B O P)) (op : Op B O P) :
    run K frs st (pre ++ [op] ++ post) = run K frs (step K frs (run K frs st pre) op) post := by
  simp [run, List.foldl_append]

theorem run_last_solve' (K : Kernels B O P) (frs : List SFrame) (hw : ∀ fr ∈ frs, WF fr) (hk : WFK K frs)
    (pre post : List (Op B O P)) (t : Nat) (o : O) (b : B) (fr : SFrame) (f : FState B)
    (hfr : frs[t]? = some fr) (hf : (run K frs (SState.init frs) pre).frames[t]? = some f) (hb : f.build = some b)
    (hpost : post.all (noSS t) = true) :
    ∃ g, (run K frs (SState.init frs) (pre ++ [.solveStress t o] ++ post)).frames[t]? = some g ∧
      g.forces = some (reportForces fr.internal (K.usedOf t b) (K.solveF t b o)) ∧
      (run K frs (SState.init frs) (pre ++ [.solveStress t o] ++ post)).storeForces[t]? = some g.forces := by
  have hinv := run_inv' K frs hw hk pre _ (init_inv' frs)
  obtain ⟨f', a0, a1, a2, _⟩ := solveStress_report' K frs _ t o b fr f hfr hf hb (hw fr (List.mem_of_getElem? hfr)) hk hinv
  obtain ⟨g, b0, _, _, b3, b4⟩ := run_keep_stress K frs post _ t f' hpost a0
  rw [run_split]
  exact ⟨g, b0, b3.trans a1, by rw [b4, a2, b3]⟩

theorem run_fresh_equiv' (K : Kernels B O P) (frs : List SFrame) (hw : ∀ fr ∈ frs, WF fr) (hk : WFK K frs)
    (pre post : List (Op B O P)) (t : Nat) (o : O) (b : B) (fr : SFrame) (f : FState B)
    (hfr : frs[t]? = some fr) (hf : (run K frs (SState.init frs) pre).frames[t]? = some f) (hb : f.build = some b)
    (hpost : post.all (noSS t) = true) :
    ∃ g h, (run K frs (SState.init frs) (pre ++ [.solveStress t o] ++ post)).frames[t]? = some g ∧
      (run K frs (SState.init frs) [.buildForce t b, .solveStress t o]).frames[t]? = some h ∧
      g.edgeT = h.edgeT ∧ g.beT = h.beT ∧ g.forces = h.forces := by
  have hinv1 := run_inv' K frs hw hk pre _ (init_inv' frs)
  have hinv2 : SI frs (step K frs (SState.init frs) (.buildForce t b)) := step_inv' K frs hw hk _ _ (init_inv' frs)
  have hf2 : (step K frs (SState.init frs : SState B) (.buildForce t b)).frames[t]? =
      some { (FState.init fr : FState B) with build := some b } := by
    show (updFrame _ _ _).frames[t]? = _
    rw [updFrame_frames_getElem?, if_pos rfl, init_frames_getElem? frs t fr hfr]; rfl
  obtain ⟨g1, g2, a1, a2, a3, a4, a5⟩ := solveStress_pure' K frs _ _ t o b fr f _ hfr (hw fr (List.mem_of_getElem? hfr))
    hinv1 hinv2 hf hf2 hb rfl
  obtain ⟨g, b0, b1, b2, b3, _⟩ := run_keep_stress K frs post _ t g1 hpost a1
  rw [run_split]
  exact ⟨g, g2, b0, a2, b1.trans a3, b2.trans a4, b3.trans a5⟩

theorem run_last_pressure' (K : Kernels B O P) (frs : List SFrame) (pre post : List (Op B O P)) (t : Nat) (p : P)
    (f : FState B) (ts : List Rat) (hlen : (run K frs (SState.init frs) pre).storePress.length = frs.length) (ht : t < frs.length)
    (hf : (run K frs (SState.init frs) pre).frames[t]? = some f) (hp : f.pbuild = some ts)
    (hpost : post.all (noSP t) = true) :
    ∃ g, (run K frs (SState.init frs) (pre ++ [.solvePressure t p] ++ post)).frames[t]? = some g ∧
      g.cellP = some (K.pressF t ts p) ∧
      (run K frs (SState.init frs) (pre ++ [.solvePressure t p] ++ post)).storePress[t]? = some (some (K.pressF t ts p)) := by
  rw [run_split, step_solvePressure_some K frs _ t p f ts hf hp]
  have a0 : (pressState K (run K frs (SState.init frs) pre) t ts p).frames[t]? = some { f with cellP := some (K.pressF t ts p) } := by
    simp only [pressState]
    rw [updFrame_frames_getElem?, if_pos rfl, hf]; rfl
  have a2 : (pressState K (run K frs (SState.init frs) pre) t ts p).storePress[t]? = some (some (K.pressF t ts p)) := by
    simp only [pressState]
    rw [listSet_getElem?_self]; omega
  obtain ⟨g, b0, b1, b2⟩ := run_keep_press K frs post _ t _ hpost a0
  exact ⟨g, b0, b1, by rw [b2, a2]⟩

end Forsys.C10
