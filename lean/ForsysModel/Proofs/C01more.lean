/-
  Helper lemmas for Props/C01more.lean (property C01, round 7).
-/
import ForsysModel.Props.C01tissue

namespace Forsys
open FMInput

namespace C01more

/-- the two weighted component sums of the turned pulls, in terms of the sums of the original pulls -/
theorem cmul_sums {α : Type} (p q : Rat) (w : α → Rat) (d : α → Vec) (l : List α) :
    (l.map fun c => w c * (cmul p q (d c)).x).sum
        = p * (l.map fun c => w c * (d c).x).sum - q * (l.map fun c => w c * (d c).y).sum ∧
    (l.map fun c => w c * (cmul p q (d c)).y).sum
        = q * (l.map fun c => w c * (d c).x).sum + p * (l.map fun c => w c * (d c).y).sum := by
  constructor
  · have := C01.sum_map_lin p (-q) (fun c => w c * (d c).x) (fun c => w c * (d c).y) l
    rw [show p * (l.map fun c => w c * (d c).x).sum - q * (l.map fun c => w c * (d c).y).sum
      = p * (l.map fun c => w c * (d c).x).sum + -q * (l.map fun c => w c * (d c).y).sum by ring, ← this]
    congr 1; apply List.map_congr_left; intro c _; simp only [cmul]; ring
  · have := C01.sum_map_lin q p (fun c => w c * (d c).x) (fun c => w c * (d c).y) l
    rw [← this]
    congr 1; apply List.map_congr_left; intro c _; simp only [cmul]; ring

theorem sum_map_mul_left {α : Type} (k : Rat) (f : α → Rat) (l : List α) :
    (l.map fun c => k * f c).sum = k * (l.map f).sum := by
  induction l with
  | nil => simp
  | cons a l ih => simp only [List.map_cons, List.sum_cons, ih]; ring

theorem tauVec_congr (n : Nat) (tau tau' : Nat → Rat) (h : ∀ c < n, tau c = tau' c) :
    tauVec n tau = tauVec n tau' := by
  unfold tauVec; apply List.map_congr_left; intro c hc; exact h c (List.mem_range.mp hc)

theorem tauVec_scale (n : Nat) (k : Rat) (tau : Nat → Rat) :
    tauVec n (fun c => k * tau c) = vscale k (tauVec n tau) := by
  simp [tauVec, vscale, List.map_map, Function.comp_def]

end C01more

end Forsys
