/- helper lemmas for Props/C13.lean -/
import ForsysModel.Model.TimeSeries
import ForsysModel.Model.FMatrix
import Mathlib.Algebra.Order.Field.Rat
namespace Forsys.C13

/-! ### `FMInput.setAt` and the fold of `placeVelocities` -/

theorem setAt_len {α : Type} (l : List α) (i : Nat) (a : α) : (FMInput.setAt l i a).length = l.length := by
  simp [FMInput.setAt]

theorem setAt_get {α : Type} (l : List α) (i j : Nat) (a : α) (hj : j < l.length) :
    (FMInput.setAt l i a)[j]? = if j = i then some a else l[j]? := by
  simp only [FMInput.setAt, List.getElem?_map]
  have h1 : (List.zip (List.range l.length) l)[j]? = some (j, l[j]) := by
    rw [List.getElem?_zip_eq_some]
    simp [hj]
  rw [h1]
  simp only [Option.map_some]
  split <;> simp [hj]

/-- one step of `placeVelocities` -/
def pvStep (b : List Rat) (r : Nat × Vec) : List Rat :=
  FMInput.setAt (FMInput.setAt b r.1 r.2.x) (r.1 + 1) r.2.y

theorem placeVelocities_eq (nrows : Nat) (rows : List (Nat × Vec)) :
    placeVelocities nrows rows = rows.foldl pvStep (List.replicate nrows 0) := by
  rfl

theorem pvStep_len (b : List Rat) (r : Nat × Vec) : (pvStep b r).length = b.length := by
  simp [pvStep, setAt_len]

theorem pvStep_get (b : List Rat) (r : Nat × Vec) (i : Nat) (hi : i < b.length) :
    (pvStep b r)[i]? = if i = r.1 + 1 then some r.2.y else if i = r.1 then some r.2.x else b[i]? := by
  unfold pvStep
  rw [setAt_get _ _ _ _ (by rw [setAt_len]; exact hi), setAt_get _ _ _ _ hi]

theorem pvFold_len (rows : List (Nat × Vec)) (b : List Rat) : (rows.foldl pvStep b).length = b.length := by
  induction rows generalizing b with
  | nil => rfl
  | cons r rows ih => rw [List.foldl_cons, ih, pvStep_len]

theorem pvFold_untouched (rows : List (Nat × Vec)) (b : List Rat) (i : Nat) (hi : i < b.length)
    (h : ∀ r ∈ rows, r.1 ≠ i ∧ r.1 + 1 ≠ i) : (rows.foldl pvStep b)[i]? = b[i]? := by
  induction rows generalizing b with
  | nil => rfl
  | cons r rows ih =>
    rw [List.foldl_cons, ih _ (by rw [pvStep_len]; exact hi) (fun r' hr' => h r' (List.mem_cons_of_mem _ hr')),
      pvStep_get _ _ _ hi]
    have := h r List.mem_cons_self
    rw [if_neg (fun e => this.2 e.symm), if_neg (fun e => this.1 e.symm)]

theorem pvFold_spec (rows : List (Nat × Vec)) (b : List Rat)
    (hd : (rows.map (·.1)).Nodup) (hev : ∀ r ∈ rows, r.1 % 2 = 0 ∧ r.1 + 1 < b.length) (j : Nat) (v : Vec)
    (hj : (j, v) ∈ rows) :
    (rows.foldl pvStep b)[j]? = some v.x ∧ (rows.foldl pvStep b)[j + 1]? = some v.y := by
  induction rows generalizing b with
  | nil => cases hj
  | cons r rows ih =>
    rw [List.foldl_cons]
    rw [List.map_cons, List.nodup_cons] at hd
    have hr := hev r List.mem_cons_self
    rcases List.mem_cons.1 hj with e | hmem
    · subst e
      have hno : ∀ r' ∈ rows, r'.1 ≠ j := by
        intro r' hr' e
        exact hd.1 (List.mem_map.2 ⟨r', hr', e⟩)
      have hpar : ∀ r' ∈ rows, r'.1 % 2 = 0 := fun r' hr' => (hev r' (List.mem_cons_of_mem _ hr')).1
      simp only at hr
      constructor
      · rw [pvFold_untouched _ _ _ (by rw [pvStep_len]; omega)
          (fun r' hr' => ⟨hno r' hr', by have := hpar r' hr'; omega⟩), pvStep_get _ _ _ (by omega)]
        simp
      · rw [pvFold_untouched _ _ _ (by rw [pvStep_len]; omega)
          (fun r' hr' => ⟨by have := hpar r' hr'; omega, by have := hno r' hr'; omega⟩),
          pvStep_get _ _ _ (by omega)]
        simp
    · exact ih _ hd.2 (fun r' hr' => by rw [pvStep_len]; exact hev r' (List.mem_cons_of_mem _ hr')) hmem


/-! ### inverting a step map -/

/-- key of the last entry of `m` whose value is `k` -/
def lastKey (k : Option Id) : StepMap → Option Id
  | [] => none
  | pr :: m => (lastKey k m).or (if pr.2 = k then some pr.1 else none)

def invStep (acc : List (Option Id × Id)) (p : Id × Option Id) : List (Option Id × Id) :=
  (acc.filter fun q => q.1 != p.2) ++ [(p.2, p.1)]

theorem invertMap_eq (m : StepMap) : invertMap m = m.foldl invStep [] := rfl

theorem lookupOpt_append (k : Option Id) (l₁ l₂ : List (Option Id × Id)) :
    lookupOpt k (l₁ ++ l₂) = (lookupOpt k l₁).or (lookupOpt k l₂) := by
  induction l₁ with
  | nil => simp [lookupOpt]
  | cons a l ih =>
    obtain ⟨k', v⟩ := a
    simp only [List.cons_append, lookupOpt]
    split <;> simp [ih]

theorem lookupOpt_filter (k k' : Option Id) (l : List (Option Id × Id)) :
    lookupOpt k (l.filter fun q => q.1 != k') = if k = k' then none else lookupOpt k l := by
  induction l with
  | nil => simp [lookupOpt]
  | cons a l ih =>
    obtain ⟨k₁, v⟩ := a
    by_cases h1 : k₁ = k'
    · subst h1
      simp only [List.filter_cons, bne_self_eq_false, Bool.false_eq_true, if_false, ih, lookupOpt]
      by_cases h2 : k = k₁ <;> simp [h2]
    · have : (k₁ != k') = true := by simpa using h1
      simp only [List.filter_cons, this, if_true, lookupOpt, ih]
      by_cases h2 : k = k' 
      · subst h2
        have : ¬ k = k₁ := fun e => h1 e.symm
        simp [this]
      · simp [h2]

theorem lookupOpt_invStep (k : Option Id) (acc : List (Option Id × Id)) (p : Id × Option Id) :
    lookupOpt k (invStep acc p) = if p.2 = k then some p.1 else lookupOpt k acc := by
  unfold invStep
  rw [lookupOpt_append, lookupOpt_filter]
  by_cases h : k = p.2
  · subst h; simp [lookupOpt]
  · have h' : ¬ p.2 = k := fun e => h e.symm
    simp [h, h', lookupOpt]

theorem lookupOpt_foldl (k : Option Id) (m : StepMap) (acc : List (Option Id × Id)) :
    lookupOpt k (m.foldl invStep acc) = (lastKey k m).or (lookupOpt k acc) := by
  induction m generalizing acc with
  | nil => simp [lastKey]
  | cons pr m ih =>
    rw [List.foldl_cons, ih, lookupOpt_invStep, lastKey]
    cases lastKey k m <;> by_cases h : pr.2 = k <;> simp [h]

theorem lookupOpt_invertMap (k : Option Id) (m : StepMap) : lookupOpt k (invertMap m) = lastKey k m := by
  rw [invertMap_eq, lookupOpt_foldl]; simp [lookupOpt]

theorem lastKey_none (k : Option Id) (m : StepMap) (h : k ∉ m.map (·.2)) : lastKey k m = none := by
  induction m with
  | nil => rfl
  | cons pr m ih =>
    simp only [List.map_cons, List.mem_cons, not_or] at h
    have : ¬ pr.2 = k := fun e => h.1 e.symm
    simp [lastKey, ih h.2, this]

theorem lastKey_of_get (m : StepMap) (p q : Id) (hinj : (m.values.filterMap id).Nodup)
    (hqp : m.get? q = some (some p)) : lastKey (some p) m = some q := by
  induction m with
  | nil => simp [StepMap.get?, alGet?] at hqp
  | cons pr m ih =>
    obtain ⟨k', v⟩ := pr
    simp only [StepMap.get?, alGet?] at hqp
    simp only [StepMap.values, List.map_cons] at hinj
    by_cases h : q = k'
    · subst h
      simp only [if_true, Option.some.injEq] at hqp
      subst hqp
      simp only [List.filterMap_cons, id, List.nodup_cons] at hinj
      have : some p ∉ m.map (·.2) := by
        intro hm
        exact hinj.1 (List.mem_filterMap.2 ⟨some p, hm, rfl⟩)
      simp [lastKey, lastKey_none _ _ this]
    · simp only [h, if_false] at hqp
      have hinj' : ((StepMap.values m).filterMap id).Nodup := by
        cases v with
        | none => simpa [StepMap.values] using hinj
        | some x =>
          simp only [List.filterMap_cons, id, List.nodup_cons] at hinj
          exact hinj.2
      simp [lastKey, ih hinj' hqp]

theorem lookupOpt_invertMap_of_get (m : StepMap) (p q : Id) (hinj : (m.values.filterMap id).Nodup)
    (hqp : m.get? q = some (some p)) : lookupOpt (some p) (invertMap m) = some q := by
  rw [lookupOpt_invertMap, lastKey_of_get m p q hinj hqp]

theorem rat_div_swap (a b c d : Rat) : (a - b) / (c - d) = (b - a) / (d - c) := by
  rw [← neg_sub b a, ← neg_sub d c, neg_div_neg_eq]

/-! ### scaling commutes with the placement -/

theorem setAt_map {α β : Type} (f : α → β) (l : List α) (i : Nat) (a : α) :
    (FMInput.setAt l i a).map f = FMInput.setAt (l.map f) i (f a) := by
  apply List.ext_getElem?
  intro j
  by_cases hj : j < l.length
  · rw [List.getElem?_map, setAt_get _ _ _ _ hj, setAt_get _ _ _ _ (by simpa using hj), List.getElem?_map]
    split <;> simp
  · have h1 : (FMInput.setAt l i a).length ≤ j := by rw [setAt_len]; omega
    have h2 : (FMInput.setAt (l.map f) i (f a)).length ≤ j := by rw [setAt_len, List.length_map]; omega
    rw [List.getElem?_map, List.getElem?_eq_none h1, List.getElem?_eq_none h2]; rfl

theorem pvFold_map (f : Rat → Rat) (rows : List (Nat × Vec)) (b : List Rat) :
    (rows.map fun p => (p.1, (⟨f p.2.x, f p.2.y⟩ : Vec))).foldl pvStep (b.map f) = (rows.foldl pvStep b).map f := by
  induction rows generalizing b with
  | nil => rfl
  | cons r rows ih =>
    rw [List.map_cons, List.foldl_cons, List.foldl_cons, ← ih]
    congr 1
    simp only [pvStep, setAt_map]

theorem placeVelocities_map (f : Rat → Rat) (hf : f 0 = 0) (nrows : Nat) (rows : List (Nat × Vec)) :
    placeVelocities nrows (rows.map fun p => (p.1, (⟨f p.2.x, f p.2.y⟩ : Vec))) = (placeVelocities nrows rows).map f := by
  rw [placeVelocities_eq, placeVelocities_eq, ← pvFold_map, List.map_replicate, hf]

end Forsys.C13
