/- helper lemmas for Props/C07matrix.lean -/
import ForsysModel.Proofs.C07
import ForsysModel.Props.C07
import ForsysModel.Proofs.C01matrix
namespace Forsys

/-! ### the renaming of an input by a function on vertex ids -/

/-- the vertex object with its id renamed (`ownEdges` holds mesh-edge ids, `ownCells` cell ids: untouched) -/
def Vertex.mapV (f : Id → Id) (v : Vertex) : Vertex := { v with id := f v.id }
/-- the mesh edge with both end points renamed -/
def SEdge.mapV (f : Id → Id) (e : SEdge) : SEdge := { e with v1 := f e.v1, v2 := f e.v2 }
/-- the cell with its vertex cycle renamed -/
def Cell.mapV (f : Id → Id) (c : Cell) : Cell := { c with verts := c.verts.map f }

/-- every occurrence of a vertex id — keys of the vertex dictionary, `Vertex.id`, end points of mesh edges, vertex
    cycles of cells — mapped by `f`; edge ids, cell ids, coordinates and the storage order of the three dictionaries
    unchanged -/
def Mesh.mapV (f : Id → Id) (m : Mesh) : Mesh :=
  { vertices := m.vertices.map fun p => (f p.1, p.2.mapV f),
    edges := m.edges.map fun p => (p.1, p.2.mapV f),
    cells := m.cells.map fun p => (p.1, p.2.mapV f) }

/-- `centers` is aligned with the interface list by position, `cosLimit` and `ignoreFour` are scalars: unchanged -/
def FMInput.mapV (f : Id → Id) (inp : FMInput) : FMInput := { inp with mesh := inp.mesh.mapV f }

/-- all vertex ids occurring in a mesh -/
def Mesh.vids (m : Mesh) : List Id :=
  m.vertices.map (·.1) ++ m.vertices.map (·.2.id) ++ (m.edges.map fun p => [p.2.v1, p.2.v2]).flatten
    ++ (m.cells.map (·.2.verts)).flatten

namespace FMInput

/-- x-row of junction `v` for an arbitrary column list `used`; the norm is keyed by (junction, interface), not by column
    number, so that it can follow a permutation of the columns -/
def rowXOf (inp : FMInput) (earr used : List (List Id)) (len : Id → List Id → Rat) (v : Id) : List Rat :=
  List.zipWith (fun e o => unitX (len v e) o) used (inp.vertexEquation earr used v)
def rowYOf (inp : FMInput) (earr used : List (List Id)) (len : Id → List Id → Rat) (v : Id) : List Rat :=
  List.zipWith (fun e o => unitY (len v e) o) used (inp.vertexEquation earr used v)

/-- `_build_matrix` for an arbitrary column list `used` and an arbitrary junction list `tj`: for every junction of `tj`
    that passes the row filter, the x-row then the y-row -/
def matrixOf (inp : FMInput) (earr used : List (List Id)) (tj : List Id) (len : Id → List Id → Rat) : Mat :=
  (tj.filter fun v => keepRow inp.ignoreFour (inp.vertexEquation earr used v)).flatMap fun v =>
    [rowXOf inp earr used len v, rowYOf inp earr used len v]

/-- the system handed to the solver: `add_mean_one` with zero right-hand side -/
def augmented (A : Mat) : Mat × List Rat := addMeanOne A (List.replicate A.length 0)

end FMInput

namespace C07m
variable {α β : Type}

/-! ### general list facts under an injective map -/

theorem alGet?_map {γ δ : Type} (f : Id → Id) (hf : Function.Injective f) (g : γ → δ) (k : Id) (l : List (Id × γ)) :
    alGet? (f k) (l.map fun p => (f p.1, g p.2)) = (alGet? k l).map g := by
  induction l with
  | nil => rfl
  | cons p l ih =>
    obtain ⟨k', v⟩ := p
    simp only [List.map_cons, alGet?, hf.eq_iff, ih]
    split <;> rfl

theorem alGet?_map_snd {γ δ : Type} (g : γ → δ) (k : Id) (l : List (Id × γ)) :
    alGet? k (l.map fun p => (p.1, g p.2)) = (alGet? k l).map g := by
  induction l with
  | nil => rfl
  | cons p l ih =>
    obtain ⟨k', v⟩ := p
    simp only [List.map_cons, alGet?, ih]
    split <;> rfl

theorem contains_map [BEq α] [LawfulBEq α] [BEq β] [LawfulBEq β] (f : α → β) (hf : Function.Injective f)
    (l : List α) (a : α) : (l.map f).contains (f a) = l.contains a := by
  induction l with
  | nil => rfl
  | cons b l ih =>
    simp only [List.map_cons, List.contains_cons, ih]
    congr 1
    rw [Bool.eq_iff_iff]; simp [hf.eq_iff]

theorem indexOf?_map [DecidableEq α] [DecidableEq β] (f : α → β) (hf : Function.Injective f) (l : List α) (a : α) :
    indexOf? (f a) (l.map f) = indexOf? a l := by
  induction l with
  | nil => rfl
  | cons b l ih => simp only [List.map_cons, indexOf?, ih, hf.eq_iff]

theorem eraseDups_map_aux [DecidableEq α] [DecidableEq β] (f : α → β) (hf : Function.Injective f) (n : Nat) :
    ∀ l : List α, l.length ≤ n → (l.map f).eraseDups = l.eraseDups.map f := by
  induction n with
  | zero =>
    intro l hl
    have : l = [] := List.eq_nil_of_length_eq_zero (by omega)
    subst this; rfl
  | succ n ih =>
    intro l hl
    cases l with
    | nil => rfl
    | cons a t =>
      rw [List.map_cons, List.eraseDups_cons, List.eraseDups_cons, List.map_cons]
      congr 1
      have : (t.map f).filter (fun b => !b == f a) = (t.filter fun b => !b == a).map f := by
        rw [List.filter_map]
        congr 1
        apply List.filter_congr
        intro x _
        simp [hf.eq_iff]
      rw [this]
      apply ih
      have := List.length_filter_le (fun b => !b == a) t
      simp only [List.length_cons] at hl
      omega

theorem eraseDups_map [DecidableEq α] [DecidableEq β] (f : α → β) (hf : Function.Injective f) (l : List α) :
    (l.map f).eraseDups = l.eraseDups.map f :=
  eraseDups_map_aux f hf l.length l (Nat.le_refl _)

theorem dedupStep_map [DecidableEq α] [DecidableEq β] (f : α → β) (hf : Function.Injective f)
    (out : List (List α)) (e : List α) :
    dedupStep (out.map (List.map f)) (e.map f) = (dedupStep out e).map (List.map f) := by
  have hF : Function.Injective (List.map f) := List.map_injective_iff.mpr hf
  unfold dedupStep
  rw [← List.map_reverse, contains_map _ hF, contains_map _ hF]
  split <;> simp

theorem foldl_dedupStep_map [DecidableEq α] [DecidableEq β] (f : α → β) (hf : Function.Injective f)
    (ps out : List (List α)) :
    (ps.map (List.map f)).foldl dedupStep (out.map (List.map f)) = (ps.foldl dedupStep out).map (List.map f) := by
  induction ps generalizing out with
  | nil => rfl
  | cons p ps ih => simp only [List.map_cons, List.foldl_cons, dedupStep_map f hf, ih]

/-- de-duplication up to reversal commutes with an injective relabelling -/
theorem dedup_map [DecidableEq α] [DecidableEq β] (f : α → β) (hf : Function.Injective f) (ps : List (List α)) :
    dedup (ps.map (List.map f)) = (dedup ps).map (List.map f) := by
  rw [dedup_eq, dedup_eq]
  exact foldl_dedupStep_map f hf ps []

/-! ### look-ups in the renamed mesh -/

section mesh
variable (f : Id → Id) (hf : Function.Injective f) (m : Mesh)
include hf

theorem vertex?_mapV (k : Id) : (m.mapV f).vertex? (f k) = (m.vertex? k).map (Vertex.mapV f) :=
  alGet?_map f hf (Vertex.mapV f) k m.vertices

theorem pt_mapV (k : Id) : (m.mapV f).pt (f k) = m.pt k := by
  unfold Mesh.pt
  rw [vertex?_mapV f hf]
  cases m.vertex? k <;> rfl

theorem ownEdges_mapV (k : Id) : (m.mapV f).ownEdges (f k) = m.ownEdges k := by
  unfold Mesh.ownEdges
  rw [vertex?_mapV f hf]
  cases m.vertex? k <;> rfl

theorem ownCells_mapV (k : Id) : (m.mapV f).ownCells (f k) = m.ownCells k := by
  unfold Mesh.ownCells
  rw [vertex?_mapV f hf]
  cases m.vertex? k <;> rfl

theorem isJunction_mapV (k : Id) : (m.mapV f).isJunction (f k) = m.isJunction k := by
  unfold Mesh.isJunction
  rw [ownEdges_mapV f hf]

theorem bigEdgesList_mapV : (m.mapV f).bigEdgesList = m.bigEdgesList.map (List.map f) := by
  unfold Mesh.bigEdgesList
  rw [← dedup_map f hf, List.map_flatten, List.map_map]
  congr 2
  simp only [Mesh.mapV, List.map_map]
  apply List.map_congr_left
  intro p _
  simp only [Function.comp, Cell.mapV]
  rw [cellPaths_map]
  congr 2
  funext a
  exact isJunction_mapV f hf m a

/-! ### interface-level predicates -/

theorem any_map_ownCells (p : Nat → Bool) (e : List Id) :
    ((e.map f).any fun v => p ((m.mapV f).ownCells v).length) = e.any fun v => p (m.ownCells v).length := by
  rw [List.any_map]
  congr 1
  funext v
  simp only [Function.comp, ownCells_mapV f hf]

theorem borderEdges_mapV (earr : List (List Id)) :
    (m.mapV f).borderEdges (earr.map (List.map f)) = (m.borderEdges earr).map (List.map f) := by
  unfold Mesh.borderEdges
  rw [List.filter_map]
  congr 1
  apply List.filter_congr
  intro e _
  exact any_map_ownCells f hf m (fun n => decide (n < 2)) e

theorem externalEdgesId_mapV (earr : List (List Id)) :
    (m.mapV f).externalEdgesId (earr.map (List.map f)) = m.externalEdgesId earr := by
  unfold Mesh.externalEdgesId
  rw [borderEdges_mapV f hf, List.filterMap_map]
  congr 1
  funext e
  exact indexOf?_map (List.map f) (List.map_injective_iff.mpr hf) earr e

theorem endJunction3_mapV (e : List Id) : (m.mapV f).endJunction3 (e.map f) = m.endJunction3 e := by
  unfold Mesh.endJunction3
  rw [List.head?_map, List.getLast?_map]
  cases e.head? <;> cases e.getLast? <;> simp [ownCells_mapV f hf]

omit hf in
theorem getD_map_nil (earr : List (List Id)) (i : Nat) :
    (earr.map (List.map f)).getD i [] = (earr.getD i []).map f := by
  simp only [List.getD_eq_getElem?_getD, List.getElem?_map]
  cases earr[i]? <;> rfl

theorem internalIdx_mapV (earr : List (List Id)) :
    (m.mapV f).internalIdx (earr.map (List.map f)) = m.internalIdx earr := by
  unfold Mesh.internalIdx
  simp only [externalEdgesId_mapV f hf, List.length_map, getD_map_nil, endJunction3_mapV f hf]

theorem bigEdgeExternal_mapV (e : List Id) : (m.mapV f).bigEdgeExternal (e.map f) = m.bigEdgeExternal e := by
  unfold Mesh.bigEdgeExternal
  rw [any_map_ownCells f hf m (fun n => decide (n < 2)) e, endJunction3_mapV f hf]

omit hf in
theorem ownBigEdges_map (hf : Function.Injective f) (earr : List (List Id)) (v : Id) :
    Mesh.ownBigEdges (earr.map (List.map f)) (f v) = Mesh.ownBigEdges earr v := by
  unfold Mesh.ownBigEdges
  simp only [List.length_map, getD_map_nil, contains_map f hf]

end mesh

/-! ### tangents -/

theorem chordAt_map (f : Id → Id) (hf : Function.Injective f) (ids : List Id) (pts : List Pt) (v : Id) :
    chordAt (ids.map f) pts (f v) = chordAt ids pts v := by
  unfold chordAt
  rw [← List.map_reverse]
  rcases ids with _ | ⟨i0, _ | ⟨i1, ids⟩⟩ <;> try rfl
  rcases pts with _ | ⟨p0, _ | ⟨p1, pts⟩⟩ <;> try rfl
  simp only [List.map_cons, hf.eq_iff]
  split
  · rfl
  · generalize (i0 :: i1 :: ids).reverse = r
    generalize (p0 :: p1 :: pts).reverse = q
    rcases r with _ | ⟨j0, _ | ⟨j1, r⟩⟩ <;> try rfl
    rcases q with _ | ⟨q0, _ | ⟨q1, q⟩⟩ <;> try rfl
    simp only [List.map_cons, hf.eq_iff]

theorem vectorFromVertex_map (f : Id → Id) (hf : Function.Injective f) (ids : List Id) (pts : List Pt) (c : Pt)
    (v : Id) : vectorFromVertex (ids.map f) pts c (f v) = vectorFromVertex ids pts c v := by
  unfold vectorFromVertex
  rw [chordAt_map f hf, List.length_map]

section fm
variable (f : Id → Id) (hf : Function.Injective f) (inp : FMInput)
include hf

theorem vecAt_mapV (earr : List (List Id)) (i : Nat) (v : Id) :
    (inp.mapV f).vecAt (earr.map (List.map f)) i (f v) = inp.vecAt earr i v := by
  unfold FMInput.vecAt
  simp only [getD_map_nil, List.map_map]
  rw [vectorFromVertex_map f hf]
  congr 1
  apply List.map_congr_left
  intro a _
  exact pt_mapV f hf inp.mesh a

theorem exceeds_mapV (earr : List (List Id)) (v : Id) :
    (inp.mapV f).exceeds (earr.map (List.map f)) (f v) = inp.exceeds earr v := by
  unfold FMInput.exceeds
  simp only [ownBigEdges_map f hf, vecAt_mapV f hf]
  rfl

omit hf in
theorem endsOf_map (hf : Function.Injective f) (es : List (List Id)) :
    FMInput.endsOf (es.map (List.map f)) = (FMInput.endsOf es).map f := by
  unfold FMInput.endsOf
  rw [← eraseDups_map f hf, List.map_flatten, List.map_map, List.map_map]
  congr 2
  apply List.map_congr_left
  intro e _
  simp only [Function.comp, List.head?_map, List.getLast?_map, List.map_append]
  cases e.head? <;> cases e.getLast? <;> rfl

theorem internal_mapV (earr : List (List Id)) :
    (((inp.mapV f).mesh.internalIdx (earr.map (List.map f))).map fun i => (earr.map (List.map f)).getD i [])
      = ((inp.mesh.internalIdx earr).map fun i => earr.getD i []).map (List.map f) := by
  show (((inp.mesh.mapV f).internalIdx (earr.map (List.map f))).map fun i => (earr.map (List.map f)).getD i []) = _
  rw [internalIdx_mapV f hf, List.map_map]
  apply List.map_congr_left
  intro i _
  exact getD_map_nil f earr i

theorem deletes_mapV (earr : List (List Id)) :
    (inp.mapV f).deletes (earr.map (List.map f)) = (inp.deletes earr).map f := by
  unfold FMInput.deletes
  simp only []
  rw [internal_mapV f hf, endsOf_map f hf, List.filter_map]
  congr 1
  apply List.filter_congr
  intro v _
  exact exceeds_mapV f hf inp earr v

omit hf in
theorem bothDeleted_map (hf : Function.Injective f) (del : List Id) (e : List Id) :
    FMInput.bothDeleted (del.map f) (e.map f) = FMInput.bothDeleted del e := by
  unfold FMInput.bothDeleted
  rw [List.head?_map, List.getLast?_map]
  cases e.head? <;> cases e.getLast? <;> simp only [Option.map_some, Option.map_none, contains_map f hf]

theorem used_mapV (earr : List (List Id)) :
    (inp.mapV f).used (earr.map (List.map f)) = (inp.used earr).map (List.map f) := by
  unfold FMInput.used
  simp only []
  rw [internal_mapV f hf, deletes_mapV f hf, List.filter_map]
  congr 1
  apply List.filter_congr
  intro e _
  simp only [Function.comp, bothDeleted_map f hf]

theorem earr_mapV : (inp.mapV f).earr = inp.earr.map (List.map f) :=
  bigEdgesList_mapV f hf inp.mesh

omit hf in
theorem eidFromVertex_map (hf : Function.Injective f) (earr : List (List Id)) (e : List Id) :
    eidFromVertex (earr.map (List.map f)) (e.map f) = eidFromVertex earr e := by
  unfold eidFromVertex
  simp only [List.length_map, getD_map_nil]
  congr 1
  funext j
  rw [Bool.eq_iff_iff]
  simp [(List.map_injective_iff.mpr hf).eq_iff]

theorem vertexEquation_mapV (earr used : List (List Id)) (v : Id) :
    (inp.mapV f).vertexEquation (earr.map (List.map f)) (used.map (List.map f)) (f v)
      = inp.vertexEquation earr used v := by
  unfold FMInput.vertexEquation
  simp only [ownBigEdges_map f hf, List.map_map, getD_map_nil, eidFromVertex_map f hf, vecAt_mapV f hf]
  have h1 : ∀ e, (inp.mapV f).mesh.bigEdgeExternal (List.map f e) = inp.mesh.bigEdgeExternal e :=
    fun e => bigEdgeExternal_mapV f hf inp.mesh e
  have h2 : (inp.mapV f).mesh.ownCells (f v) = inp.mesh.ownCells v := ownCells_mapV f hf inp.mesh v
  simp only [h1, h2]
  rfl

theorem build_mapV :
    (inp.mapV f).build =
      { earr := inp.build.earr.map (List.map f), deletes := inp.build.deletes.map f,
        used := inp.build.used.map (List.map f),
        rows := inp.build.rows.map fun r => (f r.1, r.2.1, r.2.2) } := by
  unfold FMInput.build
  simp only [earr_mapV f hf, used_mapV f hf, deletes_mapV f hf, endsOf_map f hf, List.map_map]
  congr 1
  apply List.map_congr_left
  intro v _
  simp only [Function.comp, vertexEquation_mapV f hf]
  rfl

end fm

/-! ### the normalised matrix -/

theorem normalisedMatrix_mapV (f : Id → Id) (hf : Function.Injective f) (inp : FMInput)
    (len len' : Id → Nat → Rat) (hlen : ∀ v ∈ FMInput.endsOf inp.build.used, ∀ c, len' (f v) c = len v c) :
    FMInput.normalisedMatrix (inp.mapV f) len' = FMInput.normalisedMatrix inp len := by
  unfold FMInput.normalisedMatrix
  rw [build_mapV f hf inp]
  simp only [List.filter_map, List.flatMap_map]
  have hfil : ((fun r : Id × Bool × List (Option Vec) => r.2.1) ∘
      fun r : Id × Bool × List (Option Vec) => (f r.1, r.2.1, r.2.2)) = fun r => r.2.1 := rfl
  rw [hfil]
  apply List.flatMap_congr
  intro r hr
  have hv : r.1 ∈ FMInput.endsOf inp.build.used := by
    have := (List.mem_filter.1 hr).1
    simp only [FMInput.build, List.mem_map] at this
    obtain ⟨v, hv, rfl⟩ := this
    exact hv
  simp only [FMInput.rowX, FMInput.rowY, build_mapV f hf inp, List.length_map, hlen _ hv]

/-! ### storage order of the columns (the unknowns) -/

section cols
variable {γ : Type}

/-- the loop body of `get_vertex_equation` seen on the pairs (column label, entry): the entry of the column whose
    label is `e` becomes `val` -/
def setLabel (e : List Id) (val : γ) (p : List Id × γ) : List Id × γ := if p.1 = e then (p.1, val) else p

theorem zip_setAt (used : List (List Id)) (hu : used.Nodup) (row : List γ) (hl : row.length = used.length)
    (e : List Id) (pos : Nat) (h : eidFromVertex used e = some pos) (val : γ) :
    List.zip used (FMInput.setAt row pos val) = (List.zip used row).map (setLabel e val) := by
  obtain ⟨hpos, hget, _⟩ := (FMInput.eidFromVertex_some_iff' used e pos).1 h
  apply List.ext_getElem?
  intro c
  by_cases hc : c < used.length
  · have hc' : c < row.length := by omega
    have h1 : (List.zip used (FMInput.setAt row pos val))[c]?
        = some (used[c], if c = pos then val else row[c]) := by
      rw [List.getElem?_zip_eq_some]
      refine ⟨by simp [hc], ?_⟩
      rw [FMInput.setAt_getElem' _ _ _ _ hc']
      split <;> simp [hc']
    have h2 : (List.zip used row)[c]? = some (used[c], row[c]) := by
      rw [List.getElem?_zip_eq_some]; simp [hc, hc']
    rw [h1, List.getElem?_map, h2, Option.map_some]
    congr 1
    unfold setLabel
    have hiff : used[c] = e ↔ c = pos := by
      rw [List.getD_eq_getElem?_getD, List.getElem?_eq_getElem hpos, Option.getD_some] at hget
      constructor
      · intro hce
        exact (List.Nodup.getElem_inj_iff hu).1 (hce.trans hget.symm)
      · rintro rfl; exact hget
    by_cases hcp : c = pos
    · rw [if_pos (hiff.2 hcp), if_pos hcp]
    · have : ¬ used[c] = e := fun h => hcp (hiff.1 h)
      simp [hcp, this]
  · have h1 : (List.zip used (FMInput.setAt row pos val)).length ≤ c := by
      simp [FMInput.setAt_length']; omega
    have h2 : ((List.zip used row).map (setLabel e val)).length ≤ c := by simp; omega
    rw [List.getElem?_eq_none_iff.mpr h1, List.getElem?_eq_none_iff.mpr h2]

theorem zip_setLabel_absent (used : List (List Id)) (row : List γ) (e : List Id) (h : e ∉ used) (val : γ) :
    (List.zip used row).map (setLabel e val) = List.zip used row := by
  conv => rhs; rw [← List.map_id (List.zip used row)]
  apply List.map_congr_left
  intro p hp
  have : p.1 ∈ used := (List.of_mem_zip (a := p.1) (b := p.2) hp).1
  unfold setLabel
  rw [if_neg]
  · rfl
  · rintro rfl; exact h this

/-- one pass of the loop of `get_vertex_equation` for interface number `i`, on (label, entry) pairs; it does not
    mention the column order -/
def relab (inp : FMInput) (earr : List (List Id)) (vid : Id) (z : List (List Id × Option Vec)) (i : Nat) :
    List (List Id × Option Vec) :=
  if !(inp.mesh.bigEdgeExternal (earr.getD i [])) && decide ((inp.mesh.ownCells vid).length > 2)
  then z.map (setLabel (earr.getD i []) (inp.vecAt earr i vid)) else z

theorem zip_stepQ (inp : FMInput) (earr used : List (List Id)) (hu : used.Nodup) (vid : Id)
    (row : List (Option Vec)) (hl : row.length = used.length) (i : Nat) :
    List.zip used (FMInput.stepQ (FMInput.qOf inp earr used vid) (fun i => inp.vecAt earr i vid) row i)
      = relab inp earr vid (List.zip used row) i := by
  unfold FMInput.stepQ FMInput.qOf relab
  by_cases hcond : (!(inp.mesh.bigEdgeExternal (earr.getD i [])) &&
      decide ((inp.mesh.ownCells vid).length > 2)) = true
  · rw [if_pos hcond, if_pos hcond]
    cases hq : eidFromVertex used (earr.getD i []) with
    | none =>
      simp only []
      rw [zip_setLabel_absent]
      exact (FMInput.eidFromVertex_none_iff_not_mem used _).1 hq
    | some pos =>
      simp only []
      exact zip_setAt used hu row hl _ pos hq _
  · rw [if_neg hcond, if_neg hcond]

theorem zip_foldl_stepQ (inp : FMInput) (earr used : List (List Id)) (hu : used.Nodup) (vid : Id) (L : List Nat) :
    ∀ row : List (Option Vec), row.length = used.length →
    List.zip used (L.foldl (FMInput.stepQ (FMInput.qOf inp earr used vid) (fun i => inp.vecAt earr i vid)) row)
      = L.foldl (relab inp earr vid) (List.zip used row) := by
  induction L with
  | nil => intro row _; rfl
  | cons i L ih =>
    intro row hl
    rw [List.foldl_cons, List.foldl_cons, ih _ (by rw [FMInput.stepQ_length]; exact hl),
      zip_stepQ inp earr used hu vid row hl]

theorem relab_perm (inp : FMInput) (earr : List (List Id)) (vid : Id) (z z' : List (List Id × Option Vec))
    (h : z'.Perm z) (i : Nat) : (relab inp earr vid z' i).Perm (relab inp earr vid z i) := by
  unfold relab
  split
  · exact h.map _
  · exact h

theorem foldl_relab_perm (inp : FMInput) (earr : List (List Id)) (vid : Id) (L : List Nat) :
    ∀ z z' : List (List Id × Option Vec), z'.Perm z →
      (L.foldl (relab inp earr vid) z').Perm (L.foldl (relab inp earr vid) z) := by
  induction L with
  | nil => intro z z' h; exact h
  | cons i L ih => intro z z' h; exact ih _ _ (relab_perm inp earr vid z z' h i)

/-- the row of a vertex, as (column label, entry) pairs, in terms of the column-order-free loop -/
theorem zip_vertexEquation (inp : FMInput) (earr used : List (List Id)) (hu : used.Nodup) (vid : Id) :
    List.zip used (inp.vertexEquation earr used vid)
      = (Mesh.ownBigEdges earr vid).foldl (relab inp earr vid) (used.map fun e => (e, none)) := by
  rw [FMInput.vertexEquation_eq_fold, zip_foldl_stepQ inp earr used hu vid _ _ (by simp)]
  congr 1
  clear hu
  induction used with
  | nil => rfl
  | cons e used ih => simp only [List.map_cons, List.zip_cons_cons, ih]

/-- permuting the columns handed to `get_vertex_equation` permutes the entries of the row the same way -/
theorem vertexEquation_perm_cols (inp : FMInput) (earr used used' : List (List Id)) (hu : used.Nodup)
    (hp : used'.Perm used) (vid : Id) :
    (List.zip used' (inp.vertexEquation earr used' vid)).Perm (List.zip used (inp.vertexEquation earr used vid)) := by
  rw [zip_vertexEquation inp earr used hu, zip_vertexEquation inp earr used' (hp.nodup_iff.mpr hu)]
  exact foldl_relab_perm inp earr vid _ _ _ (hp.map _)

theorem vertexEquation_perm (inp : FMInput) (earr used used' : List (List Id)) (hu : used.Nodup)
    (hp : used'.Perm used) (vid : Id) :
    (inp.vertexEquation earr used' vid).Perm (inp.vertexEquation earr used vid) := by
  have h := (vertexEquation_perm_cols inp earr used used' hu hp vid).map Prod.snd
  rwa [List.map_snd_zip (by rw [FMInput.vertexEquation_length']),
    List.map_snd_zip (by rw [FMInput.vertexEquation_length'])] at h

theorem keepRow_perm (ig : Bool) (row row' : List (Option Vec)) (h : row'.Perm row) :
    FMInput.keepRow ig row' = FMInput.keepRow ig row := by
  unfold FMInput.keepRow FMInput.placed
  rw [(h.filter _).length_eq]

end cols

/-! ### the matrix for arbitrary column and junction order -/

section matrix
open FMInput

theorem zipWith_eq_range {γ δ ε : Type} (g : γ → δ → ε) (l1 : List γ) (l2 : List δ) (d1 : γ) (d2 : δ)
    (h : l2.length = l1.length) :
    List.zipWith g l1 l2 = (List.range l1.length).map fun c => g (l1.getD c d1) (l2.getD c d2) := by
  apply List.ext_getElem?
  intro c
  by_cases hc : c < l1.length
  · have hc2 : c < l2.length := by omega
    simp [hc, hc2]
  · have hc2 : ¬ c < l2.length := by omega
    rw [List.getElem?_eq_none_iff.mpr (by simp; omega), List.getElem?_eq_none_iff.mpr (by simp; omega)]

/-- the model's matrix is `matrixOf` at the model's own interface list, unknowns and junction order -/
theorem matrixOf_build (inp : FMInput) (len : Id → List Id → Rat) :
    normalisedMatrix inp (fun v c => len v (inp.build.used.getD c []))
      = matrixOf inp inp.earr inp.build.used (endsOf inp.build.used) len := by
  unfold normalisedMatrix matrixOf
  have hrows : inp.build.rows = (endsOf inp.build.used).map fun vid =>
      (vid, keepRow inp.ignoreFour (inp.vertexEquation inp.earr inp.build.used vid),
        inp.vertexEquation inp.earr inp.build.used vid) := rfl
  rw [hrows, List.filter_map, List.flatMap_map]
  apply List.flatMap_congr
  intro v _
  simp only [rowX, rowY, rowXOf, rowYOf]
  rw [zipWith_eq_range _ _ _ [] none (vertexEquation_length' _ _ _ _),
    zipWith_eq_range _ _ _ [] none (vertexEquation_length' _ _ _ _)]

/-- permuting the junction list permutes the row pairs -/
theorem matrixOf_perm_rows (inp : FMInput) (earr used : List (List Id)) (tj tj' : List Id)
    (len : Id → List Id → Rat) (ht : tj'.Perm tj) :
    (matrixOf inp earr used tj' len).Perm (matrixOf inp earr used tj len) :=
  (ht.filter _).flatMap_right _

theorem dot_snoc (r x : List Rat) (a b : Rat) (h : r.length = x.length) :
    dot (r ++ [a]) (x ++ [b]) = dot r x + a * b := by
  unfold dot
  rw [List.zipWith_append h]
  simp

theorem sum_map_flatMap_pair {γ : Type} (K : List γ) (a b : γ → List Rat) (G : List Rat → Rat) :
    ((K.flatMap fun v => [a v, b v]).map G).sum = (K.map fun v => G (a v) + G (b v)).sum := by
  induction K with
  | nil => rfl
  | cons k K ih =>
    simp only [List.flatMap_cons, List.map_append, List.sum_append, ih, List.map_cons, List.map_nil, List.sum_cons,
      List.sum_nil]
    ring

/-- squared residual of the augmented system: one term per row of `A`, one for the mean-one row -/
theorem residSq_augmented (A : Mat) (y : List Rat) :
    residSq (augmented A).1 (augmented A).2 y =
      (A.map fun r => dot (r ++ [1]) y * dot (r ++ [1]) y).sum +
      (dot (List.replicate ((A.head?.map (·.length)).getD 0) (1 : Rat) ++ [0]) y - ((A.head?.map (·.length)).getD 0 : Nat))
      * (dot (List.replicate ((A.head?.map (·.length)).getD 0) (1 : Rat) ++ [0]) y - ((A.head?.map (·.length)).getD 0 : Nat)) := by
  unfold augmented addMeanOne
  simp only []
  rw [C07.residSq_eq_zip _ _ _ (by simp)]
  rw [List.zip_append (by simp)]
  simp only [List.map_append, List.sum_append, List.zip_cons_cons, List.zip_nil_right, List.map_cons, List.map_nil,
    List.sum_cons, List.sum_nil, add_zero]
  congr 1
  have : List.zip (A.map fun r => r ++ [1]) (List.replicate A.length (0 : Rat)) = A.map fun r => (r ++ [1], 0) := by
    clear y
    induction A with
    | nil => rfl
    | cons r A ih => simp only [List.map_cons, List.length_cons, List.replicate_succ, List.zip_cons_cons, ih]
  rw [this, List.map_map]
  congr 1
  apply List.map_congr_left
  intro r _
  simp

theorem rowXOf_length (inp : FMInput) (earr used : List (List Id)) (len : Id → List Id → Rat) (v : Id) :
    (rowXOf inp earr used len v).length = used.length := by
  simp [rowXOf, vertexEquation_length']
theorem rowYOf_length (inp : FMInput) (earr used : List (List Id)) (len : Id → List Id → Rat) (v : Id) :
    (rowYOf inp earr used len v).length = used.length := by
  simp [rowYOf, vertexEquation_length']

/-- one row: permuting the columns and the candidate the same way leaves the product unchanged -/
theorem dot_row_perm (inp : FMInput) (earr used used' : List (List Id)) (hu : used.Nodup) (hp : used'.Perm used)
    (v : Id) (u : Rat → Option Vec → Rat) (len : Id → List Id → Rat) (τ : List Id → Rat) :
    dot (List.zipWith (fun e o => u (len v e) o) used' (inp.vertexEquation earr used' v)) (used'.map τ)
      = dot (List.zipWith (fun e o => u (len v e) o) used (inp.vertexEquation earr used v)) (used.map τ) := by
  have key : ∀ us : List (List Id), ∀ row : List (Option Vec), row.length = us.length →
      List.zip (List.zipWith (fun e o => u (len v e) o) us row) (us.map τ)
        = (List.zip us row).map fun p => (u (len v p.1) p.2, τ p.1) := by
    intro us
    induction us with
    | nil => intro row _; simp
    | cons e us ih =>
      intro row hl
      cases row with
      | nil => simp at hl
      | cons o row =>
        simp only [List.length_cons, Nat.add_right_cancel_iff] at hl
        simp only [List.zipWith_cons_cons, List.map_cons, List.zip_cons_cons, ih row hl]
  apply dot_perm
  rw [key used' _ (vertexEquation_length' _ _ _ _), key used _ (vertexEquation_length' _ _ _ _)]
  exact (vertexEquation_perm_cols inp earr used used' hu hp v).map _

theorem head?_flatMap_pair_length {γ : Type} (K : List γ) (a b : γ → List Rat) (n : Nat) (ha : ∀ v, (a v).length = n) :
    (((K.flatMap fun v => [a v, b v]).head?.map (·.length)).getD 0) = if K = [] then 0 else n := by
  cases K with
  | nil => rfl
  | cons k K => simp [ha]

theorem residSq_relabel (inp : FMInput) (earr used used' : List (List Id)) (tj tj' : List Id)
    (len : Id → List Id → Rat) (τ : List Id → Rat) (μ : Rat)
    (hu : used.Nodup) (hp : used'.Perm used) (ht : tj'.Perm tj) :
    residSq (augmented (matrixOf inp earr used' tj' len)).1 (augmented (matrixOf inp earr used' tj' len)).2
        (used'.map τ ++ [μ])
      = residSq (augmented (matrixOf inp earr used tj len)).1 (augmented (matrixOf inp earr used tj len)).2
        (used.map τ ++ [μ]) := by
  rw [residSq_augmented, residSq_augmented]
  have hlen : used'.length = used.length := hp.length_eq
  -- the kept junctions
  have hkeep : (tj'.filter fun v => keepRow inp.ignoreFour (inp.vertexEquation earr used' v)).Perm
      (tj.filter fun v => keepRow inp.ignoreFour (inp.vertexEquation earr used v)) := by
    have : (fun v => keepRow inp.ignoreFour (inp.vertexEquation earr used' v))
        = fun v => keepRow inp.ignoreFour (inp.vertexEquation earr used v) := by
      funext v
      exact keepRow_perm _ _ _ (vertexEquation_perm inp earr used used' hu hp v)
    rw [this]
    exact ht.filter _
  congr 1
  · -- the junction rows
    unfold matrixOf
    rw [sum_map_flatMap_pair, sum_map_flatMap_pair]
    have hrow : ∀ v,
        dot (rowXOf inp earr used' len v ++ [1]) (used'.map τ ++ [μ]) * dot (rowXOf inp earr used' len v ++ [1]) (used'.map τ ++ [μ])
        + dot (rowYOf inp earr used' len v ++ [1]) (used'.map τ ++ [μ]) * dot (rowYOf inp earr used' len v ++ [1]) (used'.map τ ++ [μ])
        = dot (rowXOf inp earr used len v ++ [1]) (used.map τ ++ [μ]) * dot (rowXOf inp earr used len v ++ [1]) (used.map τ ++ [μ])
        + dot (rowYOf inp earr used len v ++ [1]) (used.map τ ++ [μ]) * dot (rowYOf inp earr used len v ++ [1]) (used.map τ ++ [μ]) := by
      intro v
      rw [dot_snoc _ _ _ _ (by rw [rowXOf_length, List.length_map]),
        dot_snoc _ _ _ _ (by rw [rowYOf_length, List.length_map]),
        dot_snoc _ _ _ _ (by rw [rowXOf_length, List.length_map]),
        dot_snoc _ _ _ _ (by rw [rowYOf_length, List.length_map])]
      unfold rowXOf rowYOf
      rw [dot_row_perm inp earr used used' hu hp v unitX len τ, dot_row_perm inp earr used used' hu hp v unitY len τ]
    simp only [hrow]
    exact (hkeep.map _).sum_eq
  · -- the mean-one row
    have hnil : (tj'.filter fun v => keepRow inp.ignoreFour (inp.vertexEquation earr used' v)) = [] ↔
        (tj.filter fun v => keepRow inp.ignoreFour (inp.vertexEquation earr used v)) = [] := by
      constructor
      · intro h; rw [h] at hkeep; exact hkeep.symm.eq_nil
      · intro h; rw [h] at hkeep; exact hkeep.eq_nil
    have hsum : (used'.map τ).sum = (used.map τ).sum := (hp.map τ).sum_eq
    have hones : ∀ (x : List Rat), dot (List.replicate x.length (1 : Rat) ++ [0]) (x ++ [μ]) = x.sum := by
      intro x
      rw [dot_snoc _ _ _ _ (by simp)]
      unfold dot
      have : List.zipWith (· * ·) (List.replicate x.length (1 : Rat)) x = x := by
        induction x with
        | nil => rfl
        | cons a x ih => simp [List.replicate_succ, ih]
      rw [this]; simp
    have hzero : ∀ (x : List Rat), dot (List.replicate 0 (1 : Rat) ++ [0]) (x ++ [μ]) = 0 := by
      intro x
      cases x <;> simp [dot]
    unfold matrixOf
    rw [head?_flatMap_pair_length _ _ _ used'.length (rowXOf_length inp earr used' len),
      head?_flatMap_pair_length _ _ _ used.length (rowXOf_length inp earr used len)]
    by_cases hK : (tj.filter fun v => keepRow inp.ignoreFour (inp.vertexEquation earr used v)) = []
    · rw [if_pos hK, if_pos (hnil.2 hK), hzero, hzero]
    · rw [if_neg hK, if_neg (fun h => hK (hnil.1 h))]
      have h1 := hones (used'.map τ)
      have h2 := hones (used.map τ)
      rw [List.length_map] at h1 h2
      rw [h1, h2, hsum, hlen]

end matrix

/-! ### injectivity on the ids of the mesh is enough -/

section injOn

theorem mapV_congr (f g : Id → Id) (m : Mesh) (h : ∀ a ∈ m.vids, f a = g a) : m.mapV f = m.mapV g := by
  unfold Mesh.vids at h
  simp only [List.mem_append, List.mem_map, List.mem_flatten] at h
  unfold Mesh.mapV
  congr 1
  · apply List.map_congr_left
    intro p hp
    have h1 : f p.1 = g p.1 := h _ (Or.inl (Or.inl (Or.inl ⟨p, hp, rfl⟩)))
    have h2 : f p.2.id = g p.2.id := h _ (Or.inl (Or.inl (Or.inr ⟨p, hp, rfl⟩)))
    simp only [Vertex.mapV, h1, h2]
  · apply List.map_congr_left
    intro p hp
    have h1 : f p.2.v1 = g p.2.v1 := h _ (Or.inl (Or.inr ⟨_, ⟨p, hp, rfl⟩, by simp⟩))
    have h2 : f p.2.v2 = g p.2.v2 := h _ (Or.inl (Or.inr ⟨_, ⟨p, hp, rfl⟩, by simp⟩))
    simp only [SEdge.mapV, h1, h2]
  · apply List.map_congr_left
    intro p hp
    have h1 : p.2.verts.map f = p.2.verts.map g := by
      apply List.map_congr_left
      intro a ha
      exact h _ (Or.inr ⟨_, ⟨p, hp, rfl⟩, ha⟩)
    simp only [Cell.mapV, h1]

theorem int_aux0 (x : Int) (n S : Nat) (h1 : n ≤ S) (h2 : x ≤ n) : x < (S : Int) + 1 := by omega
theorem int_aux1 (x N y : Int) (h1 : x < N) (h2 : 0 ≤ y) (h : x = N + y) : False := by omega

theorem exists_bound (ids : List Id) (f : Id → Id) : ∃ N : Int, ∀ a ∈ ids, (f a : Int) < N := by
  refine ⟨((ids.map fun a => (f a).natAbs).sum : Nat) + 1, ?_⟩
  intro a ha
  have h1 : (f a).natAbs ≤ (ids.map fun a => (f a).natAbs).sum :=
    List.single_le_sum (by simp) _ (List.mem_map.mpr ⟨a, ha, rfl⟩)
  have h2 : (f a : Int) ≤ ((f a).natAbs : Int) := Int.le_natAbs
  exact int_aux0 (f a) _ _ h1 h2

/-- an injective coding of the integers by the non-negative integers -/
def enc (a : Int) : Int := if 0 ≤ a then 2 * a else -2 * a - 1

theorem enc_nonneg (a : Int) : 0 ≤ enc a := by unfold enc; split <;> omega
theorem enc_injective (a b : Int) (h : enc a = enc b) : a = b := by
  unfold enc at h; split at h <;> split at h <;> omega

/-- a map that is injective on a finite list of ids agrees there with a globally injective map -/
theorem exists_injective_extension (ids : List Id) (f : Id → Id)
    (h : ∀ a ∈ ids, ∀ b ∈ ids, f a = f b → a = b) :
    ∃ g : Id → Id, Function.Injective g ∧ ∀ a ∈ ids, g a = f a := by
  obtain ⟨N, hN⟩ := exists_bound ids f
  refine ⟨fun a => if a ∈ ids then f a else N + enc a, ?_, ?_⟩
  · intro a b hab
    simp only at hab
    by_cases ha : a ∈ ids <;> by_cases hb : b ∈ ids
    · rw [if_pos ha, if_pos hb] at hab; exact h a ha b hb hab
    · rw [if_pos ha, if_neg hb] at hab
      have h1 := hN a ha
      have h2 := enc_nonneg b
      exact (int_aux1 (f a) N (enc b) h1 h2 hab).elim
    · rw [if_neg ha, if_pos hb] at hab
      have h1 := hN b hb
      have h2 := enc_nonneg a
      exact (int_aux1 (f b) N (enc a) h1 h2 hab.symm).elim
    · rw [if_neg ha, if_neg hb] at hab
      have hab' : N + enc a = N + enc b := hab
      exact enc_injective a b (Int.add_left_cancel hab')
  · intro a ha
    simp only [if_pos ha]

theorem mem_cellPaths_sub {α : Type} (isJ : α → Bool) (cyc : List α) (p : List α) (hp : p ∈ cellPaths isJ cyc)
    (a : α) (ha : a ∈ p) : a ∈ cyc := by
  by_cases h : ∃ a ∈ cyc, isJ a = true
  · obtain ⟨l1, l2, hc, hfl⟩ := cellGroups_flatten_rotation isJ cyc h
    have hsub : ∀ g ∈ cellGroups isJ cyc, ∀ x ∈ g, x ∈ cyc := by
      intro g hg x hx
      have : x ∈ (cellGroups isJ cyc).flatten := List.mem_flatten.mpr ⟨g, hg, hx⟩
      rw [hfl] at this
      rw [hc]
      simp only [List.mem_append] at this ⊢
      exact this.symm
    unfold cellPaths closeUp at hp
    simp only [List.mem_filterMap, List.mem_range] at hp
    obtain ⟨i, _, hi⟩ := hp
    split at hi
    · next g h' hg hh =>
      simp only [Option.some.injEq] at hi
      subst hi
      simp only [List.mem_append, List.mem_singleton] at ha
      rcases ha with ha | rfl
      · exact hsub g (List.mem_of_getElem? hg) a ha
      · simp only [List.getElem?_map] at hh
        cases hj : (cellGroups isJ cyc)[(i + 1) % (cellGroups isJ cyc).length]? with
        | none => rw [hj] at hh; simp at hh
        | some g' =>
          rw [hj] at hh
          simp only [Option.map_some, Option.join_some] at hh
          exact hsub g' (List.mem_of_getElem? hj) _ (List.mem_of_mem_head? hh)
    · exact absurd hi (by simp)
  · have h' : ∀ a ∈ cyc, isJ a = false := by
      intro a ha
      by_contra hc
      exact h ⟨a, ha, by simpa using hc⟩
    rw [cellPaths_none isJ cyc h'] at hp
    exact absurd hp (by simp)

theorem bigEdgesList_sub_vids (m : Mesh) (e : List Id) (he : e ∈ m.bigEdgesList) (a : Id) (ha : a ∈ e) :
    a ∈ m.vids := by
  unfold Mesh.bigEdgesList at he
  have := dedup_sub _ e he
  simp only [List.mem_flatten, List.mem_map] at this
  obtain ⟨_, ⟨p, hp, rfl⟩, hpe⟩ := this
  have hac := mem_cellPaths_sub _ _ e hpe a ha
  unfold Mesh.vids
  simp only [List.mem_append, List.mem_flatten, List.mem_map]
  exact Or.inr ⟨_, ⟨p, hp, rfl⟩, hac⟩

theorem mem_endsOf (es : List (List Id)) (v : Id) (h : v ∈ FMInput.endsOf es) : ∃ e ∈ es, v ∈ e := by
  unfold FMInput.endsOf at h
  rw [List.mem_eraseDups] at h
  simp only [List.mem_flatten, List.mem_map] at h
  obtain ⟨_, ⟨e, he, rfl⟩, hv⟩ := h
  refine ⟨e, he, ?_⟩
  simp only [List.mem_append, Option.mem_toList] at hv
  rcases hv with hv | hv
  · exact List.mem_of_mem_head? hv
  · exact List.mem_of_mem_getLast? hv

theorem internal_sub (m : Mesh) (earr : List (List Id)) (e : List Id)
    (h : e ∈ (m.internalIdx earr).map fun i => earr.getD i []) : e ∈ earr := by
  simp only [List.mem_map] at h
  obtain ⟨i, hi, rfl⟩ := h
  unfold Mesh.internalIdx at hi
  simp only [List.mem_filter, List.mem_range] at hi
  rw [List.getD_eq_getElem?_getD, List.getElem?_eq_getElem hi.1, Option.getD_some]
  exact List.getElem_mem _

theorem used_sub (inp : FMInput) (earr : List (List Id)) (e : List Id) (h : e ∈ inp.used earr) : e ∈ earr := by
  unfold FMInput.used at h
  exact internal_sub _ _ _ (List.mem_filter.1 h).1

theorem deletes_sub (inp : FMInput) (earr : List (List Id)) (v : Id) (h : v ∈ inp.deletes earr) :
    ∃ e ∈ earr, v ∈ e := by
  unfold FMInput.deletes at h
  obtain ⟨e, he, hv⟩ := mem_endsOf _ v (List.mem_filter.1 h).1
  exact ⟨e, internal_sub _ _ _ he, hv⟩

/-- `build` of the renumbered tissue for a renumbering that is injective on the vertex ids occurring in the mesh -/
theorem build_mapV_of_injOn (f : Id → Id) (inp : FMInput)
    (hf : ∀ a ∈ inp.mesh.vids, ∀ b ∈ inp.mesh.vids, f a = f b → a = b) :
    (inp.mapV f).build =
      { earr := inp.build.earr.map (List.map f), deletes := inp.build.deletes.map f,
        used := inp.build.used.map (List.map f),
        rows := inp.build.rows.map fun r => (f r.1, r.2.1, r.2.2) } := by
  obtain ⟨g, hg, hgf⟩ := exists_injective_extension inp.mesh.vids f hf
  have hm : inp.mapV f = inp.mapV g := by
    unfold FMInput.mapV
    rw [mapV_congr f g inp.mesh (fun a ha => (hgf a ha).symm)]
  have hearr : ∀ e ∈ inp.build.earr, e.map g = e.map f := by
    intro e he
    apply List.map_congr_left
    intro a ha
    exact hgf a (bigEdgesList_sub_vids inp.mesh e he a ha)
  have hused : ∀ e ∈ inp.build.used, e.map g = e.map f :=
    fun e he => hearr e (used_sub inp inp.earr e he)
  rw [hm, build_mapV g hg inp]
  congr 1
  · exact List.map_congr_left hearr
  · apply List.map_congr_left
    intro v hv
    obtain ⟨e, he, hve⟩ := deletes_sub inp inp.earr v hv
    exact hgf v (bigEdgesList_sub_vids inp.mesh e he v hve)
  · exact List.map_congr_left hused
  · apply List.map_congr_left
    intro r hr
    have hv : r.1 ∈ FMInput.endsOf inp.build.used := by
      simp only [FMInput.build, List.mem_map] at hr
      obtain ⟨v, hv, rfl⟩ := hr
      exact hv
    obtain ⟨e, he, hve⟩ := mem_endsOf _ _ hv
    rw [hgf r.1 (bigEdgesList_sub_vids inp.mesh e (used_sub inp inp.earr e he) r.1 hve)]

theorem normalisedMatrix_mapV_of_injOn (f : Id → Id) (inp : FMInput)
    (hf : ∀ a ∈ inp.mesh.vids, ∀ b ∈ inp.mesh.vids, f a = f b → a = b)
    (len len' : Id → Nat → Rat) (hlen : ∀ v ∈ inp.mesh.vids, ∀ c, len' (f v) c = len v c) :
    FMInput.normalisedMatrix (inp.mapV f) len' = FMInput.normalisedMatrix inp len := by
  obtain ⟨g, hg, hgf⟩ := exists_injective_extension inp.mesh.vids f hf
  have hm : inp.mapV f = inp.mapV g := by
    unfold FMInput.mapV
    rw [mapV_congr f g inp.mesh (fun a ha => (hgf a ha).symm)]
  rw [hm]
  apply normalisedMatrix_mapV g hg inp len len'
  intro v hv c
  obtain ⟨e, he, hve⟩ := mem_endsOf _ _ hv
  have hvid := bigEdgesList_sub_vids inp.mesh e (used_sub inp inp.earr e he) v hve
  rw [hgf v hvid]
  exact hlen v hvid c

end injOn

end C07m
end Forsys
