/- helper lemmas for Props/C11.lean -/
import ForsysModel.Model.Resample
namespace Forsys

variable {α β : Type}

/-! ### `pick` -/

theorem filterMap_getElem?_sublist (l : List α) (is : List Nat) (h : is.Pairwise (· < ·)) :
    (is.filterMap (l[·]?)).Sublist l := by
  have key : is.filterMap (l[·]?) =
      (is.filterMap (fun i => if h : i < l.length then some (⟨i, h⟩ : Fin l.length) else none)).map (l[·]) := by
    clear h
    induction is with
    | nil => rfl
    | cons i is ih =>
      by_cases hi : i < l.length
      · simp [hi, ih]
      · simp [hi, ih]
  rw [key]
  apply List.map_getElem_sublist
  refine List.Pairwise.filterMap _ ?_ h
  intro a a' haa' b hb b' hb'
  split at hb <;> simp at hb
  split at hb' <;> simp at hb'
  subst hb hb'
  exact haa'

theorem idx_lt {ne len i : Nat} (h : ne < len) (hi : i < ne) : len * i / ne < len - 1 := by
  rw [Nat.div_lt_iff_lt_mul (by omega)]
  obtain ⟨k, rfl⟩ : ∃ k, ne = k + 1 := ⟨ne - 1, by omega⟩
  obtain ⟨n, rfl⟩ : ∃ n, len = n + 1 := ⟨len - 1, by omega⟩
  have h1 : (n + 1) * i ≤ (n + 1) * k := Nat.mul_le_mul_left _ (by omega)
  simp only [Nat.add_sub_cancel, Nat.mul_succ, Nat.succ_mul] at *
  omega

theorem idx_mono {ne len i j : Nat} (hne : ne ≠ 0) (h : ne < len) (hij : i < j) : len * i / ne < len * j / ne := by
  have h1 : len * i + len ≤ len * j := by
    have := Nat.mul_le_mul_left len (show i + 1 ≤ j by omega)
    simpa [Nat.mul_succ] using this
  have h2 : (len * i + ne) / ne ≤ len * j / ne := Nat.div_le_div_right (by omega)
  rw [Nat.add_div_right _ (by omega)] at h2
  omega

theorem idx_self {ne i : Nat} (hi : i < ne) : (ne + 1) * i / ne = i := by
  rw [Nat.add_mul, Nat.one_mul, Nat.mul_add_div (by omega), Nat.div_eq_of_lt hi, Nat.add_zero]

theorem length_filterMap_getElem? (l : List α) (f : Nat → Nat) (is : List Nat) (h : ∀ i ∈ is, f i < l.length) :
    (is.filterMap (fun i => l[f i]?)).length = is.length := by
  induction is with
  | nil => rfl
  | cons i is ih =>
    have hi := h i (by simp)
    simpa [hi] using ih (fun j hj => h j (by simp [hj]))

theorem getElem?_filterMap_getElem? (l : List α) (f : Nat → Nat) (is : List Nat) (h : ∀ i ∈ is, f i < l.length) (k : Nat) :
    (is.filterMap (fun i => l[f i]?))[k]? = is[k]?.bind (fun i => l[f i]?) := by
  induction is generalizing k with
  | nil => rfl
  | cons i is ih =>
    have hi := h i (by simp)
    have ih := ih (fun j hj => h j (by simp [hj]))
    cases k with
    | zero => simp [hi]
    | succ k => simp [hi, ih]

theorem filterMap_congr' {f g : α → Option β} {l : List α} (h : ∀ a ∈ l, f a = g a) :
    l.filterMap f = l.filterMap g := by
  induction l with
  | nil => rfl
  | cons a l ih =>
    simp only [List.filterMap_cons, h a (by simp), ih (fun b hb => h b (by simp [hb]))]

theorem pick_long (ne : Nat) (e : List α) (h : ne < e.length) :
    pick ne e = ((List.range ne).filterMap fun i => e[(e.length * i) / ne]?) ++ e.getLast?.toList := by
  simp [pick, h]

/-! ### `generateMesh` -/

theorem foldl_inv {σ γ : Type} (g : σ → γ) (f : σ → β → σ) (h : ∀ s b, g (f s b) = g s)
    (l : List β) (s : σ) : g (l.foldl f s) = g s := by
  induction l generalizing s with
  | nil => rfl
  | cons b l ih => rw [List.foldl_cons, ih, h]

theorem foldl_rel {σ : Type} (R : σ → σ → Prop) (hr : ∀ s, R s s) (ht : ∀ a b c, R a b → R b c → R a c)
    (f : σ → β → σ) (h : ∀ s b, R (f s b) s) (l : List β) (s : σ) : R (l.foldl f s) s := by
  induction l generalizing s with
  | nil => exact hr s
  | cons b l ih => rw [List.foldl_cons]; exact ht _ _ _ (ih _) (h s b)

namespace Mesh

def vproj (m : Mesh) : List (Id × Id × Rat × Rat) := m.vertices.map (fun p => (p.1, p.2.id, p.2.x, p.2.y))

theorem map_proj_filter (c : Id → Bool) (l : List (Id × Vertex)) :
    (l.filter (fun p => c p.1)).map (fun p => (p.1, p.2.id, p.2.x, p.2.y))
      = (l.map (fun p => (p.1, p.2.id, p.2.x, p.2.y))).filter (fun q => c q.1) := by
  rw [List.filter_map]; rfl

theorem vproj_updVertex (m : Mesh) (k : Id) (f : Vertex → Vertex)
    (hf : ∀ v, (f v).id = v.id ∧ (f v).x = v.x ∧ (f v).y = v.y) : vproj (m.updVertex k f) = vproj m := by
  simp only [vproj, updVertex, List.map_map]
  apply List.map_congr_left
  intro p _
  obtain ⟨k', v⟩ := p
  simp only [Function.comp]
  split <;> simp [hf v]

theorem addEdgeTo_pres (k : Id) (v : Vertex) :
    (addEdgeTo v k).id = v.id ∧ (addEdgeTo v k).x = v.x ∧ (addEdgeTo v k).y = v.y := by
  unfold addEdgeTo; split <;> simp

theorem vproj_mkEdge (m : Mesh) (k a b : Id) : vproj (m.mkEdge k a b) = vproj m := by
  have : vproj (m.mkEdge k a b) = vproj ((m.updVertex a (addEdgeTo · k)).updVertex b (addEdgeTo · k)) := rfl
  rw [this, vproj_updVertex _ _ _ (addEdgeTo_pres k), vproj_updVertex _ _ _ (addEdgeTo_pres k)]

theorem cells_updVertex (m : Mesh) (k : Id) (f : Vertex → Vertex) : (m.updVertex k f).cells = m.cells := rfl

theorem cells_mkEdge (m : Mesh) (k a b : Id) : (m.mkEdge k a b).cells = m.cells := rfl

theorem vproj_delEdge (m : Mesh) (k : Id) : vproj (m.delEdge k) = vproj m := by
  unfold delEdge
  split
  · rfl
  · rename_i e _
    have : ∀ m' : Mesh, vproj { m' with edges := m'.edges.filter (fun p => p.1 != k) } = vproj m' := fun _ => rfl
    simp only [this]
    rw [vproj_updVertex _ _ _ (fun v => by simp), vproj_updVertex _ _ _ (fun v => by simp)]

theorem cells_delEdge (m : Mesh) (k : Id) : (m.delEdge k).cells = m.cells := by
  unfold delEdge
  split <;> rfl

theorem vertices_updCell (m : Mesh) (k : Id) (f : Cell → Cell) : (m.updCell k f).vertices = m.vertices := rfl

def CellsLe (m' m : Mesh) : Prop :=
  ∀ p ∈ m'.cells, ∃ q ∈ m.cells, p.1 = q.1 ∧ p.2.id = q.2.id ∧ p.2.verts.Sublist q.2.verts

theorem CellsLe.refl (m : Mesh) : CellsLe m m := fun p hp => ⟨p, hp, rfl, rfl, List.Sublist.refl _⟩

theorem CellsLe.trans (a b c : Mesh) (h1 : CellsLe a b) (h2 : CellsLe b c) : CellsLe a c := by
  intro p hp
  obtain ⟨q, hq, e1, e2, s1⟩ := h1 p hp
  obtain ⟨r, hr, e3, e4, s2⟩ := h2 q hq
  exact ⟨r, hr, e1.trans e3, e2.trans e4, s1.trans s2⟩

theorem CellsLe.updCell_erase (m : Mesh) (k v : Id) :
    CellsLe (m.updCell k fun cl => { cl with verts := cl.verts.erase v }) m := by
  intro p hp
  simp only [updCell, List.mem_map] at hp
  obtain ⟨q, hq, rfl⟩ := hp
  refine ⟨q, hq, ?_⟩
  obtain ⟨k', c⟩ := q
  dsimp only
  split
  · exact ⟨rfl, rfl, List.erase_sublist⟩
  · exact ⟨rfl, rfl, List.Sublist.refl _⟩

theorem go_nEdgeArray (nea : List (List Id)) (l : List (List Id)) (m : Mesh) (mapper : List (Id × Id)) :
    (generateMesh.go nea m mapper l).nEdgeArray = nea := by
  induction l generalizing m mapper with
  | nil => rfl
  | cons e rest ih =>
    unfold generateMesh.go
    split
    · exact ih _ _
    · rfl

end Mesh

end Forsys
