import ForsysModel.Proofs.C09join
namespace Forsys
namespace Mesh

structure JoinHyp (m : Mesh) (a b new common : Id) (v0 v1 : Vertex) : Prop where
  cons : ConsP m
  h0 : alGet? a m.vertices = some v0
  h1 : alGet? b m.vertices = some v1
  hab : a ≠ b
  hnew : new ∉ m.vertices.map (·.1)
  hc0 : common ∈ v0.ownEdges
  hc1 : common ∈ v1.ownEdges
  hloop : ∀ q ∈ m.edges, ¬(q.2.v1 = a ∧ q.2.v2 = a) ∧ ¬(q.2.v1 = b ∧ q.2.v2 = b)

def newV (new : Id) (v0 v1 : Vertex) : Vertex :=
  { id := new, x := (v0.x + v1.x) / 2, y := (v0.y + v1.y) / 2, ownEdges := [], ownCells := [] }

def jm1 (m : Mesh) (new : Id) (v0 v1 : Vertex) : Mesh :=
  { m with vertices := m.vertices ++ [(new, newV new v0 v1)] }
def jm2 (m : Mesh) (a new : Id) (v0 v1 : Vertex) : Mesh := cellPass (jm1 m new v0 v1) v0.ownCells a new
def jm3 (m : Mesh) (a b new : Id) (v0 v1 : Vertex) : Mesh := cellPass (jm2 m a new v0 v1) v1.ownCells b new
def jm4 (m : Mesh) (a b new common : Id) (v0 v1 : Vertex) : Mesh := (jm3 m a b new v0 v1).delEdge common
def jm5 (m : Mesh) (a b new common : Id) (v0 v1 : Vertex) : Mesh :=
  edgePass (jm4 m a b new common v0 v1) ((jm4 m a b new common v0 v1).ownEdges a) a new
def jm6 (m : Mesh) (a b new common : Id) (v0 v1 : Vertex) : Mesh :=
  edgePass (jm5 m a b new common v0 v1) ((jm5 m a b new common v0 v1).ownEdges b) b new

theorem joinFinal_eq (m : Mesh) (a b new common : Id) (v0 v1 : Vertex) :
    joinFinal m a b new common v0 v1 =
      { jm6 m a b new common v0 v1 with
        vertices := (jm6 m a b new common v0 v1).vertices.filter fun p => p.1 != a && p.1 != b } := rfl

section
variable {m : Mesh} {a b new common : Id} {v0 v1 : Vertex} (H : JoinHyp m a b new common v0 v1)
include H

theorem JoinHyp.a_mem : (a, v0) ∈ m.vertices := alGet?_some_mem H.h0
theorem JoinHyp.b_mem : (b, v1) ∈ m.vertices := alGet?_some_mem H.h1
theorem JoinHyp.v0id : v0.id = a := (H.cons.1.1 _ H.a_mem).symm
theorem JoinHyp.v1id : v1.id = b := (H.cons.1.1 _ H.b_mem).symm
theorem JoinHyp.na : new ≠ a := fun h => H.hnew (h ▸ List.mem_map.mpr ⟨_, H.a_mem, rfl⟩)
theorem JoinHyp.nb : new ≠ b := fun h => H.hnew (h ▸ List.mem_map.mpr ⟨_, H.b_mem, rfl⟩)

theorem JoinHyp.new_not_cell : ∀ q ∈ m.cells, new ∉ q.2.verts :=
  fun q hq h => H.hnew ((H.cons.2.2.2.1.2 q hq).2 _ h)

theorem JoinHyp.new_not_edge : ∀ q ∈ m.edges, q.2.v1 ≠ new ∧ q.2.v2 ≠ new := by
  intro q hq
  obtain ⟨_, r1, r2⟩ := H.cons.2.2.2.1.1 q hq
  exact ⟨fun h => H.hnew (h ▸ r1), fun h => H.hnew (h ▸ r2)⟩

theorem JoinHyp.cell0 : ∀ p ∈ m.cells, (p.1 ∈ v0.ownCells ↔ a ∈ p.2.verts) := by
  intro p hp
  obtain ⟨c1, c2, _⟩ := H.cons.2.2.1 _ H.a_mem
  simp only [H.v0id] at c1 c2
  constructor
  · intro h
    obtain ⟨cl, hcl, hin⟩ := c1 _ h
    have := alGet?_of_mem H.cons.1.2.2.2.2.2 (show (p.1, p.2) ∈ m.cells from hp)
    rw [this] at hcl
    exact (Option.some.inj hcl) ▸ hin
  · intro h
    rw [H.cons.1.2.2.1 p hp]
    exact c2 p hp h

theorem JoinHyp.cell1 : ∀ p ∈ m.cells, (p.1 ∈ v1.ownCells ↔ b ∈ p.2.verts) := by
  intro p hp
  obtain ⟨c1, c2, _⟩ := H.cons.2.2.1 _ H.b_mem
  simp only [H.v1id] at c1 c2
  constructor
  · intro h
    obtain ⟨cl, hcl, hin⟩ := c1 _ h
    have := alGet?_of_mem H.cons.1.2.2.2.2.2 (show (p.1, p.2) ∈ m.cells from hp)
    rw [this] at hcl
    exact (Option.some.inj hcl) ▸ hin
  · intro h
    rw [H.cons.1.2.2.1 p hp]
    exact c2 p hp h

theorem JoinHyp.edge0 : ∀ p ∈ m.edges, (p.1 ∈ v0.ownEdges ↔ (p.2.v1 = a ∨ p.2.v2 = a)) := by
  intro p hp
  obtain ⟨c1, c2, _⟩ := H.cons.2.1 _ H.a_mem
  simp only [H.v0id] at c1 c2
  constructor
  · intro h
    obtain ⟨cl, hcl, hin⟩ := c1 _ h
    have := alGet?_of_mem H.cons.1.2.2.2.2.1 (show (p.1, p.2) ∈ m.edges from hp)
    rw [this] at hcl
    exact (Option.some.inj hcl) ▸ hin
  · intro h
    rw [H.cons.1.2.1 p hp]
    exact c2 p hp h

theorem JoinHyp.edge1 : ∀ p ∈ m.edges, (p.1 ∈ v1.ownEdges ↔ (p.2.v1 = b ∨ p.2.v2 = b)) := by
  intro p hp
  obtain ⟨c1, c2, _⟩ := H.cons.2.1 _ H.b_mem
  simp only [H.v1id] at c1 c2
  constructor
  · intro h
    obtain ⟨cl, hcl, hin⟩ := c1 _ h
    have := alGet?_of_mem H.cons.1.2.2.2.2.1 (show (p.1, p.2) ∈ m.edges from hp)
    rw [this] at hcl
    exact (Option.some.inj hcl) ▸ hin
  · intro h
    rw [H.cons.1.2.1 p hp]
    exact c2 p hp h

/-- the common edge -/
theorem JoinHyp.common_edge : ∃ ce, alGet? common m.edges = some ce ∧
    ((ce.v1 = a ∧ ce.v2 = b) ∨ (ce.v1 = b ∧ ce.v2 = a)) := by
  obtain ⟨c1, _, _⟩ := H.cons.2.1 _ H.a_mem
  obtain ⟨ce, hce, _⟩ := c1 _ H.hc0
  have hmem := alGet?_some_mem hce
  have e0 := (H.edge0 _ hmem).mp H.hc0
  have e1 := (H.edge1 _ hmem).mp H.hc1
  have hab := H.hab
  refine ⟨ce, hce, ?_⟩
  simp only at e0 e1
  rcases e0 with e0 | e0 <;> rcases e1 with e1 | e1
  · exact absurd (e0.symm.trans e1) hab
  · exact Or.inl ⟨e0, e1⟩
  · exact Or.inr ⟨e1, e0⟩
  · exact absurd (e0.symm.trans e1) hab

end
section
variable {m : Mesh} {a b new common : Id} {v0 v1 : Vertex} (H : JoinHyp m a b new common v0 v1)
include H

theorem JoinHyp.jm2_cells : (jm2 m a new v0 v1).cells =
    m.cells.map fun p => (p.1, if p.1 ∈ v0.ownCells then { p.2 with verts := rv a new p.2.verts } else p.2) :=
  (cellPass_spec a new v0.ownCells (H.cons.2.2.1 _ H.a_mem).2.2 (jm1 m new v0 v1) H.cons.1.2.2.2.2.2).1

theorem JoinHyp.jm2_ckeys : ((jm2 m a new v0 v1).cells.map (·.1)).Nodup := by
  rw [H.jm2_cells]; simpa [List.map_map, Function.comp_def] using H.cons.1.2.2.2.2.2

theorem JoinHyp.jm3_cells : (jm3 m a b new v0 v1).cells =
    m.cells.map fun p => (p.1, { p.2 with verts := nvs a b new p.2.verts }) := by
  have s3 := (cellPass_spec b new v1.ownCells (H.cons.2.2.1 _ H.b_mem).2.2 (jm2 m a new v0 v1) H.jm2_ckeys).1
  show (cellPass (jm2 m a new v0 v1) v1.ownCells b new).cells = _
  rw [s3, H.jm2_cells, List.map_map]
  apply List.map_congr_left
  intro p hp
  have i0 := H.cell0 p hp
  have i1 := H.cell1 p hp
  have hr := rv_rv a b new p.2.verts (H.new_not_cell p hp)
  simp only [Function.comp, i0, i1]
  rw [← hr]
  by_cases ha : a ∈ p.2.verts <;> by_cases hb : b ∈ p.2.verts <;> simp only [ha, hb, ↓reduceIte]

theorem JoinHyp.jm3_edges : (jm3 m a b new v0 v1).edges = m.edges := by
  have s2 := (cellPass_spec a new v0.ownCells (H.cons.2.2.1 _ H.a_mem).2.2 (jm1 m new v0 v1) H.cons.1.2.2.2.2.2).2.1
  have s3 := (cellPass_spec b new v1.ownCells (H.cons.2.2.1 _ H.b_mem).2.2 (jm2 m a new v0 v1) H.jm2_ckeys).2.1
  exact s3.trans s2

/-- the new vertex after the two cell passes -/
def nv3 (m : Mesh) (a new : Id) (v0 v1 : Vertex) : Vertex :=
  (v1.ownCells.filter (br (jm2 m a new v0 v1) new)).foldl addCellTo
    ((v0.ownCells.filter (br (jm1 m new v0 v1) new)).foldl addCellTo (newV new v0 v1))

theorem JoinHyp.jm3_vertices : (jm3 m a b new v0 v1).vertices = m.vertices ++ [(new, nv3 m a new v0 v1)] := by
  have s2 := (cellPass_spec a new v0.ownCells (H.cons.2.2.1 _ H.a_mem).2.2 (jm1 m new v0 v1) H.cons.1.2.2.2.2.2).2.2
  have s3 := (cellPass_spec b new v1.ownCells (H.cons.2.2.1 _ H.b_mem).2.2 (jm2 m a new v0 v1) H.jm2_ckeys).2.2
  show (cellPass (jm2 m a new v0 v1) v1.ownCells b new).vertices = _
  rw [s3]
  show List.map _ (cellPass (jm1 m new v0 v1) v0.ownCells a new).vertices = _
  rw [s2, List.map_map]
  show List.map _ (m.vertices ++ [(new, newV new v0 v1)]) = _
  rw [List.map_append]
  congr 1
  · conv => rhs; rw [← List.map_id m.vertices]
    apply List.map_congr_left
    intro p hp
    have : p.1 ≠ new := fun h => H.hnew (h ▸ List.mem_map.mpr ⟨p, hp, rfl⟩)
    simp [this]
  · simp [nv3]

theorem JoinHyp.br1 : ∀ c ∈ v0.ownCells, br (jm1 m new v0 v1) new c = true := by
  intro c hc
  obtain ⟨cl, hcl, _⟩ := (H.cons.2.2.1 _ H.a_mem).1 c hc
  have hn := H.new_not_cell _ (alGet?_some_mem hcl)
  unfold br
  show (match alGet? c m.cells with | some cl => !cl.verts.contains new | none => false) = true
  rw [hcl]
  simpa using hn

theorem JoinHyp.br2 : ∀ c ∈ v1.ownCells, (br (jm2 m a new v0 v1) new c = true ↔ c ∉ v0.ownCells) := by
  intro c hc
  obtain ⟨cl, hcl, _⟩ := (H.cons.2.2.1 _ H.b_mem).1 c hc
  have hmem := alGet?_some_mem hcl
  have hn := H.new_not_cell _ hmem
  have i0 := H.cell0 _ hmem
  simp only at hn i0
  unfold br
  rw [H.jm2_cells]
  have := alGet?_map_snd c m.cells (fun k v => if k ∈ v0.ownCells then { v with verts := rv a new v.verts } else v)
  rw [this, hcl]
  simp only [Option.map_some]
  by_cases hc0 : c ∈ v0.ownCells
  · simp only [hc0, ↓reduceIte, not_true_eq_false, iff_false]
    have ha : a ∈ cl.verts := i0.mp hc0
    have hcn : cl.verts.contains new = false := by simpa using hn
    unfold rv
    rw [hcn]
    have := (mem_map_sigma a new cl.verts hn).mpr ha
    simp only [Bool.false_eq_true, ↓reduceIte, Bool.not_eq_eq_eq_not, Bool.not_true, List.contains_eq_mem,
      decide_eq_false_iff_not, not_not]
    exact this
  · simp only [hc0, ↓reduceIte, not_false_eq_true, iff_true]
    simpa using hn

theorem JoinHyp.nv3_spec : (nv3 m a new v0 v1).id = new ∧ (nv3 m a new v0 v1).ownEdges = [] ∧
    (nv3 m a new v0 v1).ownCells.Nodup ∧
    ∀ c, c ∈ (nv3 m a new v0 v1).ownCells ↔ c ∈ v0.ownCells ∨ c ∈ v1.ownCells := by
  obtain ⟨p1, p2, p3, p4⟩ := foldl_addCellTo_spec (v0.ownCells.filter (br (jm1 m new v0 v1) new)) (newV new v0 v1)
  obtain ⟨q1, q2, q3, q4⟩ := foldl_addCellTo_spec (v1.ownCells.filter (br (jm2 m a new v0 v1) new))
    ((v0.ownCells.filter (br (jm1 m new v0 v1) new)).foldl addCellTo (newV new v0 v1))
  refine ⟨by unfold nv3; rw [q1, p1]; rfl, by unfold nv3; rw [q2, p2]; rfl, ?_, ?_⟩
  · unfold nv3; exact q3 (p3 (by simp [newV]))
  · intro c
    unfold nv3
    rw [q4, p4]
    simp only [newV, List.not_mem_nil, false_or, List.mem_filter]
    constructor
    · rintro (h | h)
      · exact Or.inl h.1
      · exact Or.inr h.1
    · rintro (h | h)
      · exact Or.inl ⟨h, H.br1 c h⟩
      · by_cases hc0 : c ∈ v0.ownCells
        · exact Or.inl ⟨hc0, H.br1 c hc0⟩
        · exact Or.inr ⟨h, (H.br2 c h).mpr hc0⟩

end
/-- what `del edges[common]` does to the vertex stored under key `k` -/
def delF (common : Id) (ce : SEdge) (k : Id) (v : Vertex) : Vertex :=
  if k = ce.v2 then eraseE common (if k = ce.v1 then eraseE common v else v)
  else (if k = ce.v1 then eraseE common v else v)

theorem sub_ends (a b new : Id) (hab : a ≠ b) (e : SEdge) (ha : e.v1 = a ∨ e.v2 = a) (hb : e.v1 = b ∨ e.v2 = b) :
    (sub a new e).v1 = b ∨ (sub a new e).v2 = b := by
  unfold sub
  by_cases h : e.v1 = a
  · simp only [h, beq_self_eq_true, ↓reduceIte]
    rcases hb with hb | hb
    · exact absurd (h.symm.trans hb) hab
    · exact Or.inr hb
  · have h' : (e.v1 == a) = false := by simpa using h
    simp only [h', Bool.false_eq_true, ↓reduceIte]
    rcases ha with ha | ha
    · exact absurd ha h
    · rcases hb with hb | hb
      · exact Or.inl hb
      · exact absurd (ha.symm.trans hb) hab

section
variable {m : Mesh} {a b new common : Id} {v0 v1 : Vertex} (H : JoinHyp m a b new common v0 v1)
include H

theorem JoinHyp.jm4_edges : (jm4 m a b new common v0 v1).edges = m.edges.filter fun p => p.1 != common := by
  show ((jm3 m a b new v0 v1).delEdge common).edges = _
  rw [delEdge_edges, H.jm3_edges]

omit H in
theorem jm4_cells : (jm4 m a b new common v0 v1).cells = (jm3 m a b new v0 v1).cells :=
  delEdge_cells _ _

theorem JoinHyp.jm4_vertices (ce : SEdge) (hce : alGet? common m.edges = some ce) :
    (jm4 m a b new common v0 v1).vertices =
      (m.vertices ++ [(new, nv3 m a new v0 v1)]).map fun p => (p.1, delF common ce p.1 p.2) := by
  show ((jm3 m a b new v0 v1).delEdge common).vertices = _
  have : (jm3 m a b new v0 v1).edge? common = some ce := by
    show alGet? common (jm3 m a b new v0 v1).edges = some ce
    rw [H.jm3_edges]; exact hce
  rw [delEdge_vertices _ _ _ this, H.jm3_vertices]
  rfl

theorem JoinHyp.delF_a (ce : SEdge) (hce : alGet? common m.edges = some ce) (v : Vertex) :
    delF common ce a v = eraseE common v := by
  obtain ⟨ce', hce', hends⟩ := H.common_edge
  rw [hce] at hce'
  have := Option.some.inj hce'
  subst this
  have hab := H.hab
  unfold delF
  rcases hends with ⟨e1, e2⟩ | ⟨e1, e2⟩
  · rw [e1, e2]; simp [hab]
  · rw [e1, e2]; simp [hab]

theorem JoinHyp.delF_b (ce : SEdge) (hce : alGet? common m.edges = some ce) (v : Vertex) :
    delF common ce b v = eraseE common v := by
  obtain ⟨ce', hce', hends⟩ := H.common_edge
  rw [hce] at hce'
  have := Option.some.inj hce'
  subst this
  have hab := H.hab
  unfold delF
  rcases hends with ⟨e1, e2⟩ | ⟨e1, e2⟩
  · rw [e1, e2]; simp [Ne.symm hab]
  · rw [e1, e2]; simp [Ne.symm hab]

theorem JoinHyp.delF_other (ce : SEdge) (hce : alGet? common m.edges = some ce) (k : Id) (hka : k ≠ a) (hkb : k ≠ b)
    (v : Vertex) : delF common ce k v = v := by
  obtain ⟨ce', hce', hends⟩ := H.common_edge
  rw [hce] at hce'
  have := Option.some.inj hce'
  subst this
  unfold delF
  rcases hends with ⟨e1, e2⟩ | ⟨e1, e2⟩
  · rw [e1, e2]; simp [hka, hkb]
  · rw [e1, e2]; simp [hka, hkb]

theorem JoinHyp.jm4_ownEdges_a : (jm4 m a b new common v0 v1).ownEdges a = v0.ownEdges.erase common := by
  obtain ⟨ce, hce, _⟩ := H.common_edge
  unfold ownEdges vertex?
  rw [H.jm4_vertices ce hce]
  have := alGet?_map_snd a (m.vertices ++ [(new, nv3 m a new v0 v1)]) (delF common ce)
  rw [this, alGet?_append, H.h0]
  simp [H.delF_a ce hce, eraseE]

theorem JoinHyp.jm4_ekeys : ((jm4 m a b new common v0 v1).edges.map (·.1)).Nodup := by
  rw [H.jm4_edges]
  exact H.cons.1.2.2.2.2.1.sublist (List.filter_sublist.map _)

theorem JoinHyp.E0_mem (e : Id) : e ∈ v0.ownEdges.erase common ↔ e ∈ v0.ownEdges ∧ e ≠ common := by
  rw [List.Nodup.mem_erase_iff (H.cons.2.1 _ H.a_mem).2.2]
  tauto

theorem JoinHyp.E1_mem (e : Id) : e ∈ v1.ownEdges.erase common ↔ e ∈ v1.ownEdges ∧ e ≠ common := by
  rw [List.Nodup.mem_erase_iff (H.cons.2.1 _ H.b_mem).2.2]
  tauto

theorem JoinHyp.jm5_spec :
    (jm5 m a b new common v0 v1).edges = ((m.edges.filter fun p => p.1 != common).map fun p =>
        (p.1, if p.1 ∈ v0.ownEdges.erase common then sub a new p.2 else p.2)) ∧
    (jm5 m a b new common v0 v1).cells = (jm3 m a b new v0 v1).cells ∧
    (jm5 m a b new common v0 v1).vertices =
      (jm4 m a b new common v0 v1).vertices.map fun p => (p.1,
        if p.1 = new then (v0.ownEdges.erase common).foldl addEdgeTo p.2
        else if p.1 = a then (v0.ownEdges.erase common).foldl (fun v e => eraseE e v) p.2 else p.2) := by
  have hends : ∀ e ∈ v0.ownEdges.erase common,
      ∃ ed, alGet? e (jm4 m a b new common v0 v1).edges = some ed ∧ (ed.v1 = a ∨ ed.v2 = a) := by
    intro e he
    obtain ⟨h1, h2⟩ := (H.E0_mem e).mp he
    obtain ⟨ed, hed, hh⟩ := (H.cons.2.1 _ H.a_mem).1 e h1
    refine ⟨ed, ?_, by simpa [H.v0id] using hh⟩
    rw [H.jm4_edges, alGet?_filter_ne]
    simp [h2, hed]
  have s := edgePass_spec a new (Ne.symm H.na) (v0.ownEdges.erase common)
    ((H.cons.2.1 _ H.a_mem).2.2.erase _) (jm4 m a b new common v0 v1) H.jm4_ekeys hends
  unfold jm5
  rw [H.jm4_ownEdges_a]
  refine ⟨?_, ?_, s.2.2⟩
  · rw [s.1, H.jm4_edges]
  · rw [s.2.1, jm4_cells]

theorem JoinHyp.jm5_ownEdges_b : (jm5 m a b new common v0 v1).ownEdges b = v1.ownEdges.erase common := by
  obtain ⟨ce, hce, _⟩ := H.common_edge
  unfold ownEdges vertex?
  rw [H.jm5_spec.2.2, H.jm4_vertices ce hce, List.map_map]
  have := alGet?_map_snd b (m.vertices ++ [(new, nv3 m a new v0 v1)]) (fun k v =>
    if k = new then (v0.ownEdges.erase common).foldl addEdgeTo (delF common ce k v)
        else if k = a then (v0.ownEdges.erase common).foldl (fun v e => eraseE e v) (delF common ce k v)
        else delF common ce k v)
  simp only [Function.comp_def]
  rw [this, alGet?_append, H.h1]
  have h1 : b ≠ new := Ne.symm H.nb
  have h2 : b ≠ a := Ne.symm H.hab
  simp [h1, h2, H.delF_b ce hce, eraseE]

theorem JoinHyp.jm5_ekeys : ((jm5 m a b new common v0 v1).edges.map (·.1)).Nodup := by
  rw [H.jm5_spec.1]
  simp only [List.map_map, Function.comp_def]
  exact H.cons.1.2.2.2.2.1.sublist (List.filter_sublist.map _)

theorem JoinHyp.jm6_spec :
    (jm6 m a b new common v0 v1).edges = ((m.edges.filter fun p => p.1 != common).map fun p =>
        (p.1, tauE a b new p.2)) ∧
    (jm6 m a b new common v0 v1).cells = (jm3 m a b new v0 v1).cells ∧
    (jm6 m a b new common v0 v1).vertices =
      (jm5 m a b new common v0 v1).vertices.map fun p => (p.1,
        if p.1 = new then (v1.ownEdges.erase common).foldl addEdgeTo p.2
        else if p.1 = b then (v1.ownEdges.erase common).foldl (fun v e => eraseE e v) p.2 else p.2) := by
  have hends : ∀ e ∈ v1.ownEdges.erase common,
      ∃ ed, alGet? e (jm5 m a b new common v0 v1).edges = some ed ∧ (ed.v1 = b ∨ ed.v2 = b) := by
    intro e he
    obtain ⟨h1, h2⟩ := (H.E1_mem e).mp he
    obtain ⟨ed, hed, hh⟩ := (H.cons.2.1 _ H.b_mem).1 e h1
    have hmem := alGet?_some_mem hed
    have hh' : ed.v1 = b ∨ ed.v2 = b := by simpa [H.v1id] using hh
    rw [H.jm5_spec.1]
    have := alGet?_map_snd e (m.edges.filter fun p => p.1 != common)
      (fun k v => if k ∈ v0.ownEdges.erase common then sub a new v else v)
    rw [this, alGet?_filter_ne]
    simp only [h2, ↓reduceIte, hed, Option.map_some]
    by_cases he0 : e ∈ v0.ownEdges.erase common
    · simp only [he0, ↓reduceIte]
      refine ⟨_, rfl, ?_⟩
      have ha : ed.v1 = a ∨ ed.v2 = a := (H.edge0 _ hmem).mp ((H.E0_mem e).mp he0).1
      exact sub_ends a b new H.hab ed ha hh'
    · simp only [he0, ↓reduceIte]
      exact ⟨_, rfl, hh'⟩
  have s := edgePass_spec b new (Ne.symm H.nb) (v1.ownEdges.erase common)
    ((H.cons.2.1 _ H.b_mem).2.2.erase _) (jm5 m a b new common v0 v1) H.jm5_ekeys hends
  unfold jm6
  rw [H.jm5_ownEdges_b]
  refine ⟨?_, ?_, s.2.2⟩
  · rw [s.1, H.jm5_spec.1, List.map_map]
    apply List.map_congr_left
    intro p hp
    obtain ⟨hpm, hpc⟩ := List.mem_filter.mp hp
    have hpc' : p.1 ≠ common := by simpa using hpc
    have i0 : p.1 ∈ v0.ownEdges.erase common ↔ (p.2.v1 = a ∨ p.2.v2 = a) := by
      rw [H.E0_mem, ← H.edge0 p hpm]; simp [hpc']
    have i1 : p.1 ∈ v1.ownEdges.erase common ↔ (p.2.v1 = b ∨ p.2.v2 = b) := by
      rw [H.E1_mem, ← H.edge1 p hpm]; simp [hpc']
    simp only [Function.comp, i0, i1]
    rw [sub_sub a b new H.hab H.na H.nb p.2 (H.hloop p hpm).1 (H.hloop p hpm).2
      (H.new_not_edge p hpm).1 (H.new_not_edge p hpm).2]
  · rw [s.2.1, H.jm5_spec.2.1]

end
/-- what `join_two_vertices` returns, in closed form -/
structure JoinSpec (m : Mesh) (a b new common : Id) (F : Mesh) : Prop where
  edges : F.edges = (m.edges.filter fun p => p.1 != common).map fun p => (p.1, tauE a b new p.2)
  cells : F.cells = m.cells.map fun p => (p.1, { p.2 with verts := nvs a b new p.2.verts })
  vkeys : F.vertices.map (·.1) = (m.vertices.map (·.1)).filter (fun k => k != a && k != b) ++ [new]
  vold : ∀ p ∈ F.vertices, p.1 ≠ new → p ∈ m.vertices ∧ p.1 ≠ a ∧ p.1 ≠ b
  vnew : ∀ p ∈ F.vertices, p.1 = new → p.2.id = new ∧ p.2.ownEdges.Nodup ∧ p.2.ownCells.Nodup ∧
    (∀ e, e ∈ p.2.ownEdges ↔ e ≠ common ∧ ∃ ed, (e, ed) ∈ m.edges ∧
      ((ed.v1 = a ∨ ed.v2 = a) ∨ (ed.v1 = b ∨ ed.v2 = b))) ∧
    (∀ c, c ∈ p.2.ownCells ↔ ∃ cl, (c, cl) ∈ m.cells ∧ (a ∈ cl.verts ∨ b ∈ cl.verts))

section
variable {m : Mesh} {a b new common : Id} {v0 v1 : Vertex} (H : JoinHyp m a b new common v0 v1)
include H

/-- the composite effect of the edge stages on the vertex stored under key `k` -/
def vG (a b new common : Id) (v0 v1 : Vertex) (ce : SEdge) (k : Id) (v : Vertex) : Vertex :=
  let v4 := delF common ce k v
  let v5 := if k = new then (v0.ownEdges.erase common).foldl addEdgeTo v4
        else if k = a then (v0.ownEdges.erase common).foldl (fun v e => eraseE e v) v4 else v4
  if k = new then (v1.ownEdges.erase common).foldl addEdgeTo v5
        else if k = b then (v1.ownEdges.erase common).foldl (fun v e => eraseE e v) v5 else v5

theorem JoinHyp.jm6_vertices (ce : SEdge) (hce : alGet? common m.edges = some ce) :
    (jm6 m a b new common v0 v1).vertices =
      (m.vertices ++ [(new, nv3 m a new v0 v1)]).map fun p => (p.1, vG a b new common v0 v1 ce p.1 p.2) := by
  rw [H.jm6_spec.2.2, H.jm5_spec.2.2, H.jm4_vertices ce hce, List.map_map, List.map_map]
  rfl

theorem JoinHyp.joinFinal_spec : JoinSpec m a b new common (joinFinal m a b new common v0 v1) := by
  obtain ⟨ce, hce, hcends⟩ := H.common_edge
  have hv := H.jm6_vertices ce hce
  have hna := H.na
  have hnb := H.nb
  have hab := H.hab
  have hG_other : ∀ k v, k ≠ new → k ≠ a → k ≠ b → vG a b new common v0 v1 ce k v = v := by
    intro k v h1 h2 h3
    simp only [vG, h1, h2, h3, ↓reduceIte, H.delF_other ce hce k h2 h3]
  have hG_new : vG a b new common v0 v1 ce new (nv3 m a new v0 v1) =
      (v1.ownEdges.erase common).foldl addEdgeTo ((v0.ownEdges.erase common).foldl addEdgeTo (nv3 m a new v0 v1)) := by
    simp only [vG, ↓reduceIte, H.delF_other ce hce new hna hnb]
  rw [joinFinal_eq]
  refine ⟨H.jm6_spec.1, ?_, ?_, ?_, ?_⟩
  · show (jm6 m a b new common v0 v1).cells = _
    rw [H.jm6_spec.2.1, H.jm3_cells]
  · show ((jm6 m a b new common v0 v1).vertices.filter _).map _ = _
    rw [hv, List.map_append, List.filter_append, List.map_append]
    congr 1
    · rw [List.filter_map, List.map_map]
      conv => rhs; rw [List.filter_map]
      rfl
    · simp [hna, hnb]
  · intro p hp hpn
    simp only at hp
    obtain ⟨hp6, hpab⟩ := List.mem_filter.mp hp
    simp only [Bool.and_eq_true, bne_iff_ne, ne_eq] at hpab
    rw [hv] at hp6
    obtain ⟨p0, hp0, rfl⟩ := List.mem_map.mp hp6
    simp only at hpn hpab
    rcases List.mem_append.mp hp0 with h | h
    · rw [hG_other p0.1 p0.2 hpn hpab.1 hpab.2]
      exact ⟨h, hpab.1, hpab.2⟩
    · simp only [List.mem_singleton] at h
      subst h
      exact absurd rfl hpn
  · intro p hp hpn
    simp only at hp
    obtain ⟨hp6, _⟩ := List.mem_filter.mp hp
    rw [hv] at hp6
    obtain ⟨p0, hp0, rfl⟩ := List.mem_map.mp hp6
    simp only at hpn
    rcases List.mem_append.mp hp0 with h | h
    · exact absurd (hpn ▸ List.mem_map.mpr ⟨p0, h, rfl⟩) H.hnew
    · simp only [List.mem_singleton] at h
      subst h
      simp only [hG_new]
      obtain ⟨n1, n2, n3, n4⟩ := H.nv3_spec
      obtain ⟨p1, p2, p3, p4⟩ := foldl_addEdgeTo_spec (v0.ownEdges.erase common) (nv3 m a new v0 v1)
      obtain ⟨q1, q2, q3, q4⟩ := foldl_addEdgeTo_spec (v1.ownEdges.erase common)
        ((v0.ownEdges.erase common).foldl addEdgeTo (nv3 m a new v0 v1))
      refine ⟨by rw [q1, p1, n1], q3 (p3 (by rw [n2]; simp)), by rw [q2, p2]; exact n3, ?_, ?_⟩
      · intro e
        rw [q4, p4, n2, H.E0_mem, H.E1_mem]
        simp only [List.not_mem_nil, false_or]
        constructor
        · rintro (⟨h1, h2⟩ | ⟨h1, h2⟩)
          · obtain ⟨ed, hed, _⟩ := (H.cons.2.1 _ H.a_mem).1 e h1
            have hmem := alGet?_some_mem hed
            exact ⟨h2, ed, hmem, Or.inl ((H.edge0 _ hmem).mp h1)⟩
          · obtain ⟨ed, hed, _⟩ := (H.cons.2.1 _ H.b_mem).1 e h1
            have hmem := alGet?_some_mem hed
            exact ⟨h2, ed, hmem, Or.inr ((H.edge1 _ hmem).mp h1)⟩
        · rintro ⟨h2, ed, hmem, h | h⟩
          · exact Or.inl ⟨(H.edge0 _ hmem).mpr h, h2⟩
          · exact Or.inr ⟨(H.edge1 _ hmem).mpr h, h2⟩
      · intro c
        rw [q2, p2, n4]
        constructor
        · rintro (h1 | h1)
          · obtain ⟨cl, hcl, _⟩ := (H.cons.2.2.1 _ H.a_mem).1 c h1
            have hmem := alGet?_some_mem hcl
            exact ⟨cl, hmem, Or.inl ((H.cell0 _ hmem).mp h1)⟩
          · obtain ⟨cl, hcl, _⟩ := (H.cons.2.2.1 _ H.b_mem).1 c h1
            have hmem := alGet?_some_mem hcl
            exact ⟨cl, hmem, Or.inr ((H.cell1 _ hmem).mp h1)⟩
        · rintro ⟨cl, hmem, h | h⟩
          · exact Or.inl ((H.cell0 _ hmem).mpr h)
          · exact Or.inr ((H.cell1 _ hmem).mpr h)

end
end Mesh
end Forsys
