/- helper definitions and lemmas for Props/C03matrix.lean -/
import ForsysModel.Proofs.C01matrix
import ForsysModel.Props.C03
import ForsysModel.Props.C13
import Mathlib.Data.List.Nodup
import Mathlib.Data.List.Range
namespace Forsys
namespace FMInput

/-! ### vocabulary -/

/-- the kept junction rows of the assembled system, in the order of `tj_vertices`
    (the keys of `map_vid_to_row` in insertion order) -/
def keptRows (inp : FMInput) : List (Id × Bool × List (Option Vec)) :=
  inp.build.rows.filter fun r => r.2.1

/-- `map_vid_to_row` applied to a list of per-junction vectors: the `i`-th kept junction owns the rows `2 i` (x) and
    `2 i + 1` (y) — `position_index` of `_build_matrix` advances by 2 per kept junction -/
def placeRows (vs : List Vec) : List (Nat × Vec) :=
  vs.zipIdx.map fun p => (2 * p.2, p.1)

/-- the right-hand side `set_velocity_matrix` builds (before the optional adimensional scaling, C13) for the kept
    junctions of `inp.build`: `b[map_vid_to_row[v]] = (vel v).x`, `b[map_vid_to_row[v] + 1] = (vel v).y`,
    i.e. `placeVelocities (2 k) [(2 i, vel (i-th kept junction)) | i < k]` -/
def velocityRhs (inp : FMInput) (vel : Id → Vec) : List Rat :=
  placeVelocities (2 * inp.keptRows.length) (placeRows (inp.keptRows.map fun r => vel r.1))

/-! ### lists -/

theorem flatMap_pair_getElem?_even {α : Type} (f g : α → Rat) (l : List α) (i : Nat) :
    (l.flatMap fun a => [f a, g a])[2 * i]? = l[i]?.map f := by
  induction l generalizing i with
  | nil => simp
  | cons a l ih =>
    cases i with
    | zero => simp
    | succ i =>
      have : 2 * (i + 1) = 2 * i + 1 + 1 := by omega
      simp only [List.flatMap_cons, this, List.cons_append, List.nil_append, List.getElem?_cons_succ, ih]

theorem flatMap_pair_getElem?_odd {α : Type} (f g : α → Rat) (l : List α) (i : Nat) :
    (l.flatMap fun a => [f a, g a])[2 * i + 1]? = l[i]?.map g := by
  induction l generalizing i with
  | nil => simp
  | cons a l ih =>
    cases i with
    | zero => simp
    | succ i =>
      have : 2 * (i + 1) + 1 = (2 * i + 1) + 1 + 1 := by omega
      simp only [List.flatMap_cons, this, List.cons_append, List.nil_append, List.getElem?_cons_succ, ih]

theorem flatMap_pair_length {α : Type} (f g : α → Rat) (l : List α) :
    (l.flatMap fun a => [f a, g a]).length = 2 * l.length := by
  induction l with
  | nil => rfl
  | cons a l ih => simp only [List.flatMap_cons, List.length_append, ih, List.length_cons, List.length_nil]; omega

theorem mem_placeRows (vs : List Vec) (j : Nat) (v : Vec) :
    (j, v) ∈ placeRows vs ↔ ∃ i, j = 2 * i ∧ vs[i]? = some v := by
  simp only [placeRows, List.mem_map, Prod.mk.injEq, Prod.exists, List.mem_zipIdx_iff_getElem?]
  constructor
  · rintro ⟨a, i, h, rfl, rfl⟩; exact ⟨i, rfl, h⟩
  · rintro ⟨i, rfl, h⟩; exact ⟨v, i, h, rfl, rfl⟩

theorem placeRows_fst (vs : List Vec) : (placeRows vs).map (·.1) = (List.range vs.length).map (2 * ·) := by
  simp only [placeRows, List.map_map]
  have : ((fun x : Nat × Vec => x.1) ∘ fun p : Vec × Nat => (2 * p.2, p.1)) = (fun i => 2 * i) ∘ Prod.snd := rfl
  rw [this, ← List.map_map, List.zipIdx_map_snd, List.range_eq_range']

theorem placeRows_nodup (vs : List Vec) : ((placeRows vs).map (·.1)).Nodup := by
  rw [placeRows_fst]
  exact List.Nodup.map (fun a b h => Nat.eq_of_mul_eq_mul_left (by decide : 0 < 2) h) List.nodup_range

theorem placeRows_even (vs : List Vec) : ∀ r ∈ placeRows vs, r.1 % 2 = 0 ∧ r.1 + 1 < 2 * vs.length := by
  rintro ⟨j, v⟩ hr
  obtain ⟨i, rfl, h⟩ := (mem_placeRows vs j v).mp hr
  have := (List.getElem?_eq_some_iff.mp h).1
  simp only
  omega

/-- the placement of one vector per junction, rows `2 i` and `2 i + 1`, is the interleaving of the components -/
theorem placeVelocities_placeRows (vs : List Vec) :
    placeVelocities (2 * vs.length) (placeRows vs) = vs.flatMap fun v => [v.x, v.y] := by
  apply List.ext_getElem?
  intro j
  by_cases hj : j < 2 * vs.length
  · obtain ⟨i, hi | hi⟩ : ∃ i, j = 2 * i ∨ j = 2 * i + 1 := ⟨j / 2, by omega⟩
    · subst hi
      have hil : i < vs.length := by omega
      have hm : (2 * i, vs[i]) ∈ placeRows vs := (mem_placeRows vs _ _).mpr ⟨i, rfl, by simp [hil]⟩
      rw [(placeVelocities_spec _ _ (placeRows_nodup vs) (placeRows_even vs) _ _ hm).1,
        flatMap_pair_getElem?_even]
      simp [hil]
    · subst hi
      have hil : i < vs.length := by omega
      have hm : (2 * i, vs[i]) ∈ placeRows vs := (mem_placeRows vs _ _).mpr ⟨i, rfl, by simp [hil]⟩
      rw [(placeVelocities_spec _ _ (placeRows_nodup vs) (placeRows_even vs) _ _ hm).2,
        flatMap_pair_getElem?_odd]
      simp [hil]
  · rw [List.getElem?_eq_none (by rw [placeVelocities_length]; omega),
      List.getElem?_eq_none (by rw [flatMap_pair_length]; omega)]

theorem placeRows_map (f : Vec → Vec) (vs : List Vec) :
    placeRows (vs.map f) = (placeRows vs).map fun p => (p.1, f p.2) := by
  simp only [placeRows, List.zipIdx_map, List.map_map]
  rfl

/-! ### the right-hand side -/

theorem velocityRhs_flatMap (inp : FMInput) (vel : Id → Vec) :
    velocityRhs inp vel = inp.keptRows.flatMap fun r => [(vel r.1).x, (vel r.1).y] := by
  unfold velocityRhs
  have := placeVelocities_placeRows (inp.keptRows.map fun r => vel r.1)
  rw [List.length_map] at this
  rw [this, List.flatMap_map]

theorem velocityRhs_len (inp : FMInput) (vel : Id → Vec) :
    (velocityRhs inp vel).length = 2 * inp.keptRows.length := by
  unfold velocityRhs
  rw [placeVelocities_length]

theorem velocityRhs_len_matrix (inp : FMInput) (len : Id → Nat → Rat) (vel : Id → Vec) :
    (velocityRhs inp vel).length = (normalisedMatrix inp len).length := by
  rw [velocityRhs_len, normalisedMatrix_length]; rfl

theorem velocityRhs_zero' (inp : FMInput) (len : Id → Nat → Rat) :
    velocityRhs inp (fun _ => ⟨0, 0⟩) = List.replicate (normalisedMatrix inp len).length 0 := by
  rw [List.eq_replicate_iff]
  refine ⟨velocityRhs_len_matrix inp len _, ?_⟩
  intro b hb
  rw [velocityRhs_flatMap] at hb
  simp only [List.mem_flatMap, List.mem_cons, List.not_mem_nil, or_false, or_self] at hb
  obtain ⟨_, _, rfl⟩ := hb
  rfl

theorem velocityRhs_congr' (inp : FMInput) (vel vel' : Id → Vec)
    (h : ∀ r ∈ inp.build.rows, r.2.1 = true → vel r.1 = vel' r.1) :
    velocityRhs inp vel = velocityRhs inp vel' := by
  unfold velocityRhs
  congr 2
  apply List.map_congr_left
  intro r hr
  obtain ⟨hr, hk⟩ := List.mem_filter.mp hr
  exact h r hr hk

theorem velocityRhs_smul' (inp : FMInput) (vel : Id → Vec) (c : Rat) :
    velocityRhs inp (fun v => Vec.smul c (vel v)) = (velocityRhs inp vel).map (c * ·) := by
  unfold velocityRhs
  rw [← placeVelocities_smul, ← placeRows_map, List.map_map]
  rfl

/-! ### the product with the tension vector -/

/-- the x- and y-equation of a kept junction evaluated at `tau`: the net pull of the interfaces ending there -/
theorem row_dot (inp : FMInput) (len : Id → Nat → Rat) (dir : Id → Nat → Vec) (tau : Nat → Rat)
    (r : Id × Bool × List (Option Vec)) (hr : r ∈ inp.build.rows) (hk : r.2.1 = true)
    (hpos : ∀ c < inp.build.used.length, endsAt (inp.build.used.getD c []) r.1 = true → 0 < len r.1 c)
    (htrue : ∀ c < inp.build.used.length, endsAt (inp.build.used.getD c []) r.1 = true →
      inp.tangentAt c r.1 = some (Vec.smul (len r.1 c) (dir r.1 c))) :
    dot (rowX inp len r) (tauVec inp.build.used.length tau)
      = ((inp.endCols r.1).map fun c => tau c * (dir r.1 c).x).sum ∧
    dot (rowY inp len r) (tauVec inp.build.used.length tau)
      = ((inp.endCols r.1).map fun c => tau c * (dir r.1 c).y).sum := by
  unfold rowX rowY tauVec
  rw [dot_map_map, dot_map_map]
  constructor
  · rw [endCols, ← sum_map_ite_filter]
    congr 1
    apply List.map_congr_left
    intro c hc
    rw [List.mem_range] at hc
    rw [(unit_entry inp len dir r hr hk c hc (hpos c hc) (htrue c hc)).1]
    split <;> ring
  · rw [endCols, ← sum_map_ite_filter]
    congr 1
    apply List.map_congr_left
    intro c hc
    rw [List.mem_range] at hc
    rw [(unit_entry inp len dir r hr hk c hc (hpos c hc) (htrue c hc)).2]
    split <;> ring

theorem mulVec_normalised (inp : FMInput) (len : Id → Nat → Rat) (x : List Rat) :
    mulVec (normalisedMatrix inp len) x
      = inp.keptRows.flatMap fun r => [dot (rowX inp len r) x, dot (rowY inp len r) x] := by
  unfold mulVec normalisedMatrix keptRows
  rw [List.map_flatMap]
  rfl

theorem flatMap_congr_mem {α β : Type} (l : List α) (f g : α → List β) (h : ∀ a ∈ l, f a = g a) :
    l.flatMap f = l.flatMap g := by
  induction l with
  | nil => rfl
  | cons a l ih =>
    rw [List.flatMap_cons, List.flatMap_cons, h a List.mem_cons_self,
      ih fun b hb => h b (List.mem_cons_of_mem _ hb)]

/-- `(addMeanOne A b).1` does not depend on `b` -/
theorem addMeanOne_fst (A : Mat) (b b' : List Rat) : (addMeanOne A b).1 = (addMeanOne A b').1 := rfl

end FMInput
end Forsys
