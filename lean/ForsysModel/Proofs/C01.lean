/- helper lemmas for Props/C01.lean -/
import ForsysModel.Proofs.C05
import ForsysModel.Props.C05
namespace Forsys.C01

theorem zip_telescope (f : Pt → Rat) (a c : Pt) (l : List Pt) :
    ((List.zip (a :: l) (l ++ [c])).map fun e => f e.2 - f e.1).sum = f c - f a := by
  induction l generalizing a with
  | nil => simp
  | cons b l ih =>
    have := ih b
    simp only [List.cons_append, List.zip_cons_cons, List.map_cons, List.sum_cons] at this ⊢
    rw [this]; ring

theorem cyclic_telescope (f : Pt → Rat) (l : List Pt) :
    ((cyclicPairs l).map fun e => f e.2 - f e.1).sum = 0 := by
  cases l with
  | nil => simp [cyclicPairs]
  | cons a l => simp only [cyclicPairs]; rw [zip_telescope]; ring

theorem sum_map_lin {α : Type} (p q : Rat) (f g : α → Rat) (l : List α) :
    (l.map fun t => p * f t + q * g t).sum = p * (l.map f).sum + q * (l.map g).sum := by
  induction l with
  | nil => simp
  | cons a l ih => simp only [List.map_cons, List.sum_cons, ih]; ring

theorem sum_vscale (k : Rat) (a : List Rat) : (vscale k a).sum = k * a.sum := by
  induction a with
  | nil => simp [vscale]
  | cons x a ih => simp only [vscale, List.map_cons, List.sum_cons] at ih ⊢; rw [ih]; ring

theorem residSq_eq_zero_of_eq (M : Mat) (b x : List Rat) (h : mulVec M x = b) : residSq M b x = 0 := by
  unfold residSq
  rw [h, normSq_eq_zero]
  exact (vsub_eq_zero_iff b b rfl).mpr rfl

theorem eq_of_residSq_eq_zero (M : Mat) (b x : List Rat) (hlen : M.length = b.length)
    (h : residSq M b x = 0) : mulVec M x = b := by
  unfold residSq at h
  rw [normSq_eq_zero] at h
  exact (vsub_eq_zero_iff _ _ (by simp [hlen])).mp h

theorem vscale_replicate_zero (k : Rat) (m : Nat) : vscale k (List.replicate m 0) = List.replicate m 0 := by
  simp [vscale]

/-- general form: `A x = b`, `Σ x = n` ⇒ `(x, 0)` solves the augmented system -/
theorem aug_solves (A : Mat) (b x : List Rat) (m n : Nat) (hm : 0 < m) (hs : Shaped A b m n)
    (hx : x.length = n) (hAx : mulVec A x = b) (hsum : x.sum = (n : Rat)) :
    mulVec (addMeanOne A b).1 (x ++ [0]) = (addMeanOne A b).2 := by
  obtain ⟨h1, h2⟩ := addMeanOne_mulVec A b x 0 m n hm hs hx
  rw [h1, h2, hAx, hsum]; simp

/-- minimiser of a consistent system with injective matrix -/
theorem min_unique (M : Mat) (b y z : List Rat) (k : Nat) (hlen : M.length = b.length)
    (hy : y.length = k) (hz : z.length = k) (hz0 : ∀ v ∈ z, 0 ≤ v) (hMz : mulVec M z = b)
    (hinj : ∀ x x' : List Rat, x.length = k → x'.length = k → mulVec M x = mulVec M x' → x = x')
    (hmin : ∀ x : List Rat, x.length = k → (∀ v ∈ x, 0 ≤ v) → residSq M b y ≤ residSq M b x) :
    y = z := by
  have h1 := hmin z hz hz0
  rw [residSq_eq_zero_of_eq M b z hMz] at h1
  have h2 : residSq M b y = 0 := le_antisymm h1 (residSq_nonneg M b y)
  have h3 := eq_of_residSq_eq_zero M b y hlen h2
  exact hinj y z hy hz (h3.trans hMz.symm)

theorem truth_z (A : Mat) (tau : List Rat) (m n : Nat) (hm : 0 < m) (hs : Shaped A (List.replicate m 0) m n)
    (ht : tau.length = n) (hbal : mulVec A tau = List.replicate m 0) (hsum : tau.sum ≠ 0) :
    mulVec (addMeanOne A (List.replicate m 0)).1 (vscale ((n : Rat) / tau.sum) tau ++ [0])
      = (addMeanOne A (List.replicate m 0)).2 := by
  apply aug_solves A _ _ m n hm hs (by simp [ht])
  · rw [mulVec_vscale, hbal, vscale_replicate_zero]
  · rw [sum_vscale]; exact div_mul_cancel₀ _ hsum

end Forsys.C01
