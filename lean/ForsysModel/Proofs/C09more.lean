/-
  helper lemmas for Props/C09more.lean: deleting a cell keeps every clause, deleting an edge keeps the clauses
  that do not mention joinedness, the orphan-removal fold, and "consistency depends only on ids and own-lists".
-/
import ForsysModel.Props.C09
import ForsysModel.Props.C09join
import ForsysModel.Proofs.C20

namespace Forsys
open Mesh
namespace Mesh

/-! helpers -/

theorem c09_foldl_updVertex_ec (g : Id → Vertex → Vertex) (vs : List Id) (m : Mesh) :
    (vs.foldl (fun m v => m.updVertex v (g v)) m).cells = m.cells ∧
    (vs.foldl (fun m v => m.updVertex v (g v)) m).edges = m.edges := by
  induction vs generalizing m with
  | nil => exact ⟨rfl, rfl⟩
  | cons a r ih =>
    simp only [List.foldl_cons]
    obtain ⟨h1, h2⟩ := ih (m.updVertex a (g a))
    exact ⟨h1.trans rfl, h2.trans rfl⟩

theorem c09_delCell_cells' (m : Mesh) (k : Id) :
    (m.delCell k).cells = m.cells.filter fun p => p.1 != k := by
  cases h : m.cell? k with
  | none =>
    rw [delCell_none _ _ h, filter_ne_of_not_mem_keys]
    exact (alGet?_eq_none_iff _ _).mp h
  | some c =>
    simp only [delCell, h]
    exact congrArg _ (c09_foldl_updVertex_ec (fun _ vx => { vx with ownCells := vx.ownCells.erase k }) c.verts m).1

theorem c09_delEdge_ownCellsP (m : Mesh) (k : Id) (h : OwnCellsP m) : OwnCellsP (m.delEdge k) := by
  apply OwnCellsP_of_sim m _ (delEdge_cells m k) _ h
  intro p' hp'
  obtain ⟨p, hp, _, h2, h3, _⟩ := delEdge_sim m k p' hp'
  exact ⟨p, hp, h2, h3⟩

theorem c09_delEdge_refsP (m : Mesh) (k : Id) (h : RefsP m) : RefsP (m.delEdge k) := by
  refine ⟨?_, ?_⟩
  · intro q hq
    rw [delEdge_edges] at hq
    rw [delEdge_vkeys]
    exact h.1 q (List.mem_filter.mp hq).1
  · intro q hq
    rw [delEdge_cells] at hq
    rw [delEdge_vkeys]
    exact h.2 q hq

theorem c09_delCell_consP (m : Mesh) (k : Id) (h : ConsP m) : ConsP (m.delCell k) := by
  obtain ⟨hK, hE, hC, hR, hN, hJ⟩ := h
  cases hc : m.cell? k with
  | none => rw [delCell_none _ _ hc]; exact ⟨hK, hE, hC, hR, hN, hJ⟩
  | some c =>
    have hmem : (k, c) ∈ m.cells := alGet?_some_mem hc
    have hnd : c.verts.Nodup := hN _ hmem
    have hcells := delCell_cells m k c hc hnd
    have hedges := delCell_edges m k c hc hnd
    have hverts := delCell_vertices m k c hc hnd
    have hvk : (m.delCell k).vertices.map (·.1) = m.vertices.map (·.1) := by
      rw [hverts]; simp [List.map_map, Function.comp_def]
    refine ⟨delCell_keysP m k hK hN, ?_, delCell_ownCellsP m k hK.1 hK.2.2.1 hC hN, ?_, ?_, ?_⟩
    · apply OwnEdgesP_of_sim m _ hedges _ hE
      intro p' hp'
      rw [hverts] at hp'
      obtain ⟨p, hp, rfl⟩ := List.mem_map.mp hp'
      refine ⟨p, hp, ?_, ?_⟩ <;> (dsimp only; split <;> rfl)
    · refine ⟨?_, ?_⟩
      · intro q hq
        rw [hedges] at hq; rw [hvk]; exact hR.1 q hq
      · intro q hq
        rw [hcells] at hq; rw [hvk]; exact hR.2 q (List.mem_filter.mp hq).1
    · intro q hq
      rw [hcells] at hq; exact hN q (List.mem_filter.mp hq).1
    · intro q hq ab hab
      rw [hcells] at hq
      obtain ⟨e, he, hh⟩ := hJ q (List.mem_filter.mp hq).1 ab hab
      exact ⟨e, by rw [hedges]; exact he, hh⟩


theorem c09_orphan_init (m : Mesh) (h : ConsP m) :
    ∀ p ∈ m.vertices, p.1 ∈ (m.vertices.filter fun p => p.2.ownCells.isEmpty).map (·.1) → p.2.ownCells = [] := by
  intro p hp hmem
  obtain ⟨p0, hp0, hk⟩ := List.mem_map.mp hmem
  obtain ⟨hp0m, hemp⟩ := List.mem_filter.mp hp0
  have e1 : alGet? p.1 m.vertices = some p.2 := alGet?_of_mem h.1.2.2.2.1 hp
  have e2 : alGet? p0.1 m.vertices = some p0.2 := alGet?_of_mem h.1.2.2.2.1 hp0m
  rw [hk, e1] at e2
  have := Option.some.inj e2
  rw [this]
  simpa using hemp

theorem c09_orphanStep_key (m : Mesh) (i : Id) : ∀ p ∈ (orphanStep m i).vertices, p.1 ≠ i := by
  intro p hp
  simp only [orphanStep, List.mem_filter, bne_iff_ne] at hp
  exact hp.2

theorem c09_orphan_fold (L l : List Id) (m : Mesh) (h : ConsP m) (hsub : ∀ x ∈ l, x ∈ L)
    (hL : ∀ p ∈ m.vertices, p.1 ∈ L → p.2.ownCells = []) :
    ∀ p' ∈ (l.foldl orphanStep m).vertices,
      (∃ p ∈ m.vertices, p'.1 = p.1 ∧ p'.2.ownCells = p.2.ownCells) ∧ p'.1 ∉ l := by
  induction l generalizing m with
  | nil => intro p' hp'; exact ⟨⟨p', hp', rfl, rfl⟩, by simp⟩
  | cons i r ih =>
    intro p' hp'
    simp only [List.foldl_cons] at hp'
    have hi : i ∈ L := hsub i (List.mem_cons_self ..)
    obtain ⟨d1, d2⟩ := orphanStep_consP m i h (fun p hp hpi => hL p hp (hpi ▸ hi))
    have hL' : ∀ p ∈ (orphanStep m i).vertices, p.1 ∈ L → p.2.ownCells = [] := by
      intro p1 hp1 hmem
      obtain ⟨p, hp, a, b⟩ := d2 p1 hp1
      rw [b]; exact hL p hp (a ▸ hmem)
    obtain ⟨⟨p1, hp1, a1, b1⟩, hnr⟩ := ih (orphanStep m i) d1 (fun x hx => hsub x (List.mem_cons_of_mem _ hx)) hL' p' hp'
    obtain ⟨p, hp, a, b⟩ := d2 p1 hp1
    refine ⟨⟨p, hp, a1.trans a, b1.trans b⟩, ?_⟩
    intro hmem
    rcases List.mem_cons.mp hmem with heq | hin
    · exact c09_orphanStep_key m i p1 hp1 (a1 ▸ heq)
    · exact hnr hin

def c09_strip (p : Id × Vertex) : Id × Id × List Id × List Id := (p.1, p.2.id, p.2.ownEdges, p.2.ownCells)

theorem c09_consP_congr (m m' : Mesh) (he : m'.edges = m.edges) (hc : m'.cells = m.cells)
    (hv : m'.vertices.map c09_strip = m.vertices.map c09_strip) (h : ConsP m) : ConsP m' := by
  obtain ⟨hK, hE, hC, hR, hN, hJ⟩ := h
  have hkeys : m'.vertices.map (·.1) = m.vertices.map (·.1) := by
    have := congrArg (List.map (·.1)) hv
    simpa [List.map_map, Function.comp_def, c09_strip] using this
  have hsim : ∀ p' ∈ m'.vertices, ∃ p ∈ m.vertices, c09_strip p' = c09_strip p := by
    intro p' hp'
    have : c09_strip p' ∈ m.vertices.map c09_strip := hv ▸ List.mem_map.mpr ⟨p', hp', rfl⟩
    obtain ⟨p, hp, e⟩ := List.mem_map.mp this
    exact ⟨p, hp, e.symm⟩
  refine ⟨⟨?_, ?_, ?_, ?_, ?_, ?_⟩, ?_, ?_, ?_, ?_, ?_⟩
  · intro p' hp'
    obtain ⟨p, hp, e⟩ := hsim p' hp'
    simp only [c09_strip, Prod.mk.injEq] at e
    rw [e.1, e.2.1]; exact hK.1 p hp
  · rw [he]; exact hK.2.1
  · rw [hc]; exact hK.2.2.1
  · rw [hkeys]; exact hK.2.2.2.1
  · rw [he]; exact hK.2.2.2.2.1
  · rw [hc]; exact hK.2.2.2.2.2
  · apply OwnEdgesP_of_sim m m' he _ hE
    intro p' hp'
    obtain ⟨p, hp, e⟩ := hsim p' hp'
    simp only [c09_strip, Prod.mk.injEq] at e
    exact ⟨p, hp, e.2.1, e.2.2.1⟩
  · apply OwnCellsP_of_sim m m' hc _ hC
    intro p' hp'
    obtain ⟨p, hp, e⟩ := hsim p' hp'
    simp only [c09_strip, Prod.mk.injEq] at e
    exact ⟨p, hp, e.2.1, e.2.2.2⟩
  · unfold RefsP; rw [he, hc, hkeys]; exact hR
  · unfold CellsNodupP; rw [hc]; exact hN
  · intro q hq ab hab
    rw [hc] at hq
    obtain ⟨e, hem, hh⟩ := hJ q hq ab hab
    exact ⟨e, he ▸ hem, hh⟩

end Mesh
end Forsys
