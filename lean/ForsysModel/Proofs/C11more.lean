/- helper lemmas for Props/C11more.lean -/
import ForsysModel.Props.C11
import ForsysModel.Props.C11mesh
import ForsysModel.Props.C11merge
namespace Forsys
open Mesh

/-- an interface resampled with `ne` contributes at most `ne` consecutive pairs -/
theorem segs_length_le (ne : Nat) (l : List (List Id)) :
    ((l.map (pick ne)).map fun be => List.zip be be.tail).flatten.length ≤ ne * l.length := by
  induction l with
  | nil => simp
  | cons e l ih =>
    have := pick_length_le ne e
    simp only [List.map_cons, List.flatten_cons, List.length_append, List.length_zip, List.length_tail,
      List.length_cons, Nat.mul_succ]
    omega

/-- the exact number of consecutive pairs of the resampled interfaces -/
theorem segs_length (ne : Nat) (l : List (List Id)) :
    ((l.map (pick ne)).map fun be => List.zip be be.tail).flatten.length =
      (l.map fun e => (pick ne e).length - 1).sum := by
  induction l with
  | nil => simp
  | cons e l ih =>
    simp only [List.map_cons, List.flatten_cons, List.length_append, List.length_zip, List.length_tail,
      List.sum_cons, ih]
    omega

end Forsys
