/- definitions and helper lemmas for Props/C13relabel.lean: per-frame renumbering of the vertices of a time series -/
import ForsysModel.Model.TimeSeries
import ForsysModel.Proofs.C13
namespace Forsys

/-- every vertex id of the frame renamed by `g`; time, positions and the order of the dictionary unchanged -/
def TFrame.mapV (g : Id → Id) (f : TFrame) : TFrame :=
  { time := f.time, verts := f.verts.map fun v => ⟨g v.id, v.p⟩ }

/-- the step map `t → t+1` renamed: keys (ids of frame `t`) by `g`, values (ids of frame `t+1`, or None) by `h`;
    the insertion order of the dictionary is kept -/
def StepMap.mapV (g h : Id → Id) (m : StepMap) : StepMap := m.map fun p => (g p.1, p.2.map h)

/-- frame number `t` renamed by `σ t` -/
def relabelFrames (σ : Nat → Id → Id) (frames : List TFrame) : List TFrame :=
  frames.mapIdx fun t f => f.mapV (σ t)

/-- step map number `t` (frame `t` → frame `t+1`) renamed by `(σ t, σ (t+1))`; a missing map stays missing -/
def relabelMaps (σ : Nat → Id → Id) (maps : List (Option StepMap)) : List (Option StepMap) :=
  maps.mapIdx fun t m => m.map (StepMap.mapV (σ t) (σ (t + 1)))

/-- the vertex ids that occur at frame `s` of a series: the vertices of frame `s`, the keys of step map `s`
    (frame `s` → `s+1`) and the real (non-None) values of step map `s-1` -/
def seriesIds (frames : List TFrame) (maps : List (Option StepMap)) (s : Nat) : List Id :=
  (match frames[s]? with | some f => f.verts.map (·.id) | none => []) ++
  (match maps.getD s none with | some m => m.map (·.1) | none => []) ++
  (match s with
   | 0 => []
   | s' + 1 => match maps.getD s' none with | some m => m.values.filterMap id | none => [])

deriving instance DecidableEq for VelResult
deriving instance DecidableEq for TVert
deriving instance DecidableEq for TFrame

namespace C13r

/-! ### look-ups under renaming -/

theorem alGet?_map {β γ : Type} (g : Id → Id) (hg : Function.Injective g) (φ : β → γ) (k : Id)
    (m : List (Id × β)) : alGet? (g k) (m.map fun p => (g p.1, φ p.2)) = (alGet? k m).map φ := by
  induction m with
  | nil => rfl
  | cons a m ih =>
    obtain ⟨k', v⟩ := a
    simp only [List.map_cons, alGet?]
    by_cases h : k = k'
    · subst h; simp
    · have : ¬ g k = g k' := fun e => h (hg e)
      simp [h, this, ih]

theorem get?_mapV (g h : Id → Id) (hg : Function.Injective g) (m : StepMap) (p : Id) :
    (m.mapV g h).get? (g p) = (m.get? p).map (Option.map h) := by
  unfold StepMap.get? StepMap.mapV
  exact alGet?_map g hg (Option.map h) p m

theorem option_map_eq_iff (h : Id → Id) (hh : Function.Injective h) (a b : Option Id) :
    a.map h = b.map h ↔ a = b := by
  constructor
  · intro e
    cases a <;> cases b <;> simp at e ⊢
    exact hh e
  · intro e; rw [e]

theorem lastKey_mapV (g h : Id → Id) (hh : Function.Injective h) (m : StepMap) (k : Option Id) :
    C13.lastKey (k.map h) (m.mapV g h) = (C13.lastKey k m).map g := by
  induction m with
  | nil => rfl
  | cons pr m ih =>
    have ih' : C13.lastKey (k.map h) (List.map (fun p => (g p.1, Option.map h p.2)) m)
        = (C13.lastKey k m).map g := ih
    simp only [StepMap.mapV, List.map_cons, C13.lastKey, ih']
    by_cases e : pr.2 = k
    · simp [e]
    · have : ¬ Option.map h pr.2 = Option.map h k := fun e' => e ((option_map_eq_iff h hh _ _).1 e')
      simp [e, this]

/-- the inverted dictionary of the renamed step map is the renamed inverted dictionary, entry by entry, in the same
    order (`h` injective: two distinct targets stay distinct, so "later keys win" removes the same entries) -/
theorem invertMap_mapV (g h : Id → Id) (hh : Function.Injective h) (m : StepMap) :
    invertMap (m.mapV g h) = (invertMap m).map fun q => (q.1.map h, g q.2) := by
  rw [C13.invertMap_eq, C13.invertMap_eq]
  suffices H : ∀ acc : List (Option Id × Id),
      (StepMap.mapV g h m).foldl C13.invStep (acc.map fun q => (q.1.map h, g q.2))
        = (m.foldl C13.invStep acc).map fun q => (q.1.map h, g q.2) from H []
  induction m with
  | nil => intro acc; rfl
  | cons pr m ih =>
    intro acc
    have hstep : C13.invStep (acc.map fun q => (q.1.map h, g q.2)) (g pr.1, pr.2.map h)
        = (C13.invStep acc pr).map fun q => (q.1.map h, g q.2) := by
      simp only [C13.invStep, List.map_append, List.map_cons, List.map_nil, List.filter_map]
      congr 2
      apply List.filter_congr
      intro q _
      simp only [Function.comp]
      by_cases e : q.1 = pr.2
      · rw [e]; simp
      · have : ¬ Option.map h q.1 = Option.map h pr.2 := fun e' => e ((option_map_eq_iff h hh _ _).1 e')
        have h1 : (q.1 != pr.2) = true := by simpa using e
        have h2 : (Option.map h q.1 != Option.map h pr.2) = true := by simpa using this
        rw [h1, h2]
    show List.foldl C13.invStep _ ((g pr.1, pr.2.map h) :: StepMap.mapV g h m) = _
    rw [List.foldl_cons, List.foldl_cons, hstep]
    exact ih _

theorem lookupOpt_invertMap_mapV (g h : Id → Id) (hh : Function.Injective h) (m : StepMap) (p : Id) :
    lookupOpt (some (h p)) (invertMap (m.mapV g h)) = (lookupOpt (some p) (invertMap m)).map g := by
  rw [C13.lookupOpt_invertMap, C13.lookupOpt_invertMap]
  exact lastKey_mapV g h hh m (some p)

/-! ### the relabelled lists -/

theorem getD_relabelMaps (σ : Nat → Id → Id) (maps : List (Option StepMap)) (t : Nat) :
    (relabelMaps σ maps).getD t none = (maps.getD t none).map (StepMap.mapV (σ t) (σ (t + 1))) := by
  simp only [relabelMaps, List.getD_eq_getElem?_getD, List.getElem?_mapIdx]
  cases maps[t]? <;> rfl

theorem getElem?_relabelFrames (σ : Nat → Id → Id) (frames : List TFrame) (t : Nat) :
    (relabelFrames σ frames)[t]? = (frames[t]?).map (TFrame.mapV (σ t)) := by
  simp only [relabelFrames, List.getElem?_mapIdx]

theorem length_relabelFrames (σ : Nat → Id → Id) (frames : List TFrame) :
    (relabelFrames σ frames).length = frames.length := by
  simp only [relabelFrames, List.length_mapIdx]

theorem pos?_mapV (g : Id → Id) (hg : Function.Injective g) (f : TFrame) (k : Id) :
    (f.mapV g).pos? (g k) = f.pos? k := by
  unfold TFrame.pos? TFrame.mapV
  simp only [List.find?_map, Option.map_map]
  have : ((fun v : TVert => v.id == g k) ∘ fun v : TVert => (⟨g v.id, v.p⟩ : TVert)) = fun v : TVert => v.id == k := by
    funext v
    simp only [Function.comp]
    by_cases e : v.id = k
    · simp [e]
    · have : ¬ g v.id = g k := fun e' => e (hg e')
      simp [e, this]
  rw [this]
  cases List.find? (fun v : TVert => v.id == k) f.verts <;> rfl

/-! ### the walks -/

theorem walkForward_relabel (σ : Nat → Id → Id) (maps : List (Option StepMap)) (n t : Nat) (pt : Option Id)
    (hσ : ∀ s, t ≤ s → s < t + n → Function.Injective (σ s))
    (hmaps : ∀ s, t ≤ s → s < t + n → (maps.getD s none).isSome = true) :
    walkForward (relabelMaps σ maps) t n (pt.map (σ t))
      = (walkForward maps t n pt).map (Option.map (σ (t + n))) := by
  induction n generalizing t pt with
  | zero => simp [walkForward, Except.map]
  | succ n ih =>
    cases pt with
    | none => simp [walkForward, Except.map]
    | some p =>
      have hm := hmaps t (Nat.le_refl _) (by omega)
      cases hmt : maps.getD t none with
      | none => rw [hmt] at hm; simp at hm
      | some m =>
        have hmt' : (relabelMaps σ maps).getD t none = some (m.mapV (σ t) (σ (t + 1))) := by
          rw [getD_relabelMaps, hmt]; rfl
        simp only [Option.map_some, walkForward, hmt, hmt',
          get?_mapV _ _ (hσ t (Nat.le_refl _) (by omega))]
        cases hg : m.get? p with
        | none => simp [Except.map]
        | some v =>
          simp only [Option.map_some]
          rw [ih (t + 1) v (fun s h1 h2 => hσ s (by omega) (by omega))
            (fun s h1 h2 => hmaps s (by omega) (by omega))]
          rw [show t + 1 + n = t + (n + 1) by omega]

theorem walkBackward_relabel (σ : Nat → Id → Id) (maps : List (Option StepMap)) (n t : Nat) (pt : Option Id)
    (hn : n ≤ t) (hσ : ∀ s, t - n < s → s ≤ t → Function.Injective (σ s)) :
    walkBackward (relabelMaps σ maps) t n (pt.map (σ t))
      = (walkBackward maps t n pt).map (Option.map (σ (t - n))) := by
  induction n generalizing t pt with
  | zero => simp [walkBackward, Except.map]
  | succ n ih =>
    have ht : t - 1 + 1 = t := by omega
    cases hmt : maps.getD (t - 1) none with
    | none =>
      have hmt' : (relabelMaps σ maps).getD (t - 1) none = none := by
        rw [getD_relabelMaps, hmt]; rfl
      simp only [walkBackward, hmt, hmt', Except.map]
    | some m =>
      have hmt' : (relabelMaps σ maps).getD (t - 1) none = some (m.mapV (σ (t - 1)) (σ t)) := by
        rw [getD_relabelMaps, hmt, ht]; rfl
      cases pt with
      | none => simp only [walkBackward, hmt, hmt', Except.map, Option.map_none]
      | some p =>
        simp only [Option.map_some, walkBackward, hmt, hmt',
          lookupOpt_invertMap_mapV _ _ (hσ t (by omega) (Nat.le_refl _))]
        cases hl : lookupOpt (some p) (invertMap m) with
        | none => simp [Except.map]
        | some k =>
          simp only [Option.map_some]
          have := ih (t - 1) (some k) (by omega) (fun s h1 h2 => hσ s (by omega) (by omega))
          simp only [Option.map_some] at this
          rw [this, show t - 1 - n = t - (n + 1) by omega]

/-! ### the relabelled series depends on the renumbering only through its values on the ids that occur -/

theorem relabelFrames_congr (σ σ' : Nat → Id → Id) (frames : List TFrame) (maps : List (Option StepMap))
    (h : ∀ s, ∀ a ∈ seriesIds frames maps s, σ s a = σ' s a) : relabelFrames σ frames = relabelFrames σ' frames := by
  apply List.ext_getElem?
  intro i
  rw [getElem?_relabelFrames, getElem?_relabelFrames]
  cases hf : frames[i]? with
  | none => rfl
  | some f =>
    simp only [Option.map_some, Option.some.injEq, TFrame.mapV, TFrame.mk.injEq, true_and]
    apply List.map_congr_left
    intro v hv
    have : v.id ∈ seriesIds frames maps i := by
      simp only [seriesIds, hf, List.mem_append, List.mem_map]
      exact Or.inl (Or.inl ⟨v, hv, rfl⟩)
    rw [h i _ this]

theorem relabelMaps_congr (σ σ' : Nat → Id → Id) (frames : List TFrame) (maps : List (Option StepMap))
    (h : ∀ s, ∀ a ∈ seriesIds frames maps s, σ s a = σ' s a) : relabelMaps σ maps = relabelMaps σ' maps := by
  apply List.ext_getElem?
  intro i
  simp only [relabelMaps, List.getElem?_mapIdx]
  cases hm : maps[i]? with
  | none => rfl
  | some om =>
    cases om with
    | none => rfl
    | some m =>
      have hgd : maps.getD i none = some m := by rw [List.getD_eq_getElem?_getD, hm]; rfl
      simp only [Option.map_some, Option.some.injEq, StepMap.mapV]
      apply List.map_congr_left
      intro pr hpr
      have h1 : pr.1 ∈ seriesIds frames maps i := by
        simp only [seriesIds, hgd, List.mem_append, List.mem_map]
        exact Or.inl (Or.inr ⟨pr, hpr, rfl⟩)
      rw [h i _ h1]
      cases hv : pr.2 with
      | none => rfl
      | some w =>
        have h2 : w ∈ seriesIds frames maps (i + 1) := by
          simp only [seriesIds, hgd, List.mem_append, List.mem_filterMap, StepMap.values, List.mem_map, id]
          exact Or.inr ⟨some w, ⟨pr, hpr, hv⟩, rfl⟩
        rw [Option.map_some, Option.map_some, h (i + 1) _ h2]

end C13r
end Forsys
