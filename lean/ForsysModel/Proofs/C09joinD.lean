/- consistency of the closed form of join_two_vertices (helper for Props/C09join.lean) -/
import ForsysModel.Proofs.C09joinC
namespace Forsys
namespace Mesh

theorem tau_eq_new (a b new x : Id) : tau a b new x = new ↔ x = a ∨ x = b ∨ x = new := by
  unfold tau
  by_cases h : x = a ∨ x = b
  · simp only [h, ↓reduceIte, true_iff]; tauto
  · simp only [h, ↓reduceIte]; tauto

theorem tau_eq_other (a b new x y : Id) (hy : y ≠ new) : tau a b new x = y ↔ x = y ∧ x ≠ a ∧ x ≠ b := by
  unfold tau
  by_cases h : x = a ∨ x = b
  · simp only [h, ↓reduceIte]
    constructor
    · intro h'; exact absurd h'.symm hy
    · rintro ⟨_, h1, h2⟩; rcases h with h | h <;> contradiction
  · simp only [h, ↓reduceIte]
    simp only [not_or] at h
    tauto

theorem JoinSpec.consP {m : Mesh} {a b new common : Id} {F : Mesh} (S : JoinSpec m a b new common F)
    (hC : ConsP m) (hab : a ≠ b) (hnew : new ∉ m.vertices.map (·.1))
    (ha : a ∈ m.vertices.map (·.1)) (hb : b ∈ m.vertices.map (·.1))
    (hcom : ∃ ce, alGet? common m.edges = some ce ∧ ((ce.v1 = a ∧ ce.v2 = b) ∨ (ce.v1 = b ∧ ce.v2 = a)))
    (hadj : ∀ q ∈ m.cells, a ∈ q.2.verts → b ∈ q.2.verts →
      3 ≤ q.2.verts.length ∧ ((a, b) ∈ cyclicPairs q.2.verts ∨ (b, a) ∈ cyclicPairs q.2.verts)) :
    ConsP F := by
  obtain ⟨hK, hE, hOC, hR, hN, hJ⟩ := hC
  obtain ⟨k1, k2, k3, k4, k5, k6⟩ := hK
  obtain ⟨ce, hce, hcends⟩ := hcom
  have hna : new ≠ a := fun h => hnew (h ▸ ha)
  have hnb : new ≠ b := fun h => hnew (h ▸ hb)
  have hnc : ∀ q ∈ m.cells, new ∉ q.2.verts := fun q hq h => hnew ((hR.2 q hq).2 _ h)
  have hne : ∀ q ∈ m.edges, q.2.v1 ≠ new ∧ q.2.v2 ≠ new := by
    intro q hq
    obtain ⟨_, r1, r2⟩ := hR.1 q hq
    exact ⟨fun h => hnew (h ▸ r1), fun h => hnew (h ▸ r2)⟩
  -- keys of F
  have hFkey : ∀ v, v ∈ m.vertices.map (·.1) → tau a b new v ∈ F.vertices.map (·.1) := by
    intro v hv
    rw [S.vkeys]
    unfold tau
    by_cases h : v = a ∨ v = b
    · simp [h]
    · simp only [h, ↓reduceIte]
      simp only [not_or] at h
      apply List.mem_append_left
      simp [List.mem_filter, h.1, h.2]
      simpa using hv
  -- F.edges / F.cells membership
  have hFe : ∀ q ∈ F.edges, ∃ q0 ∈ m.edges, q0.1 ≠ common ∧ q = (q0.1, tauE a b new q0.2) := by
    intro q hq
    rw [S.edges] at hq
    obtain ⟨q0, hq0, rfl⟩ := List.mem_map.mp hq
    obtain ⟨h1, h2⟩ := List.mem_filter.mp hq0
    exact ⟨q0, h1, by simpa using h2, rfl⟩
  have hFe' : ∀ q0 ∈ m.edges, q0.1 ≠ common → (q0.1, tauE a b new q0.2) ∈ F.edges := by
    intro q0 hq0 hne'
    rw [S.edges]
    exact List.mem_map.mpr ⟨q0, List.mem_filter.mpr ⟨hq0, by simpa using hne'⟩, rfl⟩
  have hFc : ∀ q ∈ F.cells, ∃ q0 ∈ m.cells, q = (q0.1, { q0.2 with verts := nvs a b new q0.2.verts }) := by
    intro q hq
    rw [S.cells] at hq
    obtain ⟨q0, hq0, rfl⟩ := List.mem_map.mp hq
    exact ⟨q0, hq0, rfl⟩
  have hFeGet : ∀ e ed, alGet? e m.edges = some ed → e ≠ common →
      alGet? e F.edges = some (tauE a b new ed) := by
    intro e ed hed hne'
    rw [S.edges]
    have := alGet?_map_snd e (m.edges.filter fun p => p.1 != common) (fun _ v => tauE a b new v)
    rw [this, alGet?_filter_ne]
    simp [hne', hed]
  have hFcGet : ∀ c cl, alGet? c m.cells = some cl →
      alGet? c F.cells = some { cl with verts := nvs a b new cl.verts } := by
    intro c cl hcl
    rw [S.cells]
    have := alGet?_map_snd c m.cells (fun _ v => { v with verts := nvs a b new v.verts })
    rw [this, hcl]
    rfl
  have hcommon_ends : ∀ q0 ∈ m.edges, q0.1 = common →
      (q0.2.v1 = a ∧ q0.2.v2 = b) ∨ (q0.2.v1 = b ∧ q0.2.v2 = a) := by
    intro q0 hq0 h
    have := alGet?_of_mem k5 (show (q0.1, q0.2) ∈ m.edges from hq0)
    rw [h, hce] at this
    rw [← Option.some.inj this]
    exact hcends
  refine ⟨⟨?_, ?_, ?_, ?_, ?_, ?_⟩, ?_, ?_, ⟨?_, ?_⟩, ?_, ?_⟩
  · -- vertices stored under own id
    intro p hp
    by_cases h : p.1 = new
    · rw [(S.vnew p hp h).1, h]
    · exact k1 p (S.vold p hp h).1
  · intro q hq
    obtain ⟨q0, hq0, _, rfl⟩ := hFe q hq
    exact k2 q0 hq0
  · intro q hq
    obtain ⟨q0, hq0, rfl⟩ := hFc q hq
    exact k3 q0 hq0
  · rw [S.vkeys, List.nodup_append]
    refine ⟨k4.sublist List.filter_sublist, by simp, ?_⟩
    intro x hx y hy
    simp only [List.mem_singleton] at hy
    subst hy
    intro hxy; subst hxy
    exact hnew (List.mem_filter.mp hx).1
  · rw [S.edges, List.map_map]
    exact k5.sublist (List.filter_sublist.map _)
  · rw [S.cells, List.map_map]
    exact k6
  · -- OwnEdgesP
    intro p hp
    by_cases h : p.1 = new
    · obtain ⟨i1, i2, _, i4, _⟩ := S.vnew p hp h
      refine ⟨?_, ?_, i2⟩
      · intro e he
        obtain ⟨hec, ed, hed, hends⟩ := (i4 e).mp he
        refine ⟨_, hFeGet e ed (alGet?_of_mem k5 hed) hec, ?_⟩
        rw [i1]
        simp only [tauE, tau_eq_new]
        tauto
      · intro q hq hends
        obtain ⟨q0, hq0, hq0c, rfl⟩ := hFe q hq
        rw [i1] at hends
        simp only [tauE, tau_eq_new] at hends
        have := hne q0 hq0
        apply (i4 _).mpr
        refine ⟨?_, q0.2, ?_, by tauto⟩
        · show q0.2.id ≠ common
          rw [← k2 q0 hq0]; exact hq0c
        · show (q0.2.id, q0.2) ∈ m.edges
          rw [← k2 q0 hq0]; exact hq0
    · obtain ⟨hpm, hpa, hpb⟩ := S.vold p hp h
      obtain ⟨h1, h2, h3⟩ := hE p hpm
      have hid := k1 p hpm
      have hidn : p.2.id ≠ new := hid ▸ h
      refine ⟨?_, ?_, h3⟩
      · intro e he
        obtain ⟨ed, hed, hends⟩ := h1 e he
        have hec : e ≠ common := by
          intro hh
          have := hcommon_ends (e, ed) (alGet?_some_mem hed) hh
          simp only at this
          rw [← hid] at hends
          rcases this with ⟨x1, x2⟩ | ⟨x1, x2⟩ <;> rcases hends with y | y
          · exact hpa (y ▸ x1)
          · exact hpb (y ▸ x2)
          · exact hpb (y ▸ x1)
          · exact hpa (y ▸ x2)
        refine ⟨_, hFeGet e ed hed hec, ?_⟩
        simp only [tauE, tau_eq_other a b new _ _ hidn]
        rw [← hid] at hends ⊢
        rcases hends with y | y
        · exact Or.inl ⟨y, y ▸ hpa, y ▸ hpb⟩
        · exact Or.inr ⟨y, y ▸ hpa, y ▸ hpb⟩
      · intro q hq hends
        obtain ⟨q0, hq0, hq0c, rfl⟩ := hFe q hq
        simp only [tauE, tau_eq_other a b new _ _ hidn] at hends
        exact h2 q0 hq0 (by tauto)
  · -- OwnCellsP
    intro p hp
    by_cases h : p.1 = new
    · obtain ⟨i1, _, i3, _, i5⟩ := S.vnew p hp h
      refine ⟨?_, ?_, i3⟩
      · intro c hc
        obtain ⟨cl, hcl, hin⟩ := (i5 c).mp hc
        refine ⟨_, hFcGet c cl (alGet?_of_mem k6 hcl), ?_⟩
        rw [i1]
        simp only
        rw [nvs_mem a b new new cl.verts (hN _ hcl) (hnc _ hcl) hnb]
        exact Or.inr ⟨rfl, hin⟩
      · intro q hq hin
        obtain ⟨q0, hq0, rfl⟩ := hFc q hq
        rw [i1] at hin
        simp only at hin
        rw [nvs_mem a b new new q0.2.verts (hN _ hq0) (hnc _ hq0) hnb] at hin
        apply (i5 _).mpr
        refine ⟨q0.2, ?_, ?_⟩
        · show (q0.2.id, q0.2) ∈ m.cells
          rw [← k3 q0 hq0]; exact hq0
        · rcases hin with hin | hin
          · exact absurd hin.2.2 (hnc _ hq0)
          · exact hin.2
    · obtain ⟨hpm, hpa, hpb⟩ := S.vold p hp h
      obtain ⟨h1, h2, h3⟩ := hOC p hpm
      have hid := k1 p hpm
      have hidn : p.2.id ≠ new := hid ▸ h
      refine ⟨?_, ?_, h3⟩
      · intro c hc
        obtain ⟨cl, hcl, hin⟩ := h1 c hc
        have hmem := alGet?_some_mem hcl
        refine ⟨_, hFcGet c cl hcl, ?_⟩
        simp only
        rw [nvs_mem a b new _ cl.verts (hN _ hmem) (hnc _ hmem) hnb]
        exact Or.inl ⟨hid ▸ hpa, hid ▸ hpb, hin⟩
      · intro q hq hin
        obtain ⟨q0, hq0, rfl⟩ := hFc q hq
        simp only at hin
        rw [nvs_mem a b new _ q0.2.verts (hN _ hq0) (hnc _ hq0) hnb] at hin
        rcases hin with hin | hin
        · exact h2 q0 hq0 hin.2.2
        · exact absurd hin.1 hidn
  · -- RefsP edges
    intro q hq
    obtain ⟨q0, hq0, _, rfl⟩ := hFe q hq
    obtain ⟨r0, r1, r2⟩ := hR.1 q0 hq0
    exact ⟨r0, hFkey _ r1, hFkey _ r2⟩
  · -- RefsP cells
    intro q hq
    obtain ⟨q0, hq0, rfl⟩ := hFc q hq
    obtain ⟨r0, r1⟩ := hR.2 q0 hq0
    refine ⟨r0, ?_⟩
    intro v hv
    simp only at hv
    rw [nvs_mem a b new _ q0.2.verts (hN _ hq0) (hnc _ hq0) hnb] at hv
    rcases hv with hv | hv
    · have := hFkey v (r1 v hv.2.2)
      rwa [tau_of_ne a b new v hv.1 hv.2.1] at this
    · rw [S.vkeys, hv.1]; simp
  · -- CellsNodupP
    intro q hq
    obtain ⟨q0, hq0, rfl⟩ := hFc q hq
    exact nvs_nodup a b new _ (hN _ hq0) (hnc _ hq0)
  · -- CyclesJoinedP
    intro q hq xy hxy
    obtain ⟨q0, hq0, rfl⟩ := hFc q hq
    simp only at hxy
    obtain ⟨xy0, hxy0, t1, t2, n1, n2⟩ := cyclicPairs_nvs a b new q0.2.verts (hN _ hq0) hab (hnc _ hq0)
      (hadj q0 hq0) xy hxy
    obtain ⟨e, he, hh⟩ := hJ q0 hq0 xy0 hxy0
    have hec : e.1 ≠ common := by
      intro hcm
      have := hcommon_ends e he hcm
      rcases this with ⟨x1, x2⟩ | ⟨x1, x2⟩ <;> rcases hh with ⟨y1, y2⟩ | ⟨y1, y2⟩
      · exact n1 ⟨y1 ▸ x1, y2 ▸ x2⟩
      · exact n2 ⟨y2 ▸ x2, y1 ▸ x1⟩
      · exact n2 ⟨y1 ▸ x1, y2 ▸ x2⟩
      · exact n1 ⟨y2 ▸ x2, y1 ▸ x1⟩
    refine ⟨_, hFe' e he hec, ?_⟩
    simp only [tauE]
    rw [← t1, ← t2]
    rcases hh with ⟨y1, y2⟩ | ⟨y1, y2⟩
    · exact Or.inl ⟨by rw [y1], by rw [y2]⟩
    · exact Or.inr ⟨by rw [y1], by rw [y2]⟩

theorem joinFinal_consP (m : Mesh) (a b : Id) (hC : ConsP m) (hab : a ≠ b)
    (ha : (m.vertex? a).isSome = true) (hb : (m.vertex? b).isSome = true)
    (hj : JoinedP m a b) (hla : ¬ JoinedP m a a) (hlb : ¬ JoinedP m b b)
    (hadj : ∀ q ∈ m.cells, a ∈ q.2.verts → b ∈ q.2.verts →
      3 ≤ q.2.verts.length ∧ ((a, b) ∈ cyclicPairs q.2.verts ∨ (b, a) ∈ cyclicPairs q.2.verts)) :
    ∃ v0 v1 common, m.vertex? a = some v0 ∧ m.vertex? b = some v1 ∧
      (listInter v0.ownEdges v1.ownEdges).head? = some common ∧
      ConsP (joinFinal m a b m.unusedId common v0 v1) ∧
      (joinFinal m a b m.unusedId common v0 v1).vertices.map (·.1) =
        (m.vertices.map (·.1)).filter (fun k => k != a && k != b) ++ [m.unusedId] ∧
      (joinFinal m a b m.unusedId common v0 v1).cells.map (·.1) = m.cells.map (·.1) ∧
      (∀ q ∈ (joinFinal m a b m.unusedId common v0 v1).edges, ∃ q0 ∈ m.edges, q.1 = q0.1 ∧
        q.2.v1 = tau a b m.unusedId q0.2.v1 ∧ q.2.v2 = tau a b m.unusedId q0.2.v2) := by
  obtain ⟨v0, h0⟩ := Option.isSome_iff_exists.mp ha
  obtain ⟨v1, h1⟩ := Option.isSome_iff_exists.mp hb
  have h0' : alGet? a m.vertices = some v0 := h0
  have h1' : alGet? b m.vertices = some v1 := h1
  have ha_mem := alGet?_some_mem h0'
  have hb_mem := alGet?_some_mem h1'
  have hv0id : v0.id = a := (hC.1.1 _ ha_mem).symm
  have hv1id : v1.id = b := (hC.1.1 _ hb_mem).symm
  -- the common edge
  obtain ⟨q, hq, hqends⟩ := hj
  have hq0 : q.2.id ∈ v0.ownEdges := (hC.2.1 _ ha_mem).2.1 q hq (by rw [hv0id]; tauto)
  have hq1 : q.2.id ∈ v1.ownEdges := (hC.2.1 _ hb_mem).2.1 q hq (by rw [hv1id]; tauto)
  have hinter : q.2.id ∈ listInter v0.ownEdges v1.ownEdges := by
    simp [listInter, hq0, hq1]
  obtain ⟨common, hcommon⟩ : ∃ c, (listInter v0.ownEdges v1.ownEdges).head? = some c := by
    cases hl : listInter v0.ownEdges v1.ownEdges with
    | nil => rw [hl] at hinter; simp at hinter
    | cons c t => exact ⟨c, rfl⟩
  have hcmem : common ∈ listInter v0.ownEdges v1.ownEdges := List.mem_of_mem_head? hcommon
  have hc0 : common ∈ v0.ownEdges := by
    simp only [listInter, List.mem_filter] at hcmem; exact hcmem.1
  have hc1 : common ∈ v1.ownEdges := by
    simp only [listInter, List.mem_filter, List.contains_eq_mem, decide_eq_true_eq] at hcmem; exact hcmem.2
  have H : JoinHyp m a b m.unusedId common v0 v1 :=
    { cons := hC, h0 := h0', h1 := h1', hab := hab, hnew := unusedId_fresh m, hc0 := hc0, hc1 := hc1,
      hloop := fun q hq => ⟨fun h => hla ⟨q, hq, Or.inl h⟩, fun h => hlb ⟨q, hq, Or.inl h⟩⟩ }
  have S := H.joinFinal_spec
  refine ⟨v0, v1, common, h0, h1, hcommon, ?_, S.vkeys, ?_, ?_⟩
  · exact S.consP hC hab (unusedId_fresh m) (List.mem_map.mpr ⟨_, ha_mem, rfl⟩)
      (List.mem_map.mpr ⟨_, hb_mem, rfl⟩) H.common_edge hadj
  · rw [S.cells, List.map_map]; rfl
  · intro q hq
    rw [S.edges] at hq
    obtain ⟨q0, hq0, rfl⟩ := List.mem_map.mp hq
    exact ⟨q0, (List.mem_filter.mp hq0).1, rfl, rfl, rfl⟩

/-- the lookup `vertices[k]`, falling back to `vertices[mapper[k]]` -/
def resolveOpt (m : Mesh) (mapper : List (Id × Id)) (k : Id) : Option Id :=
  if (m.vertex? k).isSome then some k
  else match alGet? k mapper with
    | some k' => if (m.vertex? k').isSome then some k' else none
    | none => none

theorem join_eq_gen (m : Mesh) (p : Id × Id) (mapper : List (Id × Id)) (a b : Id) (v0 v1 : Vertex)
    (hra : resolveOpt m mapper p.1 = some a) (hrb : resolveOpt m mapper p.2 = some b)
    (h0 : m.vertex? a = some v0) (h1 : m.vertex? b = some v1) (common : Id)
    (hc : (listInter v0.ownEdges v1.ownEdges).head? = some common) :
    m.joinTwoVertices p mapper =
      .ok (joinFinal m a b m.unusedId common v0 v1,
        (mapper.filter fun q => q.1 != p.1 && q.1 != p.2) ++ [(p.1, m.unusedId), (p.2, m.unusedId)]) := by
  obtain ⟨p1, p2⟩ := p
  have key : ∀ k x vx, resolveOpt m mapper k = some x → m.vertex? x = some vx →
      (m.vertex? k = some vx ∧ x = k) ∨ (m.vertex? k = none ∧ alGet? k mapper = some x) := by
    intro k x vx hr hx
    unfold resolveOpt at hr
    cases hk : m.vertex? k with
    | some w =>
      simp only [hk, Option.isSome_some, ↓reduceIte, Option.some.injEq] at hr
      subst hr
      rw [hk] at hx
      exact Or.inl ⟨hx, rfl⟩
    | none =>
      simp only [hk, Option.isSome_none, Bool.false_eq_true, ↓reduceIte] at hr
      cases hm : alGet? k mapper with
      | none => simp [hm] at hr
      | some k' =>
        simp only [hm] at hr
        split at hr
        · exact Or.inr ⟨rfl, by rw [Option.some.inj hr]⟩
        · exact absurd hr (by simp)
  simp only at hra hrb
  rcases key p1 a v0 hra h0 with ⟨e1, rfl⟩ | ⟨e1, e2⟩ <;> rcases key p2 b v1 hrb h1 with ⟨f1, rfl⟩ | ⟨f1, f2⟩
  · simp only [joinTwoVertices, e1, f1, hc, Option.isSome_some, ↓reduceIte]
    rfl
  · simp only [joinTwoVertices, e1, f1, f2, h1, hc, Option.isSome_some, Option.isSome_none, Bool.false_eq_true, ↓reduceIte]
    rfl
  · simp only [joinTwoVertices, e1, e2, h0, f1, hc, Option.isSome_some, Option.isSome_none, Bool.false_eq_true, ↓reduceIte]
    rfl
  · simp only [joinTwoVertices, e1, e2, h0, f1, f2, h1, hc, Option.isSome_some, Option.isSome_none, Bool.false_eq_true, ↓reduceIte]
    rfl

end Mesh
end Forsys
