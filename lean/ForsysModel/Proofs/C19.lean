/-
  Helper lemmas for property C19 (tessellation lattices).  Model: ForsysModel/Model/Tessellation.lean.
  Contents: rounding / line_eq, the cut-off filter, interning invariants (vertices, mesh edges) and their
  preservation along create_lattice_elements, bookkeeping of the cell dictionary, area of the doubled walk.
-/
import ForsysModel.Model.Tessellation
import ForsysModel.Props.C20
import Mathlib.Tactic.Ring
import Mathlib.Tactic.Linarith
import Mathlib.Tactic.FieldSimp
import Mathlib.Algebra.Order.Field.Rat
import Mathlib.Data.List.Basic
import Mathlib.Data.List.Count
import Mathlib.Data.List.Nodup

namespace Forsys
namespace Tess

/-! ### rounding -/

theorem roundHalfEven_intCast (k : Int) : roundHalfEven (k : Rat) = k := by
  unfold roundHalfEven
  simp only [Rat.floor_intCast, sub_self]
  norm_num

theorem round3_idem' (q : Rat) : round3 (round3 q) = round3 q := by
  unfold round3
  have : ((roundHalfEven (q * 1000) : Rat) / 1000 * 1000) = ((roundHalfEven (q * 1000) : Int) : Rat) := by
    field_simp
  rw [this, roundHalfEven_intCast]

/-! ### line_eq -/

theorem lineAt_left' (q0 q1 : Pt) : lineAt q0 q1 q0.x = q0.y := by
  unfold lineAt; simp

theorem lineAt_right' (q0 q1 : Pt) (h : q1.x ≠ q0.x) : lineAt q0 q1 q1.x = q1.y := by
  unfold lineAt
  have : q1.x - q0.x ≠ 0 := sub_ne_zero.mpr h
  field_simp
  ring

theorem linspace_two (a b : Rat) : linspace a b 2 = [a, b] := by
  unfold linspace
  simp [List.range_succ]

theorem ridgePoints_eq' (p0 p1 : Pt) : ridgePoints p0 p1 = [roundPt p0, roundPt p1] := by
  unfold ridgePoints lineEq
  simp only [linspace_two, List.map_cons, List.map_nil, round3_idem', List.length_cons, List.length_nil]
  by_cases h : (roundPt p1).x = (roundPt p0).x
  · rw [if_pos h]
    simp [linspace_two, roundPt, round3_idem']
  · rw [if_neg h]
    have e0 : lineAt (roundPt p0) (roundPt p1) (round3 p0.x) = round3 p0.y := lineAt_left' (roundPt p0) (roundPt p1)
    have e1 : lineAt (roundPt p0) (roundPt p1) (round3 p1.x) = round3 p1.y := lineAt_right' (roundPt p0) (roundPt p1) h
    rw [e0, e1]
    simp [roundPt, round3_idem']

/-! ### cut-off -/
theorem count_foldl_erase {α : Type} [BEq α] [LawfulBEq α] (ds l : List α) (c : α) :
    (ds.foldl List.erase l).count c = l.count c - ds.count c := by
  induction ds generalizing l with
  | nil => simp
  | cons d ds ih =>
    rw [List.foldl_cons, ih, List.count_erase, List.count_cons]
    by_cases h : d = c
    · subst h; simp; omega
    · have h2 : (d == c) = false := by simp [h]
      simp [h2]

theorem mem_removeInfiniteRegions' (verts : List Pt) (md2 : Option Rat) (regions : List (List Int)) (c : List Int) :
    c ∈ removeInfiniteRegions verts md2 regions ↔ c ∈ regions ∧ tooFar verts md2 c = false := by
  unfold removeInfiniteRegions
  rw [← List.count_pos_iff, count_foldl_erase, ← List.count_pos_iff]
  by_cases h : tooFar verts md2 c = true
  · have : (regions.filter (tooFar verts md2)).count c = regions.count c := by
      rw [List.count_filter]; simp [h]
    simp [h, this]
  · have h' : tooFar verts md2 c = false := by simpa using h
    have : (regions.filter (tooFar verts md2)).count c = 0 := by
      rw [List.count_eq_zero]; intro hm; exact h (List.mem_filter.mp hm).2
    simp [h', this]


/-- keys of an interning dictionary are unique and positive -/
def DInv {β : Type} (d : List (Id × β)) : Prop := (d.map (·.1)).Nodup ∧ ∀ p ∈ d, 1 ≤ p.1
/-- no two vertex ids carry the same (rounded) coordinates -/
def VInj (vs : List (Id × Pt)) : Prop := (vs.map (·.2)).Nodup
/-- no two mesh-edge ids join the same pair of vertices, in either direction -/
def EInj (es : List (Id × (Id × Id))) : Prop :=
  ∀ p ∈ es, ∀ q ∈ es, (p.2 = q.2 ∨ p.2 = (q.2.2, q.2.1)) → p = q

theorem foldl_preserves {σ α : Type} (P : σ → Prop) (f : σ → α → σ) (h : ∀ s a, P s → P (f s a))
    (l : List α) (s : σ) (hs : P s) : P (l.foldl f s) := by
  induction l generalizing s with
  | nil => exact hs
  | cons a l ih => exact ih _ (h s a hs)

theorem foldl_max_ge {β : Type} (d : List (Id × β)) (m : Id) :
    m ≤ d.foldl (fun m p => max m p.1) m ∧ ∀ p ∈ d, p.1 ≤ d.foldl (fun m p => max m p.1) m := by
  induction d generalizing m with
  | nil => simp
  | cons a d ih =>
    simp only [List.foldl_cons, List.mem_cons, forall_eq_or_imp]
    have h1 := (ih (max m a.1)).1
    refine ⟨le_trans (le_max_left _ _) h1, le_trans (le_max_right _ _) h1, (ih _).2⟩

theorem nextKey_fresh {β : Type} (d : List (Id × β)) : 1 ≤ nextKey d ∧ ∀ p ∈ d, p.1 < nextKey d := by
  unfold nextKey maxKey
  cases d with
  | nil => simp
  | cons a d =>
    have h := foldl_max_ge (a :: d) (0 : Id)
    simp only [List.isEmpty_cons, Bool.false_eq_true, if_false]
    refine ⟨by linarith [h.1], fun p hp => by linarith [h.2 p hp]⟩

theorem keyOf?_some {β : Type} [DecidableEq β] (v : β) (d : List (Id × β)) (k : Id) (h : keyOf? v d = some k) :
    (k, v) ∈ d := by
  induction d with
  | nil => simp [keyOf?] at h
  | cons a d ih =>
    obtain ⟨k', w⟩ := a
    unfold keyOf? at h
    by_cases hv : v = w
    · simp [hv] at h; subst hv; subst h; simp
    · simp [hv] at h; exact List.mem_cons_of_mem _ (ih h)

theorem keyOf?_none {β : Type} [DecidableEq β] (v : β) (d : List (Id × β)) (h : keyOf? v d = none) :
    ∀ p ∈ d, p.2 ≠ v := by
  induction d with
  | nil => simp
  | cons a d ih =>
    obtain ⟨k', w⟩ := a
    unfold keyOf? at h
    by_cases hv : v = w
    · simp [hv] at h
    · simp [hv] at h
      intro p hp
      rcases List.mem_cons.mp hp with rfl | hp
      · exact fun e => hv e.symm
      · exact ih h p hp

theorem DInv_append {β : Type} (d : List (Id × β)) (k : Id) (v : β) (h : DInv d) (h1 : 1 ≤ k)
    (hf : ∀ p ∈ d, p.1 < k) : DInv (d ++ [(k, v)]) := by
  refine ⟨?_, ?_⟩
  · rw [List.map_append, List.nodup_append]
    refine ⟨h.1, by simp, ?_⟩
    intro a ha b hb
    simp at hb
    obtain ⟨p, hp, rfl⟩ := List.mem_map.mp ha
    have := hf p hp
    rw [hb]
    exact ne_of_lt this
  · intro p hp
    rcases List.mem_append.mp hp with hp | hp
    · exact h.2 p hp
    · simp at hp; subst hp; exact h1

/-! ### get_vertex_number -/
theorem getVertexNumber_prefix (v : Pt) (vs : List (Id × Pt)) : ∃ t, (getVertexNumber v vs).2 = vs ++ t := by
  unfold getVertexNumber
  split
  · exact ⟨[], by simp⟩
  · exact ⟨_, rfl⟩

theorem getVertexNumber_mem (v : Pt) (vs : List (Id × Pt)) :
    ((getVertexNumber v vs).1, v) ∈ (getVertexNumber v vs).2 := by
  unfold getVertexNumber
  split
  · next k hk => exact keyOf?_some v vs k hk
  · simp

theorem getVertexNumber_inv (v : Pt) (vs : List (Id × Pt)) (h : DInv vs) (hi : VInj vs) :
    DInv (getVertexNumber v vs).2 ∧ VInj (getVertexNumber v vs).2 := by
  unfold getVertexNumber
  split
  · exact ⟨h, hi⟩
  · next hk =>
    have hf := nextKey_fresh vs
    refine ⟨DInv_append vs _ v h hf.1 hf.2, ?_⟩
    unfold VInj
    rw [List.map_append, List.nodup_append]
    refine ⟨hi, by simp, ?_⟩
    intro a ha b hb
    simp at hb
    obtain ⟨p, hp, rfl⟩ := List.mem_map.mp ha
    rw [hb]
    exact keyOf?_none v vs hk p hp

/-- a dictionary entry determines the id: with unique values, the id found for `v` is the id of any entry `(k, v)` -/
theorem getVertexNumber_of_mem (v : Pt) (vs : List (Id × Pt)) (hi : VInj vs) (k : Id) (hm : (k, v) ∈ vs) :
    getVertexNumber v vs = (k, vs) := by
  unfold getVertexNumber
  split
  · next k' hk =>
    have hm' := keyOf?_some v vs k' hk
    have : (k', v) = (k, v) := by
      have hinj := List.inj_on_of_nodup_map hi
      exact hinj hm' hm rfl
    simp at this
    rw [this]
  · next hk => exact absurd rfl (keyOf?_none v vs hk _ hm)



/-! ### get_enum -/
theorem getEnum_prefix (e : Id × Id) (es : List (Id × (Id × Id))) : ∃ t, (getEnum e es).2 = es ++ t := by
  unfold getEnum
  split
  · exact ⟨[], by simp⟩
  · split
    · exact ⟨[], by simp⟩
    · exact ⟨_, rfl⟩

/-- the signed id names a stored edge: positive → `[a, b]` itself, negative → the reversed `[b, a]` -/
theorem getEnum_mem (e : Id × Id) (es : List (Id × (Id × Id))) (h : DInv es) :
    (0 < (getEnum e es).1 ∧ ((getEnum e es).1, e) ∈ (getEnum e es).2) ∨
    ((getEnum e es).1 < 0 ∧ (-(getEnum e es).1, (e.2, e.1)) ∈ (getEnum e es).2) := by
  unfold getEnum
  split
  · next k hk =>
    have hm := keyOf?_some e es k hk
    exact Or.inl ⟨by have := h.2 _ hm; simpa using (by linarith : 0 < k), hm⟩
  · split
    · next k hk =>
      have hm := keyOf?_some (e.2, e.1) es k hk
      have := h.2 _ hm
      exact Or.inr ⟨by simp; linarith, by simpa using hm⟩
    · have hf := nextKey_fresh es
      exact Or.inl ⟨by simp; linarith [hf.1], by simp⟩

theorem getEnum_inv (e : Id × Id) (es : List (Id × (Id × Id))) (h : DInv es) (hi : EInj es) :
    DInv (getEnum e es).2 ∧ EInj (getEnum e es).2 := by
  unfold getEnum
  split
  · exact ⟨h, hi⟩
  · next hk1 =>
    split
    · exact ⟨h, hi⟩
    · next hk2 =>
      have hf := nextKey_fresh es
      refine ⟨DInv_append es _ e h hf.1 hf.2, ?_⟩
      have n1 := keyOf?_none e es hk1
      have n2 := keyOf?_none (e.2, e.1) es hk2
      intro p hp q hq hpq
      rcases List.mem_append.mp hp with hp | hp <;> rcases List.mem_append.mp hq with hq | hq
      · exact hi p hp q hq hpq
      · simp at hq; subst hq
        rcases hpq with hpq | hpq
        · exact absurd hpq (n1 p hp)
        · exact absurd hpq (n2 p hp)
      · simp at hp; subst hp
        rcases hpq with hpq | hpq
        · exact absurd hpq.symm (n1 q hq)
        · simp only at hpq
          have : q.2 = (e.2, e.1) := by rw [hpq]
          exact absurd this (n2 q hq)
      · simp at hp hq; rw [hp, hq]

/-- with the invariants, any stored edge joining `a`,`b` in either direction fixes `|get_enum|` -/
theorem getEnum_of_mem (e : Id × Id) (es : List (Id × (Id × Id))) (_h : DInv es) (hi : EInj es) (k : Id)
    (hm : (k, e) ∈ es ∨ (k, (e.2, e.1)) ∈ es) :
    (getEnum e es).2 = es ∧ ((getEnum e es).1 = k ∨ (getEnum e es).1 = -k) := by
  unfold getEnum
  split
  · next k' hk =>
    have hm' := keyOf?_some e es k' hk
    refine ⟨rfl, Or.inl ?_⟩
    rcases hm with hm | hm
    · have := hi _ hm' _ hm (Or.inl rfl); exact (Prod.mk.inj this).1
    · have := hi _ hm' _ hm (Or.inr (by simp)); exact (Prod.mk.inj this).1
  · next hk1 =>
    split
    · next k' hk =>
      have hm' := keyOf?_some (e.2, e.1) es k' hk
      refine ⟨rfl, Or.inr ?_⟩
      rcases hm with hm | hm
      · have := hi _ hm' _ hm (Or.inr (by simp)); rw [(Prod.mk.inj this).1]
      · have := hi _ hm' _ hm (Or.inl rfl); rw [(Prod.mk.inj this).1]
    · next hk2 =>
      rcases hm with hm | hm
      · exact absurd rfl (keyOf?_none e es hk1 _ hm)
      · exact absurd rfl (keyOf?_none (e.2, e.1) es hk2 _ hm)

/-! ### the invariants along `create_lattice_elements` -/
def WInv (w : Walk) : Prop := DInv w.vs ∧ VInj w.vs ∧ DInv w.es ∧ EInj w.es

theorem stepEdge_inv (w : Walk) (v01 : Pt × Pt) (h : WInv w) : WInv (stepEdge w v01) := by
  obtain ⟨h1, h2, h3, h4⟩ := h
  have a := getVertexNumber_inv v01.1 w.vs h1 h2
  have b := getVertexNumber_inv v01.2 _ a.1 a.2
  have c := getEnum_inv ((getVertexNumber v01.1 w.vs).1, (getVertexNumber v01.2 (getVertexNumber v01.1 w.vs).2).1) w.es h3 h4
  exact ⟨b.1, b.2, c.1, c.2⟩

theorem stepRidge_inv (verts : List Pt) (w : Walk) (ij : Int × Int) (h : WInv w) : WInv (stepRidge verts w ij) :=
  foldl_preserves WInv stepEdge stepEdge_inv _ w h

def SInv (st : EState) : Prop :=
  DInv st.el.vertices ∧ VInj st.el.vertices ∧ DInv st.el.edges ∧ EInj st.el.edges

theorem processRegion_inv (verts : List Pt) (st : EState) (c : List Int) (h : SInv st) :
    SInv (processRegion verts st c) := by
  have := foldl_preserves WInv (stepRidge verts) (stepRidge_inv verts) (openPairs (closeRegion c))
    { vs := st.el.vertices, es := st.el.edges, cellE := [], cellV := [] } h
  exact this

theorem stepRegion_inv (verts : List Pt) (st : EState) (c : List Int) (h : SInv st) :
    SInv (stepRegion verts st c) := by
  unfold stepRegion
  split
  · exact processRegion_inv verts st c h
  · exact h

theorem initState_inv : SInv initState := by
  refine ⟨⟨by simp [initState], by simp [initState]⟩, by simp [VInj, initState], ⟨by simp [initState], by simp [initState]⟩, ?_⟩
  intro p hp; simp [initState] at hp

theorem elementsState_inv (verts : List Pt) (regions : List (List Int)) (md2 : Option Rat) :
    SInv (elementsState verts regions md2) :=
  foldl_preserves SInv (stepRegion verts) (stepRegion_inv verts) _ _ initState_inv

theorem dictSet_keys {β : Type} (k : Id) (v : β) (d : List (Id × β)) :
    (dictSet k v d).map (·.1) = if k ∈ d.map (·.1) then d.map (·.1) else d.map (·.1) ++ [k] := by
  induction d with
  | nil => simp [dictSet]
  | cons a d ih =>
    obtain ⟨k', w⟩ := a
    unfold dictSet
    by_cases h : k = k'
    · simp [h]
    · simp only [h, if_false, List.map_cons, ih, List.mem_cons, false_or]
      split <;> simp

/-- bookkeeping invariant of the region loop: `cnum = processed + 1`, every key is `±` an earlier `cnum`
    (or 0), and while no key is 0 there is one entry per processed region -/
def CInv (st : EState) (n : Nat) : Prop :=
  st.cnum = (n : Int) + 1 ∧ (∀ k ∈ st.el.cells.map (·.1), -st.cnum < k ∧ k < st.cnum) ∧
  ((0 : Id) ∉ st.el.cells.map (·.1) → (st.el.cells.map (·.1)).length = n)

theorem processRegion_cinv (verts : List Pt) (st : EState) (c : List Int) (n : Nat) (h : CInv st n) :
    CInv (processRegion verts st c) (n + 1) := by
  obtain ⟨h1, h2, h3⟩ := h
  unfold processRegion
  simp only
  generalize (List.foldl (stepRidge verts) _ (openPairs (closeRegion c))) = w
  unfold CInv
  simp only [dictSet_keys]
  have hs := ratSign_cases (area (w.cellV.map fun i => (alGet? i w.vs).getD default))
  have hs' : cellAreaSign w.cellV w.vs = 1 ∨ cellAreaSign w.cellV w.vs = -1 ∨ cellAreaSign w.cellV w.vs = 0 := hs
  generalize cellAreaSign w.cellV w.vs = s at hs'
  have hc : 1 ≤ st.cnum := by omega
  refine ⟨by push_cast; omega, ?_, ?_⟩
  · intro k hk
    split at hk
    · have := h2 k hk; omega
    · rcases List.mem_append.mp hk with hk | hk
      · have := h2 k hk; omega
      · simp at hk; rcases hs' with rfl | rfl | rfl <;> omega
  · rcases hs' with rfl | rfl | rfl
    · have hn : ¬ (-1 * st.cnum * 1 ∈ st.el.cells.map (·.1)) := fun hm => by have := h2 _ hm; omega
      rw [if_neg hn]
      intro h0
      have : (0 : Id) ∉ st.el.cells.map (·.1) := fun hm => h0 (List.mem_append_left _ hm)
      simp [h3 this]
    · have hn : ¬ (-1 * st.cnum * -1 ∈ st.el.cells.map (·.1)) := fun hm => by have := h2 _ hm; omega
      rw [if_neg hn]
      intro h0
      have : (0 : Id) ∉ st.el.cells.map (·.1) := fun hm => h0 (List.mem_append_left _ hm)
      simp [h3 this]
    · intro h0
      exfalso
      apply h0
      split
      · next hm => simpa using hm
      · simp

theorem foldl_stepRegion_cinv (verts : List Pt) (L : List (List Int)) (st : EState) (n : Nat) (h : CInv st n) :
    CInv (L.foldl (stepRegion verts) st) (n + (L.filter bounded).length) := by
  induction L generalizing st n with
  | nil => simpa using h
  | cons c L ih =>
    rw [List.foldl_cons]
    have e : stepRegion verts st c = if bounded c then processRegion verts st c else st := rfl
    rw [e]
    by_cases hb : bounded c = true
    · rw [if_pos hb, List.filter_cons_of_pos hb]
      have := ih _ _ (processRegion_cinv verts st c n h)
      simpa [Nat.add_assoc, Nat.add_comm 1] using this
    · rw [if_neg hb, List.filter_cons_of_neg hb]
      exact ih _ _ h

theorem initState_cinv : CInv initState 0 := by
  refine ⟨by simp [initState], by simp [initState], by simp [initState]⟩

/-- both ends of every step of a walk: `[q0,q1, q1,q2, …]` (the shape of `temp_vertex_for_cell`) -/
def dupOpen {α : Type} : List α → List α
  | a :: b :: l => a :: b :: dupOpen (b :: l)
  | _ => []

theorem crossSumOpen_cons2 (p q : Pt) (rest : List Pt) :
    crossSumOpen (p :: q :: rest) = (p.x * q.y - q.x * p.y) + crossSumOpen (q :: rest) := rfl

theorem crossSumOpen_dupOpen (q : List Pt) : crossSumOpen (dupOpen q) = crossSumOpen q := by
  induction q with
  | nil => rfl
  | cons a l ih =>
    cases l with
    | nil => rfl
    | cons b l =>
      cases l with
      | nil => simp [dupOpen, crossSumOpen]
      | cons c l =>
        have e : dupOpen (a :: b :: c :: l) = a :: b :: b :: c :: dupOpen (c :: l) := rfl
        have e2 : dupOpen (b :: c :: l) = b :: c :: dupOpen (c :: l) := rfl
        rw [e2] at ih
        rw [e, crossSumOpen_cons2, crossSumOpen_cons2, ih, crossSumOpen_cons2 a b]
        ring

theorem dupOpen_append2 {α : Type} (l : List α) (y z : α) :
    dupOpen (l ++ [y, z]) = dupOpen (l ++ [y]) ++ [y, z] := by
  induction l with
  | nil => rfl
  | cons a l ih =>
    cases l with
    | nil => rfl
    | cons b l =>
      have e1 : dupOpen (a :: b :: l ++ [y, z]) = a :: b :: dupOpen (b :: l ++ [y, z]) := rfl
      have e2 : dupOpen (a :: b :: l ++ [y]) = a :: b :: dupOpen (b :: l ++ [y]) := rfl
      rw [e1, e2, ih]; rfl

theorem crossSumOpen_append2 (l : List Pt) (y z : Pt) :
    crossSumOpen (l ++ [y, z]) = crossSumOpen (l ++ [y]) + (y.x * z.y - z.x * y.y) := by
  induction l with
  | nil => simp [crossSumOpen]
  | cons a l ih =>
    cases l with
    | nil => simp [crossSumOpen]
    | cons b l =>
      have e1 : crossSumOpen (a :: b :: l ++ [y, z]) = (a.x * b.y - b.x * a.y) + crossSumOpen (b :: l ++ [y, z]) := rfl
      have e2 : crossSumOpen (a :: b :: l ++ [y]) = (a.x * b.y - b.x * a.y) + crossSumOpen (b :: l ++ [y]) := rfl
      rw [e1, e2, ih]; ring

theorem shoelace2_cons (p : Pt) (l : List Pt) : shoelace2 (p :: l) = crossSumOpen (p :: l ++ [p]) := rfl

theorem dupOpen_head {α : Type} (p : α) (t : List α) (y : α) : ∃ r, dupOpen ((p :: t) ++ [y]) = p :: r := by
  cases t with
  | nil => exact ⟨_, rfl⟩
  | cons b t => exact ⟨_, rfl⟩

theorem shoelace2_dupOpen_close (p : Pt) (t : List Pt) :
    shoelace2 (dupOpen (p :: t ++ [p])) = shoelace2 (p :: t) := by
  rcases List.eq_nil_or_concat t with rfl | ⟨t', y, rfl⟩
  · simp [dupOpen, shoelace2, crossSumOpen]
  · rw [List.concat_eq_append]
    have hq : p :: (t' ++ [y]) ++ [p] = (p :: t') ++ [y, p] := by simp
    rw [hq, dupOpen_append2]
    obtain ⟨r, hr⟩ := dupOpen_head p t' y
    rw [hr, List.cons_append, shoelace2_cons, ← List.cons_append, ← hr]
    have e : (dupOpen (p :: t' ++ [y]) ++ [y, p]) ++ [p] = (dupOpen (p :: t' ++ [y]) ++ [y]) ++ [p, p] := by simp
    rw [e, crossSumOpen_append2]
    have e' : (dupOpen (p :: t' ++ [y]) ++ [y]) ++ [p] = dupOpen ((p :: t') ++ [y, p]) := by
      rw [dupOpen_append2]; simp
    rw [e', crossSumOpen_dupOpen, shoelace2_cons, ← hq]
    ring

theorem area_dupOpen_close' (ps : List Pt) : area (dupOpen (ps ++ ps.take 1)) = area ps := by
  rw [area_eq_neg_shoelace, area_eq_neg_shoelace]
  cases ps with
  | nil => rfl
  | cons p t => rw [List.take_succ_cons, List.take_zero, shoelace2_dupOpen_close]

theorem orientation_core' (ps : List Pt) (cnum : Int) (hc : 0 < cnum) (h : areaSign ps ≠ 0) :
    areaSign (if -1 * cnum * areaSign (dupOpen (ps ++ ps.take 1)) < 0 then ps.reverse else ps) = -1 := by
  have e : areaSign (dupOpen (ps ++ ps.take 1)) = areaSign ps := by
    unfold areaSign; rw [area_dupOpen_close']
  rw [e]
  rcases ratSign_cases (area ps) with h1 | h1 | h1
  · have h1' : areaSign ps = 1 := h1
    rw [h1', if_pos (by omega), areaSign_reverse, h1']
  · have h1' : areaSign ps = -1 := h1
    rw [h1', if_neg (by omega), h1']
  · exact absurd h1 h

end Tess
end Forsys
