/-
  Helper lemmas for property C19 (tessellation lattices).  Model: ForsysModel/Model/Tessellation.lean.
  Contents: rounding / line_eq, the cut-off filter, interning invariants (vertices, mesh edges) and their
  preservation along create_lattice_elements, bookkeeping of the cell dictionary, area of the doubled walk.
-/
import ForsysModel.Model.Tessellation
import ForsysModel.Props.C20
import ForsysModel.Props.C09
import Mathlib.Tactic.Ring
import Mathlib.Tactic.Linarith
import Mathlib.Tactic.FieldSimp
import Mathlib.Algebra.Order.Field.Rat
import Mathlib.Data.List.Basic
import Mathlib.Data.List.Count
import Mathlib.Data.List.Nodup

namespace Forsys
namespace Tess

/-! ### rounding -/

theorem roundHalfEven_intCast (k : Int) : roundHalfEven (k : Rat) = k := by
  unfold roundHalfEven
  simp only [Rat.floor_intCast, sub_self]
  norm_num

theorem round3_idem' (q : Rat) : round3 (round3 q) = round3 q := by
  unfold round3
  have : ((roundHalfEven (q * 1000) : Rat) / 1000 * 1000) = ((roundHalfEven (q * 1000) : Int) : Rat) := by
    field_simp
  rw [this, roundHalfEven_intCast]

/-! ### line_eq -/

theorem lineAt_left' (q0 q1 : Pt) : lineAt q0 q1 q0.x = q0.y := by
  unfold lineAt; simp

theorem lineAt_right' (q0 q1 : Pt) (h : q1.x ≠ q0.x) : lineAt q0 q1 q1.x = q1.y := by
  unfold lineAt
  have : q1.x - q0.x ≠ 0 := sub_ne_zero.mpr h
  field_simp
  ring

theorem linspace_two (a b : Rat) : linspace a b 2 = [a, b] := by
  unfold linspace
  simp [List.range_succ]

theorem ridgePoints_eq' (p0 p1 : Pt) : ridgePoints p0 p1 = [roundPt p0, roundPt p1] := by
  unfold ridgePoints lineEq
  simp only [linspace_two, List.map_cons, List.map_nil, round3_idem', List.length_cons, List.length_nil]
  by_cases h : (roundPt p1).x = (roundPt p0).x
  · rw [if_pos h]
    simp [linspace_two, roundPt, round3_idem']
  · rw [if_neg h]
    have e0 : lineAt (roundPt p0) (roundPt p1) (round3 p0.x) = round3 p0.y := lineAt_left' (roundPt p0) (roundPt p1)
    have e1 : lineAt (roundPt p0) (roundPt p1) (round3 p1.x) = round3 p1.y := lineAt_right' (roundPt p0) (roundPt p1) h
    rw [e0, e1]
    simp [roundPt, round3_idem']

/-! ### cut-off -/
theorem count_foldl_erase {α : Type} [BEq α] [LawfulBEq α] (ds l : List α) (c : α) :
    (ds.foldl List.erase l).count c = l.count c - ds.count c := by
  induction ds generalizing l with
  | nil => simp
  | cons d ds ih =>
    rw [List.foldl_cons, ih, List.count_erase, List.count_cons]
    by_cases h : d = c
    · subst h; simp; omega
    · have h2 : (d == c) = false := by simp [h]
      simp [h2]

theorem mem_removeInfiniteRegions' (verts : List Pt) (md2 : Option Rat) (regions : List (List Int)) (c : List Int) :
    c ∈ removeInfiniteRegions verts md2 regions ↔ c ∈ regions ∧ tooFar verts md2 c = false := by
  unfold removeInfiniteRegions
  rw [← List.count_pos_iff, count_foldl_erase, ← List.count_pos_iff]
  by_cases h : tooFar verts md2 c = true
  · have : (regions.filter (tooFar verts md2)).count c = regions.count c := by
      rw [List.count_filter]; simp [h]
    simp [h, this]
  · have h' : tooFar verts md2 c = false := by simpa using h
    have : (regions.filter (tooFar verts md2)).count c = 0 := by
      rw [List.count_eq_zero]; intro hm; exact h (List.mem_filter.mp hm).2
    simp [h', this]


/-- keys of an interning dictionary are unique and positive -/
def DInv {β : Type} (d : List (Id × β)) : Prop := (d.map (·.1)).Nodup ∧ ∀ p ∈ d, 1 ≤ p.1
/-- no two vertex ids carry the same (rounded) coordinates -/
def VInj (vs : List (Id × Pt)) : Prop := (vs.map (·.2)).Nodup
/-- no two mesh-edge ids join the same pair of vertices, in either direction -/
def EInj (es : List (Id × (Id × Id))) : Prop :=
  ∀ p ∈ es, ∀ q ∈ es, (p.2 = q.2 ∨ p.2 = (q.2.2, q.2.1)) → p = q

theorem foldl_preserves {σ α : Type} (P : σ → Prop) (f : σ → α → σ) (h : ∀ s a, P s → P (f s a))
    (l : List α) (s : σ) (hs : P s) : P (l.foldl f s) := by
  induction l generalizing s with
  | nil => exact hs
  | cons a l ih => exact ih _ (h s a hs)

theorem foldl_max_ge {β : Type} (d : List (Id × β)) (m : Id) :
    m ≤ d.foldl (fun m p => max m p.1) m ∧ ∀ p ∈ d, p.1 ≤ d.foldl (fun m p => max m p.1) m := by
  induction d generalizing m with
  | nil => simp
  | cons a d ih =>
    simp only [List.foldl_cons, List.mem_cons, forall_eq_or_imp]
    have h1 := (ih (max m a.1)).1
    refine ⟨le_trans (le_max_left _ _) h1, le_trans (le_max_right _ _) h1, (ih _).2⟩

theorem nextKey_fresh {β : Type} (d : List (Id × β)) : 1 ≤ nextKey d ∧ ∀ p ∈ d, p.1 < nextKey d := by
  unfold nextKey maxKey
  cases d with
  | nil => simp
  | cons a d =>
    have h := foldl_max_ge (a :: d) (0 : Id)
    simp only [List.isEmpty_cons, Bool.false_eq_true, if_false]
    refine ⟨by linarith [h.1], fun p hp => by linarith [h.2 p hp]⟩

theorem keyOf?_some {β : Type} [DecidableEq β] (v : β) (d : List (Id × β)) (k : Id) (h : keyOf? v d = some k) :
    (k, v) ∈ d := by
  induction d with
  | nil => simp [keyOf?] at h
  | cons a d ih =>
    obtain ⟨k', w⟩ := a
    unfold keyOf? at h
    by_cases hv : v = w
    · simp [hv] at h; subst hv; subst h; simp
    · simp [hv] at h; exact List.mem_cons_of_mem _ (ih h)

theorem keyOf?_none {β : Type} [DecidableEq β] (v : β) (d : List (Id × β)) (h : keyOf? v d = none) :
    ∀ p ∈ d, p.2 ≠ v := by
  induction d with
  | nil => simp
  | cons a d ih =>
    obtain ⟨k', w⟩ := a
    unfold keyOf? at h
    by_cases hv : v = w
    · simp [hv] at h
    · simp [hv] at h
      intro p hp
      rcases List.mem_cons.mp hp with rfl | hp
      · exact fun e => hv e.symm
      · exact ih h p hp

theorem DInv_append {β : Type} (d : List (Id × β)) (k : Id) (v : β) (h : DInv d) (h1 : 1 ≤ k)
    (hf : ∀ p ∈ d, p.1 < k) : DInv (d ++ [(k, v)]) := by
  refine ⟨?_, ?_⟩
  · rw [List.map_append, List.nodup_append]
    refine ⟨h.1, by simp, ?_⟩
    intro a ha b hb
    simp at hb
    obtain ⟨p, hp, rfl⟩ := List.mem_map.mp ha
    have := hf p hp
    rw [hb]
    exact ne_of_lt this
  · intro p hp
    rcases List.mem_append.mp hp with hp | hp
    · exact h.2 p hp
    · simp at hp; subst hp; exact h1

/-! ### get_vertex_number -/
theorem getVertexNumber_prefix (v : Pt) (vs : List (Id × Pt)) : ∃ t, (getVertexNumber v vs).2 = vs ++ t := by
  unfold getVertexNumber
  split
  · exact ⟨[], by simp⟩
  · exact ⟨_, rfl⟩

theorem getVertexNumber_mem (v : Pt) (vs : List (Id × Pt)) :
    ((getVertexNumber v vs).1, v) ∈ (getVertexNumber v vs).2 := by
  unfold getVertexNumber
  split
  · next k hk => exact keyOf?_some v vs k hk
  · simp

theorem getVertexNumber_inv (v : Pt) (vs : List (Id × Pt)) (h : DInv vs) (hi : VInj vs) :
    DInv (getVertexNumber v vs).2 ∧ VInj (getVertexNumber v vs).2 := by
  unfold getVertexNumber
  split
  · exact ⟨h, hi⟩
  · next hk =>
    have hf := nextKey_fresh vs
    refine ⟨DInv_append vs _ v h hf.1 hf.2, ?_⟩
    unfold VInj
    rw [List.map_append, List.nodup_append]
    refine ⟨hi, by simp, ?_⟩
    intro a ha b hb
    simp at hb
    obtain ⟨p, hp, rfl⟩ := List.mem_map.mp ha
    rw [hb]
    exact keyOf?_none v vs hk p hp

/-- a dictionary entry determines the id: with unique values, the id found for `v` is the id of any entry `(k, v)` -/
theorem getVertexNumber_of_mem (v : Pt) (vs : List (Id × Pt)) (hi : VInj vs) (k : Id) (hm : (k, v) ∈ vs) :
    getVertexNumber v vs = (k, vs) := by
  unfold getVertexNumber
  split
  · next k' hk =>
    have hm' := keyOf?_some v vs k' hk
    have : (k', v) = (k, v) := by
      have hinj := List.inj_on_of_nodup_map hi
      exact hinj hm' hm rfl
    simp at this
    rw [this]
  · next hk => exact absurd rfl (keyOf?_none v vs hk _ hm)



/-! ### get_enum -/
theorem getEnum_prefix (e : Id × Id) (es : List (Id × (Id × Id))) : ∃ t, (getEnum e es).2 = es ++ t := by
  unfold getEnum
  split
  · exact ⟨[], by simp⟩
  · split
    · exact ⟨[], by simp⟩
    · exact ⟨_, rfl⟩

/-- the signed id names a stored edge: positive → `[a, b]` itself, negative → the reversed `[b, a]` -/
theorem getEnum_mem (e : Id × Id) (es : List (Id × (Id × Id))) (h : DInv es) :
    (0 < (getEnum e es).1 ∧ ((getEnum e es).1, e) ∈ (getEnum e es).2) ∨
    ((getEnum e es).1 < 0 ∧ (-(getEnum e es).1, (e.2, e.1)) ∈ (getEnum e es).2) := by
  unfold getEnum
  split
  · next k hk =>
    have hm := keyOf?_some e es k hk
    exact Or.inl ⟨by have := h.2 _ hm; simpa using (by linarith : 0 < k), hm⟩
  · split
    · next k hk =>
      have hm := keyOf?_some (e.2, e.1) es k hk
      have := h.2 _ hm
      exact Or.inr ⟨by simp; linarith, by simpa using hm⟩
    · have hf := nextKey_fresh es
      exact Or.inl ⟨by simp; linarith [hf.1], by simp⟩

theorem getEnum_inv (e : Id × Id) (es : List (Id × (Id × Id))) (h : DInv es) (hi : EInj es) :
    DInv (getEnum e es).2 ∧ EInj (getEnum e es).2 := by
  unfold getEnum
  split
  · exact ⟨h, hi⟩
  · next hk1 =>
    split
    · exact ⟨h, hi⟩
    · next hk2 =>
      have hf := nextKey_fresh es
      refine ⟨DInv_append es _ e h hf.1 hf.2, ?_⟩
      have n1 := keyOf?_none e es hk1
      have n2 := keyOf?_none (e.2, e.1) es hk2
      intro p hp q hq hpq
      rcases List.mem_append.mp hp with hp | hp <;> rcases List.mem_append.mp hq with hq | hq
      · exact hi p hp q hq hpq
      · simp at hq; subst hq
        rcases hpq with hpq | hpq
        · exact absurd hpq (n1 p hp)
        · exact absurd hpq (n2 p hp)
      · simp at hp; subst hp
        rcases hpq with hpq | hpq
        · exact absurd hpq.symm (n1 q hq)
        · simp only at hpq
          have : q.2 = (e.2, e.1) := by rw [hpq]
          exact absurd this (n2 q hq)
      · simp at hp hq; rw [hp, hq]

/-- with the invariants, any stored edge joining `a`,`b` in either direction fixes `|get_enum|` -/
theorem getEnum_of_mem (e : Id × Id) (es : List (Id × (Id × Id))) (_h : DInv es) (hi : EInj es) (k : Id)
    (hm : (k, e) ∈ es ∨ (k, (e.2, e.1)) ∈ es) :
    (getEnum e es).2 = es ∧ ((getEnum e es).1 = k ∨ (getEnum e es).1 = -k) := by
  unfold getEnum
  split
  · next k' hk =>
    have hm' := keyOf?_some e es k' hk
    refine ⟨rfl, Or.inl ?_⟩
    rcases hm with hm | hm
    · have := hi _ hm' _ hm (Or.inl rfl); exact (Prod.mk.inj this).1
    · have := hi _ hm' _ hm (Or.inr (by simp)); exact (Prod.mk.inj this).1
  · next hk1 =>
    split
    · next k' hk =>
      have hm' := keyOf?_some (e.2, e.1) es k' hk
      refine ⟨rfl, Or.inr ?_⟩
      rcases hm with hm | hm
      · have := hi _ hm' _ hm (Or.inr (by simp)); rw [(Prod.mk.inj this).1]
      · have := hi _ hm' _ hm (Or.inl rfl); rw [(Prod.mk.inj this).1]
    · next hk2 =>
      rcases hm with hm | hm
      · exact absurd rfl (keyOf?_none e es hk1 _ hm)
      · exact absurd rfl (keyOf?_none (e.2, e.1) es hk2 _ hm)

/-! ### the invariants along `create_lattice_elements` -/

/-- no stored mesh edge joins a vertex to itself -/
def NoLoop (es : List (Id × (Id × Id))) : Prop := ∀ p ∈ es, p.2.1 ≠ p.2.2
/-- both ends of every stored mesh edge are stored vertex ids -/
def EndsIn (vs : List (Id × Pt)) (es : List (Id × (Id × Id))) : Prop :=
  ∀ p ∈ es, p.2.1 ∈ vs.map (·.1) ∧ p.2.2 ∈ vs.map (·.1)

theorem getEnum_mem_cases (e : Id × Id) (es : List (Id × (Id × Id))) :
    ∀ p ∈ (getEnum e es).2, p ∈ es ∨ p.2 = e := by
  unfold getEnum
  split
  · exact fun p hp => Or.inl hp
  · split
    · exact fun p hp => Or.inl hp
    · intro p hp
      rcases List.mem_append.mp hp with hp | hp
      · exact Or.inl hp
      · simp at hp; subst hp; exact Or.inr rfl

def WInv (w : Walk) : Prop :=
  DInv w.vs ∧ VInj w.vs ∧ DInv w.es ∧ EInj w.es ∧ NoLoop w.es ∧ EndsIn w.vs w.es

theorem EndsIn_mono (vs vs' : List (Id × Pt)) (es : List (Id × (Id × Id))) (h : EndsIn vs es)
    (hp : ∃ t, vs' = vs ++ t) : EndsIn vs' es := by
  obtain ⟨t, rfl⟩ := hp
  intro p hp
  have := h p hp
  simp only [List.map_append, List.mem_append]
  exact ⟨Or.inl this.1, Or.inl this.2⟩

theorem stepEdge_inv (w : Walk) (v01 : Pt × Pt) (h : WInv w) : WInv (stepEdge w v01) := by
  obtain ⟨h1, h2, h3, h4, h5, h6⟩ := h
  have a := getVertexNumber_inv v01.1 w.vs h1 h2
  have b := getVertexNumber_inv v01.2 _ a.1 a.2
  obtain ⟨t1, ht1⟩ := getVertexNumber_prefix v01.1 w.vs
  obtain ⟨t2, ht2⟩ := getVertexNumber_prefix v01.2 (getVertexNumber v01.1 w.vs).2
  have hpre : ∃ t, (getVertexNumber v01.2 (getVertexNumber v01.1 w.vs).2).2 = w.vs ++ t :=
    ⟨t1 ++ t2, by rw [ht2, ht1, List.append_assoc]⟩
  have h6' := EndsIn_mono _ _ _ h6 hpre
  unfold stepEdge
  simp only
  split
  · exact ⟨b.1, b.2, h3, h4, h5, h6'⟩
  · next hne =>
    have c := getEnum_inv ((getVertexNumber v01.1 w.vs).1, (getVertexNumber v01.2 (getVertexNumber v01.1 w.vs).2).1) w.es h3 h4
    refine ⟨b.1, b.2, c.1, c.2, ?_, ?_⟩
    · intro p hp
      rcases getEnum_mem_cases _ _ p hp with hp | hp
      · exact h5 p hp
      · rw [hp]; exact hne
    · intro p hp
      rcases getEnum_mem_cases _ _ p hp with hp | hp
      · exact h6' p hp
      · rw [hp]
        have m1 := getVertexNumber_mem v01.1 w.vs
        have m2 := getVertexNumber_mem v01.2 (getVertexNumber v01.1 w.vs).2
        refine ⟨?_, List.mem_map.mpr ⟨_, m2, rfl⟩⟩
        rw [ht2]
        simp only [List.map_append, List.mem_append]
        exact Or.inl (List.mem_map.mpr ⟨_, m1, rfl⟩)

theorem stepRidge_inv (verts : List Pt) (w : Walk) (ij : Int × Int) (h : WInv w) : WInv (stepRidge verts w ij) :=
  foldl_preserves WInv stepEdge stepEdge_inv _ w h

def SInv (st : EState) : Prop :=
  WInv { vs := st.el.vertices, es := st.el.edges, cellE := [], cellV := [] }

theorem processRegion_inv (verts : List Pt) (st : EState) (c : List Int) (h : SInv st) :
    SInv (processRegion verts st c) := by
  have := foldl_preserves WInv (stepRidge verts) (stepRidge_inv verts) (openPairs (closeRegion c))
    { vs := st.el.vertices, es := st.el.edges, cellE := [], cellV := [] } h
  exact this

theorem stepRegion_inv (verts : List Pt) (st : EState) (c : List Int) (h : SInv st) :
    SInv (stepRegion verts st c) := by
  unfold stepRegion
  split
  · exact processRegion_inv verts st c h
  · exact h

theorem initState_inv : SInv initState := by
  refine ⟨⟨by simp [initState], by simp [initState]⟩, by simp [VInj, initState], ⟨by simp [initState], by simp [initState]⟩, ?_, ?_, ?_⟩
  · intro p hp; simp [initState] at hp
  · intro p hp; simp [initState] at hp
  · intro p hp; simp [initState] at hp

theorem elementsState_inv (verts : List Pt) (regions : List (List Int)) (md2 : Option Rat) :
    SInv (elementsState verts regions md2) :=
  foldl_preserves SInv (stepRegion verts) (stepRegion_inv verts) _ _ initState_inv

theorem dictSet_keys {β : Type} (k : Id) (v : β) (d : List (Id × β)) :
    (dictSet k v d).map (·.1) = if k ∈ d.map (·.1) then d.map (·.1) else d.map (·.1) ++ [k] := by
  induction d with
  | nil => simp [dictSet]
  | cons a d ih =>
    obtain ⟨k', w⟩ := a
    unfold dictSet
    by_cases h : k = k'
    · simp [h]
    · simp only [h, if_false, List.map_cons, ih, List.mem_cons, false_or]
      split <;> simp

/-- bookkeeping invariant of the region loop: `cnum = processed + 1`, every key is `±` an earlier `cnum`
    (or 0), and while no key is 0 there is one entry per processed region -/
def CInv (st : EState) (n : Nat) : Prop :=
  st.cnum = (n : Int) + 1 ∧ (∀ k ∈ st.el.cells.map (·.1), -st.cnum < k ∧ k < st.cnum) ∧
  ((0 : Id) ∉ st.el.cells.map (·.1) → (st.el.cells.map (·.1)).length = n)

theorem processRegion_cinv (verts : List Pt) (st : EState) (c : List Int) (n : Nat) (h : CInv st n) :
    CInv (processRegion verts st c) (n + 1) := by
  obtain ⟨h1, h2, h3⟩ := h
  unfold processRegion
  simp only
  generalize (List.foldl (stepRidge verts) _ (openPairs (closeRegion c))) = w
  unfold CInv
  simp only [dictSet_keys]
  have hs := ratSign_cases (area (w.cellV.map fun i => (alGet? i w.vs).getD default))
  have hs' : cellAreaSign w.cellV w.vs = 1 ∨ cellAreaSign w.cellV w.vs = -1 ∨ cellAreaSign w.cellV w.vs = 0 := hs
  generalize cellAreaSign w.cellV w.vs = s at hs'
  have hc : 1 ≤ st.cnum := by omega
  refine ⟨by push_cast; omega, ?_, ?_⟩
  · intro k hk
    split at hk
    · have := h2 k hk; omega
    · rcases List.mem_append.mp hk with hk | hk
      · have := h2 k hk; omega
      · simp at hk; rcases hs' with rfl | rfl | rfl <;> omega
  · rcases hs' with rfl | rfl | rfl
    · have hn : ¬ (-1 * st.cnum * 1 ∈ st.el.cells.map (·.1)) := fun hm => by have := h2 _ hm; omega
      rw [if_neg hn]
      intro h0
      have : (0 : Id) ∉ st.el.cells.map (·.1) := fun hm => h0 (List.mem_append_left _ hm)
      simp [h3 this]
    · have hn : ¬ (-1 * st.cnum * -1 ∈ st.el.cells.map (·.1)) := fun hm => by have := h2 _ hm; omega
      rw [if_neg hn]
      intro h0
      have : (0 : Id) ∉ st.el.cells.map (·.1) := fun hm => h0 (List.mem_append_left _ hm)
      simp [h3 this]
    · intro h0
      exfalso
      apply h0
      split
      · next hm => simpa using hm
      · simp

theorem foldl_stepRegion_cinv (verts : List Pt) (L : List (List Int)) (st : EState) (n : Nat) (h : CInv st n) :
    CInv (L.foldl (stepRegion verts) st) (n + (L.filter bounded).length) := by
  induction L generalizing st n with
  | nil => simpa using h
  | cons c L ih =>
    rw [List.foldl_cons]
    have e : stepRegion verts st c = if bounded c then processRegion verts st c else st := rfl
    rw [e]
    by_cases hb : bounded c = true
    · rw [if_pos hb, List.filter_cons_of_pos hb]
      have := ih _ _ (processRegion_cinv verts st c n h)
      simpa [Nat.add_assoc, Nat.add_comm 1] using this
    · rw [if_neg hb, List.filter_cons_of_neg hb]
      exact ih _ _ h

theorem initState_cinv : CInv initState 0 := by
  refine ⟨by simp [initState], by simp [initState], by simp [initState]⟩

/-- both ends of every step of a walk: `[q0,q1, q1,q2, …]` (the shape of `temp_vertex_for_cell`) -/
def dupOpen {α : Type} : List α → List α
  | a :: b :: l => a :: b :: dupOpen (b :: l)
  | _ => []

theorem crossSumOpen_cons2 (p q : Pt) (rest : List Pt) :
    crossSumOpen (p :: q :: rest) = (p.x * q.y - q.x * p.y) + crossSumOpen (q :: rest) := rfl

theorem crossSumOpen_dupOpen (q : List Pt) : crossSumOpen (dupOpen q) = crossSumOpen q := by
  induction q with
  | nil => rfl
  | cons a l ih =>
    cases l with
    | nil => rfl
    | cons b l =>
      cases l with
      | nil => simp [dupOpen, crossSumOpen]
      | cons c l =>
        have e : dupOpen (a :: b :: c :: l) = a :: b :: b :: c :: dupOpen (c :: l) := rfl
        have e2 : dupOpen (b :: c :: l) = b :: c :: dupOpen (c :: l) := rfl
        rw [e2] at ih
        rw [e, crossSumOpen_cons2, crossSumOpen_cons2, ih, crossSumOpen_cons2 a b]
        ring

theorem dupOpen_append2 {α : Type} (l : List α) (y z : α) :
    dupOpen (l ++ [y, z]) = dupOpen (l ++ [y]) ++ [y, z] := by
  induction l with
  | nil => rfl
  | cons a l ih =>
    cases l with
    | nil => rfl
    | cons b l =>
      have e1 : dupOpen (a :: b :: l ++ [y, z]) = a :: b :: dupOpen (b :: l ++ [y, z]) := rfl
      have e2 : dupOpen (a :: b :: l ++ [y]) = a :: b :: dupOpen (b :: l ++ [y]) := rfl
      rw [e1, e2, ih]; rfl

theorem crossSumOpen_append2 (l : List Pt) (y z : Pt) :
    crossSumOpen (l ++ [y, z]) = crossSumOpen (l ++ [y]) + (y.x * z.y - z.x * y.y) := by
  induction l with
  | nil => simp [crossSumOpen]
  | cons a l ih =>
    cases l with
    | nil => simp [crossSumOpen]
    | cons b l =>
      have e1 : crossSumOpen (a :: b :: l ++ [y, z]) = (a.x * b.y - b.x * a.y) + crossSumOpen (b :: l ++ [y, z]) := rfl
      have e2 : crossSumOpen (a :: b :: l ++ [y]) = (a.x * b.y - b.x * a.y) + crossSumOpen (b :: l ++ [y]) := rfl
      rw [e1, e2, ih]; ring

theorem shoelace2_cons (p : Pt) (l : List Pt) : shoelace2 (p :: l) = crossSumOpen (p :: l ++ [p]) := rfl

theorem dupOpen_head {α : Type} (p : α) (t : List α) (y : α) : ∃ r, dupOpen ((p :: t) ++ [y]) = p :: r := by
  cases t with
  | nil => exact ⟨_, rfl⟩
  | cons b t => exact ⟨_, rfl⟩

theorem shoelace2_dupOpen_close (p : Pt) (t : List Pt) :
    shoelace2 (dupOpen (p :: t ++ [p])) = shoelace2 (p :: t) := by
  rcases List.eq_nil_or_concat t with rfl | ⟨t', y, rfl⟩
  · simp [dupOpen, shoelace2, crossSumOpen]
  · rw [List.concat_eq_append]
    have hq : p :: (t' ++ [y]) ++ [p] = (p :: t') ++ [y, p] := by simp
    rw [hq, dupOpen_append2]
    obtain ⟨r, hr⟩ := dupOpen_head p t' y
    rw [hr, List.cons_append, shoelace2_cons, ← List.cons_append, ← hr]
    have e : (dupOpen (p :: t' ++ [y]) ++ [y, p]) ++ [p] = (dupOpen (p :: t' ++ [y]) ++ [y]) ++ [p, p] := by simp
    rw [e, crossSumOpen_append2]
    have e' : (dupOpen (p :: t' ++ [y]) ++ [y]) ++ [p] = dupOpen ((p :: t') ++ [y, p]) := by
      rw [dupOpen_append2]; simp
    rw [e', crossSumOpen_dupOpen, shoelace2_cons, ← hq]
    ring

theorem area_dupOpen_close' (ps : List Pt) : area (dupOpen (ps ++ ps.take 1)) = area ps := by
  rw [area_eq_neg_shoelace, area_eq_neg_shoelace]
  cases ps with
  | nil => rfl
  | cons p t => rw [List.take_succ_cons, List.take_zero, shoelace2_dupOpen_close]

theorem orientation_core' (ps : List Pt) (cnum : Int) (hc : 0 < cnum) (h : areaSign ps ≠ 0) :
    areaSign (if -1 * cnum * areaSign (dupOpen (ps ++ ps.take 1)) < 0 then ps.reverse else ps) = -1 := by
  have e : areaSign (dupOpen (ps ++ ps.take 1)) = areaSign ps := by
    unfold areaSign; rw [area_dupOpen_close']
  rw [e]
  rcases ratSign_cases (area ps) with h1 | h1 | h1
  · have h1' : areaSign ps = 1 := h1
    rw [h1', if_pos (by omega), areaSign_reverse, h1']
  · have h1' : areaSign ps = -1 := h1
    rw [h1', if_neg (by omega), h1']
  · exact absurd h1 h

/-! ### the closed walk round a region, the stored cells, orientation and consistency for all inputs -/

/-- `b` extends `a` (dictionaries only grow) -/
def Ext {α : Type} (a b : List α) : Prop := ∃ t, b = a ++ t
theorem Ext.refl {α : Type} (a : List α) : Ext a a := ⟨[], by simp⟩
theorem Ext.trans {α : Type} {a b c : List α} (h1 : Ext a b) (h2 : Ext b c) : Ext a c := by
  obtain ⟨t1, rfl⟩ := h1; obtain ⟨t2, rfl⟩ := h2; exact ⟨t1 ++ t2, by simp⟩
theorem Ext.mem {α : Type} {a b : List α} (h : Ext a b) {x : α} (hx : x ∈ a) : x ∈ b := by
  obtain ⟨t, rfl⟩ := h; exact List.mem_append_left _ hx

/-- the signed id `e` names the stored mesh edge joining `ab.1 → ab.2`: positive — stored as `[a, b]`,
    negative — stored reversed under `-e` -/
def SignedEdge (es : List (Id × (Id × Id))) (e : Id) (ab : Id × Id) : Prop :=
  (0 < e ∧ (e, ab) ∈ es) ∨ (e < 0 ∧ (-e, (ab.2, ab.1)) ∈ es)

theorem SignedEdge.mono {es es' : List (Id × (Id × Id))} (h : Ext es es') {e : Id} {ab : Id × Id}
    (hs : SignedEdge es e ab) : SignedEdge es' e ab := by
  rcases hs with ⟨h1, h2⟩ | ⟨h1, h2⟩
  · exact Or.inl ⟨h1, h.mem h2⟩
  · exact Or.inr ⟨h1, h.mem h2⟩

def walkPts (w : Walk) (Q : List Pt) : Walk := (openPairs Q).foldl stepEdge w

theorem walkPts_cons2 (w : Walk) (p q : Pt) (rest : List Pt) :
    walkPts w (p :: q :: rest) = walkPts (stepEdge w (p, q)) (q :: rest) := rfl

theorem stepEdge_ext (w : Walk) (v01 : Pt × Pt) : Ext w.vs (stepEdge w v01).vs ∧ Ext w.es (stepEdge w v01).es := by
  obtain ⟨t1, ht1⟩ := getVertexNumber_prefix v01.1 w.vs
  obtain ⟨t2, ht2⟩ := getVertexNumber_prefix v01.2 (getVertexNumber v01.1 w.vs).2
  have hv : Ext w.vs (getVertexNumber v01.2 (getVertexNumber v01.1 w.vs).2).2 := ⟨t1 ++ t2, by rw [ht2, ht1, List.append_assoc]⟩
  unfold stepEdge
  simp only
  split
  · exact ⟨hv, Ext.refl _⟩
  · exact ⟨hv, getEnum_prefix _ _⟩

theorem walkPts_ext (Q : List Pt) (w : Walk) : Ext w.vs (walkPts w Q).vs ∧ Ext w.es (walkPts w Q).es := by
  unfold walkPts
  generalize openPairs Q = L
  induction L generalizing w with
  | nil => exact ⟨Ext.refl _, Ext.refl _⟩
  | cons a L ih =>
    rw [List.foldl_cons]
    have h1 := stepEdge_ext w a
    have h2 := ih (stepEdge w a)
    exact ⟨h1.1.trans h2.1, h1.2.trans h2.2⟩

theorem walkPts_inv (Q : List Pt) (w : Walk) (h : WInv w) : WInv (walkPts w Q) :=
  foldl_preserves WInv stepEdge stepEdge_inv _ w h

theorem key_inj {vs : List (Id × Pt)} (h : DInv vs) {k : Id} {p q : Pt} (hp : (k, p) ∈ vs) (hq : (k, q) ∈ vs) : p = q := by
  have := List.inj_on_of_nodup_map h.1 hp hq rfl
  exact (Prod.mk.inj this).2

theorem val_inj {vs : List (Id × Pt)} (h : VInj vs) {k k' : Id} {p : Pt} (hp : (k, p) ∈ vs) (hq : (k', p) ∈ vs) : k = k' := by
  have := List.inj_on_of_nodup_map h hp hq rfl
  exact (Prod.mk.inj this).1

/-- one step from an interned start point to a different point -/
theorem stepEdge_distinct (w : Walk) (k0 : Id) (p q : Pt) (h : WInv w) (hk : (k0, p) ∈ w.vs) (hpq : p ≠ q) :
    let r2 := getVertexNumber q w.vs
    let re := getEnum (k0, r2.1) w.es
    stepEdge w (p, q) = { vs := r2.2, es := re.2, cellE := w.cellE ++ [re.1], cellV := w.cellV ++ [k0, r2.1] } ∧
    (r2.1, q) ∈ r2.2 ∧ SignedEdge re.2 re.1 (k0, r2.1) := by
  intro r2 re
  have e1 : getVertexNumber p w.vs = (k0, w.vs) := getVertexNumber_of_mem p w.vs h.2.1 k0 hk
  have m2 : (r2.1, q) ∈ r2.2 := getVertexNumber_mem q w.vs
  have i2 := getVertexNumber_inv q w.vs h.1 h.2.1
  have hne : k0 ≠ r2.1 := by
    intro e
    have hk' : (k0, p) ∈ r2.2 := by
      obtain ⟨t, ht⟩ := getVertexNumber_prefix q w.vs
      show (k0, p) ∈ (getVertexNumber q w.vs).2
      rw [ht]; exact List.mem_append_left _ hk
    rw [← e] at m2
    exact hpq (key_inj i2.1 hk' m2)
  refine ⟨?_, m2, ?_⟩
  · unfold stepEdge
    simp only [e1]
    rw [if_neg hne]
  · exact getEnum_mem (k0, r2.1) w.es h.2.2.1

theorem walk_from (rest : List Pt) : ∀ (w : Walk) (k0 : Id) (p : Pt), WInv w → (k0, p) ∈ w.vs →
    (∀ ab ∈ openPairs (p :: rest), ab.1 ≠ ab.2) →
    ∃ Wr E', List.Forall₂ (fun k q => (k, q) ∈ (walkPts w (p :: rest)).vs) Wr rest ∧
      (walkPts w (p :: rest)).cellV = w.cellV ++ dupOpen (k0 :: Wr) ∧
      (walkPts w (p :: rest)).cellE = w.cellE ++ E' ∧
      List.Forall₂ (SignedEdge (walkPts w (p :: rest)).es) E' (openPairs (k0 :: Wr)) := by
  induction rest with
  | nil =>
    intro w k0 p _ _ _
    exact ⟨[], [], List.Forall₂.nil, by simp [walkPts, openPairs, dupOpen], by simp [walkPts, openPairs], by simp [openPairs]⟩
  | cons q rest ih =>
    intro w k0 p hw hk hch
    have hpq : p ≠ q := hch (p, q) (by simp [openPairs])
    obtain ⟨hstep, hm2, hse⟩ := stepEdge_distinct w k0 p q hw hk hpq
    rw [walkPts_cons2]
    have hw1inv : WInv (stepEdge w (p, q)) := stepEdge_inv w (p, q) hw
    obtain ⟨w1, hw1⟩ : ∃ w1, w1 = stepEdge w (p, q) := ⟨_, rfl⟩
    rw [← hw1] at hw1inv ⊢
    rw [hstep] at hw1
    have hk1 : ((getVertexNumber q w.vs).1, q) ∈ w1.vs := by rw [hw1]; exact hm2
    have hch1 : ∀ ab ∈ openPairs (q :: rest), ab.1 ≠ ab.2 := fun ab hab => hch ab (by
      show ab ∈ (p, q) :: openPairs (q :: rest); exact List.mem_cons_of_mem _ hab)
    obtain ⟨Wr, E', f1, f2, f3, f4⟩ := ih w1 _ q hw1inv hk1 hch1
    have hext := walkPts_ext (q :: rest) w1
    refine ⟨(getVertexNumber q w.vs).1 :: Wr, (getEnum (k0, (getVertexNumber q w.vs).1) w.es).1 :: E', ?_, ?_, ?_, ?_⟩
    · exact List.Forall₂.cons (hext.1.mem hk1) f1
    · rw [f2, hw1]
      show _ = w.cellV ++ (k0 :: (getVertexNumber q w.vs).1 :: dupOpen ((getVertexNumber q w.vs).1 :: Wr))
      simp
    · rw [f3, hw1]; simp
    · show List.Forall₂ _ _ ((k0, (getVertexNumber q w.vs).1) :: openPairs ((getVertexNumber q w.vs).1 :: Wr))
      refine List.Forall₂.cons ?_ f4
      have : Ext (getEnum (k0, (getVertexNumber q w.vs).1) w.es).2 w1.es := by rw [hw1]; exact Ext.refl _
      exact (hse.mono this).mono hext.2



theorem openPairs_ne_of_nodup {α : Type} (L : List α) (h : L.Nodup) : ∀ ab ∈ openPairs L, ab.1 ≠ ab.2 := by
  induction L with
  | nil => simp [openPairs]
  | cons a L ih =>
    cases L with
    | nil => simp [openPairs]
    | cons b L =>
      intro ab hab
      have e : openPairs (a :: b :: L) = (a, b) :: openPairs (b :: L) := rfl
      rw [e] at hab
      rcases List.mem_cons.mp hab with rfl | hab
      · have := (List.nodup_cons.mp h).1
        intro e'; simp only at e'; subst e'; exact this (List.mem_cons_self ..)
      · exact ih (List.nodup_cons.mp h).2 ab hab

theorem openPairs_closed_ne (p : Pt) (t : List Pt) (ht : t ≠ []) (h : (p :: t).Nodup) :
    ∀ ab ∈ openPairs (p :: (t ++ [p])), ab.1 ≠ ab.2 := by
  cases t with
  | nil => exact absurd rfl ht
  | cons q t =>
    have hn := List.nodup_cons.mp h
    intro ab hab
    have e : openPairs (p :: (q :: t ++ [p])) = (p, q) :: openPairs (q :: t ++ [p]) := rfl
    rw [e] at hab
    rcases List.mem_cons.mp hab with rfl | hab
    · intro e'; simp only at e'; subst e'; exact hn.1 (List.mem_cons_self ..)
    · have : (q :: t ++ [p]).Nodup := by
        rw [List.nodup_append]
        refine ⟨hn.2, by simp, ?_⟩
        intro a ha b hb
        simp at hb; subst hb
        intro e'; subst e'; exact hn.1 ha
      exact openPairs_ne_of_nodup _ this ab hab

theorem stepEdge_preintern (w : Walk) (p q : Pt) (h : WInv w) :
    stepEdge w (p, q) = stepEdge { w with vs := (getVertexNumber p w.vs).2 } (p, q) := by
  have i1 := getVertexNumber_inv p w.vs h.1 h.2.1
  have e := getVertexNumber_of_mem p (getVertexNumber p w.vs).2 i1.2 _ (getVertexNumber_mem p w.vs)
  unfold stepEdge
  simp only [e]

/-- the closed walk round a region whose rounded corners `p :: t` are pairwise different (at least two) -/
theorem region_walk (w : Walk) (p : Pt) (t : List Pt) (hw : WInv w) (ht : t ≠ []) (hn : (p :: t).Nodup) :
    ∃ W E', List.Forall₂ (fun k q => (k, q) ∈ (walkPts w (p :: (t ++ [p]))).vs) W (p :: t) ∧
      (walkPts w (p :: (t ++ [p]))).cellV = w.cellV ++ dupOpen (W ++ W.take 1) ∧
      (walkPts w (p :: (t ++ [p]))).cellE = w.cellE ++ E' ∧
      List.Forall₂ (SignedEdge (walkPts w (p :: (t ++ [p]))).es) E' (openPairs (W ++ W.take 1)) := by
  -- intern the first corner beforehand
  have hpre : walkPts w (p :: (t ++ [p])) = walkPts { w with vs := (getVertexNumber p w.vs).2 } (p :: (t ++ [p])) := by
    cases t with
    | nil => exact absurd rfl ht
    | cons q t =>
      show walkPts w (p :: q :: (t ++ [p])) = walkPts _ (p :: q :: (t ++ [p]))
      rw [walkPts_cons2, walkPts_cons2, stepEdge_preintern w p q hw]
  obtain ⟨w0, hw0⟩ : ∃ w0 : Walk, w0 = { w with vs := (getVertexNumber p w.vs).2 } := ⟨_, rfl⟩
  have i1 := getVertexNumber_inv p w.vs hw.1 hw.2.1
  have hw0inv : WInv w0 := by
    rw [hw0]
    exact ⟨i1.1, i1.2, hw.2.2.1, hw.2.2.2.1, hw.2.2.2.2.1, EndsIn_mono _ _ _ hw.2.2.2.2.2 (getVertexNumber_prefix p w.vs)⟩
  have hk0 : ((getVertexNumber p w.vs).1, p) ∈ w0.vs := by rw [hw0]; exact getVertexNumber_mem p w.vs
  rw [hpre, ← hw0]
  obtain ⟨Wr, E', f1, f2, f3, f4⟩ := walk_from (t ++ [p]) w0 _ p hw0inv hk0 (openPairs_closed_ne p t ht hn)
  have hext := walkPts_ext (p :: (t ++ [p])) w0
  have hinv := walkPts_inv (p :: (t ++ [p])) w0 hw0inv
  have hk0' := hext.1.mem hk0
  have g1 := List.forall₂_take_append Wr t [p] f1
  have g2 := List.forall₂_drop_append Wr t [p] f1
  have hWr : Wr = Wr.take t.length ++ [(getVertexNumber p w.vs).1] := by
    conv_lhs => rw [← List.take_append_drop t.length Wr]
    congr 1
    match hd : Wr.drop t.length, g2 with
    | [k'], List.Forall₂.cons hk' List.Forall₂.nil =>
      rw [val_inj hinv.2.1 hk' hk0']
  have hcv : w0.cellV = w.cellV := by rw [hw0]
  have hce : w0.cellE = w.cellE := by rw [hw0]
  refine ⟨(getVertexNumber p w.vs).1 :: Wr.take t.length, E', List.Forall₂.cons hk0' g1, ?_, ?_, ?_⟩
  · rw [f2, hcv]; congr 2
    rw [List.take_succ_cons, List.take_zero, List.cons_append, ← hWr]
  · rw [f3, hce]
  · rw [List.take_succ_cons, List.take_zero, List.cons_append, ← hWr]; exact f4



/-! ### from the region loop to the walk -/

/-- the rounded corner points of a region -/
def corners (verts : List Pt) (c : List Int) : List Pt := c.map fun i => roundPt (qv verts i)

theorem stepRidge_eq (verts : List Pt) (w : Walk) (ij : Int × Int) :
    stepRidge verts w ij = stepEdge w (roundPt (qv verts ij.1), roundPt (qv verts ij.2)) := by
  unfold stepRidge
  rw [ridgePoints_eq']
  rfl

theorem foldl_stepRidge_eq (verts : List Pt) (L : List Int) (w : Walk) :
    (openPairs L).foldl (stepRidge verts) w = walkPts w (corners verts L) := by
  induction L generalizing w with
  | nil => rfl
  | cons a L ih =>
    cases L with
    | nil => rfl
    | cons b L =>
      have e : openPairs (a :: b :: L) = (a, b) :: openPairs (b :: L) := rfl
      rw [e, List.foldl_cons, ih, stepRidge_eq]
      rfl

theorem corners_close (verts : List Pt) (c : List Int) :
    corners verts (closeRegion c) = corners verts c ++ (corners verts c).take 1 := by
  unfold corners closeRegion
  rw [List.map_append, List.map_take]

theorem alGet?_of_mem {β : Type} (d : List (Id × β)) (h : (d.map (·.1)).Nodup) (k : Id) (v : β) (hm : (k, v) ∈ d) :
    alGet? k d = some v := by
  induction d with
  | nil => simp at hm
  | cons a d ih =>
    obtain ⟨k', w⟩ := a
    simp only [List.map_cons, List.nodup_cons] at h
    unfold alGet?
    rcases List.mem_cons.mp hm with e | hm
    · injection e with e1 e2; subst e1; subst e2; simp
    · have : k ≠ k' := fun e => h.1 (e ▸ List.mem_map.mpr ⟨_, hm, rfl⟩)
      simp [this, ih h.2 hm]

/-- `vertices[i]` as used by `get_cell_area` -/
def ptOf (vs : List (Id × Pt)) (i : Id) : Pt := (alGet? i vs).getD default

theorem map_ptOf {vs : List (Id × Pt)} (h : DInv vs) {W : List Id} {P : List Pt}
    (f : List.Forall₂ (fun k q => (k, q) ∈ vs) W P) : W.map (ptOf vs) = P := by
  induction f with
  | nil => rfl
  | cons hkq _ ih => simp [ptOf, alGet?_of_mem _ h.1 _ _ hkq, ih]

theorem dupOpen_map {α β : Type} (f : α → β) (l : List α) : (dupOpen l).map f = dupOpen (l.map f) := by
  induction l with
  | nil => rfl
  | cons a l ih =>
    cases l with
    | nil => rfl
    | cons b l =>
      show f a :: f b :: (dupOpen (b :: l)).map f = f a :: f b :: dupOpen ((b :: l).map f)
      rw [ih]

theorem mem_dictSet {β : Type} (k : Id) (v : β) (d : List (Id × β)) : ∀ x ∈ dictSet k v d, x = (k, v) ∨ x ∈ d := by
  induction d with
  | nil => intro x hx; simp [dictSet] at hx; exact Or.inl hx
  | cons a d ih =>
    obtain ⟨k', w⟩ := a
    intro x hx
    unfold dictSet at hx
    split at hx
    · rcases List.mem_cons.mp hx with hx | hx
      · exact Or.inl hx
      · exact Or.inr (List.mem_cons_of_mem _ hx)
    · rcases List.mem_cons.mp hx with hx | hx
      · exact Or.inr (hx ▸ List.mem_cons_self ..)
      · rcases ih x hx with h | h
        · exact Or.inl h
        · exact Or.inr (List.mem_cons_of_mem _ h)

/-- what is recorded about a stored cell `(key, signed edge ids)`: it is the closed walk round the pairwise
    different rounded corners `P` of an admissible region, `W` are their vertex ids, every signed id names the
    stored mesh edge of its step, and the key is `-cnum · sign(area of the doubled walk)` -/
def CellRec (ok : List Pt → Prop) (vs : List (Id × Pt)) (es : List (Id × (Id × Id))) (entry : Id × List Id) : Prop :=
  ∃ (P : List Pt) (W : List Id) (n : Int), ok P ∧ 0 < n ∧ P.Nodup ∧ 2 ≤ P.length ∧
    List.Forall₂ (fun k q => (k, q) ∈ vs) W P ∧
    List.Forall₂ (SignedEdge es) entry.2 (openPairs (W ++ W.take 1)) ∧
    entry.1 = -1 * n * areaSign (dupOpen (P ++ P.take 1))

theorem CellRec.mono {ok : List Pt → Prop} {vs vs' : List (Id × Pt)} {es es' : List (Id × (Id × Id))}
    (hv : Ext vs vs') (he : Ext es es') {e : Id × List Id} (h : CellRec ok vs es e) : CellRec ok vs' es' e := by
  obtain ⟨P, W, n, h0, h1, h2, h3, h4, h5, h6⟩ := h
  exact ⟨P, W, n, h0, h1, h2, h3, h4.imp (fun _ _ hm => hv.mem hm), h5.imp (fun _ _ hs => hs.mono he), h6⟩

def GInv (ok : List Pt → Prop) (st : EState) : Prop :=
  SInv st ∧ 0 < st.cnum ∧ ∀ e ∈ st.el.cells, CellRec ok st.el.vertices st.el.edges e

theorem processRegion_ginv (ok : List Pt → Prop) (verts : List Pt) (st : EState) (c : List Int) (h : GInv ok st)
    (hok : ok (corners verts c)) (hn : (corners verts c).Nodup) (h2 : 2 ≤ (corners verts c).length) :
    GInv ok (processRegion verts st c) := by
  obtain ⟨hs, hc, hcells⟩ := h
  refine ⟨processRegion_inv verts st c hs, by show 0 < st.cnum + 1; omega, ?_⟩
  obtain ⟨w0, hw0⟩ : ∃ w0 : Walk, w0 = { vs := st.el.vertices, es := st.el.edges, cellE := [], cellV := [] } := ⟨_, rfl⟩
  have hw0inv : WInv w0 := by rw [hw0]; exact hs
  have hwalk : (openPairs (closeRegion c)).foldl (stepRidge verts) w0
      = walkPts w0 (corners verts c ++ (corners verts c).take 1) := by
    rw [foldl_stepRidge_eq, corners_close]
  obtain ⟨p, t, hpt⟩ : ∃ p t, corners verts c = p :: t := by
    cases hc' : corners verts c with
    | nil => rw [hc'] at h2; simp at h2
    | cons p t => exact ⟨p, t, rfl⟩
  have ht : t ≠ [] := by
    intro e; rw [hpt, e] at h2; simp at h2
  have hclosed : corners verts c ++ (corners verts c).take 1 = p :: (t ++ [p]) := by rw [hpt]; rfl
  rw [hclosed] at hwalk
  obtain ⟨W, E', f1, f2, f3, f4⟩ := region_walk w0 p t hw0inv ht (hpt ▸ hn)
  have hext := walkPts_ext (p :: (t ++ [p])) w0
  have hinv := walkPts_inv (p :: (t ++ [p])) w0 hw0inv
  obtain ⟨w', hw'⟩ : ∃ w', w' = walkPts w0 (p :: (t ++ [p])) := ⟨_, rfl⟩
  rw [← hw'] at f1 f2 f3 f4 hext hinv
  have hcv : w0.cellV = [] := by rw [hw0]
  have hce : w0.cellE = [] := by rw [hw0]
  rw [hcv, List.nil_append] at f2
  rw [hce, List.nil_append] at f3
  have hv0 : w0.vs = st.el.vertices := by rw [hw0]
  have he0 : w0.es = st.el.edges := by rw [hw0]
  -- the new state
  have hst : processRegion verts st c =
      { el := { vertices := w'.vs, edges := w'.es,
                cells := dictSet (-1 * st.cnum * cellAreaSign w'.cellV w'.vs) w'.cellE st.el.cells },
        cnum := st.cnum + 1 } := by
    unfold processRegion
    simp only
    rw [← hw0, hwalk, ← hw']
  rw [hst]
  intro e he
  rcases mem_dictSet _ _ _ e he with rfl | he
  · refine ⟨p :: t, W, st.cnum, hpt ▸ hok, hc, hpt ▸ hn, hpt ▸ h2, f1, by rw [f3]; exact f4, ?_⟩
    show -1 * st.cnum * cellAreaSign w'.cellV w'.vs = _
    congr 1
    unfold cellAreaSign
    have : (w'.cellV.map fun i => (alGet? i w'.vs).getD default) = dupOpen ((p :: t) ++ (p :: t).take 1) := by
      rw [f2]
      show (dupOpen (W ++ W.take 1)).map (ptOf w'.vs) = _
      rw [dupOpen_map, List.map_append, List.map_take, map_ptOf hinv.1 f1]
    rw [this]
  · exact (hcells e he).mono (hv0 ▸ hext.1) (he0 ▸ hext.2)

theorem foldl_stepRegion_ginv (ok : List Pt → Prop) (verts : List Pt) (L : List (List Int)) (st : EState)
    (h : GInv ok st)
    (hL : ∀ c ∈ L, bounded c = true → ok (corners verts c) ∧ (corners verts c).Nodup ∧ 2 ≤ (corners verts c).length) :
    GInv ok (L.foldl (stepRegion verts) st) := by
  induction L generalizing st with
  | nil => exact h
  | cons c L ih =>
    rw [List.foldl_cons]
    apply ih
    · have e : stepRegion verts st c = if bounded c then processRegion verts st c else st := rfl
      rw [e]
      split
      · next hb =>
        obtain ⟨a1, a2, a3⟩ := hL c (List.mem_cons_self ..) hb
        exact processRegion_ginv ok verts st c h a1 a2 a3
      · exact h
    · exact fun c' hc' => hL c' (List.mem_cons_of_mem _ hc')

theorem initState_ginv (ok : List Pt → Prop) : GInv ok initState :=
  ⟨initState_inv, by simp [initState], by intro e he; simp [initState] at he⟩



/-! ### consequences for the stored cells -/

/-- hypothesis "no two corners of a region coincide after rounding" (and a region has at least two corners) -/
def GoodRegions (verts : List Pt) (kept : List (List Int)) : Prop :=
  ∀ c ∈ kept, bounded c = true → (corners verts c).Nodup ∧ 2 ≤ c.length

/-- `P` is the rounded corner list of a bounded region that survived the cut-off -/
def IsRegion (verts : List Pt) (kept : List (List Int)) (P : List Pt) : Prop :=
  ∃ c ∈ kept, bounded c = true ∧ P = corners verts c

theorem elements_ginv (verts : List Pt) (regions : List (List Int)) (md2 : Option Rat)
    (h : GoodRegions verts (removeInfiniteRegions verts md2 regions)) :
    GInv (IsRegion verts (removeInfiniteRegions verts md2 regions)) (elementsState verts regions md2) := by
  apply foldl_stepRegion_ginv _ verts _ _ (initState_ginv _)
  intro c hc hb
  have := h c hc hb
  exact ⟨⟨c, hc, hb, rfl⟩, this.1, by simpa [corners] using this.2⟩

theorem natAbs_keys {β : Type} (d : List (Id × β)) (h : DInv d) :
    d.map (fun p => ((Int.natAbs p.1 : Int), p.2)) = d := by
  have : ∀ p ∈ d, (fun p : Id × β => ((Int.natAbs p.1 : Int), p.2)) p = p := by
    intro p hp
    have h1 : (1 : Int) ≤ p.1 := h.2 p hp
    have e : ((Int.natAbs p.1 : Int)) = p.1 := by omega
    simp [e]
  rw [List.map_congr_left this, List.map_id']

theorem edgeVertex_of_signed (es : List (Id × (Id × Id))) (h : DInv es) (e : Id) (ab : Id × Id)
    (hs : SignedEdge es e ab) : edgeVertex es e = ab.1 := by
  unfold edgeVertex
  rw [natAbs_keys es h]
  rcases hs with ⟨h1, h2⟩ | ⟨h1, h2⟩
  · have h1' : (0 : Int) < e := h1
    have e1 : ((Int.natAbs e : Int)) = e := by omega
    rw [e1, alGet?_of_mem es h.1 _ _ h2]
    simp [h1]
  · have e1 : ((Int.natAbs e : Int)) = -e := Int.ofNat_natAbs_of_nonpos (le_of_lt h1)
    rw [e1, alGet?_of_mem es h.1 _ _ h2]
    have : ¬ (0 < e) := not_lt.mpr (le_of_lt h1)
    simp [this]

theorem forall₂_map_eq {α β γ : Type} {R : α → β → Prop} {f : α → γ} {g : β → γ} (hR : ∀ a b, R a b → f a = g b)
    {l1 : List α} {l2 : List β} (h : List.Forall₂ R l1 l2) : l1.map f = l2.map g := by
  induction h with
  | nil => rfl
  | cons hab _ ih => simp [hR _ _ hab, ih]

theorem openPairs_fst_append {α : Type} (L : List α) (z : α) : (openPairs (L ++ [z])).map Prod.fst = L := by
  induction L with
  | nil => rfl
  | cons a L ih =>
    cases L with
    | nil => rfl
    | cons b L =>
      show a :: (openPairs (b :: L ++ [z])).map Prod.fst = _
      rw [ih]

theorem openPairs_close_fst {α : Type} (W : List α) : (openPairs (W ++ W.take 1)).map Prod.fst = W := by
  cases W with
  | nil => rfl
  | cons a l => exact openPairs_fst_append (a :: l) a

/-- the stored cell is the list of vertex ids of the region's rounded corners, reversed for a negative key -/
theorem cellCycle_of_rec {ok : List Pt → Prop} {vs : List (Id × Pt)} {es : List (Id × (Id × Id))} (hv : DInv vs)
    (he : DInv es) {entry : Id × List Id} (h : CellRec ok vs es entry) :
    ∃ (P : List Pt) (W : List Id) (n : Int), ok P ∧ 0 < n ∧ P.Nodup ∧ List.Forall₂ (fun k q => (k, q) ∈ vs) W P ∧
      entry.1 = -1 * n * areaSign (dupOpen (P ++ P.take 1)) ∧
      cellCycle es entry.1 entry.2 = (if entry.1 < 0 then W.reverse else W) ∧
      (cellCycle es entry.1 entry.2).map (ptOf vs) = (if entry.1 < 0 then P.reverse else P) := by
  obtain ⟨P, W, n, h0, h1, h2, _, h4, h5, h6⟩ := h
  have hW : entry.2.map (edgeVertex es) = W := by
    rw [forall₂_map_eq (fun e ab hs => edgeVertex_of_signed es he e ab hs) h5, openPairs_close_fst]
  have hc : cellCycle es entry.1 entry.2 = (if entry.1 < 0 then W.reverse else W) := by
    unfold cellCycle; simp only [hW]
  refine ⟨P, W, n, h0, h1, h2, h4, h6, hc, ?_⟩
  rw [hc]
  split
  · rw [List.map_reverse, map_ptOf hv h4]
  · exact map_ptOf hv h4

theorem uniform_orientation' (verts : List Pt) (regions : List (List Int)) (md2 : Option Rat)
    (h : GoodRegions verts (removeInfiniteRegions verts md2 regions)) :
    let el := createLatticeElements verts regions md2
    ∀ e ∈ el.cells, e.1 ≠ 0 → areaSign ((cellCycle el.edges e.1 e.2).map (ptOf el.vertices)) = -1 := by
  intro el e he hne
  obtain ⟨hs, _, hcells⟩ := elements_ginv verts regions md2 h
  obtain ⟨P, W, n, _, hn, _, _, hkey, _, hpts⟩ := cellCycle_of_rec hs.1 hs.2.2.1 (hcells e he)
  have hP : areaSign P ≠ 0 := by
    intro h0
    apply hne
    have : areaSign (dupOpen (P ++ P.take 1)) = areaSign P := by unfold areaSign; rw [area_dupOpen_close']
    rw [hkey, this, h0]; simp
  have := orientation_core' P n hn hP
  rw [← hkey] at this
  show areaSign ((cellCycle (createLatticeElements verts regions md2).edges e.1 e.2).map
    (ptOf (createLatticeElements verts regions md2).vertices)) = -1
  have hpts' : (cellCycle (createLatticeElements verts regions md2).edges e.1 e.2).map
      (ptOf (createLatticeElements verts regions md2).vertices) = if e.1 < 0 then P.reverse else P := hpts
  rw [hpts']
  exact this



/-! ### consistency of the lattice through the parser pattern of C09 -/

/-- keys of the cell dictionary have pairwise different absolute values -/
def KInv (st : EState) : Prop :=
  1 ≤ st.cnum ∧ (∀ k ∈ st.el.cells.map (·.1), -st.cnum < k ∧ k < st.cnum) ∧
  ((st.el.cells.map (·.1)).map Int.natAbs).Nodup

theorem processRegion_kinv (verts : List Pt) (st : EState) (c : List Int) (h : KInv st) :
    KInv (processRegion verts st c) := by
  obtain ⟨h1, h2, h3⟩ := h
  unfold processRegion
  simp only
  generalize (List.foldl (stepRidge verts) _ (openPairs (closeRegion c))) = w
  unfold KInv
  simp only [dictSet_keys]
  have hs' : cellAreaSign w.cellV w.vs = 1 ∨ cellAreaSign w.cellV w.vs = -1 ∨ cellAreaSign w.cellV w.vs = 0 :=
    ratSign_cases (area (w.cellV.map fun i => (alGet? i w.vs).getD default))
  generalize cellAreaSign w.cellV w.vs = s at hs'
  refine ⟨by omega, ?_, ?_⟩
  · intro k hk
    split at hk
    · have := h2 k hk; omega
    · rcases List.mem_append.mp hk with hk | hk
      · have := h2 k hk; omega
      · simp at hk; rcases hs' with rfl | rfl | rfl <;> omega
  · split
    · exact h3
    · next hnot =>
      rw [List.map_append, List.nodup_append]
      refine ⟨h3, by simp, ?_⟩
      intro a ha b hb
      simp at hb
      obtain ⟨k, hk, rfl⟩ := List.mem_map.mp ha
      have hk2 := h2 k hk
      rw [hb]
      intro e
      rcases hs' with rfl | rfl | rfl
      · omega
      · omega
      · have : k = 0 := by omega
        exact hnot (by simpa [this] using hk)

theorem elements_kinv (verts : List Pt) (regions : List (List Int)) (md2 : Option Rat) :
    KInv (elementsState verts regions md2) := by
  apply foldl_preserves KInv (stepRegion verts) _ _ _ (by refine ⟨by simp [initState], by simp [initState], by simp [initState]⟩)
  intro st c h
  unfold stepRegion
  split
  · exact processRegion_kinv verts st c h
  · exact h

theorem forall₂_mem_left {α β : Type} {R : α → β → Prop} {l1 : List α} {l2 : List β} (h : List.Forall₂ R l1 l2) :
    ∀ a ∈ l1, ∃ b ∈ l2, R a b := by
  induction h with
  | nil => simp
  | cons hab _ ih =>
    intro a ha
    rcases List.mem_cons.mp ha with rfl | ha
    · exact ⟨_, List.mem_cons_self .., hab⟩
    · obtain ⟨b, hb, hr⟩ := ih a ha; exact ⟨b, List.mem_cons_of_mem _ hb, hr⟩

theorem forall₂_mem_right {α β : Type} {R : α → β → Prop} {l1 : List α} {l2 : List β} (h : List.Forall₂ R l1 l2) :
    ∀ b ∈ l2, ∃ a ∈ l1, R a b := by
  induction h with
  | nil => simp
  | cons hab _ ih =>
    intro b hb
    rcases List.mem_cons.mp hb with rfl | hb
    · exact ⟨_, List.mem_cons_self .., hab⟩
    · obtain ⟨a, ha, hr⟩ := ih b hb; exact ⟨a, List.mem_cons_of_mem _ ha, hr⟩

theorem ids_nodup {vs : List (Id × Pt)} (hv : DInv vs) {W : List Id} {P : List Pt}
    (f : List.Forall₂ (fun k q => (k, q) ∈ vs) W P) (hP : P.Nodup) : W.Nodup := by
  induction f with
  | nil => exact List.nodup_nil
  | cons hkq f' ih =>
    rw [List.nodup_cons] at hP ⊢
    refine ⟨?_, ih hP.2⟩
    intro hk
    obtain ⟨q, hq, hr⟩ := forall₂_mem_left f' _ hk
    exact hP.1 (key_inj hv hkq hr ▸ hq)

theorem cyclicPairs_eq_openPairs {α : Type} (W : List α) : cyclicPairs W = openPairs (W ++ W.take 1) := by
  cases W with
  | nil => rfl
  | cons a l =>
    show List.zip (a :: l) (l ++ [a]) = openPairs (a :: l ++ [a])
    have : ∀ (l : List α) (a z : α), openPairs (a :: l ++ [z]) = List.zip (a :: l) (l ++ [z]) := by
      intro l
      induction l with
      | nil => intro a z; rfl
      | cons b l ih =>
        intro a z
        show (a, b) :: openPairs (b :: l ++ [z]) = (a, b) :: List.zip (b :: l) (l ++ [z])
        rw [ih]
    rw [this]

theorem tess_wf (verts : List Pt) (regions : List (List Int)) (md2 : Option Rat)
    (h : GoodRegions verts (removeInfiniteRegions verts md2 regions)) :
    let el := createLatticeElements verts regions md2
    WFInput (latticeVertices el) (latticeEdges el) (latticeCells el) := by
  intro el
  obtain ⟨hs, _, hcells0⟩ := elements_ginv verts regions md2 h
  have hv : DInv el.vertices := hs.1
  have he : DInv el.edges := hs.2.2.1
  have hloop : NoLoop el.edges := hs.2.2.2.2.1
  have hends : EndsIn el.vertices el.edges := hs.2.2.2.2.2
  have hcells : ∀ e ∈ el.cells, CellRec (IsRegion verts (removeInfiniteRegions verts md2 regions)) el.vertices el.edges e := hcells0
  have hk : 1 ≤ (elementsState verts regions md2).cnum ∧ (∀ k ∈ el.cells.map (·.1), -(elementsState verts regions md2).cnum < k ∧ k < (elementsState verts regions md2).cnum) ∧
      ((el.cells.map (·.1)).map Int.natAbs).Nodup := elements_kinv verts regions md2
  have hvk : (latticeVertices el).map (·.1) = el.vertices.map (·.1) := by
    unfold latticeVertices; rw [List.map_map]; rfl
  have hle : latticeEdges el = el.edges.map fun p => (p.1, p.2.1, p.2.2) := by
    unfold latticeEdges
    conv_rhs => rw [← natAbs_keys el.edges he]
    rw [List.map_map]; rfl
  refine ⟨?_, ?_, ?_, ?_, ?_, ?_⟩
  · rw [hvk]; exact hv.1
  · rw [hle, List.map_map]; exact he.1
  · have : (latticeCells el).map (·.1) = ((el.cells.map (·.1)).map Int.natAbs).map (fun n : Nat => (n : Int)) := by
      unfold latticeCells; simp [List.map_map, Function.comp_def]
    rw [this]
    exact hk.2.2.map (fun a b hab => by exact_mod_cast hab)
  · intro e hee
    rw [hle] at hee
    obtain ⟨p, hp, rfl⟩ := List.mem_map.mp hee
    rw [hvk]
    exact ⟨hloop p hp, hends p hp⟩
  · intro c hc
    obtain ⟨entry, hentry, rfl⟩ := List.mem_map.mp hc
    obtain ⟨P, W, n, _, _, hP, hf, _, hcyc, _⟩ := cellCycle_of_rec hv he (hcells entry hentry)
    have hW := ids_nodup hv hf hP
    have hcyc' : cellCycle el.edges entry.1 entry.2 = if entry.1 < 0 then W.reverse else W := hcyc
    simp only
    rw [hcyc', hvk]
    constructor
    · split
      · exact List.nodup_reverse.mpr hW
      · exact hW
    · intro v hvm
      have hvW : v ∈ W := by
        split at hvm
        · exact List.mem_reverse.mp hvm
        · exact hvm
      obtain ⟨q, _, hr⟩ := forall₂_mem_left hf v hvW
      exact List.mem_map.mpr ⟨_, hr, rfl⟩
  · intro c hc ab hab
    obtain ⟨entry, hentry, rfl⟩ := List.mem_map.mp hc
    obtain ⟨P, W, n, h0, h1, h2, h3, h4, h5, h6⟩ := hcells entry hentry
    obtain ⟨_, _, _, _, _, _, _, _, hcyc, _⟩ := cellCycle_of_rec hv he (hcells entry hentry)
    have hW : entry.2.map (edgeVertex el.edges) = W := by
      rw [forall₂_map_eq (fun e ab hs => edgeVertex_of_signed _ he e ab hs) h5, openPairs_close_fst]
    have hcyc' : cellCycle el.edges entry.1 entry.2 = if entry.1 < 0 then W.reverse else W := by
      unfold cellCycle; simp only [hW]
    simp only at hab
    rw [hcyc'] at hab
    -- every cyclic pair of `W` is joined
    have joinedW : ∀ xy ∈ cyclicPairs W, ∃ e ∈ latticeEdges el,
        (e.2.1 = xy.1 ∧ e.2.2 = xy.2) ∨ (e.2.1 = xy.2 ∧ e.2.2 = xy.1) := by
      intro xy hxy
      rw [cyclicPairs_eq_openPairs] at hxy
      obtain ⟨e, _, hse⟩ := forall₂_mem_right h5 xy hxy
      rw [hle]
      rcases hse with ⟨_, hm⟩ | ⟨_, hm⟩
      · exact ⟨_, List.mem_map.mpr ⟨_, hm, rfl⟩, Or.inl ⟨rfl, rfl⟩⟩
      · exact ⟨_, List.mem_map.mpr ⟨_, hm, rfl⟩, Or.inr ⟨rfl, rfl⟩⟩
    split at hab
    · have hperm := cyclicPairs_reverse_perm' W
      have : ab ∈ (cyclicPairs W).map Prod.swap := hperm.mem_iff.mp hab
      obtain ⟨xy, hxy, rfl⟩ := List.mem_map.mp this
      obtain ⟨e, he', hj⟩ := joinedW xy hxy
      exact ⟨e, he', by rcases hj with hj | hj <;> [exact Or.inr hj; exact Or.inl hj]⟩
    · exact joinedW ab hab

theorem tess_consistent' (verts : List Pt) (regions : List (List Int)) (md2 : Option Rat)
    (h : GoodRegions verts (removeInfiniteRegions verts md2 regions)) :
    let el := createLatticeElements verts regions md2
    (Mesh.ofLists (latticeVertices el) (latticeEdges el) (latticeCells el)).Consistent = true := by
  intro el
  exact ofLists_consistent _ _ _ (tess_wf verts regions md2 h)

end Tess
end Forsys
