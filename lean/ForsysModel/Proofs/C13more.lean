import ForsysModel.Model.TimeSeries
import ForsysModel.Model.FMatrix
import ForsysModel.Proofs.C13
import ForsysModel.Proofs.C13relabel
import Mathlib.Tactic.Ring
import Mathlib.Tactic.FieldSimp
import Mathlib.Algebra.Order.Field.Rat
import Mathlib.Data.List.Perm.Basic

namespace Forsys

/-- apply `g` to every position and `h` to the time stamp of a frame; ids untouched -/
def TFrame.mapPT (g : Pt → Pt) (h : Rat → Rat) (f : TFrame) : TFrame :=
  ⟨h f.time, f.verts.map fun v => ⟨v.id, g v.p⟩⟩

/-- apply `φ` to the vector of a successful result, exceptions unchanged -/
def VelResult.map (φ : Vec → Vec) : VelResult → VelResult
  | .ok v => .ok (φ v)
  | .differentTissue => .differentTissue
  | .keyError => .keyError
  | .attributeError => .attributeError

namespace C13m

theorem pos?_mapPT (g : Pt → Pt) (h : Rat → Rat) (f : TFrame) (k : Id) :
    (f.mapPT g h).pos? k = (f.pos? k).map g := by
  obtain ⟨τ, vs⟩ := f
  simp only [TFrame.pos?, TFrame.mapPT]
  induction vs with
  | nil => rfl
  | cons v vs ih =>
    simp only [List.map_cons, List.find?_cons]
    by_cases hv : (v.id == k) = true
    · simp [hv]
    · simp only [hv]; exact ih

theorem calculateVelocity_mapPT (g : Pt → Pt) (h : Rat → Rat) (φ : Vec → Vec) (hφ : φ ⟨0, 0⟩ = ⟨0, 0⟩)
    (H : ∀ (p0 p1 : Pt) (τ0 τ1 : Rat),
      (⟨((g p1).x - (g p0).x) / (h τ1 - h τ0), ((g p1).y - (g p0).y) / (h τ1 - h τ0)⟩ : Vec)
        = φ ⟨(p1.x - p0.x) / (τ1 - τ0), (p1.y - p0.y) / (τ1 - τ0)⟩)
    (frames : List TFrame) (maps : List (Option StepMap)) (p : Id) (t : Nat) :
    calculateVelocity (frames.map (TFrame.mapPT g h)) maps p t = (calculateVelocity frames maps p t).map φ := by
  unfold calculateVelocity
  simp only [List.getElem?_map, List.length_map]
  cases hf0 : frames[t]? with
  | none => rfl
  | some f0 =>
    simp only [Option.map_some, pos?_mapPT]
    cases hp0 : f0.pos? p with
    | none => rfl
    | some p0 =>
      simp only [Option.map_some]
      generalize (if t = frames.length - 1 then t - 1 else t + 1) = tt1
      generalize (if t = frames.length - 1 then t - 1 else t) = stepIdx
      by_cases hnone : (maps.getD stepIdx none).isNone = true
      · rw [if_pos hnone, if_pos hnone]; rfl
      · rw [if_neg hnone, if_neg hnone]
        cases hf1 : frames[tt1]? with
        | none => rfl
        | some f1 =>
          simp only [Option.map_some, pos?_mapPT]
          cases getPointIdByMap maps p t tt1 with
          | error e => cases e <;> simp [VelResult.map, hφ]
          | ok o =>
            cases o with
            | none => simp [VelResult.map, hφ]
            | some q =>
              cases hp1 : f1.pos? q with
              | none => simp [VelResult.map, hφ, hp1]
              | some p1 => simp [VelResult.map, TFrame.mapPT, H, hp1]

end C13m
end Forsys
