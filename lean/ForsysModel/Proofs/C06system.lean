/- helper definitions and lemmas for Props/C06system.lean: C06 lifted from single tangents to the assembled systems -/
import ForsysModel.Props.C06
import ForsysModel.Props.C01tissue
import ForsysModel.Props.C04system
import ForsysModel.Props.C07matrix
import Mathlib.Tactic.Ring
import Mathlib.Tactic.Linarith
import Mathlib.Tactic.LinearCombination
import Mathlib.Tactic.NormNum
import Mathlib.Tactic.Tauto
import Mathlib.Algebra.Order.Field.Rat
namespace Forsys

/-! ### mapping every vertex position -/

/-- the vertex object moved to `T (x, y)` (id, `ownEdges`, `ownCells` untouched) -/
def Vertex.mapP (T : Pt → Pt) (v : Vertex) : Vertex :=
  { v with x := (T ⟨v.x, v.y⟩).x, y := (T ⟨v.x, v.y⟩).y }

/-- every vertex position mapped by `T`; ids, dictionaries, storage order unchanged -/
def Mesh.mapP (T : Pt → Pt) (m : Mesh) : Mesh :=
  { m with vertices := m.vertices.map fun p => (p.1, p.2.mapP T) }

/-- the tissue mapped by `T`: the mesh and the fitted centres (the circle through mapped points is the mapped circle for
    the similarity maps considered); `cosLimit`, `ignoreFour` unchanged -/
def FMInput.mapP (T : Pt → Pt) (inp : FMInput) : FMInput :=
  { inp with mesh := inp.mesh.mapP T, centers := inp.centers.map T }

/-- the model reads an absent vertex / an absent centre as `default` (Python raises `KeyError` / `IndexError`); a map
    that moves the origin does not commute with that fallback.  `PtsDefined`: every vertex of every interface is a key of
    the vertex dictionary and there is a fitted centre for every interface -/
def FMInput.PtsDefined (inp : FMInput) : Prop :=
  (∀ e ∈ inp.earr, ∀ a ∈ e, (inp.mesh.vertex? a).isSome = true) ∧ inp.earr.length ≤ inp.centers.length

instance (inp : FMInput) : Decidable inp.PtsDefined := by
  unfold FMInput.PtsDefined; infer_instance

/-- the fallback is harmless: `T` fixes the origin, or nothing is read through the fallback -/
def FMInput.GoodFor (T : Pt → Pt) (inp : FMInput) : Prop := T default = default ∨ inp.PtsDefined

/-- every vertex of every cell is a key of the vertex dictionary (clause of `Mesh.refsOk`) -/
def Mesh.CellPtsDefined (m : Mesh) : Prop :=
  ∀ p ∈ m.cells, ∀ a ∈ p.2.verts, (m.vertex? a).isSome = true

instance (m : Mesh) : Decidable m.CellPtsDefined := by
  unfold Mesh.CellPtsDefined; infer_instance

namespace C06s

section lookups
variable (T : Pt → Pt) (m : Mesh)

theorem vertex?_mapP (k : Id) : (m.mapP T).vertex? k = (m.vertex? k).map (Vertex.mapP T) :=
  C07m.alGet?_map_snd (Vertex.mapP T) k m.vertices

theorem ownEdges_mapP : (m.mapP T).ownEdges = m.ownEdges := by
  funext k
  unfold Mesh.ownEdges
  rw [vertex?_mapP]
  cases m.vertex? k <;> rfl

theorem ownCells_mapP : (m.mapP T).ownCells = m.ownCells := by
  funext k
  unfold Mesh.ownCells
  rw [vertex?_mapP]
  cases m.vertex? k <;> rfl

theorem isJunction_mapP : (m.mapP T).isJunction = m.isJunction := by
  funext k
  unfold Mesh.isJunction
  rw [ownEdges_mapP]

theorem cells_mapP : (m.mapP T).cells = m.cells := rfl
theorem edges_mapP : (m.mapP T).edges = m.edges := rfl
theorem cell?_mapP : (m.mapP T).cell? = m.cell? := rfl

theorem pt_mapP_of_isSome (k : Id) (h : (m.vertex? k).isSome = true) : (m.mapP T).pt k = T (m.pt k) := by
  unfold Mesh.pt
  rw [vertex?_mapP]
  cases hv : m.vertex? k with
  | none => rw [hv] at h; simp at h
  | some v => rfl

theorem pt_mapP_of_fix (h0 : T default = default) (k : Id) : (m.mapP T).pt k = T (m.pt k) := by
  unfold Mesh.pt
  rw [vertex?_mapP]
  cases hv : m.vertex? k with
  | none => exact h0.symm
  | some v => rfl

theorem bigEdgesList_mapP : (m.mapP T).bigEdgesList = m.bigEdgesList := by
  unfold Mesh.bigEdgesList
  rw [isJunction_mapP, cells_mapP]

theorem borderEdges_mapP : (m.mapP T).borderEdges = m.borderEdges := by
  funext earr
  unfold Mesh.borderEdges
  rw [ownCells_mapP]

theorem externalEdgesId_mapP : (m.mapP T).externalEdgesId = m.externalEdgesId := by
  funext earr
  unfold Mesh.externalEdgesId
  rw [borderEdges_mapP]

theorem endJunction3_mapP : (m.mapP T).endJunction3 = m.endJunction3 := by
  funext e
  unfold Mesh.endJunction3
  rw [ownCells_mapP]

theorem internalIdx_mapP : (m.mapP T).internalIdx = m.internalIdx := by
  funext earr
  unfold Mesh.internalIdx
  rw [externalEdgesId_mapP, endJunction3_mapP]

theorem bigEdgeExternal_mapP : (m.mapP T).bigEdgeExternal = m.bigEdgeExternal := by
  funext e
  unfold Mesh.bigEdgeExternal
  rw [ownCells_mapP, endJunction3_mapP]

theorem neighboursInCell_mapP : (m.mapP T).neighboursInCell = m.neighboursInCell := by
  funext a b c
  unfold Mesh.neighboursInCell
  rw [cell?_mapP]

theorem bigEdgeOwnCells_mapP : (m.mapP T).bigEdgeOwnCells = m.bigEdgeOwnCells := by
  funext e
  unfold Mesh.bigEdgeOwnCells
  rw [ownCells_mapP, neighboursInCell_mapP]

theorem cellPos_mapP : (m.mapP T).cellPos = m.cellPos := by
  funext c
  unfold Mesh.cellPos
  rw [cells_mapP]

end lookups

/-! ### tangents under a map of the plane -/

section tangents
variable (T : Pt → Pt) (L : Vec → Vec) (hsub : ∀ p q : Pt, Vec.sub (T q) (T p) = L (Vec.sub q p))
include hsub

theorem chordAt_mapT (ids : List Id) (pts : List Pt) (v : Id) :
    chordAt ids (pts.map T) v = (chordAt ids pts v).map fun x => (T x.1, L x.2) := by
  unfold chordAt
  rw [← List.map_reverse]
  rcases ids with _ | ⟨i0, _ | ⟨i1, ids⟩⟩ <;> try rfl
  rcases pts with _ | ⟨p0, _ | ⟨p1, pts⟩⟩ <;> try rfl
  simp only [List.map_cons]
  split
  · simp only [Option.map_some, hsub]
  · generalize (i0 :: i1 :: ids).reverse = r
    generalize (p0 :: p1 :: pts).reverse = q
    rcases r with _ | ⟨j0, _ | ⟨j1, r⟩⟩ <;> try rfl
    rcases q with _ | ⟨q0, _ | ⟨q1, q⟩⟩ <;> try rfl
    simp only [List.map_cons]
    split
    · simp only [Option.map_some, hsub]
    · rfl

theorem vectorFromVertex_mapT (ids : List Id) (pts : List Pt) (c : Pt) (v : Id) :
    vectorFromVertex ids (pts.map T) (T c) v
      = (chordAt ids pts v).map fun x => if ids.length = 2 then L x.2 else tangentVec (T x.1) (T c) (L x.2) := by
  unfold vectorFromVertex
  rw [chordAt_mapT T L hsub, Option.map_map]
  rfl

end tangents

theorem vectorFromVertex_eq (ids : List Id) (pts : List Pt) (c : Pt) (v : Id) :
    vectorFromVertex ids pts c v
      = (chordAt ids pts v).map fun x => if ids.length = 2 then x.2 else tangentVec x.1 c x.2 := rfl

theorem getD_map_of_lt {α β : Type} (f : α → β) (l : List α) (i : Nat) (d : α) (d' : β) (hi : i < l.length) :
    (l.map f).getD i d' = f (l.getD i d) := by
  simp [List.getD_eq_getElem?_getD, List.getElem?_map, List.getElem?_eq_getElem hi]

theorem getD_map_of_fix {α β : Type} (f : α → β) (l : List α) (i : Nat) (d : α) (d' : β) (h0 : f d = d') :
    (l.map f).getD i d' = f (l.getD i d) := by
  simp only [List.getD_eq_getElem?_getD, List.getElem?_map]
  cases l[i]? <;> simp [h0]

section vecAt
variable (T : Pt → Pt) (inp : FMInput)

theorem earr_mapP : (inp.mapP T).earr = inp.earr := bigEdgesList_mapP T inp.mesh

/-- the points of an interface of the mapped tissue are the mapped points -/
theorem pts_mapP (hg : inp.GoodFor T) (e : List Id) (he : e ∈ inp.earr) :
    e.map (inp.mapP T).mesh.pt = (e.map inp.mesh.pt).map T := by
  rw [List.map_map]
  apply List.map_congr_left
  intro a ha
  rcases hg with h0 | hd
  · exact pt_mapP_of_fix T inp.mesh h0 a
  · exact pt_mapP_of_isSome T inp.mesh a (hd.1 e he a ha)

/-- the centre of interface number `i` of the mapped tissue is the mapped centre -/
theorem centre_mapP (hg : inp.GoodFor T) (i : Nat) (hi : i < inp.earr.length) :
    (inp.mapP T).centers.getD i default = T (inp.centers.getD i default) := by
  rcases hg with h0 | hd
  · exact getD_map_of_fix T inp.centers i default default h0
  · exact getD_map_of_lt T inp.centers i default default (by have := hd.2; omega)

/-- `get_vector_from_vertex` on the mapped tissue, in terms of the ORIGINAL end point and chord -/
theorem vecAt_mapP (L : Vec → Vec) (hsub : ∀ p q : Pt, Vec.sub (T q) (T p) = L (Vec.sub q p))
    (hg : inp.GoodFor T) (i : Nat) (v : Id) :
    (inp.mapP T).vecAt inp.earr i v =
      (chordAt (inp.earr.getD i []) ((inp.earr.getD i []).map inp.mesh.pt) v).map fun x =>
        if (inp.earr.getD i []).length = 2 then L x.2
        else tangentVec (T x.1) (T (inp.centers.getD i default)) (L x.2) := by
  unfold FMInput.vecAt
  by_cases hi : i < inp.earr.length
  · have he : inp.earr.getD i [] ∈ inp.earr := by
      rw [List.getD_eq_getElem?_getD, List.getElem?_eq_getElem hi, Option.getD_some]
      exact List.getElem_mem _
    simp only []
    rw [pts_mapP T inp hg _ he, centre_mapP T inp hg i hi, vectorFromVertex_mapT T L hsub]
  · have he : inp.earr.getD i [] = [] := by
      rw [List.getD_eq_getElem?_getD, List.getElem?_eq_none (by omega)]; rfl
    simp only [he]
    rfl

theorem vecAt_eq (earr : List (List Id)) (i : Nat) (v : Id) :
    inp.vecAt earr i v =
      (chordAt (earr.getD i []) ((earr.getD i []).map inp.mesh.pt) v).map fun x =>
        if (earr.getD i []).length = 2 then x.2 else tangentVec x.1 (inp.centers.getD i default) x.2 := rfl

/-- if the chord transforms by `L` and the coded tangent is `L`-equivariant, so is `get_vector_from_vertex` -/
theorem vecAt_mapP_of_equivariant (L : Vec → Vec) (hsub : ∀ p q : Pt, Vec.sub (T q) (T p) = L (Vec.sub q p))
    (htan : ∀ p c ch, tangentVec (T p) (T c) (L ch) = L (tangentVec p c ch))
    (hg : inp.GoodFor T) (i : Nat) (v : Id) :
    (inp.mapP T).vecAt inp.earr i v = (inp.vecAt inp.earr i v).map L := by
  rw [vecAt_mapP T inp L hsub hg, vecAt_eq, Option.map_map]
  congr 1
  funext x
  simp only [Function.comp, htan]
  split <;> rfl

end vecAt

/-! ### angle limit, unknowns, rows -/

theorem allPairs_map {α β : Type} (f : α → β) (l : List α) :
    allPairs (l.map f) = (allPairs l).map (Prod.map f f) := by
  induction l with
  | nil => rfl
  | cons a l ih =>
    simp only [List.map_cons, allPairs, ih, List.map_append, List.map_map]
    rfl

theorem filterMap_opt_map {α β γ : Type} (g : α → Option β) (f : β → γ) (l : List α) :
    (l.filterMap fun i => (g i).map f) = (l.filterMap g).map f := by
  induction l with
  | nil => rfl
  | cons a l ih =>
    simp only [List.filterMap_cons]
    cases g a <;> simp [ih]

theorem setAt_map {α β : Type} (g : α → β) (row : List α) (pos : Nat) (a : α) :
    (FMInput.setAt row pos a).map g = FMInput.setAt (row.map g) pos (g a) := by
  apply List.ext_getElem?
  intro j
  by_cases hj : j < row.length
  · rw [List.getElem?_map, FMInput.setAt_getElem' _ _ _ _ hj,
      FMInput.setAt_getElem' _ _ _ _ (by simpa using hj), List.getElem?_map]
    split <;> rfl
  · rw [List.getElem?_eq_none (by simp [FMInput.setAt_length']; omega),
      List.getElem?_eq_none (by simp [FMInput.setAt_length']; omega)]

theorem foldl_stepQ_map {α β : Type} (g : α → β) (q : Nat → Option Nat) (val : Nat → α) (val' : Nat → β)
    (Ls : List Nat) (hval : ∀ i ∈ Ls, val' i = g (val i)) (row : List α) :
    Ls.foldl (FMInput.stepQ q val') (row.map g) = (Ls.foldl (FMInput.stepQ q val) row).map g := by
  induction Ls generalizing row with
  | nil => rfl
  | cons i Ls ih =>
    simp only [List.foldl_cons]
    have h1 : FMInput.stepQ q val' (row.map g) i = (FMInput.stepQ q val row i).map g := by
      unfold FMInput.stepQ
      cases q i with
      | none => rfl
      | some pos => simp only [setAt_map, hval i List.mem_cons_self]
    rw [h1, ih (fun j hj => hval j (List.mem_cons_of_mem _ hj))]

section build
variable (T : Pt → Pt) (inp : FMInput)

theorem qOf_mapP (earr used : List (List Id)) (vid : Id) :
    FMInput.qOf (inp.mapP T) earr used vid = FMInput.qOf inp earr used vid := by
  funext i
  unfold FMInput.qOf
  show (if (!((inp.mesh.mapP T).bigEdgeExternal (earr.getD i [])) &&
      decide (((inp.mesh.mapP T).ownCells vid).length > 2)) = true then _ else _) = _
  rw [bigEdgeExternal_mapP, ownCells_mapP]

/-- the row of a vertex when every tangent there is transformed by `L` -/
theorem vertexEquation_mapP_of_vecAt (L : Vec → Vec) (earr used : List (List Id)) (vid : Id)
    (hvec : ∀ i ∈ Mesh.ownBigEdges earr vid, (inp.mapP T).vecAt earr i vid = (inp.vecAt earr i vid).map L) :
    (inp.mapP T).vertexEquation earr used vid = (inp.vertexEquation earr used vid).map (Option.map L) := by
  rw [FMInput.vertexEquation_eq_fold, FMInput.vertexEquation_eq_fold, qOf_mapP]
  have h0 : (used.map fun _ => (none : Option Vec)) = (used.map fun _ => (none : Option Vec)).map (Option.map L) := by
    rw [List.map_map]; rfl
  conv_lhs => rw [h0]
  exact foldl_stepQ_map (Option.map L) _ _ _ _ hvec _

theorem exceeds_mapP_of_vecAt (L : Vec → Vec) (hcos : ∀ u w c, cosLe (L u) (L w) c = cosLe u w c)
    (earr : List (List Id)) (vid : Id)
    (hvec : ∀ i ∈ Mesh.ownBigEdges earr vid, (inp.mapP T).vecAt earr i vid = (inp.vecAt earr i vid).map L) :
    (inp.mapP T).exceeds earr vid = inp.exceeds earr vid := by
  unfold FMInput.exceeds
  show (match inp.cosLimit with | none => false | some c => _) = _
  cases inp.cosLimit with
  | none => rfl
  | some c =>
    simp only []
    have h1 : ((Mesh.ownBigEdges earr vid).filterMap fun i => (inp.mapP T).vecAt earr i vid)
        = ((Mesh.ownBigEdges earr vid).filterMap fun i => inp.vecAt earr i vid).map L := by
      rw [← filterMap_opt_map]
      apply List.filterMap_congr
      intro i hi
      exact hvec i hi
    rw [h1, allPairs_map, List.any_map]
    congr 1
    funext ab
    simp only [Function.comp, Prod.map, hcos]

theorem deletes_mapP_no_limit (h : inp.cosLimit = none) (earr : List (List Id)) :
    (inp.mapP T).deletes earr = inp.deletes earr := by
  have hex : ∀ (j : FMInput) (hj : j.cosLimit = none) v, j.exceeds earr v = false := by
    intro j hj v; unfold FMInput.exceeds; rw [hj]
  unfold FMInput.deletes
  simp [hex inp h, hex (inp.mapP T) h]

theorem deletes_mapP_of_vecAt (L : Vec → Vec) (hcos : ∀ u w c, cosLe (L u) (L w) c = cosLe u w c)
    (earr : List (List Id))
    (hvec : ∀ i v, (inp.mapP T).vecAt earr i v = (inp.vecAt earr i v).map L) :
    (inp.mapP T).deletes earr = inp.deletes earr := by
  unfold FMInput.deletes
  show (FMInput.endsOf (((inp.mesh.mapP T).internalIdx earr).map fun i => earr.getD i [])).filter _ = _
  rw [internalIdx_mapP]
  apply List.filter_congr
  intro v _
  exact exceeds_mapP_of_vecAt T inp L hcos earr v (fun i _ => hvec i v)

theorem used_mapP_of_deletes (earr : List (List Id)) (hdel : (inp.mapP T).deletes earr = inp.deletes earr) :
    (inp.mapP T).used earr = inp.used earr := by
  unfold FMInput.used
  show (((inp.mesh.mapP T).internalIdx earr).map fun i => earr.getD i []).filter _ = _
  rw [internalIdx_mapP, hdel]

theorem usedIdx_mapP_of_deletes (earr : List (List Id)) (hdel : (inp.mapP T).deletes earr = inp.deletes earr) :
    (inp.mapP T).usedIdx earr = inp.usedIdx earr := by
  unfold FMInput.usedIdx
  show ((inp.mesh.mapP T).internalIdx earr).filter _ = _
  rw [internalIdx_mapP, hdel]

/-- `_build_matrix` on the mapped tissue when the angle-limited vertices are the same and every tangent is transformed
    by `L`: same interfaces, same unknowns, same candidate junctions; every row entry transformed by `L` -/
theorem build_mapP_of_vecAt (L : Vec → Vec)
    (hdel : (inp.mapP T).deletes inp.earr = inp.deletes inp.earr)
    (hvec : ∀ i v, (inp.mapP T).vecAt inp.earr i v = (inp.vecAt inp.earr i v).map L) :
    (inp.mapP T).build =
      { earr := inp.build.earr, deletes := inp.build.deletes, used := inp.build.used,
        rows := inp.build.rows.map fun r =>
          (r.1, FMInput.keepRow inp.ignoreFour (r.2.2.map (Option.map L)), r.2.2.map (Option.map L)) } := by
  unfold FMInput.build
  simp only [earr_mapP, hdel, used_mapP_of_deletes T inp inp.earr hdel, List.map_map]
  congr 1
  apply List.map_congr_left
  intro v _
  simp only [Function.comp, vertexEquation_mapP_of_vecAt T inp L inp.earr _ v (fun i _ => hvec i v)]
  rfl

end build

/-! ### the stored tangent of a column -/

section tangentAt
open FMInput
variable (T : Pt → Pt) (inp : FMInput)

/-- `tangentAt` is `vecAt` at the position of the column's interface in the interface list -/
theorem tangentAt_eq_vecAt (c : Nat) (v : Id) (hc : c < inp.build.used.length) :
    inp.tangentAt c v = inp.vecAt inp.earr ((inp.usedIdx inp.earr).getD c 0) v := by
  unfold tangentAt vecAt
  rw [build_used, used_getD inp inp.earr c hc]

theorem tangentAt_none (c : Nat) (v : Id) (hc : ¬ c < inp.build.used.length) : inp.tangentAt c v = none := by
  unfold tangentAt
  have : inp.build.used.getD c [] = [] := by
    rw [List.getD_eq_getElem?_getD, List.getElem?_eq_none (by omega)]; rfl
  rw [this]
  rfl

theorem build_used_mapP (hdel : (inp.mapP T).deletes inp.earr = inp.deletes inp.earr) :
    (inp.mapP T).build.used = inp.build.used := by
  rw [build_used, build_used, earr_mapP, used_mapP_of_deletes T inp inp.earr hdel]

theorem tangentAt_mapP_of_vecAt (L : Vec → Vec)
    (hdel : (inp.mapP T).deletes inp.earr = inp.deletes inp.earr) (c : Nat) (v : Id)
    (hvec : (inp.mapP T).vecAt inp.earr ((inp.usedIdx inp.earr).getD c 0) v
      = (inp.vecAt inp.earr ((inp.usedIdx inp.earr).getD c 0) v).map L) :
    (inp.mapP T).tangentAt c v = (inp.tangentAt c v).map L := by
  by_cases hc : c < inp.build.used.length
  · rw [tangentAt_eq_vecAt _ c v (by rw [build_used_mapP T inp hdel]; exact hc), tangentAt_eq_vecAt inp c v hc,
      earr_mapP, usedIdx_mapP_of_deletes T inp inp.earr hdel, hvec]
  · rw [tangentAt_none _ c v (by rw [build_used_mapP T inp hdel]; exact hc), tangentAt_none inp c v hc]
    rfl

end tangentAt

/-! ### translation and change of the length unit -/

section similarity
open FMInput

theorem default_pt : (default : Pt) = ⟨0, 0⟩ := rfl

theorem sub_shiftP (d p q : Pt) : Vec.sub (shiftP d q) (shiftP d p) = id (Vec.sub q p) := by
  apply C06.vec_ext <;> simp only [Vec.sub, shiftP, id] <;> ring

theorem sub_scaleP (s : Rat) (p q : Pt) : Vec.sub (scaleP s q) (scaleP s p) = Vec.smul s (Vec.sub q p) := by
  apply C06.vec_ext <;> simp only [Vec.sub, scaleP, Vec.smul] <;> ring

theorem scaleP_default (s : Rat) : scaleP s default = default := by
  simp [default_pt, scaleP]

theorem cosLe_id (u w : Vec) (c : Rat) : cosLe (id u) (id w) c = cosLe u w c := rfl

theorem cosLe_smul (s : Rat) (hs : 0 < s) (u w : Vec) (c : Rat) :
    cosLe (Vec.smul s u) (Vec.smul s w) c = cosLe u w c := by
  have hss : 0 < s * s := mul_pos hs hs
  have hd : Vec.dot (Vec.smul s u) (Vec.smul s w) = (s * s) * Vec.dot u w := by
    simp only [Vec.dot, Vec.smul]; ring
  have hn : (Vec.smul s u).normSq * (Vec.smul s w).normSq = (s * s) * (s * s) * (u.normSq * w.normSq) := by
    simp only [Vec.normSq, Vec.smul]; ring
  have h1 : ((s * s) * Vec.dot u w ≤ 0) ↔ (Vec.dot u w ≤ 0) := by
    constructor
    · intro h; by_contra hc; have := mul_pos hss (not_le.mp hc); linarith
    · intro h; exact mul_nonpos_of_nonneg_of_nonpos hss.le h
  have h4 : 0 < (s * s) * (s * s) := mul_pos hss hss
  have h2 : ((s * s) * Vec.dot u w * ((s * s) * Vec.dot u w) ≤ c * c * ((s * s) * (s * s) * (u.normSq * w.normSq)))
      ↔ (Vec.dot u w * Vec.dot u w ≤ c * c * (u.normSq * w.normSq)) := by
    have e1 : (s * s) * Vec.dot u w * ((s * s) * Vec.dot u w) = ((s * s) * (s * s)) * (Vec.dot u w * Vec.dot u w) := by ring
    have e2 : c * c * ((s * s) * (s * s) * (u.normSq * w.normSq)) = ((s * s) * (s * s)) * (c * c * (u.normSq * w.normSq)) := by
      ring
    rw [e1, e2]
    exact mul_le_mul_iff_of_pos_left h4
  have h3 : (c * c * ((s * s) * (s * s) * (u.normSq * w.normSq)) ≤ (s * s) * Vec.dot u w * ((s * s) * Vec.dot u w))
      ↔ (c * c * (u.normSq * w.normSq) ≤ Vec.dot u w * Vec.dot u w) := by
    have e1 : (s * s) * Vec.dot u w * ((s * s) * Vec.dot u w) = ((s * s) * (s * s)) * (Vec.dot u w * Vec.dot u w) := by ring
    have e2 : c * c * ((s * s) * (s * s) * (u.normSq * w.normSq)) = ((s * s) * (s * s)) * (c * c * (u.normSq * w.normSq)) := by
      ring
    rw [e1, e2]
    exact mul_le_mul_iff_of_pos_left h4
  unfold cosLe
  simp only [hd, hn, h1, h2, h3]

variable (inp : FMInput)

theorem vecAt_mapP_translate (d : Pt) (hd : inp.PtsDefined) (i : Nat) (v : Id) :
    (inp.mapP (shiftP d)).vecAt inp.earr i v = inp.vecAt inp.earr i v := by
  rw [vecAt_mapP_of_equivariant (shiftP d) inp id (sub_shiftP d) (fun p c ch => tangentVec_translate d p c ch)
    (Or.inr hd)]
  cases inp.vecAt inp.earr i v <;> rfl

theorem vecAt_mapP_scale (s : Rat) (hs : 0 < s) (i : Nat) (v : Id) :
    (inp.mapP (scaleP s)).vecAt inp.earr i v = (inp.vecAt inp.earr i v).map (Vec.smul s) :=
  vecAt_mapP_of_equivariant (scaleP s) inp (Vec.smul s) (sub_scaleP s) (fun p c ch => tangentVec_scale s hs p c ch)
    (Or.inl (scaleP_default s)) i v

theorem deletes_mapP_translate (d : Pt) (hd : inp.PtsDefined) :
    (inp.mapP (shiftP d)).deletes inp.earr = inp.deletes inp.earr := by
  apply deletes_mapP_of_vecAt (shiftP d) inp id cosLe_id
  intro i v
  rw [vecAt_mapP_translate inp d hd]
  cases inp.vecAt inp.earr i v <;> rfl

theorem deletes_mapP_scale (s : Rat) (hs : 0 < s) :
    (inp.mapP (scaleP s)).deletes inp.earr = inp.deletes inp.earr :=
  deletes_mapP_of_vecAt (scaleP s) inp (Vec.smul s) (cosLe_smul s hs) inp.earr (vecAt_mapP_scale inp s hs)

theorem map_option_id (row : List (Option Vec)) : row.map (Option.map id) = row := by
  simp

theorem build_mapP_translate (d : Pt) (hd : inp.PtsDefined) : (inp.mapP (shiftP d)).build = inp.build := by
  rw [build_mapP_of_vecAt (shiftP d) inp id (deletes_mapP_translate inp d hd)]
  · have hrows : (inp.build.rows.map fun r =>
        (r.1, keepRow inp.ignoreFour (r.2.2.map (Option.map id)), r.2.2.map (Option.map id))) = inp.build.rows := by
      conv_rhs => rw [← List.map_id inp.build.rows]
      apply List.map_congr_left
      intro r hr
      obtain ⟨_, h2, h3⟩ := build_row inp r hr
      have hk : keepRow inp.ignoreFour r.2.2 = r.2.1 := by rw [h2, ← h3]
      simp only [map_option_id, hk, id]
    rw [hrows]
  · intro i v
    rw [vecAt_mapP_translate inp d hd]
    cases inp.vecAt inp.earr i v <;> rfl

theorem placed_map_smul (s : Rat) (hs : s ≠ 0) (row : List (Option Vec)) :
    placed (row.map (Option.map (Vec.smul s))) = placed row := by
  unfold placed
  rw [List.filter_map, List.length_map]
  congr 1
  apply List.filter_congr
  intro o _
  cases o with
  | none => rfl
  | some w =>
    simp only [Function.comp, Option.map_some, Vec.smul]
    rw [Bool.eq_iff_iff]
    simp [hs]

theorem keepRow_map_smul (s : Rat) (hs : s ≠ 0) (ig : Bool) (row : List (Option Vec)) :
    keepRow ig (row.map (Option.map (Vec.smul s))) = keepRow ig row := by
  unfold keepRow
  rw [placed_map_smul s hs]

theorem build_mapP_scale (s : Rat) (hs : 0 < s) :
    (inp.mapP (scaleP s)).build =
      { inp.build with rows := inp.build.rows.map fun r => (r.1, r.2.1, r.2.2.map (Option.map (Vec.smul s))) } := by
  rw [build_mapP_of_vecAt (scaleP s) inp (Vec.smul s) (deletes_mapP_scale inp s hs) (vecAt_mapP_scale inp s hs)]
  congr 1
  apply List.map_congr_left
  intro r hr
  obtain ⟨_, h2, h3⟩ := build_row inp r hr
  have hk : keepRow inp.ignoreFour r.2.2 = r.2.1 := by rw [h2, ← h3]
  rw [keepRow_map_smul s hs.ne', hk]

theorem normalisedMatrix_mapP_translate (d : Pt) (hd : inp.PtsDefined) (len : Id → Nat → Rat) :
    normalisedMatrix (inp.mapP (shiftP d)) len = normalisedMatrix inp len := by
  unfold normalisedMatrix rowX rowY
  rw [build_mapP_translate inp d hd]

theorem unit_smul (s ℓ : Rat) (hs : s ≠ 0) (o : Option Vec) :
    unitX (s * ℓ) (o.map (Vec.smul s)) = unitX ℓ o ∧ unitY (s * ℓ) (o.map (Vec.smul s)) = unitY ℓ o := by
  cases o with
  | none => exact ⟨rfl, rfl⟩
  | some w =>
    simp only [Option.map_some, unitX, unitY, Vec.smul]
    exact ⟨mul_div_mul_left _ _ hs, mul_div_mul_left _ _ hs⟩

theorem getD_map_none (row : List (Option Vec)) (L : Vec → Vec) (c : Nat) :
    (row.map (Option.map L)).getD c none = (row.getD c none).map L :=
  getD_map_of_fix (Option.map L) row c none none rfl

theorem normalisedMatrix_mapP_scale (s : Rat) (hs : 0 < s) (len len' : Id → Nat → Rat)
    (hlen : ∀ v c, len' v c = s * len v c) :
    normalisedMatrix (inp.mapP (scaleP s)) len' = normalisedMatrix inp len := by
  unfold normalisedMatrix
  rw [build_mapP_scale inp s hs]
  simp only [List.filter_map, List.flatMap_map]
  have hfil : ((fun r : Id × Bool × List (Option Vec) => r.2.1) ∘
      fun r : Id × Bool × List (Option Vec) => (r.1, r.2.1, r.2.2.map (Option.map (Vec.smul s)))) = fun r => r.2.1 := rfl
  rw [hfil]
  apply List.flatMap_congr
  intro r _
  simp only [rowX, rowY, build_mapP_scale inp s hs, getD_map_none, hlen, (unit_smul s _ hs.ne' _).1,
    (unit_smul s _ hs.ne' _).2]

end similarity

/-! ### orthogonal maps: keep flags -/

section flags
open FMInput

theorem normSq_eq_zero_iff (w : Vec) : w.normSq = 0 ↔ (w.x = 0 ∧ w.y = 0) := by
  unfold Vec.normSq
  constructor
  · intro h
    have h1 : w.x * w.x = 0 := by nlinarith [mul_self_nonneg w.x, mul_self_nonneg w.y]
    have h2 : w.y * w.y = 0 := by nlinarith [mul_self_nonneg w.x, mul_self_nonneg w.y]
    exact ⟨mul_self_eq_zero.mp h1, mul_self_eq_zero.mp h2⟩
  · rintro ⟨h1, h2⟩; rw [h1, h2]; ring

theorem isPlaced_eq_normSq (o : Option Vec) :
    isPlaced o = ((o.map Vec.normSq).map (· != 0)).getD false := by
  cases o with
  | none => rfl
  | some w =>
    simp only [isPlaced, Option.map_some, Option.getD_some]
    rw [Bool.eq_iff_iff]
    simp only [Bool.or_eq_true, bne_iff_ne, ne_eq]
    rw [normSq_eq_zero_iff]
    tauto

theorem isPlaced_congr_normSq (o o' : Option Vec) (h : o'.map Vec.normSq = o.map Vec.normSq) :
    isPlaced o' = isPlaced o := by
  rw [isPlaced_eq_normSq, isPlaced_eq_normSq, h]

variable (T : Pt → Pt) (inp : FMInput)

theorem coefAt_mapP (hdel : (inp.mapP T).deletes inp.earr = inp.deletes inp.earr) (vid : Id) (c : Nat) :
    (inp.mapP T).coefAt inp.earr (inp.used inp.earr) vid c =
      if endsAt ((inp.used inp.earr).getD c []) vid && !(inp.mesh.bigEdgeExternal ((inp.used inp.earr).getD c [])) &&
        decide ((inp.mesh.ownCells vid).length > 2)
      then (inp.mapP T).vecAt inp.earr ((inp.usedIdx inp.earr).getD c 0) vid else none := by
  unfold coefAt
  rw [usedIdx_mapP_of_deletes T inp inp.earr hdel]
  show (if (endsAt _ vid && !((inp.mesh.mapP T).bigEdgeExternal _) && decide (((inp.mesh.mapP T).ownCells vid).length > 2))
    = true then _ else _) = _
  rw [bigEdgeExternal_mapP, ownCells_mapP]

/-- the row filter gives the same verdict when every tangent keeps its length -/
theorem keepRow_mapP_of_normSq (hdel : (inp.mapP T).deletes inp.earr = inp.deletes inp.earr)
    (hns : ∀ i v, ((inp.mapP T).vecAt inp.earr i v).map Vec.normSq = (inp.vecAt inp.earr i v).map Vec.normSq)
    (vid : Id) :
    keepRow inp.ignoreFour ((inp.mapP T).vertexEquation inp.earr (inp.used inp.earr) vid)
      = keepRow inp.ignoreFour (inp.vertexEquation inp.earr (inp.used inp.earr) vid) := by
  have hnd : inp.earr.Nodup := earr_nodup inp
  have hu := used_mapP_of_deletes T inp inp.earr hdel
  have h1 := vertexEquation_eq_map (inp.mapP T) inp.earr vid hnd
  rw [hu] at h1
  rw [h1, vertexEquation_eq_map inp inp.earr vid hnd]
  unfold keepRow
  simp only [placed_eq, List.filter_map, List.length_map]
  have : (isPlaced ∘ (inp.mapP T).coefAt inp.earr (inp.used inp.earr) vid)
      = (isPlaced ∘ inp.coefAt inp.earr (inp.used inp.earr) vid) := by
    funext c
    simp only [Function.comp]
    rw [coefAt_mapP T inp hdel]
    unfold coefAt
    split
    · exact isPlaced_congr_normSq _ _ (hns _ _)
    · rfl
  rw [this]

/-- the candidate junctions with their keep flags are the same; the rows are those of the mapped tissue -/
theorem build_rows_mapP (hdel : (inp.mapP T).deletes inp.earr = inp.deletes inp.earr)
    (hflag : ∀ vid, keepRow inp.ignoreFour ((inp.mapP T).vertexEquation inp.earr (inp.used inp.earr) vid)
      = keepRow inp.ignoreFour (inp.vertexEquation inp.earr (inp.used inp.earr) vid)) :
    (inp.mapP T).build.rows = inp.build.rows.map fun r =>
      (r.1, r.2.1, (inp.mapP T).vertexEquation inp.earr (inp.used inp.earr) r.1) := by
  unfold FMInput.build
  simp only [earr_mapP, used_mapP_of_deletes T inp inp.earr hdel, List.map_map]
  apply List.map_congr_left
  intro v _
  simp only [Function.comp]
  rw [← hflag v]
  rfl

end flags

/-! ### linear maps of the plane -/

/-- the linear map with matrix `(m11 m12; m21 m22)` on vectors (`C06.linP` on points) -/
def linV (m11 m12 m21 m22 : Rat) (v : Vec) : Vec := ⟨m11 * v.x + m12 * v.y, m21 * v.x + m22 * v.y⟩

/-- the same map applied to consecutive (x-row, y-row) pairs of a vector -/
def linPairs (m11 m12 m21 m22 : Rat) : List Rat → List Rat
  | u :: v :: rest => (m11 * u + m12 * v) :: (m21 * u + m22 * v) :: linPairs m11 m12 m21 m22 rest
  | l => l

/-- the columns of the matrix are orthonormal -/
def Orth (m11 m12 m21 m22 : Rat) : Prop :=
  m11 * m11 + m21 * m21 = 1 ∧ m12 * m12 + m22 * m22 = 1 ∧ m11 * m12 + m21 * m22 = 0

section lin
variable (m11 m12 m21 m22 : Rat)

theorem sub_linP (p q : Pt) :
    Vec.sub (C06.linP m11 m12 m21 m22 q) (C06.linP m11 m12 m21 m22 p) = linV m11 m12 m21 m22 (Vec.sub q p) := by
  apply C06.vec_ext <;> simp only [Vec.sub, C06.linP, linV] <;> ring

theorem linP_default : C06.linP m11 m12 m21 m22 default = default := by
  simp [default_pt, C06.linP]

theorem normSq_linV (h : Orth m11 m12 m21 m22) (w : Vec) : (linV m11 m12 m21 m22 w).normSq = w.normSq := by
  obtain ⟨h1, h2, h3⟩ := h
  simp only [Vec.normSq, linV]
  linear_combination (w.x * w.x) * h1 + (w.y * w.y) * h2 + (2 * w.x * w.y) * h3

theorem dot_linV (h : Orth m11 m12 m21 m22) (u w : Vec) :
    Vec.dot (linV m11 m12 m21 m22 u) (linV m11 m12 m21 m22 w) = Vec.dot u w := by
  obtain ⟨h1, h2, h3⟩ := h
  simp only [Vec.dot, linV]
  linear_combination (u.x * w.x) * h1 + (u.y * w.y) * h2 + (u.x * w.y + u.y * w.x) * h3

theorem distSq_linP (h : Orth m11 m12 m21 m22) (p q : Pt) :
    distSq (C06.linP m11 m12 m21 m22 p) (C06.linP m11 m12 m21 m22 q) = distSq p q := by
  obtain ⟨h1, h2, h3⟩ := h
  simp only [distSq, C06.linP]
  linear_combination ((p.x - q.x) * (p.x - q.x)) * h1 + ((p.y - q.y) * (p.y - q.y)) * h2
    + (2 * (p.x - q.x) * (p.y - q.y)) * h3

theorem cosLe_linV (h : Orth m11 m12 m21 m22) (u w : Vec) (c : Rat) :
    cosLe (linV m11 m12 m21 m22 u) (linV m11 m12 m21 m22 w) c = cosLe u w c := by
  unfold cosLe
  simp only [dot_linV m11 m12 m21 m22 h, normSq_linV m11 m12 m21 m22 h]

theorem unit_linV (ℓ : Rat) (o : Option Vec) :
    FMInput.unitX ℓ (o.map (linV m11 m12 m21 m22)) = m11 * FMInput.unitX ℓ o + m12 * FMInput.unitY ℓ o ∧
    FMInput.unitY ℓ (o.map (linV m11 m12 m21 m22)) = m21 * FMInput.unitX ℓ o + m22 * FMInput.unitY ℓ o := by
  cases o with
  | none => simp [FMInput.unitX, FMInput.unitY]
  | some w =>
    simp only [Option.map_some, FMInput.unitX, FMInput.unitY, linV]
    constructor <;> ring

theorem dot_lin (m n : Rat) : ∀ (X Y w : List Rat), X.length = Y.length →
    dot (C06.lin m n X Y) w = m * dot X w + n * dot Y w
  | [], [], w, _ => by simp [C06.lin, dot]
  | x :: X, y :: Y, [], _ => by simp [C06.lin, dot]
  | x :: X, y :: Y, a :: w, h => by
    have ih := dot_lin m n X Y w (by simpa using h)
    simp only [C06.lin, dot, List.zipWith_cons_cons, List.sum_cons] at ih ⊢
    rw [ih]; ring
  | [], _ :: _, _, h => by simp at h
  | _ :: _, [], _, h => by simp at h

theorem mulVec_flatMap_lin {γ : Type} (K : List γ) (X Y : γ → List Rat) (x : List Rat)
    (hl : ∀ r ∈ K, (X r).length = (Y r).length) :
    mulVec (K.flatMap fun r => [C06.lin m11 m12 (X r) (Y r), C06.lin m21 m22 (X r) (Y r)]) x
      = linPairs m11 m12 m21 m22 (mulVec (K.flatMap fun r => [X r, Y r]) x) := by
  induction K with
  | nil => rfl
  | cons k K ih =>
    have hk := hl k List.mem_cons_self
    have ih' := ih (fun r hr => hl r (List.mem_cons_of_mem _ hr))
    simp only [mulVec, List.flatMap_cons, List.map_cons, List.cons_append, List.nil_append, linPairs] at ih' ⊢
    rw [ih', dot_lin m11 m12 _ _ _ hk, dot_lin m21 m22 _ _ _ hk]

theorem normSq_linPairs (h : Orth m11 m12 m21 m22) (r : List Rat) :
    normSq (linPairs m11 m12 m21 m22 r) = normSq r := by
  obtain ⟨h1, h2, h3⟩ := h
  fun_induction linPairs m11 m12 m21 m22 r with
  | case1 u v rest ih =>
    simp only [normSq, dot, List.zipWith_cons_cons, List.sum_cons] at ih ⊢
    rw [ih]
    linear_combination (u * u) * h1 + (v * v) * h2 + (2 * u * v) * h3
  | case2 l _ => rfl

theorem linPairs_length (r : List Rat) : (linPairs m11 m12 m21 m22 r).length = r.length := by
  fun_induction linPairs m11 m12 m21 m22 r with
  | case1 u v rest ih => simp [ih]
  | case2 l _ => rfl

end lin

theorem rotV_eq_linV (a b : Rat) : rotV a b = linV a (-b) b a := by
  funext v; simp only [rotV, linV, sub_eq_add_neg, neg_mul]

theorem rotP_eq_linP (a b : Rat) : rotP a b = C06.linP a (-b) b a := by
  funext p; simp only [rotP, C06.linP, sub_eq_add_neg, neg_mul]

theorem flipV_eq_linV : flipV = linV 1 0 0 (-1) := by
  funext v; simp only [flipV, linV, one_mul, zero_mul, add_zero, zero_add, neg_mul]

theorem flipP_eq_linP : flipP = C06.linP 1 0 0 (-1) := by
  funext p; simp only [flipP, C06.linP, one_mul, zero_mul, add_zero, zero_add, neg_mul]

theorem orth_rot (a b : Rat) (h : a * a + b * b = 1) : Orth a (-b) b a :=
  ⟨h, by linear_combination h, by ring⟩

theorem orth_flip : Orth 1 0 0 (-1) := ⟨by norm_num, by norm_num, by norm_num⟩

theorem rotPairs_eq_linPairs (a b : Rat) (l : List Rat) : rotPairs a b l = linPairs a (-b) b a l := by
  fun_induction rotPairs a b l with
  | case1 u v rest ih => rw [linPairs, ih]; simp only [sub_eq_add_neg, neg_mul]
  | case2 l h =>
    unfold linPairs
    split
    · exact absurd rfl (h _ _ _)
    · rfl

/-! ### orthogonal maps: the matrix -/

section orth
open FMInput
variable (m11 m12 m21 m22 : Rat) (inp : FMInput)

theorem goodFor_linP : inp.GoodFor (C06.linP m11 m12 m21 m22) := Or.inl (linP_default m11 m12 m21 m22)

/-- every tangent keeps its length under an orthogonal map — whatever the coded sign rule does (finding D2 mirrors a
    vector, it does not change its length) -/
theorem vecAt_normSq_linP (h : Orth m11 m12 m21 m22) (i : Nat) (v : Id) :
    ((inp.mapP (C06.linP m11 m12 m21 m22)).vecAt inp.earr i v).map Vec.normSq
      = (inp.vecAt inp.earr i v).map Vec.normSq := by
  rw [vecAt_mapP (C06.linP m11 m12 m21 m22) inp (linV m11 m12 m21 m22) (sub_linP m11 m12 m21 m22)
    (goodFor_linP m11 m12 m21 m22 inp), vecAt_eq, Option.map_map, Option.map_map]
  congr 1
  funext x
  simp only [Function.comp]
  split
  · exact normSq_linV m11 m12 m21 m22 h _
  · rw [tangentVec_normSq, tangentVec_normSq, distSq_linP m11 m12 m21 m22 h]

theorem keepRow_mapP_linP (h : Orth m11 m12 m21 m22)
    (hdel : (inp.mapP (C06.linP m11 m12 m21 m22)).deletes inp.earr = inp.deletes inp.earr) (vid : Id) :
    keepRow inp.ignoreFour ((inp.mapP (C06.linP m11 m12 m21 m22)).vertexEquation inp.earr (inp.used inp.earr) vid)
      = keepRow inp.ignoreFour (inp.vertexEquation inp.earr (inp.used inp.earr) vid) :=
  keepRow_mapP_of_normSq _ inp hdel (vecAt_normSq_linP m11 m12 m21 m22 inp h) vid

theorem build_rows_mapP_linP (h : Orth m11 m12 m21 m22)
    (hdel : (inp.mapP (C06.linP m11 m12 m21 m22)).deletes inp.earr = inp.deletes inp.earr) :
    (inp.mapP (C06.linP m11 m12 m21 m22)).build.rows = inp.build.rows.map fun r =>
      (r.1, r.2.1, (inp.mapP (C06.linP m11 m12 m21 m22)).vertexEquation inp.earr (inp.used inp.earr) r.1) :=
  build_rows_mapP _ inp hdel (keepRow_mapP_linP m11 m12 m21 m22 inp h hdel)

/-- an entry of a kept row of the mapped tissue, when the stored tangents at the kept junctions are transformed by the
    linear map -/
theorem entry_mapP_linP (h : Orth m11 m12 m21 m22)
    (hdel : (inp.mapP (C06.linP m11 m12 m21 m22)).deletes inp.earr = inp.deletes inp.earr)
    (hent : ∀ r ∈ inp.build.rows, r.2.1 = true → ∀ c < inp.build.used.length,
      endsAt (inp.build.used.getD c []) r.1 = true →
        (inp.mapP (C06.linP m11 m12 m21 m22)).tangentAt c r.1 = (inp.tangentAt c r.1).map (linV m11 m12 m21 m22))
    (r : Id × Bool × List (Option Vec)) (hr : r ∈ inp.build.rows) (hk : r.2.1 = true)
    (c : Nat) (hc : c < inp.build.used.length) :
    ((inp.mapP (C06.linP m11 m12 m21 m22)).vertexEquation inp.earr (inp.used inp.earr) r.1).getD c none
      = (r.2.2.getD c none).map (linV m11 m12 m21 m22) := by
  have hu := build_used_mapP (C06.linP m11 m12 m21 m22) inp hdel
  have hr' : (r.1, r.2.1, (inp.mapP (C06.linP m11 m12 m21 m22)).vertexEquation inp.earr (inp.used inp.earr) r.1)
      ∈ (inp.mapP (C06.linP m11 m12 m21 m22)).build.rows := by
    rw [build_rows_mapP_linP m11 m12 m21 m22 inp h hdel]
    exact List.mem_map.mpr ⟨r, hr, rfl⟩
  have h1 := kept_entry (inp.mapP (C06.linP m11 m12 m21 m22)) _ hr' hk c (by rw [hu]; exact hc)
  simp only [hu] at h1
  rw [h1, kept_entry inp r hr hk c hc]
  split
  · next he => exact hent r hr hk c hc he
  · rfl

theorem lin_map_map {γ : Type} (m n : Rat) (l : List γ) (f g : γ → Rat) :
    C06.lin m n (l.map f) (l.map g) = l.map fun c => m * f c + n * g c := by
  simp [C06.lin, List.zipWith_map, List.zipWith_self]

/-- the matrix of the mapped tissue: every junction's (x-row, y-row) pair is the transformed pair -/
theorem normalisedMatrix_mapP_linP (h : Orth m11 m12 m21 m22)
    (hdel : (inp.mapP (C06.linP m11 m12 m21 m22)).deletes inp.earr = inp.deletes inp.earr)
    (hent : ∀ r ∈ inp.build.rows, r.2.1 = true → ∀ c < inp.build.used.length,
      endsAt (inp.build.used.getD c []) r.1 = true →
        (inp.mapP (C06.linP m11 m12 m21 m22)).tangentAt c r.1 = (inp.tangentAt c r.1).map (linV m11 m12 m21 m22))
    (len : Id → Nat → Rat) :
    normalisedMatrix (inp.mapP (C06.linP m11 m12 m21 m22)) len =
      (inp.build.rows.filter fun r => r.2.1).flatMap fun r =>
        [C06.lin m11 m12 (rowX inp len r) (rowY inp len r), C06.lin m21 m22 (rowX inp len r) (rowY inp len r)] := by
  unfold normalisedMatrix
  rw [build_rows_mapP_linP m11 m12 m21 m22 inp h hdel]
  simp only [List.filter_map, List.flatMap_map]
  have hfil : ((fun r : Id × Bool × List (Option Vec) => r.2.1) ∘ fun r : Id × Bool × List (Option Vec) =>
      (r.1, r.2.1, (inp.mapP (C06.linP m11 m12 m21 m22)).vertexEquation inp.earr (inp.used inp.earr) r.1))
      = fun r => r.2.1 := rfl
  rw [hfil]
  apply List.flatMap_congr
  intro r hr
  obtain ⟨hr, hk⟩ := List.mem_filter.mp hr
  have hu := build_used_mapP (C06.linP m11 m12 m21 m22) inp hdel
  simp only [rowX, rowY, hu, lin_map_map]
  have e : ∀ c ∈ List.range inp.build.used.length,
      ((inp.mapP (C06.linP m11 m12 m21 m22)).vertexEquation inp.earr (inp.used inp.earr) r.1).getD c none
        = (r.2.2.getD c none).map (linV m11 m12 m21 m22) :=
    fun c hc => entry_mapP_linP m11 m12 m21 m22 inp h hdel hent r hr hk c (List.mem_range.mp hc)
  congr 1
  · apply List.map_congr_left
    intro c hc
    rw [e c hc, (unit_linV m11 m12 m21 m22 _ _).1]
  · congr 1
    apply List.map_congr_left
    intro c hc
    rw [e c hc, (unit_linV m11 m12 m21 m22 _ _).2]

/-- the matrix of the mapped tissue times a candidate is the transformed residual vector -/
theorem mulVec_mapP_linP (h : Orth m11 m12 m21 m22)
    (hdel : (inp.mapP (C06.linP m11 m12 m21 m22)).deletes inp.earr = inp.deletes inp.earr)
    (hent : ∀ r ∈ inp.build.rows, r.2.1 = true → ∀ c < inp.build.used.length,
      endsAt (inp.build.used.getD c []) r.1 = true →
        (inp.mapP (C06.linP m11 m12 m21 m22)).tangentAt c r.1 = (inp.tangentAt c r.1).map (linV m11 m12 m21 m22))
    (len : Id → Nat → Rat) (x : List Rat) :
    mulVec (normalisedMatrix (inp.mapP (C06.linP m11 m12 m21 m22)) len) x
      = linPairs m11 m12 m21 m22 (mulVec (normalisedMatrix inp len) x) := by
  rw [normalisedMatrix_mapP_linP m11 m12 m21 m22 inp h hdel hent len]
  exact mulVec_flatMap_lin m11 m12 m21 m22 _ (rowX inp len) (rowY inp len) x (fun r _ => by simp [rowX, rowY])

theorem vsub_replicate_zero (u : List Rat) : vsub u (List.replicate u.length 0) = u := by
  induction u with
  | nil => rfl
  | cons a u ih =>
    simp only [vsub, List.length_cons, List.replicate_succ, List.zipWith_cons_cons, sub_zero] at ih ⊢
    rw [ih]

theorem residSq_zero_rhs (M : Mat) (x : List Rat) :
    residSq M (List.replicate M.length 0) x = normSq (mulVec M x) := by
  unfold residSq
  have : M.length = (mulVec M x).length := by simp [mulVec]
  rw [this, vsub_replicate_zero]

theorem normalisedMatrix_length_mapP (T : Pt → Pt)
    (hdel : (inp.mapP T).deletes inp.earr = inp.deletes inp.earr)
    (hflag : ∀ vid, keepRow inp.ignoreFour ((inp.mapP T).vertexEquation inp.earr (inp.used inp.earr) vid)
      = keepRow inp.ignoreFour (inp.vertexEquation inp.earr (inp.used inp.earr) vid))
    (len len' : Id → Nat → Rat) :
    (normalisedMatrix (inp.mapP T) len').length = (normalisedMatrix inp len).length := by
  rw [normalisedMatrix_length, normalisedMatrix_length, build_rows_mapP T inp hdel hflag, List.filter_map,
    List.length_map]
  rfl

/-- the augmented squared residual at a candidate whose multiplier entry is `0` -/
theorem residSq_augmented_mult_zero (A : Mat) (n : Nat) (hw : ∀ r ∈ A, r.length = n) (x : List Rat)
    (hx : x.length = n) :
    residSq (addMeanOne A (List.replicate A.length 0)).1 (addMeanOne A (List.replicate A.length 0)).2 (x ++ [0])
      = normSq (mulVec A x) +
        (dot (List.replicate ((A.head?.map (·.length)).getD 0) (1 : Rat) ++ [0]) (x ++ [0])
            - ((A.head?.map (·.length)).getD 0 : Nat))
        * (dot (List.replicate ((A.head?.map (·.length)).getD 0) (1 : Rat) ++ [0]) (x ++ [0])
            - ((A.head?.map (·.length)).getD 0 : Nat)) := by
  have := C07m.residSq_augmented A (x ++ [0])
  unfold FMInput.augmented at this
  rw [this]
  congr 1
  unfold normSq mulVec
  rw [dot_map_map]
  congr 1
  apply List.map_congr_left
  intro r hr
  rw [C07m.dot_snoc r x 1 0 (by rw [hw r hr, hx])]
  ring

end orth

/-! ### orthogonal maps: the residual -/

section resid
open FMInput
variable (m11 m12 m21 m22 : Rat) (inp : FMInput)

theorem residSq_mapP_linP (h : Orth m11 m12 m21 m22)
    (hdel : (inp.mapP (C06.linP m11 m12 m21 m22)).deletes inp.earr = inp.deletes inp.earr)
    (hent : ∀ r ∈ inp.build.rows, r.2.1 = true → ∀ c < inp.build.used.length,
      endsAt (inp.build.used.getD c []) r.1 = true →
        (inp.mapP (C06.linP m11 m12 m21 m22)).tangentAt c r.1 = (inp.tangentAt c r.1).map (linV m11 m12 m21 m22))
    (len : Id → Nat → Rat) (x : List Rat) :
    residSq (normalisedMatrix (inp.mapP (C06.linP m11 m12 m21 m22)) len)
        (List.replicate (normalisedMatrix (inp.mapP (C06.linP m11 m12 m21 m22)) len).length 0) x
      = residSq (normalisedMatrix inp len) (List.replicate (normalisedMatrix inp len).length 0) x := by
  rw [residSq_zero_rhs, residSq_zero_rhs, mulVec_mapP_linP m11 m12 m21 m22 inp h hdel hent,
    normSq_linPairs m11 m12 m21 m22 h]

theorem head_width_mapP_linP (h : Orth m11 m12 m21 m22)
    (hdel : (inp.mapP (C06.linP m11 m12 m21 m22)).deletes inp.earr = inp.deletes inp.earr)
    (hent : ∀ r ∈ inp.build.rows, r.2.1 = true → ∀ c < inp.build.used.length,
      endsAt (inp.build.used.getD c []) r.1 = true →
        (inp.mapP (C06.linP m11 m12 m21 m22)).tangentAt c r.1 = (inp.tangentAt c r.1).map (linV m11 m12 m21 m22))
    (len : Id → Nat → Rat) :
    (((normalisedMatrix (inp.mapP (C06.linP m11 m12 m21 m22)) len).head?.map (·.length)).getD 0)
      = (((normalisedMatrix inp len).head?.map (·.length)).getD 0) := by
  rw [normalisedMatrix_mapP_linP m11 m12 m21 m22 inp h hdel hent len]
  unfold normalisedMatrix
  rw [C07m.head?_flatMap_pair_length _ _ _ inp.build.used.length
      (fun r => by rw [C06.lin_length _ _ _ _ (by simp [rowX, rowY])]; simp [rowX]),
    C07m.head?_flatMap_pair_length _ _ _ inp.build.used.length (fun r => by simp [rowX])]

/-- the augmented system `add_mean_one` builds, at a candidate whose multiplier entry is `0` -/
theorem residSq_augmented_mapP_linP (h : Orth m11 m12 m21 m22)
    (hdel : (inp.mapP (C06.linP m11 m12 m21 m22)).deletes inp.earr = inp.deletes inp.earr)
    (hent : ∀ r ∈ inp.build.rows, r.2.1 = true → ∀ c < inp.build.used.length,
      endsAt (inp.build.used.getD c []) r.1 = true →
        (inp.mapP (C06.linP m11 m12 m21 m22)).tangentAt c r.1 = (inp.tangentAt c r.1).map (linV m11 m12 m21 m22))
    (len : Id → Nat → Rat) (x : List Rat) (hx : x.length = inp.build.used.length) :
    residSq
        (addMeanOne (normalisedMatrix (inp.mapP (C06.linP m11 m12 m21 m22)) len)
          (List.replicate (normalisedMatrix (inp.mapP (C06.linP m11 m12 m21 m22)) len).length 0)).1
        (addMeanOne (normalisedMatrix (inp.mapP (C06.linP m11 m12 m21 m22)) len)
          (List.replicate (normalisedMatrix (inp.mapP (C06.linP m11 m12 m21 m22)) len).length 0)).2 (x ++ [0])
      = residSq (addMeanOne (normalisedMatrix inp len) (List.replicate (normalisedMatrix inp len).length 0)).1
        (addMeanOne (normalisedMatrix inp len) (List.replicate (normalisedMatrix inp len).length 0)).2 (x ++ [0]) := by
  have hu := build_used_mapP (C06.linP m11 m12 m21 m22) inp hdel
  rw [residSq_augmented_mult_zero _ inp.build.used.length
      (by rw [← hu]; exact normalisedMatrix_width _ len) x hx,
    residSq_augmented_mult_zero _ inp.build.used.length (normalisedMatrix_width inp len) x hx,
    head_width_mapP_linP m11 m12 m21 m22 inp h hdel hent len,
    mulVec_mapP_linP m11 m12 m21 m22 inp h hdel hent, normSq_linPairs m11 m12 m21 m22 h]

end resid

/-! ### where the transformed tangents come from -/

end C06s

namespace FMInput

/-- at every kept junction and every curved (≠ 2 points) interface ending there, the first chord is not radial: the
    true tangent has a non-zero projection on it (it fails exactly when the neighbouring point is the antipode of the
    junction on the circle, `dir_is_circle_tangent_witness`) -/
def ChordsNonRadial (inp : FMInput) : Prop :=
  ∀ r ∈ inp.build.rows, r.2.1 = true → ∀ c, c < inp.build.used.length →
    endsAt (inp.colIds c) r.1 = true → (inp.colIds c).length ≠ 2 →
      ∀ x ∈ chordAt (inp.colIds c) (inp.colPts c) r.1,
        Vec.dot (Vec.perp (Vec.sub x.1 (inp.colCentre c))) x.2 ≠ 0

instance (inp : FMInput) : Decidable (ChordsNonRadial inp) := by
  unfold ChordsNonRadial; infer_instance

/-- at every kept junction and every curved interface ending there, neither component of the first chord vanishes -/
def ChordsOblique (inp : FMInput) : Prop :=
  ∀ r ∈ inp.build.rows, r.2.1 = true → ∀ c, c < inp.build.used.length →
    endsAt (inp.colIds c) r.1 = true → (inp.colIds c).length ≠ 2 →
      ∀ x ∈ chordAt (inp.colIds c) (inp.colPts c) r.1, x.2.x ≠ 0 ∧ x.2.y ≠ 0

instance (inp : FMInput) : Decidable (ChordsOblique inp) := by
  unfold ChordsOblique; infer_instance

end FMInput

namespace C06s

section hent
open FMInput
variable (T : Pt → Pt) (L : Vec → Vec) (hsub : ∀ p q : Pt, Vec.sub (T q) (T p) = L (Vec.sub q p)) (inp : FMInput)

theorem tangentAt_eq_chord (c : Nat) (v : Id) :
    inp.tangentAt c v = (chordAt (inp.colIds c) (inp.colPts c) v).map fun x =>
      if (inp.colIds c).length = 2 then x.2 else tangentVec x.1 (inp.colCentre c) x.2 := rfl

include hsub

/-- the stored tangent of the mapped tissue, in terms of the ORIGINAL end point and chord -/
theorem tangentAt_mapP_chord (hg : inp.GoodFor T) (hdel : (inp.mapP T).deletes inp.earr = inp.deletes inp.earr)
    (c : Nat) (v : Id) :
    (inp.mapP T).tangentAt c v = (chordAt (inp.colIds c) (inp.colPts c) v).map fun x =>
      if (inp.colIds c).length = 2 then L x.2 else tangentVec (T x.1) (T (inp.colCentre c)) (L x.2) := by
  by_cases hc : c < inp.build.used.length
  · rw [tangentAt_eq_vecAt _ c v (by rw [build_used_mapP T inp hdel]; exact hc), earr_mapP,
      usedIdx_mapP_of_deletes T inp inp.earr hdel, vecAt_mapP T inp L hsub hg,
      ← used_getD inp inp.earr c hc]
    rfl
  · rw [tangentAt_none _ c v (by rw [build_used_mapP T inp hdel]; exact hc)]
    have : inp.colIds c = [] := by
      show inp.build.used.getD c [] = []
      rw [List.getD_eq_getElem?_getD, List.getElem?_eq_none (by omega)]; rfl
    rw [this]
    rfl

/-- pointwise equivariance of the coded tangent at the kept junctions gives `hent` -/
theorem tangentAt_mapP_of_pointwise (hg : inp.GoodFor T)
    (hdel : (inp.mapP T).deletes inp.earr = inp.deletes inp.earr)
    (c : Nat) (v : Id)
    (hpt : (inp.colIds c).length ≠ 2 → ∀ x ∈ chordAt (inp.colIds c) (inp.colPts c) v,
      tangentVec (T x.1) (T (inp.colCentre c)) (L x.2) = L (tangentVec x.1 (inp.colCentre c) x.2)) :
    (inp.mapP T).tangentAt c v = (inp.tangentAt c v).map L := by
  rw [tangentAt_mapP_chord T L hsub inp hg hdel, tangentAt_eq_chord, Option.map_map]
  cases hx : chordAt (inp.colIds c) (inp.colPts c) v with
  | none => rfl
  | some x =>
    simp only [Option.map_some, Function.comp]
    by_cases h2 : (inp.colIds c).length = 2
    · rw [if_pos h2, if_pos h2]
    · rw [if_neg h2, if_neg h2, hpt h2 x (by rw [hx]; rfl)]

/-- what `SignsAgree` of the mapped tissue says, in terms of the original end points and chords -/
theorem signsAgree_mapP (hg : inp.GoodFor T)
    (hdel : (inp.mapP T).deletes inp.earr = inp.deletes inp.earr)
    (hflag : ∀ vid, keepRow inp.ignoreFour ((inp.mapP T).vertexEquation inp.earr (inp.used inp.earr) vid)
      = keepRow inp.ignoreFour (inp.vertexEquation inp.earr (inp.used inp.earr) vid))
    (hS' : SignsAgree (inp.mapP T)) :
    ∀ r ∈ inp.build.rows, r.2.1 = true → ∀ c, c < inp.build.used.length →
      endsAt (inp.colIds c) r.1 = true → (inp.colIds c).length ≠ 2 →
        ∀ x ∈ chordAt (inp.colIds c) (inp.colPts c) r.1, SignOK (T x.1) (T (inp.colCentre c)) (L x.2) := by
  intro r hr hk c hc he h3 x hx
  have hu := build_used_mapP T inp hdel
  have hr' : (r.1, r.2.1, (inp.mapP T).vertexEquation inp.earr (inp.used inp.earr) r.1)
      ∈ (inp.mapP T).build.rows := by
    rw [build_rows_mapP T inp hdel hflag]
    exact List.mem_map.mpr ⟨r, hr, rfl⟩
  have hids : (inp.mapP T).colIds c = inp.colIds c := by
    show (inp.mapP T).build.used.getD c [] = inp.build.used.getD c []
    rw [hu]
  have hmem : inp.colIds c ∈ inp.earr := by
    apply C07m.used_sub inp inp.earr
    show inp.build.used.getD c [] ∈ inp.build.used
    rw [List.getD_eq_getElem?_getD, List.getElem?_eq_getElem hc, Option.getD_some]
    exact List.getElem_mem _
  have hpts : (inp.mapP T).colPts c = (inp.colPts c).map T := by
    show ((inp.mapP T).colIds c).map (inp.mapP T).mesh.pt = _
    rw [hids]
    exact pts_mapP T inp hg _ hmem
  have hidx : (inp.usedIdx inp.earr).getD c 0 < inp.earr.length := by
    apply mem_usedIdx_lt inp inp.earr
    have hc' : c < (inp.usedIdx inp.earr).length := by rw [usedIdx_length]; exact hc
    rw [List.getD_eq_getElem?_getD, List.getElem?_eq_getElem hc', Option.getD_some]
    exact List.getElem_mem _
  have hctr : (inp.mapP T).colCentre c = T (inp.colCentre c) := by
    show (inp.mapP T).centers.getD (((inp.mapP T).usedIdx (inp.mapP T).earr).getD c 0) default = _
    rw [earr_mapP, usedIdx_mapP_of_deletes T inp inp.earr hdel]
    exact centre_mapP T inp hg _ hidx
  have := hS' _ hr' hk c (by rw [hu]; exact hc) (by rw [hids]; exact he) (by rw [hids]; exact h3)
    (T x.1, L x.2) (by
      rw [hids, hpts, chordAt_mapT T L hsub]
      have hx' : chordAt (inp.colIds c) (inp.colPts c) r.1 = some x := hx
      rw [hx']; rfl)
  rw [hctr] at this
  exact this

end hent

/-! ### the pressure system -/

section pressure
variable (T : Pt → Pt) (m : Mesh)

theorem alGet?_mem {β : Type} (k : Id) (l : List (Id × β)) (b : β) (h : alGet? k l = some b) : (k, b) ∈ l := by
  induction l with
  | nil => simp [alGet?] at h
  | cons p l ih =>
    obtain ⟨k', v⟩ := p
    unfold alGet? at h
    split at h
    · next e => simp only [Option.some.injEq] at h; subst h; subst e; exact List.mem_cons_self
    · exact List.mem_cons_of_mem _ (ih h)

/-- the stored cycle of a cell of the mapped mesh is the mapped cycle -/
theorem cellCycle_mapP (hg : T default = default ∨ m.CellPtsDefined) (a : Id) :
    (m.mapP T).cellCycle a = (m.cellCycle a).map T := by
  unfold Mesh.cellCycle
  rw [cell?_mapP]
  cases hc : m.cell? a with
  | none => rfl
  | some cl =>
    simp only [List.map_map]
    apply List.map_congr_left
    intro v hv
    rcases hg with h0 | hd
    · exact pt_mapP_of_fix T m h0 v
    · exact pt_mapP_of_isSome T m v (hd (a, cl) (alGet?_mem a m.cells cl hc) v hv)

/-- the assembled system reads the positions only through the area signs of the stored cycles -/
theorem system_mapP_of_sign (tens curv : List Rat)
    (hsign : ∀ a, areaSign ((m.mapP T).cellCycle a) = areaSign (m.cellCycle a)) :
    (m.mapP T).pressureSystem tens curv = m.pressureSystem tens curv := by
  unfold Mesh.pressureSystem Mesh.interfaceRow
  simp only [bigEdgesList_mapP, internalIdx_mapP, bigEdgeOwnCells_mapP, cellPos_mapP, cells_mapP, hsign]

theorem ratSign_neg (q : Rat) : ratSign (-q) = - ratSign q := by
  rcases C06.ratSign_cases' q with ⟨h, e⟩ | ⟨h, e⟩ | ⟨h, e⟩
  · rcases C06.ratSign_cases' (-q) with ⟨h', e'⟩ | ⟨h', e'⟩ | ⟨h', e'⟩
    · linarith
    · rw [e, e']
    · linarith
  · rcases C06.ratSign_cases' (-q) with ⟨h', e'⟩ | ⟨h', e'⟩ | ⟨h', e'⟩
    · rw [e, e']; rfl
    · linarith
    · linarith
  · subst h; simp [ratSign]

theorem ratSign_mul_pos (k q : Rat) (hk : 0 < k) : ratSign (k * q) = ratSign q := by
  rcases C06.ratSign_cases' q with ⟨h, e⟩ | ⟨h, e⟩ | ⟨h, e⟩
  · rcases C06.ratSign_cases' (k * q) with ⟨h', e'⟩ | ⟨h', e'⟩ | ⟨h', e'⟩
    · rw [e, e']
    · have := mul_pos hk h; linarith
    · have := mul_pos hk h; linarith
  · rcases C06.ratSign_cases' (k * q) with ⟨h', e'⟩ | ⟨h', e'⟩ | ⟨h', e'⟩
    · have := mul_neg_of_pos_of_neg hk h; linarith
    · rw [e, e']
    · have := mul_neg_of_pos_of_neg hk h; linarith
  · subst h; simp

theorem areaSign_shiftP (d : Pt) (ps : List Pt) : areaSign (ps.map (shiftP d)) = areaSign ps := by
  unfold areaSign
  have := area_translate d ps
  unfold translate at this
  have e : (fun p : Pt => (⟨p.x + d.x, p.y + d.y⟩ : Pt)) = shiftP d := rfl
  rw [e] at this
  rw [this]

theorem areaSign_scaleP (s : Rat) (hs : 0 < s) (ps : List Pt) : areaSign (ps.map (scaleP s)) = areaSign ps := by
  unfold areaSign
  have := area_scale s ps
  unfold scale at this
  have e : (fun p : Pt => (⟨s * p.x, s * p.y⟩ : Pt)) = scaleP s := rfl
  rw [e] at this
  rw [this, ratSign_mul_pos _ _ (mul_pos hs hs)]

theorem areaSign_rotP (a b : Rat) (h : a * a + b * b = 1) (ps : List Pt) :
    areaSign (ps.map (rotP a b)) = areaSign ps := by
  unfold areaSign
  rw [area_rotP a b h]

theorem areaSign_flipP (ps : List Pt) : areaSign (ps.map flipP) = - areaSign ps := by
  unfold areaSign
  rw [area_flipP, ratSign_neg]

theorem pressureRow_neg_sign (n A B : Nat) (σ : Int) (hσ : σ = 1 ∨ σ = -1) :
    pressureRow n A B (-σ) = (pressureRow n A B σ).map (- ·) := by
  unfold pressureRow
  rw [List.map_map]
  apply List.map_congr_left
  intro i _
  simp only [Function.comp]
  rcases hσ with rfl | rfl
  · simp only [show ¬ ((0 : Int) < -1) by decide, show (0 : Int) < 1 by decide, if_true, if_false]
    split
    · simp
    · split <;> simp
  · simp only [show ¬ ((0 : Int) < -1) by decide, show (0 : Int) < - -1 by decide, if_true, if_false]
    split
    · simp
    · split <;> simp

theorem removedColumns_neg (Lm : Mat) (n : Nat) :
    removedColumns (Lm.map fun r => r.map (- ·)) n = removedColumns Lm n := by
  unfold removedColumns
  apply List.filter_congr
  intro j _
  rw [List.all_map]
  congr 1
  funext r
  simp only [Function.comp]
  rw [getD_map_of_fix (fun x : Rat => -x) r j 0 0 (by simp)]
  rw [Bool.eq_iff_iff]
  simp

/-- reflection: every row and every right-hand side negated (turnings negated, area of the sign-carrying cell of every
    equation non-zero) -/
theorem system_mapP_flip (tens curv : List Rat)
    (harea : ∀ i ∈ m.internalIdx m.bigEdgesList,
      area (m.cellCycle ((m.bigEdgeOwnCells (m.bigEdgesList.getD i [])).getD 0 0)) ≠ 0) :
    (m.mapP flipP).pressureSystem tens (curv.map (- ·)) =
      { m.pressureSystem tens curv with
        lhs := (m.pressureSystem tens curv).lhs.map (fun r => r.map (- ·)),
        rhs := (m.pressureSystem tens curv).rhs.map (- ·) } := by
  have h0 : flipP default = default := by simp [default_pt, flipP]
  have hL : ((m.mapP flipP).pressureSystem tens (curv.map (- ·))).lhs
      = (m.pressureSystem tens curv).lhs.map (fun r => r.map (- ·)) := by
    rw [C04s.lhs_eq, C04s.lhs_eq, bigEdgesList_mapP, internalIdx_mapP, List.map_map]
    apply List.map_congr_left
    intro i hi
    simp only [Function.comp]
    unfold Mesh.interfaceRow
    simp only [bigEdgeOwnCells_mapP, cellPos_mapP, cells_mapP, cellCycle_mapP flipP m (Or.inl h0), areaSign_flipP]
    apply pressureRow_neg_sign
    have := (C04s.ratSign_cast _ (harea i hi)).2
    exact this
  apply C04s.PSystem_ext
  · show (m.mapP flipP).internalIdx (m.mapP flipP).bigEdgesList = m.internalIdx m.bigEdgesList
    rw [bigEdgesList_mapP, internalIdx_mapP]
  · show ((m.mapP flipP).pressureSystem tens (curv.map (- ·))).ownCellCounts = (m.pressureSystem tens curv).ownCellCounts
    rw [C04s.ownCellCounts_eq, C04s.ownCellCounts_eq, bigEdgesList_mapP, internalIdx_mapP, bigEdgeOwnCells_mapP]
  · exact hL
  · show ((m.mapP flipP).pressureSystem tens (curv.map (- ·))).rhs = (m.pressureSystem tens curv).rhs.map (- ·)
    rw [C04s.rhs_eq, C04s.rhs_eq, bigEdgesList_mapP, internalIdx_mapP, List.map_map]
    apply List.map_congr_left
    intro i _
    simp only [Function.comp, pressureRhs]
    rw [getD_map_of_fix (fun x : Rat => -x) curv i 0 0 (by simp)]
    ring
  · show ((m.mapP flipP).pressureSystem tens (curv.map (- ·))).removed = (m.pressureSystem tens curv).removed
    rw [C04s.removed_eq, C04s.removed_eq, hL, removedColumns_neg]
    rfl

theorem mulVec_neg_rows (Lm : Mat) (p : List Rat) :
    mulVec (Lm.map fun r => r.map (- ·)) p = (mulVec Lm p).map (- ·) := by
  unfold mulVec
  rw [List.map_map, List.map_map]
  apply List.map_congr_left
  intro r _
  exact C04s.dot_map_neg r p

theorem map_neg_inj (u w : List Rat) : u.map (- ·) = w.map (- ·) ↔ u = w := by
  constructor
  · intro h
    have := congrArg (List.map (fun x : Rat => -x)) h
    simpa [List.map_map, Function.comp_def] using this
  · intro h; rw [h]

end pressure

end C06s
end Forsys
