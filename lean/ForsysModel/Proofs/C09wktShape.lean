/-
  Helper lemmas for Props/C09wkt.lean — shape of the lattice `wkt.create_lattice` builds, for *all* rows:
  numbering, vertex identification, edge de-duplication, cell cycles.  No hypothesis on the rows.

  Method: an invariant `Shp.Shape` of the state between two rows (with the list of rows already read),
  kept by `row` (`Shp.shape_row`), through spec lemmas for `internRow` and `edgeLoop`.  Everything about
  vertices is stated on `Shp.vcore m` (key, id, x, y of every stored vertex), which `mkEdge` / `mkCell`
  leave unchanged and on which `Mesh.pt` alone depends.
-/
import ForsysModel.Model.Wkt
import ForsysModel.Proofs.C09

namespace Forsys.Wkt
open Mesh

namespace Shp

/-! ### the part of the vertex dictionary the ownEdges / ownCells updates leave alone -/

abbrev VCore := Id × Id × Rat × Rat

def core (p : Id × Vertex) : VCore := (p.1, p.2.id, p.2.x, p.2.y)
def vcore (m : Mesh) : List VCore := m.vertices.map core

theorem vcore_keys (m : Mesh) : (vcore m).map (·.1) = m.vertices.map (·.1) := by
  simp [vcore, List.map_map, Function.comp_def, core]

def ptOf : Option (Id × Rat × Rat) → Pt
  | some (_, x, y) => ⟨x, y⟩
  | none => default

theorem alGet?_map_snd {β γ : Type} (g : β → γ) (k : Id) (l : List (Id × β)) :
    alGet? k (l.map fun p => (p.1, g p.2)) = (alGet? k l).map g := by
  induction l with
  | nil => simp [alGet?]
  | cons p r ih =>
    obtain ⟨k', v'⟩ := p
    simp only [List.map_cons, alGet?]
    split <;> simp_all

theorem pt_eq (m : Mesh) (k : Id) : m.pt k = ptOf (alGet? k (vcore m)) := by
  have : alGet? k (vcore m) = (alGet? k m.vertices).map (fun v : Vertex => (v.id, v.x, v.y)) :=
    alGet?_map_snd (fun v : Vertex => (v.id, v.x, v.y)) k m.vertices
  rw [this]
  unfold Mesh.pt Mesh.vertex?
  cases alGet? k m.vertices <;> simp [ptOf]

theorem pt_congr {m m' : Mesh} (h : vcore m' = vcore m) : m'.pt = m.pt := by
  funext k; rw [pt_eq, pt_eq, h]

theorem pt_ext {m m' : Mesh} {ext : List VCore} (h : vcore m' = vcore m ++ ext) {k : Id}
    (hk : k ∈ m.vertices.map (·.1)) : m'.pt k = m.pt k := by
  rw [pt_eq, pt_eq, h, alGet?_append]
  rw [← vcore_keys, ← alGet?_isSome_iff] at hk
  cases hh : alGet? k (vcore m) with
  | none => simp [hh] at hk
  | some v => simp

theorem pt_of_mem {m : Mesh} (hnd : ((vcore m).map (·.1)).Nodup) {c : VCore} (hc : c ∈ vcore m) :
    m.pt c.1 = ⟨c.2.2.1, c.2.2.2⟩ := by
  have : alGet? c.1 (vcore m) = some c.2 := alGet?_of_mem hnd hc
  rw [pt_eq, this]; rfl

/-- an update of `ownEdges` / `ownCells` -/
def Keeps (f : Vertex → Vertex) : Prop := ∀ v, (f v).id = v.id ∧ (f v).x = v.x ∧ (f v).y = v.y

theorem updVertex_vcore (m : Mesh) (k : Id) (f : Vertex → Vertex) (hf : Keeps f) :
    vcore (m.updVertex k f) = vcore m := by
  simp only [vcore, updVertex_vertices, List.map_map]
  apply List.map_congr_left
  rintro ⟨k', v⟩ _
  by_cases h : k' = k <;> simp [core, h, (hf v).1, (hf v).2.1, (hf v).2.2]

theorem foldl_updVertex_keep (f : Vertex → Vertex) (hf : Keeps f) (vs : List Id) (m : Mesh) :
    vcore (vs.foldl (fun m v => m.updVertex v f) m) = vcore m ∧
    (vs.foldl (fun m v => m.updVertex v f) m).edges = m.edges ∧
    (vs.foldl (fun m v => m.updVertex v f) m).cells = m.cells := by
  induction vs generalizing m with
  | nil => simp
  | cons v vs ih =>
    simp only [List.foldl_cons]
    obtain ⟨h1, h2, h3⟩ := ih (m.updVertex v f)
    exact ⟨h1.trans (updVertex_vcore m v f hf), h2, h3⟩

theorem keeps_addEdgeTo (k : Id) : Keeps (addEdgeTo · k) := by
  intro v; show (addEdgeTo v k).id = _ ∧ (addEdgeTo v k).x = _ ∧ (addEdgeTo v k).y = _
  unfold addEdgeTo; split <;> simp

theorem keeps_addCellTo (k : Id) : Keeps (addCellTo · k) := by
  intro v; show (addCellTo v k).id = _ ∧ (addCellTo v k).x = _ ∧ (addCellTo v k).y = _
  unfold addCellTo; split <;> simp

theorem mkEdge_vcore (m : Mesh) (k a b : Id) : vcore (m.mkEdge k a b) = vcore m := by
  show vcore ((m.updVertex a (addEdgeTo · k)).updVertex b (addEdgeTo · k)) = _
  rw [updVertex_vcore _ _ _ (keeps_addEdgeTo k), updVertex_vcore _ _ _ (keeps_addEdgeTo k)]

theorem mkCell_vcore (m : Mesh) (k : Id) (vs : List Id) : vcore (m.mkCell k vs) = vcore m :=
  (foldl_updVertex_keep _ (keeps_addCellTo k) vs m).1

theorem mkCell_edges' (m : Mesh) (k : Id) (vs : List Id) : (m.mkCell k vs).edges = m.edges :=
  (foldl_updVertex_keep _ (keeps_addCellTo k) vs m).2.1

theorem mkCell_cells' (m : Mesh) (k : Id) (vs : List Id) :
    (m.mkCell k vs).cells = (m.cells.filter fun p => p.1 != k) ++ [(k, { id := k, verts := vs })] := by
  show ((vs.foldl (fun m v => m.updVertex v (addCellTo · k)) m).cells.filter _) ++ _ = _
  rw [(foldl_updVertex_keep _ (keeps_addCellTo k) vs m).2.2]

theorem mkVertex_vcore (m : Mesh) (k : Id) (x y : Rat) (hk : k ∉ m.vertices.map (·.1)) :
    vcore (m.mkVertex k x y) = vcore m ++ [(k, k, x, y)] := by
  simp [mkVertex, filter_ne_of_not_mem_keys _ _ hk, vcore, core]


/-! ### vertices -/

structure VInv (l : List VCore) (vn : Nat) : Prop where
  keys : l.map (·.1) = (List.range vn).map (fun (i : Nat) => (i : Int))
  ids : ∀ c ∈ l, c.2.1 = c.1
  inj : l.Pairwise (fun a b => ¬ (a.2.2.1 = b.2.2.1 ∧ a.2.2.2 = b.2.2.2))

theorem range_cast_nodup (n : Nat) : ((List.range n).map (fun (i : Nat) => (i : Int))).Nodup := by
  apply List.Pairwise.map _ _ (List.nodup_range (n := n))
  intro a b hab h
  exact hab (by exact_mod_cast h)

theorem not_mem_range_cast (n : Nat) : (n : Int) ∉ (List.range n).map (fun (i : Nat) => (i : Int)) := by
  simp only [List.mem_map, List.mem_range, not_exists, not_and]
  intro x hx h
  omega

theorem VInv.nodup {l : List VCore} {vn : Nat} (h : VInv l vn) : (l.map (·.1)).Nodup := by
  rw [h.keys]; exact range_cast_nodup vn

theorem VInv.not_mem {l : List VCore} {vn : Nat} (h : VInv l vn) : (vn : Int) ∉ l.map (·.1) := by
  rw [h.keys]; exact not_mem_range_cast vn

theorem VInv.snoc {l : List VCore} {vn : Nat} (h : VInv l vn) (x y : Rat)
    (hnew : ∀ c ∈ l, ¬ (x = c.2.2.1 ∧ y = c.2.2.2)) :
    VInv (l ++ [((vn : Int), (vn : Int), x, y)]) (vn + 1) := by
  refine ⟨?_, ?_, ?_⟩
  · simp [List.range_succ, h.keys]
  · intro c hc
    rcases List.mem_append.mp hc with hc | hc
    · exact h.ids c hc
    · simp only [List.mem_singleton] at hc; subst hc; rfl
  · refine List.pairwise_append.mpr ⟨h.inj, List.pairwise_singleton _ _, ?_⟩
    intro a ha b hb
    simp only [List.mem_singleton] at hb; subst hb
    intro hh
    exact hnew a ha ⟨hh.1.symm, hh.2.symm⟩

theorem isVertexCreated_some {flip : Rat → Rat} {p : Pt} {m : Mesh} {k : Id}
    (h : isVertexCreated flip p m.vertices = some k) :
    ∃ c ∈ vcore m, c.2.1 = k ∧ c.2.2.1 = p.x ∧ c.2.2.2 = flip p.y := by
  unfold isVertexCreated at h
  split at h
  · rename_i q hq
    have hmem := List.mem_of_find?_eq_some hq
    have hp := List.find?_some hq
    simp only [Bool.and_eq_true, beq_iff_eq] at hp
    simp only [Option.some.injEq] at h
    exact ⟨core q, List.mem_map.mpr ⟨q, hmem, rfl⟩, h, hp.1.symm, hp.2.symm⟩
  · simp at h

theorem isVertexCreated_none {flip : Rat → Rat} {p : Pt} {m : Mesh}
    (h : isVertexCreated flip p m.vertices = none) :
    ∀ c ∈ vcore m, ¬ (p.x = c.2.2.1 ∧ flip p.y = c.2.2.2) := by
  unfold isVertexCreated at h
  split at h
  · simp at h
  · rename_i hq
    intro c hc
    obtain ⟨q, hq', rfl⟩ := List.mem_map.mp hc
    have := List.find?_eq_none.mp hq q hq'
    simpa [core] using this

structure InternSpec (flip : Rat → Rat) (m : Mesh) (ps : List Pt) (r : Mesh × Nat × List Id) : Prop where
  v : VInv (vcore r.1) r.2.1
  edges : r.1.edges = m.edges
  cells : r.1.cells = m.cells
  ext : ∃ ext, vcore r.1 = vcore m ++ ext
  arr : r.2.2.map r.1.pt = ps.map (flipPt flip)
  mem : ∀ v ∈ r.2.2, v ∈ r.1.vertices.map (·.1)

theorem keys_mono {m m' : Mesh} {ext : List VCore} (h : vcore m' = vcore m ++ ext) {k : Id}
    (hk : k ∈ m.vertices.map (·.1)) : k ∈ m'.vertices.map (·.1) := by
  rw [← vcore_keys] at hk ⊢
  rw [h, List.map_append]
  exact List.mem_append_left _ hk

theorem internRow_spec (flip : Rat → Rat) (ps : List Pt) : ∀ (m : Mesh) (vn : Nat), VInv (vcore m) vn →
    InternSpec flip m ps (internRow flip m vn ps) := by
  induction ps with
  | nil =>
    intro m vn h
    exact ⟨h, rfl, rfl, ⟨[], by simp [internRow]⟩, rfl, by simp [internRow]⟩
  | cons p ps ih =>
    intro m vn h
    cases hiv : isVertexCreated flip p m.vertices with
    | some k =>
      obtain ⟨c, hc, hck, hcx, hcy⟩ := isVertexCreated_some hiv
      have hk1 : c.1 = k := by rw [← h.ids c hc]; exact hck
      have hkm : k ∈ m.vertices.map (·.1) := by
        rw [← vcore_keys, ← hk1]; exact List.mem_map.mpr ⟨c, hc, rfl⟩
      have hpt : m.pt k = flipPt flip p := by
        rw [← hk1, pt_of_mem h.nodup hc, hcx, hcy]; rfl
      have ih' := ih m vn h
      obtain ⟨ext, hext⟩ := ih'.ext
      simp only [internRow, hiv]
      refine ⟨ih'.v, ih'.edges, ih'.cells, ⟨ext, hext⟩, ?_, ?_⟩
      · simp only [List.map_cons, ih'.arr, pt_ext hext hkm, hpt]
      · intro v hv
        rcases List.mem_cons.mp hv with rfl | hv
        · exact keys_mono hext hkm
        · exact ih'.mem v hv
    | none =>
      have hnew := isVertexCreated_none hiv
      have hnm : (vn : Int) ∉ m.vertices.map (·.1) := by rw [← vcore_keys]; exact h.not_mem
      have hvc := mkVertex_vcore m (vn : Int) p.x (flip p.y) hnm
      have h1 : VInv (vcore (m.mkVertex (vn : Int) p.x (flip p.y))) (vn + 1) := by
        rw [hvc]; exact h.snoc _ _ hnew
      have ih' := ih _ _ h1
      obtain ⟨ext, hext⟩ := ih'.ext
      have hkm : (vn : Int) ∈ (m.mkVertex (vn : Int) p.x (flip p.y)).vertices.map (·.1) := by
        rw [← vcore_keys, hvc]; simp
      have hpt : (m.mkVertex (vn : Int) p.x (flip p.y)).pt (vn : Int) = flipPt flip p := by
        have := pt_of_mem (m := m.mkVertex (vn : Int) p.x (flip p.y)) (c := ((vn : Int), (vn : Int), p.x, flip p.y))
          h1.nodup (by rw [hvc]; simp)
        rw [this]; rfl
      simp only [internRow, hiv]
      refine ⟨ih'.v, ih'.edges, ih'.cells, ⟨[((vn : Int), (vn : Int), p.x, flip p.y)] ++ ext, ?_⟩, ?_, ?_⟩
      · rw [hext, hvc, List.append_assoc]
      · simp only [List.map_cons, ih'.arr, pt_ext hext hkm, hpt]
      · intro v hv
        rcases List.mem_cons.mp hv with rfl | hv
        · exact keys_mono hext hkm
        · exact ih'.mem v hv


/-! ### mesh edges -/

structure EInv (es : List (Id × SEdge)) (en : Nat) (edArr : List (Id × Id)) : Prop where
  keys : es.map (·.1) = (List.range en).map (fun (i : Nat) => (i : Int))
  edarr : edArr = es.map (fun e => (e.2.v1, e.2.v2))
  proper : ∀ ab ∈ edArr, ab.1 ≠ ab.2
  uniq : edArr.Pairwise (fun a b => a ≠ b ∧ a ≠ (b.2, b.1))

theorem EInv.snoc {es : List (Id × SEdge)} {en : Nat} {ed : List (Id × Id)} (h : EInv es en ed) {i j : Id}
    (h1 : (i, j) ∉ ed) (h2 : (j, i) ∉ ed) (hij : i ≠ j) :
    EInv ((es.filter fun p => p.1 != (en : Int)) ++ [((en : Int), { id := (en : Int), v1 := i, v2 := j })])
      (en + 1) (ed ++ [(i, j)]) := by
  have hnm : (en : Int) ∉ es.map (·.1) := by rw [h.keys]; exact not_mem_range_cast en
  rw [filter_ne_of_not_mem_keys _ _ hnm]
  refine ⟨?_, ?_, ?_, ?_⟩
  · simp [List.range_succ, h.keys]
  · simp [h.edarr]
  · intro ab hab
    rcases List.mem_append.mp hab with hab | hab
    · exact h.proper ab hab
    · simp only [List.mem_singleton] at hab; subst hab; exact hij
  · refine List.pairwise_append.mpr ⟨h.uniq, List.pairwise_singleton _ _, ?_⟩
    intro a ha b hb
    simp only [List.mem_singleton] at hb; subst hb
    exact ⟨fun e => h1 (e ▸ ha), fun e => h2 (e ▸ ha)⟩

theorem edgeLoop_spec (ps : List (Id × Id)) : ∀ (m : Mesh) (en : Nat) (ed : List (Id × Id))
    (m' : Mesh) (en' : Nat) (ed' : List (Id × Id)),
    EInv m.edges en ed → edgeLoop m en ed ps = .ok (m', en', ed') →
    EInv m'.edges en' ed' ∧ vcore m' = vcore m ∧ m'.cells = m.cells := by
  induction ps with
  | nil =>
    intro m en ed m' en' ed' h he
    simp only [edgeLoop, Except.ok.injEq, Prod.mk.injEq] at he
    obtain ⟨rfl, rfl, rfl⟩ := he
    exact ⟨h, rfl, rfl⟩
  | cons ij ps ih =>
    intro m en ed m' en' ed' h he
    obtain ⟨i, j⟩ := ij
    simp only [edgeLoop] at he
    split at he
    · exact ih _ _ _ _ _ _ h he
    · rename_i hc
      simp only [Bool.or_eq_true, List.contains_iff_mem, not_or] at hc
      split at he
      · simp at he
      · rename_i hij
        have h1 : EInv (m.mkEdge (en : Int) i j).edges (en + 1) (ed ++ [(i, j)]) := by
          rw [mkEdge_edges]; exact h.snoc hc.1 hc.2 hij
        obtain ⟨a, b, c⟩ := ih _ _ _ _ _ _ h1 he
        exact ⟨a, b.trans (mkEdge_vcore _ _ _ _), c⟩

/-! ### the state between two rows -/

structure Shape (flip : Rat → Rat) (s : State) (done : List (List Pt)) : Prop where
  v : VInv (vcore s.mesh) s.verticesNumber
  e : EInv s.mesh.edges s.edgesNumber s.edArr
  ckeys : s.mesh.cells.map (·.1) = (List.range s.cellsNumber).map (fun (i : Nat) => (i : Int))
  cnum : s.cellsNumber = done.length
  cref : ∀ c ∈ s.mesh.cells, ∀ v ∈ c.2.verts, v ∈ s.mesh.vertices.map (·.1)
  cyc : s.mesh.cells.map (fun c => c.2.verts.map s.mesh.pt) = done.map (fun r => r.map (flipPt flip))

theorem shape_init (flip : Rat → Rat) : Shape flip State.init [] := by
  refine ⟨⟨rfl, ?_, ?_⟩, ⟨rfl, rfl, ?_, ?_⟩, rfl, rfl, ?_, rfl⟩ <;>
    simp [State.init, Mesh.empty, vcore]

theorem shape_row (flip : Rat → Rat) (s s' : State) (done : List (List Pt)) (r : List Pt)
    (h : Shape flip s done) (hr : row flip s r = .ok s') : Shape flip s' (done ++ [r]) := by
  have hi := internRow_spec flip r s.mesh s.verticesNumber h.v
  unfold row at hr
  simp only at hr
  split at hr
  · simp at hr
  · rename_i m2 en ed hel
    split at hr
    · simp at hr
    · simp only [Except.ok.injEq] at hr
      subst hr
      obtain ⟨he, hvc, hcl⟩ := edgeLoop_spec _ _ _ _ _ _ _ (by rw [hi.edges]; exact h.e) hel
      obtain ⟨ext, hext⟩ := hi.ext
      have hvc2 : vcore (m2.mkCell (s.cellsNumber : Int) (internRow flip s.mesh s.verticesNumber r).2.2)
          = vcore (internRow flip s.mesh s.verticesNumber r).1 := (mkCell_vcore _ _ _).trans hvc
      have hkeys : (m2.mkCell (s.cellsNumber : Int) (internRow flip s.mesh s.verticesNumber r).2.2).vertices.map (·.1)
          = (internRow flip s.mesh s.verticesNumber r).1.vertices.map (·.1) := by
        rw [← vcore_keys, ← vcore_keys, hvc2]
      have hnm : (s.cellsNumber : Int) ∉ m2.cells.map (·.1) := by
        rw [hcl, hi.cells, h.ckeys]; exact not_mem_range_cast _
      have hcells : (m2.mkCell (s.cellsNumber : Int) (internRow flip s.mesh s.verticesNumber r).2.2).cells
          = s.mesh.cells ++ [((s.cellsNumber : Int),
              { id := (s.cellsNumber : Int), verts := (internRow flip s.mesh s.verticesNumber r).2.2 })] := by
        rw [mkCell_cells', filter_ne_of_not_mem_keys _ _ hnm, hcl, hi.cells]
      refine ⟨?_, ?_, ?_, ?_, ?_, ?_⟩
      · show VInv (vcore (m2.mkCell _ _)) _
        rw [hvc2]; exact hi.v
      · show EInv (m2.mkCell _ _).edges _ _
        rw [mkCell_edges']; exact he
      · show (m2.mkCell _ _).cells.map (·.1) = _
        rw [hcells]; simp [List.range_succ, h.ckeys]
      · show s.cellsNumber + 1 = _
        simp [h.cnum]
      · show ∀ c ∈ (m2.mkCell _ _).cells, ∀ v ∈ c.2.verts, v ∈ (m2.mkCell _ _).vertices.map (·.1)
        rw [hcells, hkeys]
        intro c hc v hv
        rcases List.mem_append.mp hc with hc | hc
        · exact keys_mono hext (h.cref c hc v hv)
        · simp only [List.mem_singleton] at hc; subst hc
          exact hi.mem v hv
      · dsimp only
        rw [hcells, pt_congr hvc2, List.map_append, List.map_append, ← h.cyc]
        congr 1
        · apply List.map_congr_left
          intro c hc
          apply List.map_congr_left
          intro v hv
          exact pt_ext hext (h.cref c hc v hv)
        · simp [hi.arr]

theorem shape_rows (flip : Rat → Rat) (rs : List (List Pt)) : ∀ (s s' : State) (done : List (List Pt)),
    Shape flip s done → rows flip s rs = .ok s' → Shape flip s' (done ++ rs) := by
  induction rs with
  | nil =>
    intro s s' done h hr
    simp only [rows, Except.ok.injEq] at hr
    subst hr; simpa using h
  | cons r rs ih =>
    intro s s' done h hr
    simp only [rows] at hr
    split at hr
    · simp at hr
    · rename_i s1 hrow
      have := ih s1 s' (done ++ [r]) (shape_row flip s s1 done r h hrow) hr
      simpa using this

theorem shape_lattice {flip : Rat → Rat} {rs : List (List Pt)} {m : Mesh} (h : latticeWith flip rs = .ok m) :
    ∃ s, s.mesh = m ∧ Shape flip s rs := by
  unfold latticeWith at h
  split at h
  · simp at h
  · rename_i s hs
    simp only [Except.ok.injEq] at h
    exact ⟨s, h, by simpa using shape_rows flip rs _ _ [] (shape_init flip) hs⟩


theorem pairwise_forall {α : Type} {R : α → α → Prop} (hs : ∀ a b, R a b → R b a) {l : List α}
    (h : l.Pairwise R) : ∀ a ∈ l, ∀ b ∈ l, a = b ∨ R a b := by
  induction l with
  | nil => intro a ha; simp at ha
  | cons x l ih =>
    rw [List.pairwise_cons] at h
    intro a ha b hb
    rcases List.mem_cons.mp ha with ha' | ha' <;> rcases List.mem_cons.mp hb with hb' | hb'
    · exact .inl (ha'.trans hb'.symm)
    · exact .inr (ha' ▸ h.1 b hb')
    · exact .inr (hs _ _ (hb' ▸ h.1 a ha'))
    · exact ih h.2 a ha' b hb'

theorem length_of_keys {β : Type} {l : List (Id × β)} {n : Nat}
    (h : l.map (·.1) = (List.range n).map (fun (i : Nat) => (i : Int))) : l.length = n := by
  have := congrArg List.length h
  simpa using this

end Shp

open Shp

theorem wkt_keys' (flip : Rat → Rat) (rs : List (List Pt)) (m : Mesh) (h : latticeWith flip rs = .ok m) :
    m.vertices.map (·.1) = (List.range m.vertices.length).map (fun (i : Nat) => (i : Int)) ∧
    (∀ p ∈ m.vertices, p.2.id = p.1) ∧
    m.edges.map (·.1) = (List.range m.edges.length).map (fun (i : Nat) => (i : Int)) ∧
    m.cells.map (·.1) = (List.range rs.length).map (fun (i : Nat) => (i : Int)) := by
  obtain ⟨s, rfl, hs⟩ := shape_lattice h
  have hvk := hs.v.keys
  rw [vcore_keys] at hvk
  refine ⟨?_, ?_, ?_, ?_⟩
  · rw [length_of_keys hvk]; exact hvk
  · intro p hp
    exact hs.v.ids (core p) (List.mem_map.mpr ⟨p, hp, rfl⟩)
  · rw [length_of_keys hs.e.keys]; exact hs.e.keys
  · rw [← hs.cnum]; exact hs.ckeys

theorem wkt_vertices_injective' (flip : Rat → Rat) (rs : List (List Pt)) (m : Mesh)
    (h : latticeWith flip rs = .ok m) :
    ∀ p ∈ m.vertices, ∀ q ∈ m.vertices, p.2.x = q.2.x → p.2.y = q.2.y → p.1 = q.1 := by
  obtain ⟨s, rfl, hs⟩ := shape_lattice h
  intro p hp q hq hx hy
  have := pairwise_forall (fun a b hab hba => hab ⟨hba.1.symm, hba.2.symm⟩) hs.v.inj
    (core p) (List.mem_map.mpr ⟨p, hp, rfl⟩) (core q) (List.mem_map.mpr ⟨q, hq, rfl⟩)
  rcases this with this | this
  · exact congrArg (·.1) this
  · exact absurd ⟨hx, hy⟩ this

theorem wkt_edges_proper' (flip : Rat → Rat) (rs : List (List Pt)) (m : Mesh)
    (h : latticeWith flip rs = .ok m) :
    ∀ e ∈ m.edges, e.2.v1 ≠ e.2.v2 := by
  obtain ⟨s, rfl, hs⟩ := shape_lattice h
  intro e he
  apply hs.e.proper (e.2.v1, e.2.v2)
  rw [hs.e.edarr]
  exact List.mem_map.mpr ⟨e, he, rfl⟩

theorem wkt_edges_unique' (flip : Rat → Rat) (rs : List (List Pt)) (m : Mesh)
    (h : latticeWith flip rs = .ok m) :
    ∀ e ∈ m.edges, ∀ f ∈ m.edges,
      ((e.2.v1 = f.2.v1 ∧ e.2.v2 = f.2.v2) ∨ (e.2.v1 = f.2.v2 ∧ e.2.v2 = f.2.v1)) → e.1 = f.1 := by
  obtain ⟨s, rfl, hs⟩ := shape_lattice h
  intro e he f hf hef
  have hu := hs.e.uniq
  rw [hs.e.edarr, List.pairwise_map] at hu
  have := pairwise_forall (R := fun (a b : Id × SEdge) =>
      (a.2.v1, a.2.v2) ≠ (b.2.v1, b.2.v2) ∧ (a.2.v1, a.2.v2) ≠ ((b.2.v1, b.2.v2).2, (b.2.v1, b.2.v2).1))
    (by
      intro a b hab
      refine ⟨fun e => hab.1 e.symm, fun e => hab.2 ?_⟩
      simp only [Prod.mk.injEq] at e ⊢
      exact ⟨e.2.symm, e.1.symm⟩) hu e he f hf
  rcases this with this | this
  · rw [this]
  · exfalso
    rcases hef with hef | hef
    · exact this.1 (by rw [hef.1, hef.2])
    · exact this.2 (by simp only [hef.1, hef.2])

theorem wkt_cell_cycles' (flip : Rat → Rat) (rs : List (List Pt)) (m : Mesh)
    (h : latticeWith flip rs = .ok m) :
    m.cells.map (fun c => c.2.verts.map m.pt) = rs.map (fun r => r.map (flipPt flip)) := by
  obtain ⟨s, rfl, hs⟩ := shape_lattice h
  exact hs.cyc


end Forsys.Wkt
