/- definitions and helper lemmas for Props/C12relabel.lean: `create_mapping` run on renumbered frames -/
import ForsysModel.Model.TimeSeries
import ForsysModel.Proofs.C12
import ForsysModel.Proofs.C13relabel
namespace Forsys

/-- a vertex whose id is renamed by `g`; the position is kept -/
def TVert.mapV (g : Id → Id) (v : TVert) : TVert := ⟨g v.id, v.p⟩

/-- the pool (interface end points) of frame `t` renamed by `σ t`, element by element: storage order kept -/
def relabelPools (σ : Nat → Id → Id) (pools : List (List TVert)) : List (List TVert) :=
  pools.mapIdx fun t p => p.map (TVert.mapV (σ t))

/-- the user-supplied guess of step `t` (frame `t` → `t+1`) renamed by `(σ t, σ (t+1))` -/
def relabelGuesses (σ : Nat → Id → Id) (guesses : List StepMap) : List StepMap :=
  guesses.mapIdx fun t m => m.mapV (σ t) (σ (t + 1))

/-- the step maps `TimeSeries.__post_init__` builds: `mapping[t] = create_mapping(frame t, frame t+1, initial_guess[t])`
    for `t = 0 … n-2`, `None` when DifferentTissueException is raised.  `pools[t]` = interface end points of frame `t`
    in dictionary order, `guesses[t]` = `initial_guess[t]` (`{}` when absent). -/
def mapsOf (s0 cutoff maxDiff : Rat) (pools : List (List TVert)) (guesses : List StepMap) : List (Option StepMap) :=
  (List.range (pools.length - 1)).map fun t =>
    createMapping s0 cutoff maxDiff (pools.getD t []) (pools.getD (t + 1) []) (guesses.getD t [])

namespace C12r

/-! ### find_best -/

theorem map_mapV_p (g : Id → Id) (l : List TVert) (φ : Pt → Rat) :
    (l.map (TVert.mapV g)).map (fun v => φ v.p) = l.map (fun v => φ v.p) := by
  simp [List.map_map, Function.comp_def, TVert.mapV]

theorem map_mapV_id (g : Id → Id) (l : List TVert) :
    (l.map (TVert.mapV g)).map (·.id) = (l.map (·.id)).map g := by
  simp [List.map_map, Function.comp_def, TVert.mapV]

/-- membership of a renamed id among the renamed taken values -/
theorem contains_map (h : Id → Id) (found : List (Option Id)) (a : Id)
    (H : ∀ x, some x ∈ found → h x = h a → x = a) :
    (found.map (Option.map h)).contains (some (h a)) = found.contains (some a) := by
  induction found with
  | nil => rfl
  | cons o found ih =>
    have ih' := ih (fun x hx => H x (List.mem_cons_of_mem _ hx))
    simp only [List.map_cons, List.contains_cons, ih']
    congr 1
    cases o with
    | none => simp
    | some x =>
      by_cases e : x = a
      · subst e; simp
      · have : ¬ h x = h a := fun e' => e (H x (by simp) e')
        have e2 : ¬ a = x := fun e' => e e'.symm
        have this2 : ¬ h a = h x := fun e' => this e'.symm
        simp [e2, this2]

theorem within_mapV (h : Id → Id) (v0 : Pt) (ms : Rat) (found : List (Option Id)) (pool : List TVert)
    (H : ∀ v ∈ pool, ∀ x, some x ∈ found → h x = h v.id → x = v.id) :
    within v0 ms (found.map (Option.map h)) (pool.map (TVert.mapV h))
      = (within v0 ms found pool).map (TVert.mapV h) := by
  unfold within
  rw [List.filter_map]
  congr 1
  apply List.filter_congr
  intro v hv
  simp only [Function.comp, TVert.mapV]
  rw [contains_map h found v.id (H v hv)]
  rfl

theorem loopObverse_mapV (h : Id → Id) (maxcoord : Rat) (v0 : Pt) (found : List (Option Id)) (pool : List TVert)
    (H : ∀ v ∈ pool, ∀ x, some x ∈ found → h x = h v.id → x = v.id) :
    ∀ (sp : List Rat) (c : List TVert) (ms : Rat),
      loopObverse maxcoord v0 (found.map (Option.map h)) (pool.map (TVert.mapV h)) sp (c.map (TVert.mapV h)) ms
        = ((loopObverse maxcoord v0 found pool sp c ms).1.map (TVert.mapV h),
           (loopObverse maxcoord v0 found pool sp c ms).2.1, (loopObverse maxcoord v0 found pool sp c ms).2.2) := by
  intro sp
  induction sp with
  | nil => intro c ms; rfl
  | cons s rest ih =>
    intro c ms
    simp only [loopObverse, List.length_map]
    split
    · rw [within_mapV h v0 _ found pool H, ← List.map_append]
      exact ih _ _
    · rfl

theorem loopInverse_mapV (h : Id → Id) (v0 : Pt) (found : List (Option Id)) (pool : List TVert) (ms : Rat)
    (H : ∀ v ∈ pool, ∀ x, some x ∈ found → h x = h v.id → x = v.id) :
    ∀ (sp : List Rat) (c : List TVert),
      loopInverse v0 (found.map (Option.map h)) (pool.map (TVert.mapV h)) ms sp (c.map (TVert.mapV h))
        = (loopInverse v0 found pool ms sp c).map (TVert.mapV h) := by
  intro sp
  induction sp with
  | nil => intro c; rfl
  | cons s rest ih =>
    intro c
    simp only [loopInverse, List.length_map]
    split
    · rw [← List.map_reverse, within_mapV h v0 _ found pool.reverse
        (fun v hv => H v (List.mem_reverse.1 hv)), ← List.map_append]
      exact ih _
    · rfl

theorem nearest_mapV (h : Id → Id) (v0 : Pt) (l : List TVert) :
    nearest v0 (l.map (TVert.mapV h)) = (nearest v0 l).map (TVert.mapV h) := by
  induction l with
  | nil => rfl
  | cons c cs ih =>
    simp only [List.map_cons, nearest, ih]
    cases nearest v0 cs with
    | none => rfl
    | some b =>
      simp only [Option.map_some, TVert.mapV]
      by_cases hlt : distSq b.p v0 < distSq c.p v0 <;> simp [hlt] <;> rfl

theorem findBest_mapV (h : Id → Id) (s0 cutoff maxcoord : Rat) (v0 : Pt) (pool : List TVert)
    (found : List (Option Id))
    (H : ∀ v ∈ pool, ∀ x, some x ∈ found → h x = h v.id → x = v.id) :
    findBest s0 cutoff maxcoord v0 (pool.map (TVert.mapV h)) (found.map (Option.map h))
      = (findBest s0 cutoff maxcoord v0 pool found).map (TVert.mapV h) := by
  unfold findBest
  have h1 := loopObverse_mapV h maxcoord v0 found pool H (spreads s0 cutoff 64) [] 0
  simp only [List.map_nil] at h1
  simp only [h1]
  have h2 := loopInverse_mapV h v0 found pool
    (loopObverse maxcoord v0 found pool (spreads s0 cutoff 64) [] 0).2.2 H
    (loopObverse maxcoord v0 found pool (spreads s0 cutoff 64) [] 0).2.1 []
  simp only [List.map_nil] at h2
  rw [h2, ← List.map_append, nearest_mapV]

/-! ### the step map under renaming -/

theorem values_mapV (g h : Id → Id) (m : StepMap) :
    (m.mapV g h).values = m.values.map (Option.map h) := by
  simp [StepMap.values, StepMap.mapV, List.map_map, Function.comp_def]

theorem alGet?_isSome_map {β γ : Type} (g : Id → Id) (φ : β → γ) (k : Id) (m : List (Id × β))
    (H : ∀ e ∈ m, g e.1 = g k → e.1 = k) :
    (alGet? (g k) (m.map fun p => (g p.1, φ p.2))).isSome = (alGet? k m).isSome := by
  induction m with
  | nil => rfl
  | cons a m ih =>
    obtain ⟨k', v⟩ := a
    have ih' := ih (fun e he => H e (List.mem_cons_of_mem _ he))
    simp only [List.map_cons, alGet?]
    by_cases e : k = k'
    · subst e; simp
    · have : ¬ g k = g k' := fun e' => e (H (k', v) (by simp) e'.symm).symm
      simp [e, this, ih']

theorem hasKey_mapV (g h : Id → Id) (m : StepMap) (k : Id) (H : ∀ e ∈ m, g e.1 = g k → e.1 = k) :
    (m.mapV g h).hasKey (g k) = m.hasKey k := by
  unfold StepMap.hasKey StepMap.mapV
  exact alGet?_isSome_map g (Option.map h) k m H

theorem mapV_append (g h : Id → Id) (m : StepMap) (k : Id) (v : Option Id) :
    StepMap.mapV g h (m ++ [(k, v)]) = StepMap.mapV g h m ++ [(g k, v.map h)] := by
  simp [StepMap.mapV]

/-- `assignAll` commutes with the renaming as long as `g` does not merge a vertex of `pool0` with another key of the
    map or vertex of `pool0` (`K`), and `h` does not merge a vertex of `pool1` with another value or pool vertex (`V`) -/
theorem assignAll_mapV (g h : Id → Id) (K V : Id → Prop)
    (hg : ∀ a b, K a → K b → g a = g b → a = b) (hh : ∀ a b, V a → V b → h a = h b → a = b)
    (s0 cutoff maxcoord : Rat) (pool1 : List TVert) (hV1 : ∀ v ∈ pool1, V v.id) :
    ∀ (pool0 : List TVert) (m : StepMap), (∀ v ∈ pool0, K v.id) → (∀ e ∈ m, K e.1) →
      (∀ e ∈ m, ∀ x, e.2 = some x → V x) →
      assignAll s0 cutoff maxcoord (pool1.map (TVert.mapV h)) (pool0.map (TVert.mapV g)) (m.mapV g h)
        = (assignAll s0 cutoff maxcoord pool1 pool0 m).mapV g h := by
  intro pool0
  induction pool0 with
  | nil => intro m _ _ _; rfl
  | cons v0 rest ih =>
    intro m hK0 hKm hVm
    have hK0' : ∀ v ∈ rest, K v.id := fun v hv => hK0 v (List.mem_cons_of_mem _ hv)
    have hkey : (m.mapV g h).hasKey (g v0.id) = m.hasKey v0.id :=
      hasKey_mapV g h m v0.id (fun e he e' => hg _ _ (hKm e he) (hK0 v0 (by simp)) e')
    simp only [List.map_cons, assignAll]
    have hid : (TVert.mapV g v0).id = g v0.id := rfl
    have hp : (TVert.mapV g v0).p = v0.p := rfl
    rw [hid, hp, hkey]
    split
    · exact ih m hK0' hKm hVm
    · rename_i hk
      have hk' : m.hasKey v0.id = false := by simpa using hk
      have hk'' : (m.mapV g h).hasKey (g v0.id) = false := by rw [hkey]; exact hk'
      have hfb : findBest s0 cutoff maxcoord v0.p (pool1.map (TVert.mapV h)) (m.mapV g h).values
          = (findBest s0 cutoff maxcoord v0.p pool1 m.values).map (TVert.mapV h) := by
        rw [values_mapV]
        apply findBest_mapV
        intro v hv x hx e
        refine hh _ _ ?_ (hV1 v hv) e
        simp only [StepMap.values, List.mem_map] at hx
        obtain ⟨e0, he0, he0'⟩ := hx
        exact hVm e0 he0 x he0'
      rw [C12.set_fresh _ _ _ hk', C12.set_fresh _ _ _ hk'', hfb]
      have hval : Option.map (fun x : TVert => x.id)
            (Option.map (TVert.mapV h) (findBest s0 cutoff maxcoord v0.p pool1 m.values))
          = Option.map h (Option.map (fun x : TVert => x.id) (findBest s0 cutoff maxcoord v0.p pool1 m.values)) := by
        cases findBest s0 cutoff maxcoord v0.p pool1 m.values <;> rfl
      rw [hval, ← mapV_append]
      apply ih _ hK0'
      · intro e he
        rcases List.mem_append.1 he with he | he
        · exact hKm e he
        · simp only [List.mem_singleton] at he; subst he; exact hK0 v0 (by simp)
      · intro e he x hx
        rcases List.mem_append.1 he with he | he
        · exact hVm e he x hx
        · simp only [List.mem_singleton] at he; subst he
          simp only at hx
          cases hb : findBest s0 cutoff maxcoord v0.p pool1 m.values with
          | none => rw [hb] at hx; simp at hx
          | some b =>
            rw [hb] at hx
            simp only [Option.map_some, Option.some.injEq] at hx
            subst hx
            exact hV1 b (C12.findBest_mem' _ _ _ _ _ _ _ hb).1

/-! ### create_mapping -/

theorem maxCoord_mapV (g h : Id → Id) (pool0 pool1 : List TVert) :
    maxCoord (pool0.map (TVert.mapV g)) (pool1.map (TVert.mapV h)) = maxCoord pool0 pool1 := by
  unfold maxCoord
  simp only [List.map_append, map_mapV_p g pool0 (·.x), map_mapV_p h pool1 (·.x),
    map_mapV_p g pool0 (·.y), map_mapV_p h pool1 (·.y)]

theorem tooDifferent_mapV (g h : Id → Id) (maxDiff : Rat) (pool0 pool1 : List TVert) :
    tooDifferent maxDiff (pool0.map (TVert.mapV g)) (pool1.map (TVert.mapV h)) = tooDifferent maxDiff pool0 pool1 := by
  unfold tooDifferent
  simp only [maxCoord_mapV, map_mapV_p g pool0 (·.x), map_mapV_p h pool1 (·.x),
    map_mapV_p g pool0 (·.y), map_mapV_p h pool1 (·.y)]

theorem createMapping_mapV (g h : Id → Id) (K V : Id → Prop)
    (hg : ∀ a b, K a → K b → g a = g b → a = b) (hh : ∀ a b, V a → V b → h a = h b → a = b)
    (s0 cutoff maxDiff : Rat) (pool0 pool1 : List TVert) (guess : StepMap)
    (hK0 : ∀ v ∈ pool0, K v.id) (hV1 : ∀ v ∈ pool1, V v.id) (hKm : ∀ e ∈ guess, K e.1)
    (hVm : ∀ e ∈ guess, ∀ x, e.2 = some x → V x) :
    createMapping s0 cutoff maxDiff (pool0.map (TVert.mapV g)) (pool1.map (TVert.mapV h)) (guess.mapV g h)
      = (createMapping s0 cutoff maxDiff pool0 pool1 guess).map (StepMap.mapV g h) := by
  unfold createMapping
  rw [tooDifferent_mapV, maxCoord_mapV, List.isEmpty_map]
  split
  · rfl
  · rw [assignAll_mapV g h K V hg hh s0 cutoff _ pool1 hV1 pool0 guess hK0 hKm hVm]
    rfl

/-! ### the series of step maps -/

theorem getD_relabelPools (σ : Nat → Id → Id) (pools : List (List TVert)) (t : Nat) :
    (relabelPools σ pools).getD t [] = (pools.getD t []).map (TVert.mapV (σ t)) := by
  simp only [relabelPools, List.getD_eq_getElem?_getD, List.getElem?_mapIdx]
  cases pools[t]? <;> rfl

theorem getD_relabelGuesses (σ : Nat → Id → Id) (gs : List StepMap) (t : Nat) :
    (relabelGuesses σ gs).getD t [] = (gs.getD t []).mapV (σ t) (σ (t + 1)) := by
  simp only [relabelGuesses, List.getD_eq_getElem?_getD, List.getElem?_mapIdx]
  cases gs[t]? <;> rfl

theorem length_relabelPools (σ : Nat → Id → Id) (pools : List (List TVert)) :
    (relabelPools σ pools).length = pools.length := by
  simp only [relabelPools, List.length_mapIdx]

theorem contains_map_inj (g : Id → Id) (hg : Function.Injective g) (l : List Id) (a : Id) :
    (l.map g).contains (g a) = l.contains a := by
  induction l with
  | nil => rfl
  | cons b l ih =>
    simp only [List.map_cons, List.contains_cons, ih]
    congr 1
    by_cases e : a = b
    · subst e; simp
    · have : ¬ g a = g b := fun e' => e (hg e')
      simp [e, this]

end C12r
end Forsys
