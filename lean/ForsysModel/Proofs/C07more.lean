/- helper definitions and lemmas for Props/C07more.lean: renumbering of cell ids and of mesh-edge ids, all cells stored
   differently at once, the classification of interfaces under storage variants -/
import ForsysModel.Proofs.C07order
import ForsysModel.Proofs.C04system
namespace Forsys

/-! ### renumbering the cell ids / the mesh-edge ids -/

/-- every occurrence of a CELL id — keys of the cell dictionary, `Cell.id`, the lists `ownCells` kept on the vertices —
    replaced by its image under `g`; everything else, and the order of the three dictionaries, unchanged -/
def Vertex.mapOwnCells (g : Id → Id) (v : Vertex) : Vertex := { v with ownCells := v.ownCells.map g }
def Vertex.mapOwnEdges (g : Id → Id) (v : Vertex) : Vertex := { v with ownEdges := v.ownEdges.map g }
def Cell.mapId (g : Id → Id) (c : Cell) : Cell := { c with id := g c.id }
def SEdge.mapId (g : Id → Id) (e : SEdge) : SEdge := { e with id := g e.id }

def Mesh.mapC (g : Id → Id) (m : Mesh) : Mesh :=
  { m with
    vertices := m.vertices.map fun p => (p.1, Vertex.mapOwnCells g p.2)
    cells := m.cells.map fun p => (g p.1, Cell.mapId g p.2) }

/-- every occurrence of a MESH-EDGE id — keys of the edge dictionary, `SEdge.id`, the lists `ownEdges` kept on the
    vertices — replaced by its image under `g` -/
def Mesh.mapE (g : Id → Id) (m : Mesh) : Mesh :=
  { m with
    vertices := m.vertices.map fun p => (p.1, Vertex.mapOwnEdges g p.2)
    edges := m.edges.map fun p => (g p.1, SEdge.mapId g p.2) }

namespace C07x

theorem ownCells_mapC (g : Id → Id) (m : Mesh) (k : Id) : (m.mapC g).ownCells k = (m.ownCells k).map g := by
  unfold Mesh.ownCells Mesh.vertex? Mesh.mapC
  simp only
  rw [C07m.alGet?_map_snd]
  cases alGet? k m.vertices <;> rfl

theorem ownEdges_mapC (g : Id → Id) (m : Mesh) (k : Id) : (m.mapC g).ownEdges k = m.ownEdges k := by
  unfold Mesh.ownEdges Mesh.vertex? Mesh.mapC
  simp only
  rw [C07m.alGet?_map_snd]
  cases alGet? k m.vertices <;> rfl

theorem ownEdges_mapE (g : Id → Id) (m : Mesh) (k : Id) : (m.mapE g).ownEdges k = (m.ownEdges k).map g := by
  unfold Mesh.ownEdges Mesh.vertex? Mesh.mapE
  simp only
  rw [C07m.alGet?_map_snd]
  cases alGet? k m.vertices <;> rfl

theorem ownCells_mapE (g : Id → Id) (m : Mesh) (k : Id) : (m.mapE g).ownCells k = m.ownCells k := by
  unfold Mesh.ownCells Mesh.vertex? Mesh.mapE
  simp only
  rw [C07m.alGet?_map_snd]
  cases alGet? k m.vertices <;> rfl

theorem isJunction_mapC (g : Id → Id) (m : Mesh) : (m.mapC g).isJunction = m.isJunction := by
  funext k; unfold Mesh.isJunction; rw [ownEdges_mapC]

theorem isJunction_mapE (g : Id → Id) (m : Mesh) : (m.mapE g).isJunction = m.isJunction := by
  funext k; unfold Mesh.isJunction; rw [ownEdges_mapE, List.length_map]

theorem cand_mapC (isJ : Id → Bool) (g : Id → Id) (m : Mesh) :
    C07o.cand isJ (m.mapC g).cells = C07o.cand isJ m.cells := by
  unfold C07o.cand Mesh.mapC
  simp only [List.map_map]
  rfl

theorem listInter_map (g : Id → Id) (hg : Function.Injective g) (a b : List Id) :
    listInter (a.map g) (b.map g) = (listInter a b).map g := by
  unfold listInter
  rw [List.filter_map]
  congr 1
  apply List.filter_congr
  intro x _
  simp only [Function.comp]
  by_cases h : x ∈ b
  · have : g x ∈ b.map g := List.mem_map.2 ⟨x, h, rfl⟩
    simp [h, this]
  · have : g x ∉ b.map g := by
      intro hx
      obtain ⟨y, hy, hxy⟩ := List.mem_map.1 hx
      exact h (hg hxy ▸ hy)
    simp [h, this]

theorem cell?_mapC (g : Id → Id) (hg : Function.Injective g) (m : Mesh) (c : Id) :
    (m.mapC g).cell? (g c) = (m.cell? c).map (Cell.mapId g) := by
  unfold Mesh.cell? Mesh.mapC
  exact C07m.alGet?_map g hg (Cell.mapId g) c m.cells

theorem neighboursInCell_mapC (g : Id → Id) (hg : Function.Injective g) (m : Mesh) (a b c : Id) :
    (m.mapC g).neighboursInCell a b (g c) = m.neighboursInCell a b c := by
  unfold Mesh.neighboursInCell
  rw [cell?_mapC g hg]
  cases m.cell? c <;> rfl

/-! ### all cells stored differently at once -/

/-- the stored cycle `w` is the cycle `v` started elsewhere, possibly in the opposite sense -/
def SameCycle (w v : List Id) : Prop := ∃ k, w = v.rotate k ∨ w = (v.rotate k).reverse

theorem memRev_sameCycle (isJ : Id → Bool) (w v : List Id) (h : SameCycle w v) (p : List Id) :
    memRev p (cellPaths isJ w) ↔ memRev p (cellPaths isJ v) := by
  obtain ⟨k, rfl | rfl⟩ := h
  · exact C07o.memRev_rotate isJ v k p
  · exact (C07o.memRev_reverse isJ _ p).trans (C07o.memRev_rotate isJ v k p)

theorem memRev_cand_forall₂ (isJ : Id → Bool) (cells' cells : List (Id × Cell))
    (h : List.Forall₂ (fun q' q => SameCycle q'.2.verts q.2.verts) cells' cells) (p : List Id) :
    memRev p (C07o.cand isJ cells') ↔ memRev p (C07o.cand isJ cells) := by
  rw [C07o.memRev_cand, C07o.memRev_cand]
  induction h with
  | nil => simp
  | cons hab _ ih =>
    simp only [List.mem_cons, exists_eq_or_imp]
    rw [memRev_sameCycle isJ _ _ hab p]
    constructor
    · rintro (h | ⟨q, hq, hp⟩)
      · exact Or.inl h
      · obtain ⟨q', hq', hp'⟩ := ih.1 ⟨q, hq, hp⟩
        exact Or.inr ⟨q', hq', hp'⟩
    · rintro (h | ⟨q, hq, hp⟩)
      · exact Or.inl h
      · obtain ⟨q', hq', hp'⟩ := ih.2 ⟨q, hq, hp⟩
        exact Or.inr ⟨q', hq', hp'⟩

/-! ### `are_neighbours` on a cycle stored differently -/

theorem cyclicNeighbours_rotate (ids : List Id) (hn : ids.Nodup) (k : Nat) (a b : Id) :
    cyclicNeighbours (ids.rotate k) a b = cyclicNeighbours ids a b := by
  rw [Bool.eq_iff_iff, cyclicNeighbours_spec _ (List.nodup_rotate.mpr hn), cyclicNeighbours_spec ids hn,
    cyclicPairs_rotate, List.mem_rotate, List.mem_rotate]

theorem cyclicNeighbours_sameCycle (w v : List Id) (h : SameCycle w v) (hn : v.Nodup) (a b : Id) :
    cyclicNeighbours w a b = cyclicNeighbours v a b := by
  obtain ⟨k, rfl | rfl⟩ := h
  · exact cyclicNeighbours_rotate v hn k a b
  · rw [C04s.cyclicNeighbours_reverse _ (List.nodup_rotate.mpr hn), cyclicNeighbours_rotate v hn k a b]

theorem alGet?_forall₂ {β : Type} {R : β → β → Prop} {l' l : List (Id × β)}
    (h : List.Forall₂ (fun q' q => q'.1 = q.1 ∧ R q'.2 q.2) l' l) (k : Id) :
    (alGet? k l' = none ∧ alGet? k l = none) ∨ ∃ c' c, alGet? k l' = some c' ∧ alGet? k l = some c ∧ R c' c := by
  induction h with
  | nil => exact Or.inl ⟨rfl, rfl⟩
  | @cons q' q _ _ hab _ ih =>
    obtain ⟨k', v'⟩ := q'
    obtain ⟨k0, v0⟩ := q
    obtain ⟨hk, hR⟩ := hab
    simp only at hk hR
    subst hk
    unfold alGet?
    by_cases hkk : k = k'
    · rw [if_pos hkk, if_pos hkk]
      exact Or.inr ⟨v', v0, rfl, rfl, hR⟩
    · rw [if_neg hkk, if_neg hkk]
      exact ih

/-! ### physical interfaces -/

theorem memRev_filter (f : List Id → Bool) (hf : ∀ e, f e.reverse = f e) (A : List (List Id)) (p : List Id) :
    memRev p (A.filter f) ↔ memRev p A ∧ f p = true := by
  unfold memRev
  simp only [List.mem_filter, hf]
  tauto

theorem tensionRows_length (m : Mesh) (earr : List (List Id)) :
    (m.tensionRows earr).length = earr.countP fun e => !(m.bigEdgeExternal e) := by
  unfold Mesh.tensionRows
  rw [List.countP_eq_length_filter]
  conv => rhs; rw [← C07o.map_getD_range earr, List.filter_map, List.length_map]
  rfl

theorem countP_forall₂ (f : List Id → Bool) (hf : ∀ e, f e.reverse = f e) (σ B : List (List Id))
    (h : List.Forall₂ (fun a b => a = b ∨ a = b.reverse) σ B) : σ.countP f = B.countP f := by
  induction h with
  | nil => rfl
  | cons hab _ ih =>
    rw [List.countP_cons, List.countP_cons, ih]
    rcases hab with rfl | rfl
    · rfl
    · rw [hf]

end C07x
end Forsys
