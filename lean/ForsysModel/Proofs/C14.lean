/-
  Helper lemmas for Props/C14.lean (Surface Evolver parser model).
-/
import ForsysModel.Model.SEParser
import ForsysModel.Proofs.C09
import Mathlib.Tactic.FieldSimp
import Mathlib.Tactic.Linarith
import Mathlib.Tactic.Ring
import Mathlib.Algebra.Order.Field.Basic
import Mathlib.Algebra.Order.Field.Rat
import Mathlib.Algebra.BigOperators.Group.List.Basic

namespace Forsys

theorem mean_replicate (d : Rat) (n : Nat) : mean (List.replicate (n + 1) d) = d := by
  unfold mean
  have h : (List.replicate (n + 1) d).isEmpty = false := by simp [List.replicate_succ]
  rw [h, List.sum_replicate, List.length_replicate]
  simp only [Bool.false_eq_true, if_false, nsmul_eq_mul]
  have : ((n + 1 : Nat) : Rat) ≠ 0 := by exact_mod_cast Nat.succ_ne_zero n
  field_simp

namespace SE

/-! ### tokens -/

@[simp] theorem tokInt_ofInt (i : Int) : tokInt (Tok.ofInt i) = .ok i := rfl

theorem mapM_tokInt_ofInt (l : List Int) : (l.map Tok.ofInt).mapM tokInt = .ok l := by
  induction l with
  | nil => rfl
  | cons a l ih =>
    rw [List.map_cons, List.mapM_cons, ih]
    rfl

/-! ### single steps of the face-line automaton -/

theorem faceStep_of_last (s : FaceState) (l : List Tok) (last : Tok) (h : l.getLast? = some last) :
    faceStep s l =
      if s.first && !last.close then
        pure { s with ids := s.ids ++ l.take 1, first := false, cur := s.cur ++ (l.dropLast).drop 1 }
      else if last.bslash && !s.first then
        pure { s with cur := s.cur ++ l.dropLast }
      else if last.close then do
        let ids := if s.first then s.ids ++ l.take 1 else s.ids
        let cur := if s.first then s.cur ++ (l.take (l.length - 2)).drop 1 else s.cur ++ l.take (l.length - 2)
        let ints ← cur.mapM tokInt
        pure { ids := ids, edges := s.edges ++ [ints], cur := [], first := true }
      else pure s := by
  unfold faceStep
  rw [h]

theorem getLast?_snoc2 (xs : List Tok) (a b : Tok) : (xs ++ [a, b]).getLast? = some b := by
  have : xs ++ [a, b] = (xs ++ [a]) ++ [b] := by simp
  rw [this, List.getLast?_concat]

theorem faceStep_cont (ids : List Tok) (edges : List (List Int)) (done xs : List Tok) :
    faceStep { ids := ids, edges := edges, cur := done, first := false } (xs ++ [Tok.cont])
      = .ok { ids := ids, edges := edges, cur := done ++ xs, first := false } := by
  rw [faceStep_of_last _ _ Tok.cont List.getLast?_concat]
  simp [Tok.cont]
  rfl

theorem faceStep_close (ids : List Tok) (edges : List (List Int)) (done xs : List Int) :
    faceStep { ids := ids, edges := edges, cur := done.map Tok.ofInt, first := false }
        (xs.map Tok.ofInt ++ [Tok.copen, Tok.cclose])
      = .ok { ids := ids, edges := edges ++ [done ++ xs], cur := [], first := true } := by
  rw [faceStep_of_last _ _ Tok.cclose (getLast?_snoc2 _ _ _)]
  have ht : (List.map Tok.ofInt xs ++ [Tok.copen, Tok.cclose]).take
      ((List.map Tok.ofInt xs ++ [Tok.copen, Tok.cclose]).length - 2) = List.map Tok.ofInt xs := by
    simp
  rw [ht]
  have hm : (List.map Tok.ofInt done ++ List.map Tok.ofInt xs).mapM tokInt = .ok (done ++ xs) := by
    rw [← List.map_append, mapM_tokInt_ofInt]
  simp only [Tok.cclose, Bool.false_and, Bool.not_true, Bool.and_false, Bool.false_eq_true, if_false, if_true, hm]
  rfl

theorem faceStep_first_cont (ids : List Tok) (edges : List (List Int)) (t : Tok) (xs : List Tok) :
    faceStep { ids := ids, edges := edges, cur := [], first := true } (t :: (xs ++ [Tok.cont]))
      = .ok { ids := ids ++ [t], edges := edges, cur := xs, first := false } := by
  have h : (t :: (xs ++ [Tok.cont])).getLast? = some Tok.cont := by
    rw [← List.cons_append, List.getLast?_concat]
  have hd : (t :: (xs ++ [Tok.cont])).dropLast = t :: xs := by
    rw [← List.cons_append, List.dropLast_concat]
  rw [faceStep_of_last _ _ Tok.cont h, hd]
  simp [Tok.cont]
  rfl

theorem faceStep_first_close (ids : List Tok) (edges : List (List Int)) (i : Int) (xs : List Int) :
    faceStep { ids := ids, edges := edges, cur := [], first := true }
        (Tok.ofInt i :: (xs.map Tok.ofInt ++ [Tok.copen, Tok.cclose]))
      = .ok { ids := ids ++ [Tok.ofInt i], edges := edges ++ [xs], cur := [], first := true } := by
  have h : (Tok.ofInt i :: (List.map Tok.ofInt xs ++ [Tok.copen, Tok.cclose])).getLast? = some Tok.cclose := by
    rw [← List.cons_append, getLast?_snoc2]
  have ht : ((Tok.ofInt i :: (List.map Tok.ofInt xs ++ [Tok.copen, Tok.cclose])).take
      ((Tok.ofInt i :: (List.map Tok.ofInt xs ++ [Tok.copen, Tok.cclose])).length - 2)).drop 1
        = List.map Tok.ofInt xs := by
    simp
  rw [faceStep_of_last _ _ Tok.cclose h, ht]
  simp only [Tok.cclose, Bool.not_true, Bool.and_false, Bool.false_eq_true, if_false, if_true,
    List.nil_append, mapM_tokInt_ofInt]
  rfl

/-! ### whole faces -/

theorem fold_printCont (ids : List Tok) (edges : List (List Int)) (w : List Nat) :
    ∀ (done es : List Int) (rest : List (List Tok)),
    (printCont es w ++ rest).foldlM faceStep { ids := ids, edges := edges, cur := done.map Tok.ofInt, first := false }
      = rest.foldlM faceStep { ids := ids, edges := edges ++ [done ++ es], cur := [], first := true } := by
  induction w with
  | nil =>
    intro done es rest
    simp only [printCont, List.cons_append, List.nil_append, List.foldlM_cons, faceStep_close]
    rfl
  | cons n w ih =>
    intro done es rest
    simp only [printCont, List.cons_append, List.foldlM_cons, faceStep_cont]
    have := ih (done ++ es.take n) (es.drop n) rest
    rw [List.map_append] at this
    rw [List.append_assoc, List.take_append_drop] at this
    exact this

theorem fold_printFace (ids : List Tok) (edges : List (List Int)) (i : Int) (es : List Int) (w : List Nat)
    (rest : List (List Tok)) :
    (printFace i es w ++ rest).foldlM faceStep { ids := ids, edges := edges, cur := [], first := true }
      = rest.foldlM faceStep { ids := ids ++ [Tok.ofInt i], edges := edges ++ [es], cur := [], first := true } := by
  cases w with
  | nil =>
    simp only [printFace, List.cons_append, List.nil_append, List.foldlM_cons, faceStep_first_close]
    rfl
  | cons n w =>
    simp only [printFace, List.cons_append, List.foldlM_cons, faceStep_first_cont]
    have := fold_printCont (ids ++ [Tok.ofInt i]) edges w (es.take n) (es.drop n) rest
    rw [List.take_append_drop] at this
    exact this

theorem fold_printFaces (fs : List (Int × List Int × List Nat)) :
    ∀ (ids : List Tok) (edges : List (List Int)),
    (printFaces fs).foldlM faceStep { ids := ids, edges := edges, cur := [], first := true }
      = .ok { ids := ids ++ fs.map (fun f => Tok.ofInt f.1), edges := edges ++ fs.map (·.2.1), cur := [], first := true } := by
  induction fs with
  | nil => intro ids edges; simp [printFaces]; rfl
  | cons f fs ih =>
    intro ids edges
    have : printFaces (f :: fs) = printFace f.1 f.2.1 f.2.2 ++ printFaces fs := by
      simp [printFaces]
    rw [this, fold_printFace, ih]
    simp

/-! ### section arithmetic of calculate_first_last -/
theorem findMark_skip (mk : Marker) (pre rest : List Line) (hpre : ∀ l ∈ pre, l.mark ≠ some mk) :
    findMark mk (pre ++ rest) = (fun i => i + pre.length) <$> findMark mk rest := by
  unfold findMark
  have h : List.findIdx? (fun l => l.mark == some mk) pre = none := by
    rw [List.findIdx?_eq_none_iff]
    intro l hl
    simpa using hpre l hl
  rw [List.findIdx?_append, h]
  cases List.findIdx? (fun l => l.mark == some mk) rest <;> rfl

theorem findMark_hit (mk : Marker) (l : Line) (rest : List Line) (h : l.mark = some mk) :
    findMark mk (l :: rest) = .ok 0 := by
  unfold findMark
  simp [List.findIdx?_cons, h]
  rfl

theorem plain_mark (ts : List (List Tok)) (mk : Marker) : ∀ l ∈ plain ts ++ [({ toks := [] } : Line)], l.mark ≠ some mk := by
  intro l hl
  simp [plain] at hl
  rcases hl with ⟨t, _, rfl⟩ | rfl <;> simp

theorem firstLast_sec (a b : Marker) (pre : List Line) (mt : List Tok) (ts : List (List Tok)) (bl : Line)
    (post : List Line) (hpre : ∀ l ∈ pre, l.mark ≠ some a) (hb : bl.mark = some b) :
    firstLast a b (pre ++ (sec a mt ts ++ bl :: post)) = .ok (pre.length, ts.length + 1 + pre.length) := by
  unfold firstLast
  rw [findMark_skip a pre _ hpre]
  have h0 : findMark a (sec a mt ts ++ bl :: post) = .ok 0 := by
    unfold sec
    rw [List.cons_append]
    exact findMark_hit _ _ _ rfl
  rw [h0]
  have hd : (pre ++ (sec a mt ts ++ bl :: post)).drop (0 + pre.length + 1)
      = (plain ts ++ [({ toks := [] } : Line)]) ++ bl :: post := by
    unfold sec
    rw [Nat.zero_add, ← List.drop_drop, List.drop_left]
    simp
  show (do let rel ← findMark b ((pre ++ (sec a mt ts ++ bl :: post)).drop (0 + pre.length + 1)); pure (0 + pre.length, rel + (0 + pre.length)) : R _) = _
  rw [hd, findMark_skip b _ _ (plain_mark ts b), findMark_hit b bl post hb]
  simp only [plain, List.length_append, List.length_map, List.length_cons, List.length_nil]
  show Except.ok _ = Except.ok _
  simp

theorem sectionToks_sec (a : Marker) (pre : List Line) (mt : List Tok) (ts : List (List Tok)) (post : List Line) :
    sectionToks (pre.length, ts.length + 1 + pre.length) (pre ++ (sec a mt ts ++ post)) = ts := by
  unfold sectionToks sec
  simp only
  rw [← List.drop_drop, List.drop_left]
  have : ts.length + 1 + pre.length - (pre.length + 1) = (plain ts).length := by simp [plain]; omega
  rw [this]
  simp [plain, Function.comp_def]
  


theorem mem_plain_mark {ts : List (List Tok)} {l : Line} (h : l ∈ plain ts) : l.mark = none := by
  simp [plain] at h
  rcases h with ⟨t, _, rfl⟩
  rfl

theorem mem_sec_mark {a : Marker} {mt : List Tok} {ts : List (List Tok)} {l : Line} (h : l ∈ sec a mt ts) :
    l.mark = some a ∨ l.mark = none := by
  simp [sec] at h
  rcases h with rfl | h | rfl
  · exact Or.inl rfl
  · exact Or.inr (mem_plain_mark h)
  · exact Or.inr rfl

theorem sec_append (a : Marker) (mt : List Tok) (ts : List (List Tok)) (X : List Line) :
    sec a mt ts ++ X = ({ mark := some a, toks := mt } : Line) :: ((plain ts ++ [({ toks := [] } : Line)]) ++ X) := by
  simp [sec]

theorem sections_layout (mt : Marker → List Tok) (header vs es fs bs : List (List Tok)) (trailer : List Line) :
    indices (layout mt header vs es fs bs trailer) = .ok
      { v := ((plain header).length, vs.length + 1 + (plain header).length),
        e := ((plain header ++ sec .vertices (mt .vertices) vs).length,
              es.length + 1 + (plain header ++ sec .vertices (mt .vertices) vs).length),
        f := ((plain header ++ sec .vertices (mt .vertices) vs ++ sec .edges (mt .edges) es).length,
              fs.length + 1 + (plain header ++ sec .vertices (mt .vertices) vs ++ sec .edges (mt .edges) es).length),
        p := ((plain header ++ sec .vertices (mt .vertices) vs ++ sec .edges (mt .edges) es ++ sec .faces (mt .faces) fs).length,
              bs.length + 1 + (plain header ++ sec .vertices (mt .vertices) vs ++ sec .edges (mt .edges) es
                ++ sec .faces (mt .faces) fs).length) } := by
  have hv : firstLast .vertices .edges (layout mt header vs es fs bs trailer) = .ok ((plain header).length, vs.length + 1 + (plain header).length) := by
    unfold layout
    rw [sec_append .edges]
    exact firstLast_sec .vertices .edges (plain header) _ vs _ _ (fun l hl => by simp [mem_plain_mark hl]) rfl
  have he : firstLast .edges .faces (layout mt header vs es fs bs trailer) = .ok ((plain header ++ sec .vertices (mt .vertices) vs).length,
              es.length + 1 + (plain header ++ sec .vertices (mt .vertices) vs).length) := by
    unfold layout
    rw [← List.append_assoc (plain header), sec_append .faces]
    refine firstLast_sec .edges .faces (plain header ++ sec .vertices (mt .vertices) vs) _ es _ _ (fun l hl => ?_) rfl
    rcases List.mem_append.mp hl with h | h
    · simp [mem_plain_mark h]
    · rcases mem_sec_mark h with h | h <;> simp [h]
  have hf : firstLast .faces .bodies (layout mt header vs es fs bs trailer) = .ok ((plain header ++ sec .vertices (mt .vertices) vs ++ sec .edges (mt .edges) es).length,
              fs.length + 1 + (plain header ++ sec .vertices (mt .vertices) vs ++ sec .edges (mt .edges) es).length) := by
    unfold layout
    rw [← List.append_assoc (plain header), ← List.append_assoc (plain header ++ _), sec_append .bodies]
    refine firstLast_sec .faces .bodies (plain header ++ sec .vertices (mt .vertices) vs ++ sec .edges (mt .edges) es) _ fs _ _
      (fun l hl => ?_) rfl
    rcases List.mem_append.mp hl with h | h
    · rcases List.mem_append.mp h with h | h
      · simp [mem_plain_mark h]
      · rcases mem_sec_mark h with h | h <;> simp [h]
    · rcases mem_sec_mark h with h | h <;> simp [h]
  have hp : firstLast .bodies .read (layout mt header vs es fs bs trailer) = .ok ((plain header ++ sec .vertices (mt .vertices) vs ++ sec .edges (mt .edges) es ++ sec .faces (mt .faces) fs).length,
              bs.length + 1 + (plain header ++ sec .vertices (mt .vertices) vs ++ sec .edges (mt .edges) es
                ++ sec .faces (mt .faces) fs).length) := by
    unfold layout
    rw [← List.append_assoc (plain header), ← List.append_assoc (plain header ++ _), ← List.append_assoc (plain header ++ _ ++ _)]
    refine firstLast_sec .bodies .read (plain header ++ sec .vertices (mt .vertices) vs ++ sec .edges (mt .edges) es
      ++ sec .faces (mt .faces) fs) _ bs _ _ (fun l hl => ?_) rfl
    rcases List.mem_append.mp hl with h | h
    · rcases List.mem_append.mp h with h | h
      · rcases List.mem_append.mp h with h | h
        · simp [mem_plain_mark h]
        · rcases mem_sec_mark h with h | h <;> simp [h]
      · rcases mem_sec_mark h with h | h <;> simp [h]
    · rcases mem_sec_mark h with h | h <;> simp [h]
  unfold indices
  rw [hv, he, hf, hp]
  rfl

/-! ### orphan removal: keys and cell lists of the vertices -/
open Mesh

/-- keys and cell lists of the vertices -/
def vsig (m : Mesh) : List (Id × List Id) := m.vertices.map fun p => (p.1, p.2.ownCells)

theorem vsig_updVertex (m : Mesh) (k : Id) (f : Vertex → Vertex) (hf : ∀ v, (f v).ownCells = v.ownCells) :
    vsig (m.updVertex k f) = vsig m := by
  unfold vsig updVertex
  simp only [List.map_map]
  apply List.map_congr_left
  intro p _
  rcases p with ⟨k', v⟩
  by_cases h : k' = k <;> simp [h, hf]

theorem vsig_delEdge (m : Mesh) (k : Id) : vsig (m.delEdge k) = vsig m := by
  unfold delEdge
  cases m.edge? k with
  | none => rfl
  | some e =>
    have h := vsig_updVertex (m.updVertex e.v1 fun v => { v with ownEdges := v.ownEdges.erase k }) e.v2
      (fun v => { v with ownEdges := v.ownEdges.erase k }) (fun _ => rfl)
    have h2 := vsig_updVertex m e.v1 (fun v => { v with ownEdges := v.ownEdges.erase k }) (fun _ => rfl)
    exact h.trans h2

theorem vsig_foldl_delEdge (l : List Id) : ∀ m : Mesh, vsig (l.foldl (fun m e => m.delEdge e) m) = vsig m := by
  induction l with
  | nil => intro m; rfl
  | cons a l ih => intro m; rw [List.foldl_cons, ih, vsig_delEdge]

/- one round of the clean-up loop: `Mesh.orphanStep` (Proofs/C09.lean) -/

theorem vsig_orphanStep (m : Mesh) (i : Id) : vsig (orphanStep m i) = (vsig m).filter fun p => p.1 != i := by
  unfold orphanStep
  show List.map _ (List.filter _ _) = _
  rw [← vsig_foldl_delEdge (m.ownEdges i) m]
  unfold vsig
  rw [List.filter_map]
  rfl

theorem vsig_foldl_orphanStep (os : List Id) :
    ∀ m : Mesh, vsig (os.foldl orphanStep m) = (vsig m).filter fun p => !os.contains p.1 := by
  induction os with
  | nil => intro m; exact (List.filter_eq_self.mpr (fun _ _ => rfl)).symm
  | cons i os ih =>
    intro m
    rw [List.foldl_cons, ih, vsig_orphanStep, List.filter_filter]
    apply List.filter_congr
    intro p _
    cases h : (p.1 == i)
    · have : ¬ p.1 = i := by simpa using h
      simp [bne, this]
    · have : p.1 = i := by simpa using h
      simp [bne, this]

def orphanIds (m : Mesh) : List Id := (m.vertices.filter fun p => p.2.ownCells.isEmpty).map (·.1)

theorem orphanRemoval_eq (m : Mesh) : m.orphanRemoval = (orphanIds m).foldl orphanStep m := rfl

theorem vsig_orphanRemoval (m : Mesh) :
    vsig m.orphanRemoval = (vsig m).filter fun p => !(orphanIds m).contains p.1 := by
  rw [orphanRemoval_eq, vsig_foldl_orphanStep]

/-! ### Option.mapM helpers -/

theorem mapM_id_some {α : Type} (l : List α) : (l.map some).mapM id = some l := by
  induction l with
  | nil => rfl
  | cons a l ih => rw [List.map_cons, List.mapM_cons, ih]; rfl

theorem mapM_eq_some_of_map {α β : Type} (f : α → Option β) (l : List α) (r : List β) (h : l.map f = r.map some) :
    l.mapM f = some r := by
  induction l generalizing r with
  | nil => cases r <;> simp_all
  | cons a l ih =>
    cases r with
    | nil => simp at h
    | cons b r =>
      simp only [List.map_cons, List.cons.injEq] at h
      rw [List.mapM_cons, h.1, ih r h.2]; rfl

/-! ### deletion of the edges of no face (repair of D23) -/

theorem dropFaceless_eq (used : List Id) (m : Mesh) :
    dropFaceless used m = delEdges m ((m.edges.map (·.1)).filter fun k => !used.contains k) := rfl

theorem dropFaceless_edges (used : List Id) (m : Mesh) (q : Id × SEdge) :
    q ∈ (dropFaceless used m).edges ↔ q ∈ m.edges ∧ q.1 ∈ used := by
  rw [dropFaceless_eq, delEdges_edges]
  constructor
  · rintro ⟨hq, hn⟩
    refine ⟨hq, ?_⟩
    by_cases hu : q.1 ∈ used
    · exact hu
    · exact absurd (List.mem_filter.mpr ⟨List.mem_map.mpr ⟨q, hq, rfl⟩, by simpa using hu⟩) hn
  · rintro ⟨hq, hu⟩
    refine ⟨hq, fun hmem => ?_⟩
    have := (List.mem_filter.mp hmem).2
    simp [hu] at this

theorem dropFaceless_consP (used : List Id) (m : Mesh) (h : ConsP m)
    (hused : ∀ q ∈ m.edges, (∃ c ∈ m.cells, ∃ ab ∈ cyclicPairs c.2.verts,
        (q.2.v1 = ab.1 ∧ q.2.v2 = ab.2) ∨ (q.2.v1 = ab.2 ∧ q.2.v2 = ab.1)) → q.1 ∈ used) :
    ConsP (dropFaceless used m) := by
  obtain ⟨hK, hE, hC, hR, hN, hJ⟩ := h
  have hcells : (dropFaceless used m).cells = m.cells := delEdges_cells m _
  have hvk : (dropFaceless used m).vertices.map (·.1) = m.vertices.map (·.1) := delEdges_vkeys m _
  obtain ⟨k1, k2⟩ := delEdges_keys_own m ((m.edges.map (·.1)).filter fun k => !used.contains k) hK hE
  refine ⟨k1, k2, ?_, ?_, ?_, ?_⟩
  · refine OwnCellsP_of_sim m _ hcells ?_ hC
    intro p' hp'
    obtain ⟨p, hp, _, a, b⟩ := delEdges_sim m _ p' hp'
    exact ⟨p, hp, a, b⟩
  · constructor
    · intro q hq
      have hq' := ((dropFaceless_edges used m q).mp hq).1
      rw [hvk]
      exact hR.1 q hq'
    · intro q hq
      rw [hcells] at hq
      rw [hvk]
      exact hR.2 q hq
  · intro q hq
    rw [hcells] at hq
    exact hN q hq
  · intro c hc ab hab
    rw [hcells] at hc
    obtain ⟨q, hq, hj⟩ := hJ c hc ab hab
    exact ⟨q, (dropFaceless_edges used m q).mpr ⟨hq, hused q hq ⟨c, hc, ab, hab, hj⟩⟩, hj⟩

/-! ### rounding -/

theorem roundHalfEven_nearest' (q : Rat) : |((roundHalfEven q : Int) : Rat) - q| ≤ 1/2 := by
  have h1 : ((q.floor : Int) : Rat) ≤ q := Rat.floor_le q
  have h2 : q < ((q.floor : Int) : Rat) + 1 := by
    have := Rat.lt_floor_add_one q; push_cast at this; exact this
  unfold roundHalfEven
  simp only
  rw [abs_le]
  split_ifs <;> push_cast <;> constructor <;> linarith

theorem roundHalfEven_int' (z : Int) : roundHalfEven (z : Rat) = z := by
  unfold roundHalfEven
  simp only [Rat.floor_intCast, sub_self]
  norm_num

theorem roundHalfEven_tie_even' (z : Int) : roundHalfEven ((z : Rat) + 1/2) % 2 = 0 := by
  have hf : ((z : Rat) + 1/2).floor = z := by
    apply le_antisymm
    · apply Int.le_of_lt_add_one
      rw [Rat.floor_lt_iff]; push_cast; linarith
    · rw [Rat.le_floor_iff]; linarith
  unfold roundHalfEven
  simp only [hf]
  have : (z : Rat) + 1/2 - z = 1/2 := by ring
  rw [this]
  simp only [lt_irrefl, if_false]
  split_ifs with h
  · exact h
  · omega

theorem pow10_pos (n : Nat) : (0 : Rat) < (10 : Rat) ^ n := by positivity

theorem roundDec_nearest' (q : Rat) (n : Nat) : |roundDec q n - q| ≤ 1 / (2 * (10 : Rat) ^ n) := by
  unfold roundDec
  have hp := pow10_pos n
  have h := roundHalfEven_nearest' (q * (10 : Rat) ^ n)
  have e : ((roundHalfEven (q * (10 : Rat) ^ n) : Int) : Rat) / (10 : Rat) ^ n - q
      = (((roundHalfEven (q * (10 : Rat) ^ n) : Int) : Rat) - q * (10 : Rat) ^ n) / (10 : Rat) ^ n := by
    field_simp
  rw [e, abs_div, abs_of_pos hp, div_le_iff₀ hp]
  calc _ ≤ 1/2 := h
    _ = 1 / (2 * (10 : Rat) ^ n) * (10 : Rat) ^ n := by field_simp

theorem roundDec_idempotent' (q : Rat) (n : Nat) : roundDec (roundDec q n) n = roundDec q n := by
  unfold roundDec
  have hp := (pow10_pos n).ne'
  have : ((roundHalfEven (q * (10 : Rat) ^ n) : Rat) / (10 : Rat) ^ n * (10 : Rat) ^ n) = ((roundHalfEven (q * (10 : Rat) ^ n) : Int) : Rat) := by
    field_simp
  rw [this, roundHalfEven_int']
end SE
end Forsys
