/- helper lemmas for Props/C20cycle.lean -/
import ForsysModel.Proofs.C20
import Mathlib.Logic.Function.Iterate
import Mathlib.Tactic.FieldSimp
namespace Forsys

/-! ### pyMod arithmetic -/

theorem pyMod_lt (a : Int) (n : Nat) (hn : 0 < n) : pyMod a n < n := by
  unfold pyMod
  have h1 : 0 ≤ a % (n : Int) := Int.emod_nonneg _ (by omega)
  have h2 : a % (n : Int) < n := Int.emod_lt_of_pos _ (by omega)
  omega

theorem pyMod_cast (a : Int) (n : Nat) (hn : 0 < n) : ((pyMod a n : Nat) : Int) = a % (n : Int) := by
  unfold pyMod
  exact Int.toNat_of_nonneg (Int.emod_nonneg _ (by omega))

theorem pyMod_step (a s : Int) (n : Nat) (hn : 0 < n) :
    pyMod ((pyMod a n : Int) + s) n = pyMod (a + s) n := by
  rw [pyMod_cast _ _ hn]
  unfold pyMod
  rw [Int.emod_add_emod]

theorem pyMod_iterate (s : Int) (n : Nat) (hn : 0 < n) (k i : Nat) (hi : i < n) :
    (fun j : Nat => pyMod ((j : Int) + s) n)^[k] i = pyMod ((i : Int) + k * s) n := by
  induction k with
  | zero =>
    simp [pyMod_natCast, Nat.mod_eq_of_lt hi]
  | succ k ih =>
    rw [Function.iterate_succ_apply', ih, pyMod_step _ _ _ hn]
    congr 1
    push_cast
    ring

theorem pyMod_zero_iter (i n : Nat) (hi : i < n) : pyMod (i : Int) n = i := by
  rw [pyMod_natCast, Nat.mod_eq_of_lt hi]

theorem pyMod_add_mul_self (a c : Int) (n : Nat) : pyMod (a + (n : Int) * c) n = pyMod a n := by
  unfold pyMod
  rw [Int.add_mul_emod_self_left]

theorem pyMod_sub_nat (i k n : Nat) (hn : 0 < n) :
    pyMod ((i : Int) + (k : Int) * (-1)) n = (i + n - k % n) % n := by
  rw [← pyMod_natCast]
  have hk : k % n < n := Nat.mod_lt _ hn
  have h1 : ((i + n - k % n : Nat) : Int) = (i : Int) + n - ((k % n : Nat) : Int) := by omega
  have h2 : (k : Int) = (n : Int) * ((k / n : Nat) : Int) + ((k % n : Nat) : Int) := by
    exact_mod_cast (Nat.div_add_mod k n).symm
  rw [h1]
  have : (i : Int) + (k : Int) * (-1)
      = ((i : Int) + n - ((k % n : Nat) : Int)) + (n : Int) * (-((k / n : Nat) : Int) - 1) := by
    linarith [h2]
  rw [this, pyMod_add_mul_self]

/-! ### sign lemmas -/

theorem c20_ratSign_mul_pos (c q : Rat) (hc : 0 < c) : ratSign (c * q) = ratSign q := by
  unfold ratSign
  rcases lt_trichotomy q 0 with h | h | h
  · have h1 : c * q < 0 := mul_neg_of_pos_of_neg hc h
    have h2 : ¬ 0 < c * q := by linarith
    have h3 : ¬ 0 < q := by linarith
    simp [h, h1, h2, h3]
  · subst h; simp
  · have h1 : 0 < c * q := mul_pos hc h
    simp [h, h1]

theorem ratSign_eq_zero_iff (q : Rat) : ratSign q = 0 ↔ q = 0 := by
  unfold ratSign
  rcases lt_trichotomy q 0 with h | h | h
  · have h3 : ¬ 0 < q := by linarith
    simp [h, h3]; linarith
  · subst h; simp
  · simp [h]; linarith

/-! ### reflections -/

theorem area_map_reflect_y (ps : List Pt) :
    area (ps.map fun p => ⟨p.x, -p.y⟩) = - area ps := by
  rw [area_eq_sum, area_eq_sum, cyclicPairs_map, List.map_map]
  have : (eCross ∘ Prod.map (fun p : Pt => (⟨p.x, -p.y⟩ : Pt)) (fun p => ⟨p.x, -p.y⟩))
      = fun e => (-1 : Rat) * eCross e := by
    funext e; simp [eCross]; ring
  rw [this, List.sum_map_mul_left]
  ring

theorem area_map_reflect_x (ps : List Pt) :
    area (ps.map fun p => ⟨-p.x, p.y⟩) = - area ps := by
  rw [area_eq_sum, area_eq_sum, cyclicPairs_map, List.map_map]
  have : (eCross ∘ Prod.map (fun p : Pt => (⟨-p.x, p.y⟩ : Pt)) (fun p => ⟨-p.x, p.y⟩))
      = fun e => (-1 : Rat) * eCross e := by
    funext e; simp [eCross]; ring
  rw [this, List.sum_map_mul_left]
  ring

/-! ### perimeter -/

theorem nextIdx_lt (ps : List Pt) (i : Nat) (hn : 0 < ps.length) : nextIdx ps i < ps.length :=
  pyMod_lt _ _ hn

theorem perimeterSq_zero (ps : List Pt) (h : areaSign ps = 0) :
    perimeterSq ps = List.replicate ps.length 0 := by
  unfold perimeterSq nextIdx
  rw [h]
  apply List.ext_getElem
  · simp
  · intro i h1 h2
    have hi : i < ps.length := by simpa using h1
    simp only [List.getElem_map, List.getElem_range, List.getElem_replicate, Int.add_zero]
    rw [pyMod_zero_iter _ _ hi]
    unfold distSq; ring

/-- the perimeter terms are determined by length, area sign and the in-range points -/
theorem perimeterSq_map (f : Pt → Pt) (ps : List Pt) (hs : areaSign (ps.map f) = areaSign ps) :
    perimeterSq (ps.map f)
      = (List.range ps.length).map fun i =>
          distSq (f (ps.getD i default)) (f (ps.getD (nextIdx ps i) default)) := by
  unfold perimeterSq
  rw [List.length_map]
  apply List.map_congr_left
  intro i hi
  have hi : i < ps.length := by simpa using hi
  have hn : nextIdx ps i < ps.length := nextIdx_lt ps i (by omega)
  have e : nextIdx (ps.map f) i = nextIdx ps i := by
    unfold nextIdx; rw [hs, List.length_map]
  rw [e, getD_eq_getElem _ _ _ (by simpa using hi), getD_eq_getElem _ _ _ (by simpa using hn),
    getD_eq_getElem _ _ _ hi, getD_eq_getElem _ _ _ hn]
  simp

theorem perimeterSq_perm_cyclic (ps : List Pt) (h : areaSign ps ≠ 0) :
    (perimeterSq ps).Perm ((cyclicPairs ps).map fun e => distSq e.1 e.2) := by
  rcases ratSign_cases (area ps) with h1 | h1 | h1
  · rw [perimeterSq_pos ps h1]
  · exact perimeterSq_neg ps h1
  · exact absurd h1 h

theorem cyclic_distSq_rotate (ps : List Pt) (k : Nat) :
    ((cyclicPairs (ps.rotateLeft k)).map fun e => distSq e.1 e.2).Perm
      ((cyclicPairs ps).map fun e => distSq e.1 e.2) := by
  rw [rotateLeft_eq_rotate, cyclicPairs_rotate]
  exact (List.rotate_perm _ _).map _

theorem cyclic_distSq_reverse (ps : List Pt) :
    ((cyclicPairs ps.reverse).map fun e => distSq e.1 e.2).Perm
      ((cyclicPairs ps).map fun e => distSq e.1 e.2) := by
  refine ((cyclicPairs_reverse_perm' ps).map _).trans ?_
  rw [List.map_map]
  apply List.Perm.of_eq
  apply List.map_congr_left
  intro e _
  exact distSq_comm _ _

/-! ### centroid -/

theorem c20_mean_perm (l l' : List Rat) (h : l.Perm l') : mean l = mean l' := by
  unfold mean
  rw [h.sum_eq, h.length_eq]
  have : l.isEmpty = l'.isEmpty := by
    cases l <;> cases l' <;> simp_all
  rw [this]

theorem sum_map_add_const {α : Type} (l : List α) (f : α → Rat) (c : Rat) :
    (l.map fun a => f a + c).sum = (l.map f).sum + l.length * c := by
  induction l with
  | nil => simp
  | cons a l ih => simp [ih]; ring

theorem mean_map_add {α : Type} (l : List α) (f : α → Rat) (c : Rat) (hl : l ≠ []) :
    mean (l.map fun a => f a + c) = mean (l.map f) + c := by
  unfold mean
  have h1 : (l.map fun a => f a + c).isEmpty = false := by cases l <;> simp_all
  have h2 : (l.map f).isEmpty = false := by cases l <;> simp_all
  have hn : (l.length : Rat) ≠ 0 := by
    cases l with
    | nil => simp at hl
    | cons a l => simp; positivity
  rw [h1, h2, sum_map_add_const]
  simp only [List.length_map, Bool.false_eq_true, if_false]
  field_simp

theorem mean_map_mul {α : Type} (l : List α) (f : α → Rat) (s : Rat) :
    mean (l.map fun a => s * f a) = s * mean (l.map f) := by
  unfold mean
  cases l with
  | nil => simp
  | cons a l =>
    simp only [List.map_cons, List.isEmpty_cons, Bool.false_eq_true, if_false, List.sum_cons,
      List.length_cons, List.length_map]
    rw [List.sum_map_mul_left]
    ring

/-! ### neighbours -/

theorem neighbors_nodup' (m : Mesh) (c : Cell) : (m.neighbors c).Nodup := by
  unfold Mesh.neighbors
  exact (nodup_eraseDups _).erase _

theorem c20_alGet?_mem {β : Type} (k : Id) (l : List (Id × β)) (v : β) (h : alGet? k l = some v) :
    (k, v) ∈ l := by
  induction l with
  | nil => simp [alGet?] at h
  | cons a l ih =>
    obtain ⟨k', v'⟩ := a
    unfold alGet? at h
    split at h
    · rename_i hk; subst hk; simp at h; subst h; simp
    · exact List.mem_cons_of_mem _ (ih h)

theorem mem_ownCells (m : Mesh) (v d : Id) (h : d ∈ m.ownCells v) :
    ∃ V, m.vertex? v = some V ∧ d ∈ V.ownCells := by
  unfold Mesh.ownCells at h
  cases hv : m.vertex? v with
  | none => rw [hv] at h; simp at h
  | some V => rw [hv] at h; exact ⟨V, rfl, by simpa using h⟩

theorem neighbors_symm_aux (m : Mesh) (c d : Cell) (hk : m.keysOk = true) (ho : m.ownCellsOk = true)
    (hc : m.cell? c.id = some c) (hd : m.cell? d.id = some d) (h : d.id ∈ m.neighbors c) :
    c.id ∈ m.neighbors d := by
  rw [mem_neighbors] at h ⊢
  obtain ⟨hne, v, hv, hdv⟩ := h
  obtain ⟨V, hV, hdV⟩ := mem_ownCells m v d.id hdv
  have hmemV : (v, V) ∈ m.vertices := c20_alGet?_mem _ _ _ hV
  have hmemc : (c.id, c) ∈ m.cells := c20_alGet?_mem _ _ _ hc
  have hid : v = V.id := by
    unfold Mesh.keysOk at hk
    simp only [Bool.and_eq_true, List.all_eq_true] at hk
    have := hk.1.1.1.1.1 _ hmemV
    simpa using this
  unfold Mesh.ownCellsOk at ho
  rw [List.all_eq_true] at ho
  have hoV := ho _ hmemV
  simp only [Bool.and_eq_true, List.all_eq_true] at hoV
  obtain ⟨⟨h1, h2⟩, _⟩ := hoV
  have h1d := h1 _ hdV
  rw [hd] at h1d
  have h2c := h2 _ hmemc
  refine ⟨fun e => hne e.symm, v, ?_, ?_⟩
  · rw [hid]; simpa using h1d
  · unfold Mesh.ownCells
    rw [hV]
    have hin : V.id ∈ c.verts := by rw [← hid]; exact hv
    simp at h2c
    rcases h2c with h2c | h2c
    · exact absurd hin h2c
    · simpa using h2c

theorem nextIdx_reverse_idx (ps : List Pt) (i : Nat) (hi : i < ps.length) :
    nextIdx ps.reverse (ps.length - 1 - i) = ps.length - 1 - nextIdx ps i := by
  have hn : 0 < ps.length := by omega
  unfold nextIdx
  rw [show areaSign ps.reverse = - areaSign ps by unfold areaSign; rw [area_reverse', ratSign_neg], List.length_reverse]
  generalize areaSign ps = s
  generalize ps.length = n at *
  have hr : pyMod ((i : Int) + s) n < n := pyMod_lt _ _ hn
  have hrc := pyMod_cast ((i : Int) + s) n hn
  generalize pyMod ((i : Int) + s) n = r at *
  have hdiv := Int.mul_ediv_add_emod ((i : Int) + s) (n : Int)
  have e : ((n - 1 - i : Nat) : Int) + -s
      = ((n - 1 - r : Nat) : Int) + (n : Int) * (-(((i : Int) + s) / (n : Int))) := by
    have h1 : ((n - 1 - i : Nat) : Int) = (n : Int) - 1 - i := by omega
    have h2 : ((n - 1 - r : Nat) : Int) = (n : Int) - 1 - r := by omega
    rw [h1, h2, hrc]
    linarith [hdiv]
  rw [e, pyMod_add_mul_self, pyMod_natCast, Nat.mod_eq_of_lt (by omega)]

theorem nextIdx_reverse' (ps : List Pt) (i : Nat) (hi : i < ps.length) :
    ps.reverse[nextIdx ps.reverse (ps.length - 1 - i)]? = ps[nextIdx ps i]? := by
  have hn : 0 < ps.length := by omega
  have hr := nextIdx_lt ps i hn
  rw [nextIdx_reverse_idx ps i hi, List.getElem?_reverse (by omega)]
  congr 1
  omega

def tri (p a b : Pt) : Rat := eCross (p, a) + eCross (a, b) + eCross (b, p)

theorem crossSumOpen_fan (p q : Pt) (l : List Pt) :
    crossSumOpen (q :: l ++ [p]) + eCross (p, q) = (((q :: l).zip l).map fun e => tri p e.1 e.2).sum := by
  induction l generalizing q with
  | nil => simp [crossSumOpen, eCross]
  | cons r l ih =>
    have := ih r
    simp only [List.cons_append] at this ⊢
    rw [crossSumOpen]
    simp only [List.zip_cons_cons, List.map_cons, List.sum_cons]
    rw [← this]
    simp only [tri, eCross]
    ring

theorem area_tri (p q r : Pt) : area [p, q, r] = -(1/2 : Rat) * tri p q r := by
  simp [area, dot, rollR, tri, eCross]
  ring

theorem area_fan' (p : Pt) (rest : List Pt) :
    area (p :: rest) = ((rest.zip rest.tail).map fun e => area [p, e.1, e.2]).sum := by
  rw [area_eq_sum, ← shoelace2_eq_sum]
  cases rest with
  | nil => simp [shoelace2, crossSumOpen]
  | cons q l =>
    simp only [shoelace2, List.cons_append, List.tail_cons]
    rw [crossSumOpen]
    have h := crossSumOpen_fan p q l
    simp only [eCross, List.cons_append] at h
    have e : (fun e : Pt × Pt => area [p, e.1, e.2]) = fun e => -(1/2 : Rat) * tri p e.1 e.2 := by
      funext e; exact area_tri _ _ _
    rw [e, List.sum_map_mul_left, ← h]
    ring

theorem sum_neg_of_forall_neg (l : List Rat) (hl : l ≠ []) (h : ∀ a ∈ l, a < 0) : l.sum < 0 := by
  induction l with
  | nil => exact absurd rfl hl
  | cons a l ih =>
    rw [List.sum_cons]
    have ha := h a (by simp)
    cases l with
    | nil => simpa using ha
    | cons b l =>
      have := ih (by simp) (fun x hx => h x (List.mem_cons_of_mem _ hx))
      linarith

end Forsys
