/- helper definitions and lemmas for Props/C01matrix.lean -/
import ForsysModel.Proofs.C01
import ForsysModel.Props.C01
import ForsysModel.Props.C02matrix
import Mathlib.Tactic.FieldSimp
namespace Forsys
namespace FMInput

/-! ### vocabulary -/

/-- the model's `get_vector_from_vertex` of the interface in column `c` at the junction `v` (un-normalised):
    the expression `coefficient_placement` (Props/C02matrix.lean) puts into column `c` of the row pair of `v` -/
def tangentAt (inp : FMInput) (c : Nat) (v : Id) : Option Vec :=
  vectorFromVertex (inp.build.used.getD c []) ((inp.build.used.getD c []).map inp.mesh.pt)
    (inp.centers.getD ((inp.usedIdx inp.earr).getD c 0) default) v

/-- the columns whose interface ends at `v` (what `endCount` counts) -/
def endCols (inp : FMInput) (v : Id) : List Nat :=
  (List.range inp.build.used.length).filter fun c => endsAt (inp.build.used.getD c []) v

/-- the coefficient the code stores for an entry pair: component divided by the norm `ℓ`; untouched zero stays zero -/
def unitX (ℓ : Rat) (o : Option Vec) : Rat := match o with | some w => w.x / ℓ | none => 0
def unitY (ℓ : Rat) (o : Option Vec) : Rat := match o with | some w => w.y / ℓ | none => 0

/-- x-row and y-row of a junction: one coefficient per used interface -/
def rowX (inp : FMInput) (len : Id → Nat → Rat) (r : Id × Bool × List (Option Vec)) : List Rat :=
  (List.range inp.build.used.length).map fun c => unitX (len r.1 c) (r.2.2.getD c none)
def rowY (inp : FMInput) (len : Id → Nat → Rat) (r : Id × Bool × List (Option Vec)) : List Rat :=
  (List.range inp.build.used.length).map fun c => unitY (len r.1 c) (r.2.2.getD c none)

/-- `ForceMatrix.matrix` as `_build_matrix` returns it: for every kept junction, in the order of `tj_vertices`,
    the x-row then the y-row (`mat[position_index] = row_x; mat[position_index + 1] = row_y`) -/
def normalisedMatrix (inp : FMInput) (len : Id → Nat → Rat) : Mat :=
  (inp.build.rows.filter fun r => r.2.1).flatMap fun r => [rowX inp len r, rowY inp len r]

/-- the tensions as a vector: one per column -/
def tauVec (n : Nat) (tau : Nat → Rat) : List Rat := (List.range n).map tau

/-- mean of the `n` tensions -/
def meanTension (n : Nat) (tau : Nat → Rat) : Rat := (tauVec n tau).sum / (n : Rat)

/-- true tension divided by the mean true tension, column by column -/
def normalisedTensions (n : Nat) (tau : Nat → Rat) : List Rat :=
  (List.range n).map fun c => tau c / meanTension n tau

/-! ### lists -/

theorem dot_map_map {α : Type} (f g : α → Rat) (l : List α) :
    dot (l.map f) (l.map g) = (l.map fun c => f c * g c).sum := by
  induction l with
  | nil => simp
  | cons a l ih => simp [ih]

theorem sum_map_ite_filter {α : Type} (p : α → Bool) (f : α → Rat) (l : List α) :
    (l.map fun c => if p c = true then f c else 0).sum = ((l.filter p).map f).sum := by
  induction l with
  | nil => simp
  | cons a l ih =>
    simp only [List.map_cons, List.sum_cons, List.filter_cons, ih]
    cases p a <;> simp

theorem sum_pos_of_forall (l : List Rat) (hne : l ≠ []) (h : ∀ v ∈ l, 0 < v) : 0 < l.sum := by
  induction l with
  | nil => exact absurd rfl hne
  | cons a l ih =>
    simp only [List.sum_cons]
    have ha := h a List.mem_cons_self
    by_cases hl : l = []
    · subst hl; simpa using ha
    · have := ih hl (fun v hv => h v (List.mem_cons_of_mem _ hv))
      linarith

theorem endsOf_nil : endsOf [] = [] := by
  simp [endsOf]

/-! ### shape -/

theorem normalisedMatrix_length (inp : FMInput) (len : Id → Nat → Rat) :
    (normalisedMatrix inp len).length = 2 * (inp.build.rows.filter fun r => r.2.1).length := by
  unfold normalisedMatrix
  generalize (inp.build.rows.filter fun r => r.2.1) = L
  induction L with
  | nil => rfl
  | cons a L ih => simp only [List.flatMap_cons, List.length_append, ih, List.length_cons, List.length_nil]; omega

theorem normalisedMatrix_width (inp : FMInput) (len : Id → Nat → Rat) :
    ∀ row ∈ normalisedMatrix inp len, row.length = inp.build.used.length := by
  intro row hrow
  simp only [normalisedMatrix, List.mem_flatMap, List.mem_filter] at hrow
  obtain ⟨r, _, hm⟩ := hrow
  simp only [List.mem_cons, List.not_mem_nil, or_false] at hm
  rcases hm with rfl | rfl
  · simp [rowX]
  · simp [rowY]

theorem normalisedMatrix_shaped (inp : FMInput) (len : Id → Nat → Rat) :
    Shaped (normalisedMatrix inp len) (List.replicate (normalisedMatrix inp len).length 0)
      (normalisedMatrix inp len).length inp.build.used.length :=
  ⟨rfl, by simp, normalisedMatrix_width inp len⟩

theorem normalisedMatrix_pos (inp : FMInput) (len : Id → Nat → Rat)
    (hk : ∃ r ∈ inp.build.rows, r.2.1 = true) : 0 < (normalisedMatrix inp len).length := by
  rw [normalisedMatrix_length]
  obtain ⟨r, hr, hk⟩ := hk
  have : r ∈ inp.build.rows.filter fun r => r.2.1 := List.mem_filter.mpr ⟨hr, hk⟩
  have := List.length_pos_of_mem this
  omega

theorem used_pos_of_row (inp : FMInput) (hk : ∃ r ∈ inp.build.rows, r.2.1 = true) :
    0 < inp.build.used.length := by
  obtain ⟨r, hr, _⟩ := hk
  obtain ⟨h1, _, _⟩ := build_row inp r hr
  rw [build_used]
  by_contra hn
  have : inp.used inp.earr = [] := List.length_eq_zero_iff.mp (by omega)
  rw [this, endsOf_nil] at h1
  exact absurd h1 (by simp)

/-! ### the entries of a kept row -/

/-- entry `c` of a kept row, as an optional vector -/
theorem kept_entry (inp : FMInput) (r : Id × Bool × List (Option Vec)) (hr : r ∈ inp.build.rows)
    (hk : r.2.1 = true) (c : Nat) (hc : c < inp.build.used.length) :
    r.2.2.getD c none = if endsAt (inp.build.used.getD c []) r.1 = true then inp.tangentAt c r.1 else none := by
  rw [List.getD_eq_getElem?_getD, coefficient_placement inp r hr hk c hc]
  rfl

/-- under `htrue` the stored coefficient is the true unit direction where the interface ends at the junction,
    and zero elsewhere -/
theorem unit_entry (inp : FMInput) (len : Id → Nat → Rat) (dir : Id → Nat → Vec)
    (r : Id × Bool × List (Option Vec)) (hr : r ∈ inp.build.rows) (hk : r.2.1 = true)
    (c : Nat) (hc : c < inp.build.used.length)
    (hpos : endsAt (inp.build.used.getD c []) r.1 = true → 0 < len r.1 c)
    (htrue : endsAt (inp.build.used.getD c []) r.1 = true →
      inp.tangentAt c r.1 = some (Vec.smul (len r.1 c) (dir r.1 c))) :
    unitX (len r.1 c) (r.2.2.getD c none)
      = (if endsAt (inp.build.used.getD c []) r.1 = true then (dir r.1 c).x else 0) ∧
    unitY (len r.1 c) (r.2.2.getD c none)
      = (if endsAt (inp.build.used.getD c []) r.1 = true then (dir r.1 c).y else 0) := by
  rw [kept_entry inp r hr hk c hc]
  by_cases he : endsAt (inp.build.used.getD c []) r.1 = true
  · have hl := ne_of_gt (hpos he)
    simp only [if_pos he, htrue he, unitX, unitY, Vec.smul]
    constructor <;> field_simp
  · simp only [if_neg he, unitX, unitY]
    exact ⟨trivial, trivial⟩

/-- the x- and y-equation of a kept junction hold at `tau` when the junction is in balance -/
theorem row_balance (inp : FMInput) (len : Id → Nat → Rat) (dir : Id → Nat → Vec) (tau : Nat → Rat)
    (r : Id × Bool × List (Option Vec)) (hr : r ∈ inp.build.rows) (hk : r.2.1 = true)
    (hpos : ∀ c < inp.build.used.length, endsAt (inp.build.used.getD c []) r.1 = true → 0 < len r.1 c)
    (htrue : ∀ c < inp.build.used.length, endsAt (inp.build.used.getD c []) r.1 = true →
      inp.tangentAt c r.1 = some (Vec.smul (len r.1 c) (dir r.1 c)))
    (hbx : ((inp.endCols r.1).map fun c => tau c * (dir r.1 c).x).sum = 0)
    (hby : ((inp.endCols r.1).map fun c => tau c * (dir r.1 c).y).sum = 0) :
    dot (rowX inp len r) (tauVec inp.build.used.length tau) = 0 ∧
    dot (rowY inp len r) (tauVec inp.build.used.length tau) = 0 := by
  unfold rowX rowY tauVec
  rw [dot_map_map, dot_map_map]
  constructor
  · rw [← hbx, endCols, ← sum_map_ite_filter]
    congr 1
    apply List.map_congr_left
    intro c hc
    rw [List.mem_range] at hc
    rw [(unit_entry inp len dir r hr hk c hc (hpos c hc) (htrue c hc)).1]
    split <;> ring
  · rw [← hby, endCols, ← sum_map_ite_filter]
    congr 1
    apply List.map_congr_left
    intro c hc
    rw [List.mem_range] at hc
    rw [(unit_entry inp len dir r hr hk c hc (hpos c hc) (htrue c hc)).2]
    split <;> ring

/-- `A τ = 0` from row-wise balance -/
theorem mulVec_normalised_zero (inp : FMInput) (len : Id → Nat → Rat) (x : List Rat)
    (h : ∀ r ∈ inp.build.rows, r.2.1 = true → dot (rowX inp len r) x = 0 ∧ dot (rowY inp len r) x = 0) :
    mulVec (normalisedMatrix inp len) x = List.replicate (normalisedMatrix inp len).length 0 := by
  rw [List.eq_replicate_iff]
  refine ⟨by simp [mulVec], ?_⟩
  intro b hb
  simp only [mulVec, List.mem_map] at hb
  obtain ⟨row, hrow, rfl⟩ := hb
  simp only [normalisedMatrix, List.mem_flatMap, List.mem_filter] at hrow
  obtain ⟨r, ⟨hr, hk⟩, hm⟩ := hrow
  simp only [List.mem_cons, List.not_mem_nil, or_false] at hm
  rcases hm with rfl | rfl
  · exact (h r hr hk).1
  · exact (h r hr hk).2

/-! ### tensions -/

theorem tauVec_length (n : Nat) (tau : Nat → Rat) : (tauVec n tau).length = n := by simp [tauVec]

theorem normalisedTensions_eq (n : Nat) (tau : Nat → Rat) :
    normalisedTensions n tau = vscale ((n : Rat) / (tauVec n tau).sum) (tauVec n tau) := by
  unfold normalisedTensions meanTension vscale
  conv_rhs => rw [tauVec, List.map_map]
  apply List.map_congr_left
  intro c _
  simp only [Function.comp]
  rw [div_div_eq_mul_div, div_mul_eq_mul_div, mul_comm]
  rfl

theorem tauVec_sum_pos (n : Nat) (tau : Nat → Rat) (hn : 0 < n) (hpos : ∀ c < n, 0 < tau c) :
    0 < (tauVec n tau).sum := by
  apply sum_pos_of_forall
  · intro h
    have := congrArg List.length h
    simp [tauVec] at this
    omega
  · intro v hv
    simp only [tauVec, List.mem_map, List.mem_range] at hv
    obtain ⟨c, hc, rfl⟩ := hv
    exact hpos c hc

theorem tauVec_nonneg (n : Nat) (tau : Nat → Rat) (hpos : ∀ c < n, 0 < tau c) :
    ∀ v ∈ tauVec n tau, 0 ≤ v := by
  intro v hv
  simp only [tauVec, List.mem_map, List.mem_range] at hv
  obtain ⟨c, hc, rfl⟩ := hv
  exact le_of_lt (hpos c hc)

end FMInput
end Forsys
