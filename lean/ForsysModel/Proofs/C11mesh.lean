/- helper lemmas for Props/C11mesh.lean: `generate_mesh` without merging keeps the mesh consistent -/
import ForsysModel.Props.C08
import ForsysModel.Props.C09
import ForsysModel.Props.C11
namespace Forsys
namespace Mesh

/-! ### part A: the bookkeeping of `generate_mesh` (cells filtered, vertices filtered, edges rebuilt) -/

theorem updCell_cells' (m : Mesh) (k : Id) (f : Cell → Cell) :
    (m.updCell k f).cells = m.cells.map fun p => (p.1, if p.1 = k then f p.2 else p.2) := by
  simp only [updCell]
  apply List.map_congr_left
  rintro ⟨k', c⟩ _
  by_cases h : k' = k <;> simp [h]

/-- a cell with vertex `v` taken out of its cycle -/
def dropV (v : Id) (c : Cell) : Cell := { c with verts := c.verts.filter fun x => x != v }

theorem dropV_of_not_mem (v : Id) (c : Cell) (h : v ∉ c.verts) : dropV v c = c := by
  obtain ⟨i, vs, s⟩ := c
  simp only [dropV, Cell.mk.injEq, true_and, and_true]
  apply List.filter_eq_self.mpr
  intro a ha
  have : a ≠ v := fun hav => h (hav ▸ ha)
  simpa using this

theorem foldl_eraseCell (v : Id) (cs : List Id) (m : Mesh) (hN : CellsNodupP m) :
    (cs.foldl (fun m c => m.updCell c fun cl => { cl with verts := cl.verts.erase v }) m).cells =
      m.cells.map fun p => (p.1, if p.1 ∈ cs then dropV v p.2 else p.2) := by
  induction cs generalizing m with
  | nil => simp
  | cons c cs ih =>
    rw [List.foldl_cons, ih]
    · rw [updCell_cells', List.map_map]
      apply List.map_congr_left
      intro p hp
      have hnd : p.2.verts.Nodup := hN p hp
      simp only [Function.comp]
      by_cases h1 : p.1 = c <;> by_cases h2 : p.1 ∈ cs <;>
        simp [h1, h2, dropV, hnd.erase_eq_filter, List.filter_filter]
    · intro q hq
      rw [updCell_cells'] at hq
      obtain ⟨p, hp, rfl⟩ := List.mem_map.mp hq
      have hnd : p.2.verts.Nodup := hN p hp
      simp only
      split
      · exact hnd.sublist List.erase_sublist
      · exact hnd

theorem foldl_eraseCell_ve (v : Id) (cs : List Id) (m : Mesh) :
    (cs.foldl (fun m c => m.updCell c fun cl => { cl with verts := cl.verts.erase v }) m).vertices = m.vertices ∧
    (cs.foldl (fun m c => m.updCell c fun cl => { cl with verts := cl.verts.erase v }) m).edges = m.edges := by
  apply Mesh.foldl_inv (fun m' => m'.vertices = m.vertices ∧ m'.edges = m.edges)
  · intro m' c _ h; exact h
  · exact ⟨rfl, rfl⟩

theorem gm1_cells (rem : List (Id × Vertex)) (m : Mesh) (hN : CellsNodupP m)
    (hown : ∀ p ∈ rem, ∀ q ∈ m.cells, p.1 ∈ q.2.verts → q.1 ∈ p.2.ownCells) :
    (gm1 m rem).cells = m.cells.map fun q =>
      (q.1, { q.2 with verts := q.2.verts.filter fun x => !(rem.map (·.1)).contains x }) := by
  induction rem generalizing m with
  | nil =>
    simp only [gm1, List.foldl_nil, List.map_nil, List.contains_nil, Bool.not_false]
    have : ∀ q : Id × Cell, (q.1, ({ q.2 with verts := q.2.verts.filter fun _ => true } : Cell)) = q := by
      intro q
      obtain ⟨k, i, vs, sm⟩ := q
      simp
    simp only [this]
    exact (List.map_id' _).symm
  | cons p rem ih =>
    have hstep : (p.2.ownCells.foldl (fun m c => m.updCell c fun cl => { cl with verts := cl.verts.erase p.1 }) m).cells
        = m.cells.map fun q => (q.1, dropV p.1 q.2) := by
      rw [foldl_eraseCell _ _ _ hN]
      apply List.map_congr_left
      intro q hq
      by_cases h : q.1 ∈ p.2.ownCells
      · simp [h]
      · have : p.1 ∉ q.2.verts := fun hh => h (hown p (List.mem_cons_self ..) q hq hh)
        simp [h, dropV_of_not_mem _ _ this]
    have hgm : gm1 m (p :: rem) =
        gm1 (p.2.ownCells.foldl (fun m c => m.updCell c fun cl => { cl with verts := cl.verts.erase p.1 }) m) rem := rfl
    rw [hgm, ih]
    · rw [hstep, List.map_map]
      apply List.map_congr_left
      intro q _
      simp only [Function.comp, dropV, List.filter_filter, List.map_cons, List.contains_cons, Bool.not_or]
      congr 2
      apply List.filter_congr
      intro x _
      rw [Bool.and_comm]
      congr 1
    · intro q hq
      rw [hstep] at hq
      obtain ⟨q0, hq0, rfl⟩ := List.mem_map.mp hq
      exact (hN q0 hq0).sublist List.filter_sublist
    · intro p' hp' q hq hmem
      rw [hstep] at hq
      obtain ⟨q0, hq0, rfl⟩ := List.mem_map.mp hq
      exact hown p' (List.mem_cons_of_mem _ hp') q0 hq0 (List.mem_filter.mp hmem).1

/-- vertices keep key, id and cell list under an operation -/
def VSim (m' m : Mesh) : Prop :=
  ∀ p' ∈ m'.vertices, ∃ p ∈ m.vertices, p'.1 = p.1 ∧ p'.2.id = p.2.id ∧ p'.2.ownCells = p.2.ownCells

theorem VSim.refl (m : Mesh) : VSim m m := fun p hp => ⟨p, hp, rfl, rfl, rfl⟩

theorem VSim.trans {a b c : Mesh} (h1 : VSim a b) (h2 : VSim b c) : VSim a c := by
  intro p hp
  obtain ⟨q, hq, a1, a2, a3⟩ := h1 p hp
  obtain ⟨r, hr, b1, b2, b3⟩ := h2 q hq
  exact ⟨r, hr, a1.trans b1, a2.trans b2, a3.trans b3⟩

theorem VSim.of_vertices_eq {a b : Mesh} (h : a.vertices = b.vertices) : VSim a b := by
  intro p hp; exact ⟨p, h ▸ hp, rfl, rfl, rfl⟩

theorem delEdge_vsim (m : Mesh) (k : Id) : VSim (m.delEdge k) m := by
  intro p' hp'
  obtain ⟨p, hp, a, b, c, _⟩ := delEdge_sim m k p' hp'
  exact ⟨p, hp, a, b, c⟩

theorem mkEdge_vsim (m : Mesh) (k a b : Id) : VSim (m.mkEdge k a b) m := by
  intro p' hp'
  rw [mkEdge_vertices] at hp'
  obtain ⟨p, hp, rfl⟩ := List.mem_map.mp hp'
  refine ⟨p, hp, rfl, ?_, ?_⟩ <;> (simp only; split <;> simp [addEdgeTo_id, addEdgeTo_ownCells])

theorem gm2_vsim (m : Mesh) : VSim (gm2 m) m ∧ (gm2 m).cells = m.cells := by
  unfold gm2
  apply Mesh.foldl_inv (fun m' => VSim m' m ∧ m'.cells = m.cells)
  · intro m' a _ ⟨h1, h2⟩
    exact ⟨(delEdge_vsim m' a.1).trans h1, by rw [delEdge_cells]; exact h2⟩
  · exact ⟨VSim.refl m, rfl⟩

def segEdge (p : Nat × Id × Id) : Id × SEdge := ((p.1 : Int), { id := (p.1 : Int), v1 := p.2.1, v2 := p.2.2 })

theorem foldl_mkEdge_nat_edges (l : List (Nat × Id × Id)) (m : Mesh)
    (hnd : (l.map (·.1)).Nodup) (hdis : ∀ i : Nat, i ∈ l.map (·.1) → (i : Int) ∉ m.edges.map (·.1)) :
    (l.foldl (fun m p => m.mkEdge (p.1 : Int) p.2.1 p.2.2) m).edges = m.edges ++ l.map segEdge := by
  induction l generalizing m with
  | nil => simp
  | cons a l ih =>
    simp only [List.map_cons, List.nodup_cons, List.mem_cons, forall_eq_or_imp] at hnd hdis
    simp only [List.foldl_cons]
    rw [ih _ hnd.2]
    · rw [mkEdge_edges, filter_ne_of_not_mem_keys _ _ hdis.1]
      simp [segEdge]
    · intro i hi
      rw [mkEdge_ekeys _ _ _ _ hdis.1]
      simp only [List.mem_append, List.mem_singleton, not_or]
      refine ⟨hdis.2 i hi, ?_⟩
      intro hia
      have : i = a.1 := by omega
      exact hnd.1 (this ▸ hi)

theorem foldl_mkEdge_vsim (l : List (Nat × Id × Id)) (m : Mesh) :
    VSim (l.foldl (fun m p => m.mkEdge (p.1 : Int) p.2.1 p.2.2) m) m ∧
    (l.foldl (fun m p => m.mkEdge (p.1 : Int) p.2.1 p.2.2) m).cells = m.cells := by
  apply Mesh.foldl_inv (fun m' => VSim m' m ∧ m'.cells = m.cells)
  · intro m' a _ ⟨h1, h2⟩
    exact ⟨(mkEdge_vsim m' _ _ _).trans h1, h2⟩
  · exact ⟨VSim.refl m, rfl⟩

/-- the mesh returned by `generate_mesh(..., replace_short_edges=False)`, in the staged form of Proofs/C09 -/
def gmR (m : Mesh) (removed : List (Id × Vertex)) (used : List Id) (segs : List (Id × Id)) : Mesh :=
  { gm4 (gm2 (gm1 m removed)) used segs with
    cells := (gm4 (gm2 (gm1 m removed)) used segs).cells.filter fun p => !p.2.verts.isEmpty }

def filtC (used : List Id) (q : Id × Cell) : Id × Cell :=
  (q.1, { q.2 with verts := q.2.verts.filter fun x => used.contains x })

theorem gmR_cells (m : Mesh) (used : List Id) (segs : List (Id × Id)) (hK : KeysP m) (hC : OwnCellsP m)
    (hR : RefsP m) (hN : CellsNodupP m) :
    (gmR m (m.vertices.filter fun p => !(used.contains p.1)) used segs).cells =
      (m.cells.map (filtC used)).filter fun p => !p.2.verts.isEmpty := by
  have h4 : (gm4 (gm2 (gm1 m (m.vertices.filter fun p => !(used.contains p.1)))) used segs).cells =
      (gm1 m (m.vertices.filter fun p => !(used.contains p.1))).cells := by
    unfold gm4
    rw [(foldl_mkEdge_vsim _ _).2]
    exact (gm2_vsim _).2
  simp only [gmR, h4]
  congr 1
  rw [gm1_cells _ _ hN]
  · apply List.map_congr_left
    intro q hq
    simp only [filtC]
    congr 2
    apply List.filter_congr
    intro x hx
    have hxk : x ∈ m.vertices.map (·.1) := (hR.2 q hq).2 x hx
    by_cases hu : used.contains x = true
    · simp only [hu, Bool.not_eq_eq_eq_not, Bool.not_true, List.contains_eq_mem, decide_eq_false_iff_not,
        List.mem_map, List.mem_filter, not_exists, not_and, and_imp]
      intro p _ hpu hpx
      subst hpx
      exact hpu (by simpa using hu)
    · simp only [hu, Bool.not_eq_eq_eq_not, Bool.not_false, List.contains_eq_mem, decide_eq_true_eq,
        List.mem_map, List.mem_filter]
      obtain ⟨p, hp, rfl⟩ := List.mem_map.mp hxk
      exact ⟨p, ⟨hp, by simpa using hu⟩, rfl⟩
  · intro p hp q hq hmem
    have hp' := (List.mem_filter.mp hp).1
    have := (hC p hp').2.1 q hq (by rw [← hK.1 p hp']; exact hmem)
    rw [hK.2.2.1 q hq]
    exact this

theorem gmR_vsim (m : Mesh) (removed : List (Id × Vertex)) (used : List Id) (segs : List (Id × Id)) :
    ∀ p' ∈ (gmR m removed used segs).vertices, ∃ p ∈ m.vertices,
      p'.1 = p.1 ∧ p'.2.id = p.2.id ∧ p'.2.ownCells = p.2.ownCells ∧ used.contains p.1 = true := by
  intro p' hp'
  have hp'' : p' ∈ (gm4 (gm2 (gm1 m removed)) used segs).vertices := hp'
  unfold gm4 at hp''
  obtain ⟨p1, hp1, a1, a2, a3⟩ := (foldl_mkEdge_vsim _ _).1 p' hp''
  simp only [List.mem_filter] at hp1
  obtain ⟨p2, hp2, b1, b2, b3⟩ := (gm2_vsim _).1 p1 hp1.1
  rw [(gm1_ve m removed).1] at hp2
  exact ⟨p2, hp2, a1.trans b1, a2.trans b2, a3.trans b3, by rw [← b1]; exact hp1.2⟩

theorem gmR_edges (m : Mesh) (removed : List (Id × Vertex)) (used : List Id) (segs : List (Id × Id)) :
    (gmR m removed used segs).edges = (List.zip (List.range segs.length) segs).map segEdge := by
  have : (gmR m removed used segs).edges = (gm4 (gm2 (gm1 m removed)) used segs).edges := rfl
  rw [this]
  unfold gm4
  rw [foldl_mkEdge_nat_edges]
  · rfl
  · rw [List.map_fst_zip (by simp)]
    exact List.nodup_range
  · simp

theorem gmR_vkeys (m : Mesh) (used : List Id) (segs : List (Id × Id)) :
    (gmR m (m.vertices.filter fun p => !(used.contains p.1)) used segs).vertices.map (·.1) =
      (m.vertices.map (·.1)).filter fun k => used.contains k := by
  have h : VSim (gm2 (gm1 m (m.vertices.filter fun p => !(used.contains p.1)))) m ∧
      (gm2 (gm1 m (m.vertices.filter fun p => !(used.contains p.1)))).vertices.map (·.1) = m.vertices.map (·.1) := by
    refine ⟨?_, ?_⟩
    · exact (gm2_vsim _).1.trans (VSim.of_vertices_eq (gm1_ve m _).1)
    · unfold gm2
      have := Mesh.foldl_inv (fun m' : Mesh => m'.vertices.map (·.1) = m.vertices.map (·.1))
        (fun (m : Mesh) (p : Id × SEdge) => m.delEdge p.1)
        (gm1 m (m.vertices.filter fun p => !(used.contains p.1))).edges
        (fun m' a _ h => by rw [delEdge_vkeys]; exact h)
        (gm1 m (m.vertices.filter fun p => !(used.contains p.1))) (by rw [(gm1_ve m _).1])
      exact this
  have hv : (gmR m (m.vertices.filter fun p => !(used.contains p.1)) used segs).vertices =
      (gm4 (gm2 (gm1 m (m.vertices.filter fun p => !(used.contains p.1)))) used segs).vertices := rfl
  rw [hv]
  unfold gm4
  have := Mesh.foldl_inv (fun m' : Mesh => m'.vertices.map (·.1) =
      ((gm2 (gm1 m (m.vertices.filter fun p => !(used.contains p.1)))).vertices.filter fun p => used.contains p.1).map (·.1))
    (fun (m : Mesh) (p : Nat × Id × Id) => m.mkEdge (p.1 : Int) p.2.1 p.2.2)
    (List.zip (List.range segs.length) segs)
    (fun m' a _ h => by rw [mkEdge_vkeys]; exact h)
    { vertices := (gm2 (gm1 m (m.vertices.filter fun p => !(used.contains p.1)))).vertices.filter fun p => used.contains p.1,
      edges := [], cells := (gm2 (gm1 m (m.vertices.filter fun p => !(used.contains p.1)))).cells } rfl
  rw [this, ← h.2, List.filter_map]
  rfl

/-- part A: the staged result is consistent as soon as the rebuilt segments join the filtered cycles -/
theorem gmR_consP (m : Mesh) (used : List Id) (segs : List (Id × Id)) (hC : ConsP m)
    (hsegs : ∀ s ∈ segs, s.1 ∈ used ∧ s.2 ∈ used)
    (hused : ∀ v ∈ used, v ∈ m.vertices.map (·.1)) :
    let R := gmR m (m.vertices.filter fun p => !(used.contains p.1)) used segs
    KeysP R ∧ OwnEdgesP R ∧ OwnCellsP R ∧ RefsP R ∧ CellsNodupP R ∧
    ((∀ q ∈ m.cells, q.2.verts.filter (fun x => used.contains x) ≠ [] →
      ∀ ab ∈ cyclicPairs (q.2.verts.filter fun x => used.contains x), ab ∈ segs ∨ (ab.2, ab.1) ∈ segs) →
      CyclesJoinedP R) := by
  intro R0
  show KeysP R0 ∧ OwnEdgesP R0 ∧ OwnCellsP R0 ∧ RefsP R0 ∧ CellsNodupP R0 ∧ (_ → CyclesJoinedP R0)
  change KeysP (gmR m (m.vertices.filter fun p => !(used.contains p.1)) used segs) ∧
    OwnEdgesP (gmR m (m.vertices.filter fun p => !(used.contains p.1)) used segs) ∧
    OwnCellsP (gmR m (m.vertices.filter fun p => !(used.contains p.1)) used segs) ∧
    RefsP (gmR m (m.vertices.filter fun p => !(used.contains p.1)) used segs) ∧
    CellsNodupP (gmR m (m.vertices.filter fun p => !(used.contains p.1)) used segs) ∧
    (_ → CyclesJoinedP (gmR m (m.vertices.filter fun p => !(used.contains p.1)) used segs))
  clear R0
  obtain ⟨hK, hE, hOC, hR, hN, hJ⟩ := hC
  obtain ⟨k1, k2, k3, k4, k5, k6⟩ := hK
  have hKm : KeysP m := ⟨k1, k2, k3, k4, k5, k6⟩
  have F1 := gmR_cells m used segs hKm hOC hR hN
  have F2 := gmR_vsim m (m.vertices.filter fun p => !(used.contains p.1)) used segs
  have F3 := gmR_vkeys m used segs
  have F4 := gmR_edges m (m.vertices.filter fun p => !(used.contains p.1)) used segs
  have F5 : OwnEdgesP (gmR m (m.vertices.filter fun p => !(used.contains p.1)) used segs) :=
    gm_ownEdgesP m _ used segs (fun c => c.filter fun p => !p.2.verts.isEmpty) hKm hE
  generalize gmR m (m.vertices.filter fun p => !(used.contains p.1)) used segs = R at F1 F2 F3 F4 F5 ⊢
  have hcell : ∀ q' ∈ R.cells, ∃ q ∈ m.cells, q' = filtC used q ∧ q'.2.verts ≠ [] := by
    intro q' hq'
    rw [F1] at hq'
    obtain ⟨h1, h2⟩ := List.mem_filter.mp hq'
    obtain ⟨q, hq, rfl⟩ := List.mem_map.mp h1
    refine ⟨q, hq, rfl, ?_⟩
    intro h0
    simp [h0] at h2
  have hckeys : (R.cells.map (·.1)).Nodup := by
    rw [F1]
    refine k6.sublist ?_
    have : m.cells.map (·.1) = (m.cells.map (filtC used)).map (·.1) := by
      rw [List.map_map]; rfl
    rw [this]
    exact List.filter_sublist.map _
  have hvmem : ∀ v, v ∈ used → v ∈ R.vertices.map (·.1) := by
    intro v hv
    rw [F3, List.mem_filter]
    exact ⟨hused v hv, by simpa using hv⟩
  refine ⟨⟨?_, ?_, ?_, ?_, ?_, hckeys⟩, F5, ?_, ⟨?_, ?_⟩, ?_, ?_⟩
  · intro p' hp'
    obtain ⟨p, hp, a1, a2, _⟩ := F2 p' hp'
    rw [a1, a2]; exact k1 p hp
  · intro q hq
    rw [F4] at hq
    obtain ⟨s, _, rfl⟩ := List.mem_map.mp hq
    rfl
  · intro q' hq'
    obtain ⟨q, hq, rfl, _⟩ := hcell q' hq'
    exact k3 q hq
  · rw [F3]; exact k4.sublist List.filter_sublist
  · rw [F4, List.map_map]
    have : (List.zip (List.range segs.length) segs).map ((fun x => x.1) ∘ segEdge) =
        ((List.zip (List.range segs.length) segs).map (·.1)).map (fun (n : Nat) => (n : Int)) := by
      rw [List.map_map]; rfl
    rw [this, List.map_fst_zip (by simp)]
    refine List.Pairwise.map _ ?_ List.nodup_range
    intro a b h h'; exact h (Int.ofNat_inj.mp h')
  · -- own cells
    intro p' hp'
    obtain ⟨p, hp, a1, a2, a3, a4⟩ := F2 p' hp'
    obtain ⟨o1, o2, o3⟩ := hOC p hp
    rw [a2, a3]
    refine ⟨?_, ?_, o3⟩
    · intro c hc
      obtain ⟨cl, hcl, hin⟩ := o1 c hc
      have hmem := alGet?_some_mem hcl
      have hin' : p.2.id ∈ (filtC used (c, cl)).2.verts := by
        simp only [filtC, List.mem_filter]
        exact ⟨hin, by rw [← k1 p hp]; exact a4⟩
      refine ⟨(filtC used (c, cl)).2, ?_, hin'⟩
      apply alGet?_of_mem hckeys
      rw [F1, List.mem_filter]
      refine ⟨List.mem_map.mpr ⟨(c, cl), hmem, rfl⟩, ?_⟩
      cases hv : (filtC used (c, cl)).2.verts with
      | nil => rw [hv] at hin'; simp at hin'
      | cons _ _ => simp
    · intro q' hq' hin
      obtain ⟨q, hq, rfl, _⟩ := hcell q' hq'
      simp only [filtC, List.mem_filter] at hin
      exact o2 q hq hin.1
  · -- refs, edges
    intro q hq
    rw [F4] at hq
    obtain ⟨s, hs, rfl⟩ := List.mem_map.mp hq
    have hs2 := (List.of_mem_zip hs).2
    have := hsegs s.2 hs2
    exact ⟨rfl, hvmem _ this.1, hvmem _ this.2⟩
  · intro q' hq'
    obtain ⟨q, hq, rfl, _⟩ := hcell q' hq'
    refine ⟨(hR.2 q hq).1, ?_⟩
    intro v hv
    simp only [filtC, List.mem_filter] at hv
    exact hvmem v (by simpa using hv.2)
  · intro q' hq'
    obtain ⟨q, hq, rfl, _⟩ := hcell q' hq'
    exact (hN q hq).sublist List.filter_sublist
  · intro hcyc q' hq' ab hab
    obtain ⟨q, hq, rfl, hne⟩ := hcell q' hq'
    have hseg : ∀ x y, (x, y) ∈ segs → ∃ e ∈ R.edges, e.2.v1 = x ∧ e.2.v2 = y := by
      intro x y hxy
      obtain ⟨i, hi, hget⟩ := List.getElem_of_mem hxy
      refine ⟨segEdge (i, (x, y)), ?_, rfl, rfl⟩
      rw [F4]
      apply List.mem_map.mpr
      refine ⟨(i, (x, y)), ?_, rfl⟩
      rw [List.mem_iff_getElem]
      refine ⟨i, by simpa using hi, ?_⟩
      simp [hget]
    rcases hcyc q hq hne ab hab with h | h
    · obtain ⟨e, he, h1, h2⟩ := hseg ab.1 ab.2 h
      exact ⟨e, he, Or.inl ⟨h1, h2⟩⟩
    · obtain ⟨e, he, h1, h2⟩ := hseg ab.2 ab.1 h
      exact ⟨e, he, Or.inr ⟨h1, h2⟩⟩

end Mesh

/-! ### part B: the filtered cycle of a cell is the chain of its filtered interfaces -/

section partB
variable {α : Type}

theorem closeAux_mem_of_group (f : α) (gs : List (List α)) (g : List α) (hg : g ∈ gs) :
    ∃ x, g ++ [x] ∈ closeAux f gs := by
  induction gs with
  | nil => simp at hg
  | cons g' gs ih =>
    rcases List.mem_cons.mp hg with rfl | h
    · exact ⟨(gs.head?.bind List.head?).getD f, by simp [closeAux]⟩
    · obtain ⟨x, hx⟩ := ih h
      exact ⟨x, by simp [closeAux, hx]⟩

theorem closeAux_mem_elems (f : α) (gs : List (List α)) :
    ∀ p ∈ closeAux f gs, ∀ x ∈ p, x ∈ gs.flatten ∨ x = f := by
  induction gs with
  | nil => simp [closeAux]
  | cons g gs ih =>
    intro p hp x hx
    simp only [closeAux, List.mem_cons] at hp
    rcases hp with rfl | hp
    · simp only [List.mem_append, List.mem_singleton] at hx
      rcases hx with hx | hx
      · left; simp [hx]
      · cases gs with
        | nil => right; simpa using hx
        | cons g' gs =>
          cases g' with
          | nil => right; simpa using hx
          | cons a' r' => left; simp at hx; simp [hx]
    · rcases ih p hp x hx with h | h
      · left; simp [h]
      · right; exact h

theorem closeAux_filter (U : α → Bool) (f : α) (hf : U f = true) (gs : List (List α))
    (hh : ∀ g ∈ gs, ∃ a r, g = a :: r ∧ U a = true) :
    closeAux f (gs.map (List.filter U)) = (closeAux f gs).map (List.filter U) := by
  induction gs with
  | nil => simp [closeAux]
  | cons g gs ih =>
    have ih' := ih (fun g hg => hh g (List.mem_cons_of_mem _ hg))
    simp only [List.map_cons, closeAux, ih', List.filter_append]
    congr 2
    cases gs with
    | nil => simp [hf]
    | cons g' gs =>
      obtain ⟨a', r', rfl, ha'⟩ := hh g' (by simp)
      simp [ha']

theorem cyclicPairs_filter_groups (U : α → Bool) (a : α) (r : List α) (gs : List (List α))
    (hh : ∀ g ∈ (a :: r) :: gs, ∃ a r, g = a :: r ∧ U a = true) :
    cyclicPairs ((((a :: r) :: gs).flatten).filter U) =
      (((closeAux a ((a :: r) :: gs)).map (List.filter U)).map fun p => List.zip p p.tail).flatten := by
  have ha : U a = true := by
    obtain ⟨a', r', h, hu⟩ := hh (a :: r) (by simp)
    simp only [List.cons.injEq] at h
    rw [h.1]; exact hu
  rw [← closeAux_filter U a ha _ hh, closeAux_pairs]
  · rw [List.filter_flatten]
    simp only [List.map_cons, List.flatten_cons, List.filter_cons, ha, if_true, List.cons_append]
    rw [cyclicPairs_cons]
  · intro g hg
    obtain ⟨g0, hg0, rfl⟩ := List.mem_map.mp hg
    obtain ⟨a', r', rfl, hu⟩ := hh g0 hg0
    simp [hu]

theorem mem_zip_tail_iff (x y : α) (Q : List α) :
    (x, y) ∈ List.zip Q Q.tail ↔ ∃ l1 l2, Q = l1 ++ x :: y :: l2 := by
  induction Q with
  | nil => simp
  | cons a t ih =>
    cases t with
    | nil =>
      simp only [List.tail_cons, List.zip_nil_right, List.not_mem_nil, false_iff, not_exists]
      intro l1 l2 h
      have := congrArg List.length h
      simp at this
      omega
    | cons b t' =>
      simp only [List.tail_cons, List.zip_cons_cons, List.mem_cons, Prod.mk.injEq]
      simp only [List.tail_cons] at ih
      rw [ih]
      constructor
      · rintro (⟨rfl, rfl⟩ | ⟨l1, l2, h⟩)
        · exact ⟨[], t', rfl⟩
        · exact ⟨a :: l1, l2, by rw [h]; rfl⟩
      · rintro ⟨l1, l2, h⟩
        cases l1 with
        | nil =>
          simp only [List.nil_append, List.cons.injEq] at h
          exact Or.inl ⟨h.1.symm, h.2.1.symm⟩
        | cons c l1 =>
          simp only [List.cons_append, List.cons.injEq] at h
          exact Or.inr ⟨l1, l2, h.2⟩

theorem mem_zip_tail_reverse (x y : α) (Q : List α) (h : (x, y) ∈ List.zip Q Q.tail) :
    (y, x) ∈ List.zip Q.reverse Q.reverse.tail := by
  rw [mem_zip_tail_iff] at h ⊢
  obtain ⟨l1, l2, rfl⟩ := h
  exact ⟨l2.reverse, l1.reverse, by simp⟩

theorem filter_mem_of_sublist_nodup [DecidableEq α] {S d : List α} (hs : S.Sublist d) (hd : d.Nodup) :
    d.filter (fun v => decide (v ∈ S)) = S := by
  induction hs with
  | slnil => rfl
  | cons a hs ih =>
    rename_i S l
    rw [List.nodup_cons] at hd
    have : a ∉ S := fun h => hd.1 (hs.subset h)
    simp [this, ih hd.2]
  | cons_cons a hs ih =>
    rename_i S l
    rw [List.nodup_cons] at hd
    simp only [List.filter_cons, List.mem_cons, true_or, decide_true, if_true, List.cons.injEq, true_and]
    refine Eq.trans ?_ (ih hd.2)
    apply List.filter_congr
    intro x hx
    have : x ≠ a := fun h => hd.1 (h ▸ hx)
    simp [this]

/-- the join statement for one cell that has a junction -/
theorem cell_hcyc (isJ : α → Bool) (U : α → Bool) (cyc : List α) (hj : ∃ a ∈ cyc, isJ a = true)
    (segs : List (α × α))
    (hends : ∀ P ∈ cellPaths isJ cyc, ∀ a, P.head? = some a → U a = true)
    (hpairs : ∀ P ∈ cellPaths isJ cyc, ∀ ab ∈ List.zip (P.filter U) (P.filter U).tail,
      ab ∈ segs ∨ (ab.2, ab.1) ∈ segs) :
    ∀ ab ∈ cyclicPairs (cyc.filter U), ab ∈ segs ∨ (ab.2, ab.1) ∈ segs := by
  intro ab hab
  obtain ⟨l1, l2, h1, h2⟩ := cellGroups_flatten_rotation isJ cyc hj
  rcases cellPaths_cases isJ cyc with ⟨hG, _⟩ | ⟨a, r, gs, hG, ha, hp⟩
  · exfalso
    have : cellGroups isJ cyc ≠ [] := by
      rw [cellGroups_eq]
      intro h0
      exact splitAux_groups_ne_nil isJ cyc hj ((appendLast_eq_nil _ _).1 h0)
    exact this hG
  · have hh : ∀ g ∈ (a :: r) :: gs, ∃ a r, g = a :: r ∧ U a = true := by
      intro g hg
      obtain ⟨a', r', rfl, _, _⟩ := (cellGroups_shape' isJ cyc) g (hG ▸ hg)
      refine ⟨a', r', rfl, ?_⟩
      obtain ⟨x, hx⟩ := closeAux_mem_of_group a _ _ hg
      exact hends _ (hp ▸ hx) a' (by simp)
    have key := cyclicPairs_filter_groups U a r gs hh
    rw [← hp, ← hG, h2, List.filter_append] at key
    rw [h1, List.filter_append] at hab
    have hab' : ab ∈ cyclicPairs (l2.filter U ++ l1.filter U) :=
      (cyclicPairs_rotation_perm (l1.filter U) (l2.filter U)).mem_iff.mpr hab
    rw [key] at hab'
    simp only [List.mem_flatten, List.mem_map] at hab'
    obtain ⟨z, ⟨Q, ⟨P, hP, rfl⟩, rfl⟩, hz⟩ := hab'
    exact hpairs P hP ab hz

theorem cellPaths_elems (isJ : α → Bool) (cyc : List α) :
    ∀ P ∈ cellPaths isJ cyc, ∀ x ∈ P, x ∈ cyc := by
  intro P hP x hx
  rcases cellPaths_cases isJ cyc with ⟨_, h0⟩ | ⟨a, r, gs, hG, ha, hp⟩
  · rw [h0] at hP; simp at hP
  · rw [hp] at hP
    have hfl : ∀ y, y ∈ (cellGroups isJ cyc).flatten → y ∈ cyc := by
      intro y hy
      rw [cellGroups_eq] at hy
      have hf := splitAux_flatten' isJ cyc
      by_cases hnil : (splitAux isJ cyc).2 = []
      · rw [hnil] at hy; simp [appendLast] at hy
      · rw [appendLast_flatten _ _ hnil] at hy
        rw [← hf]
        simp only [List.mem_append] at hy ⊢
        exact hy.symm
    rcases closeAux_mem_elems a _ P hP x hx with h | h
    · exact hfl x (hG ▸ h)
    · exact hfl x (by rw [hG, h]; simp)

theorem cellPaths_dropLast_nodup (isJ : α → Bool) (cyc : List α) (hnd : cyc.Nodup) :
    ∀ P ∈ cellPaths isJ cyc, P.dropLast.Nodup := by
  intro P hP
  have hfl : (cellGroups isJ cyc).flatten.Nodup := by
    rw [cellGroups_eq]
    have hf := splitAux_flatten' isJ cyc
    by_cases hnil : (splitAux isJ cyc).2 = []
    · rw [hnil]; simp [appendLast]
    · rw [appendLast_flatten _ _ hnil]
      rw [← hf] at hnd
      exact (List.perm_append_comm.nodup_iff).mp hnd
  rw [← cellPaths_cover] at hfl
  exact (List.pairwise_flatten.mp hfl).1 _ (List.mem_map.mpr ⟨P, hP, rfl⟩)

end partB

/-! ### part C: assembling -/

section partC
variable {α : Type}

/-- on an interface `a :: mid ++ [b]` whose interior avoids its ends, keeping exactly the vertices that the
    resampling rule keeps gives the resampled interface, in order -/
theorem filter_eq_pick [DecidableEq α] (ne : Nat) (hne : 1 ≤ ne) (a b : α) (mid : List α)
    (hd : (a :: mid).Nodup) (hb : b ∉ mid) (U : α → Bool)
    (hU1 : ∀ v ∈ pick ne (a :: (mid ++ [b])), U v = true)
    (hU2 : ∀ v ∈ a :: (mid ++ [b]), U v = true → v ∈ pick ne (a :: (mid ++ [b]))) :
    (a :: (mid ++ [b])).filter U = pick ne (a :: (mid ++ [b])) := by
  by_cases h : ne < (a :: (mid ++ [b])).length
  · have hlast : (a :: (mid ++ [b])).getLast? = some b := by
      rw [← List.cons_append, List.getLast?_concat]
    have hpl := pick_long ne _ h
    rw [hlast] at hpl
    simp only [Option.toList_some] at hpl
    generalize hS : ((List.range ne).filterMap fun i =>
      (a :: (mid ++ [b]))[((a :: (mid ++ [b])).length * i) / ne]?) = S at hpl
    have hlen : (S ++ [b]).length = ne + 1 := by rw [← hpl]; exact pick_length_long ne _ h
    have hSlen : S.length = ne := by simpa using hlen
    have hsub : (S ++ [b]).Sublist ((a :: mid) ++ [b]) := by
      rw [← hpl]; exact pick_sublist ne _
    have hSsub : S.Sublist (a :: mid) := by
      have := hsub.reverse
      simp only [List.reverse_append, List.reverse_cons, List.reverse_nil, List.nil_append,
        List.singleton_append] at this
      have h2 := List.cons_sublist_cons.mp this
      have h3 := h2.reverse
      simpa using h3
    have haS : a ∈ S := by
      have h0 := pick_getElem ne _ h 0 (by omega)
      rw [hpl] at h0
      simp only [Nat.mul_zero, Nat.zero_div, List.getElem?_cons_zero] at h0
      rw [List.getElem?_append_left (by omega)] at h0
      exact List.mem_of_getElem? h0
    have hUb : U b = true := hU1 b (by rw [hpl]; simp)
    rw [hpl] at hU1 hU2 ⊢
    rw [← List.cons_append, List.filter_append]
    have : [b].filter U = [b] := by simp [hUb]
    rw [this]
    congr 1
    rw [← filter_mem_of_sublist_nodup hSsub hd]
    apply List.filter_congr
    intro v hv
    rw [Bool.eq_iff_iff]
    simp only [decide_eq_true_eq]
    constructor
    · intro hu
      have := hU2 v (by rw [← List.cons_append]; exact List.mem_append_left _ hv) hu
      rcases List.mem_append.mp this with h1 | h1
      · exact h1
      · simp only [List.mem_singleton] at h1
        subst h1
        rcases List.mem_cons.mp hv with h2 | h2
        · rw [h2]; exact haS
        · exact absurd h2 hb
    · intro hs
      exact hU1 v (List.mem_append_left _ hs)
  · rw [pick_short ne _ (by omega)] at hU1 ⊢
    exact List.filter_eq_self.mpr hU1

end partC

namespace Mesh

theorem generateMesh_false_eq (m : Mesh) (ne : Nat) :
    (m.generateMesh ne false).mesh =
      gmR m (m.vertices.filter fun p => !(((m.bigEdgesList.map (pick ne)).flatten).contains p.1))
        ((m.bigEdgesList.map (pick ne)).flatten)
        (((m.bigEdgesList.map (pick ne)).map fun be => List.zip be be.tail).flatten) := rfl

theorem bigEdges_from_cell (m : Mesh) (e : List Id) (he : e ∈ m.bigEdgesList) :
    ∃ q ∈ m.cells, e ∈ cellPaths m.isJunction q.2.verts := by
  have := dedup_sub _ e he
  simp only [List.mem_flatten, List.mem_map] at this
  obtain ⟨l, ⟨q, hq, rfl⟩, hl⟩ := this
  exact ⟨q, hq, hl⟩

theorem bigEdges_complete (m : Mesh) (q : Id × Cell) (hq : q ∈ m.cells) (P : List Id)
    (hP : P ∈ cellPaths m.isJunction q.2.verts) : P ∈ m.bigEdgesList ∨ P.reverse ∈ m.bigEdgesList := by
  apply dedup_complete
  simp only [List.mem_flatten, List.mem_map]
  exact ⟨_, ⟨q, hq, rfl⟩, hP⟩

/-- five clauses hold unconditionally; the sixth as soon as the rebuilt segments join the filtered cycles -/
theorem generateMesh_false_clauses (m : Mesh) (ne : Nat) (hC : ConsP m) :
    KeysP (m.generateMesh ne false).mesh ∧ OwnEdgesP (m.generateMesh ne false).mesh ∧
    OwnCellsP (m.generateMesh ne false).mesh ∧ RefsP (m.generateMesh ne false).mesh ∧
    CellsNodupP (m.generateMesh ne false).mesh ∧
    ((∀ q ∈ m.cells, q.2.verts.filter (fun x => ((m.bigEdgesList.map (pick ne)).flatten).contains x) ≠ [] →
      ∀ ab ∈ cyclicPairs (q.2.verts.filter fun x => ((m.bigEdgesList.map (pick ne)).flatten).contains x),
        ab ∈ (((m.bigEdgesList.map (pick ne)).map fun be => List.zip be be.tail).flatten) ∨
        (ab.2, ab.1) ∈ (((m.bigEdgesList.map (pick ne)).map fun be => List.zip be be.tail).flatten)) →
      CyclesJoinedP (m.generateMesh ne false).mesh) := by
  rw [generateMesh_false_eq]
  have hR := hC.2.2.2.1
  have hmemU : ∀ e ∈ m.bigEdgesList, ∀ v ∈ pick ne e, v ∈ (m.bigEdgesList.map (pick ne)).flatten := by
    intro e he v hv
    exact List.mem_flatten.mpr ⟨_, List.mem_map.mpr ⟨e, he, rfl⟩, hv⟩
  apply gmR_consP m _ _ hC
  · intro s hs
    simp only [List.mem_flatten, List.mem_map] at hs
    obtain ⟨z, ⟨be, ⟨e, he, rfl⟩, rfl⟩, hz⟩ := hs
    have := List.of_mem_zip hz
    exact ⟨hmemU e he _ this.1, hmemU e he _ (List.mem_of_mem_tail this.2)⟩
  · intro v hv
    simp only [List.mem_flatten, List.mem_map] at hv
    obtain ⟨be, ⟨e, he, rfl⟩, hv⟩ := hv
    obtain ⟨q, hq, hP⟩ := bigEdges_from_cell m e he
    exact (hR.2 q hq).2 v (cellPaths_elems _ _ e hP v ((pick_sublist ne e).subset hv))

/-- the join statement for all cells from the two decidable hypotheses -/
theorem generateMesh_false_hcyc (m : Mesh) (ne : Nat) (hC : ConsP m) (hne : 1 ≤ ne)
    (hanch : ∀ q ∈ m.cells, (∃ a ∈ q.2.verts, m.isJunction a = true) ∨
      ∀ v ∈ q.2.verts, v ∉ (m.bigEdgesList.map (pick ne)).flatten)
    (hagree : ∀ e ∈ m.bigEdgesList, ∀ v ∈ e, v ∈ (m.bigEdgesList.map (pick ne)).flatten → v ∈ pick ne e) :
    ∀ q ∈ m.cells, q.2.verts.filter (fun x => ((m.bigEdgesList.map (pick ne)).flatten).contains x) ≠ [] →
      ∀ ab ∈ cyclicPairs (q.2.verts.filter fun x => ((m.bigEdgesList.map (pick ne)).flatten).contains x),
        ab ∈ (((m.bigEdgesList.map (pick ne)).map fun be => List.zip be be.tail).flatten) ∨
        (ab.2, ab.1) ∈ (((m.bigEdgesList.map (pick ne)).map fun be => List.zip be be.tail).flatten) := by
  generalize hused : (m.bigEdgesList.map (pick ne)).flatten = used at hanch hagree ⊢
  have hN := hC.2.2.2.2.1
  have hmemU : ∀ e ∈ m.bigEdgesList, ∀ v ∈ pick ne e, v ∈ used := by
    intro e he v hv
    rw [← hused]
    exact List.mem_flatten.mpr ⟨_, List.mem_map.mpr ⟨e, he, rfl⟩, hv⟩
  -- every interface, filtered by "is kept", is its resampled version
  have hfaith : ∀ e ∈ m.bigEdgesList, e.filter (fun x => used.contains x) = pick ne e := by
    intro e he
    obtain ⟨q, hq, hP⟩ := bigEdges_from_cell m e he
    obtain ⟨a, mid, b, rfl, ha, hb, hmid⟩ := cellPaths_ends _ _ e hP
    have hdl := cellPaths_dropLast_nodup _ _ (hN q hq) _ hP
    have hdl' : (a :: mid).Nodup := by
      rw [← List.cons_append, List.dropLast_concat] at hdl; exact hdl
    apply filter_eq_pick ne hne a b mid hdl'
    · intro hbm; have := hmid b hbm; rw [hb] at this; exact absurd this (by simp)
    · intro v hv; simpa using hmemU _ he v hv
    · intro v hv hu; exact hagree _ he v hv (by simpa using hu)
  intro q hq hne0
  rcases hanch q hq with hj | hnone
  · apply cell_hcyc m.isJunction (fun x => used.contains x) q.2.verts hj
    · intro P hP a hPa
      rcases bigEdges_complete m q hq P hP with h | h
      · have := generateMesh_keeps_ends m ne hne P h a (Or.inl hPa)
        rw [hused] at this; simpa using this
      · have := generateMesh_keeps_ends m ne hne P.reverse h a (Or.inr (by rw [List.getLast?_reverse]; exact hPa))
        rw [hused] at this; simpa using this
    · intro P hP ab hab
      rcases bigEdges_complete m q hq P hP with h | h
      · left
        rw [hfaith P h] at hab
        simp only [List.mem_flatten, List.mem_map]
        exact ⟨_, ⟨pick ne P, ⟨P, h, rfl⟩, rfl⟩, hab⟩
      · right
        have hrev := hfaith P.reverse h
        rw [List.filter_reverse] at hrev
        have := mem_zip_tail_reverse ab.1 ab.2 _ hab
        rw [hrev] at this
        simp only [List.mem_flatten, List.mem_map]
        exact ⟨_, ⟨pick ne P.reverse, ⟨P.reverse, h, rfl⟩, rfl⟩, this⟩
  · exfalso
    apply hne0
    apply List.filter_eq_nil_iff.mpr
    intro v hv
    simpa using hnone v hv

/-- the preservation theorem, Prop-level form -/
theorem generateMesh_false_consP (m : Mesh) (ne : Nat) (hC : ConsP m) (hne : 1 ≤ ne)
    (hanch : ∀ q ∈ m.cells, (∃ a ∈ q.2.verts, m.isJunction a = true) ∨
      ∀ v ∈ q.2.verts, v ∉ (m.bigEdgesList.map (pick ne)).flatten)
    (hagree : ∀ e ∈ m.bigEdgesList, ∀ v ∈ e, v ∈ (m.bigEdgesList.map (pick ne)).flatten → v ∈ pick ne e) :
    ConsP (m.generateMesh ne false).mesh := by
  obtain ⟨a1, a2, a3, a4, a5, a6⟩ := generateMesh_false_clauses m ne hC
  exact ⟨a1, a2, a3, a4, a5, a6 (generateMesh_false_hcyc m ne hC hne hanch hagree)⟩

end Mesh

/-! ### kept junctions, positions -/

theorem cellPaths_head_of_junction {α : Type} (isJ : α → Bool) (cyc : List α) (v : α) (hv : v ∈ cyc)
    (hj : isJ v = true) : ∃ P ∈ cellPaths isJ cyc, P.head? = some v := by
  have hex : ∃ a ∈ cyc, isJ a = true := ⟨v, hv, hj⟩
  obtain ⟨l1, l2, h1, h2⟩ := cellGroups_flatten_rotation isJ cyc hex
  rcases cellPaths_cases isJ cyc with ⟨hG, _⟩ | ⟨a, r, gs, hG, ha, hp⟩
  · exfalso
    have : cellGroups isJ cyc ≠ [] := by
      rw [cellGroups_eq]
      intro h0
      exact splitAux_groups_ne_nil isJ cyc hex ((appendLast_eq_nil _ _).1 h0)
    exact this hG
  · have hvf : v ∈ (cellGroups isJ cyc).flatten := by
      rw [h2]; rw [h1] at hv
      simp only [List.mem_append] at hv ⊢
      exact hv.symm
    obtain ⟨g, hg, hvg⟩ := List.mem_flatten.mp hvf
    obtain ⟨a', r', rfl, _, hr'⟩ := (cellGroups_shape' isJ cyc) g hg
    have hva : v = a' := by
      rcases List.mem_cons.mp hvg with h | h
      · exact h
      · have := hr' v h; rw [hj] at this; exact absurd this (by simp)
    subst hva
    obtain ⟨x, hx⟩ := closeAux_mem_of_group a _ _ (hG ▸ hg)
    exact ⟨_, hp ▸ hx, by simp⟩

theorem alGet?_map_snd {β γ : Type} (f : β → γ) (k : Id) (l : List (Id × β)) :
    (alGet? k l).map f = alGet? k (l.map fun p => (p.1, f p.2)) := by
  induction l with
  | nil => rfl
  | cons p l ih =>
    obtain ⟨k', v⟩ := p
    simp only [alGet?, List.map_cons]
    split
    · rfl
    · exact ih

theorem alGet?_filter_key {β : Type} (c : Id → Bool) (k : Id) (hk : c k = true) (l : List (Id × β)) :
    alGet? k (l.filter fun p => c p.1) = alGet? k l := by
  induction l with
  | nil => rfl
  | cons p l ih =>
    obtain ⟨k', v⟩ := p
    by_cases hc : c k' = true
    · simp only [List.filter_cons, hc, if_true, alGet?, ih]
    · simp only [List.filter_cons, hc, Bool.false_eq_true, if_false, alGet?, ih]
      have : k ≠ k' := fun h => hc (h ▸ hk)
      simp [this]

namespace Mesh

theorem generateMesh_vertex_kept (m : Mesh) (ne : Nat) (v : Id)
    (hv : v ∈ (m.bigEdgesList.map (pick ne)).flatten) :
    ((m.generateMesh ne false).mesh.vertex? v).map (fun x => (x.id, x.x, x.y)) =
      (m.vertex? v).map (fun x => (x.id, x.x, x.y)) := by
  have h := generateMesh_vertices m ne
  simp only [vertex?]
  have e1 : ∀ l : List (Id × Vertex), (l.map fun p => (p.1, (fun x : Vertex => (x.id, x.x, x.y)) p.2)) =
      l.map (fun p => (p.1, p.2.id, p.2.x, p.2.y)) := fun _ => rfl
  have a1 := alGet?_map_snd (fun x : Vertex => (x.id, x.x, x.y)) v (m.generateMesh ne false).mesh.vertices
  have a2 := alGet?_map_snd (fun x : Vertex => (x.id, x.x, x.y)) v
    (m.vertices.filter fun p => ((m.bigEdgesList.map (pick ne)).flatten).contains p.1)
  rw [e1] at a1 a2
  rw [a1, h, ← a2,
    alGet?_filter_key (fun k => ((m.bigEdgesList.map (pick ne)).flatten).contains k) v (by simpa using hv)]

theorem pt_of_proj (m m' : Mesh) (v : Id)
    (h : (m'.vertex? v).map (fun x => (x.id, x.x, x.y)) = (m.vertex? v).map (fun x => (x.id, x.x, x.y))) :
    m'.pt v = m.pt v ∧ (m'.vertex? v).isSome = (m.vertex? v).isSome := by
  unfold pt
  cases h1 : m'.vertex? v <;> cases h2 : m.vertex? v <;> simp [h1, h2] at h ⊢
  simp [h]

end Mesh

end Forsys
