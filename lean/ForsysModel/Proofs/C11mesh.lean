/- helper lemmas for Props/C11mesh.lean: `generate_mesh` without merging keeps the mesh consistent -/
import ForsysModel.Props.C08
import ForsysModel.Props.C09
import ForsysModel.Props.C11
namespace Forsys
namespace Mesh

/-! ### part A: the bookkeeping of `generate_mesh` (cells filtered, vertices filtered, edges rebuilt) -/

theorem updCell_cells' (m : Mesh) (k : Id) (f : Cell → Cell) :
    (m.updCell k f).cells = m.cells.map fun p => (p.1, if p.1 = k then f p.2 else p.2) := by
  simp only [updCell]
  apply List.map_congr_left
  rintro ⟨k', c⟩ _
  by_cases h : k' = k <;> simp [h]

/-- a cell with vertex `v` taken out of its cycle -/
def dropV (v : Id) (c : Cell) : Cell := { c with verts := c.verts.filter fun x => x != v }

theorem dropV_of_not_mem (v : Id) (c : Cell) (h : v ∉ c.verts) : dropV v c = c := by
  obtain ⟨i, vs, s⟩ := c
  simp only [dropV, Cell.mk.injEq, true_and, and_true]
  apply List.filter_eq_self.mpr
  intro a ha
  have : a ≠ v := fun hav => h (hav ▸ ha)
  simpa using this

theorem foldl_eraseCell (v : Id) (cs : List Id) (m : Mesh) (hN : CellsNodupP m) :
    (cs.foldl (fun m c => m.updCell c fun cl => { cl with verts := cl.verts.erase v }) m).cells =
      m.cells.map fun p => (p.1, if p.1 ∈ cs then dropV v p.2 else p.2) := by
  induction cs generalizing m with
  | nil => simp
  | cons c cs ih =>
    rw [List.foldl_cons, ih]
    · rw [updCell_cells', List.map_map]
      apply List.map_congr_left
      intro p hp
      have hnd : p.2.verts.Nodup := hN p hp
      simp only [Function.comp]
      by_cases h1 : p.1 = c <;> by_cases h2 : p.1 ∈ cs <;>
        simp [h1, h2, dropV, hnd.erase_eq_filter, List.filter_filter]
      · subst h1; simp [h2]
      · subst h1; simp [h2]
    · intro q hq
      rw [updCell_cells'] at hq
      obtain ⟨p, hp, rfl⟩ := List.mem_map.mp hq
      have hnd : p.2.verts.Nodup := hN p hp
      simp only
      split
      · exact hnd.sublist List.erase_sublist
      · exact hnd

theorem foldl_eraseCell_ve (v : Id) (cs : List Id) (m : Mesh) :
    (cs.foldl (fun m c => m.updCell c fun cl => { cl with verts := cl.verts.erase v }) m).vertices = m.vertices ∧
    (cs.foldl (fun m c => m.updCell c fun cl => { cl with verts := cl.verts.erase v }) m).edges = m.edges := by
  apply Mesh.foldl_inv (fun m' => m'.vertices = m.vertices ∧ m'.edges = m.edges)
  · intro m' c _ h; exact h
  · exact ⟨rfl, rfl⟩

theorem gm1_cells (rem : List (Id × Vertex)) (m : Mesh) (hN : CellsNodupP m)
    (hown : ∀ p ∈ rem, ∀ q ∈ m.cells, p.1 ∈ q.2.verts → q.1 ∈ p.2.ownCells) :
    (gm1 m rem).cells = m.cells.map fun q =>
      (q.1, { q.2 with verts := q.2.verts.filter fun x => !(rem.map (·.1)).contains x }) := by
  induction rem generalizing m with
  | nil =>
    simp only [gm1, List.foldl_nil, List.map_nil, List.contains_nil, Bool.not_false, List.filter_true]
    exact (List.map_id' _).symm
  | cons p rem ih =>
    have hstep : (p.2.ownCells.foldl (fun m c => m.updCell c fun cl => { cl with verts := cl.verts.erase p.1 }) m).cells
        = m.cells.map fun q => (q.1, dropV p.1 q.2) := by
      rw [foldl_eraseCell _ _ _ hN]
      apply List.map_congr_left
      intro q hq
      by_cases h : q.1 ∈ p.2.ownCells
      · simp [h]
      · have : p.1 ∉ q.2.verts := fun hh => h (hown p (List.mem_cons_self ..) q hq hh)
        simp [h, dropV_of_not_mem _ _ this]
    have hgm : gm1 m (p :: rem) =
        gm1 (p.2.ownCells.foldl (fun m c => m.updCell c fun cl => { cl with verts := cl.verts.erase p.1 }) m) rem := rfl
    rw [hgm, ih]
    · rw [hstep, List.map_map]
      apply List.map_congr_left
      intro q _
      simp only [Function.comp, dropV, List.filter_filter, List.map_cons, List.contains_cons, Bool.not_or]
      congr 2
      apply List.filter_congr
      intro x _
      rw [Bool.and_comm]
      congr 1
      simp [bne, BEq.comm]
    · intro q hq
      rw [hstep] at hq
      obtain ⟨q0, hq0, rfl⟩ := List.mem_map.mp hq
      exact (hN q0 hq0).sublist List.filter_sublist
    · intro p' hp' q hq hmem
      rw [hstep] at hq
      obtain ⟨q0, hq0, rfl⟩ := List.mem_map.mp hq
      exact hown p' (List.mem_cons_of_mem _ hp') q0 hq0 (List.mem_filter.mp hmem).1

/-- vertices keep key, id and cell list under an operation -/
def VSim (m' m : Mesh) : Prop :=
  ∀ p' ∈ m'.vertices, ∃ p ∈ m.vertices, p'.1 = p.1 ∧ p'.2.id = p.2.id ∧ p'.2.ownCells = p.2.ownCells

theorem VSim.refl (m : Mesh) : VSim m m := fun p hp => ⟨p, hp, rfl, rfl, rfl⟩

theorem VSim.trans {a b c : Mesh} (h1 : VSim a b) (h2 : VSim b c) : VSim a c := by
  intro p hp
  obtain ⟨q, hq, a1, a2, a3⟩ := h1 p hp
  obtain ⟨r, hr, b1, b2, b3⟩ := h2 q hq
  exact ⟨r, hr, a1.trans b1, a2.trans b2, a3.trans b3⟩

theorem VSim.of_vertices_eq {a b : Mesh} (h : a.vertices = b.vertices) : VSim a b := by
  intro p hp; exact ⟨p, h ▸ hp, rfl, rfl, rfl⟩

theorem delEdge_vsim (m : Mesh) (k : Id) : VSim (m.delEdge k) m := by
  intro p' hp'
  obtain ⟨p, hp, a, b, c, _⟩ := delEdge_sim m k p' hp'
  exact ⟨p, hp, a, b, c⟩

theorem mkEdge_vsim (m : Mesh) (k a b : Id) : VSim (m.mkEdge k a b) m := by
  intro p' hp'
  rw [mkEdge_vertices] at hp'
  obtain ⟨p, hp, rfl⟩ := List.mem_map.mp hp'
  refine ⟨p, hp, rfl, ?_, ?_⟩ <;> (simp only; split <;> simp [addEdgeTo_id, addEdgeTo_ownCells])

theorem gm2_vsim (m : Mesh) : VSim (gm2 m) m ∧ (gm2 m).cells = m.cells := by
  unfold gm2
  apply Mesh.foldl_inv (fun m' => VSim m' m ∧ m'.cells = m.cells)
  · intro m' a _ ⟨h1, h2⟩
    exact ⟨(delEdge_vsim m' a.1).trans h1, by rw [delEdge_cells]; exact h2⟩
  · exact ⟨VSim.refl m, rfl⟩

def segEdge (p : Nat × Id × Id) : Id × SEdge := ((p.1 : Int), { id := (p.1 : Int), v1 := p.2.1, v2 := p.2.2 })

theorem foldl_mkEdge_nat_edges (l : List (Nat × Id × Id)) (m : Mesh)
    (hnd : (l.map (·.1)).Nodup) (hdis : ∀ i : Nat, i ∈ l.map (·.1) → (i : Int) ∉ m.edges.map (·.1)) :
    (l.foldl (fun m p => m.mkEdge (p.1 : Int) p.2.1 p.2.2) m).edges = m.edges ++ l.map segEdge := by
  induction l generalizing m with
  | nil => simp
  | cons a l ih =>
    simp only [List.map_cons, List.nodup_cons, List.mem_cons, forall_eq_or_imp] at hnd hdis
    simp only [List.foldl_cons]
    rw [ih _ hnd.2]
    · rw [mkEdge_edges, filter_ne_of_not_mem_keys _ _ hdis.1]
      simp [segEdge]
    · intro i hi
      rw [mkEdge_ekeys _ _ _ _ hdis.1]
      simp only [List.mem_append, List.mem_singleton, not_or]
      refine ⟨hdis.2 i hi, ?_⟩
      intro hia
      have : i = a.1 := by omega
      exact hnd.1 (this ▸ hi)

theorem foldl_mkEdge_vsim (l : List (Nat × Id × Id)) (m : Mesh) :
    VSim (l.foldl (fun m p => m.mkEdge (p.1 : Int) p.2.1 p.2.2) m) m ∧
    (l.foldl (fun m p => m.mkEdge (p.1 : Int) p.2.1 p.2.2) m).cells = m.cells := by
  apply Mesh.foldl_inv (fun m' => VSim m' m ∧ m'.cells = m.cells)
  · intro m' a _ ⟨h1, h2⟩
    exact ⟨(mkEdge_vsim m' _ _ _).trans h1, h2⟩
  · exact ⟨VSim.refl m, rfl⟩

/-- the mesh returned by `generate_mesh(..., replace_short_edges=False)`, in the staged form of Proofs/C09 -/
def gmR (m : Mesh) (removed : List (Id × Vertex)) (used : List Id) (segs : List (Id × Id)) : Mesh :=
  { gm4 (gm2 (gm1 m removed)) used segs with
    cells := (gm4 (gm2 (gm1 m removed)) used segs).cells.filter fun p => !p.2.verts.isEmpty }

def filtC (used : List Id) (q : Id × Cell) : Id × Cell :=
  (q.1, { q.2 with verts := q.2.verts.filter fun x => used.contains x })

theorem gmR_cells (m : Mesh) (used : List Id) (segs : List (Id × Id)) (hK : KeysP m) (hC : OwnCellsP m)
    (hR : RefsP m) (hN : CellsNodupP m) :
    (gmR m (m.vertices.filter fun p => !(used.contains p.1)) used segs).cells =
      (m.cells.map (filtC used)).filter fun p => !p.2.verts.isEmpty := by
  have h4 : (gm4 (gm2 (gm1 m (m.vertices.filter fun p => !(used.contains p.1)))) used segs).cells =
      (gm1 m (m.vertices.filter fun p => !(used.contains p.1))).cells := by
    unfold gm4
    rw [(foldl_mkEdge_vsim _ _).2]
    exact (gm2_vsim _).2
  simp only [gmR, h4]
  congr 1
  rw [gm1_cells _ _ hN]
  · apply List.map_congr_left
    intro q hq
    simp only [filtC]
    congr 2
    apply List.filter_congr
    intro x hx
    have hxk : x ∈ m.vertices.map (·.1) := (hR.2 q hq).2 x hx
    by_cases hu : used.contains x = true
    · simp only [hu, Bool.not_eq_eq_eq_not, Bool.not_true, List.contains_eq_mem, decide_eq_false_iff_not,
        List.mem_map, List.mem_filter, not_exists, not_and, and_imp]
      intro p _ hpu hpx
      subst hpx
      simp [hu] at hpu
    · simp only [hu, Bool.not_eq_eq_eq_not, Bool.not_false, List.contains_eq_mem, decide_eq_true_eq,
        List.mem_map, List.mem_filter]
      obtain ⟨p, hp, rfl⟩ := List.mem_map.mp hxk
      exact ⟨p, ⟨hp, by simpa using hu⟩, rfl⟩
  · intro p hp q hq hmem
    have hp' := (List.mem_filter.mp hp).1
    have := (hC p hp').2.1 q hq (by rw [← hK.1 p hp']; exact hmem)
    rw [hK.2.2.1 q hq]
    exact this

theorem gmR_vsim (m : Mesh) (removed : List (Id × Vertex)) (used : List Id) (segs : List (Id × Id)) :
    ∀ p' ∈ (gmR m removed used segs).vertices, ∃ p ∈ m.vertices,
      p'.1 = p.1 ∧ p'.2.id = p.2.id ∧ p'.2.ownCells = p.2.ownCells ∧ used.contains p.1 = true := by
  intro p' hp'
  have hp'' : p' ∈ (gm4 (gm2 (gm1 m removed)) used segs).vertices := hp'
  unfold gm4 at hp''
  obtain ⟨p1, hp1, a1, a2, a3⟩ := (foldl_mkEdge_vsim _ _).1 p' hp''
  simp only [List.mem_filter] at hp1
  obtain ⟨p2, hp2, b1, b2, b3⟩ := (gm2_vsim _).1 p1 hp1.1
  rw [(gm1_ve m removed).1] at hp2
  exact ⟨p2, hp2, a1.trans b1, a2.trans b2, a3.trans b3, by rw [← b1]; exact hp1.2⟩

theorem gmR_edges (m : Mesh) (removed : List (Id × Vertex)) (used : List Id) (segs : List (Id × Id)) :
    (gmR m removed used segs).edges = (List.zip (List.range segs.length) segs).map segEdge := by
  have : (gmR m removed used segs).edges = (gm4 (gm2 (gm1 m removed)) used segs).edges := rfl
  rw [this]
  unfold gm4
  rw [foldl_mkEdge_nat_edges]
  · simp
  · rw [List.map_fst_zip (by simp)]
    exact List.nodup_range
  · simp

end Mesh
end Forsys
