/-
  Helper lemmas for ForsysModel/Props/C19more.lean (property C19, second batch): `remove_infinite_regions` as a
  filter, `np.max(distance_matrix)` as a diameter, the stored vertices as the set of rounded corners, rounding
  error, uniqueness of the signed edge id of a ridge, translation of the corner points.
-/
import ForsysModel.Model.Tessellation
import ForsysModel.Proofs.C19
import Mathlib.Data.Rat.Floor
import Mathlib.Tactic.Ring
import Mathlib.Tactic.Linarith
import Mathlib.Tactic.FieldSimp
import Mathlib.Algebra.Order.Field.Rat
import Mathlib.Data.List.Basic

namespace Forsys
namespace Tess

/-! ### cut-off -/

theorem foldl_erase_filter {α : Type} [BEq α] [LawfulBEq α] (p : α → Bool) (l pre : List α)
    (hpre : ∀ a ∈ pre, p a = false) :
    (l.filter p).foldl List.erase (pre ++ l) = pre ++ l.filter (fun a => !p a) := by
  induction l generalizing pre with
  | nil => simp
  | cons a l ih =>
    by_cases h : p a = true
    · have hn : a ∉ pre := fun hm => by rw [hpre a hm] at h; exact absurd h (by simp)
      rw [List.filter_cons_of_pos h, List.foldl_cons, List.erase_append_right _ hn, List.erase_cons_head]
      rw [ih pre hpre]
      simp [h]
    · have h' : p a = false := by simpa using h
      rw [List.filter_cons_of_neg h]
      have e : pre ++ a :: l = (pre ++ [a]) ++ l := by simp
      rw [e, ih (pre ++ [a])]
      · simp [h']
      · intro b hb
        rcases List.mem_append.mp hb with hb | hb
        · exact hpre b hb
        · simp at hb; rw [hb]; exact h'

theorem removeInfiniteRegions_eq_filter' (verts : List Pt) (md2 : Option Rat) (regions : List (List Int)) :
    removeInfiniteRegions verts md2 regions = regions.filter (fun c => !tooFar verts md2 c) := by
  unfold removeInfiniteRegions
  have := foldl_erase_filter (tooFar verts md2) regions [] (by simp)
  simpa using this

theorem foldl_max_le_iff (l : List Rat) (m d : Rat) :
    l.foldl max m ≤ d ↔ m ≤ d ∧ ∀ x ∈ l, x ≤ d := by
  induction l generalizing m with
  | nil => simp
  | cons a l ih =>
    rw [List.foldl_cons, ih]
    simp only [List.mem_cons, forall_eq_or_imp, max_le_iff]
    tauto

theorem maxDistSq_le_iff' (ps : List Pt) (d : Rat) (hd : 0 ≤ d) :
    maxDistSq ps ≤ d ↔ ∀ p ∈ ps, ∀ q ∈ ps, distSq p q ≤ d := by
  unfold maxDistSq
  rw [foldl_max_le_iff]
  simp only [List.mem_map, forall_exists_index, and_imp, forall_apply_eq_imp_iff₂, foldl_max_le_iff]
  constructor
  · intro h p hp q hq; exact (h.2 p hp).2 q hq
  · intro h; exact ⟨hd, fun p hp => ⟨hd, fun q hq => h p hp q hq⟩⟩

theorem distSq_nonneg' (p q : Pt) : 0 ≤ distSq p q := by
  unfold distSq; nlinarith [mul_self_nonneg (p.x - q.x), mul_self_nonneg (p.y - q.y)]

theorem foldl_max_ge_init (l : List Rat) (m : Rat) : m ≤ l.foldl max m := by
  have := (foldl_max_le_iff l m (l.foldl max m)).mp le_rfl
  exact this.1

/-! ### unbounded regions are skipped -/

theorem foldl_stepRegion_filter (verts : List Pt) (L : List (List Int)) (st : EState) :
    (L.filter bounded).foldl (stepRegion verts) st = L.foldl (stepRegion verts) st := by
  induction L generalizing st with
  | nil => rfl
  | cons c L ih =>
    by_cases h : bounded c = true
    · rw [List.filter_cons_of_pos h, List.foldl_cons, List.foldl_cons, ih]
    · rw [List.filter_cons_of_neg h, List.foldl_cons, ih]
      have : stepRegion verts st c = st := by unfold stepRegion; rw [if_neg h]
      rw [this]

/-! ### stored vertices are exactly the rounded corners -/

theorem getVertexNumber_vals (v : Pt) (vs : List (Id × Pt)) :
    ∀ q, q ∈ (getVertexNumber v vs).2.map (·.2) ↔ q ∈ vs.map (·.2) ∨ q = v := by
  intro q
  unfold getVertexNumber
  split
  · next k hk =>
    have := keyOf?_some v vs k hk
    constructor
    · exact Or.inl
    · rintro (h | rfl)
      · exact h
      · exact List.mem_map.mpr ⟨_, this, rfl⟩
  · simp

theorem stepEdge_vals (w : Walk) (ab : Pt × Pt) :
    ∀ q, q ∈ (stepEdge w ab).vs.map (·.2) ↔ q ∈ w.vs.map (·.2) ∨ q = ab.1 ∨ q = ab.2 := by
  intro q
  have e : (stepEdge w ab).vs = (getVertexNumber ab.2 (getVertexNumber ab.1 w.vs).2).2 := by
    unfold stepEdge; simp only; split <;> rfl
  rw [e, getVertexNumber_vals, getVertexNumber_vals, or_assoc]

theorem walkPts_vals (Q : List Pt) : ∀ (w : Walk) (x : Pt),
    x ∈ (walkPts w Q).vs.map (·.2) ↔ x ∈ w.vs.map (·.2) ∨ (2 ≤ Q.length ∧ x ∈ Q) := by
  induction Q with
  | nil => intro w x; simp [walkPts, openPairs]
  | cons p Q ih =>
    cases Q with
    | nil => intro w x; simp [walkPts, openPairs]
    | cons b rest =>
      intro w x
      rw [walkPts_cons2, ih, stepEdge_vals]
      simp only [List.length_cons, List.mem_cons]
      constructor
      · rintro ((h | h | h) | ⟨_, h | h⟩)
        · exact Or.inl h
        · exact Or.inr ⟨by omega, Or.inl h⟩
        · exact Or.inr ⟨by omega, Or.inr (Or.inl h)⟩
        · exact Or.inr ⟨by omega, Or.inr (Or.inl h)⟩
        · exact Or.inr ⟨by omega, Or.inr (Or.inr h)⟩
      · rintro (h | ⟨_, h | h | h⟩)
        · exact Or.inl (Or.inl h)
        · exact Or.inl (Or.inr (Or.inl h))
        · exact Or.inl (Or.inr (Or.inr h))
        · refine Or.inr ⟨?_, Or.inr h⟩
          cases rest with
          | nil => simp at h
          | cons _ _ => simp

theorem processRegion_vals (verts : List Pt) (st : EState) (c : List Int) (hc : c ≠ []) (x : Pt) :
    x ∈ (processRegion verts st c).el.vertices.map (·.2) ↔
      x ∈ st.el.vertices.map (·.2) ∨ x ∈ corners verts c := by
  have e : (processRegion verts st c).el.vertices =
      (walkPts { vs := st.el.vertices, es := st.el.edges, cellE := [], cellV := [] }
        (corners verts (closeRegion c))).vs := by
    unfold processRegion; simp only; rw [foldl_stepRidge_eq]
  rw [e, walkPts_vals, corners_close]
  cases hP : corners verts c with
  | nil => simp [corners] at hP; exact absurd hP hc
  | cons p t => simp; tauto

theorem foldl_stepRegion_vals (verts : List Pt) (L : List (List Int)) (st : EState) (x : Pt) :
    x ∈ (L.foldl (stepRegion verts) st).el.vertices.map (·.2) ↔
      x ∈ st.el.vertices.map (·.2) ∨ ∃ c ∈ L, bounded c = true ∧ x ∈ corners verts c := by
  induction L generalizing st with
  | nil => simp
  | cons c L ih =>
    rw [List.foldl_cons, ih]
    by_cases h : bounded c = true
    · have hc : c ≠ [] := by intro e; rw [e] at h; simp [bounded] at h
      have e : stepRegion verts st c = processRegion verts st c := by unfold stepRegion; rw [if_pos h]
      rw [e, processRegion_vals verts st c hc]
      simp only [List.mem_cons, exists_eq_or_imp, h, true_and]
      tauto
    · have e : stepRegion verts st c = st := by unfold stepRegion; rw [if_neg h]
      rw [e]
      simp [h]

/-! ### rounding error -/

theorem roundHalfEven_err (q : Rat) : |(roundHalfEven q : Rat) - q| ≤ 1/2 := by
  have h1 : ((q.floor : Int) : Rat) ≤ q := Int.floor_le q
  have h2 : q < ((q.floor : Int) : Rat) + 1 := Int.lt_floor_add_one q
  unfold roundHalfEven
  simp only
  rw [abs_le]
  split_ifs <;> constructor <;> push_cast <;> linarith

theorem round3_err' (q : Rat) : |round3 q - q| ≤ 1/2000 := by
  have := roundHalfEven_err (q * 1000)
  unfold round3
  rw [abs_le] at this ⊢
  constructor <;> linarith [this.1, this.2]

theorem round3_grid' (k : Int) : round3 ((k : Rat) / 1000) = (k : Rat) / 1000 := by
  unfold round3
  have : (k : Rat) / 1000 * 1000 = (k : Rat) := by field_simp
  rw [this, roundHalfEven_intCast]

/-! ### sharing -/

theorem signedEdge_opposite {es : List (Id × (Id × Id))} (hi : EInj es) (hl : NoLoop es)
    {e e' a b : Id} (h1 : SignedEdge es e (a, b)) (h2 : SignedEdge es e' (b, a)) : e' = -e := by
  rcases h1 with ⟨p1, m1⟩ | ⟨p1, m1⟩ <;> rcases h2 with ⟨p2, m2⟩ | ⟨p2, m2⟩
  · have := hi _ m1 _ m2 (Or.inr rfl)
    have hab : a = b := by
      have := (Prod.mk.inj (Prod.mk.inj this).2).1; exact this
    exact absurd hab (hl _ m1)
  · have := hi _ m1 _ m2 (Or.inl rfl)
    have h3 : e = -e' := (Prod.mk.inj this).1
    rw [h3, neg_neg]
  · have := hi _ m1 _ m2 (Or.inl rfl)
    have h3 : -e = e' := (Prod.mk.inj this).1
    exact h3.symm
  · have := hi _ m1 _ m2 (Or.inr rfl)
    have hab : b = a := by
      have := (Prod.mk.inj (Prod.mk.inj this).2).1; exact this
    exact absurd hab (hl _ m1)

theorem signedEdge_same {es : List (Id × (Id × Id))} (hi : EInj es) (hl : NoLoop es)
    {e e' a b : Id} (h1 : SignedEdge es e (a, b)) (h2 : SignedEdge es e' (a, b)) : e' = e := by
  rcases h1 with ⟨p1, m1⟩ | ⟨p1, m1⟩ <;> rcases h2 with ⟨p2, m2⟩ | ⟨p2, m2⟩
  · have := hi _ m1 _ m2 (Or.inl rfl)
    exact ((Prod.mk.inj this).1).symm
  · have := hi _ m1 _ m2 (Or.inr rfl)
    have hab : a = b := (Prod.mk.inj (Prod.mk.inj this).2).1
    exact absurd hab (hl _ m1)
  · have := hi _ m1 _ m2 (Or.inr rfl)
    have hab : b = a := (Prod.mk.inj (Prod.mk.inj this).2).1
    exact absurd hab (hl _ m1)
  · have := hi _ m1 _ m2 (Or.inl rfl)
    have h3 : -e = -e' := (Prod.mk.inj this).1
    exact (neg_inj.mp h3).symm

/-! ### translation -/

def shift (t : Pt) (p : Pt) : Pt := ⟨p.x + t.x, p.y + t.y⟩

theorem distSq_shift (t p q : Pt) : distSq (shift t p) (shift t q) = distSq p q := by
  unfold distSq shift; ring

theorem maxDistSq_shift' (t : Pt) (ps : List Pt) : maxDistSq (ps.map (shift t)) = maxDistSq ps := by
  unfold maxDistSq
  simp only [List.map_map]
  congr 1
  apply List.map_congr_left
  intro p _
  simp only [Function.comp_def, distSq_shift]

end Tess
end Forsys
