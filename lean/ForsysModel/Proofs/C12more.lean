/- helper lemmas for Props/C12more.lean: similarity invariance of the tracking, fixed points, series-level round trip -/
import ForsysModel.Model.TimeSeries
import ForsysModel.Proofs.C12
import ForsysModel.Proofs.C12relabel
import Mathlib.Tactic.Ring
import Mathlib.Tactic.Linarith
import Mathlib.Algebra.Order.Field.Rat
import Mathlib.Tactic.Tauto
namespace Forsys

/-- a vertex whose position is transformed by `f`; the id is kept -/
def TVert.mapP (f : Pt → Pt) (v : TVert) : TVert := ⟨v.id, f v.p⟩

/-- change of unit and origin: `p ↦ lam · p + d` -/
def simT (lam : Rat) (d : Pt) (p : Pt) : Pt := ⟨lam * p.x + d.x, lam * p.y + d.y⟩

namespace C12m

theorem distSq_simT (lam : Rat) (d a b : Pt) : distSq (simT lam d a) (simT lam d b) = lam * lam * distSq a b := by
  simp only [distSq, simT]; ring

theorem lt_scale {c : Rat} (hc : 0 < c) (a b : Rat) : c * a < c * b ↔ a < b :=
  ⟨fun h => lt_of_mul_lt_mul_left h hc.le, fun h => mul_lt_mul_of_pos_left h hc⟩

theorem within_sim (f : Pt → Pt) (lam : Rat) (hl : 0 < lam)
    (hf : ∀ a b, distSq (f a) (f b) = lam * lam * distSq a b)
    (v0 : Pt) (ms : Rat) (found : List (Option Id)) (pool : List TVert) :
    within (f v0) (lam * ms) found (pool.map (TVert.mapP f)) = (within v0 ms found pool).map (TVert.mapP f) := by
  unfold within
  rw [List.filter_map]
  congr 1
  apply List.filter_congr
  intro v _
  simp only [Function.comp, TVert.mapP]
  congr 1
  apply decide_eq_decide.2
  show distSq (f v.p) (f v0) < lam * ms * (lam * ms) ↔ distSq v.p v0 < ms * ms
  have e : lam * ms * (lam * ms) = lam * lam * (ms * ms) := by ring
  rw [hf, e]
  exact lt_scale (mul_pos hl hl) _ _

theorem loopObverse_sim (f : Pt → Pt) (lam : Rat) (hl : 0 < lam)
    (hf : ∀ a b, distSq (f a) (f b) = lam * lam * distSq a b)
    (maxcoord : Rat) (v0 : Pt) (found : List (Option Id)) (pool : List TVert) :
    ∀ (sp : List Rat) (c : List TVert) (ms : Rat),
      loopObverse (lam * maxcoord) (f v0) found (pool.map (TVert.mapP f)) sp (c.map (TVert.mapP f)) (lam * ms)
        = ((loopObverse maxcoord v0 found pool sp c ms).1.map (TVert.mapP f),
           (loopObverse maxcoord v0 found pool sp c ms).2.1, lam * (loopObverse maxcoord v0 found pool sp c ms).2.2) := by
  intro sp
  induction sp with
  | nil => intro c ms; rfl
  | cons s rest ih =>
    intro c ms
    simp only [loopObverse, List.length_map]
    split
    · have e : s * (lam * maxcoord) = lam * (s * maxcoord) := by ring
      rw [e, within_sim f lam hl hf, ← List.map_append]
      exact ih _ _
    · rfl

theorem loopInverse_sim (f : Pt → Pt) (lam : Rat) (hl : 0 < lam)
    (hf : ∀ a b, distSq (f a) (f b) = lam * lam * distSq a b)
    (v0 : Pt) (found : List (Option Id)) (pool : List TVert) (ms : Rat) :
    ∀ (sp : List Rat) (c : List TVert),
      loopInverse (f v0) found (pool.map (TVert.mapP f)) (lam * ms) sp (c.map (TVert.mapP f))
        = (loopInverse v0 found pool ms sp c).map (TVert.mapP f) := by
  intro sp
  induction sp with
  | nil => intro c; rfl
  | cons s rest ih =>
    intro c
    simp only [loopInverse, List.length_map]
    split
    · rw [← List.map_reverse, within_sim f lam hl hf, ← List.map_append]
      exact ih _
    · rfl

theorem nearest_sim (f : Pt → Pt) (lam : Rat) (hl : 0 < lam)
    (hf : ∀ a b, distSq (f a) (f b) = lam * lam * distSq a b) (v0 : Pt) (l : List TVert) :
    nearest (f v0) (l.map (TVert.mapP f)) = (nearest v0 l).map (TVert.mapP f) := by
  induction l with
  | nil => rfl
  | cons c cs ih =>
    simp only [List.map_cons, nearest, ih]
    cases nearest v0 cs with
    | none => rfl
    | some b =>
      simp only [Option.map_some, TVert.mapP, hf, lt_scale (mul_pos hl hl)]
      by_cases hlt : distSq b.p v0 < distSq c.p v0 <;> simp [hlt] <;> rfl

theorem findBest_sim (f : Pt → Pt) (lam : Rat) (hl : 0 < lam)
    (hf : ∀ a b, distSq (f a) (f b) = lam * lam * distSq a b)
    (s0 cutoff maxcoord : Rat) (v0 : Pt) (pool : List TVert) (found : List (Option Id)) :
    findBest s0 cutoff (lam * maxcoord) (f v0) (pool.map (TVert.mapP f)) found
      = (findBest s0 cutoff maxcoord v0 pool found).map (TVert.mapP f) := by
  unfold findBest
  have h1 := loopObverse_sim f lam hl hf maxcoord v0 found pool (spreads s0 cutoff 64) [] 0
  simp only [List.map_nil, mul_zero] at h1
  simp only [h1]
  have h2 := loopInverse_sim f lam hl hf v0 found pool
    (loopObverse maxcoord v0 found pool (spreads s0 cutoff 64) [] 0).2.2
    (loopObverse maxcoord v0 found pool (spreads s0 cutoff 64) [] 0).2.1 []
  simp only [List.map_nil] at h2
  rw [h2, ← List.map_append, nearest_sim f lam hl hf]

theorem assignAll_sim (f : Pt → Pt) (lam : Rat) (hl : 0 < lam)
    (hf : ∀ a b, distSq (f a) (f b) = lam * lam * distSq a b)
    (s0 cutoff maxcoord : Rat) (pool1 : List TVert) :
    ∀ (pool0 : List TVert) (m : StepMap),
      assignAll s0 cutoff (lam * maxcoord) (pool1.map (TVert.mapP f)) (pool0.map (TVert.mapP f)) m
        = assignAll s0 cutoff maxcoord pool1 pool0 m := by
  intro pool0
  induction pool0 with
  | nil => intro m; rfl
  | cons v0 rest ih =>
    intro m
    simp only [List.map_cons, assignAll]
    have e1 : (TVert.mapP f v0).id = v0.id := rfl
    have e2 : (TVert.mapP f v0).p = f v0.p := rfl
    rw [e1, e2, findBest_sim f lam hl hf, Option.map_map]
    have e3 : ((fun x : TVert => x.id) ∘ TVert.mapP f) = fun x => x.id := rfl
    rw [e3, ih, ih]

/-! ### bounding box under `x ↦ lam x + d` -/

theorem foldl_max_affine (lam d : Rat) (hl : 0 < lam) : ∀ (l : List Rat) (a : Rat),
    (l.map fun x => lam * x + d).foldl (fun a b => if a < b then b else a) (lam * a + d)
      = lam * (l.foldl (fun a b => if a < b then b else a) a) + d := by
  intro l
  induction l with
  | nil => intro a; rfl
  | cons b l ih =>
    intro a
    simp only [List.map_cons, List.foldl_cons]
    have e : (if lam * a + d < lam * b + d then lam * b + d else lam * a + d)
        = lam * (if a < b then b else a) + d := by
      by_cases h : a < b
      · have : lam * a + d < lam * b + d := by nlinarith
        simp [h, this]
      · have : ¬ lam * a + d < lam * b + d := by
          intro h'; apply h; nlinarith
        simp [h, this]
    rw [e, ih]

theorem foldl_min_affine (lam d : Rat) (hl : 0 < lam) : ∀ (l : List Rat) (a : Rat),
    (l.map fun x => lam * x + d).foldl (fun a b => if b < a then b else a) (lam * a + d)
      = lam * (l.foldl (fun a b => if b < a then b else a) a) + d := by
  intro l
  induction l with
  | nil => intro a; rfl
  | cons b l ih =>
    intro a
    simp only [List.map_cons, List.foldl_cons]
    have e : (if lam * b + d < lam * a + d then lam * b + d else lam * a + d)
        = lam * (if b < a then b else a) + d := by
      by_cases h : b < a
      · have : lam * b + d < lam * a + d := by nlinarith
        simp [h, this]
      · have : ¬ lam * b + d < lam * a + d := by
          intro h'; apply h; nlinarith
        simp [h, this]
    rw [e, ih]

/-- the extent `max - min` of a list of coordinates scales by `lam` (also for the empty list: `0 = lam · 0`) -/
theorem extent_affine (lam d : Rat) (hl : 0 < lam) (l : List Rat) :
    listMax (l.map fun x => lam * x + d) - listMin (l.map fun x => lam * x + d)
      = lam * (listMax l - listMin l) := by
  cases l with
  | nil => simp [listMax, listMin]
  | cons x xs =>
    have h1 := foldl_max_affine lam d hl (x :: xs) x
    have h2 := foldl_min_affine lam d hl (x :: xs) x
    simp only [listMax, listMin, List.map_cons, List.headD_cons] at h1 h2 ⊢
    rw [h1, h2]; ring

theorem map_x_sim (lam : Rat) (d : Pt) (l : List TVert) :
    (l.map (TVert.mapP (simT lam d))).map (fun v => v.p.x) = (l.map (fun v => v.p.x)).map fun x => lam * x + d.x := by
  simp [List.map_map, Function.comp_def, TVert.mapP, simT]

theorem map_y_sim (lam : Rat) (d : Pt) (l : List TVert) :
    (l.map (TVert.mapP (simT lam d))).map (fun v => v.p.y) = (l.map (fun v => v.p.y)).map fun x => lam * x + d.y := by
  simp [List.map_map, Function.comp_def, TVert.mapP, simT]

theorem maxCoord_sim (lam : Rat) (hl : 0 < lam) (d : Pt) (pool0 pool1 : List TVert) :
    maxCoord (pool0.map (TVert.mapP (simT lam d))) (pool1.map (TVert.mapP (simT lam d)))
      = lam * maxCoord pool0 pool1 := by
  unfold maxCoord
  simp only [← List.map_append, map_x_sim, map_y_sim, extent_affine _ _ hl, lt_scale hl]
  split <;> rfl

theorem tooDifferent_sim (lam : Rat) (hl : 0 < lam) (d : Pt) (maxDiff : Rat) (pool0 pool1 : List TVert) :
    tooDifferent maxDiff (pool0.map (TVert.mapP (simT lam d))) (pool1.map (TVert.mapP (simT lam d)))
      = tooDifferent maxDiff pool0 pool1 := by
  unfold tooDifferent
  simp only [maxCoord_sim lam hl, map_x_sim, map_y_sim, extent_affine _ _ hl]
  apply decide_eq_decide.2
  constructor
  · intro h
    apply (lt_scale (mul_pos hl hl) _ _).1
    linarith
  · intro h
    have h' := (lt_scale (mul_pos hl hl) _ _).2 h
    linarith

/-! ### fixed point -/

theorem assignAll_of_allKeys (s0 cutoff maxcoord : Rat) (pool1 : List TVert) :
    ∀ (pool0 : List TVert) (m : StepMap), (∀ v ∈ pool0, m.hasKey v.id = true) →
      assignAll s0 cutoff maxcoord pool1 pool0 m = m := by
  intro pool0
  induction pool0 with
  | nil => intro m _; rfl
  | cons v0 rest ih =>
    intro m h
    simp only [assignAll, h v0 (List.mem_cons_self ..), if_true]
    exact ih m (fun v hv => h v (List.mem_cons_of_mem _ hv))

theorem assignAll_append (s0 cutoff maxcoord : Rat) (pool1 : List TVert) :
    ∀ (a b : List TVert) (m : StepMap),
      assignAll s0 cutoff maxcoord pool1 (a ++ b) m
        = assignAll s0 cutoff maxcoord pool1 b (assignAll s0 cutoff maxcoord pool1 a m) := by
  intro a
  induction a with
  | nil => intro b m; rfl
  | cons v0 rest ih =>
    intro b m
    simp only [List.cons_append, assignAll]
    split <;> exact ih _ _

/-! ### the series -/

theorem mapsOf_getD (s0 cutoff maxDiff : Rat) (pools : List (List TVert)) (guesses : List StepMap) (i : Nat)
    (m : StepMap) (h : (mapsOf s0 cutoff maxDiff pools guesses).getD i none = some m) :
    createMapping s0 cutoff maxDiff (pools.getD i []) (pools.getD (i + 1) []) (guesses.getD i []) = some m := by
  unfold mapsOf at h
  rw [List.getD_eq_getElem?_getD, List.getElem?_map] at h
  by_cases hi : i < pools.length - 1
  · rw [List.getElem?_range hi] at h
    simpa using h
  · rw [List.getElem?_eq_none (by simpa using hi)] at h
    simp at h


theorem lookupOpt_foldl_mem (k : Option Id) (p : Id) :
    ∀ (m : StepMap) (acc : List (Option Id × Id)),
      lookupOpt k (m.foldl (fun acc p => (acc.filter fun q => q.1 != p.2) ++ [(p.2, p.1)]) acc) = some p →
      lookupOpt k acc = some p ∨ (p, k) ∈ m := by
  intro m
  induction m with
  | nil => intro acc h; left; simpa using h
  | cons e m ih =>
    intro acc h
    simp only [List.foldl_cons] at h
    rcases ih _ h with h' | h'
    · rw [C12.lookupOpt_step] at h'
      split at h'
      · rename_i hk
        simp only [Option.some.injEq] at h'
        right
        have : e = (p, k) := by
          obtain ⟨a, v⟩ := e
          simp only at hk h'
          subst hk; subst h'; rfl
        rw [this]; exact List.mem_cons_self ..
      · left; exact h'
    · right; exact List.mem_cons_of_mem _ h'

theorem invertMap_mem (m : StepMap) (k : Option Id) (p : Id) (h : lookupOpt k (invertMap m) = some p) :
    (p, k) ∈ m := by
  rcases lookupOpt_foldl_mem k p m [] h with h' | h'
  · simp [lookupOpt] at h'
  · exact h'

theorem alGet?_of_mem_nodup {β : Type} (k : Id) (v : β) : ∀ (m : List (Id × β)), (m.map (·.1)).Nodup → (k, v) ∈ m →
    alGet? k m = some v := by
  intro m
  induction m with
  | nil => intro _ h; simp at h
  | cons e m ih =>
    intro hnd h
    obtain ⟨a, x⟩ := e
    simp only [List.map_cons, List.nodup_cons] at hnd
    simp only [alGet?]
    rcases List.mem_cons.1 h with h1 | h2
    · simp only [Prod.mk.injEq] at h1
      simp [h1.1, h1.2]
    · have : k ≠ a := by
        intro e; subst e
        exact hnd.1 (List.mem_map.2 ⟨(k, v), h2, rfl⟩)
      simp only [this, if_false]
      exact ih hnd.2 h2

theorem walkBackward_succ' (maps : List (Option StepMap)) (T n : Nat) (m : StepMap) (q : Id)
    (hm : maps.getD (T - 1) none = some m) :
    walkBackward maps T (n + 1) (some q) = match lookupOpt (some q) (invertMap m) with
      | none => .error .keyError
      | some k => walkBackward maps (T - 1) n (some k) := by
  conv_lhs => unfold walkBackward
  simp only [hm]
  cases lookupOpt (some q) (invertMap m) <;> rfl

theorem walkForward_snoc (maps : List (Option StepMap)) : ∀ (n t : Nat) (pt : Option Id) (k : Id),
    (∀ i, t ≤ i → i < t + n → ∃ m, maps.getD i none = some m) →
    walkForward maps t n pt = .ok (some k) →
    walkForward maps t (n + 1) pt = walkForward maps (t + n) 1 (some k) := by
  intro n
  induction n with
  | zero =>
    intro t pt k _ h
    simp only [walkForward, Except.ok.injEq] at h
    subst h; rfl
  | succ n ih =>
    intro t pt k hall h
    cases pt with
    | none => rw [C12.walkForward_none] at h; simp at h
    | some p0 =>
      obtain ⟨m, hm⟩ := hall t (Nat.le_refl _) (by omega)
      rw [C12.walkForward_succ maps t n m p0 hm] at h
      rw [C12.walkForward_succ maps t (n + 1) m p0 hm]
      cases hg : m.get? p0 with
      | none => simp [hg] at h
      | some v =>
        simp only [hg] at h ⊢
        have := ih (t + 1) v k (fun i h1 h2 => hall i (by omega) (by omega)) h
        rw [this]
        congr 1; omega

theorem roundtrip_back' (maps : List (Option StepMap)) : ∀ (n T : Nat) (p q : Id), n ≤ T →
    (∀ i, T - n ≤ i → i < T → ∃ m, maps.getD i none = some m ∧ (m.map (·.1)).Nodup) →
    walkBackward maps T n (some q) = .ok (some p) →
    walkForward maps (T - n) n (some p) = .ok (some q) := by
  intro n
  induction n with
  | zero =>
    intro T p q _ _ h
    simp only [walkBackward, Except.ok.injEq, Option.some.injEq] at h
    subst h; rfl
  | succ n ih =>
    intro T p q hT hall h
    obtain ⟨m, hm, hk⟩ := hall (T - 1) (by omega) (by omega)
    rw [walkBackward_succ' maps T n m q hm] at h
    cases hl : lookupOpt (some q) (invertMap m) with
    | none => simp [hl] at h
    | some k =>
      simp only [hl] at h
      have hget : m.get? k = some (some q) := alGet?_of_mem_nodup k (some q) m hk (invertMap_mem m (some q) k hl)
      have ih' := ih (T - 1) p k (by omega) (fun i h1 h2 => hall i (by omega) (by omega)) h
      have e1 : T - 1 - n = T - (n + 1) := by omega
      rw [e1] at ih'
      have sn := walkForward_snoc maps n (T - (n + 1)) (some p) k
        (fun i h1 h2 => by obtain ⟨m', hm', _⟩ := hall i h1 (by omega); exact ⟨m', hm'⟩) ih'
      rw [sn]
      have e2 : T - (n + 1) + n = T - 1 := by omega
      rw [e2]
      exact C12.walkForward_one maps (T - 1) m k (some q) hm hget


/-! ### keys -/

theorem not_mem_keys_of_hasKey_false (m : StepMap) (k : Id) (h : m.hasKey k = false) : k ∉ m.map (·.1) := by
  intro hmem
  obtain ⟨e, he, rfl⟩ := List.mem_map.1 hmem
  have := C12.alGet?_isSome_of_mem e.1 e.2 m he
  simp [StepMap.hasKey, this] at h

theorem assignAll_keys_nodup (s0 cutoff maxcoord : Rat) (pool1 : List TVert) :
    ∀ (pool0 : List TVert) (m : StepMap), (m.map (·.1)).Nodup →
      ((assignAll s0 cutoff maxcoord pool1 pool0 m).map (·.1)).Nodup := by
  intro pool0
  induction pool0 with
  | nil => intro m h; exact h
  | cons v0 rest ih =>
    intro m h
    simp only [assignAll]
    split
    · exact ih _ h
    · rename_i hk
      have hk' : m.hasKey v0.id = false := by simpa using hk
      apply ih
      rw [C12.set_fresh _ _ _ hk', List.map_append]
      refine List.nodup_append.2 ⟨h, by simp, ?_⟩
      intro a ha b hb
      simp only [List.map_cons, List.map_nil, List.mem_singleton] at hb
      subst hb
      intro e; subst e
      exact not_mem_keys_of_hasKey_false m _ hk' ha

theorem hasKey_append (m : StepMap) (k k' : Id) (v : Option Id) :
    (StepMap.hasKey (m ++ [(k', v)]) k = true) ↔ (m.hasKey k = true ∨ k = k') := by
  simp only [StepMap.hasKey, C12.alGet?_append]
  cases alGet? k m with
  | some x => simp
  | none => by_cases h : k = k' <;> simp [h]

theorem assignAll_hasKey_iff (s0 cutoff maxcoord : Rat) (pool1 : List TVert) (k : Id) :
    ∀ (pool0 : List TVert) (m : StepMap),
      (assignAll s0 cutoff maxcoord pool1 pool0 m).hasKey k = true ↔ (m.hasKey k = true ∨ k ∈ pool0.map (·.id)) := by
  intro pool0
  induction pool0 with
  | nil => intro m; simp [assignAll]
  | cons v0 rest ih =>
    intro m
    simp only [assignAll]
    split
    · rename_i hk
      rw [ih, List.map_cons, List.mem_cons]
      constructor
      · rintro (h | h)
        · exact Or.inl h
        · exact Or.inr (Or.inr h)
      · rintro (h | h | h)
        · exact Or.inl h
        · subst h; exact Or.inl hk
        · exact Or.inr h
    · rename_i hk
      have hk' : m.hasKey v0.id = false := by simpa using hk
      rw [ih, C12.set_fresh _ _ _ hk', hasKey_append, List.map_cons, List.mem_cons]
      tauto

/-! ### small motions, whole list; series -/

theorem assignAll_small_list (s0 cutoff maxcoord : Rat) (pool1 pool0 : List TVert) (succ : Id → Id)
    (hnd1 : (pool1.map (·.id)).Nodup)
    (hinj : ∀ a ∈ pool0, ∀ b ∈ pool0, succ a.id = succ b.id → a.id = b.id)
    (hsucc : ∀ a ∈ pool0, ∃ w ∈ pool1, w.id = succ a.id ∧
        (∀ u ∈ pool1, u.id ≠ w.id → distSq w.p a.p < distSq u.p a.p) ∧
        (∃ s ∈ spreads s0 cutoff 64, distSq w.p a.p < (s * maxcoord) * (s * maxcoord))) :
    ∀ (rest : List TVert) (m : StepMap), (∀ a ∈ rest, a ∈ pool0) → (rest.map (·.id)).Nodup →
      (∀ e ∈ m, ∃ a ∈ pool0, e = (a.id, some (succ a.id))) →
      (∀ a ∈ rest, m.hasKey a.id = false) →
      assignAll s0 cutoff maxcoord pool1 rest m = m ++ rest.map (fun a => (a.id, some (succ a.id))) := by
  intro rest
  induction rest with
  | nil => intro m _ _ _ _; simp [assignAll]
  | cons v0 rest ih =>
    intro m hsub hnd hm hfresh
    have hv0 : v0 ∈ pool0 := hsub v0 (by simp)
    have hsub' : ∀ a ∈ rest, a ∈ pool0 := fun a ha => hsub a (List.mem_cons_of_mem _ ha)
    have hk' : m.hasKey v0.id = false := hfresh v0 (by simp)
    simp only [List.map_cons, List.nodup_cons] at hnd
    simp only [assignAll, hk', Bool.false_eq_true, if_false]
    obtain ⟨w, hw, hwid, hnear, hrad⟩ := hsucc v0 hv0
    have hfree : some w.id ∉ m.values := by
      intro hin
      simp only [StepMap.values, List.mem_map] at hin
      obtain ⟨e, he, he2⟩ := hin
      obtain ⟨a, ha, rfl⟩ := hm e he
      simp only [Option.some.injEq] at he2
      have := hinj a ha v0 hv0 (by rw [he2, hwid])
      have hkk := C12.alGet?_isSome_of_mem _ _ _ he
      rw [this] at hkk
      simp [StepMap.hasKey, hkk] at hk'
    obtain ⟨b, hb, hbid⟩ := C12.findBest_small s0 cutoff maxcoord v0.p pool1 m.values w hnd1 hw hfree hnear hrad
    rw [C12.set_fresh _ _ _ hk', hb]
    simp only [Option.map_some, hbid, hwid]
    rw [ih _ hsub' hnd.2, List.append_assoc]
    · rfl
    · intro e he
      rcases List.mem_append.1 he with he | he
      · exact hm e he
      · simp only [List.mem_singleton] at he
        exact ⟨v0, hv0, he⟩
    · intro a ha
      have h1 := hfresh a (List.mem_cons_of_mem _ ha)
      have hne : a.id ≠ v0.id := by
        intro e; exact hnd.1 (List.mem_map.2 ⟨a, ha, e⟩)
      have := hasKey_append m a.id v0.id (some (succ v0.id))
      cases hh : StepMap.hasKey (m ++ [(v0.id, some (succ v0.id))]) a.id with
      | false => rfl
      | true =>
        rcases this.1 hh with h | h
        · rw [h1] at h; cases h
        · exact absurd h hne

theorem mapsOf_getD_eq (s0 cutoff maxDiff : Rat) (pools : List (List TVert)) (guesses : List StepMap) (i : Nat)
    (hi : i < pools.length - 1) :
    (mapsOf s0 cutoff maxDiff pools guesses).getD i none
      = createMapping s0 cutoff maxDiff (pools.getD i []) (pools.getD (i + 1) []) (guesses.getD i []) := by
  unfold mapsOf
  rw [List.getD_eq_getElem?_getD, List.getElem?_map, List.getElem?_range hi]
  rfl

end C12m
end Forsys
