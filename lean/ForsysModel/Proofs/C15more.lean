/-
  Helper lemmas for Props/C15more.lean: the first loop of `create_lattice` commutes with every injective map of the pixel
  plane (`mapPx`), and the combinatorial part of a mesh does not depend on the vertex coordinates (`forgetCoords`).
-/
import ForsysModel.Props.C15
import ForsysModel.Props.C15cleanup
namespace Forsys.Skel
open Mesh

def mapPx (f : Px → Px) (cs : List (List Px)) : List (List Px) := cs.map fun c => c.map f
def mapKeys (f : Px → Px) (keys : List (Px × Id)) : List (Px × Id) := keys.map fun pk => (f pk.1, pk.2)

theorem c15_lookup_map {f : Px → Px} (hf : Function.Injective f) (p : Px) (keys : List (Px × Id)) :
    lookup (f p) (mapKeys f keys) = lookup p keys := by
  induction keys with
  | nil => rfl
  | cons a l ih =>
    obtain ⟨q, k⟩ := a
    simp only [mapKeys, List.map_cons, lookup] at ih ⊢
    by_cases h : p = q
    · subst h; simp
    · have : f p ≠ f q := fun e => h (hf e)
      simp only [if_neg h, if_neg this]; exact ih

theorem c15_internPx_map {f : Px → Px} (hf : Function.Injective f) (keys : List (Px × Id)) (p : Px) :
    internPx (mapKeys f keys) (f p) = ((internPx keys p).1, mapKeys f (internPx keys p).2) := by
  unfold internPx
  rw [c15_lookup_map hf]
  cases lookup p keys with
  | some k => rfl
  | none => simp [mapKeys]

theorem c15_internContour_map {f : Px → Px} (hf : Function.Injective f) (c : List Px) (keys : List (Px × Id)) :
    internContour (mapKeys f keys) (c.map f) = ((internContour keys c).1, mapKeys f (internContour keys c).2) := by
  induction c generalizing keys with
  | nil => rfl
  | cons p c ih =>
    simp only [List.map_cons, internContour, c15_internPx_map hf, ih]

def mapRaw (f : Px → Px) (r : Raw) : Raw := { keys := mapKeys f r.keys, edgesAdded := r.edgesAdded, cells := r.cells }

theorem c15_stepContour_map {f : Px → Px} (hf : Function.Injective f) (st : Raw) (c : List Px) :
    stepContour (mapRaw f st) (c.map f) = mapRaw f (stepContour st c) := by
  simp only [stepContour, mapRaw, c15_internContour_map hf]

theorem c15_foldl_map {f : Px → Px} (hf : Function.Injective f) (cs : List (List Px)) (st : Raw) :
    (mapPx f cs).foldl stepContour (mapRaw f st) = mapRaw f (cs.foldl stepContour st) := by
  induction cs generalizing st with
  | nil => rfl
  | cons c cs ih =>
    simp only [mapPx, List.map_cons, List.foldl_cons] at ih ⊢
    rw [c15_stepContour_map hf, ih]

theorem rawOf_mapPx {f : Px → Px} (hf : Function.Injective f) (cs : List (List Px)) :
    rawOf (mapPx f cs) = mapRaw f (rawOf cs) := by
  exact c15_foldl_map hf cs ⟨[], [], []⟩

def zeroV (v : Vertex) : Vertex := { v with x := 0, y := 0 }
def forgetCoords (m : Mesh) : Mesh := { m with vertices := m.vertices.map fun p => (p.1, zeroV p.2) }

theorem c15_forget_updVertex (m : Mesh) (k : Id) (f : Vertex → Vertex) (hf : ∀ v, zeroV (f v) = f (zeroV v)) :
    forgetCoords (m.updVertex k f) = (forgetCoords m).updVertex k f := by
  simp only [forgetCoords, Mesh.updVertex, List.map_map]
  congr 1
  apply List.map_congr_left
  rintro ⟨k', v⟩ _
  by_cases h : k' = k <;> simp [h, hf]

theorem c15_zero_addEdgeTo (e : Id) (v : Vertex) : zeroV (addEdgeTo v e) = addEdgeTo (zeroV v) e := by
  unfold addEdgeTo zeroV; split <;> rfl
theorem c15_zero_addCellTo (e : Id) (v : Vertex) : zeroV (addCellTo v e) = addCellTo (zeroV v) e := by
  unfold addCellTo zeroV; split <;> rfl

theorem c15_forget_mkVertex (m : Mesh) (k : Id) (x y : Rat) :
    forgetCoords (m.mkVertex k x y) = (forgetCoords m).mkVertex k 0 0 := by
  simp only [forgetCoords, Mesh.mkVertex, List.map_append, List.filter_map]
  rfl

theorem c15_forget_mkEdge (m : Mesh) (k a b : Id) : forgetCoords (m.mkEdge k a b) = (forgetCoords m).mkEdge k a b := by
  have h := c15_forget_updVertex ((m.updVertex a (addEdgeTo · k))) b (addEdgeTo · k) (c15_zero_addEdgeTo k)
  rw [c15_forget_updVertex m a (addEdgeTo · k) (c15_zero_addEdgeTo k)] at h
  simp only [Mesh.mkEdge]
  simp only [forgetCoords] at h ⊢
  injection h with h1 h2 h3
  simp only [h1]
  rfl

theorem c15_forget_foldCell (k : Id) (verts : List Id) (m : Mesh) :
    forgetCoords (verts.foldl (fun m v => m.updVertex v (addCellTo · k)) m)
      = verts.foldl (fun m v => m.updVertex v (addCellTo · k)) (forgetCoords m) := by
  induction verts generalizing m with
  | nil => rfl
  | cons v l ih => simp only [List.foldl_cons]; rw [ih, c15_forget_updVertex _ _ _ (c15_zero_addCellTo k)]

theorem c15_forget_mkCell (m : Mesh) (k : Id) (verts : List Id) : forgetCoords (m.mkCell k verts) = (forgetCoords m).mkCell k verts := by
  simp only [Mesh.mkCell]
  rw [← c15_forget_foldCell]
  rfl

theorem c15_forget_foldV (vs : List (Id × Rat × Rat)) (m : Mesh) :
    forgetCoords (vs.foldl (fun m p => m.mkVertex p.1 p.2.1 p.2.2) m)
      = (vs.map fun p => (p.1, ((0 : Rat), (0 : Rat)))).foldl (fun m p => m.mkVertex p.1 p.2.1 p.2.2) (forgetCoords m) := by
  induction vs generalizing m with
  | nil => rfl
  | cons v l ih => simp only [List.foldl_cons, List.map_cons]; rw [ih, c15_forget_mkVertex]

theorem c15_forget_foldE (es : List (Id × Id × Id)) (m : Mesh) :
    forgetCoords (es.foldl (fun m p => m.mkEdge p.1 p.2.1 p.2.2) m)
      = es.foldl (fun m p => m.mkEdge p.1 p.2.1 p.2.2) (forgetCoords m) := by
  induction es generalizing m with
  | nil => rfl
  | cons v l ih => simp only [List.foldl_cons]; rw [ih, c15_forget_mkEdge]

theorem c15_forget_foldC (cs : List (Id × List Id)) (m : Mesh) :
    forgetCoords (cs.foldl (fun m p => m.mkCell p.1 p.2) m)
      = cs.foldl (fun m p => m.mkCell p.1 p.2) (forgetCoords m) := by
  induction cs generalizing m with
  | nil => rfl
  | cons v l ih => simp only [List.foldl_cons]; rw [ih, c15_forget_mkCell]

theorem c15_forget_ofLists (vs : List (Id × Rat × Rat)) (es : List (Id × Id × Id)) (cs : List (Id × List Id)) :
    forgetCoords (Mesh.ofLists vs es cs) = Mesh.ofLists (vs.map fun p => (p.1, ((0 : Rat), (0 : Rat)))) es cs := by
  simp only [Mesh.ofLists, c15_forget_foldC, c15_forget_foldE, c15_forget_foldV]
  rfl

theorem c15_forget_vertex? (m : Mesh) (k : Id) : (forgetCoords m).vertex? k = (m.vertex? k).map zeroV := by
  unfold forgetCoords Mesh.vertex?
  simp only
  induction m.vertices with
  | nil => rfl
  | cons a l ih =>
    simp only [List.map_cons, alGet?]
    split <;> simp_all

theorem forgetCoords_ownCells (m : Mesh) (k : Id) : (forgetCoords m).ownCells k = m.ownCells k := by
  simp only [Mesh.ownCells, c15_forget_vertex?]; cases m.vertex? k <;> rfl
theorem forgetCoords_ownEdges (m : Mesh) (k : Id) : (forgetCoords m).ownEdges k = m.ownEdges k := by
  simp only [Mesh.ownEdges, c15_forget_vertex?]; cases m.vertex? k <;> rfl

theorem forgetCoords_borderCells (m : Mesh) : borderCells (forgetCoords m) = borderCells m := by
  simp only [borderCells, forgetCoords_ownCells]; rfl
theorem forgetCoords_externalEdges (m : Mesh) : externalEdges (forgetCoords m) = externalEdges m := by
  simp only [externalEdges, forgetCoords_ownCells]; rfl
theorem forgetCoords_bigEdgesList (m : Mesh) : (forgetCoords m).bigEdgesList = m.bigEdgesList := by
  have : (forgetCoords m).isJunction = m.isJunction := by funext k; simp only [Mesh.isJunction, forgetCoords_ownEdges]
  simp only [Mesh.bigEdgesList, this]; rfl

/-! ### the two together -/

theorem c15_cyclicPairs_map {α β : Type} (f : α → β) (l : List α) :
    cyclicPairs (l.map f) = (cyclicPairs l).map (fun ab => (f ab.1, f ab.2)) := by
  cases l with
  | nil => rfl
  | cons a l =>
    simp only [List.map_cons, cyclicPairs]
    rw [show f a :: List.map f l = List.map f (a :: l) from rfl,
        show List.map f l ++ [f a] = List.map f (l ++ [a]) by simp, List.zip_map]
    rfl

theorem c15_precheck_map {f : Px → Px} (hf : Function.Injective f) (cs : List (List Px)) :
    precheck (mapPx f cs) = precheck cs := by
  induction cs with
  | nil => rfl
  | cons c cs ih =>
    simp only [mapPx, List.map_cons, precheck, List.length_map] at ih ⊢
    rw [ih, c15_cyclicPairs_map, List.any_map]
    have : ((fun pq : Px × Px => pq.1 == pq.2) ∘ fun ab : Px × Px => (f ab.1, f ab.2)) = fun pq => pq.1 == pq.2 := by
      funext ab
      simp only [Function.comp]
      by_cases h : ab.1 = ab.2
      · simp [h]
      · have : f ab.1 ≠ f ab.2 := fun e => h (hf e)
        simp [h, this]
    rw [this]

theorem c15_good_map {f : Px → Px} (hf : Function.Injective f) (cs : List (List Px)) :
    GoodContours (mapPx f cs) ↔ GoodContours cs := by
  simp only [GoodContours, mapPx, List.mem_map, forall_exists_index, and_imp, forall_apply_eq_imp_iff₂,
    List.length_map, List.nodup_map_iff hf]

theorem c15_rawVertices_zero (f : Px → Px) (r : Raw) :
    (rawVertices (mapRaw f r)).map (fun p => (p.1, ((0 : Rat), (0 : Rat))))
      = (rawVertices r).map (fun p => (p.1, ((0 : Rat), (0 : Rat)))) := by
  simp [rawVertices, mapRaw, mapKeys, List.map_map, Function.comp_def]

theorem c15_forget_rawMesh_map {f : Px → Px} (hf : Function.Injective f) (cs : List (List Px)) :
    forgetCoords (rawMesh (mapPx f cs)) = forgetCoords (rawMesh cs) := by
  simp only [rawMesh, c15_forget_ofLists, rawOf_mapPx hf, c15_rawVertices_zero]
  rfl

theorem c15_mirror_eq (cs : List (List Px)) : mirror cs = mapPx (fun p => (p.1, maxY cs - p.2)) cs := rfl

theorem c15_mirrorMap_inj (my : Int) : Function.Injective (fun p : Px => (p.1, my - p.2)) := by
  intro p q e
  simp only [Prod.mk.injEq] at e
  ext
  · exact e.1
  · have := e.2; omega

end Forsys.Skel
