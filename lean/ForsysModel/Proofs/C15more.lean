/-
  Helper lemmas for Props/C15more.lean: the first loop of `create_lattice` commutes with every injective map of the pixel
  plane (`mapPx`), and the combinatorial part of a mesh does not depend on the vertex coordinates (`forgetCoords`).
-/
import ForsysModel.Props.C15
import ForsysModel.Props.C15cleanup
namespace Forsys.Skel
open Mesh

def mapPx (f : Px → Px) (cs : List (List Px)) : List (List Px) := cs.map fun c => c.map f
def mapKeys (f : Px → Px) (keys : List (Px × Id)) : List (Px × Id) := keys.map fun pk => (f pk.1, pk.2)

theorem c15_lookup_map {f : Px → Px} (hf : Function.Injective f) (p : Px) (keys : List (Px × Id)) :
    lookup (f p) (mapKeys f keys) = lookup p keys := by
  induction keys with
  | nil => rfl
  | cons a l ih =>
    obtain ⟨q, k⟩ := a
    simp only [mapKeys, List.map_cons, lookup] at ih ⊢
    by_cases h : p = q
    · subst h; simp
    · have : f p ≠ f q := fun e => h (hf e)
      simp only [if_neg h, if_neg this]; exact ih

theorem c15_internPx_map {f : Px → Px} (hf : Function.Injective f) (keys : List (Px × Id)) (p : Px) :
    internPx (mapKeys f keys) (f p) = ((internPx keys p).1, mapKeys f (internPx keys p).2) := by
  unfold internPx
  rw [c15_lookup_map hf]
  cases lookup p keys with
  | some k => rfl
  | none => simp [mapKeys]

theorem c15_internContour_map {f : Px → Px} (hf : Function.Injective f) (c : List Px) (keys : List (Px × Id)) :
    internContour (mapKeys f keys) (c.map f) = ((internContour keys c).1, mapKeys f (internContour keys c).2) := by
  induction c generalizing keys with
  | nil => rfl
  | cons p c ih =>
    simp only [List.map_cons, internContour, c15_internPx_map hf, ih]

def mapRaw (f : Px → Px) (r : Raw) : Raw := { keys := mapKeys f r.keys, edgesAdded := r.edgesAdded, cells := r.cells }

theorem c15_stepContour_map {f : Px → Px} (hf : Function.Injective f) (st : Raw) (c : List Px) :
    stepContour (mapRaw f st) (c.map f) = mapRaw f (stepContour st c) := by
  simp only [stepContour, mapRaw, c15_internContour_map hf]

theorem c15_foldl_map {f : Px → Px} (hf : Function.Injective f) (cs : List (List Px)) (st : Raw) :
    (mapPx f cs).foldl stepContour (mapRaw f st) = mapRaw f (cs.foldl stepContour st) := by
  induction cs generalizing st with
  | nil => rfl
  | cons c cs ih =>
    simp only [mapPx, List.map_cons, List.foldl_cons] at ih ⊢
    rw [c15_stepContour_map hf, ih]

theorem rawOf_mapPx {f : Px → Px} (hf : Function.Injective f) (cs : List (List Px)) :
    rawOf (mapPx f cs) = mapRaw f (rawOf cs) := by
  exact c15_foldl_map hf cs ⟨[], [], []⟩

def zeroV (v : Vertex) : Vertex := { v with x := 0, y := 0 }
def forgetCoords (m : Mesh) : Mesh := { m with vertices := m.vertices.map fun p => (p.1, zeroV p.2) }

theorem c15_forget_updVertex (m : Mesh) (k : Id) (f : Vertex → Vertex) (hf : ∀ v, zeroV (f v) = f (zeroV v)) :
    forgetCoords (m.updVertex k f) = (forgetCoords m).updVertex k f := by
  simp only [forgetCoords, Mesh.updVertex, List.map_map]
  congr 1
  apply List.map_congr_left
  rintro ⟨k', v⟩ _
  by_cases h : k' = k <;> simp [h, hf]

theorem c15_zero_addEdgeTo (e : Id) (v : Vertex) : zeroV (addEdgeTo v e) = addEdgeTo (zeroV v) e := by
  unfold addEdgeTo zeroV; split <;> rfl
theorem c15_zero_addCellTo (e : Id) (v : Vertex) : zeroV (addCellTo v e) = addCellTo (zeroV v) e := by
  unfold addCellTo zeroV; split <;> rfl

theorem c15_forget_mkVertex (m : Mesh) (k : Id) (x y : Rat) :
    forgetCoords (m.mkVertex k x y) = (forgetCoords m).mkVertex k 0 0 := by
  simp only [forgetCoords, Mesh.mkVertex, List.map_append, List.filter_map]
  rfl

theorem c15_forget_mkEdge (m : Mesh) (k a b : Id) : forgetCoords (m.mkEdge k a b) = (forgetCoords m).mkEdge k a b := by
  have h := c15_forget_updVertex ((m.updVertex a (addEdgeTo · k))) b (addEdgeTo · k) (c15_zero_addEdgeTo k)
  rw [c15_forget_updVertex m a (addEdgeTo · k) (c15_zero_addEdgeTo k)] at h
  simp only [Mesh.mkEdge]
  simp only [forgetCoords] at h ⊢
  injection h with h1 h2 h3
  simp only [h1]
  rfl

theorem c15_forget_foldCell (k : Id) (verts : List Id) (m : Mesh) :
    forgetCoords (verts.foldl (fun m v => m.updVertex v (addCellTo · k)) m)
      = verts.foldl (fun m v => m.updVertex v (addCellTo · k)) (forgetCoords m) := by
  induction verts generalizing m with
  | nil => rfl
  | cons v l ih => simp only [List.foldl_cons]; rw [ih, c15_forget_updVertex _ _ _ (c15_zero_addCellTo k)]

theorem c15_forget_mkCell (m : Mesh) (k : Id) (verts : List Id) : forgetCoords (m.mkCell k verts) = (forgetCoords m).mkCell k verts := by
  simp only [Mesh.mkCell]
  rw [← c15_forget_foldCell]
  rfl

theorem c15_forget_foldV (vs : List (Id × Rat × Rat)) (m : Mesh) :
    forgetCoords (vs.foldl (fun m p => m.mkVertex p.1 p.2.1 p.2.2) m)
      = (vs.map fun p => (p.1, ((0 : Rat), (0 : Rat)))).foldl (fun m p => m.mkVertex p.1 p.2.1 p.2.2) (forgetCoords m) := by
  induction vs generalizing m with
  | nil => rfl
  | cons v l ih => simp only [List.foldl_cons, List.map_cons]; rw [ih, c15_forget_mkVertex]

theorem c15_forget_foldE (es : List (Id × Id × Id)) (m : Mesh) :
    forgetCoords (es.foldl (fun m p => m.mkEdge p.1 p.2.1 p.2.2) m)
      = es.foldl (fun m p => m.mkEdge p.1 p.2.1 p.2.2) (forgetCoords m) := by
  induction es generalizing m with
  | nil => rfl
  | cons v l ih => simp only [List.foldl_cons]; rw [ih, c15_forget_mkEdge]

theorem c15_forget_foldC (cs : List (Id × List Id)) (m : Mesh) :
    forgetCoords (cs.foldl (fun m p => m.mkCell p.1 p.2) m)
      = cs.foldl (fun m p => m.mkCell p.1 p.2) (forgetCoords m) := by
  induction cs generalizing m with
  | nil => rfl
  | cons v l ih => simp only [List.foldl_cons]; rw [ih, c15_forget_mkCell]

theorem c15_forget_ofLists (vs : List (Id × Rat × Rat)) (es : List (Id × Id × Id)) (cs : List (Id × List Id)) :
    forgetCoords (Mesh.ofLists vs es cs) = Mesh.ofLists (vs.map fun p => (p.1, ((0 : Rat), (0 : Rat)))) es cs := by
  simp only [Mesh.ofLists, c15_forget_foldC, c15_forget_foldE, c15_forget_foldV]
  rfl

theorem c15_forget_vertex? (m : Mesh) (k : Id) : (forgetCoords m).vertex? k = (m.vertex? k).map zeroV := by
  unfold forgetCoords Mesh.vertex?
  simp only
  induction m.vertices with
  | nil => rfl
  | cons a l ih =>
    simp only [List.map_cons, alGet?]
    split <;> simp_all

theorem forgetCoords_ownCells (m : Mesh) (k : Id) : (forgetCoords m).ownCells k = m.ownCells k := by
  simp only [Mesh.ownCells, c15_forget_vertex?]; cases m.vertex? k <;> rfl
theorem forgetCoords_ownEdges (m : Mesh) (k : Id) : (forgetCoords m).ownEdges k = m.ownEdges k := by
  simp only [Mesh.ownEdges, c15_forget_vertex?]; cases m.vertex? k <;> rfl

theorem forgetCoords_borderCells (m : Mesh) : borderCells (forgetCoords m) = borderCells m := by
  simp only [borderCells, forgetCoords_ownCells]; rfl
theorem forgetCoords_externalEdges (m : Mesh) : externalEdges (forgetCoords m) = externalEdges m := by
  simp only [externalEdges, forgetCoords_ownCells]; rfl
theorem forgetCoords_bigEdgesList (m : Mesh) : (forgetCoords m).bigEdgesList = m.bigEdgesList := by
  have : (forgetCoords m).isJunction = m.isJunction := by funext k; simp only [Mesh.isJunction, forgetCoords_ownEdges]
  simp only [Mesh.bigEdgesList, this]; rfl

/-! ### the two together -/

theorem c15_cyclicPairs_map {α β : Type} (f : α → β) (l : List α) :
    cyclicPairs (l.map f) = (cyclicPairs l).map (fun ab => (f ab.1, f ab.2)) := by
  cases l with
  | nil => rfl
  | cons a l =>
    simp only [List.map_cons, cyclicPairs]
    rw [show f a :: List.map f l = List.map f (a :: l) from rfl,
        show List.map f l ++ [f a] = List.map f (l ++ [a]) by simp, List.zip_map]
    rfl

theorem c15_precheck_map {f : Px → Px} (hf : Function.Injective f) (cs : List (List Px)) :
    precheck (mapPx f cs) = precheck cs := by
  induction cs with
  | nil => rfl
  | cons c cs ih =>
    simp only [mapPx, List.map_cons, precheck, List.length_map] at ih ⊢
    rw [ih, c15_cyclicPairs_map, List.any_map]
    have : ((fun pq : Px × Px => pq.1 == pq.2) ∘ fun ab : Px × Px => (f ab.1, f ab.2)) = fun pq => pq.1 == pq.2 := by
      funext ab
      simp only [Function.comp]
      by_cases h : ab.1 = ab.2
      · simp [h]
      · have : f ab.1 ≠ f ab.2 := fun e => h (hf e)
        simp [h, this]
    rw [this]

theorem c15_good_map {f : Px → Px} (hf : Function.Injective f) (cs : List (List Px)) :
    GoodContours (mapPx f cs) ↔ GoodContours cs := by
  simp only [GoodContours, mapPx, List.mem_map, forall_exists_index, and_imp, forall_apply_eq_imp_iff₂,
    List.length_map, List.nodup_map_iff hf]

theorem c15_rawVertices_zero (f : Px → Px) (r : Raw) :
    (rawVertices (mapRaw f r)).map (fun p => (p.1, ((0 : Rat), (0 : Rat))))
      = (rawVertices r).map (fun p => (p.1, ((0 : Rat), (0 : Rat)))) := by
  simp [rawVertices, mapRaw, mapKeys, List.map_map, Function.comp_def]

theorem c15_forget_rawMesh_map {f : Px → Px} (hf : Function.Injective f) (cs : List (List Px)) :
    forgetCoords (rawMesh (mapPx f cs)) = forgetCoords (rawMesh cs) := by
  simp only [rawMesh, c15_forget_ofLists, rawOf_mapPx hf, c15_rawVertices_zero]
  rfl

theorem c15_mirror_eq (cs : List (List Px)) : mirror cs = mapPx (fun p => (p.1, maxY cs - p.2)) cs := rfl

theorem c15_mirrorMap_inj (my : Int) : Function.Injective (fun p : Px => (p.1, my - p.2)) := by
  intro p q e
  simp only [Prod.mk.injEq] at e
  ext
  · exact e.1
  · have := e.2; omega

/-! ### the clean-up stages read no coordinates -/

theorem c15_foldE_map {α β γ : Type} (φ : β → γ) (f : β → α → Except Err β) (g : γ → α → Except Err γ)
    (h : ∀ b a, g (φ b) a = (f b a).map φ) (l : List α) (b : β) :
    foldE g (φ b) l = (foldE f b l).map φ := by
  induction l generalizing b with
  | nil => rfl
  | cons a l ih =>
    simp only [foldE, h]
    cases f b a with
    | error e => rfl
    | ok b' => exact ih b'

theorem c15_F_updEraseE (m : Mesh) (v k : Id) :
    forgetCoords (m.updVertex v fun x => { x with ownEdges := x.ownEdges.erase k })
      = (forgetCoords m).updVertex v fun x => { x with ownEdges := x.ownEdges.erase k } :=
  c15_forget_updVertex m v (fun x => { x with ownEdges := x.ownEdges.erase k }) (fun _ => rfl)

theorem c15_F_updEraseC (m : Mesh) (v k : Id) :
    forgetCoords (m.updVertex v fun x => { x with ownCells := x.ownCells.erase k })
      = (forgetCoords m).updVertex v fun x => { x with ownCells := x.ownCells.erase k } :=
  c15_forget_updVertex m v (fun x => { x with ownCells := x.ownCells.erase k }) (fun _ => rfl)

theorem c15_F_delEdge (m : Mesh) (k : Id) : forgetCoords (m.delEdge k) = (forgetCoords m).delEdge k := by
  unfold Mesh.delEdge
  rw [show (forgetCoords m).edge? k = m.edge? k from rfl]
  cases m.edge? k with
  | none => rfl
  | some e =>
    simp only
    rw [← c15_F_updEraseE m e.v1, ← c15_F_updEraseE _ e.v2]
    rfl

theorem c15_F_edgeReplaceVertex (m : Mesh) (a b c : Id) :
    forgetCoords (m.edgeReplaceVertex a b c) = (forgetCoords m).edgeReplaceVertex a b c := by
  unfold Mesh.edgeReplaceVertex
  rw [show (forgetCoords m).edge? a = m.edge? a from rfl]
  cases m.edge? a with
  | none => rfl
  | some e =>
    simp only
    rw [c15_forget_updVertex _ c _ (c15_zero_addEdgeTo a)]
    congr 1
    show forgetCoords ((m.updVertex _ _).updEdge _ _) = _
    rw [← c15_F_updEraseE m]
    rfl

theorem c15_F_delCell (m : Mesh) (k : Id) : forgetCoords (m.delCell k) = (forgetCoords m).delCell k := by
  unfold Mesh.delCell
  rw [show (forgetCoords m).cell? k = m.cell? k from rfl]
  cases m.cell? k with
  | none => rfl
  | some c =>
    simp only
    have : ∀ (l : List Id) (m : Mesh),
        forgetCoords (l.foldl (fun m v => m.updVertex v fun vx => { vx with ownCells := vx.ownCells.erase k }) m)
        = l.foldl (fun m v => m.updVertex v fun vx => { vx with ownCells := vx.ownCells.erase k }) (forgetCoords m) := by
      intro l
      induction l with
      | nil => intro m; rfl
      | cons v l ih => intro m; simp only [List.foldl_cons]; rw [ih, c15_F_updEraseC]
    rw [← this]
    rfl

def forgetSt (st : St) : St := { st with mesh := forgetCoords st.mesh }

theorem c15_FS_getV (st : St) (k : Id) : (forgetSt st).getV k = (st.getV k).map zeroV := by
  unfold St.getV forgetSt
  simp only
  split
  · rfl
  · rw [c15_forget_vertex?]; cases st.mesh.vertex? k <;> rfl

theorem c15_FS_release (st : St) : (forgetSt st).release = forgetSt st.release := by
  unfold St.release forgetSt
  simp only
  cases st.zombie with
  | none => rfl
  | some e =>
    simp only
    rw [c15_F_updEraseE, c15_F_updEraseE]

theorem c15_FS_delEdge (st : St) (k : Id) : (forgetSt st).delEdge k = (st.delEdge k).map forgetSt := by
  unfold St.delEdge
  rw [show (forgetSt st).mesh.edge? k = st.mesh.edge? k from rfl]
  cases st.mesh.edge? k with
  | none => rfl
  | some e =>
    simp only
    rw [show (forgetSt st).pinned = st.pinned from rfl]
    split
    · rfl
    · simp only [Except.map, forgetSt, c15_F_delEdge]

theorem c15_FS_liveDel (fuel : Nat) (st : St) (v : Id) (i : Nat) (rb : Bool) :
    liveDel fuel (forgetSt st) v i rb = (liveDel fuel st v i rb).map forgetSt := by
  induction fuel generalizing st i rb with
  | zero => rfl
  | succ n ih =>
    simp only [liveDel]
    rw [show (forgetSt st).mesh.ownEdges v = st.mesh.ownEdges v from forgetCoords_ownEdges _ _]
    cases (st.mesh.ownEdges v)[i]? with
    | none => rfl
    | some x =>
      simp only
      have : (if rb = true then (forgetSt st).release else forgetSt st) = forgetSt (if rb = true then st.release else st) := by
        cases rb <;> simp [c15_FS_release]
      rw [this, c15_FS_delEdge]
      cases (if rb = true then st.release else st).delEdge x with
      | error e => rfl
      | ok st' => exact ih st' (i + 1) false

theorem c15_F_cellReplace (m : Mesh) (c a b : Id) :
    cellReplace (forgetCoords m) c a b = (cellReplace m c a b).map forgetCoords := by
  unfold cellReplace
  rw [show (forgetCoords m).cell? c = m.cell? c from rfl]
  cases m.cell? c with
  | none => rfl
  | some cl =>
    simp only
    split
    · rfl
    · split
      · rfl
      · simp only [Except.map]
        rw [c15_forget_updVertex _ b _ (c15_zero_addCellTo c)]
        rfl

theorem c15_F_edgeReplace (m : Mesh) (c a b : Id) :
    edgeReplace (forgetCoords m) c a b = (edgeReplace m c a b).map forgetCoords := by
  unfold edgeReplace
  rw [show (forgetCoords m).edge? c = m.edge? c from rfl]
  cases m.edge? c with
  | none => rfl
  | some e =>
    simp only [forgetCoords_ownEdges]
    generalize (if (e.v1 == a) = true then e.v1 else e.v2) = oe
    by_cases h : (!(m.ownEdges oe).contains c) = true
    · rw [if_pos h, if_pos h]; rfl
    · rw [if_neg h, if_neg h]; simp only [Except.map, c15_F_edgeReplaceVertex]

def forgetSV (sv : St × List (Id × Id)) : St × List (Id × Id) := (forgetSt sv.1, sv.2)

theorem c15_FS_foldDel (l : List Id) (st : St) :
    foldE (fun st x => st.delEdge x) (forgetSt st) l = (foldE (fun st x => st.delEdge x) st l).map forgetSt :=
  c15_foldE_map forgetSt _ _ (fun b a => c15_FS_delEdge b a) l st

theorem c15_F_foldCellReplace (l : List Id) (m : Mesh) (a b : Id) :
    foldE (fun m c => cellReplace m c a b) (forgetCoords m) l
      = (foldE (fun m c => cellReplace m c a b) m l).map forgetCoords :=
  c15_foldE_map forgetCoords _ _ (fun m c => c15_F_cellReplace m c a b) l m

theorem c15_triTail (st : St) (m : Mesh) (vdel : Id) (vis : List (Id × Id)) (k : Id × Id) :
    (match foldE (fun st x => st.delEdge x)
        ({ mesh := forgetCoords m, dead := st.dead, pinned := st.pinned, zombie := st.zombie, idReused := st.idReused } : St)
        ((forgetCoords m).ownEdges vdel) with
      | Except.error e => Except.error e
      | Except.ok st' => Except.ok (({ st' with dead := st'.dead ++ [vdel] } : St), vis ++ [k]))
    = Except.map forgetSV
      (match foldE (fun st x => st.delEdge x)
        ({ mesh := m, dead := st.dead, pinned := st.pinned, zombie := st.zombie, idReused := st.idReused } : St)
        (m.ownEdges vdel) with
      | Except.error e => Except.error e
      | Except.ok st' => Except.ok (({ st' with dead := st'.dead ++ [vdel] } : St), vis ++ [k])) := by
  rw [forgetCoords_ownEdges]
  have := c15_FS_foldDel (m.ownEdges vdel)
    ({ mesh := m, dead := st.dead, pinned := st.pinned, zombie := st.zombie, idReused := st.idReused } : St)
  simp only [forgetSt] at this
  rw [this]
  cases foldE (fun st x => st.delEdge x)
    ({ mesh := m, dead := st.dead, pinned := st.pinned, zombie := st.zombie, idReused := st.idReused } : St)
    (m.ownEdges vdel) <;> rfl

theorem c15_FS_triStep' (bigs : List (List Id)) (st : St) (vis : List (Id × Id)) (k : Id × Id) :
    triStep bigs (forgetSt st, vis) k = (triStep bigs (st, vis) k).map forgetSV := by
  unfold triStep
  simp only
  by_cases hv : (vis.contains k || vis.contains (k.2, k.1)) = true
  · simp only [if_pos hv]; rfl
  simp only [if_neg hv]
  cases firstLongest (sameEnds bigs k) with
  | none => rfl
  | some e0 =>
  cases firstShortest (sameEnds bigs k) with
  | none => rfl
  | some e1 =>
  simp only
  cases minOf (e0.filter fun v => !e1.contains v) with
  | none => rfl
  | some vdel =>
  simp only
  by_cases hl : e0.length > 3
  · simp only [if_pos hl]; rfl
  simp only [if_neg hl]
  rw [c15_FS_getV, c15_FS_getV]
  cases st.getV vdel with
  | error e => rfl
  | ok vx =>
  simp only [Except.map]
  rw [show (zeroV vx).ownCells = vx.ownCells from rfl]
  cases vx.ownCells with
  | nil => exact c15_triTail st st.mesh vdel vis k
  | cons c cs =>
    cases st.getV (e0.headD 0) with
    | error e => rfl
    | ok t =>
      simp only
      rw [show (zeroV t).id = t.id from rfl, show (forgetSt st).mesh = forgetCoords st.mesh from rfl,
        c15_F_foldCellReplace]
      cases foldE (fun m c => cellReplace m c vdel t.id) st.mesh (c :: cs) with
      | error e => rfl
      | ok m => exact c15_triTail st m vdel vis k

theorem c15_FS_triangles (st : St) (bigs : List (List Id)) :
    triangles (forgetSt st) bigs = (triangles st bigs).map forgetSt := by
  unfold triangles
  have := c15_foldE_map forgetSV (triStep bigs) (triStep bigs)
    (fun b a => c15_FS_triStep' bigs b.1 b.2 a) (dupKeys (firstLast bigs)) (st, [])
  simp only [forgetSV] at this
  rw [this]
  cases foldE (triStep bigs) (st, []) (dupKeys (firstLast bigs)) <;> rfl

theorem c15_FS_liveVertices (st : St) :
    (forgetSt st).liveVertices = st.liveVertices.map fun p => (p.1, zeroV p.2) := by
  simp only [St.liveVertices, forgetSt, forgetCoords, List.filter_map]
  rfl

theorem c15_FS_getArtifacts (st : St) (ext : List Id) : getArtifacts (forgetSt st) ext = getArtifacts st ext := by
  simp only [getArtifacts, c15_FS_liveVertices, List.filter_map, List.map_map]
  rfl

theorem c15_FS_newVid (st : St) : newVid (forgetSt st) = newVid st := by
  simp only [newVid, c15_FS_liveVertices, List.map_map]
  rfl

theorem c15_FS_addV (st : St) (all cur : List Id) :
    addVerticesToCurrent (forgetSt st) all cur = addVerticesToCurrent st all cur := by
  unfold addVerticesToCurrent
  cases cur.getLast? with
  | none => rfl
  | some v0 =>
    simp only
    rw [c15_FS_getV]
    cases st.getV v0 <;> rfl

theorem c15_FS_group (fuel : Nat) (st : St) (l : List Id) :
    groupArtifacts fuel (forgetSt st) l = groupArtifacts fuel st l := by
  induction fuel generalizing l with
  | zero => rfl
  | succ n ih =>
    cases l with
    | nil => rfl
    | cons a rest =>
      simp only [groupArtifacts, c15_FS_addV, ih]

theorem c15_FS_d16 (st : St) (g : List (List Id)) : d16Pred (forgetSt st) g = d16Pred st g := rfl

theorem c15_F_foldEdgeReplace (l : List Id) (m : Mesh) (a b : Id) :
    foldE (fun m c => edgeReplace m c a b) (forgetCoords m) l
      = (foldE (fun m c => edgeReplace m c a b) m l).map forgetCoords :=
  c15_foldE_map forgetCoords _ _ (fun m c => c15_F_edgeReplace m c a b) l m

theorem c15_FS_t3Vertex (art : List Id) (newId : Id) (st : St) (v : Id) :
    t3Vertex art newId (forgetSt st) v = (t3Vertex art newId st v).map forgetSt := by
  unfold t3Vertex
  rw [c15_FS_getV]
  cases st.getV v with
  | error e => rfl
  | ok vx =>
    simp only [Except.map]
    rw [show (zeroV vx).ownEdges = vx.ownEdges from rfl, show (forgetSt st).mesh.edge? = st.mesh.edge? from rfl]
    cases foldE (fun (acc : List Id × List Id) eid =>
        match st.mesh.edge? eid with
        | none => .error .keyError
        | some e => if art.contains e.v1 && art.contains e.v2 then .ok (acc.1 ++ [eid], acc.2)
                    else .ok (acc.1, acc.2 ++ [eid])) ([], []) vx.ownEdges with
    | error e => rfl
    | ok tr =>
      obtain ⟨toRemove, toReplace⟩ := tr
      simp only
      rw [c15_FS_foldDel]
      cases foldE (fun st k => st.delEdge k) st toRemove with
      | error e => rfl
      | ok st1 =>
        simp only [Except.map]
        rw [show (forgetSt st1).mesh = forgetCoords st1.mesh from rfl, c15_F_foldEdgeReplace]
        cases foldE (fun m k => edgeReplace m k v newId) st1.mesh toReplace with
        | error e => rfl
        | ok m =>
          simp only [Except.map]
          rw [forgetCoords_ownCells, c15_F_foldCellReplace]
          cases foldE (fun m c => cellReplace m c v newId) m (m.ownCells v) <;> rfl

theorem c15_F_idem (m : Mesh) : forgetCoords (forgetCoords m) = forgetCoords m := by
  simp only [forgetCoords, List.map_map]
  rfl

def t3Check (st : St) (v : Id) : Except Err St :=
  match st.getV v with
  | .error e => .error e
  | .ok vx => if vx.ownEdges.isEmpty then .ok { st with dead := st.dead ++ [v] } else .ok st

def t3Rest (art : List Id) (newId : Id) (st : St) : Except Err St :=
  match foldE (t3Vertex art newId) st art with
  | .error e => .error e
  | .ok st => foldE t3Check st art

def t3Collect (st : St) (acc : List Rat × List Rat) (v : Id) : Except Err (List Rat × List Rat) :=
  match st.getV v with
  | .error e => .error e
  | .ok vx => .ok (acc.1 ++ [vx.x], acc.2 ++ [vx.y])

theorem c15_t3_eq (st : St) (art : List Id) :
    t3 st art = match foldE (t3Collect st) ([], []) art with
      | .error e => .error e
      | .ok (xs, ys) =>
        t3Rest art (newVid st)
          { st with mesh := st.mesh.mkVertex (newVid st) (mean xs) (mean ys),
                    dead := st.dead.filter (· != newVid st),
                    idReused := st.idReused || (st.mesh.vertex? (newVid st)).isSome } := rfl

theorem c15_FS_t3Check (st : St) (v : Id) : t3Check (forgetSt st) v = (t3Check st v).map forgetSt := by
  unfold t3Check
  rw [c15_FS_getV]
  cases st.getV v with
  | error e => rfl
  | ok vx =>
    simp only [Except.map]
    rw [show (zeroV vx).ownEdges = vx.ownEdges from rfl]
    split <;> rfl

theorem c15_FS_t3Rest (art : List Id) (n : Id) (st : St) :
    t3Rest art n (forgetSt st) = (t3Rest art n st).map forgetSt := by
  unfold t3Rest
  rw [c15_foldE_map forgetSt _ _ (fun b a => c15_FS_t3Vertex art n b a)]
  cases foldE (t3Vertex art n) st art with
  | error e => rfl
  | ok st1 =>
    simp only [Except.map]
    exact c15_foldE_map forgetSt _ _ (fun b a => c15_FS_t3Check b a) art st1

theorem c15_t3Collect (st : St) (art : List Id) (acc acc' : List Rat × List Rat) :
    (∃ e, foldE (t3Collect (forgetSt st)) acc' art = .error e ∧ foldE (t3Collect st) acc art = .error e) ∨
    (∃ r r', foldE (t3Collect (forgetSt st)) acc' art = .ok r' ∧ foldE (t3Collect st) acc art = .ok r) := by
  induction art generalizing acc acc' with
  | nil => exact Or.inr ⟨acc, acc', rfl, rfl⟩
  | cons v l ih =>
    simp only [foldE, t3Collect, c15_FS_getV]
    cases st.getV v with
    | error e => exact Or.inl ⟨e, rfl, rfl⟩
    | ok vx => exact ih _ _

theorem c15_t3_coordfree (st : St) (art : List Id) :
    (t3 (forgetSt st) art).map forgetSt = (t3 st art).map forgetSt := by
  rw [c15_t3_eq, c15_t3_eq]
  rcases c15_t3Collect st art ([], []) ([], []) with ⟨e, h1, h2⟩ | ⟨r, r', h1, h2⟩
  · rw [h1, h2]
  · rw [h1, h2]
    obtain ⟨xs, ys⟩ := r
    obtain ⟨xs', ys'⟩ := r'
    simp only
    have key : ∀ s : St, (t3Rest art (newVid st) s).map forgetSt = t3Rest art (newVid st) (forgetSt s) :=
      fun s => (c15_FS_t3Rest art (newVid st) s).symm
    rw [c15_FS_newVid, key, key]
    congr 1
    simp only [forgetSt, c15_forget_mkVertex, c15_F_idem, c15_forget_vertex?, Option.isSome_map]

theorem c15_foldE_rel {α β : Type} (φ : β → β) (f : β → α → Except Err β)
    (h : ∀ b a, (f (φ b) a).map φ = (f b a).map φ) (l : List α) (b b' : β) (hb : φ b = φ b') :
    (foldE f b l).map φ = (foldE f b' l).map φ := by
  induction l generalizing b b' with
  | nil => simp only [foldE, Except.map, hb]
  | cons a l ih =>
    have h1 : (f b a).map φ = (f b' a).map φ := by rw [← h b a, ← h b' a, hb]
    simp only [foldE]
    cases hfa : f b a with
    | error e =>
      cases hfb : f b' a with
      | error e' => rw [hfa, hfb] at h1; simp only [Except.map] at h1; injection h1 with h1; subst h1; rfl
      | ok b2 => rw [hfa, hfb] at h1; simp only [Except.map] at h1; cases h1
    | ok b1 =>
      cases hfb : f b' a with
      | error e' => rw [hfa, hfb] at h1; simp only [Except.map] at h1; cases h1
      | ok b2 =>
        rw [hfa, hfb] at h1; simp only [Except.map] at h1; injection h1 with h1
        exact ih b1 b2 h1

theorem c15_FS_live (st : St) : (forgetSt st).live = st.live := by
  funext k
  simp only [St.live, forgetSt, c15_forget_vertex?, Option.isSome_map]

theorem c15_F_finalMesh (st : St) : forgetCoords (finalMesh st) = finalMesh (forgetSt st) := by
  simp only [finalMesh, c15_FS_live, c15_FS_liveVertices]
  rfl

def forgetAcc (acc : St × Bool × List Id) : St × Bool × List Id := (forgetSt acc.1, acc.2.1, acc.2.2)
def forgetSB (a : St × Bool) : St × Bool := (forgetSt a.1, a.2)

def c15IsoInner (a : St × Bool) (v : Id) : Except Err (St × Bool) :=
  let n := (a.1.mesh.ownEdges v).length
  match liveDel (n + 1) a.1 v 0 a.2 with
  | .error e => .error e
  | .ok st' =>
    let st'' := if st'.dead.contains v then st' else { st' with dead := st'.dead ++ [v] }
    .ok (st'', a.2 && n == 0)

theorem c15_isolatedStep_eq (acc : St × Bool × List Id) (c : Id × Cell) :
    isolatedStep acc c =
      if c.2.verts.all fun v => decide ((acc.1.mesh.ownCells v).length ≤ 1) then
        match foldE c15IsoInner (acc.1, acc.2.1) c.2.verts with
        | .error e => .error e
        | .ok a => .ok (a.1, a.2, acc.2.2 ++ [c.1])
      else .ok acc := rfl

theorem c15_FS_isoInner (st : St) (b : Bool) (v : Id) :
    c15IsoInner (forgetSt st, b) v = (c15IsoInner (st, b) v).map forgetSB := by
  unfold c15IsoInner
  simp only
  rw [show (forgetSt st).mesh.ownEdges v = st.mesh.ownEdges v from forgetCoords_ownEdges _ _, c15_FS_liveDel]
  cases liveDel ((st.mesh.ownEdges v).length + 1) st v 0 b with
  | error e => rfl
  | ok st' =>
    simp only [Except.map, forgetSB]
    rw [show (forgetSt st').dead = st'.dead from rfl]
    split <;> rfl

theorem c15_FS_isolatedStep (st : St) (b : Bool) (iso : List Id) (c : Id × Cell) :
    isolatedStep (forgetSt st, b, iso) c = (isolatedStep (st, b, iso) c).map forgetAcc := by
  rw [c15_isolatedStep_eq, c15_isolatedStep_eq]
  simp only
  rw [show (forgetSt st).mesh.ownCells = st.mesh.ownCells from funext (forgetCoords_ownCells _)]
  split
  · have := c15_foldE_map forgetSB c15IsoInner c15IsoInner (fun a v => c15_FS_isoInner a.1 a.2 v) c.2.verts (st, b)
    simp only [forgetSB] at this
    rw [this]
    cases foldE c15IsoInner (st, b) c.2.verts <;> rfl
  · rfl

/-- a lattice / a result of `create_lattice` with the vertex coordinates forgotten -/
def forgetLattice (l : Lattice) : Lattice := { l with mesh := forgetCoords l.mesh }
def forgetResult (r : Except Err Lattice × Bool) : Except Err Lattice × Bool := (r.1.map forgetLattice, r.2)

def c15Tail (border external : List Id) (bigs groups : List (List Id)) (triDel : List Id) (d16 : Bool) (st2 : St) :
    Except Err Lattice × Bool :=
  match foldE isolatedStep (st2, true, []) st2.mesh.cells with
  | .error e => (.error e, d16)
  | .ok (st3, _, iso) =>
    let st4 := st3.release
    let m := iso.foldl (fun m c => m.delCell c) st4.mesh
    let st5 := { st4 with mesh := m }
    (.ok { mesh := finalMesh st5, border := border.filter (fun c => !iso.contains c),
           external := external.filter (fun k => (st5.mesh.edge? k).isSome),
           bigEdges := bigs, artifacts := groups, triangleDeleted := triDel, isolated := iso,
           zombieSeen := d16, idReused := st5.idReused }, d16)

theorem c15_F_foldDelCell (iso : List Id) (m : Mesh) :
    forgetCoords (iso.foldl (fun m c => m.delCell c) m) = iso.foldl (fun m c => m.delCell c) (forgetCoords m) := by
  induction iso generalizing m with
  | nil => rfl
  | cons a l ih => simp only [List.foldl_cons]; rw [ih, c15_F_delCell]

theorem c15_FS_tail (border external : List Id) (bigs groups : List (List Id)) (triDel : List Id) (d16 : Bool)
    (st2 : St) :
    c15Tail border external bigs groups triDel d16 (forgetSt st2)
      = forgetResult (c15Tail border external bigs groups triDel d16 st2) := by
  unfold c15Tail
  have := c15_foldE_map forgetAcc isolatedStep isolatedStep
    (fun a c => c15_FS_isolatedStep a.1 a.2.1 a.2.2 c) st2.mesh.cells (st2, true, [])
  simp only [forgetAcc] at this
  rw [show (forgetSt st2).mesh.cells = st2.mesh.cells from rfl, this]
  cases foldE isolatedStep (st2, true, []) st2.mesh.cells with
  | error e => rfl
  | ok r =>
    obtain ⟨st3, b, iso⟩ := r
    simp only [Except.map, forgetAcc]
    rw [c15_FS_release]
    simp only [forgetResult, forgetLattice, Except.map, c15_F_finalMesh]
    rw [show (forgetSt st3.release).mesh = forgetCoords st3.release.mesh from rfl, ← c15_F_foldDelCell]
    rfl

def c15St0 (m0 : Mesh) : St :=
  { mesh := m0, dead := [], pinned := (m0.edges.getLast?.map (·.1)), zombie := none, idReused := false }

theorem c15_cleanup_eq (m0 : Mesh) :
    cleanup m0 =
      match triangles (c15St0 m0) m0.bigEdgesList with
      | .error e => (.error e, false)
      | .ok st1 =>
        match groupArtifacts ((getArtifacts st1 (externalEdges m0)).length + 1) st1 (getArtifacts st1 (externalEdges m0)) with
        | .error e => (.error e, st1.zombie.isSome)
        | .ok groups =>
          match foldE t3 st1 groups with
          | .error e => (.error e, d16Pred st1 groups)
          | .ok st2 => c15Tail (borderCells m0) (externalEdges m0) m0.bigEdgesList groups st1.dead (d16Pred st1 groups) st2 :=
  rfl

theorem c15_cleanup_coordfree (m0 : Mesh) : forgetResult (cleanup (forgetCoords m0)) = forgetResult (cleanup m0) := by
  rw [c15_cleanup_eq, c15_cleanup_eq]
  simp only [forgetCoords_bigEdgesList, forgetCoords_borderCells, forgetCoords_externalEdges]
  rw [show c15St0 (forgetCoords m0) = forgetSt (c15St0 m0) from rfl, c15_FS_triangles]
  cases triangles (c15St0 m0) m0.bigEdgesList with
  | error e => rfl
  | ok st1 =>
    simp only [Except.map, c15_FS_getArtifacts, c15_FS_group, c15_FS_d16]
    cases hg : groupArtifacts ((getArtifacts st1 (externalEdges m0)).length + 1) st1 (getArtifacts st1 (externalEdges m0)) with
    | error e => rfl
    | ok groups =>
      simp only
      have hrel := c15_foldE_rel forgetSt t3 (fun b a => c15_t3_coordfree b a) groups (forgetSt st1) st1
        (by simp only [forgetSt, c15_F_idem])
      rw [show (forgetSt st1).dead = st1.dead from rfl]
      cases h1 : foldE t3 (forgetSt st1) groups with
      | error e =>
        cases h2 : foldE t3 st1 groups with
        | error e' => rw [h1, h2] at hrel; simp only [Except.map] at hrel; injection hrel with hrel; subst hrel; rfl
        | ok s => rw [h1, h2] at hrel; simp only [Except.map] at hrel; cases hrel
      | ok s' =>
        cases h2 : foldE t3 st1 groups with
        | error e' => rw [h1, h2] at hrel; simp only [Except.map] at hrel; cases hrel
        | ok s =>
          rw [h1, h2] at hrel; simp only [Except.map] at hrel; injection hrel with hrel
          simp only
          rw [← c15_FS_tail, ← c15_FS_tail, hrel]


theorem c15_keysNodup_map {β γ : Type} (g : β → γ) (l : List (Id × β)) :
    keysNodup (l.map fun p => (p.1, g p.2)) = keysNodup l := by
  induction l with
  | nil => rfl
  | cons a l ih =>
    obtain ⟨k, v⟩ := a
    simp only [List.map_cons, keysNodup, ih, List.any_map]
    rfl

theorem c15_forget_consistent (m : Mesh) : (forgetCoords m).Consistent = m.Consistent := by
  have hv : ∀ k, ((forgetCoords m).vertex? k).isSome = (m.vertex? k).isSome := by
    intro k; rw [c15_forget_vertex?, Option.isSome_map]
  have h1 : (forgetCoords m).keysOk = m.keysOk := by
    simp only [keysOk, forgetCoords, List.all_map, c15_keysNodup_map]; rfl
  have h2 : (forgetCoords m).ownEdgesOk = m.ownEdgesOk := by
    simp only [ownEdgesOk, forgetCoords, List.all_map]; rfl
  have h3 : (forgetCoords m).ownCellsOk = m.ownCellsOk := by
    simp only [ownCellsOk, forgetCoords, List.all_map]; rfl
  have h4 : (forgetCoords m).refsOk = m.refsOk := by
    simp only [refsOk, hv]; rfl
  have h5 : (forgetCoords m).cellsNodup = m.cellsNodup := rfl
  have h6 : (forgetCoords m).cyclesJoined = m.cyclesJoined := rfl
  simp only [Consistent, h1, h2, h3, h4, h5, h6]

end Forsys.Skel
