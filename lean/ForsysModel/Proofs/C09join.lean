/- helper lemmas for Props/C09join.lean: closed forms of the passes of join_two_vertices -/
import ForsysModel.Proofs.C09
import ForsysModel.Model.Resample
import Mathlib.Data.List.Perm.Subperm
import Mathlib.Data.List.Nodup
namespace Forsys
namespace Mesh

theorem alGet?_map_snd {β : Type} (k : Id) (l : List (Id × β)) (f : Id → β → β) :
    alGet? k (l.map fun p => (p.1, f p.1 p.2)) = (alGet? k l).map (f k) := by
  induction l with
  | nil => simp [alGet?]
  | cons p r ih =>
    obtain ⟨k', v'⟩ := p
    simp only [List.map_cons, alGet?]
    split
    · subst_vars; simp
    · exact ih

theorem updCell_cells' (m : Mesh) (k : Id) (f : Cell → Cell) :
    (m.updCell k f).cells = m.cells.map fun p => (p.1, if p.1 = k then f p.2 else p.2) := by
  simp only [updCell]
  apply List.map_congr_left
  rintro ⟨k', v⟩ _
  by_cases h : k' = k <;> simp [h]

theorem updEdge_edges' (m : Mesh) (k : Id) (f : SEdge → SEdge) :
    (m.updEdge k f).edges = m.edges.map fun p => (p.1, if p.1 = k then f p.2 else p.2) := by
  simp only [updEdge]
  apply List.map_congr_left
  rintro ⟨k', v⟩ _
  by_cases h : k' = k <;> simp [h]

@[simp] theorem updCell_vertices (m : Mesh) (k : Id) (f : Cell → Cell) : (m.updCell k f).vertices = m.vertices := rfl
@[simp] theorem updCell_edges (m : Mesh) (k : Id) (f : Cell → Cell) : (m.updCell k f).edges = m.edges := rfl
@[simp] theorem updEdge_vertices (m : Mesh) (k : Id) (f : SEdge → SEdge) : (m.updEdge k f).vertices = m.vertices := rfl
@[simp] theorem updEdge_cells (m : Mesh) (k : Id) (f : SEdge → SEdge) : (m.updEdge k f).cells = m.cells := rfl

/-- the effect of `Cell.replace_vertex` on the vertex cycle -/
def rv (vo vn : Id) (L : List Id) : List Id :=
  if L.contains vn then L.erase vo else L.map fun v => if v = vo then vn else v

/-- `Cell.replace_vertex` takes the in-place branch for cell `c` of `M` -/
def br (M : Mesh) (vn : Id) (c : Id) : Bool :=
  match alGet? c M.cells with
  | some cl => !cl.verts.contains vn
  | none => false

theorem cellRV_edges (M : Mesh) (cid vo vn : Id) : (M.cellReplaceVertex cid vo vn).edges = M.edges := by
  unfold cellReplaceVertex
  split
  · rfl
  · split <;> rfl

theorem cellRV_cells (M : Mesh) (cid vo vn : Id) (hnd : (M.cells.map (·.1)).Nodup) :
    (M.cellReplaceVertex cid vo vn).cells =
      M.cells.map fun p => (p.1, if p.1 = cid then { p.2 with verts := rv vo vn p.2.verts } else p.2) := by
  unfold cellReplaceVertex
  split
  · rename_i hnone
    have hk : cid ∉ M.cells.map (·.1) := (alGet?_eq_none_iff _ _).mp hnone
    symm
    conv => rhs; rw [← List.map_id M.cells]
    apply List.map_congr_left
    intro p hp
    have : p.1 ≠ cid := fun h => hk (h ▸ List.mem_map.mpr ⟨p, hp, rfl⟩)
    simp [this]
  · rename_i c hc
    have hpc : ∀ p ∈ M.cells, p.1 = cid → p.2 = c := by
      intro p hp h
      have := alGet?_of_mem hnd (show (p.1, p.2) ∈ M.cells from hp)
      rw [h] at this
      have hc' : alGet? cid M.cells = some c := hc
      rw [hc'] at this
      exact (Option.some.inj this).symm
    split
    · rename_i hcon
      rw [updCell_cells']
      apply List.map_congr_left
      intro p hp
      by_cases h : p.1 = cid
      · have := hpc p hp h
        simp only [h, ↓reduceIte, rv]
        rw [this, if_pos hcon]
      · simp [h]
    · rename_i hcon
      simp only [updVertex_cells]
      rw [updCell_cells']
      apply List.map_congr_left
      intro p hp
      by_cases h : p.1 = cid
      · have := hpc p hp h
        simp only [h, ↓reduceIte, rv]
        rw [this, if_neg hcon]
      · simp [h]

theorem cellRV_vertices (M : Mesh) (cid vo vn : Id) :
    (M.cellReplaceVertex cid vo vn).vertices =
      M.vertices.map fun p => (p.1, if p.1 = vn ∧ br M vn cid = true then addCellTo p.2 cid else p.2) := by
  unfold cellReplaceVertex br
  split
  · rename_i hnone
    have hnone' : alGet? cid M.cells = none := hnone
    rw [hnone']
    simp
  · rename_i c hc
    have hc' : alGet? cid M.cells = some c := hc
    rw [hc']
    split
    · rename_i hcon
      have hmem : vn ∈ c.verts := by simpa using hcon
      simp [hmem]
    · rename_i hcon
      have hmem : vn ∉ c.verts := by simpa using hcon
      rw [updVertex_vertices]
      simp only [updCell_vertices]
      apply List.map_congr_left
      intro p hp
      simp [hmem]

def cellPass (M : Mesh) (cs : List Id) (vo vn : Id) : Mesh :=
  cs.foldl (fun m c => m.cellReplaceVertex c vo vn) M

theorem br_congr (M M' : Mesh) (vn c : Id) (h : alGet? c M'.cells = alGet? c M.cells) : br M' vn c = br M vn c := by
  unfold br; rw [h]

theorem cellPass_spec (vo vn : Id) (cs : List Id) (hcs : cs.Nodup) (M : Mesh)
    (hnd : (M.cells.map (·.1)).Nodup) :
    (cellPass M cs vo vn).cells =
      (M.cells.map fun p => (p.1, if p.1 ∈ cs then { p.2 with verts := rv vo vn p.2.verts } else p.2)) ∧
    (cellPass M cs vo vn).edges = M.edges ∧
    (cellPass M cs vo vn).vertices =
      M.vertices.map fun p => (p.1, if p.1 = vn then (cs.filter (br M vn)).foldl addCellTo p.2 else p.2) := by
  induction cs generalizing M with
  | nil => simp [cellPass]
  | cons c cs ih =>
    simp only [List.nodup_cons] at hcs
    have hc1 := cellRV_cells M c vo vn hnd
    have hnd1 : ((M.cellReplaceVertex c vo vn).cells.map (·.1)).Nodup := by
      rw [hc1]; simpa [List.map_map, Function.comp_def] using hnd
    obtain ⟨i1, i2, i3⟩ := ih hcs.2 (M.cellReplaceVertex c vo vn) hnd1
    have hbr : ∀ c' ∈ cs, br (M.cellReplaceVertex c vo vn) vn c' = br M vn c' := by
      intro c' hc'
      apply br_congr
      rw [hc1]
      have hne : c' ≠ c := fun h => hcs.1 (h ▸ hc')
      have := alGet?_map_snd c' M.cells (fun k v => if k = c then { v with verts := rv vo vn v.verts } else v)
      rw [this]
      simp [hne]
    refine ⟨?_, ?_, ?_⟩
    · show (cellPass (M.cellReplaceVertex c vo vn) cs vo vn).cells = _
      rw [i1, hc1, List.map_map]
      apply List.map_congr_left
      intro p hp
      by_cases h1 : p.1 = c
      · have : p.1 ∉ cs := fun h => hcs.1 (h1 ▸ h)
        simp [h1]
        intro h; exact absurd h (h1 ▸ this)
      · simp [h1]
    · show (cellPass (M.cellReplaceVertex c vo vn) cs vo vn).edges = _
      rw [i2, cellRV_edges]
    · show (cellPass (M.cellReplaceVertex c vo vn) cs vo vn).vertices = _
      rw [i3, cellRV_vertices, List.map_map, List.filter_congr hbr]
      apply List.map_congr_left
      intro p hp
      by_cases h1 : p.1 = vn
      · by_cases h2 : br M vn c = true
        · simp [h1, h2]
        · simp [h1, h2]
      · simp [h1]


/-! ### SmallEdge.replace_vertex -/

/-- the effect of `SmallEdge.replace_vertex` on the edge -/
def sub (vo vn : Id) (e : SEdge) : SEdge := if e.v1 == vo then { e with v1 := vn } else { e with v2 := vn }

theorem edgeRV_cells (M : Mesh) (eid vo vn : Id) : (M.edgeReplaceVertex eid vo vn).cells = M.cells := by
  unfold edgeReplaceVertex
  split <;> rfl

theorem edgeRV_edges (M : Mesh) (eid vo vn : Id) (hnd : (M.edges.map (·.1)).Nodup) :
    (M.edgeReplaceVertex eid vo vn).edges =
      M.edges.map fun p => (p.1, if p.1 = eid then sub vo vn p.2 else p.2) := by
  unfold edgeReplaceVertex
  split
  · rename_i hnone
    have hk : eid ∉ M.edges.map (·.1) := (alGet?_eq_none_iff _ _).mp hnone
    symm
    conv => rhs; rw [← List.map_id M.edges]
    apply List.map_congr_left
    intro p hp
    have : p.1 ≠ eid := fun h => hk (h ▸ List.mem_map.mpr ⟨p, hp, rfl⟩)
    simp [this]
  · rename_i e he
    have hpe : ∀ p ∈ M.edges, p.1 = eid → p.2 = e := by
      intro p hp h
      have := alGet?_of_mem hnd (show (p.1, p.2) ∈ M.edges from hp)
      rw [h] at this
      have he' : alGet? eid M.edges = some e := he
      rw [he'] at this
      exact (Option.some.inj this).symm
    simp only [updVertex_edges]
    rw [updEdge_edges']
    apply List.map_congr_left
    intro p hp
    by_cases h : p.1 = eid
    · have := hpe p hp h
      simp only [h, ↓reduceIte, sub]
      rw [this]
    · simp [h]

theorem edgeRV_vertices (M : Mesh) (eid vo vn : Id) (e : SEdge) (he : alGet? eid M.edges = some e)
    (hends : e.v1 = vo ∨ e.v2 = vo) :
    (M.edgeReplaceVertex eid vo vn).vertices =
      M.vertices.map fun p => (p.1,
        if p.1 = vn then addEdgeTo (if p.1 = vo then eraseE eid p.2 else p.2) eid
        else if p.1 = vo then eraseE eid p.2 else p.2) := by
  unfold edgeReplaceVertex
  have he' : M.edge? eid = some e := he
  rw [he']
  simp only
  rw [updVertex_vertices]
  simp only [updEdge_vertices]
  rw [updVertex_vertices, List.map_map]
  have hold : (if (e.v1 == vo) = true then e.v1 else e.v2) = vo := by
    by_cases hw : e.v1 = vo
    · simp [hw]
    · rcases hends with h | h
      · exact absurd h hw
      · simp [hw, h]
  rw [hold]
  apply List.map_congr_left
  intro p hp
  simp only [Function.comp, eraseE]

def edgePass (M : Mesh) (es : List Id) (vo vn : Id) : Mesh :=
  es.foldl (fun m e => m.edgeReplaceVertex e vo vn) M

theorem sub_id (vo vn : Id) (e : SEdge) : (sub vo vn e).id = e.id := by
  unfold sub; split <;> rfl

theorem edgePass_spec (vo vn : Id) (hne : vo ≠ vn) (es : List Id) (hes : es.Nodup) (M : Mesh)
    (hnd : (M.edges.map (·.1)).Nodup)
    (hends : ∀ e ∈ es, ∃ ed, alGet? e M.edges = some ed ∧ (ed.v1 = vo ∨ ed.v2 = vo)) :
    (edgePass M es vo vn).edges =
      (M.edges.map fun p => (p.1, if p.1 ∈ es then sub vo vn p.2 else p.2)) ∧
    (edgePass M es vo vn).cells = M.cells ∧
    (edgePass M es vo vn).vertices =
      M.vertices.map fun p => (p.1,
        if p.1 = vn then es.foldl addEdgeTo p.2
        else if p.1 = vo then es.foldl (fun v e => eraseE e v) p.2 else p.2) := by
  induction es generalizing M with
  | nil => simp [edgePass]
  | cons c cs ih =>
    simp only [List.nodup_cons] at hes
    have hc1 := edgeRV_edges M c vo vn hnd
    have hnd1 : ((M.edgeReplaceVertex c vo vn).edges.map (·.1)).Nodup := by
      rw [hc1]; simpa [List.map_map, Function.comp_def] using hnd
    obtain ⟨ed, hed, hedends⟩ := hends c (List.mem_cons_self ..)
    have hv1 := edgeRV_vertices M c vo vn ed hed hedends
    have hends1 : ∀ e ∈ cs, ∃ ed, alGet? e (M.edgeReplaceVertex c vo vn).edges = some ed ∧ (ed.v1 = vo ∨ ed.v2 = vo) := by
      intro e he
      obtain ⟨ed', hed', hh⟩ := hends e (List.mem_cons_of_mem _ he)
      refine ⟨ed', ?_, hh⟩
      rw [hc1]
      have hne' : e ≠ c := fun h => hes.1 (h ▸ he)
      have := alGet?_map_snd e M.edges (fun k v => if k = c then sub vo vn v else v)
      rw [this]
      simp [hne', hed']
    obtain ⟨i1, i2, i3⟩ := ih hes.2 (M.edgeReplaceVertex c vo vn) hnd1 hends1
    refine ⟨?_, ?_, ?_⟩
    · show (edgePass (M.edgeReplaceVertex c vo vn) cs vo vn).edges = _
      rw [i1, hc1, List.map_map]
      apply List.map_congr_left
      intro p hp
      by_cases h1 : p.1 = c
      · have : p.1 ∉ cs := fun h => hes.1 (h1 ▸ h)
        simp [h1]
        intro h; exact absurd h (h1 ▸ this)
      · simp [h1]
    · show (edgePass (M.edgeReplaceVertex c vo vn) cs vo vn).cells = _
      rw [i2, edgeRV_cells]
    · show (edgePass (M.edgeReplaceVertex c vo vn) cs vo vn).vertices = _
      rw [i3, hv1, List.map_map]
      apply List.map_congr_left
      intro p hp
      by_cases h1 : p.1 = vn
      · have h2 : p.1 ≠ vo := fun h => hne (h ▸ h1)
        simp [h1]
        have h2' : vn ≠ vo := fun h => hne h.symm
        simp [h2']
      · by_cases h2 : p.1 = vo
        · simp [h2]
          have : vo ≠ vn := hne
          simp [this]
        · simp [h1, h2]



/-- `get_unused_id` returns an id that is not a key of the vertex dictionary -/
theorem unusedId_fresh (m : Mesh) : m.unusedId ∉ m.vertices.map (·.1) := by
  unfold unusedId
  simp only
  generalize hn : m.vertices.length = n
  cases hf : (((n : Int) :: (List.range (n + 1)).map fun (i : Nat) => (n : Int) + (i : Int)).find?
      fun c => (m.vertex? c).isNone) with
  | some c =>
    have := List.find?_some hf
    simp only [Option.getD_some]
    rw [← alGet?_eq_none_iff]
    simpa [vertex?] using this
  | none =>
    exfalso
    rw [List.find?_eq_none] at hf
    have hsub : ((List.range (n + 1)).map fun (i : Nat) => (n : Int) + (i : Int)) ⊆ m.vertices.map (·.1) := by
      intro c hc
      have := hf c (List.mem_cons_of_mem _ hc)
      rw [← alGet?_isSome_iff]
      cases h : alGet? c m.vertices <;> simp_all [vertex?]
    have hnd : ((List.range (n + 1)).map fun (i : Nat) => (n : Int) + (i : Int)).Nodup := by
      apply List.Nodup.map_on _ List.nodup_range
      intro i _ j _ h
      omega
    have := (List.subperm_of_subset hnd hsub).length_le
    simp [hn] at this
    omega

def joinFinal (m : Mesh) (a b new common : Id) (v0 v1 : Vertex) : Mesh :=
  let m1 : Mesh := { m with vertices := m.vertices ++ [(new, { id := new, x := (v0.x + v1.x) / 2, y := (v0.y + v1.y) / 2, ownEdges := [], ownCells := [] })] }
  let m2 := cellPass m1 v0.ownCells a new
  let m3 := cellPass m2 v1.ownCells b new
  let m4 := m3.delEdge common
  let m5 := edgePass m4 (m4.ownEdges a) a new
  let m6 := edgePass m5 (m5.ownEdges b) b new
  { m6 with vertices := m6.vertices.filter fun p => p.1 != a && p.1 != b }

theorem join_eq (m : Mesh) (a b : Id) (mapper : List (Id × Id)) (v0 v1 : Vertex)
    (h0 : m.vertex? a = some v0) (h1 : m.vertex? b = some v1) (common : Id)
    (hc : (listInter v0.ownEdges v1.ownEdges).head? = some common) :
    m.joinTwoVertices (a, b) mapper =
      .ok (joinFinal m a b m.unusedId common v0 v1,
        (mapper.filter fun p => p.1 != a && p.1 != b) ++ [(a, m.unusedId), (b, m.unusedId)]) := by
  simp only [joinTwoVertices, h0, h1, hc, Option.isSome_some, ↓reduceIte]
  rfl



theorem foldl_addCellTo_spec (l : List Id) (v : Vertex) :
    (l.foldl addCellTo v).id = v.id ∧ (l.foldl addCellTo v).ownEdges = v.ownEdges ∧
    (v.ownCells.Nodup → (l.foldl addCellTo v).ownCells.Nodup) ∧
    ∀ c, c ∈ (l.foldl addCellTo v).ownCells ↔ c ∈ v.ownCells ∨ c ∈ l := by
  induction l generalizing v with
  | nil => simp
  | cons x l ih =>
    obtain ⟨i1, i2, i3, i4⟩ := ih (addCellTo v x)
    simp only [List.foldl_cons]
    refine ⟨by rw [i1, addCellTo_id], by rw [i2, addCellTo_ownEdges], ?_, ?_⟩
    · intro hnd
      apply i3
      unfold addCellTo
      split
      · exact hnd
      · rename_i hx
        simp only [List.contains_eq_mem, decide_eq_true_eq] at hx
        simp only
        rw [List.nodup_append]
        refine ⟨hnd, by simp, ?_⟩
        intro y hy z hz
        simp only [List.mem_singleton] at hz
        subst hz
        intro hyz; subst hyz; exact hx hy
    · intro c
      rw [i4]
      unfold addCellTo
      split
      · rename_i hx
        simp only [List.contains_eq_mem, decide_eq_true_eq] at hx
        simp only [List.mem_cons]
        constructor
        · rintro (h | h)
          · exact Or.inl h
          · exact Or.inr (Or.inr h)
        · rintro (h | h | h)
          · exact Or.inl h
          · exact Or.inl (h ▸ hx)
          · exact Or.inr h
      · simp only [List.mem_append, List.mem_cons]
        tauto

theorem foldl_addEdgeTo_spec (l : List Id) (v : Vertex) :
    (l.foldl addEdgeTo v).id = v.id ∧ (l.foldl addEdgeTo v).ownCells = v.ownCells ∧
    (v.ownEdges.Nodup → (l.foldl addEdgeTo v).ownEdges.Nodup) ∧
    ∀ c, c ∈ (l.foldl addEdgeTo v).ownEdges ↔ c ∈ v.ownEdges ∨ c ∈ l := by
  induction l generalizing v with
  | nil => simp
  | cons x l ih =>
    obtain ⟨i1, i2, i3, i4⟩ := ih (addEdgeTo v x)
    simp only [List.foldl_cons]
    refine ⟨by rw [i1, addEdgeTo_id], by rw [i2, addEdgeTo_ownCells], ?_, ?_⟩
    · intro hnd
      apply i3
      unfold addEdgeTo
      split
      · exact hnd
      · rename_i hx
        simp only [List.contains_eq_mem, decide_eq_true_eq] at hx
        simp only
        rw [List.nodup_append]
        refine ⟨hnd, by simp, ?_⟩
        intro y hy z hz
        simp only [List.mem_singleton] at hz
        subst hz
        intro hyz; subst hyz; exact hx hy
    · intro c
      rw [i4]
      unfold addEdgeTo
      split
      · rename_i hx
        simp only [List.contains_eq_mem, decide_eq_true_eq] at hx
        simp only [List.mem_cons]
        constructor
        · rintro (h | h)
          · exact Or.inl h
          · exact Or.inr (Or.inr h)
        · rintro (h | h | h)
          · exact Or.inl h
          · exact Or.inl (h ▸ hx)
          · exact Or.inr h
      · simp only [List.mem_append, List.mem_cons]
        tauto

/-- the vertex renaming of `join_two_vertices` -/
def tau (a b new : Id) (v : Id) : Id := if v = a ∨ v = b then new else v

def tauE (a b new : Id) (e : SEdge) : SEdge := { e with v1 := tau a b new e.v1, v2 := tau a b new e.v2 }

/-- the cycle of a cell after `join_two_vertices` -/
def nvs (a b new : Id) (L : List Id) : List Id :=
  if a ∈ L then
    (if b ∈ L then (L.map fun v => if v = a then new else v).erase b
     else L.map fun v => if v = a then new else v)
  else if b ∈ L then L.map fun v => if v = b then new else v
  else L

theorem sub_sub (a b new : Id) (hab : a ≠ b) (hna : new ≠ a) (hnb : new ≠ b) (e : SEdge)
    (hla : ¬(e.v1 = a ∧ e.v2 = a)) (hlb : ¬(e.v1 = b ∧ e.v2 = b)) (hn1 : e.v1 ≠ new) (hn2 : e.v2 ≠ new) :
    (if e.v1 = b ∨ e.v2 = b then sub b new (if e.v1 = a ∨ e.v2 = a then sub a new e else e)
      else (if e.v1 = a ∨ e.v2 = a then sub a new e else e)) = tauE a b new e := by
  obtain ⟨i, x, y, s⟩ := e
  simp only at hla hlb hn1 hn2
  simp only [sub, tauE, tau, beq_iff_eq]
  by_cases h1 : x = a <;> by_cases h2 : y = a <;> by_cases h3 : x = b <;> by_cases h4 : y = b <;>
    simp_all

theorem mem_map_sigma (a new : Id) (L : List Id) (hn : new ∉ L) :
    new ∈ (L.map fun v => if v = a then new else v) ↔ a ∈ L := by
  simp only [List.mem_map]
  constructor
  · rintro ⟨v, hv, h⟩
    by_cases hva : v = a
    · exact hva ▸ hv
    · simp [hva] at h; exact absurd (h ▸ hv) hn
  · intro h; exact ⟨a, h, by simp⟩

theorem rv_rv (a b new : Id) (L : List Id) (hn : new ∉ L) :
    (if b ∈ L then rv b new (if a ∈ L then rv a new L else L) else (if a ∈ L then rv a new L else L))
      = nvs a b new L := by
  have hc : L.contains new = false := by simpa using hn
  unfold nvs
  by_cases ha : a ∈ L
  · have h1 : rv a new L = L.map fun v => if v = a then new else v := by
      unfold rv; rw [hc]; simp
    have h2 : new ∈ (L.map fun v => if v = a then new else v) := (mem_map_sigma a new L hn).mpr ha
    by_cases hb : b ∈ L
    · simp only [ha, hb, ↓reduceIte, h1]
      unfold rv
      simp [h2]
    · simp only [ha, hb, ↓reduceIte, h1]
  · by_cases hb : b ∈ L
    · simp only [ha, hb, ↓reduceIte]
      unfold rv; rw [hc]; simp
    · simp only [ha, hb, ↓reduceIte]

end Mesh
end Forsys
