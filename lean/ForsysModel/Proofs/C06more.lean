/-
  Helper lemmas of Props/C06more.lean: composition / identity of `Vertex.mapP`, `Mesh.mapP`; sum of a scaled list.
-/
import ForsysModel.Props.C06system
import Mathlib.Tactic.Ring
import Mathlib.Tactic.LinearCombination
namespace Forsys
open FMInput C06 C06s

namespace C06m
theorem sum_map_mul_left' (k : Rat) (l : List Rat) : (l.map (k * ·)).sum = k * l.sum := by
  induction l with
  | nil => simp
  | cons x xs ih => simp only [List.map_cons, List.sum_cons, ih]; ring
theorem vertex_mapP_comp (S T : Pt → Pt) (v : Vertex) : (v.mapP T).mapP S = v.mapP (S ∘ T) := by
  cases v; simp [Vertex.mapP]
theorem vertex_mapP_id (v : Vertex) : v.mapP id = v := by
  cases v; simp [Vertex.mapP]
theorem mesh_mapP_comp (S T : Pt → Pt) (m : Mesh) : (m.mapP T).mapP S = m.mapP (S ∘ T) := by
  simp only [Mesh.mapP, List.map_map]
  congr 1
theorem mesh_mapP_id (m : Mesh) : m.mapP id = m := by
  cases m
  simp [Mesh.mapP, vertex_mapP_id]
end C06m

end Forsys
