/- helper lemmas for Props/C04.lean -/
import ForsysModel.Model.Pressure
import ForsysModel.Proofs.LinAlg
import ForsysModel.Proofs.C05
import Mathlib.Logic.Relation
import Mathlib.Data.List.Perm.Basic
namespace Forsys

/-! ### rows of the pressure matrix -/

theorem eq_map_range_getD (p : List Rat) (n : Nat) (hp : p.length = n) :
    p = (List.range n).map (fun i => p.getD i 0) := by
  apply List.ext_getElem
  · simp [hp]
  · intro i h1 h2
    simp [List.getD_eq_getElem?_getD, List.getElem?_eq_getElem h1]

theorem dot_map_range (f : Nat → Rat) (p : List Rat) (n : Nat) (hp : p.length = n) :
    dot ((List.range n).map f) p = ((List.range n).map (fun i => f i * p.getD i 0)).sum := by
  conv_lhs => rw [eq_map_range_getD p n hp]
  simp [dot, List.zipWith_map]

theorem sum_map_range_ite (h : Nat → Rat) (a n : Nat) :
    ((List.range n).map (fun i => if i = a then h i else 0)).sum = if a < n then h a else 0 := by
  induction n with
  | zero => simp
  | succ n ih =>
    rw [List.range_succ, List.map_append, List.sum_append, ih]
    by_cases h1 : a < n
    · have : n ≠ a := by omega
      simp [h1, this, Nat.lt_succ_of_lt h1]
    · by_cases h2 : n = a
      · subst h2; simp
      · have : ¬ a < n + 1 := by omega
        simp [h1, h2, this]

theorem pressureRow_dot' (n a b : Nat) (s : Int) (p : List Rat) (hp : p.length = n) (ha : a < n) (hb : b < n) (hab : a ≠ b) :
    dot (pressureRow n a b s) p = (if 0 < s then 1 else -1) * (p.getD a 0 - p.getD b 0) := by
  unfold pressureRow
  rw [dot_map_range _ p n hp]
  have key : ∀ c : Rat, ((List.range n).map (fun i => (if i = a then c else if i = b then -c else 0) * p.getD i 0)).sum
      = c * (p.getD a 0 - p.getD b 0) := by
    intro c
    have : (fun i => (if i = a then c else if i = b then -c else 0) * p.getD i 0)
        = fun i => (if i = a then c * p.getD i 0 else 0) + (if i = b then -c * p.getD i 0 else 0) := by
      funext i
      by_cases h1 : i = a
      · have : i ≠ b := by omega
        simp [h1, hab]
      · by_cases h2 : i = b
        · subst h2; simp [h1]
        · simp [h1, h2]
    rw [this, List.sum_map_add, sum_map_range_ite (fun i => c * p.getD i 0),
      sum_map_range_ite (fun i => -c * p.getD i 0)]
    simp [ha, hb]; ring
  by_cases h : 0 < s
  · simp only [h, if_true]; exact key 1
  · simp only [h, if_false]
    have := key (-1)
    simpa using this


/-! ### `np.gradient` -/

/-- the `np.gradient` stencil at index `i` -/
def gradStencil (l : List Rat) (i : Nat) : Rat :=
  if i = 0 then l.getD 1 0 - l.getD 0 0
  else if i = l.length - 1 then l.getD (l.length - 1) 0 - l.getD (l.length - 2) 0
  else (l.getD (i + 1) 0 - l.getD (i - 1) 0) / 2

theorem gradient_eq_map (l : List Rat) (h : 2 ≤ l.length) :
    gradient l = (List.range l.length).map (gradStencil l) := by
  match l, h with
  | a :: b :: rest, _ => rfl

theorem gradient_short (l : List Rat) (h : l.length < 2) : gradient l = [] := by
  match l, h with
  | [], _ => rfl
  | [_], _ => rfl

theorem gradient_length_ite (l : List Rat) : (gradient l).length = if 2 ≤ l.length then l.length else 0 := by
  by_cases h : 2 ≤ l.length
  · simp [gradient_eq_map l h, h]
  · simp [gradient_short l (by omega), h]

theorem gradient_length_congr (a b : List Rat) (h : a.length = b.length) :
    (gradient a).length = (gradient b).length := by
  simp [gradient_length_ite, h]

theorem gradient_gradient_length (l : List Rat) : (gradient (gradient l)).length = (gradient l).length := by
  rw [gradient_length_ite (gradient l), gradient_length_ite l]
  split_ifs <;> omega

theorem getD_map_mul (s : Rat) (l : List Rat) (i : Nat) : (l.map (s * ·)).getD i 0 = s * l.getD i 0 := by
  simp [List.getD_eq_getElem?_getD]
  cases l[i]? <;> simp

theorem getD_map_add (d : Rat) (l : List Rat) (i : Nat) (hi : i < l.length) :
    (l.map (· + d)).getD i 0 = l.getD i 0 + d := by
  simp [List.getD_eq_getElem?_getD, List.getElem?_eq_getElem hi]

theorem getD_reverse (l : List Rat) (i : Nat) (hi : i < l.length) :
    l.reverse.getD i 0 = l.getD (l.length - 1 - i) 0 := by
  simp [List.getD_eq_getElem?_getD, List.getElem?_reverse hi]

theorem gradient_scale' (s : Rat) (l : List Rat) : gradient (l.map (s * ·)) = (gradient l).map (s * ·) := by
  by_cases h : 2 ≤ l.length
  · rw [gradient_eq_map _ (by simpa using h), gradient_eq_map l h, List.map_map, List.length_map]
    apply List.map_congr_left
    intro i _
    simp only [gradStencil, Function.comp, getD_map_mul, List.length_map]
    split_ifs <;> ring
  · simp [gradient_short l (by omega), gradient_short (l.map (s * ·)) (by simp; omega)]

theorem gradient_neg (l : List Rat) : gradient (l.map (- ·)) = (gradient l).map (- ·) := by
  have : (fun x : Rat => -x) = (fun x => -1 * x) := by funext x; ring
  rw [this, gradient_scale']

theorem gradient_shift' (d : Rat) (l : List Rat) : gradient (l.map (· + d)) = gradient l := by
  by_cases h : 2 ≤ l.length
  · rw [gradient_eq_map _ (by simpa using h), gradient_eq_map l h, List.length_map]
    apply List.map_congr_left
    intro i hi
    have hi : i < l.length := by simpa using hi
    simp only [gradStencil, List.length_map]
    split_ifs with h1 h2
    · rw [getD_map_add _ _ _ (by omega), getD_map_add _ _ _ (by omega)]; ring
    · rw [getD_map_add _ _ _ (by omega), getD_map_add _ _ _ (by omega)]; ring
    · rw [getD_map_add _ _ _ (by omega), getD_map_add _ _ _ (by omega)]; ring
  · simp [gradient_short l (by omega), gradient_short (l.map (· + d)) (by simp; omega)]

theorem gradStencil_reverse (l : List Rat) (i : Nat) (h : 2 ≤ l.length) (hi : i < l.length) :
    gradStencil l.reverse i = - gradStencil l (l.length - 1 - i) := by
  have key : ∀ k, k < l.length → l.reverse.getD k 0 = l.getD (l.length - 1 - k) 0 :=
    fun k hk => getD_reverse l k hk
  unfold gradStencil
  simp only [List.length_reverse]
  by_cases c1 : i = 0
  · have e1 : l.length - 1 - i ≠ 0 := by omega
    have e2 : l.length - 1 - i = l.length - 1 := by omega
    rw [if_pos c1, if_neg e1, if_pos e2, key 1 (by omega), key 0 (by omega)]
    have e3 : l.length - 1 - 1 = l.length - 2 := by omega
    have e4 : l.length - 1 - 0 = l.length - 1 := by omega
    rw [e3, e4]; ring
  · by_cases c2 : i = l.length - 1
    · have e1 : l.length - 1 - i = 0 := by omega
      rw [if_neg c1, if_pos c2, if_pos e1, key _ (by omega), key _ (by omega)]
      have e2 : l.length - 1 - (l.length - 1) = 0 := by omega
      have e3 : l.length - 1 - (l.length - 2) = 1 := by omega
      rw [e2, e3]; ring
    · have e1 : l.length - 1 - i ≠ 0 := by omega
      have e2 : l.length - 1 - i ≠ l.length - 1 := by omega
      rw [if_neg c1, if_neg c2, if_neg e1, if_neg e2, key _ (by omega), key _ (by omega)]
      have e3 : l.length - 1 - (i + 1) = l.length - 1 - i - 1 := by omega
      have e4 : l.length - 1 - (i - 1) = l.length - 1 - i + 1 := by omega
      rw [e3, e4]; ring

theorem gradient_reverse' (l : List Rat) : gradient l.reverse = ((gradient l).map (- ·)).reverse := by
  by_cases h : 2 ≤ l.length
  · rw [gradient_eq_map _ (by simpa using h), gradient_eq_map l h]
    apply List.ext_getElem
    · simp
    · intro i h1 h2
      have hi : i < l.length := by simpa using h1
      simp only [List.getElem_map, List.getElem_range, List.getElem_reverse, List.length_map,
        List.length_range, List.length_reverse]
      exact gradStencil_reverse l i h hi
  · simp [gradient_short l (by omega), gradient_short l.reverse (by simp; omega)]

theorem segSqs_append_two (l : List Pt) (p q : Pt) :
    segSqs (l ++ [p, q]) = segSqs (l ++ [p]) ++ [distSq q p] := by
  induction l with
  | nil => simp [segSqs]
  | cons a l ih =>
    cases l with
    | nil => simp [segSqs]
    | cons b l =>
      simp only [List.cons_append, segSqs] at ih ⊢
      rw [ih]

theorem distSq_comm' (p q : Pt) : distSq p q = distSq q p := by
  simp only [distSq]; ring

theorem segSqs_reverse (pts : List Pt) : segSqs pts.reverse = (segSqs pts).reverse := by
  induction pts with
  | nil => simp [segSqs]
  | cons a l ih =>
    cases l with
    | nil => simp [segSqs]
    | cons b l =>
      have : (a :: b :: l).reverse = l.reverse ++ [b, a] := by simp
      rw [this, segSqs_append_two]
      have e : l.reverse ++ [b] = (b :: l).reverse := by simp
      rw [e, ih, segSqs, List.reverse_cons, distSq_comm' a b]

theorem zipWith_num_neg (A B C D : List Rat) :
    List.zipWith (· - ·) (List.zipWith (· * ·) A (B.map (- ·))) (List.zipWith (· * ·) (C.map (- ·)) D)
      = (List.zipWith (· - ·) (List.zipWith (· * ·) A B) (List.zipWith (· * ·) C D)).map (- ·) := by
  induction A generalizing B C D with
  | nil => simp
  | cons a A ih =>
    cases B with
    | nil => simp
    | cons b B =>
      cases C with
      | nil => simp
      | cons c C =>
        cases D with
        | nil => simp
        | cons d D =>
          simp only [List.map_cons, List.zipWith_cons_cons, ih, List.cons.injEq, and_true]
          ring

theorem zipWith_mul_neg_neg (A B : List Rat) :
    List.zipWith (· * ·) (A.map (- ·)) (B.map (- ·)) = List.zipWith (· * ·) A B := by
  simp [List.zipWith_map]

theorem curvParts_reverse' (pts : List Pt) :
    (curvParts pts.reverse).num = ((curvParts pts).num.map (- ·)).reverse ∧
    (curvParts pts.reverse).speedSq = (curvParts pts).speedSq.reverse ∧
    (curvParts pts.reverse).segSq = (curvParts pts).segSq.reverse := by
  simp only [curvParts, List.map_reverse, gradient_reverse', gradient_neg, List.map_map]
  have hn : ((fun x : Rat => -x) ∘ fun x => -x) = id := by funext x; simp
  simp only [hn, List.map_id]
  generalize hdx : gradient (pts.map (·.x)) = dx
  generalize hdy : gradient (pts.map (·.y)) = dy
  have h1 : dx.length = dy.length := by
    rw [← hdx, ← hdy]; exact gradient_length_congr _ _ (by simp)
  have h2 : (gradient dx).length = dx.length := by rw [← hdx]; exact gradient_gradient_length _
  have h3 : (gradient dy).length = dy.length := by rw [← hdy]; exact gradient_gradient_length _
  refine ⟨?_, ?_, segSqs_reverse pts⟩
  · rw [← List.reverse_zipWith (by simp; omega), ← List.reverse_zipWith (by simp; omega),
      ← List.reverse_zipWith (by simp; omega), zipWith_num_neg]
  · rw [← List.reverse_zipWith (by simp), ← List.reverse_zipWith (by simp),
      ← List.reverse_zipWith (by simp; omega), zipWith_mul_neg_neg, zipWith_mul_neg_neg]

theorem segSqs_map_scale (s : Rat) (pts : List Pt) :
    segSqs (pts.map fun p => (⟨s * p.x, s * p.y⟩ : Pt)) = (segSqs pts).map (s * s * ·) := by
  induction pts with
  | nil => simp [segSqs]
  | cons a l ih =>
    cases l with
    | nil => simp [segSqs]
    | cons b l =>
      simp only [List.map_cons, segSqs] at ih ⊢
      rw [ih]
      simp only [distSq, List.cons.injEq, and_true]; ring

theorem segSqs_map_shift (d : Pt) (pts : List Pt) :
    segSqs (pts.map fun p => (⟨p.x + d.x, p.y + d.y⟩ : Pt)) = segSqs pts := by
  induction pts with
  | nil => simp [segSqs]
  | cons a l ih =>
    cases l with
    | nil => simp [segSqs]
    | cons b l =>
      simp only [List.map_cons, segSqs] at ih ⊢
      rw [ih]
      simp only [distSq, List.cons.injEq, and_true]; ring

theorem zipWith_mul_scale (s : Rat) (A B : List Rat) :
    List.zipWith (· * ·) (A.map (s * ·)) (B.map (s * ·)) = (List.zipWith (· * ·) A B).map (s * s * ·) := by
  simp only [List.zipWith_map, List.map_zipWith]
  congr 1; funext a b; ring

theorem zipWith_sub_scale (k : Rat) (A B : List Rat) :
    List.zipWith (· - ·) (A.map (k * ·)) (B.map (k * ·)) = (List.zipWith (· - ·) A B).map (k * ·) := by
  simp only [List.zipWith_map, List.map_zipWith]
  congr 1; funext a b; ring

theorem zipWith_add_scale (k : Rat) (A B : List Rat) :
    List.zipWith (· + ·) (A.map (k * ·)) (B.map (k * ·)) = (List.zipWith (· + ·) A B).map (k * ·) := by
  simp only [List.zipWith_map, List.map_zipWith]
  congr 1; funext a b; ring

theorem zipWith_num_collinear (a b : Rat) (A B : List Rat) :
    ∀ v ∈ List.zipWith (· - ·) (List.zipWith (· * ·) (A.map (a * ·)) (B.map (b * ·)))
      (List.zipWith (· * ·) (B.map (a * ·)) (A.map (b * ·))), v = 0 := by
  induction A generalizing B with
  | nil => simp
  | cons x A ih =>
    cases B with
    | nil => simp
    | cons y B =>
      intro v hv
      simp only [List.map_cons, List.zipWith_cons_cons, List.mem_cons] at hv
      rcases hv with hv | hv
      · rw [hv]; ring
      · exact ih B v hv

/-! ### bordered normal equations -/

theorem dot_replicate_right (x : List Rat) (n : Nat) (c : Rat) (h : x.length ≤ n) :
    dot x (List.replicate n c) = c * x.sum := by
  have : List.replicate n c = vscale c (List.replicate n 1) := by simp [vscale]
  rw [this, dot_smul_right, dot_comm, dot_replicate_one_left x n h]

theorem sum_vsub (a b : List Rat) (h : a.length = b.length) : (vsub a b).sum = a.sum - b.sum := by
  induction a generalizing b with
  | nil => cases b with
    | nil => simp [vsub]
    | cons y b => simp at h
  | cons x a ih => cases b with
    | nil => simp at h
    | cons y b =>
      have := ih b (by simpa using h)
      simp only [vsub] at this
      simp only [vsub, List.zipWith_cons_cons, List.sum_cons, this]; ring

theorem dot_ge_of_near_const (d g : List Rat) (c eps : Rat) (hlen : d.length = g.length)
    (h : ∀ v ∈ g, ratAbs' (v - c) ≤ eps) :
    c * d.sum - eps * (d.map ratAbs').sum ≤ dot d g := by
  induction d generalizing g with
  | nil => simp
  | cons x d ih => cases g with
    | nil => simp at hlen
    | cons y g =>
      have := ih g (by simpa using hlen) (fun v hv => h v (by simp [hv]))
      have hy := (ratAbs'_le_iff _ _).mp (h y (by simp))
      simp only [List.map_cons, List.sum_cons, dot_cons]
      have hx : c * x - eps * ratAbs' x ≤ x * y := by
        unfold ratAbs'
        split
        · next hneg => nlinarith [hy.1, hy.2]
        · next hpos => nlinarith [hy.1, hy.2, not_lt.mp hpos]
      linarith

theorem const_grad_slack' (L : Mat) (r p q : List Rat) (c eps : Rat) (m n : Nat) (hs : Shaped L r m n)
    (hp : p.length = n) (hq : q.length = n) (hp0 : p.sum = 0) (hq0 : q.sum = 0)
    (h : ∀ v ∈ grad L r p, ratAbs' (v - c) ≤ eps) :
    residSq L r p ≤ residSq L r q + 2 * eps * ((vsub q p).map ratAbs').sum := by
  obtain ⟨hL, hr, hrows⟩ := hs
  have hd := residSq_diff_core L r p q n (hr.trans hL.symm) hrows hp hq
  have hqp : q.length = p.length := hq.trans hp.symm
  rw [← dot_sub_left q p _ hqp] at hd
  have hb := dot_ge_of_near_const (vsub q p) (grad L r p) c eps (by simp [hp, hq]) h
  rw [sum_vsub q p hqp, hp0, hq0] at hb
  have hN := normSq_nonneg (mulVec L (vsub q p))
  linarith

theorem const_grad_sound' (L : Mat) (r p q : List Rat) (c : Rat) (m n : Nat) (hs : Shaped L r m n)
    (hp : p.length = n) (hq : q.length = n) (hp0 : p.sum = 0) (hq0 : q.sum = 0)
    (h : grad L r p = List.replicate n c) : residSq L r p ≤ residSq L r q := by
  have := const_grad_slack' L r p q c 0 m n hs hp hq hp0 hq0 (by
    intro v hv
    rw [h] at hv
    rw [(List.mem_replicate.mp hv).2]
    simp [ratAbs'])
  simpa using this


theorem gram_rows (L : Mat) (n : Nat) : ∀ row ∈ gram L n, row.length = n := by
  intro row h
  simp only [gram, List.mem_map] at h
  obtain ⟨i, _, rfl⟩ := h
  simp

theorem addLagrange_gram_eq (L : Mat) (n : Nat) (g : List Rat) (c : Rat) (hn : 0 < n) :
    addLagrange (gram L n) g c
      = ((gram L n).map (fun r => r ++ [1]) ++ [List.replicate n (1 : Rat) ++ [0]], g ++ [c]) := by
  obtain ⟨k, rfl⟩ : ∃ k, n = k + 1 := ⟨n - 1, by omega⟩
  simp [addLagrange, gram, List.range_succ_eq_map]

theorem addLagrange_mulVec (L : Mat) (n : Nat) (g p : List Rat) (mu : Rat) (hn : 0 < n) (hp : p.length = n) :
    mulVec (addLagrange (gram L n) g 0).1 (p ++ [mu]) = (mulVec (gram L n) p).map (· + mu) ++ [p.sum] := by
  rw [addLagrange_gram_eq L n g 0 hn]
  simp only [mulVec_append, mulVec_map_append_one (gram L n) p mu n (gram_rows L n) hp]
  congr 1
  simp [dot_append (List.replicate n (1 : Rat)) [0] p [mu] (by simp [hp]),
    dot_replicate_one_left p n (by omega)]

theorem tMulVec_col (L : Mat) (n i : Nat) :
    tMulVec L n (col L i) = (List.range n).map fun j => dot (col L i) (col L j) := by
  simp only [tMulVec]
  apply List.map_congr_left
  intro j _
  exact dot_comm _ _

theorem mulVec_gram (L : Mat) (n : Nat) (p : List Rat) (hrows : ∀ row ∈ L, row.length = n) :
    mulVec (gram L n) p = tMulVec L n (mulVec L p) := by
  simp only [mulVec, gram, tMulVec, List.map_map]
  apply List.map_congr_left
  intro i _
  simp only [Function.comp]
  have := dot_mulVec_eq_dot_tMulVec' L n p (col L i) hrows
  rw [tMulVec_col] at this
  rw [dot_comm _ p, ← this, dot_comm]
  rfl

theorem tMulVec_vsub (L : Mat) (n : Nat) (a b : List Rat) (h : a.length = b.length) :
    tMulVec L n (vsub a b) = vsub (tMulVec L n a) (tMulVec L n b) := by
  apply List.ext_getElem
  · simp
  · intro i h1 h2
    have := dot_sub_right (col L i) a b h
    simp only [vsub] at this
    simp [tMulVec, vsub, this]

theorem tMulVec_vscale (L : Mat) (n : Nat) (c : Rat) (a : List Rat) :
    tMulVec L n (vscale c a) = vscale c (tMulVec L n a) := by
  simp only [tMulVec, vscale, List.map_map]
  apply List.map_congr_left
  intro i _
  simp only [Function.comp]
  exact dot_smul_right c _ a

theorem vsub_map_add (X : List Rat) (mu : Rat) :
    vsub X (X.map (· + mu)) = List.replicate X.length (-mu) := by
  induction X with
  | nil => simp [vsub]
  | cons x X ih =>
    simp only [vsub] at ih
    simp [vsub, ih, List.replicate_succ]

theorem normal_eq_extract (L : Mat) (r p : List Rat) (mu : Rat) (n : Nat) (hn : 0 < n)
    (hp : p.length = n)
    (h : mulVec (addLagrange (gram L n) (tRhs L n r) 0).1 (p ++ [mu]) = (addLagrange (gram L n) (tRhs L n r) 0).2) :
    (mulVec (gram L n) p).map (· + mu) = tMulVec L n r ∧ p.sum = 0 := by
  rw [addLagrange_mulVec L n _ p mu hn hp, addLagrange_gram_eq L n _ 0 hn] at h
  simp only [tRhs] at h
  have := List.append_inj h (by simp [gram])
  exact ⟨this.1, by simpa using this.2⟩

theorem normal_eq_sound' (L : Mat) (r p q : List Rat) (mu : Rat) (m n : Nat) (hn : 0 < n) (hs : Shaped L r m n)
    (hp : p.length = n) (hq : q.length = n) (hq0 : q.sum = 0)
    (h : mulVec (addLagrange (gram L n) (tRhs L n r) 0).1 (p ++ [mu]) = (addLagrange (gram L n) (tRhs L n r) 0).2) :
    p.sum = 0 ∧ residSq L r p ≤ residSq L r q := by
  obtain ⟨h1, h2⟩ := normal_eq_extract L r p mu n hn hp h
  refine ⟨h2, ?_⟩
  have hg : grad L r p = List.replicate n (-mu) := by
    unfold grad
    rw [hp, tMulVec_vsub L n _ _ (by simp [hs.1, hs.2.1]), ← mulVec_gram L n p hs.2.2, ← h1, vsub_map_add]
    simp [gram]
  exact const_grad_sound' L r p q (-mu) m n hs hp hq h2 hq0 hg

theorem normal_eq_scale' (L : Mat) (r p : List Rat) (mu c : Rat) (n : Nat) (hn : 0 < n)
    (hp : p.length = n)
    (h : mulVec (addLagrange (gram L n) (tRhs L n r) 0).1 (p ++ [mu]) = (addLagrange (gram L n) (tRhs L n r) 0).2) :
    mulVec (addLagrange (gram L n) (tRhs L n (vscale c r)) 0).1 (vscale c p ++ [c * mu])
      = (addLagrange (gram L n) (tRhs L n (vscale c r)) 0).2 := by
  obtain ⟨h1, h2⟩ := normal_eq_extract L r p mu n hn hp h
  rw [addLagrange_mulVec L n _ _ _ hn (by simpa using hp), addLagrange_gram_eq L n _ 0 hn]
  simp only [tRhs, tMulVec_vscale, ← h1, mulVec_vscale]
  congr 1
  · simp only [vscale, List.map_map]
    apply List.map_congr_left
    intro x _
    simp only [Function.comp]; ring
  · have : (vscale c p).sum = c * p.sum := by
      rw [← dot_replicate_one_left _ n (by simp [hp]), dot_smul_right, dot_replicate_one_left _ n (by omega)]
    rw [this, h2]; simp

/-! ### connected interface graph -/

theorem sum_of_const (p : List Rat) (c : Rat) (h : ∀ v ∈ p, v = c) : p.sum = p.length * c := by
  induction p with
  | nil => simp
  | cons x p ih =>
    have hx : x = c := h x (by simp)
    have := ih (fun v hv => h v (by simp [hv]))
    simp only [List.sum_cons, List.length_cons, this, hx]; push_cast; ring

theorem connected_kernel' (n : Nat) (rows : List (Nat × Nat × Int)) (p : List Rat) (hp : p.length = n)
    (hrows : ∀ r ∈ rows, r.1 < n ∧ r.2.1 < n ∧ r.1 ≠ r.2.1)
    (hconn : ∀ i j, i < n → j < n → Relation.ReflTransGen (fun x y => ∃ r ∈ rows, (r.1 = x ∧ r.2.1 = y) ∨ (r.1 = y ∧ r.2.1 = x)) i j)
    (hker : ∀ r ∈ rows, dot (pressureRow n r.1 r.2.1 r.2.2) p = 0) (hsum : p.sum = 0) :
    ∀ v ∈ p, v = 0 := by
  have hrow : ∀ r ∈ rows, p.getD r.1 0 = p.getD r.2.1 0 := by
    intro r hr
    obtain ⟨ha, hb, hab⟩ := hrows r hr
    have := hker r hr
    rw [pressureRow_dot' n r.1 r.2.1 r.2.2 p hp ha hb hab] at this
    rcases mul_eq_zero.mp this with h | h
    · split_ifs at h <;> simp at h
    · linarith
  have hstep : ∀ x y, (∃ r ∈ rows, (r.1 = x ∧ r.2.1 = y) ∨ (r.1 = y ∧ r.2.1 = x)) → p.getD x 0 = p.getD y 0 := by
    rintro x y ⟨r, hr, (⟨rfl, rfl⟩ | ⟨rfl, rfl⟩)⟩
    · exact hrow r hr
    · exact (hrow r hr).symm
  have hrt : ∀ i j, Relation.ReflTransGen (fun x y => ∃ r ∈ rows, (r.1 = x ∧ r.2.1 = y) ∨ (r.1 = y ∧ r.2.1 = x)) i j →
      p.getD i 0 = p.getD j 0 := by
    intro i j h
    induction h with
    | refl => rfl
    | tail _ hbc ih => exact ih.trans (hstep _ _ hbc)
  have hall : ∀ i j, i < n → j < n → p.getD i 0 = p.getD j 0 :=
    fun i j hi hj => hrt i j (hconn i j hi hj)
  intro v hv
  have hn : 0 < n := by rw [← hp]; exact List.length_pos_of_mem hv
  have hc : ∀ w ∈ p, w = p.getD 0 0 := by
    intro w hw
    obtain ⟨i, hi, rfl⟩ := List.getElem_of_mem hw
    have := hall i 0 (by omega) hn
    simpa [List.getD_eq_getElem?_getD, List.getElem?_eq_getElem hi] using this
  have hs := sum_of_const p _ hc
  rw [hsum, hp] at hs
  have hn' : (n : Rat) ≠ 0 := by exact_mod_cast (by omega : n ≠ 0)
  have h0 : p.getD 0 0 = 0 := by
    rcases mul_eq_zero.mp hs.symm with h | h
    · exact absurd h hn'
    · exact h
  rw [hc v hv, h0]

/-! ### re-insertion of zeros -/

/-- number of kept (non-removed) indices below `k` -/
def nrKept (removed : List Nat) (k : Nat) : Nat := (List.range k).countP fun i => !removed.contains i

theorem nrKept_zero (removed : List Nat) : nrKept removed 0 = 0 := by simp [nrKept]

theorem nrKept_succ (removed : List Nat) (k : Nat) :
    nrKept removed (k + 1) = nrKept removed k + if removed.contains k then 0 else 1 := by
  simp only [nrKept, List.range_succ, List.countP_append, List.countP_singleton]
  cases removed.contains k <;> simp

theorem nrKept_mono (removed : List Nat) {k k' : Nat} (h : k ≤ k') : nrKept removed k ≤ nrKept removed k' := by
  induction h with
  | refl => exact Nat.le_refl _
  | step _ ih => rw [nrKept_succ]; omega

theorem countP_removed (n : Nat) (removed : List Nat) (hr : ∀ i ∈ removed, i < n) (hnd : removed.Nodup) :
    (List.range n).countP (fun i => removed.contains i) = removed.length := by
  rw [List.countP_eq_length_filter]
  apply List.Perm.length_eq
  rw [List.perm_ext_iff_of_nodup (List.nodup_range.filter _) hnd]
  intro a
  simp only [List.mem_filter, List.mem_range, List.contains_iff_mem]
  exact ⟨fun h => h.2, fun h => ⟨hr a h, h⟩⟩

theorem nrKept_full (n : Nat) (removed : List Nat) (sol : List Rat) (hr : ∀ i ∈ removed, i < n) (hnd : removed.Nodup)
    (hlen : sol.length + removed.length = n) : nrKept removed n = sol.length := by
  have h1 := List.length_eq_countP_add_countP (fun i => removed.contains i) (l := List.range n)
  rw [countP_removed n removed hr hnd, List.length_range] at h1
  have h2 : nrKept removed n = (List.range n).countP (fun a => decide ¬(removed.contains a) = true) := by
    unfold nrKept; congr 1; funext i; cases removed.contains i <;> simp
  omega

/-- the value the re-inserted vector has at position `i` -/
def reinsVal (removed : List Nat) (sol : List Rat) (i : Nat) : Rat :=
  if removed.contains i then 0 else sol.getD (nrKept removed i) 0

theorem reinsert_foldl_invariant (removed : List Nat) (sol : List Rat) (k : Nat)
    (hk : nrKept removed k ≤ sol.length) :
    (List.range k).foldl (fun s i => if removed.contains i then s.take i ++ [0] ++ s.drop i else s) sol
      = (List.range k).map (reinsVal removed sol) ++ sol.drop (nrKept removed k) := by
  induction k with
  | zero => simp [nrKept_zero]
  | succ k ih =>
    have hk' : nrKept removed k ≤ sol.length := le_trans (nrKept_mono removed (Nat.le_succ k)) hk
    rw [List.range_succ, List.foldl_append, ih hk', List.map_append]
    simp only [List.foldl_cons, List.foldl_nil, List.map_cons, List.map_nil]
    have hA : ((List.range k).map (reinsVal removed sol)).length = k := by simp
    rw [nrKept_succ] at hk ⊢
    by_cases hc : removed.contains k = true
    · simp only [hc, if_true, Nat.add_zero, reinsVal]
      rw [List.take_left' hA, List.drop_left' hA]
    · have hc' : removed.contains k = false := by simpa using hc
      simp only [hc', Bool.false_eq_true, if_false, reinsVal] at hk ⊢
      have hlt : nrKept removed k < sol.length := by omega
      rw [List.drop_eq_getElem_cons hlt]
      simp [List.getD_eq_getElem?_getD, List.getElem?_eq_getElem hlt]

theorem reinsertZeros_eq (n : Nat) (removed : List Nat) (sol : List Rat)
    (hr : ∀ i ∈ removed, i < n) (hnd : removed.Nodup) (hlen : sol.length + removed.length = n) :
    reinsertZeros n removed sol = (List.range n).map (reinsVal removed sol) := by
  have hfull := nrKept_full n removed sol hr hnd hlen
  unfold reinsertZeros
  rw [reinsert_foldl_invariant removed sol n (by omega), hfull]
  simp

theorem kept_take (removed : List Nat) (sol : List Rat) (k : Nat) (hk : nrKept removed k ≤ sol.length) :
    ((List.range k).filter fun i => !removed.contains i).map (reinsVal removed sol) = sol.take (nrKept removed k) := by
  induction k with
  | zero => simp [nrKept_zero]
  | succ k ih =>
    have hk' : nrKept removed k ≤ sol.length := le_trans (nrKept_mono removed (Nat.le_succ k)) hk
    rw [List.range_succ, List.filter_append, List.map_append, ih hk']
    rw [nrKept_succ] at hk ⊢
    by_cases hm : k ∈ removed
    · simp [hm]
    · have hc' : removed.contains k = false := by simpa using hm
      simp only [hc', Bool.false_eq_true, if_false] at hk ⊢
      have hlt : nrKept removed k < sol.length := by omega
      have hf : List.filter (fun i => !removed.contains i) [k] = [k] := by simp [hm]
      rw [hf, List.take_add_one]
      simp [reinsVal, hm, List.getD_eq_getElem?_getD, List.getElem?_eq_getElem hlt]

theorem reinsertZeros_kept' (n : Nat) (removed : List Nat) (sol : List Rat)
    (hr : ∀ i ∈ removed, i < n) (hnd : removed.Nodup) (hlen : sol.length + removed.length = n) :
    ((List.zip (List.range n) (reinsertZeros n removed sol)).filter fun p => !(removed.contains p.1)).map (·.2) = sol := by
  have hfull := nrKept_full n removed sol hr hnd hlen
  rw [reinsertZeros_eq n removed sol hr hnd hlen]
  have hz : List.zip (List.range n) ((List.range n).map (reinsVal removed sol))
      = (List.range n).map (fun i => (i, reinsVal removed sol i)) := by
    rw [List.zip_map_right, List.zip_eq_zipWith, List.map_zipWith]
    simp [List.zipWith_self]  
  rw [hz, List.filter_map, List.map_map]
  have := kept_take removed sol n (by omega)
  rw [hfull, List.take_length] at this
  exact this

theorem reinsertZeros_removed' (n : Nat) (removed : List Nat) (sol : List Rat)
    (hr : ∀ i ∈ removed, i < n) (hnd : removed.Nodup) (hlen : sol.length + removed.length = n) (i : Nat) (hi : i ∈ removed) :
    (reinsertZeros n removed sol).getD i 1 = 0 := by
  rw [reinsertZeros_eq n removed sol hr hnd hlen]
  have hin : i < n := hr i hi
  simp [List.getD_eq_getElem?_getD, hin, reinsVal, hi]

theorem reinsertZeros_length' (n : Nat) (removed : List Nat) (sol : List Rat)
    (hr : ∀ i ∈ removed, i < n) (hnd : removed.Nodup) (hlen : sol.length + removed.length = n) :
    (reinsertZeros n removed sol).length = n := by
  rw [reinsertZeros_eq n removed sol hr hnd hlen]; simp

end Forsys
