/- helper lemmas for Props/C18.lean -/
import ForsysModel.Model.StressTensor
import Mathlib.Tactic.Ring
import Mathlib.Tactic.Linarith
import Mathlib.Tactic.FieldSimp
import Mathlib.Algebra.Order.Field.Rat
import Mathlib.Algebra.BigOperators.Group.List.Basic
namespace Forsys


theorem sigma_symm_pf (cells : List CellRow) (edges : List EdgeRow) (c : Pt) (md2 : Rat) :
    (sigmaOf cells edges c md2).xy = (sigmaOf cells edges c md2).yx := by
  unfold sigmaOf
  simp only []
  split
  · rfl
  · rfl

theorem sigma_zero_outside_pf (cells : List CellRow) (edges : List EdgeRow) (c : Pt) (md2 : Rat)
    (h : selectCells cells c md2 = [] ∨ totalArea (selectCells cells c md2) = 0) :
    sigmaOf cells edges c md2 = Mat2.zero := by
  have h0 : totalArea (selectCells cells c md2) = 0 := by
    rcases h with h | h
    · rw [h]; rfl
    · exact h
  unfold sigmaOf
  simp only [h0, if_true]

theorem sigma_zero_of_no_centre_pf (cells : List CellRow) (edges : List EdgeRow) (c : Pt) (md2 : Rat)
    (h : ∀ k ∈ cells, md2 < (c.x - k.xcm) * (c.x - k.xcm) + (c.y - k.ycm) * (c.y - k.ycm)) :
    sigmaOf cells edges c md2 = Mat2.zero := by
  apply sigma_zero_outside_pf
  left
  unfold selectCells
  rw [List.filter_eq_nil_iff]
  intro k hk
  have := h k hk
  simp only [decide_eq_true_eq, not_le]
  exact this

theorem binEdges_length_pf (lo hi : Rat) (grid : Nat) : (binEdges lo hi grid).length = grid + 1 := by
  simp [binEdges]

theorem binEdges_ends_pf (lo hi : Rat) (grid : Nat) (h : lo ≠ hi) (hg : 0 < grid) :
    (binEdges lo hi grid).getD 0 0 = lo ∧ (binEdges lo hi grid).getD grid 0 = hi := by
  have hg' : (grid : Rat) ≠ 0 := by exact_mod_cast hg.ne'
  constructor
  · simp [binEdges, h, List.getD_eq_getElem?_getD]
  · simp [binEdges, h, List.getD_eq_getElem?_getD]
    field_simp
    ring

theorem binEdges_ends_degenerate_pf (lo : Rat) (grid : Nat) (hg : 0 < grid) :
    (binEdges lo lo grid).getD 0 0 = lo - 1/2 ∧ (binEdges lo lo grid).getD grid 0 = lo + 1/2 := by
  have hg' : (grid : Rat) ≠ 0 := by exact_mod_cast hg.ne'
  constructor
  · simp [binEdges, List.getD_eq_getElem?_getD]
  · simp [binEdges, List.getD_eq_getElem?_getD]
    field_simp
    ring

theorem binCenters_length_pf (bins : List Rat) : (binCenters bins).length = bins.length - 1 := by
  simp [binCenters]

theorem binCenters_getD_pf (bins : List Rat) (i : Nat) (hi : i < bins.length - 1) :
    (binCenters bins).getD i 0 = (bins.getD i 0 + bins.getD (i + 1) 0) / 2 := by
  simp [binCenters, List.getD_eq_getElem?_getD, hi]

theorem binCenters_binEdges_pf (lo hi : Rat) (grid i : Nat) (h : lo ≠ hi) (hi' : i < grid) :
    (binCenters (binEdges lo hi grid)).getD i 0 = lo + ((i : Rat) + 1/2) * ((hi - lo) / (grid : Rat)) := by
  rw [binCenters_getD_pf _ _ (by rw [binEdges_length_pf]; omega)]
  have h1 : i < grid + 1 := by omega
  have h2 : i + 1 < grid + 1 := by omega
  simp [binEdges, h, List.getD_eq_getElem?_getD, h1, h2]
  ring

theorem gridCenter_eq_binCenters_pf (xb yb : List Rat) (row col : Nat)
    (hr : row < xb.length - 1) (hc : col < yb.length - 1) :
    gridCenter xb yb row col = ⟨(binCenters xb).getD row 0, (binCenters yb).getD col 0⟩ := by
  rw [binCenters_getD_pf _ _ hr, binCenters_getD_pf _ _ hc]
  unfold gridCenter
  congr 1 <;> ring



theorem keyChars_inj_fin : ∀ r c r' c' : Fin 11,
    keyChars r c = keyChars r' c' → r = r' ∧ c = c' := by
  decide +kernel

theorem keyChars_injective_partial_pf (r c r' c' : Nat) (hr : r < 11) (hc : c < 11) (hr' : r' < 11) (hc' : c' < 11)
    (h : keyChars r c = keyChars r' c') : r = r' ∧ c = c' := by
  have := keyChars_inj_fin ⟨r, hr⟩ ⟨c, hc⟩ ⟨r', hr'⟩ ⟨c', hc'⟩ h
  simpa [Fin.ext_iff] using this

theorem key_injective_partial_pf (r c r' c' : Nat) (hr : r < 11) (hc : c < 11) (hr' : r' < 11) (hc' : c' < 11)
    (h : stKey r c = stKey r' c') : r = r' ∧ c = c' :=
  keyChars_injective_partial_pf r c r' c' hr hc hr' hc' (String.ofList_injective h)

/-! dictionary -/

theorem mem_dictSet {β : Type} (d : List (List Char × β)) (k : List Char) (v : β) (e : List Char × β)
    (he : e ∈ dictSet d k v) : e ∈ d ∨ e = (k, v) := by
  unfold dictSet at he
  split at he
  · rw [List.mem_map] at he
    obtain ⟨e', he', rfl⟩ := he
    split
    · rename_i hk
      right; rw [hk]
    · left; exact he'
  · rw [List.mem_append] at he
    rcases he with he | he
    · left; exact he
    · right; simpa using he

theorem mem_foldl_dictSet {α β : Type} (key : α → List Char) (val : α → β) (l : List α)
    (d0 : List (List Char × β)) (e : List Char × β)
    (he : e ∈ l.foldl (fun d t => dictSet d (key t) (val t)) d0) :
    e ∈ d0 ∨ ∃ t ∈ l, e = (key t, val t) := by
  induction l generalizing d0 with
  | nil => left; simpa using he
  | cons t l ih =>
    rw [List.foldl_cons] at he
    rcases ih _ he with h | ⟨t', ht', h⟩
    · rcases mem_dictSet _ _ _ _ h with h | h
      · left; exact h
      · right; exact ⟨t, by simp, h⟩
    · right; exact ⟨t', by simp [ht'], h⟩

theorem mem_stressLoop (cells : List CellRow) (edges : List EdgeRow) (xb yb : List Rat) (md2 : Rat) (grid : Nat)
    (t : (Nat × Nat) × Mat2) :
    t ∈ stressLoop cells edges xb yb md2 grid ↔
      t.1.1 < grid ∧ t.1.2 < grid ∧ t.2 = sigmaOf cells edges (gridCenter xb yb t.1.1 t.1.2) md2 := by
  unfold stressLoop
  simp only [List.mem_flatMap, List.mem_map, List.mem_range]
  constructor
  · rintro ⟨row, hr, col, hc, rfl⟩
    exact ⟨hr, hc, rfl⟩
  · rintro ⟨hr, hc, h⟩
    refine ⟨t.1.1, hr, t.1.2, hc, ?_⟩
    rw [← h]

theorem sigmas_from_loop_pf (cells : List CellRow) (edges : List EdgeRow) (xb yb : List Rat) (md2 : Rat) (grid : Nat)
    (e : List Char × Mat2) (he : e ∈ sigmasDict cells edges xb yb md2 grid) :
    ∃ row col, row < grid ∧ col < grid ∧ e.1 = keyChars row col ∧
      e.2 = sigmaOf cells edges (gridCenter xb yb row col) md2 := by
  unfold sigmasDict at he
  rcases mem_foldl_dictSet (fun t : (Nat × Nat) × Mat2 => keyChars t.1.1 t.1.2) (fun t => t.2) _ _ _ he
    with h | ⟨t, ht, h⟩
  · simp at h
  · rw [mem_stressLoop] at ht
    obtain ⟨h1, h2, h3⟩ := ht
    refine ⟨t.1.1, t.1.2, h1, h2, ?_, ?_⟩
    · rw [h]
    · rw [h]; exact h3

theorem dictGet?_map_ne {β : Type} (d : List (List Char × β)) (k k' : List Char) (v : β) (h : k' ≠ k) :
    dictGet? (d.map (fun e => if e.1 = k then (e.1, v) else e)) k' = dictGet? d k' := by
  have h3 : ¬ k = k' := fun h' => h h'.symm
  induction d with
  | nil => rfl
  | cons e d ih =>
    unfold dictGet? at ih ⊢
    rw [List.map_cons, List.find?_cons, List.find?_cons]
    by_cases hek : e.1 = k
    · have h2 : ¬ e.1 = k' := by rw [hek]; exact h3
      rw [if_pos hek]
      simp only [h2, decide_false]
      exact ih
    · rw [if_neg hek]
      by_cases hek' : e.1 = k'
      · simp only [hek', decide_true]
      · simp only [hek', decide_false]
        exact ih

theorem dictGet?_dictSet {β : Type} (d : List (List Char × β)) (k k' : List Char) (v : β) :
    dictGet? (dictSet d k v) k' = if k' = k then some v else dictGet? d k' := by
  induction d with
  | nil =>
    by_cases h : k' = k
    · simp [dictSet, dictGet?, h]
    · have : ¬ k = k' := fun h' => h h'.symm
      simp [dictSet, dictGet?, h, this]
  | cons e d ih =>
    by_cases hek : e.1 = k
    · have hs : dictSet (e :: d) k v = (e.1, v) :: d.map (fun e => if e.1 = k then (e.1, v) else e) := by
        simp [dictSet, hek]
      rw [hs]
      by_cases h : k' = k
      · simp [dictGet?, h, hek]
      · have h2 : ¬ e.1 = k' := by rw [hek]; exact fun h' => h h'.symm
        have := dictGet?_map_ne d k k' v h
        unfold dictGet? at this ⊢
        simp only [List.find?_cons, h2, decide_false, h, if_false]
        exact this
    · have hs : dictSet (e :: d) k v = e :: dictSet d k v := by
        unfold dictSet
        simp only [List.any_cons, hek, decide_false, Bool.false_or, List.map_cons, if_false]
        split <;> simp
      rw [hs]
      by_cases hek' : e.1 = k'
      · have : ¬ k' = k := by rw [← hek']; exact hek
        simp [dictGet?, hek', this]
      · unfold dictGet? at ih ⊢
        simp only [List.find?_cons, hek', decide_false]
        exact ih

theorem dictGet?_foldl {α β : Type} (key : α → List Char) (val : α → β) (k : List Char) (v : β) (l : List α)
    (d0 : List (List Char × β))
    (hv : ∀ t ∈ l, key t = k → val t = v)
    (h : dictGet? d0 k = some v ∨ ∃ t ∈ l, key t = k) :
    dictGet? (l.foldl (fun d t => dictSet d (key t) (val t)) d0) k = some v := by
  induction l generalizing d0 with
  | nil =>
    rcases h with h | ⟨t, ht, _⟩
    · simpa using h
    · simp at ht
  | cons t l ih =>
    rw [List.foldl_cons]
    apply ih
    · intro t' ht'; exact hv t' (by simp [ht'])
    · by_cases hk : k = key t
      · left
        rw [dictGet?_dictSet, if_pos hk, hv t (by simp) hk.symm]
      · rcases h with h | ⟨t', ht', h'⟩
        · left; rw [dictGet?_dictSet, if_neg hk]; exact h
        · rw [List.mem_cons] at ht'
          rcases ht' with rfl | ht'
          · exact absurd h'.symm hk
          · right; exact ⟨t', ht', h'⟩

theorem sigmas_lookup_partial_pf (cells : List CellRow) (edges : List EdgeRow) (xb yb : List Rat) (md2 : Rat)
    (grid row col : Nat) (hg : grid ≤ 11) (hr : row < grid) (hc : col < grid) :
    dictGet? (sigmasDict cells edges xb yb md2 grid) (keyChars row col)
      = some (sigmaOf cells edges (gridCenter xb yb row col) md2) := by
  unfold sigmasDict
  apply dictGet?_foldl (fun t : (Nat × Nat) × Mat2 => keyChars t.1.1 t.1.2) (fun t => t.2)
  · intro t ht hk
    rw [mem_stressLoop] at ht
    obtain ⟨h1, h2, h3⟩ := ht
    obtain ⟨e1, e2⟩ := keyChars_injective_partial_pf _ _ _ _ (by omega) (by omega) (by omega) (by omega) hk
    rw [h3, e1, e2]
  · right
    refine ⟨((row, col), sigmaOf cells edges (gridCenter xb yb row col) md2), ?_, rfl⟩
    rw [mem_stressLoop]
    exact ⟨hr, hc, rfl⟩



/-- geometric selection predicate -/
def inDisc (c : Pt) (md2 : Rat) (k : CellRow) : Bool :=
  decide ((c.x - k.xcm) * (c.x - k.xcm) + (c.y - k.ycm) * (c.y - k.ycm) ≤ md2)

theorem selectCells_map_setP {α : Type} (cs : List (CellRow × α)) (f : CellRow × α → Rat) (c : Pt) (md2 : Rat) :
    selectCells (cs.map fun t => t.1.setP (f t)) c md2
      = (cs.filter fun t => inDisc c md2 t.1).map fun t => t.1.setP (f t) := by
  unfold selectCells
  rw [List.filter_map]
  rfl

theorem selectEdges_map_setT {α : Type} (es : List (EdgeRow × α)) (g : EdgeRow × α → Rat) (ids : List Id) :
    selectEdges (es.map fun t => t.1.setT (g t)) ids
      = (es.filter fun t => ids.contains t.1.cell1 || ids.contains t.1.cell2).map fun t => t.1.setT (g t) := by
  unfold selectEdges
  rw [List.filter_map]
  rfl

theorem sum_map_lin {α : Type} (l : List α) (a b : Rat) (u v : α → Rat) :
    (l.map fun t => a * u t + b * v t).sum = a * (l.map u).sum + b * (l.map v).sum := by
  induction l with
  | nil => simp
  | cons t l ih => simp only [List.map_cons, List.sum_cons, ih]; ring

/-- explicit form of `sigmaOf` on inputs with fixed geometry -/
theorem sigmaOf_map {α β : Type} (cs : List (CellRow × α)) (es : List (EdgeRow × β))
    (f : CellRow × α → Rat) (g : EdgeRow × β → Rat) (c : Pt) (md2 : Rat) :
    sigmaOf (cs.map fun t => t.1.setP (f t)) (es.map fun t => t.1.setT (g t)) c md2 =
      let S := cs.filter fun t => inDisc c md2 t.1
      let ids := S.map fun t => t.1.id
      let E := es.filter fun t => ids.contains t.1.cell1 || ids.contains t.1.cell2
      let A := (S.map fun t => t.1.area).sum
      let P := (S.map fun t => f t * t.1.area).sum
      if A = 0 then Mat2.zero else
        ⟨(-P + (E.map fun t => g t * (t.1.vx * t.1.vx) / t.1.norm).sum) / A,
         (E.map fun t => g t * (t.1.vx * t.1.vy) / t.1.norm).sum / A,
         (E.map fun t => g t * (t.1.vx * t.1.vy) / t.1.norm).sum / A,
         (-P + (E.map fun t => g t * (t.1.vy * t.1.vy) / t.1.norm).sum) / A⟩ := by
  unfold sigmaOf
  simp only [selectCells_map_setP, totalArea, pressureAreaTerm, tensionXX, tensionYY, tensionXY,
    List.map_map, selectEdges_map_setT]
  rfl

theorem sigma_bilinear_pf (a b : Rat) (cs : List (CellRow × Rat × Rat)) (es : List (EdgeRow × Rat × Rat))
    (c : Pt) (md2 : Rat) :
    sigmaOf (cs.map fun t => t.1.setP (a * t.2.1 + b * t.2.2)) (es.map fun t => t.1.setT (a * t.2.1 + b * t.2.2)) c md2
      = Mat2.add
          (Mat2.smul a (sigmaOf (cs.map fun t => t.1.setP t.2.1) (es.map fun t => t.1.setT t.2.1) c md2))
          (Mat2.smul b (sigmaOf (cs.map fun t => t.1.setP t.2.2) (es.map fun t => t.1.setT t.2.2) c md2)) := by
  rw [sigmaOf_map cs es (fun t => a * t.2.1 + b * t.2.2) (fun t => a * t.2.1 + b * t.2.2),
    sigmaOf_map cs es (fun t => t.2.1) (fun t => t.2.1),
    sigmaOf_map cs es (fun t => t.2.2) (fun t => t.2.2)]
  simp only []
  split
  · simp [Mat2.add, Mat2.smul, Mat2.zero]
  · rename_i hA
    have e1 : ∀ (l : List (CellRow × Rat × Rat)) (w : CellRow × Rat × Rat → Rat),
        (l.map fun t => (a * t.2.1 + b * t.2.2) * w t).sum
          = a * (l.map fun t => t.2.1 * w t).sum + b * (l.map fun t => t.2.2 * w t).sum := by
      intro l w
      rw [← sum_map_lin]
      congr 1
      apply List.map_congr_left
      intro t _; ring
    have e2 : ∀ (l : List (EdgeRow × Rat × Rat)) (w : EdgeRow × Rat × Rat → Rat) (n : EdgeRow × Rat × Rat → Rat),
        (l.map fun t => (a * t.2.1 + b * t.2.2) * w t / n t).sum
          = a * (l.map fun t => t.2.1 * w t / n t).sum + b * (l.map fun t => t.2.2 * w t / n t).sum := by
      intro l w n
      rw [← sum_map_lin]
      congr 1
      apply List.map_congr_left
      intro t _; ring
    rw [e1 _ (fun t => t.1.area), e2 _ (fun t => t.1.vx * t.1.vx) (fun t => t.1.norm),
      e2 _ (fun t => t.1.vx * t.1.vy) (fun t => t.1.norm), e2 _ (fun t => t.1.vy * t.1.vy) (fun t => t.1.norm)]
    simp only [Mat2.add, Mat2.smul, Mat2.mk.injEq]
    refine ⟨?_, ?_, ?_, ?_⟩ <;> field_simp <;> ring

theorem mem_selectCells {cells : List CellRow} {c : Pt} {md2 : Rat} {k : CellRow}
    (h : k ∈ selectCells cells c md2) : k ∈ cells := by
  unfold selectCells at h
  exact (List.mem_filter.mp h).1

theorem tension_zero (edges : List EdgeRow) (ids : List Id) (hT : ∀ e ∈ edges, e.stress = 0) :
    tensionXX (selectEdges edges ids) = 0 ∧ tensionYY (selectEdges edges ids) = 0 ∧
      tensionXY (selectEdges edges ids) = 0 := by
  have hT' : ∀ e ∈ selectEdges edges ids, e.stress = 0 := by
    intro e he
    unfold selectEdges at he
    exact hT e (List.mem_filter.mp he).1
  unfold tensionXX tensionYY tensionXY
  refine ⟨?_, ?_, ?_⟩ <;>
  · apply List.sum_eq_zero
    intro x hx
    rw [List.mem_map] at hx
    obtain ⟨e, he, rfl⟩ := hx
    rw [hT' e he]; simp

theorem pressureAreaTerm_const (sel : List CellRow) (p : Rat) (hp : ∀ k ∈ sel, k.pressure = p) :
    pressureAreaTerm sel = -(p * totalArea sel) := by
  unfold pressureAreaTerm totalArea
  congr 1
  induction sel with
  | nil => simp
  | cons k l ih =>
    simp only [List.map_cons, List.sum_cons]
    rw [ih (fun k' hk' => hp k' (by simp [hk'])), hp k (by simp)]
    ring

theorem sigma_pure_pressure_pf (cells : List CellRow) (edges : List EdgeRow) (c : Pt) (md2 p : Rat)
    (hT : ∀ e ∈ edges, e.stress = 0) (hp : ∀ k ∈ cells, k.pressure = p)
    (hA : totalArea (selectCells cells c md2) ≠ 0) :
    sigmaOf cells edges c md2 = Mat2.scalar (-p) := by
  obtain ⟨t1, t2, t3⟩ := tension_zero edges ((selectCells cells c md2).map (·.id)) hT
  have hP := pressureAreaTerm_const (selectCells cells c md2) p (fun k hk => hp k (mem_selectCells hk))
  unfold sigmaOf
  simp only [if_neg hA, t1, t2, t3, hP, Mat2.scalar, Mat2.mk.injEq]
  refine ⟨?_, ?_, ?_, ?_⟩ <;> field_simp <;> ring

theorem sigma_zero_load_pf (cells : List CellRow) (edges : List EdgeRow) (c : Pt) (md2 : Rat)
    (hp : ∀ k ∈ cells, k.pressure = 0) (hT : ∀ e ∈ edges, e.stress = 0) :
    sigmaOf cells edges c md2 = Mat2.zero := by
  by_cases hA : totalArea (selectCells cells c md2) = 0
  · unfold sigmaOf
    simp only [hA, if_true]
  · rw [sigma_pure_pressure_pf cells edges c md2 0 hT hp hA]
    simp [Mat2.scalar, Mat2.zero]


theorem sigmas_symm_pf (cells : List CellRow) (edges : List EdgeRow) (xb yb : List Rat) (md2 : Rat) (grid : Nat)
    (e : List Char × Mat2) (he : e ∈ sigmasDict cells edges xb yb md2 grid) : e.2.xy = e.2.yx := by
  obtain ⟨row, col, _, _, _, h⟩ := sigmas_from_loop_pf cells edges xb yb md2 grid e he
  rw [h]
  exact sigma_symm_pf _ _ _ _

theorem principal_at_centres_partial_pf (cells : List CellRow) (edges : List EdgeRow) (xb yb : List Rat) (md2 : Rat)
    (grid : Nat) (hg : grid ≤ 11) (hx : xb.length = grid + 1) (hy : yb.length = grid + 1) :
    principalInputs (stressTensor cells edges xb yb md2 grid)
      = (List.range grid).flatMap fun row => (List.range grid).map fun col =>
          (((binCenters xb).getD row 0, (binCenters yb).getD col 0),
           some (sigmaOf cells edges ⟨(binCenters xb).getD row 0, (binCenters yb).getD col 0⟩ md2)) := by
  unfold principalInputs stressTensor
  simp only [binCenters_length_pf, hx, hy, Nat.add_sub_cancel]
  apply List.flatMap_congr
  intro row hrow
  apply List.map_congr_left
  intro col hcol
  rw [List.mem_range] at hrow hcol
  rw [sigmas_lookup_partial_pf cells edges xb yb md2 grid row col hg hrow hcol,
    gridCenter_eq_binCenters_pf xb yb row col (by omega) (by omega)]

end Forsys
